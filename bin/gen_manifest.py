#!/usr/bin/env python3
"""Regenerates /verif/MANIFEST.json from the table below (one entry per claimed property).
Properties not in the table are listed under not_applicable with the reason in NA."""
import json, os, subprocess

VERIF = os.path.dirname(os.path.dirname(os.path.abspath(__file__)))
ENGINE = "tlc+overlay-harness"
TECH = "explicit TLA+ specification checked by TLC, bound to the code by "

CLAIMS = {
 "C01": dict(cat="model_checking",
   text="Conn.tla models exec / recv / closeWithError / the node one critical section or channel operation per action; TLC checks NoMisroute and NoReuseWhileOutstanding (plus the C06 invariants) on every interleaving and fault placement of a bounded instance (2 requests x 2 stream ids, 3 requests in the thorough tier; cancellation, build failure, write failure, node close, external close, silent node, timer). Free-running executions of a real connection (8-16 callers, protocol 2 and 4, answers out of order / late / never / withheld until the id is seen again, unsolicited frames, stream exhaustion, coalescing, failures) are logged through hooks, the scripted node and the callers with one global sequence and the property invariants are evaluated by TLC on every recorded step, incl. ResponseReaches (a response the receiver has in hand before its caller waits, or the answer to a written request discarded as 'no handler') and TimeoutHonoured (no timeout outcome before Timeout can have elapsed); gate scenarios force the interleavings TLC's counterexamples and the seeded changes pointed at (closer vs give-up, late answers, a frame before addCall, cancellation / deadline while the writer is blocked, an answer during a stalled coalesced flush, handshake faults).",
   note="Bounded model; the in-memory FIFO pipe stands for TCP; the token echoed by the scripted node identifies the origin of a response; real executions are sampled (seeded), not exhaustive.",
   tech=TECH + "TLC evaluation of the property invariants on traces recorded from the real connection", ref="DESIGN.md section 7 C01"),
 "C06": dict(cat="model_checking",
   text="Same module as C01. TLC checks OutcomeOnce, OutcomeAllowed, ReleaseOnce, Conservation, NoLeak as invariants / action properties and RequestEnds, CloseReturns, CloseUnblocks as liveness under weak fairness of every driver thread (no state constraint), with deadlock detection. On recorded executions of a real connection TLC evaluates: one allowed outcome per call, every call returns (8 s watchdog = 200x the driver timeout), Close returns, each stream released at most once, observer finished/abandoned at most once, and at event-based quiescence AvailableStreams equals capacity minus the requests whose answer never came (both leak and over-release are flagged). The heartbeat is a modelled thread (its OPTIONS request runs through the same exec actions; HBStops, HBCloseJustified) and is paced at 1-3 ms in dedicated scenarios (answers prompt / late / never / ERROR / unparsable / wrong kind; a dead node makes it close the connection); TimeoutLimit is modelled (the caller past the limit closes the connection itself) and driven in scenarios that run alone. The wait for schema agreement that ends a schema-changing statement is evaluated with SchemaAgree.tla (cancellation and MaxWaitSchemaAgreement honoured).",
   note="Liveness is proved for the bounded model under fairness; on the real code it is observed with watchdogs. Numeric real-time bounds are not proved.",
   tech=TECH + "TLC evaluation of safety invariants on recorded traces; TLC liveness checking of the model", ref="DESIGN.md section 7 C06"),
 "C07": dict(cat="model_checking",
   text="Writer.tla models deadlineContextWriter and writeCoalescer (semaphore, enqueue, flush with the byte-count attribution loop, a socket that accepts any prefix, the later closeWithError of the failing caller); TLC checks WholeFrames, NothingAfterPartial, OkImpliesWhole, NotStartedNoBytes, CountExact on all interleavings of 3 writers and shows that without the refuse-after-torn rule a whole frame can follow a torn one. Every bounded (mode, frame sizes <= 3x3, failure offset) case is executed on the real writers and the recorded results, byte stream and the fate of a further write are validated by TLC; concurrent writers over a byte-at-a-time yielding socket and the byte streams of real connections (concurrent requests, coalescing, injected write failure; frames expected by an independent encoder) are validated by TLC as well. The coalescer is modelled at its flusher's grain (refuse on receipt / append and arm / timer fires: flush, broken = result of that flush; the variant in which a refused request arms the timer is refuted) and the case replay drives the real flusher with a faithful timer and two further writes a window apart; sockets also report context-like errors, 'closed' means the socket, and gate scenarios cover a context that ends while the writer is blocked behind a stalled write.",
   note="Sockets are modelled as accepting a prefix and then failing; frame sizes in the exhaustive replay are tiny (the logic is size-independent); real connections are sampled.",
   tech=TECH + "exhaustive TLC-generated case replay into the real writers and TLC validation of recorded byte streams", ref="DESIGN.md section 7 C07"),
 "C08": dict(cat="model_checking",
   text="Streams.tla models the allocator one atomic operation per step; TLC checks uniqueness, range, reserved id, counter exactness, no false exhaustion, Clear's report and termination on every interleaving of a bounded instance (real word size, 3 free ids straddling a word boundary). Every edge of the 2-thread state graph is replayed on the real allocator under a yield-point scheduler and the real state compared after each step; free-running goroutine executions on both capacities are validated by TLC against the abstract allocator.",
   note="Bounded instance (2-3 threads, 3 free ids); sync/atomic assumed sequentially consistent; larger capacities and thread counts covered only by recorded executions.",
   tech="TLA+ model checking (TLC) + exhaustive graph-walk replay into the real allocator + TLC trace validation", ref="DESIGN.md section 7 C08"),
}

 # appended entries
CLAIMS.update({
 "C09": dict(cat="exploration",
   text="Token.tla (on W64.tla byte-limb arithmetic) defines Murmur3 as Cassandra computes it (signed tail bytes, normalised minimum), the Random partitioner's absolute value of the signed 128-bit MD5, unsigned byte order for the ordered partitioner, routing-key composition and the ordering of token strings; it is self-tested against published vectors by ASSUME. TLC-generated keys (every tail length x 0-2 blocks x byte classes, composite keys, token strings) are executed on the real code (both getBlock variants, partitioners, createRoutingKey, Query/Batch.GetRoutingKey) and seeded random vectors recorded from the real code are judged by TLC against the specification.",
   note="Specification as oracle over enumerated and random inputs (not a proof); crypto/md5 digests are trusted inputs; routing-key component encodings limited to blob, text, int, bigint, boolean, uuid.",
   tech="TLA+ reference definitions evaluated by TLC as oracle: generated cases replayed into the real code + TLC validation of recorded vectors", ref="DESIGN.md section 7 C09"),
 "C19": dict(cat="exploration",
   text="Uuid.tla defines the parse language, print/parse inversion, the RFC 4122 version-1 layout (60-bit timestamp split, version, variant, clock sequence, node), time round trip to 100 ns, version 4 stamping and the Min/Max time-UUID bounds under Cassandra's signed-byte ordering; UuidGen.tla model-checks the generator (atomic clock-sequence increment gives pairwise distinct UUIDs below 2^14 per tick; TLC exhibits the wrap and the non-atomic variant). TLC-generated strings/timestamps are executed on the real API, recorded observations are judged by TLC, and a concurrent TimeUUID() run (16 goroutines) is checked distinct by TLC.",
   note="Specification as oracle over enumerated and random inputs; where the property text does not fix hyphen positions both outcomes are accepted; uniqueness assumes fewer than 2^14 UUIDs per 100 ns tick.",
   tech="TLA+ reference definitions evaluated by TLC as oracle in both directions; TLC model checking of the generator model; TLC validation of a recorded concurrent run", ref="DESIGN.md section 7 C19"),
})

CLAIMS.update({
 "C20": dict(cat="model_checking",
   text="Handshake.tla transcribes the documented TLS table and the property's verification rule (TLC checks they agree and form a function) and gives, for every configuration row, the required effective result (error, verify, server name, caller's config untouched) and the required outcome of real handshakes; HandshakeAuth.tla is the authentication state machine (invariants OnlyApproved, PlainFirst, NoneIsRefused, NothingAfterUnapproved, SessionIsAuthenticated). TLC enumerates the complete table (1890 rows) and every maximal behaviour of the machine; every row is executed on the real connConfig/setupTLSConfig/tlsConfigForAddr including real crypto/tls handshakes against right/wrong certificates, every behaviour is replayed as a real Session against the scripted node with the AUTH_RESPONSE bytes captured, and TLC judges the recorded vectors and traces.",
   note="crypto/tls and x509 are trusted for the verification itself (the property is about which configuration is used); certificates are generated at run time; the complete finite table and machine are enumerated (exhaustive), credentials are a bounded alphabet.",
   tech="TLA+ table/state machine enumerated by TLC, every row and behaviour replayed into the real code, recorded vectors and traces judged by TLC", ref="DESIGN.md section 7 C20"),
})

CLAIMS.update({
 "C02": dict(cat="exploration",
   text="Cql.tla (on BigNum.tla) defines Enc/Dec for the 21 scalar types and list/set/map (both framings)/tuple/UDT, and transcribes the documented conversion tables (Supported, Target, FitsKind). TLC generates every bounded (CQL type, source Go kind, target Go kind, boundary value, protocol) case with the expected outcome (error allowed / value every fitting target must read back, null vs empty vs zero kept apart, recursively inside collections); the harness runs Marshal then Unmarshal on the real code and TLC judges seeded random round-trip vectors recorded from the real code.",
   note="Bounded enumeration plus random vectors, specification as oracle (not a proof); standard-library conversions in the harness are trusted; outside the claim: null elements in protocol <=2 collections, Marshaler/UDTMarshaler implementations, nested interface{} targets, dates beyond the 32-bit day range.",
   tech="TLA+ reference definitions evaluated by TLC as oracle: TLC-generated round-trip cases replayed into Marshal/Unmarshal + TLC validation of recorded vectors", ref="DESIGN.md section 7 C12 / C02"),
 "C03": dict(cat="exploration",
   text="WireReq.tla is a total reference decoder (and encoder) of request frames written from the native protocol specifications v1-v5 (v5 as implemented: legacy header with the beta flag, v5 body layouts). TLC enumerates kinds x versions x optional-parameter subsets x value shapes (null/unset/named) x header options x stream ids; each case is built by the driver's real frame builders and TLC decides DecodeRequest(bytes) = logical request (header version, stream, opcode, length; every field), plus seeded random requests, a sample through the real Conn.exec/startup path, and the 65535/65536 boundaries.",
   note="Specification as oracle over enumerated and random requests; the count-versus-entries summary at the 65535 boundary is produced by a small Go reader (trusted, corroborated by the TLC decoder on wrapped cases); compression uses a stand-in codec here (C18 covers the real ones).",
   tech="TLA+ reference decoder evaluated by TLC on frames recorded from the real builders; TLC-generated case enumeration replayed into the real code", ref="DESIGN.md section 7 C03"),
 "C04": dict(cat="exploration",
   text="WireResp.tla is a reference encoder of response frames for protocol v1-v5 (all kinds, every ERROR code, RESULT metadata flag combinations, recursive type descriptors, header-flag prefixes) together with ExpView, the view an application must get. TLC generates the cases (BFS families plus -simulate for deeper type trees); the bytes are fed to the real framer and through a live Session against the scripted node (also snappy-compressed and with skipped metadata), the driver's complete view (fields, columns, types, paging state, prepared id, pk indexes, warnings, payload, trace id, every cell through Scan/MapScan/SliceMap/Scanner, bytes left after parsing) is recorded and TLC compares it with the logical record.",
   note="Specification as oracle over generated frames; v5 as the driver implements it (no segments, no result_metadata_id); MapScan/SliceMap compared for a handful of simple column types; compression by the driver's own SnappyCompressor.",
   tech="TLA+ reference encoder as generator and expected view; recorded driver views judged by TLC", ref="DESIGN.md section 7 C04"),
 "C10": dict(cat="model_checking",
   text="Topology.tla states Cassandra's placement (primary = owner of (previous, token], SimpleStrategy next distinct nodes, NetworkTopologyStrategy.calculateNaturalReplicas per-DC counts preferring unused racks) and the C10 predicates. TLC enumerates every bounded ring (nodes x vnodes x DCs x racks x replication factors incl. 0, larger than the DC, unknown DCs) as one state per case with the expected replicas for every ring position and lookup-token class; each case is executed on the real tokenRing / strategies / replicasFor (panics recorded) and seeded random larger rings recorded from the real code are judged by TLC predicates (same set, primary first, no duplicates, size bound, no panic).",
   note="Exhaustive within the stated ring bounds (<=4-5 nodes, <=2-3 tokens per node, 2 DCs, 2-3 racks) plus random rings up to 12 nodes; nodes without tokens are not generated.",
   tech="TLA+ reference placement; TLC enumeration of all bounded rings replayed into the real code; TLC validation of recorded vectors", ref="DESIGN.md section 7 C10"),
 "C11": dict(cat="model_checking",
   text="Policies.tla states the property predicates on an offered host sequence (finite, only up hosts, no duplicates, every known up host, tier-monotone, token-aware: nearest-tier up replicas first - primary first unless shuffling - then farther-tier replicas with non-local fallback, then the rest; rotation over successive picks) using Topology.tla's reference placement. TLC enumerates bounded cluster states x 15 policy/option combinations x routing-token classes; the real policy objects are driven (successive picks, add/remove/up/down histories, a concurrent safety run) and TLC evaluates the predicates on the REAL sequences; a differing but admissible order is drift only.",
   note="Bounded clusters (<=5 hosts, 2 DCs x 2 racks); where keyspace metadata is unavailable both readings of 'replica' are accepted; HostPoolHostPolicy is not covered; worlds include a host that owns no token, and a host is reported down in the middle of recorded plans; the concurrent run checks safety only (no panic, no nil host) on sampled schedules.",
   tech="TLA+ predicates evaluated by TLC on host sequences recorded from the real policies; TLC enumeration of bounded cluster states replayed into the real code", ref="DESIGN.md section 7 C11"),
 "C12": dict(cat="exploration",
   text="Cql.tla (on BigNum.tla, self-tested by ASSUME) defines the native-protocol encoding of every CQL type byte for byte (fixed widths, minimal varint, decimal, date with floor, time, timestamp, duration vints, inet, both collection framings, tuple/UDT with -1 for null). TLC generates boundary cases (every width's min/max/+-1, sign-extension edges, 2^63, 2^64-1, big varints/decimals, NaN payloads, pre-epoch dates, vint length boundaries, null/empty/zero, nesting <= 2, protocol 2 and 4) with the expected bytes or the expected refusal; Marshal/Unmarshal of the real code are run on them, and seeded random vectors recorded from the real code are judged by TLC in both directions (bytes = Enc(v); Dec(bytes) = v).",
   note="Bounded enumeration plus random vectors, specification as oracle (not a proof); the harness maps abstract values to Go values with the standard library (trusted).",
   tech="TLA+ reference encodings evaluated by TLC as oracle in both directions; TLC-generated boundary cases replayed into the real code", ref="DESIGN.md section 7 C12 / C02"),
 "C15": dict(cat="model_checking",
   text="Paging.tla models paged iteration (ConsumeRow, PrefetchTrigger, FetchOnce, NodePage ok/err, SwitchPage, End) and states the property as verdict operators: consumed rows = concatenation of the pages in order, request k carries exactly page k-1's state and is otherwise identical, no request after the last page, each page once, a failed fetch surfaces as the error, a caller-supplied state fetches exactly one page and exposes the next state. TLC checks 35k scenarios (<=4 pages, <=3 rows incl. empty pages, 4 prefetch ratios, 4 consumers, failure point, auto/manual) with termination under fairness, generates every case with its expectation, the cases run through real Sessions against the scripted node (prepared or not, skip-metadata or not, prefetch racing the consumer), and every recorded trace is validated by TLC step by step.",
   note="Protocol 4 only; a failed fetch is an ERROR response (connection loss during a fetch is C06/C13 territory); prefetch timing differences are drift, not violations; racing is timing-based (no gate inside nextIter.fetch).",
   tech="TLA+ model checked by TLC; TLC-generated cases replayed through real Sessions; recorded traces validated by TLC", ref="DESIGN.md section 7 C15"),
})

CLAIMS.update({
 "C13": dict(cat="model_checking",
   text="Executor.tla models executeQuery / speculate / run / do one action per decision point (shared host iterator and attempts counter, results channel, context cancellation) with ExecutorMon.tla, the property as a monitor: attempts never exceed what the policies allow (the exact bound sent <= Bmax + executionsStarted is proved; the tempting budget+1 is shown false under speculation), same host for Retry / next host for RetryNextHost, Rethrow and Ignore stop, nothing after cancellation, non-idempotent => one execution and never retried, exactly one result = first to complete with its own last error. TLC checks bounded scripts exhaustively; every sequential behaviour and sampled concurrent behaviours are replayed through the real queryExecutor with a gate scheduler (fake ExecutableQuery over a real Query, real retry and speculative policies, real round-robin policy), free-running executions are recorded, and TLC validates every trace against Executor.tla's actions and the monitor.",
   note="In-package level only (the end-to-end path through Session.Query/ExecuteBatch and the consistency written on the wire by the downgrading policy are not checked); 'first to complete' is strict only in gated replays.",
   tech="TLA+ model checked by TLC; TLC behaviours replayed through gates into the real executor; recorded traces validated by TLC", ref="DESIGN.md section 7 C13"),
 "C14": dict(cat="model_checking",
   text="Prepare.tla models the prepared-statement cache (LRU with in-flight entries, lookup-or-insert under one lock incl. eviction of in-flight entries, PREPARE ok/fail, flight completion with removal on failure, waiters, arity check, EXECUTE, UNPREPARED with id-matching eviction and re-execution, node-side forgetting) with the invariants Bounded, PreparedOnce (#PREPARE(key) <= 1 + #removals(key)), FailedNotCached, FailedReported, ExecAttribution, ArityChecked and liveness Terminates. TLC checks bounded instances, generates behaviours and targeted counterexample schedules that are forced on a real Session through gates (node answers on command), and free-running concurrent executors/batches against scripted nodes are recorded through the LRU hooks, OnEvicted and the node's frames and evaluated by TLC after every event.",
   note="Bounded instances (<=3 executors, 2 statements, cache size 1..3, <=2 forgets); a second keyspace exists only in-package; PREPARE timeouts and connection loss during PREPARE are not driven; step mismatches are drift.",
   tech="TLA+ model checked by TLC; TLC-generated schedules forced through gates on a real Session; recorded traces evaluated by TLC", ref="DESIGN.md section 7 C14"),
 "C18": dict(cat="exploration",
   text="Compress.tla holds total reference decoders for the snappy block format and Cassandra's length-prefixed LZ4 block format plus the negotiation and flag rules. TLC assembles streams the driver's encoders never produce (copy-4, long-form literals, overlapping copies, every length boundary) and their corrupt variants for the real Decode; bodies encoded by the real Encode are decoded by the TLA+ decoders (truncations and bit flips of real output are judged too); the negotiation table (SUPPORTED sets x configured compressor x protocol) is exhausted with real sessions whose captured frames are judged by TLC (compressed <=> flag set <=> negotiated and not OPTIONS/STARTUP; reference-decoded body = logical body); flagged or corrupt responses on live connections run in child processes.",
   note="Specification as oracle over generated and random bodies up to 4 KiB for the TLC decoders (larger bodies only round-tripped in Go: not decided); sessions use a stand-in 'lz4' inside package gocql because the lz4 module cannot be imported there (the real LZ4Compressor is exercised at Encode/Decode level in its own module); protocol v5 framing out of scope.",
   tech="TLA+ reference decoders evaluated by TLC as oracle in both directions; exhaustive negotiation table replayed through real sessions and judged by TLC", ref="DESIGN.md section 7 C18"),
})

CLAIMS.update({
 "C17": dict(cat="model_checking",
   text="Pool.tla models a host pool (fill: check under the read lock, re-check under the write lock, first connect synchronously, the rest concurrently, fillingStopped; connect ok/fail incl. the closed-late branch; HandleError; Close) with SizeBound, no dead connection kept, closed => empty and everything dialled eventually closed, one filler past the re-check, plus liveness; Lifecycle.tla models the refresh debouncer (debounce, refreshNow, three-way flusher select, stop), the event debouncer, the control connection's heartbeat/close/reconnect and Session.Close racing refreshes and a second Close (no deadlock, StopReturns, CloseReturns, NobodyStuck, GoroutinesExit), with each historical defect behind a Defect_* constant that TLC must refute when TRUE. Every gate-level edge of the small Pool graph is replayed on a real hostConnPool over the in-memory dialer and validated by TLC; TLC's deadlock counterexample and simulation walks are replayed on the real refreshDebouncer; randomized real Sessions (kills, node down/up, host removal, Close at a seeded point, double and concurrent Close, queries in flight) are checked after Close for hangs, leaked connections, leaked goroutines and refused queries, the observations validated by TLC; the thorough tier adds a -race build.",
   note="Data-race freedom is only observed by the race detector on executed schedules (TLA+ interleaves named atomic steps, not the Go memory model); real-time bounds are watchdogs (>= 10x the driver timeouts), not proofs; node events are not injected in the random runs (1 s debounce constants).",
   tech="TLA+ models checked by TLC incl. deadlock and liveness; exhaustive graph-walk replay into the real pool through gates; counterexample and simulation replay on the real debouncer; recorded session observations validated by TLC", ref="DESIGN.md section 7 C17"),
})

CLAIMS.update({
 "C16": dict(cat="model_checking",
   text="Cluster.tla holds the truth the control node reports, the property state computed from the history alone, a driver model and Viol(observed, property state), whose results are the violation classes (ring = reported valid unfiltered ids, lookups by id and by address agree, hostList a permutation, pool and policy membership equal the ring's, a node reported down not offered until connected again, no panic, bounded refreshes per event burst). TLC checks every history of <= 4 steps over 3 ids x 3 addresses and enumerates histories (all mixed histories of length 2, all refresh histories of length 3, sampled longer ones with invalid rows, duplicates, filters, refresh failures, control loss, event bursts); each is executed on a real Session over the scripted cluster (direct in-package refresh/event calls for breadth, real pushed EVENT frames through the 1 s debouncers for depth), the projected driver state is recorded at quiescence after every step and TLC evaluates Viol on every recorded state and compares transitions with the model (differences that contradict nothing are drift).",
   note="Steps are atomic up to quiescence (interleavings inside one refresh are not enumerated, no gates); only the round-robin policy is observed; the control connection always returns to the dedicated control node.",
   tech="TLA+ model checked by TLC; TLC-enumerated histories replayed into a real Session; recorded states judged by TLC", ref="DESIGN.md section 7 C16"),
})

CLAIMS.update({
 "C05": dict(cat="exploration",
   text="The specification contributes the input families and the oracle relation (allowed outcomes of any network input are value, error or closed connection - never a crash; allocation <= 64*len + 8 MiB for an uncompressed, fully received body): Gen_Malformed.tla derives from the WireResp.tla encoder every truncation of every well-formed response frame, every length/count/code/flag field replaced by boundary values, kind confusion and nested type descriptors; Gen_MalformedVal.tla the (type, bytes) pairs for Unmarshal; Gen_TypeStrings.tla the schema-table type grammars with every truncation and bracket imbalance; Gen_Positions.tla the conversation state machine composed with 'any well-formed answer at any position' (handshake, auth, REGISTER, queries, heartbeats, events, system table rows). Every input is executed on the real code in re-executed child processes (framer, Iter consumers, Unmarshal, handleEvent, type parser, live Sessions with their background goroutines); a dying batch is bisected to the single input; the observations (outcome, stack site, allocation) are judged by TLC (Trace_Malformed.tla).",
   note="The space of byte strings is infinite: what is decided is the enumerated malformation family, seeded random damage and all protocol positions (exploration, not a proof); compressed bodies are C18's domain; stack exhaustion by multi-MB-deep type descriptors is not covered; allocation driven by a [short] count (<= 6 MB) stays below the bound on purpose.",
   tech="TLA+ generators (structure-aware malformation, protocol positions) replayed into the real code in child processes; observations judged by TLC against the allowed-outcome relation", ref="DESIGN.md section 7 C05"),
})

NA = {}
DEFAULT_NA = "machinery under construction in this round; not yet claimed"


def main():
    props = [json.loads(l) for l in open(os.path.join(VERIF, "properties.jsonl"))]
    hooks = subprocess.run(["git", "-C", "/repo", "log", "--format=%h %s"], capture_output=True, text=True).stdout.splitlines()
    hook_commits = [l.split()[0] for l in hooks if l.split(" ", 1)[1].startswith("verif hooks")]
    checks = []
    for p in props:
        c = CLAIMS.get(p["id"])
        if not c:
            continue
        checks.append({
            "property_id": p["id"],
            "quick_cmd": "bin/check %s --tier quick" % p["id"],
            "thorough_cmd": "bin/check %s --tier thorough" % p["id"],
            "evidence_file": "evidence/%s.json" % p["id"],
            "replay_cmd_template": "bin/check %s --replay {path}" % p["id"],
            "engine": ENGINE,
            "level_claimed": {"category": c["cat"], "text": c["text"], "design_ref": c["ref"]},
            "level_note": c["note"],
            "technique": c["tech"],
        })
    m = {
        "version": 1,
        "setup_cmd": "true",
        "hooks": {
            "guard": "verif",
            "enable": "go test -c -tags verif -overlay <harness overlay>  (lib/vf.py build_gotest; /repo is never written)",
            "baseline_off_cmd": "for m in . ./lz4; do (cd /repo/$m && GOFLAGS=-mod=mod go test -json -vet=off -count=1 -timeout 25m ./...); done",
            "source_commits": hook_commits,
            "add_only": True,
        },
        "engines": [{
            "name": ENGINE, "path": "bin/check", "serves_properties": [c["property_id"] for c in checks],
            "kind_free_text": "explicit TLA+ specification (spec/*.tla) checked by TLC; bound to the code by replaying TLC-generated schedules/cases into the real code (go test -overlay harness) and by TLC validation of traces/vectors recorded from the real code",
        }],
        "checks": checks,
        "not_applicable": [{"property_id": p["id"], "reason": NA.get(p["id"], DEFAULT_NA)} for p in props if p["id"] not in CLAIMS],
        "notes": "See DESIGN.md (section 12 = as built). Exit 2 of a check means the machinery could not reach a verdict (never a statement about the code). Beyond the listed properties the specification also covers schema agreement and the metadata caches (bin/check X01: SchemaAgree.tla, SchemaMeta.tla) and the result-consumption / query-handle API (bin/check X02: Consume.tla, QueryLife.tla); their evidence is written to ext/evidence/. Independently seeded breaking changes with demonstrations and the checks' verdicts on them: seeded/ and notes/SEEDS.md; bin/selftest demonstrates the binding (corrupted traces rejected, removed hook noticed).",
    }
    json.dump(m, open(os.path.join(VERIF, "MANIFEST.json"), "w"), indent=1)
    print("MANIFEST.json: %d checks, %d not_applicable" % (len(checks), len(m["not_applicable"])))


if __name__ == "__main__":
    main()
