#!/usr/bin/env python3
"""Regenerates /verif/MANIFEST.json from the table below (one entry per claimed property).
Properties not in the table are listed under not_applicable with the reason in NA."""
import json, os, subprocess

VERIF = os.path.dirname(os.path.dirname(os.path.abspath(__file__)))
ENGINE = "tlc+overlay-harness"
TECH = "explicit TLA+ specification checked by TLC, bound to the code by "

CLAIMS = {
 "C01": dict(cat="model_checking",
   text="Conn.tla models exec / recv / closeWithError / the node one critical section or channel operation per action; TLC checks NoMisroute and NoReuseWhileOutstanding (plus the C06 invariants) on every interleaving and fault placement of a bounded instance (2 requests x 2 stream ids, 3 requests in the thorough tier; cancellation, build failure, write failure, node close, external close, silent node, timer). Free-running executions of a real connection (8-16 callers, protocol 2 and 4, answers out of order / late / never / withheld until the id is seen again, unsolicited frames, stream exhaustion, coalescing, failures) are logged through hooks, the scripted node and the callers with one global sequence and the property invariants are evaluated by TLC on every recorded step.",
   note="Bounded model; the in-memory FIFO pipe stands for TCP; the token echoed by the scripted node identifies the origin of a response; real executions are sampled (seeded), not exhaustive.",
   tech=TECH + "TLC evaluation of the property invariants on traces recorded from the real connection", ref="DESIGN.md section 7 C01"),
 "C06": dict(cat="model_checking",
   text="Same module as C01. TLC checks OutcomeOnce, OutcomeAllowed, ReleaseOnce, Conservation, NoLeak as invariants / action properties and RequestEnds, CloseReturns, CloseUnblocks as liveness under weak fairness of every driver thread (no state constraint), with deadlock detection. On recorded executions of a real connection TLC evaluates: one allowed outcome per call, every call returns (8 s watchdog = 200x the driver timeout), Close returns, each stream released at most once, observer finished/abandoned at most once, and at event-based quiescence AvailableStreams equals capacity minus the requests whose answer never came (both leak and over-release are flagged).",
   note="Liveness is proved for the bounded model under fairness; on the real code it is observed with watchdogs. Numeric real-time bounds are not proved.",
   tech=TECH + "TLC evaluation of safety invariants on recorded traces; TLC liveness checking of the model", ref="DESIGN.md section 7 C06"),
 "C07": dict(cat="model_checking",
   text="Writer.tla models deadlineContextWriter and writeCoalescer (semaphore, enqueue, flush with the byte-count attribution loop, a socket that accepts any prefix, the later closeWithError of the failing caller); TLC checks WholeFrames, NothingAfterPartial, OkImpliesWhole, NotStartedNoBytes, CountExact on all interleavings of 3 writers and shows that without the refuse-after-torn rule a whole frame can follow a torn one. Every bounded (mode, frame sizes <= 3x3, failure offset) case is executed on the real writers and the recorded results, byte stream and the fate of a further write are validated by TLC; concurrent writers over a byte-at-a-time yielding socket and the byte streams of real connections (concurrent requests, coalescing, injected write failure; frames expected by an independent encoder) are validated by TLC as well.",
   note="Sockets are modelled as accepting a prefix and then failing; frame sizes in the exhaustive replay are tiny (the logic is size-independent); real connections are sampled.",
   tech=TECH + "exhaustive TLC-generated case replay into the real writers and TLC validation of recorded byte streams", ref="DESIGN.md section 7 C07"),
 "C08": dict(cat="model_checking",
   text="Streams.tla models the allocator one atomic operation per step; TLC checks uniqueness, range, reserved id, counter exactness, no false exhaustion, Clear's report and termination on every interleaving of a bounded instance (real word size, 3 free ids straddling a word boundary). Every edge of the 2-thread state graph is replayed on the real allocator under a yield-point scheduler and the real state compared after each step; free-running goroutine executions on both capacities are validated by TLC against the abstract allocator.",
   note="Bounded instance (2-3 threads, 3 free ids); sync/atomic assumed sequentially consistent; larger capacities and thread counts covered only by recorded executions.",
   tech="TLA+ model checking (TLC) + exhaustive graph-walk replay into the real allocator + TLC trace validation", ref="DESIGN.md section 7 C08"),
}

 # appended entries
CLAIMS.update({
 "C09": dict(cat="exploration",
   text="Token.tla (on W64.tla byte-limb arithmetic) defines Murmur3 as Cassandra computes it (signed tail bytes, normalised minimum), the Random partitioner's absolute value of the signed 128-bit MD5, unsigned byte order for the ordered partitioner, routing-key composition and the ordering of token strings; it is self-tested against published vectors by ASSUME. TLC-generated keys (every tail length x 0-2 blocks x byte classes, composite keys, token strings) are executed on the real code (both getBlock variants, partitioners, createRoutingKey, Query/Batch.GetRoutingKey) and seeded random vectors recorded from the real code are judged by TLC against the specification.",
   note="Specification as oracle over enumerated and random inputs (not a proof); crypto/md5 digests are trusted inputs; routing-key component encodings limited to blob, text, int, bigint, boolean, uuid.",
   tech="TLA+ reference definitions evaluated by TLC as oracle: generated cases replayed into the real code + TLC validation of recorded vectors", ref="DESIGN.md section 7 C09"),
 "C19": dict(cat="exploration",
   text="Uuid.tla defines the parse language, print/parse inversion, the RFC 4122 version-1 layout (60-bit timestamp split, version, variant, clock sequence, node), time round trip to 100 ns, version 4 stamping and the Min/Max time-UUID bounds under Cassandra's signed-byte ordering; UuidGen.tla model-checks the generator (atomic clock-sequence increment gives pairwise distinct UUIDs below 2^14 per tick; TLC exhibits the wrap and the non-atomic variant). TLC-generated strings/timestamps are executed on the real API, recorded observations are judged by TLC, and a concurrent TimeUUID() run (16 goroutines) is checked distinct by TLC.",
   note="Specification as oracle over enumerated and random inputs; where the property text does not fix hyphen positions both outcomes are accepted; uniqueness assumes fewer than 2^14 UUIDs per 100 ns tick.",
   tech="TLA+ reference definitions evaluated by TLC as oracle in both directions; TLC model checking of the generator model; TLC validation of a recorded concurrent run", ref="DESIGN.md section 7 C19"),
})

CLAIMS.update({
 "C20": dict(cat="model_checking",
   text="Handshake.tla transcribes the documented TLS table and the property's verification rule (TLC checks they agree and form a function) and gives, for every configuration row, the required effective result (error, verify, server name, caller's config untouched) and the required outcome of real handshakes; HandshakeAuth.tla is the authentication state machine (invariants OnlyApproved, PlainFirst, NoneIsRefused, NothingAfterUnapproved, SessionIsAuthenticated). TLC enumerates the complete table (1890 rows) and every maximal behaviour of the machine; every row is executed on the real connConfig/setupTLSConfig/tlsConfigForAddr including real crypto/tls handshakes against right/wrong certificates, every behaviour is replayed as a real Session against the scripted node with the AUTH_RESPONSE bytes captured, and TLC judges the recorded vectors and traces.",
   note="crypto/tls and x509 are trusted for the verification itself (the property is about which configuration is used); certificates are generated at run time; the complete finite table and machine are enumerated (exhaustive), credentials are a bounded alphabet.",
   tech="TLA+ table/state machine enumerated by TLC, every row and behaviour replayed into the real code, recorded vectors and traces judged by TLC", ref="DESIGN.md section 7 C20"),
})

NA = {}
DEFAULT_NA = "machinery under construction in this round; not yet claimed"


def main():
    props = [json.loads(l) for l in open(os.path.join(VERIF, "properties.jsonl"))]
    hooks = subprocess.run(["git", "-C", "/repo", "log", "--format=%h %s"], capture_output=True, text=True).stdout.splitlines()
    hook_commits = [l.split()[0] for l in hooks if l.split(" ", 1)[1].startswith("verif hooks")]
    checks = []
    for p in props:
        c = CLAIMS.get(p["id"])
        if not c:
            continue
        checks.append({
            "property_id": p["id"],
            "quick_cmd": "bin/check %s --tier quick" % p["id"],
            "thorough_cmd": "bin/check %s --tier thorough" % p["id"],
            "evidence_file": "evidence/%s.json" % p["id"],
            "replay_cmd_template": "bin/check %s --replay {path}" % p["id"],
            "engine": ENGINE,
            "level_claimed": {"category": c["cat"], "text": c["text"], "design_ref": c["ref"]},
            "level_note": c["note"],
            "technique": c["tech"],
        })
    m = {
        "version": 1,
        "setup_cmd": "true",
        "hooks": {
            "guard": "verif",
            "enable": "go test -c -tags verif -overlay <harness overlay>  (lib/vf.py build_gotest; /repo is never written)",
            "baseline_off_cmd": "for m in . ./lz4; do (cd /repo/$m && GOFLAGS=-mod=mod go test -json -vet=off -count=1 -timeout 25m ./...); done",
            "source_commits": hook_commits,
            "add_only": True,
        },
        "engines": [{
            "name": ENGINE, "path": "bin/check", "serves_properties": [c["property_id"] for c in checks],
            "kind_free_text": "explicit TLA+ specification (spec/*.tla) checked by TLC; bound to the code by replaying TLC-generated schedules/cases into the real code (go test -overlay harness) and by TLC validation of traces/vectors recorded from the real code",
        }],
        "checks": checks,
        "not_applicable": [{"property_id": p["id"], "reason": NA.get(p["id"], DEFAULT_NA)} for p in props if p["id"] not in CLAIMS],
        "notes": "See DESIGN.md. Exit 2 of a check means the machinery could not reach a verdict (never a statement about the code).",
    }
    json.dump(m, open(os.path.join(VERIF, "MANIFEST.json"), "w"), indent=1)
    print("MANIFEST.json: %d checks, %d not_applicable" % (len(checks), len(m["not_applicable"])))


if __name__ == "__main__":
    main()
