"""Shared machinery for /verif checks: TLC runner, Go overlay build, evidence, verdicts.

Exit codes of a check:  0 = property held on everything explored (KNOWN-FINDING lines
allowed), 1 = VIOLATION (real code broke the property; replay file written),
2 = machinery problem (build failure, TLC error, timeout, vacuity) - never a verdict.
"""
import json, os, re, shutil, subprocess, sys, tempfile, time, glob, hashlib, threading

VERIF = os.path.dirname(os.path.dirname(os.path.abspath(__file__)))
REPO = os.environ.get("VERIF_REPO", "/repo")
SPEC = os.path.join(VERIF, "spec")
HARNESS = os.path.join(VERIF, "harness")
JAR = "/opt/veriftools/tla/tla2tools.jar:/opt/veriftools/tla/CommunityModules-deps.jar"
NCPU = os.cpu_count() or 4

GOENV = dict(GOFLAGS="-mod=mod", GOPROXY="off", GOSUMDB="off", GOTOOLCHAIN="local")


class Inconclusive(Exception):
    """Machinery failure: exit 2, never a verdict about the code."""


class Ctx:
    def __init__(self, prop, tier, seed):
        self.prop = prop
        self.tier = tier
        self.seed = seed
        self.t0 = time.time()
        self.tmp = tempfile.mkdtemp(prefix="vf_%s_" % prop, dir=os.environ.get("VERIF_TMP") or None)
        self.violations = []      # list of dict(key=..., what=..., detail=...)
        self.notes = []
        self.drift = []
        self.cov = {}             # coverage dict for evidence
        self.assumptions = []
        self.level = "model_checking"
        self._bins = {}

    def cleanup(self):
        if os.environ.get("VERIF_KEEP_TMP"):
            print("kept scratch dir", self.tmp)
            return
        shutil.rmtree(self.tmp, ignore_errors=True)

    def log(self, *a):
        print("[%s %6.1fs]" % (self.prop, time.time() - self.t0), *a, flush=True)

    def violation(self, key, what, detail=None):
        """Record a property violation observed on the REAL code. key identifies the
        failing input / site / history class (matched against known_findings.json)."""
        self.violations.append(dict(key=key, what=what, detail=detail))

    def add_drift(self, what):
        self.drift.append(what)


# ------------------------------------------------------------------ TLC

class TlcResult:
    def __init__(self):
        self.rc = None
        self.out = ""
        self.generated = 0
        self.distinct = 0
        self.depth = 0
        self.ok = False           # finished without error
        self.violated = None      # name of violated invariant / property, or "deadlock"
        self.error = None         # other error text
        self.coverage_zero = []
        self.wall = 0.0
        self.timeout = False


_spec_lock = threading.Lock()


def _scratch_spec_dir(ctx, name):
    """TLC litters next to the spec: work on a scratch copy of spec/."""
    d = os.path.join(ctx.tmp, "spec_" + name)
    with _spec_lock:
        if not os.path.isdir(d):
            tmpd = d + ".part"
            shutil.copytree(SPEC, tmpd)
            os.rename(tmpd, d)
    return d


def run_tlc(ctx, module, cfg, workers=None, heap="4g", timeout=600, simulate=None, depth=None,
            coverage=False, env=None, extra=None, deadlock=True, name=None, dfs=False, quiet=False):
    """Run TLC on spec/<module>.tla with spec/<cfg>. env: extra environment variables
    (readable from TLA+ through IOEnv). Returns TlcResult."""
    name = name or (module + "_" + os.path.splitext(os.path.basename(cfg))[0])
    d = _scratch_spec_dir(ctx, "w")
    meta = tempfile.mkdtemp(prefix="meta_", dir=ctx.tmp)
    jopts = "-Xss512m"
    if dfs:
        jopts += " -Dtlc2.tool.queue.IStateQueue=StateDeque"
    cmd = ["timeout", "-k", "10", str(timeout), "java", "-XX:+UseParallelGC", "-Xmx" + heap, "-Xss512m"]
    if dfs:
        cmd.append("-Dtlc2.tool.queue.IStateQueue=StateDeque")
    cmd += ["-cp", JAR, "tlc2.TLC", "-metadir", meta, "-config", cfg,
            "-workers", str(workers or NCPU)]
    if not deadlock:
        cmd.append("-deadlock")
    if coverage:
        cmd += ["-coverage", "1"]
    if simulate:
        cmd += ["-simulate", simulate]
    if depth:
        cmd += ["-depth", str(depth)]
    if extra:
        cmd += list(extra)
    cmd.append(module)
    e = dict(os.environ)
    e.pop("JAVA_TOOL_OPTIONS", None)
    if env:
        e.update({k: str(v) for k, v in env.items()})
    t0 = time.time()
    p = subprocess.run(cmd, cwd=d, env=e, stdout=subprocess.PIPE, stderr=subprocess.STDOUT, text=True,
                       errors="replace")
    r = TlcResult()
    r.wall = time.time() - t0
    r.rc = p.returncode
    r.out = p.stdout
    shutil.rmtree(meta, ignore_errors=True)
    if p.returncode in (124, 137):
        r.timeout = True
    m = None
    for m in re.finditer(r"(\d+) states generated, (\d+) distinct states found", r.out):
        pass
    if m:
        r.generated, r.distinct = int(m.group(1)), int(m.group(2))
    m = re.search(r"The depth of the complete state graph search is (\d+)", r.out)
    if m:
        r.depth = int(m.group(1))
    m = re.search(r"Invariant (\S+) is violated", r.out)
    if m:
        r.violated = m.group(1)
    m2 = re.search(r"Action property (\S+) is violated", r.out)
    if m2:
        r.violated = m2.group(1)
    mt = re.search(r"Temporal propert(?:y|ies) (.*?) (?:was|were) violated", r.out)
    if mt:
        r.violated = "temporal:" + mt.group(1).strip()
    elif "Temporal properties were violated" in r.out:
        r.violated = "temporal"
    if re.search(r"Deadlock reached", r.out):
        r.violated = "deadlock"
    if "Model checking completed. No error has been found." in r.out or \
       (simulate and p.returncode == 0 and "Error:" not in r.out):
        r.ok = True
    elif simulate and r.timeout and "Error:" not in r.out:
        r.ok = True  # simulation stopped by the outer timeout
    if not r.ok and not r.violated:
        em = re.search(r"Error: (.*(?:\n.*){0,12})", r.out)
        r.error = em.group(1) if em else "TLC exit %s" % p.returncode
    if coverage:
        r.coverage_zero = re.findall(r"^<(\w+) line[^\n]*>: 0:0$", r.out, re.M)
    if not quiet:
        ctx.log("TLC %s: gen=%d distinct=%d depth=%d ok=%s violated=%s %.1fs%s" % (
            name, r.generated, r.distinct, r.depth, r.ok, r.violated, r.wall,
            " TIMEOUT" if r.timeout else ""))
    open(os.path.join(ctx.tmp, "tlc_%s.out" % name), "w").write(r.out)
    return r


def tlc_must_pass(ctx, *a, **kw):
    """Model pass: the model itself must satisfy its properties; anything else is a
    machinery problem (exit 2), not a verdict about the code."""
    r = run_tlc(ctx, *a, **kw)
    if not r.ok:
        tail = "\n".join(r.out.splitlines()[-40:])
        raise Inconclusive("model pass failed (%s): violated=%s error=%s\n%s" % (a[:2], r.violated, r.error, tail))
    return r


def tlc_printed(out, tag):
    """Extract values printed with PrintT(<<"TAG", ToJson(x)>>) -> list of parsed JSON.
    TLC may wrap a long tuple after the comma; both layouts are accepted."""
    res = []
    pat = re.compile(r'^<<"%s",[ \t]*\n?[ \t]*"(.*)"[ \t]*>>[ \t]*$' % re.escape(tag), re.M)
    for m in pat.finditer(out):
        s = m.group(1).replace('\\"', '"').replace("\\\\", "\\")
        res.append(json.loads(s))
    return res


# ------------------------------------------------------------------ Go

def go_env():
    e = dict(os.environ)
    e.update(GOENV)
    return e


def build_gotest(ctx, pkg=".", harness_dirs=None, race=False, tags="verif", extra_overlay=None):
    """go test -c of REPO/<pkg> with the *_test.go files of harness/<d> (for each d in
    harness_dirs) overlaid into the package directory; /repo is never written.  Returns the
    path of the test binary.  Env VERIF_EXTRA_OVERLAY=<json file {"/repo/x.go": "/path/mutated.go"}>
    additionally replaces repository sources (used by bin/mutant and the selftest)."""
    if isinstance(harness_dirs, str):
        harness_dirs = [harness_dirs]
    harness_dirs = list(harness_dirs or [])
    xo = dict(extra_overlay or {})
    if os.environ.get("VERIF_EXTRA_OVERLAY"):
        xo.update(json.load(open(os.environ["VERIF_EXTRA_OVERLAY"])))
    key = (pkg, tuple(harness_dirs), race, tags, json.dumps(xo, sort_keys=True))
    if key in ctx._bins:
        return ctx._bins[key]
    pkgdir = os.path.normpath(os.path.join(REPO, pkg))
    repl = {}
    for d in harness_dirs:
        hd = os.path.join(HARNESS, d)
        fs = sorted(glob.glob(os.path.join(hd, "*.go")))
        if not fs:
            raise Inconclusive("no harness files in %s" % hd)
        for f in fs:
            repl[os.path.join(pkgdir, os.path.basename(f))] = f
    repl.update(xo)
    tag = hashlib.md5(repr(key).encode()).hexdigest()[:8]
    ov = os.path.join(ctx.tmp, "overlay_%s.json" % tag)
    json.dump({"Replace": repl}, open(ov, "w"))
    out = os.path.join(ctx.tmp, "t_%s.test" % tag)
    cmd = ["go", "test", "-c", "-vet=off", "-tags", tags, "-overlay", ov, "-o", out]
    if race:
        cmd.append("-race")
    cmd.append(".")
    t0 = time.time()
    p = subprocess.run(cmd, cwd=pkgdir, env=go_env(), stdout=subprocess.PIPE, stderr=subprocess.STDOUT, text=True)
    if p.returncode != 0 or not os.path.exists(out):
        raise Inconclusive("go test -c failed in %s:\n%s" % (pkgdir, p.stdout[-4000:]))
    ctx.log("built %s (%s%s) in %.1fs" % (pkg, "+".join(harness_dirs), " race" if race else "", time.time() - t0))
    ctx._bins[key] = out
    return out


def run_gotest(ctx, binary, run, env=None, timeout=600, cwd=None, check=True):
    """Run test function(s) of a built binary. Returns (rc, output)."""
    e = go_env()
    e["VF_SEED"] = str(ctx.seed)
    e["VF_TIER"] = ctx.tier
    e["VF_OUT"] = ctx.tmp
    if env:
        e.update({k: str(v) for k, v in env.items()})
    cmd = ["timeout", "-k", "10", str(timeout), binary, "-test.run", run, "-test.v", "-test.timeout", "%ds" % (timeout + 30)]
    p = subprocess.run(cmd, cwd=cwd or ctx.tmp, env=e, stdout=subprocess.PIPE, stderr=subprocess.STDOUT, text=True,
                       errors="replace")
    if check:
        if p.returncode in (124, 137):
            raise Inconclusive("driver %s timed out after %ss\n%s" % (run, timeout, p.stdout[-3000:]))
        if "--- PASS" not in p.stdout and "--- FAIL" not in p.stdout and "--- SKIP" not in p.stdout:
            raise Inconclusive("driver %s did not run (rc=%s):\n%s" % (run, p.returncode, p.stdout[-3000:]))
    return p.returncode, p.stdout


def read_ndjson(path):
    res = []
    with open(path) as f:
        for line in f:
            line = line.strip()
            if line:
                res.append(json.loads(line))
    return res


def write_ndjson(path, recs):
    with open(path, "w") as f:
        for r in recs:
            f.write(json.dumps(r, separators=(",", ":"), sort_keys=True) + "\n")


# ------------------------------------------------------------------ verdict / evidence

def load_known():
    p = os.path.join(VERIF, "known_findings.json")
    if not os.path.exists(p):
        return []
    return json.load(open(p)).get("findings", [])


def finish(ctx):
    """Classify violations against known_findings.json, write evidence, print verdict
    lines, return exit code."""
    known = [k for k in load_known() if k.get("property") == ctx.prop and k.get("status") == "open"]
    new, old = [], {}
    for v in ctx.violations:
        hit = None
        for k in known:
            if re.fullmatch(k["match"], v["key"]):
                hit = k
                break
        if hit:
            old.setdefault(hit["id"], []).append(v)
        else:
            new.append(v)
    for kid, vs in old.items():
        k = [x for x in known if x["id"] == kid][0]
        print("KNOWN-FINDING: property=%s %s [%s; %d occurrence(s) this run, e.g. %s]" % (
            ctx.prop, k["what"], kid, len(vs), vs[0]["what"]))
    for dmsg in ctx.drift[:10]:
        print("DRIFT: property=%s %s" % (ctx.prop, dmsg))
    rc = 0
    if new:
        rc = 1
        os.makedirs(os.path.join(VERIF, "replays"), exist_ok=True)
        rp = os.path.join(VERIF, "replays", "%s_%s_%d.json" % (ctx.prop, ctx.tier, ctx.seed))
        json.dump(dict(property=ctx.prop, tier=ctx.tier, seed=ctx.seed, violations=new[:50]), open(rp, "w"), indent=1,
                  default=str)
        for v in new[:5]:
            print("  violation: [%s] %s" % (v["key"], v["what"]))
        print("VIOLATION property=%s replay=%s" % (ctx.prop, rp))
    cov = dict(ctx.cov)
    cov.setdefault("samples", [])
    if ctx.drift:
        cov["model_conformance"] = False
        cov["drift"] = ctx.drift[:20]
    ev = dict(property_id=ctx.prop, tier=ctx.tier, seed=ctx.seed, level=ctx.level, coverage=cov,
              assumptions=ctx.assumptions, wall_s=round(time.time() - ctx.t0, 2),
              violations=len(new), known_findings_hit=sorted(old.keys()), notes=ctx.notes)
    # extension checks (X01, X02, ...: behaviour outside the 20 listed properties) keep their evidence apart
    evdir = os.path.join(VERIF, "ext", "evidence") if ctx.prop.startswith("X") else os.path.join(VERIF, "evidence")
    if os.environ.get("VERIF_EXTRA_OVERLAY"):
        # a run against an overlaid (seeded / mutated) tree is an experiment: its evidence must not replace the
        # evidence of /repo itself
        evdir = os.environ.get("VERIF_EVIDENCE_DIR") or os.path.join("/tmp", "vf_overlay_evidence")
    os.makedirs(evdir, exist_ok=True)
    json.dump(ev, open(os.path.join(evdir, ctx.prop + ".json"), "w"), indent=1, default=str)
    if rc == 0:
        print("OK property=%s tier=%s seed=%d wall=%.1fs" % (ctx.prop, ctx.tier, ctx.seed, time.time() - ctx.t0))
    return rc
