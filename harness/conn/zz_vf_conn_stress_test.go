package gocql

// C01 / C06 / C07: free-running executions of one real connection against a scripted node
// (answers out of order, late, never, withheld until the stream id is seen again), with
// cancellations, build failures, write failures, node-side and external close. Every
// execution is logged (hooks + node + callers, one global sequence) and validated by TLC.

import (
	"context"
	"errors"
	"fmt"
	"math/rand"
	"net"
	"os"
	"strings"
	"sync"
	"sync/atomic"
	"testing"
	"time"
)

type vfConnFailBuilder struct{}

func (vfConnFailBuilder) buildFrame(f *framer, streamID int) error {
	return errors.New("vf: injected frame build failure")
}

type vfConnObserver struct{ tr *vfTracer }

type vfConnObsCtx struct {
	tr  *vfTracer
	req int
}

func (o *vfConnObserver) StreamContext(ctx context.Context) StreamObserverContext {
	id, _ := ctx.Value(vfReqKey{}).(int)
	return &vfConnObsCtx{tr: o.tr, req: id}
}
func (c *vfConnObsCtx) StreamStarted(ObservedStream)   { c.tr.Emit("obs_started", "req", c.req) }
func (c *vfConnObsCtx) StreamAbandoned(ObservedStream) { c.tr.Emit("obs_abandoned", "req", c.req) }
func (c *vfConnObsCtx) StreamFinished(ObservedStream)  { c.tr.Emit("obs_finished", "req", c.req) }

type vfConnNopHandler struct{ closedCh chan struct{} }

func (h *vfConnNopHandler) HandleError(conn *Conn, err error, closed bool) {
	if closed {
		select {
		case <-h.closedCh:
		default:
			close(h.closedCh)
		}
	}
}

// vfConnScenario runs one scenario and returns its event log.
type vfConnScenarioCfg struct {
	Kind     string // plain | srvclose | extclose | writefail | buildfail | exhaust | coalesce
	Proto    int
	Callers  int
	PerCall  int
	Seed     int64
	Coalesce bool
	HB       string // "": the heartbeat keeps its real 1 s / 5 s pace (it hardly ever fires); "on": a beat every 1-3 ms,
	// the node answering OPTIONS promptly / late / never / with an ERROR / with a frame of another kind / with an
	// unparsable SUPPORTED; "dead": from some point on the node never answers OPTIONS again
	TLimit  int // value of the package variable TimeoutLimit during this scenario (such scenarios run alone)
	ErrKind int // writefail: what the failing socket reports (0 network error, 1 wraps DeadlineExceeded, 2 wraps Canceled)
}

type vfConnPendingAnswer struct {
	stream int
	tok    string
	frame  *vfFrame
}

// vfConnOtherVersion: a protocol version with the same header layout as v, but not v
func vfConnOtherVersion(v byte) byte {
	switch v & 0x7f {
	case 1:
		return 2
	case 2:
		return 1
	case 3:
		return 4
	default:
		return 3
	}
}

func vfConnOutcome(err error, echoed string, want string) string {
	switch {
	case err == nil:
		return "resp"
	case errors.Is(err, ErrTimeoutNoResponse):
		return "timeout"
	case errors.Is(err, context.Canceled), errors.Is(err, context.DeadlineExceeded):
		return "ctx"
	case errors.Is(err, ErrConnectionClosed):
		return "closed"
	case errors.Is(err, ErrTooManyTimeouts), strings.Contains(err.Error(), "heartbeat failed"),
		strings.Contains(err.Error(), "unknown frame in response to options"):
		// the error the connection was closed with (TimeoutLimit exceeded / the heartbeat gave it up),
		// handed to the callers that were waiting
		return "closed"
	case errors.Is(err, ErrNoStreams):
		return "nostreams"
	case strings.Contains(err.Error(), "unexpected protocol version in response") && strings.HasSuffix(want, "_badver"):
		// the node answered THIS request with a frame of another protocol version: the caller is told so - the
		// request's own answer, refused (its stream must be free again and the connection usable)
		return "verr"
	case strings.Contains(err.Error(), "vfgarbled"), strings.Contains(err.Error(), "unexpected protocol version in response"),
		strings.Contains(err.Error(), "unsupported protocol response version"):
		// the scripted node only ever sends well-formed answers: the caller was handed bytes that are
		// not the response to its request
		return "garbled"
	case strings.Contains(err.Error(), "vfpanic"):
		return "panic"
	case strings.Contains(err.Error(), "no compressor available"):
		return "frameerr"
	case strings.Contains(err.Error(), "injected frame build failure"):
		return "builderr"
	case strings.Contains(err.Error(), "already in use"):
		return "dup"
	case strings.Contains(err.Error(), "vf:"), errors.Is(err, os.ErrDeadlineExceeded):
		return "writeerr"
	}
	var ne interface{ Timeout() bool }
	if errors.As(err, &ne) {
		return "writeerr"
	}
	if i := strings.Index(err.Error(), "tok_"); i >= 0 && want != "" && !strings.Contains(err.Error(), want) {
		// an error that quotes ANOTHER request's token: this caller was handed somebody else's answer
		return "garbled"
	}
	if strings.Contains(err.Error(), "EOF") || strings.Contains(err.Error(), "closed") {
		return "closed"
	}
	return "other:" + err.Error()
}

func vfRunConnScenario(cfg vfConnScenarioCfg) (events []map[string]interface{}, fatal string) {
	rng := rand.New(rand.NewSource(cfg.Seed))
	sc := vfNewScope()
	tr := sc.tr
	cl := &vfCluster{Partitioner: "org.apache.cassandra.dht.Murmur3Partitioner", Version: "3.11.4"}
	desc := vfDesc(1)
	cl.Set([]vfHostDesc{desc})
	node := vfNewNode(cl, desc)
	node.Tracer = tr

	driverTimeout := 40 * time.Millisecond
	if cfg.Kind == "wtimeout" {
		// WriteTimeout well below Timeout (the documented relation): answers slower than the one and faster
		// than the other must still reach their callers
		driverTimeout = 300 * time.Millisecond
	}
	var nmu sync.Mutex
	withheld := map[int][]vfConnPendingAnswer{} // per stream: answers never sent (unless the id is seen again)
	var nodeRecv, nodeSent, recvHandled, writesOK int64
	var awg sync.WaitGroup                              // answer goroutines of the node
	nrng := rand.New(rand.NewSource(cfg.Seed ^ 0x5eed)) // used under nmu only
	var targetNC atomic.Value                           // *vfNodeConn of the connection under test (known once connect returned)
	var hbSeen, hbPaused, hbDeadFrom int64
	hbDeadFrom = 1 << 40
	hbrng := rand.New(rand.NewSource(cfg.Seed ^ 0x4b)) // used under nmu only
	node.Handler = func(nc *vfNodeConn, f *vfFrame, q *vfRequest) bool {
		isHB := false
		if f.Op == vfOpOptions {
			if t, _ := targetNC.Load().(*vfNodeConn); t == nil || t != nc {
				return false
			}
			isHB = true
		} else if f.Op != vfOpQuery || !strings.HasPrefix(q.Stmt, "tok_") {
			return false
		}
		var tok string
		fate := "prompt"
		if isHB {
			// the connection's heartbeat: tok hb_<n>_<fate>
			n := atomic.AddInt64(&hbSeen, 1)
			nmu.Lock()
			if atomic.LoadInt64(&hbPaused) == 0 {
				switch x := hbrng.Intn(100); {
				case n >= atomic.LoadInt64(&hbDeadFrom):
					fate = "never"
				case cfg.HB != "on":
				case x < 12:
					fate = "never"
				case x < 20:
					fate = "late"
				case x < 30:
					fate = "err"
				case x < 36:
					fate = "hbbad" // SUPPORTED whose body does not parse
				case x < 39:
					fate = "hbunk" // a well-formed frame of a kind that does not answer OPTIONS
				}
			}
			nmu.Unlock()
			tok = fmt.Sprintf("hb_%d_%s", n, fate)
		} else {
			tok = q.Stmt
			parts := strings.Split(tok, "_") // tok_<id>_<fate>
			if len(parts) >= 3 {
				fate = parts[2]
			}
		}
		nmu.Lock()
		old := withheld[f.Stream]
		delete(withheld, f.Stream)
		tr.Emit("n_recv", "stream", f.Stream, "tok", tok, "nconn", nc.ID)
		atomic.AddInt64(&nodeRecv, 1)
		// adversarial: the same stream id is seen again while an earlier request on it was never
		// answered: answer the OLD request now, first.
		for _, o := range old {
			atomic.AddInt64(&nodeSent, 1)
			tr.Emit("n_send", "stream", o.stream, "tok", o.tok, "nconn", nc.ID, "late", 1)
			if strings.HasPrefix(o.tok, "hb_") {
				nc.Reply(o.frame, vfOpSupported, vfSupportedBody(map[string][]string{"CQL_VERSION": {"3.0.0"}}, []string{"CQL_VERSION"}))
			} else {
				nc.Reply(o.frame, vfOpResult, vfSetKeyspaceBody(o.tok))
			}
		}
		if fate == "never" {
			withheld[f.Stream] = append(withheld[f.Stream], vfConnPendingAnswer{f.Stream, tok, f})
			nmu.Unlock()
			return true
		}
		var delay time.Duration
		switch fate {
		case "prompt":
			delay = time.Duration(nrng.Intn(3000)) * time.Microsecond
		case "late":
			delay = driverTimeout + time.Duration(10+nrng.Intn(60))*time.Millisecond
		case "slow":
			delay = time.Duration(60+nrng.Intn(60)) * time.Millisecond
		}
		nmu.Unlock()
		awg.Add(1)
		go func() {
			defer awg.Done()
			time.Sleep(delay)
			atomic.AddInt64(&nodeSent, 1)
			tr.Emit("n_send", "stream", f.Stream, "tok", tok, "nconn", nc.ID, "late", 0)
			if fate == "hsplit" {
				// the response's HEADER arrives in two pieces, the gap longer than the driver's timeouts
				fr := vfEncodeFrame(f.Version, 0, f.Stream, vfOpResult, vfSetKeyspaceBody(tok))
				nmu.Lock()
				k := 1 + nrng.Intn(vfHeaderLen(f.Version)-1)
				nmu.Unlock()
				nc.SendSplit(fr, k, driverTimeout+driverTimeout/2)
				return
			}
			if fate == "split" {
				// the response arrives in two pieces, the gap longer than the driver's read deadline
				fr := vfEncodeFrame(f.Version, 0, f.Stream, vfOpResult, vfSetKeyspaceBody(tok))
				nc.SendSplit(fr, vfHeaderLen(f.Version)+3, driverTimeout+driverTimeout/2)
				return
			}
			if fate == "badver" {
				// a complete, well-formed answer on the request's stream whose header carries ANOTHER protocol version
				// (same header layout): a proxy or a node answering with its own version
				nc.Send(vfEncodeFrame(vfConnOtherVersion(f.Version), 0, f.Stream, vfOpResult, vfSetKeyspaceBody(tok)))
				return
			}
			if fate == "err" {
				// a server ERROR frame (invalid query) carrying the token in its message
				nc.Reply(f, vfOpError, vfErrorBody(0x2200, tok, nil))
				return
			}
			if fate == "perr" {
				// ... or a PROTOCOL_ERROR (0x000A) for this one request: it concerns this request only
				nc.Reply(f, vfOpError, vfErrorBody(0x000A, tok, nil))
				return
			}
			if isHB {
				switch fate {
				case "hbbad":
					nc.Reply(f, vfOpSupported, []byte{0, 1, 0, 9, 'C'}) // string multimap cut short
				case "hbunk":
					nc.Reply(f, vfOpReady, nil)
				default:
					nc.Reply(f, vfOpSupported, vfSupportedBody(map[string][]string{"CQL_VERSION": {"3.0.0"}}, []string{"CQL_VERSION"}))
				}
				return
			}
			if fate == "cflag" {
				// a non-conforming answer: compression flag set on a connection without compressor,
				// the body spelling a complete response addressed to ANOTHER outstanding stream
				nmu.Lock()
				victim := -1
				for st, l := range withheld {
					if len(l) > 0 && st != f.Stream {
						victim = st
						break
					}
				}
				nmu.Unlock()
				body := vfSetKeyspaceBody("forged_" + tok)
				if victim >= 0 {
					body = vfEncodeFrame(f.Version, 0, victim, vfOpResult, vfSetKeyspaceBody("forged_"+tok))
				}
				nc.Send(vfEncodeFrame(f.Version, 0x01, f.Stream, vfOpResult, body))
				return
			}
			nc.Reply(f, vfOpResult, vfSetKeyspaceBody(tok))
		}()
		return true
	}

	obs := &vfConnObserver{tr: tr}
	s, d, err := vfSingleNodeSession(node, cfg.Proto, func(c *ClusterConfig) {
		c.Timeout = driverTimeout
		if cfg.Kind == "wtimeout" {
			c.WriteTimeout = 25 * time.Millisecond
		}
		c.StreamObserver = obs
		// requests that go through Conn.query (the path of the driver's own system queries) must put the
		// same frame on the wire as the independent encoder expects: no page size, no timestamp
		c.PageSize = 0
		c.DefaultTimestamp = false
		if cfg.Coalesce {
			c.WriteCoalesceWaitTime = 200 * time.Microsecond
		}
	})
	if err != nil {
		return nil, "session: " + err.Error()
	}
	defer s.Close()
	// the heartbeat of the connection under test (the first connection created from here on) may be
	// paced by the scenario; every other connection keeps the real pace
	h := &vfConnNopHandler{closedCh: make(chan struct{})}
	var hbTicks, hbRets, hbPausedOK int64
	hbIv := time.Duration(1000+rng.Intn(2000)) * time.Microsecond
	sc.OnDur = func(point string, c *Conn, d time.Duration) time.Duration {
		if eh, _ := c.errorHandler.(*vfConnNopHandler); eh != h {
			return d // not the connection under test (recognised by its error handler)
		}
		if atomic.LoadInt64(&hbPaused) != 0 {
			if point == "hb_next" {
				atomic.AddInt64(&hbPausedOK, 1)
			}
			return time.Hour
		}
		if cfg.HB == "" {
			return d
		}
		return hbIv
	}
	sc.BindSession(s)
	host := s.ring.allHosts()[0]
	conn, err := s.connect(s.ctx, host, h)
	if err != nil && strings.Contains(err.Error(), "no response to connection startup") {
		s.connCfg.ConnectTimeout = 10 * time.Second
		conn, err = s.connect(s.ctx, host, h)
		if err != nil && strings.Contains(err.Error(), "no response to connection startup") {
			return vfHandshakeUnansweredTrace(cfg.Kind, cfg.Proto), ""
		}
	}
	if err != nil {
		return nil, "connect: " + err.Error()
	}
	// the node's end of the connection under test: the one reading the pipe this connection writes to
	if tmc, ok := conn.conn.(*vfMemConn); ok {
		for _, nc := range node.Conns() {
			if nc.Conn.in == tmc.out {
				targetNC.Store(nc)
			}
		}
	}
	if targetNC.Load() == nil {
		return nil, "node end of the connection under test not found"
	}
	sc.Bind(conn)
	sc.Bind(conn.w)
	connIDEarly := tr.ObjID(conn)
	sc.OnConn = func(point string, c *Conn, call *callReq, a, b int, err error) {
		if c != conn {
			return
		}
		switch point {
		case "x_wend":
			if err == nil && call != nil && sc.ReqOf(call) != 0 {
				atomic.AddInt64(&writesOK, 1)
			}
		case "r_arm_deliver", "r_arm_timeout", "r_arm_ctx":
			if call != nil && sc.ReqOf(call) != 0 {
				atomic.AddInt64(&recvHandled, 1)
			}
		case "hb_tick":
			// the heartbeat is a caller like any other: its requests are numbered 100000+k
			k := atomic.AddInt64(&hbTicks, 1)
			tr.Emit("call", "req", 100000+int(k), "conn", connIDEarly, "fate", "hb")
		case "hb_ret":
			k := atomic.LoadInt64(&hbTicks)
			outcome := vfConnOutcome(err, "hb", "hb")
			tr.Emit("ret", "req", 100000+int(k), "conn", connIDEarly, "outcome", outcome, "echo", "hb", "tok", "hb")
			atomic.AddInt64(&hbRets, 1)
		}
	}
	dconns := d.DriverConns[desc.Addr]
	mc := dconns[len(dconns)-1]
	if tmc, ok := conn.conn.(*vfMemConn); ok {
		mc = tmc
	}
	wireBase := len(mc.Written())
	connID := tr.ObjID(conn)
	capacity := conn.streams.NumStreams - 1
	tr.Emit("env_conn", "conn", connID, "cap", capacity, "proto", cfg.Proto, "kind", cfg.Kind, "hb", cfg.HB, "tl", cfg.TLimit)
	if cfg.HB == "dead" {
		atomic.StoreInt64(&hbDeadFrom, atomic.LoadInt64(&hbSeen)+int64(2+rng.Intn(4)))
	}

	var nextReq int64
	var stuck int32
	runOne := func(fate string, cancelAfter time.Duration, buildFail bool) {
		id := int(atomic.AddInt64(&nextReq, 1))
		tok := fmt.Sprintf("tok_%d_%s", id, fate)
		ctx := vfWithReq(context.Background(), id)
		var cancel context.CancelFunc
		if cancelAfter >= 0 {
			ctx, cancel = context.WithCancel(ctx)
			if cancelAfter == 0 {
				tr.Emit("env_cancel", "req", id)
				cancel()
			} else {
				t := time.AfterFunc(cancelAfter, func() {
					tr.Emit("env_cancel", "req", id)
					cancel()
				})
				defer t.Stop()
			}
			defer cancel()
		}
		var fb frameBuilder = &writeQueryFrame{statement: tok, params: queryParams{consistency: One}}
		if buildFail {
			fb = vfConnFailBuilder{}
		}
		tr.Emit("call", "req", id, "conn", connID, "fate", fate)
		var (
			fr     *framer
			xerr   error
			echoed string
		)
		t0 := time.Now()
		ok, dump := vfWithin(8*time.Second, func() {
			defer func() {
				// a panic in the caller's goroutine is an outcome the property does not allow
				if r := recover(); r != nil {
					xerr = fmt.Errorf("vfpanic: %v", r)
				}
			}()
			if id%5 == 3 && !buildFail {
				// one request in five takes the path of the driver's internal queries (Conn.query ->
				// executeQuery -> exec): same frame, same outcomes; the attempt's context is the caller's
				xerr = conn.query(ctx, tok).Close()
				var re RequestError
				if xerr == nil {
					echoed = tok // (the answer's content is not visible at this level)
				} else if errors.As(xerr, &re) && (fate == "err" || fate == "perr") && strings.Contains(re.Message(), "tok_") {
					msg := re.Message()
					echoed, xerr = msg[strings.Index(msg, "tok_"):], nil
				}
				return
			}
			fr, xerr = conn.exec(ctx, fb, nil)
			if xerr == nil {
				if id%2 == 0 {
					// the caller is slow to look at its response: the receiver moves on meanwhile
					time.Sleep(time.Duration(50+(id*37)%250) * time.Microsecond)
				}
				frame, perr := fr.parseFrame()
				if perr != nil {
					xerr = fmt.Errorf("vfgarbled: %w", perr)
				} else if k, isKs := frame.(*resultKeyspaceFrame); isKs {
					echoed = k.keyspace
				} else if ef, isErr := frame.(error); isErr && (fate == "err" || fate == "perr") && strings.Contains(ef.Error(), "tok_") {
					// the server's ERROR frame for this request: the token is in its message
					msg := ef.Error()
					echoed = msg[strings.Index(msg, "tok_"):]
				} else {
					xerr = fmt.Errorf("vfgarbled: unexpected frame %T", frame)
				}
			}
		})
		if !ok {
			atomic.AddInt32(&stuck, 1)
			tr.Emit("env_stuck", "what", "call", "req", id, "dump", dump[:vfMin(len(dump), 4000)])
			return
		}
		outcome := vfConnOutcome(xerr, echoed, tok)
		if el := time.Since(t0); outcome == "timeout" && el < driverTimeout*9/10 {
			// "no response within the timeout period" reported before that period can have passed (machine
			// load only ever makes it later): the outcome was decided by something else than the Timeout
			tr.Emit("env_early_timeout", "req", id, "ms", int(el/time.Millisecond), "timeout_ms", int(driverTimeout/time.Millisecond))
		}
		tr.Emit("ret", "req", id, "conn", connID, "outcome", outcome, "echo", echoed, "tok", tok)
	}

	// ---- optional exhaustion prefix: occupy all but k ids with never-answered requests
	if cfg.Kind == "exhaust" {
		k := 1 + rng.Intn(3)
		n := capacity - k
		var wg sync.WaitGroup
		for i := 0; i < n; i++ {
			wg.Add(1)
			go func() { defer wg.Done(); runOne("never", -1, false) }()
		}
		wg.Wait()
	}

	// ---- fault timer
	var faultTimer *time.Timer
	total := cfg.Callers * cfg.PerCall
	faultAt := time.Duration(1+rng.Intn(30)) * time.Millisecond
	switch cfg.Kind {
	case "srvclose":
		faultTimer = time.AfterFunc(faultAt, func() {
			tr.Emit("n_close")
			node.CloseAll()
		})
	case "extclose":
		faultTimer = time.AfterFunc(faultAt, func() {
			tr.Emit("env_extclose", "conn", connID)
			okc, dump := vfWithin(8*time.Second, conn.Close)
			if !okc {
				atomic.AddInt32(&stuck, 1)
				tr.Emit("env_stuck", "what", "close", "req", 0, "dump", dump[:vfMin(len(dump), 4000)])
			} else {
				tr.Emit("env_extclose_ret", "conn", connID)
			}
		})
	case "unsol":
		// the node sends frames nobody asked for, on stream ids the short scenario cannot be
		// using (last bit of a word): the driver must discard them
		urng := rand.New(rand.NewSource(rng.Int63()))
		go func() {
			for i := 0; i < 20; i++ {
				time.Sleep(time.Duration(500+urng.Intn(2000)) * time.Microsecond)
				ncs := node.Conns()
				nc := ncs[len(ncs)-1]
				st := 64*(1+i%7) + 63
				if cfg.Proto <= 2 {
					st = 127
				}
				tr.Emit("n_unsol", "stream", st)
				nc.Send(vfEncodeFrame(byte(cfg.Proto), 0, st, vfOpResult, vfSetKeyspaceBody(fmt.Sprintf("unsol_%d", i))))
			}
		}()
	case "writefail":
		off := int64(len(mc.Written())) + int64(rng.Intn(40*total/2+1))
		// what the socket reports: a plain network error, or - as a net.Conn of a custom dialer that
		// implements deadlines with contexts does - an error that is (or wraps) a context error
		var werr error
		switch cfg.ErrKind % 4 {
		case 3:
			// the socket refuses the write deadline from that point on (nothing is written at all)
			tr.Emit("env_failwrite", "at", int(off), "errkind", "SetWriteDeadline")
			mc.SetFault(&vfWriteFault{FailAtByte: -1, StallAtByte: -1, DeadlineErr: vfNetErr{"vf: set write deadline: bad descriptor"}, DeadlineErrAtByte: off})
		case 1:
			werr = &net.OpError{Op: "write", Net: "tcp", Err: context.DeadlineExceeded}
		case 2:
			werr = fmt.Errorf("vf: tunnel write: %w", context.Canceled)
		}
		if cfg.ErrKind%4 != 3 {
			tr.Emit("env_failwrite", "at", int(off), "errkind", fmt.Sprintf("%T", werr))
			mc.SetFault(&vfWriteFault{FailAtByte: off, StallAtByte: -1, Err: werr})
		}
	}

	// ---- callers
	var wg sync.WaitGroup
	for c := 0; c < cfg.Callers; c++ {
		wg.Add(1)
		crng := rand.New(rand.NewSource(rng.Int63()))
		go func() {
			defer wg.Done()
			for i := 0; i < cfg.PerCall; i++ {
				fate := "prompt"
				switch x := crng.Intn(100); {
				case x < 15:
					fate = "late"
				case x < 25:
					fate = "never"
				case x < 40 && cfg.Kind == "midbody":
					fate = "split"
				case x < 55 && cfg.Kind == "midbody":
					fate = "hsplit"
				case x < 45 && cfg.Kind == "mixed":
					fate = "err"
				case x < 60 && cfg.Kind == "mixed":
					fate = "perr"
				case x < 72 && cfg.Kind == "mixed":
					fate = "badver"
				case x < 40 && cfg.Kind == "badflag":
					fate = "cflag"
				case x < 65 && cfg.Kind == "wtimeout":
					fate = "slow"
				}
				cancelAfter := time.Duration(-1)
				if x := crng.Intn(100); x < 4 {
					cancelAfter = 0
				} else if x < 14 {
					cancelAfter = time.Duration(crng.Intn(4000)) * time.Microsecond
				}
				bf := cfg.Kind == "buildfail" && crng.Intn(5) == 0
				runOne(fate, cancelAfter, bf)
			}
		}()
	}
	wg.Wait()
	if faultTimer != nil {
		faultTimer.Stop()
	}
	if cfg.HB == "dead" {
		// the heartbeat is expected to give the connection up (6 failures, each one request timeout long)
		for i := 0; i < 5000 && !conn.Closed(); i++ {
			time.Sleep(2 * time.Millisecond)
		}
	}
	// ---- the heartbeat rests: OPTIONS are answered promptly from now on, and after its next success it
	// sleeps for an hour (event-based: wait for that success, or for the connection to be closed)
	atomic.StoreInt64(&hbPaused, 1)
	if cfg.HB != "" {
		for i := 0; i < 10000 && !conn.Closed(); i++ {
			if atomic.LoadInt64(&hbPausedOK) > 0 && atomic.LoadInt64(&hbTicks) == atomic.LoadInt64(&hbRets) {
				break
			}
			time.Sleep(2 * time.Millisecond)
		}
	}

	// ---- quiescence: every answer the node will ever send has been sent, the receiver has
	// handled each of them (event-based, not time-based), and the allocator has settled.
	// (a) the node has read every frame whose write succeeded, (b) its answer goroutines are done,
	// (c) the receiver has handled every answer
	for i := 0; i < 5000 && !conn.Closed(); i++ {
		if atomic.LoadInt64(&nodeRecv) >= atomic.LoadInt64(&writesOK) {
			break
		}
		time.Sleep(2 * time.Millisecond)
	}
	answered, _ := vfWithin(10*time.Second, awg.Wait)
	for i := 0; i < 5000 && !conn.Closed(); i++ {
		if atomic.LoadInt64(&recvHandled) >= atomic.LoadInt64(&nodeSent) {
			break
		}
		time.Sleep(2 * time.Millisecond)
	}
	last, stable := -1, 0
	for i := 0; i < 1000 && stable < 25; i++ {
		a := conn.AvailableStreams()
		if a == last {
			stable++
		} else {
			stable, last = 0, a
		}
		time.Sleep(2 * time.Millisecond)
	}
	closed := conn.Closed()
	hbQuiet := cfg.HB == "" || (atomic.LoadInt64(&hbPausedOK) > 0 && atomic.LoadInt64(&hbTicks) == atomic.LoadInt64(&hbRets))
	if cfg.HB == "" && atomic.LoadInt64(&hbTicks) != atomic.LoadInt64(&hbRets) {
		hbQuiet = false // a real-pace heartbeat is in flight right now (slow machine): no sample
	}
	settled := answered && hbQuiet && atomic.LoadInt64(&recvHandled) >= atomic.LoadInt64(&nodeSent) &&
		atomic.LoadInt64(&nodeRecv) >= atomic.LoadInt64(&writesOK)
	if closed || settled {
		tr.Emit("avail", "conn", connID, "avail", conn.AvailableStreams(), "closed", vfB2I(closed), "cap", capacity)
	} else {
		// the receiver never handled an answer although the connection is open: cannot sample
		tr.Emit("env_unsettled", "conn", connID, "sent", int(atomic.LoadInt64(&nodeSent)), "handled", int(atomic.LoadInt64(&recvHandled)))
	}
	if atomic.LoadInt32(&stuck) == 0 {
		okc, dump := vfWithin(8*time.Second, conn.Close)
		if !okc {
			tr.Emit("env_stuck", "what", "close", "req", 0, "dump", dump[:vfMin(len(dump), 4000)])
		} else {
			tr.Emit("closed_ret", "conn", connID)
		}
	}
	// the heartbeat is a caller too: the request it may have had in flight when the connection was
	// closed has to return (it is logged as "call" at its tick)
	if conn.Closed() {
		for i := 0; i < 4000 && atomic.LoadInt64(&hbTicks) != atomic.LoadInt64(&hbRets); i++ {
			time.Sleep(2 * time.Millisecond)
		}
	}
	// "closed" as found at quiescence, before the harness' own Close: a torn frame must have closed it
	// ("closed" means the socket: a connection merely marked closed whose socket stays open for 5 s
	// more was not closed)
	sockClosed := closed
	if closed {
		for i := 0; i < 2500 && !mc.IsClosed(); i++ {
			time.Sleep(2 * time.Millisecond)
		}
		sockClosed = mc.IsClosed()
	}
	vfEmitWire(tr, mc, wireBase, connID, cfg.Proto, sockClosed || !(closed || settled))
	sc.gates.ReleaseAll()
	return tr.Events(), ""
}

func vfMin(a, b int) int {
	if a < b {
		return a
	}
	return b
}

func vfB2I(b bool) int {
	if b {
		return 1
	}
	return 0
}

// TestVfConnStress writes one NDJSON trace per scenario into VF_OUT (conn_<n>.ndjson).
func TestVfConnStress(t *testing.T) {
	if vfOutDir() == "" {
		t.Skip("VF_OUT not set")
	}
	n := vfEnvInt("VF_NSCEN", 12)
	callers := vfEnvInt("VF_CALLERS", 8)
	per := vfEnvInt("VF_PERCALL", 12)
	kinds := []string{"plain", "srvclose", "extclose", "writefail", "buildfail", "exhaust", "coalesce", "unsol", "midbody", "mixed", "badflag",
		"hb", "hbdead", "hbwritefail", "hbextclose", "wtimeout"}
	rng := rand.New(rand.NewSource(vfSeed()))
	var wg sync.WaitGroup
	sem := make(chan struct{}, 8)
	var fatalMu sync.Mutex
	var fatals []string
	nwf := 0
	for i := 0; i < n; i++ {
		cfg := vfConnScenarioCfg{Kind: kinds[i%len(kinds)], Proto: 4, Callers: callers, PerCall: per, Seed: rng.Int63()}
		if cfg.Kind == "exhaust" || i%3 == 1 {
			cfg.Proto = 2
		}
		if cfg.Kind == "coalesce" {
			cfg.Coalesce = true
		}
		switch cfg.Kind {
		case "hb":
			cfg.HB = "on"
			cfg.Coalesce = i%2 == 0
		case "hbdead":
			cfg.HB = "dead"
		case "hbwritefail":
			cfg.HB, cfg.Kind = "on", "writefail"
		case "hbextclose":
			cfg.HB, cfg.Kind = "on", "extclose"
		}
		if cfg.Kind == "writefail" {
			nwf++
			cfg.ErrKind = nwf
			if cfg.ErrKind%4 == 3 {
				cfg.Coalesce = true // the deadline is refused at flush time, with several writers queued
			}
		}
		wg.Add(1)
		sem <- struct{}{}
		go func(i int, cfg vfConnScenarioCfg) {
			defer wg.Done()
			defer func() { <-sem }()
			evs, fatal := vfRunConnScenario(cfg)
			if fatal != "" {
				fatalMu.Lock()
				fatals = append(fatals, fatal)
				fatalMu.Unlock()
				return
			}
			out, err := vfCreateNDJSON(vfOutPath(fmt.Sprintf("conn_%03d.ndjson", i)))
			if err != nil {
				t.Error(err)
				return
			}
			for _, e := range evs {
				out.Write(e)
			}
			out.Close()
		}(i, cfg)
	}
	wg.Wait()
	// TimeoutLimit is a package variable ("should not be changed concurrently with queries"): these
	// scenarios run one at a time, after all the others
	ntl := vfEnvInt("VF_NTLIMIT", 2)
	for j := 0; j < ntl; j++ {
		cfg := vfConnScenarioCfg{Kind: "tlimit", Proto: 4 - 2*(j%2), Callers: callers, PerCall: per, Seed: rng.Int63(), TLimit: 1 + j%3}
		TimeoutLimit = int64(cfg.TLimit)
		evs, fatal := vfRunConnScenario(cfg)
		TimeoutLimit = 0
		if fatal != "" {
			fatals = append(fatals, fatal)
			continue
		}
		out, err := vfCreateNDJSON(vfOutPath(fmt.Sprintf("conn_%03d.ndjson", n+j)))
		if err != nil {
			t.Error(err)
			continue
		}
		for _, e := range evs {
			out.Write(e)
		}
		out.Close()
	}
	if len(fatals) > 0 {
		t.Fatalf("VFHARNESS scenario setup failed: %v", fatals)
	}
}

// vfEmitWire logs the byte stream the driver wrote after the handshake and, for every request
// that obtained a stream id, the frame an independent encoder expects (C07).
func vfEmitWire(tr *vfTracer, mc *vfMemConn, wireBase int, connID int, proto int, closed bool) {
	// ---- C07: the byte stream after the handshake, and the frame an independent encoder
	// expects for every request that got a stream id
	wire := mc.Written()[wireBase:]
	wints := make([]int, len(wire))
	for i, b := range wire {
		wints[i] = int(b)
	}
	tr.Emit("wire", "conn", connID, "bytes", wints, "closed", vfB2I(closed), "proto", proto)
	fates := map[int]string{}
	streams := map[int]int{}
	wok := map[int]int{}
	for _, e := range tr.Events() {
		switch e["ev"] {
		case "call":
			fates[e["req"].(int)] = e["fate"].(string)
		case "x_stream":
			if e["conn"].(int) == connID && e["req"].(int) > 0 {
				streams[e["req"].(int)] = e["stream"].(int)
				wok[e["req"].(int)] = -1
			}
		case "x_wend":
			if e["conn"].(int) == connID && e["req"].(int) > 0 {
				if e["err"].(string) == "none" {
					wok[e["req"].(int)] = 1
				} else {
					wok[e["req"].(int)] = 0
				}
			}
		}
	}
	for req, st := range streams {
		tok := fmt.Sprintf("tok_%d_%s", req, fates[req])
		body := (&vfW{}).LongString(tok).Short(int(One)).Byte(0).b
		var fr []byte
		if proto > 2 {
			fr = append([]byte{byte(proto), 0, byte(st >> 8), byte(st), vfOpQuery, 0, 0, 0, byte(len(body))}, body...)
		} else {
			fr = append([]byte{byte(proto), 0, byte(st), vfOpQuery, 0, 0, 0, byte(len(body))}, body...)
		}
		fints := make([]int, len(fr))
		for i, b := range fr {
			fints[i] = int(b)
		}
		tr.Emit("frame_exp", "conn", connID, "req", req, "bytes", fints, "wok", wok[req])
	}
}
