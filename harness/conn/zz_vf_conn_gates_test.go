package gocql

// C01 / C06 / C07: deterministic interleavings of caller, receiver and closer on one real
// connection, forced through the gates in the "verif" hooks. They are the schedules the code
// comments warn about and the counterexamples TLC produces for the deliberately wrong
// variants of Conn.tla / Writer.tla (Mut = closer_never_skips, giveup_keeps_timeout_open,
// release_on_giveup; RefuseAfterTorn = FALSE). Each scenario is logged like the free-running
// ones and validated by the same TLC trace specifications.

import (
	"context"
	"fmt"
	"strings"
	"sync"
	"sync/atomic"
	"testing"
	"time"
)

type vfGateEnv struct {
	sc          *vfScope
	tr          *vfTracer
	node        *vfNode
	s           *Session
	conn        *Conn
	mc          *vfMemConn
	connID      int
	wireBase    int
	proto       int
	nextReq     int64
	wg          sync.WaitGroup
	hold        map[string]bool // tokens the node must not answer until told
	mu          sync.Mutex
	pend        map[string]func()
	pendStream  map[string]int
	rets        sync.Map // request id -> returned
	useDeadline bool
}

// vfGateObserver is a StreamObserver whose callbacks are also gate points (they run inside
// releaseStream / closeWithError, i.e. inside windows no hook marks).
type vfGateObserver struct{ sc *vfScope }
type vfGateObsCtx struct {
	sc  *vfScope
	req int
}

func (o *vfGateObserver) StreamContext(ctx context.Context) StreamObserverContext {
	id, _ := ctx.Value(vfReqKey{}).(int)
	return &vfGateObsCtx{sc: o.sc, req: id}
}
func (c *vfGateObsCtx) StreamStarted(ObservedStream) { c.sc.tr.Emit("obs_started", "req", c.req) }
func (c *vfGateObsCtx) StreamAbandoned(ObservedStream) {
	c.sc.tr.Emit("obs_abandoned", "req", c.req)
	c.sc.gates.Reach("obs_abandoned", c.req)
}
func (c *vfGateObsCtx) StreamFinished(ObservedStream) {
	c.sc.tr.Emit("obs_finished", "req", c.req)
	c.sc.gates.Reach("obs_finished", c.req)
}

// vfHandshakeUnanswered: the driver reported that a node which answers every handshake frame did not answer.
type vfHandshakeUnanswered struct{ err error }

func (e vfHandshakeUnanswered) Error() string { return e.err.Error() }

// vfHandshakeUnansweredTrace is the record of such a connection attempt: a request (the handshake) whose
// response the node sent and the driver had 10 s to deliver.
func vfHandshakeUnansweredTrace(kind string, proto int) []map[string]interface{} {
	tr := vfNewTracer()
	tr.Emit("env_conn", "conn", 1, "cap", 0, "proto", proto, "kind", kind+":handshake")
	tr.Emit("call", "req", 1, "conn", 1, "fate", "handshake")
	tr.Emit("env_expect_resp", "req", 1)
	tr.Emit("ret", "req", 1, "conn", 1, "outcome", "timeout", "echo", "", "tok", "handshake")
	return tr.Events()
}

func vfNewGateEnv(kind string, proto int, coalesce bool) (*vfGateEnv, error) {
	e := &vfGateEnv{sc: vfNewScope(), hold: map[string]bool{}, pend: map[string]func(){}, pendStream: map[string]int{}}
	e.tr = e.sc.tr
	cl := &vfCluster{Partitioner: "org.apache.cassandra.dht.Murmur3Partitioner", Version: "3.11.4"}
	desc := vfDesc(1)
	cl.Set([]vfHostDesc{desc})
	e.node = vfNewNode(cl, desc)
	e.node.Tracer = e.tr
	e.node.Handler = func(nc *vfNodeConn, f *vfFrame, q *vfRequest) bool {
		if f.Op != vfOpQuery || !strings.HasPrefix(q.Stmt, "tok_") {
			return false
		}
		tok := q.Stmt
		e.tr.Emit("n_recv", "stream", f.Stream, "tok", tok, "nconn", nc.ID)
		answer := func() {
			e.tr.Emit("n_send", "stream", f.Stream, "tok", tok, "nconn", nc.ID, "late", 0)
			nc.Reply(f, vfOpResult, vfSetKeyspaceBody(tok))
		}
		e.mu.Lock()
		// adversarial: the same stream id is seen again while an earlier request on it is still
		// unanswered: answer the OLD request now, first
		for otok, oans := range e.pend {
			if e.pendStream[otok] == f.Stream {
				delete(e.pend, otok)
				oans()
			}
		}
		if strings.HasSuffix(tok, "_never") {
			e.pend[tok] = answer // answered only if the scenario says so (or on reuse of the id)
			e.pendStream[tok] = f.Stream
			e.mu.Unlock()
			return true
		}
		e.mu.Unlock()
		answer()
		return true
	}
	s, d, err := vfSingleNodeSession(e.node, proto, func(c *ClusterConfig) {
		c.Timeout = 400 * time.Millisecond
		if strings.HasSuffix(kind, "answer_while_writing") {
			c.Timeout = time.Second
		}
		c.ConnectTimeout = 700 * time.Millisecond
		c.StreamObserver = &vfGateObserver{sc: e.sc}
		if coalesce {
			c.WriteCoalesceWaitTime = 200 * time.Microsecond
			if strings.HasSuffix(kind, "cancel_while_queued") {
				// a long coalescing window: the cancellation falls between enqueue and flush
				c.WriteCoalesceWaitTime = 40 * time.Millisecond
			}
			if strings.HasSuffix(kind, "answer_while_writing") {
				c.WriteCoalesceWaitTime = 60 * time.Millisecond
			}
		}
	})
	if err != nil {
		return nil, err
	}
	e.s = s
	// no heartbeat on the connection under test (recognised by its error handler): a gate scenario may
	// last longer than the first beat's second, and the allocator sample at its end assumes nothing in flight
	h := &vfConnNopHandler{closedCh: make(chan struct{})}
	e.sc.OnDur = func(point string, c *Conn, d time.Duration) time.Duration {
		if eh, _ := c.errorHandler.(*vfConnNopHandler); eh == h {
			return time.Hour
		}
		return d
	}
	e.sc.BindSession(s)
	conn, err := s.connect(s.ctx, s.ring.allHosts()[0], h)
	if err != nil && strings.Contains(err.Error(), "no response to connection startup") {
		// the scripted node answers every handshake frame at once: try again with a timeout no machine
		// load explains; if the driver still sees no answer, that is an outcome, not a set-up problem
		s.connCfg.ConnectTimeout = 10 * time.Second
		conn, err = s.connect(s.ctx, s.ring.allHosts()[0], h)
		if err != nil && strings.Contains(err.Error(), "no response to connection startup") {
			s.Close()
			return nil, vfHandshakeUnanswered{err}
		}
	}
	if err != nil {
		s.Close()
		return nil, err
	}
	e.conn = conn
	e.sc.Bind(conn)
	e.sc.Bind(conn.w)
	dc := d.DriverConns[desc.Addr]
	e.mc = dc[len(dc)-1]
	if tmc, ok := conn.conn.(*vfMemConn); ok {
		e.mc = tmc
	}
	e.connID = e.tr.ObjID(conn)
	e.wireBase = len(e.mc.Written())
	e.proto = proto
	e.tr.Emit("env_conn", "conn", e.connID, "cap", conn.streams.NumStreams-1, "proto", proto, "kind", kind)
	return e, nil
}

// answerNow makes the node answer a request it was holding back.
func (e *vfGateEnv) answerNow(tok string) {
	for i := 0; i < 2000; i++ {
		e.mu.Lock()
		f := e.pend[tok]
		delete(e.pend, tok)
		e.mu.Unlock()
		if f != nil {
			f()
			return
		}
		time.Sleep(time.Millisecond)
	}
}

// start launches one request; returns its id, token and a cancel function. Fate "buildfail"
// makes the frame builder fail (the request is never written).
func (e *vfGateEnv) start(fate string, cancellable bool) (int, string, context.CancelFunc) {
	return e.startWith(fate, cancellable, 0)
}

// startWith: deadline > 0 gives the request a context that expires by itself after that long
// (context.DeadlineExceeded instead of context.Canceled).
func (e *vfGateEnv) startWith(fate string, cancellable bool, deadline time.Duration) (int, string, context.CancelFunc) {
	id := int(atomic.AddInt64(&e.nextReq, 1))
	tok := fmt.Sprintf("tok_%d_%s", id, fate)
	ctx := vfWithReq(context.Background(), id)
	cancel := func() {}
	if deadline > 0 {
		var c context.CancelFunc
		ctx, c = context.WithTimeout(ctx, deadline)
		cancel = c
		time.AfterFunc(deadline, func() { e.tr.Emit("env_cancel", "req", id) })
	} else if cancellable {
		var c context.CancelFunc
		ctx, c = context.WithCancel(ctx)
		cancel = func() { e.tr.Emit("env_cancel", "req", id); c() }
	}
	e.tr.Emit("call", "req", id, "conn", e.connID, "fate", fate)
	e.wg.Add(1)
	go func() {
		defer e.wg.Done()
		var xerr error
		var echoed string
		ok, dump := vfWithin(8*time.Second, func() {
			defer func() {
				if r := recover(); r != nil {
					xerr = fmt.Errorf("vfpanic: %v", r)
				}
			}()
			var fb frameBuilder = &writeQueryFrame{statement: tok, params: queryParams{consistency: One}}
			if fate == "buildfail" {
				fb = vfConnFailBuilder{}
			}
			fr, err := e.conn.exec(ctx, fb, nil)
			xerr = err
			if err == nil {
				if frame, perr := fr.parseFrame(); perr != nil {
					xerr = fmt.Errorf("vfgarbled: %w", perr)
				} else if k, isKs := frame.(*resultKeyspaceFrame); isKs {
					echoed = k.keyspace
				} else {
					xerr = fmt.Errorf("vfgarbled: unexpected frame %T", frame)
				}
			}
		})
		if !ok {
			e.tr.Emit("env_stuck", "what", "call", "req", id, "dump", dump[:vfMin(len(dump), 3000)])
			return
		}
		e.tr.Emit("ret", "req", id, "conn", e.connID, "outcome", vfConnOutcome(xerr, echoed, tok), "echo", echoed, "tok", tok)
		e.rets.Store(id, true)
	}()
	return id, tok, cancel
}

// awaitRet waits until request id has returned to its caller.
func (e *vfGateEnv) awaitRet(id int, d time.Duration) bool {
	for end := time.Now().Add(d); time.Now().Before(end); time.Sleep(200 * time.Microsecond) {
		if _, ok := e.rets.Load(id); ok {
			return true
		}
	}
	return false
}

func (e *vfGateEnv) closeConn(label string) {
	e.tr.Emit("env_extclose", "conn", e.connID)
	ok, dump := vfWithin(8*time.Second, e.conn.Close)
	if !ok {
		e.tr.Emit("env_stuck", "what", "close", "req", 0, "dump", dump[:vfMin(len(dump), 3000)])
		return
	}
	e.tr.Emit("env_extclose_ret", "conn", e.connID)
}

func (e *vfGateEnv) finish() []map[string]interface{} {
	okw, dump := vfWithin(10*time.Second, e.wg.Wait)
	if !okw {
		e.tr.Emit("env_stuck", "what", "call", "req", 0, "dump", dump[:vfMin(len(dump), 3000)])
	}
	// allocator sample only when nothing is outstanding by construction of the scenario
	time.Sleep(20 * time.Millisecond)
	e.tr.Emit("avail", "conn", e.connID, "avail", e.conn.AvailableStreams(), "closed", vfB2I(e.conn.Closed()), "cap", e.conn.streams.NumStreams-1)
	vfEmitWire(e.tr, e.mc, e.wireBase, e.connID, e.proto, e.conn.Closed())
	e.sc.gates.ReleaseAll()
	vfWithin(8*time.Second, e.conn.Close)
	vfWithin(8*time.Second, e.s.Close)
	return e.tr.Events()
}

const vfGateWait = 5 * time.Second

// Each scenario returns "" or the reason it was inconclusive (a gate was not reached).
var vfGateScenarios = map[string]func(e *vfGateEnv) string{
	// the node closes while a caller has registered its call but not yet reached its select
	"closer_before_select": func(e *vfGateEnv) string {
		id, _, _ := e.start("never", false)
		g := e.sc.gates.Arm("x_wait", id)
		if !g.AwaitReached(vfGateWait) {
			return "x_wait not reached"
		}
		gb := e.sc.gates.Arm("c_begin", 0)
		e.tr.Emit("n_close")
		e.node.CloseAll()
		if !gb.AwaitReached(vfGateWait) {
			return "c_begin not reached"
		}
		gb.Release()
		time.Sleep(5 * time.Millisecond) // the closer is now blocked on the rendezvous
		g.Release()
		return ""
	},
	// a caller gives up (context) between choosing the arm and close(call.timeout) while a closer runs
	"closer_vs_giveup": func(e *vfGateEnv) string {
		id, _, cancel := e.start("never", true)
		gw := e.sc.gates.Arm("x_wait", id)
		if !gw.AwaitReached(vfGateWait) {
			return "x_wait not reached"
		}
		ga := e.sc.gates.Arm("x_arm_ctx", id)
		cancel()
		gw.Release()
		if !ga.AwaitReached(vfGateWait) {
			return "x_arm_ctx not reached"
		}
		done := make(chan struct{})
		go func() { e.closeConn("ext"); close(done) }()
		time.Sleep(10 * time.Millisecond) // closeWithError is (or will be) waiting for this caller
		ga.Release()
		<-done
		return ""
	},
	// the receiver holds a response while its caller gives up: the receiver must release the stream
	"recv_vs_giveup": func(e *vfGateEnv) string {
		id, tok, cancel := e.start("never", true)
		gr := e.sc.gates.Arm("r_gate", id)
		gw := e.sc.gates.Arm("x_wait", id)
		if !gw.AwaitReached(vfGateWait) {
			return "x_wait not reached"
		}
		e.answerNow(tok)
		if !gr.AwaitReached(vfGateWait) {
			return "r_gate not reached"
		}
		ga := e.sc.gates.Arm("x_arm_ctx", id)
		cancel()
		gw.Release()
		if !ga.AwaitReached(vfGateWait) {
			// the caller may have taken the response arm instead (both were ready): fine
			gr.Release()
			return ""
		}
		ga.Release()
		time.Sleep(5 * time.Millisecond)
		gr.Release()
		// a later request must be able to use the connection and get its own answer
		time.Sleep(5 * time.Millisecond)
		e.start("prompt", false)
		return ""
	},
	// a request times out, its late answer arrives while a second request runs
	"late_answer_after_timeout": func(e *vfGateEnv) string {
		_, tok, _ := e.start("never", false)
		time.Sleep(450 * time.Millisecond) // driver timeout is 400 ms
		for i := 0; i < 3; i++ {
			e.start("prompt", false)
		}
		time.Sleep(10 * time.Millisecond)
		e.answerNow(tok)
		time.Sleep(10 * time.Millisecond)
		for i := 0; i < 3; i++ {
			e.start("prompt", false)
		}
		return ""
	},
	// two closers: a caller whose write failed and the receiver seeing the node go away
	"two_closers": func(e *vfGateEnv) string {
		e.mc.SetFault(&vfWriteFault{FailAtByte: int64(len(e.mc.Written())) + 5, StallAtByte: -1})
		id, _, _ := e.start("never", false)
		gf := e.sc.gates.Arm("x_wfail", id)
		if !gf.AwaitReached(vfGateWait) {
			return "x_wfail not reached"
		}
		e.tr.Emit("n_close")
		e.node.CloseAll()
		time.Sleep(10 * time.Millisecond)
		gf.Release()
		return ""
	},
	// C06: the connection fails DURING the handshake (node silent / hangs up / answers garbage after
	// STARTUP): connecting must return an error within the connect timeout, never hang, and leave no
	// connection behind
	"handshake_faults": func(e *vfGateEnv) string {
		host := e.s.ring.allHosts()[0]
		prev := e.node.Handler
		for _, mode := range []string{"silent", "hangup", "garbage", "wrongframe"} {
			mode := mode
			e.node.Handler = func(nc *vfNodeConn, f *vfFrame, q *vfRequest) bool {
				if f.Op != vfOpStartup {
					return prev(nc, f, q)
				}
				switch mode {
				case "silent":
				case "hangup":
					nc.Close()
				case "garbage":
					nc.Send([]byte{0x84, 0x00, 0x00})
					nc.Close()
				case "wrongframe":
					nc.Reply(f, vfOpResult, vfVoidBody())
				}
				return true
			}
			before := e.node.OpenConns()
			e.tr.Emit("hs_call", "mode", mode)
			var cerr error
			var c2 *Conn
			ok, dump := vfWithin(8*time.Second, func() {
				c2, cerr = e.s.connect(e.s.ctx, host, &vfConnNopHandler{closedCh: make(chan struct{})})
			})
			if !ok {
				e.tr.Emit("env_stuck", "what", "call", "req", 0, "dump", dump[:vfMin(len(dump), 3000)])
				continue
			}
			if cerr == nil && c2 != nil {
				// a handshake the node never completed must not produce a usable connection
				e.tr.Emit("ret", "req", 0, "conn", e.connID, "outcome", "hs-connected-without-ready:"+mode, "echo", "", "tok", "")
				c2.Close()
			}
			// the failed attempt's socket must be closed by the driver
			for i := 0; i < 500 && e.node.OpenConns() > before; i++ {
				time.Sleep(2 * time.Millisecond)
			}
			if e.node.OpenConns() > before {
				e.tr.Emit("ret", "req", 0, "conn", e.connID, "outcome", "hs-socket-left-open:"+mode, "echo", "", "tok", "")
			}
			e.tr.Emit("hs_ret", "mode", mode, "err", vfErrClass(cerr))
		}
		e.node.Handler = prev
		// the original connection still works
		e.start("prompt", false)
		return ""
	},
	// C06: a request that is never written (frame build failure) gives its stream id back; a second
	// request that is handed exactly that id in the middle of the clean-up must work normally
	"undo_window": func(e *vfGateEnv) string {
		if e.proto != 2 {
			return ""
		}
		capacity := e.conn.streams.NumStreams - 1
		for i := 0; i < capacity-1; i++ {
			e.start("never", false) // occupy every id but one
		}
		for i := 0; i < 3000 && e.conn.AvailableStreams() > 1; i++ {
			time.Sleep(time.Millisecond)
		}
		if e.conn.AvailableStreams() != 1 {
			return "could not occupy all ids but one"
		}
		idA := int(atomic.LoadInt64(&e.nextReq)) + 1
		gf := e.sc.gates.Arm("obs_finished", idA)
		e.start("buildfail", false)
		if !gf.AwaitReached(vfGateWait) {
			return "obs_finished not reached"
		}
		// A is inside releaseStream, its id is free again: B must be able to use it
		e.start("prompt", false)
		time.Sleep(30 * time.Millisecond)
		gf.Release()
		return ""
	},
	// C06 / C01: a frame arrives on a stream id that is handed out but not yet registered (the window between
	// GetStream and addCall): the receiver must discard it and must not touch the id, which its holder
	// keeps; every other id is taken, so a wrongly freed id would be handed to the next request at once
	"frame_before_addcall": func(e *vfGateEnv) string {
		if e.proto != 2 {
			return ""
		}
		capacity := e.conn.streams.NumStreams - 1
		for i := 0; i < capacity-1; i++ {
			e.start("never", false)
		}
		for i := 0; i < 3000 && e.conn.AvailableStreams() > 1; i++ {
			time.Sleep(time.Millisecond)
		}
		if e.conn.AvailableStreams() != 1 {
			return "could not occupy all ids but one"
		}
		idB := int(atomic.LoadInt64(&e.nextReq)) + 1
		gs := e.sc.gates.Arm("x_stream", idB)
		e.start("never", false)
		if !gs.AwaitReached(vfGateWait) {
			return "x_stream not reached"
		}
		st := -1
		for _, ev := range e.tr.Events() {
			if ev["ev"] == "x_stream" && ev["req"] == idB {
				st, _ = ev["stream"].(int)
			}
		}
		var nc *vfNodeConn
		for _, c := range e.node.Conns() {
			if c.Conn.in == e.mc.out {
				nc = c
			}
		}
		if st <= 0 || nc == nil {
			gs.Release()
			return "stream id of the gated request / node end not found"
		}
		e.tr.Emit("n_unsol", "stream", st)
		nc.Send(vfEncodeFrame(byte(e.proto), 0, st, vfOpResult, vfSetKeyspaceBody("unsol_gate")))
		seen := false
		for i := 0; i < 3000 && !seen; i++ {
			for _, ev := range e.tr.Events() {
				if ev["ev"] == "r_discard" && ev["conn"] == e.connID {
					seen = true
				}
			}
			time.Sleep(time.Millisecond)
		}
		gs.Release()
		if !seen {
			return "the receiver did not report the unmatched frame"
		}
		time.Sleep(5 * time.Millisecond)
		idC, _, _ := e.start("prompt", false) // every id is held: it must be refused for lack of streams
		e.awaitRet(idC, 2*time.Second)
		return ""
	},
	// C07 / C01: a request is cancelled while its frame is queued in the write coalescer; whatever the
	// writer reports must match the byte stream, and the stream id must not be reused while an answer
	// to that frame can still arrive
	"cancel_while_queued": func(e *vfGateEnv) string {
		if _, ok := e.conn.w.(*writeCoalescer); !ok {
			return ""
		}
		gq := e.sc.gates.Arm("q_enq", 0)
		id, _, cancel := e.start("never", true)
		_ = id
		if !gq.AwaitReached(vfGateWait) {
			return "q_enq not reached"
		}
		gq.Release()
		time.Sleep(2 * time.Millisecond) // the writer now waits for the flush, 40 ms away
		cancel()
		time.Sleep(80 * time.Millisecond) // the flush has happened
		// enough later requests for the allocator to come back to that id if it was released
		for i := 0; i < 6; i++ {
			e.start("prompt", false)
			time.Sleep(time.Millisecond)
		}
		return ""
	},
	// C07: "a request whose context ended before writing began leaves no bytes": a write is stuck in the
	// socket (the peer stopped reading in the middle of a frame), a second request waits for the writer,
	// its context ends during that wait; only after it has returned (or 1.5 s) does the socket drain
	"cancel_while_writer_blocked":   func(e *vfGateEnv) string { return vfGateWriterBlocked(e, false) },
	"deadline_while_writer_blocked": func(e *vfGateEnv) string { return vfGateWriterBlocked(e, true) },
	// C01: "each caller receives the response the server sent for its own request": two requests are flushed
	// in one coalesced batch; the socket takes the first frame whole and stalls on the second, so the node
	// answers the first request while its caller still waits for the flush to be reported (longer than the
	// request timeout). The receiver has that response in hand before the caller's own timer even starts:
	// the caller must get it.
	"answer_while_writing": func(e *vfGateEnv) string {
		if _, ok := e.conn.w.(*writeCoalescer); !ok {
			return ""
		}
		idA := int(atomic.LoadInt64(&e.nextReq)) + 1
		hdr := 8
		if e.proto > 2 {
			hdr = 9
		}
		lenA := hdr + 4 + len(fmt.Sprintf("tok_%d_prompt", idA)) + 2 + 1
		hold, held := make(chan struct{}), make(chan struct{})
		e.mc.SetFault(&vfWriteFault{FailAtByte: -1, StallAtByte: -1, HoldAtByte: int64(len(e.mc.Written()) + lenA), Hold: hold, Held: held})
		e.start("prompt", false)
		time.Sleep(2 * time.Millisecond)
		idB, _, _ := e.start("prompt", false)
		select {
		case <-held:
		case <-time.After(vfGateWait):
			close(hold)
			return "the batch did not reach the socket"
		}
		e.tr.Emit("env_held", "conn", e.connID)
		t0 := time.Now()
		inHand := false
		for i := 0; i < 3000 && !inHand; i++ {
			for _, ev := range e.tr.Events() {
				if ev["ev"] == "r_body" && ev["req"] == idA && ev["err"] == "none" {
					inHand = true
				}
			}
			time.Sleep(time.Millisecond)
		}
		if !inHand {
			close(hold)
			return "the first request's answer did not arrive while the batch was stuck"
		}
		e.tr.Emit("env_expect_resp", "req", idA)
		if d := 1300*time.Millisecond - time.Since(t0); d > 0 {
			time.Sleep(d) // longer than the request timeout (1 s)
		}
		e.tr.Emit("env_unhold", "conn", e.connID)
		close(hold)
		e.awaitRet(idA, 3*time.Second)
		e.awaitRet(idB, 3*time.Second)
		return ""
	},
	// C07: after a torn frame, another caller tries to write before the failing caller closes
	"write_after_partial": func(e *vfGateEnv) string {
		e.mc.SetFault(&vfWriteFault{FailAtByte: int64(len(e.mc.Written())) + 7, StallAtByte: -1})
		id, _, _ := e.start("never", false)
		gf := e.sc.gates.Arm("x_wfail", id)
		if !gf.AwaitReached(vfGateWait) {
			return "x_wfail not reached"
		}
		e.mc.SetFault(nil) // the socket would take more
		id2, _, _ := e.start("prompt", false)
		gw := e.sc.gates.Arm("x_wend", id2)
		if !gw.AwaitReached(vfGateWait) {
			gf.Release()
			return "second writer did not return from its write"
		}
		gw.Release()
		// ... and a third one: whatever the second writer was told, it must have left the writer usable
		// (a write slot never given back would park this one for good, and the closer with it)
		id3, _, _ := e.start("prompt", false)
		gw3 := e.sc.gates.Arm("x_wend", id3)
		gw3.AwaitReached(2 * time.Second)
		gw3.Release()
		time.Sleep(5 * time.Millisecond)
		gf.Release()
		return ""
	},
}

func vfGateWriterBlocked(e *vfGateEnv, useDeadline bool) string {
	e.useDeadline = useDeadline
	return vfGateWriterBlockedBody(e)
}

func vfGateWriterBlockedBody(e *vfGateEnv) string {
	useDeadline := e.useDeadline
	hold, held := make(chan struct{}), make(chan struct{})
	e.mc.SetFault(&vfWriteFault{FailAtByte: -1, StallAtByte: -1, HoldAtByte: int64(len(e.mc.Written())) + 5, Hold: hold, Held: held})
	idA, _, _ := e.start("prompt", false)
	select {
	case <-held:
	case <-time.After(vfGateWait):
		close(hold)
		return "the first write did not reach the socket"
	}
	e.tr.Emit("env_held", "conn", e.connID)
	var id int
	var cancel context.CancelFunc
	if useDeadline {
		id, _, cancel = e.startWith("prompt", false, 40*time.Millisecond)
		defer cancel()
	} else {
		id, _, cancel = e.start("prompt", true)
	}
	gw := e.sc.gates.Arm("x_wbegin", id)
	if !gw.AwaitReached(vfGateWait) {
		close(hold)
		return "second request did not reach its write"
	}
	gw.Release()
	if !useDeadline {
		time.Sleep(3 * time.Millisecond) // it now waits for the writer
		cancel()
	}
	e.awaitRet(id, 1500*time.Millisecond)
	// nothing in this scenario justifies closing the connection: the request stuck in the socket and
	// the ones that follow get their answers
	e.tr.Emit("env_expect_resp", "req", idA)
	e.tr.Emit("env_unhold", "conn", e.connID)
	close(hold)
	e.awaitRet(idA, 3*time.Second)
	for i := 0; i < 3; i++ {
		idn, _, _ := e.start("prompt", false)
		e.tr.Emit("env_expect_resp", "req", idn)
		e.awaitRet(idn, 3*time.Second)
	}
	return ""
}

// TestVfConnGates writes conn_g<k>.ndjson per scenario x protocol x writer mode.
func TestVfConnGates(t *testing.T) {
	if vfOutDir() == "" {
		t.Skip("VF_OUT not set")
	}
	names := []string{"closer_before_select", "closer_vs_giveup", "recv_vs_giveup", "late_answer_after_timeout", "two_closers", "write_after_partial", "cancel_while_queued", "cancel_while_writer_blocked", "deadline_while_writer_blocked", "answer_while_writing", "undo_window", "frame_before_addcall", "handshake_faults"}
	k := 0
	var inconclusive []string
	for _, name := range names {
		for _, proto := range []int{2, 4} {
			for _, coalesce := range []bool{false, true} {
				if name != "write_after_partial" && name != "cancel_while_queued" && name != "cancel_while_writer_blocked" && name != "deadline_while_writer_blocked" && name != "answer_while_writing" && coalesce && proto == 2 {
					continue
				}
				e, err := vfNewGateEnv("gate:"+name, proto, coalesce)
				if _, unanswered := err.(vfHandshakeUnanswered); unanswered {
					out, cerr := vfCreateNDJSON(vfOutPath(fmt.Sprintf("conn_g%02d.ndjson", k)))
					if cerr != nil {
						t.Fatal(cerr)
					}
					for _, ev := range vfHandshakeUnansweredTrace("gate:"+name, proto) {
						out.Write(ev)
					}
					out.Close()
					k++
					continue
				}
				if err != nil {
					t.Fatalf("VFHARNESS %v", err)
				}
				why := vfGateScenarios[name](e)
				evs := e.finish()
				if why != "" {
					inconclusive = append(inconclusive, fmt.Sprintf("%s/v%d/coalesce=%v: %s", name, proto, coalesce, why))
					continue
				}
				out, err := vfCreateNDJSON(vfOutPath(fmt.Sprintf("conn_g%02d.ndjson", k)))
				if err != nil {
					t.Fatal(err)
				}
				for _, ev := range evs {
					out.Write(ev)
				}
				out.Close()
				k++
			}
		}
	}
	fmt.Printf("VFGATES written=%d inconclusive=%q\n", k, inconclusive)
}
