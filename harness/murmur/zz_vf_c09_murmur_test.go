package murmur

// Verification harness for property C09 (partition tokens), hash function level.
// Overlaid into internal/murmur by /verif/bin/check.  Glue only: it feeds keys to the real
// Murmur3H1 and writes down what came back; expected values are computed by TLC (Token.tla).

import (
	"bufio"
	"encoding/json"
	"fmt"
	"math/rand"
	"os"
	"strconv"
	"testing"
)

type vfC09Case struct {
	K   string `json:"k"`
	Key []int  `json:"key"`
}

type vfC09Vec struct {
	K     string `json:"k"`
	I     int    `json:"i"`
	Key   []int  `json:"key"`
	Out   []int  `json:"out"`
	Panic string `json:"panic"`
}

func vfC09Ints(b []byte) []int {
	r := make([]int, len(b))
	for i, x := range b {
		r[i] = int(x)
	}
	return r
}

func vfC09Bytes(a []int) []byte {
	r := make([]byte, len(a))
	for i, x := range a {
		r[i] = byte(x)
	}
	return r
}

func vfC09Hash(key []byte) (out []int, pan string) {
	defer func() {
		if r := recover(); r != nil {
			out, pan = []int{}, fmt.Sprint(r)
		}
	}()
	// hand the function a slice whose backing array ends exactly at the key (so that a read
	// past the end is a fault, not silent garbage) and which is not 8-byte aligned relative to
	// a fresh allocation
	buf := make([]byte, len(key)+3)
	copy(buf[3:], key)
	h := Murmur3H1(buf[3:])
	return vfC09Ints([]byte(strconv.FormatInt(h, 10))), ""
}

func vfC09Env(t *testing.T, name string) string {
	v := os.Getenv(name)
	if v == "" {
		t.Skipf("%s not set", name)
	}
	return v
}

// TestVfC09MurmurCases executes TLC-generated keys (VF_CASES, NDJSON) and writes the outputs.
func TestVfC09MurmurCases(t *testing.T) {
	in, err := os.Open(vfC09Env(t, "VF_CASES"))
	if err != nil {
		t.Fatal(err)
	}
	defer in.Close()
	out, err := os.Create(vfC09Env(t, "VF_RESULTS"))
	if err != nil {
		t.Fatal(err)
	}
	defer out.Close()
	w := bufio.NewWriter(out)
	defer w.Flush()
	enc := json.NewEncoder(w)
	sc := bufio.NewScanner(in)
	sc.Buffer(make([]byte, 1<<20), 1<<26)
	n := 0
	for i := 0; sc.Scan(); i++ {
		var c vfC09Case
		if err := json.Unmarshal(sc.Bytes(), &c); err != nil {
			t.Fatal(err)
		}
		if c.K != "key" {
			continue
		}
		o, p := vfC09Hash(vfC09Bytes(c.Key))
		enc.Encode(vfC09Vec{K: "h1", I: i, Key: append([]int{}, c.Key...), Out: o, Panic: p})
		n++
	}
	fmt.Printf("VFSUMMARY {\"cases\":%d}\n", n)
}

// TestVfC09MurmurRecord records seeded random keys with the output of the real function.
func TestVfC09MurmurRecord(t *testing.T) {
	path := vfC09Env(t, "VF_VECTORS")
	seed, _ := strconv.ParseInt(os.Getenv("VF_SEED"), 10, 64)
	n, _ := strconv.Atoi(os.Getenv("VF_N"))
	if n == 0 {
		n = 1000
	}
	rng := rand.New(rand.NewSource(seed*7919 + 11))
	out, err := os.Create(path)
	if err != nil {
		t.Fatal(err)
	}
	defer out.Close()
	w := bufio.NewWriter(out)
	defer w.Flush()
	enc := json.NewEncoder(w)
	classes := []byte{0x00, 0x01, 0x7f, 0x80, 0xff}
	for i := 0; i < n; i++ {
		var l int
		switch rng.Intn(10) {
		case 0:
			l = rng.Intn(200)
		default:
			l = rng.Intn(66)
		}
		key := make([]byte, l)
		mode := rng.Intn(3)
		for j := range key {
			switch {
			case mode == 0, mode == 1 && rng.Intn(2) == 0:
				key[j] = byte(rng.Intn(256))
			default:
				key[j] = classes[rng.Intn(len(classes))]
			}
		}
		o, p := vfC09Hash(key)
		enc.Encode(vfC09Vec{K: "h1", I: i, Key: vfC09Ints(key), Out: o, Panic: p})
	}
	fmt.Printf("VFSUMMARY {\"vectors\":%d}\n", n)
}
