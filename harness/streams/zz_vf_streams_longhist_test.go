package streams

// C08, "for every history of acquire/release calls": histories too long to run (billions of
// acquisitions) are reached by presetting the rotating start-word counter to the values such a
// history leaves behind (around 2^31, around 2^32 and at the word-count boundaries); from there the
// allocator must hand out every non-reserved id exactly once, report exhaustion, take every id back
// and count correctly - Streams.tla's sequential clauses do not depend on where the rotation stands.

import (
	"fmt"
	"os"
	"reflect"
	"testing"
	"unsafe"
)

// vfStreamsSetOffset writes the counter whatever integer type it has.
func vfStreamsSetOffset(g *IDGenerator, v uint64) bool {
	f := reflect.ValueOf(g).Elem().FieldByName("offset")
	if !f.IsValid() {
		return false
	}
	w := reflect.NewAt(f.Type(), unsafe.Pointer(f.UnsafeAddr())).Elem()
	switch w.Kind() {
	case reflect.Uint, reflect.Uint32, reflect.Uint64:
		w.SetUint(v & ((1 << (8 * uint(w.Type().Size()))) - 1))
	case reflect.Int, reflect.Int32, reflect.Int64:
		bits := 8 * uint(w.Type().Size())
		x := v & ((1 << bits) - 1)
		if bits < 64 && x >= 1<<(bits-1) {
			w.SetInt(int64(x) - int64(1)<<bits) // the same bit pattern
		} else {
			w.SetInt(int64(x))
		}
	default:
		return false
	}
	return true
}

func TestVfStreamsLongHistory(t *testing.T) {
	if os.Getenv("VF_OUT") == "" {
		t.Skip("VF_OUT not set")
	}
	presets := []uint64{0, 1, 2, 510, 511, 512, 513, 1<<31 - 513, 1<<31 - 2, 1<<31 - 1, 1 << 31, 1<<31 + 1, 1<<32 - 513, 1<<32 - 2, 1<<32 - 1}
	for _, proto := range []int{2, 4} {
		for _, p := range presets {
			msg := func() (msg string) {
				defer func() {
					if r := recover(); r != nil {
						msg = fmt.Sprintf("VIOLATION all-ids: panic after a history that leaves the start-word counter at %d (protocol %d): %v", p, proto, r)
					}
				}()
				g := New(proto)
				nb := uint64(g.NumStreams / 64)
				// the code keeps the counter reduced modulo the word count; a counter that is only ever
				// incremented reaches the raw values: both are histories
				for _, v := range []uint64{p % nb, p} {
					if !vfStreamsSetOffset(g, v) {
						return "VFHARNESS cannot set the start-word counter"
					}
					seen := map[int]bool{}
					for i := 0; i < g.NumStreams+2; i++ {
						id, ok := g.GetStream()
						if !ok {
							break
						}
						if id <= 0 || id >= g.NumStreams || seen[id] {
							return fmt.Sprintf("VIOLATION all-ids: GetStream returned %d (out of range or twice) with the start-word counter at %d (protocol %d)", id, v, proto)
						}
						seen[id] = true
					}
					if len(seen) != g.NumStreams-1 {
						return fmt.Sprintf("VIOLATION all-ids: got %d ids of %d with the start-word counter at %d (protocol %d)", len(seen), g.NumStreams-1, v, proto)
					}
					if g.Available() != 0 {
						return fmt.Sprintf("VIOLATION all-ids: Available() = %d with every id handed out (counter %d, protocol %d)", g.Available(), v, proto)
					}
					for id := range seen {
						if !g.Clear(id) {
							return fmt.Sprintf("VIOLATION all-ids: Clear(%d) reported false for an id in use (counter %d, protocol %d)", id, v, proto)
						}
					}
					if g.Available() != g.NumStreams-1 {
						return fmt.Sprintf("VIOLATION all-ids: Available() = %d of %d after every id was released (counter %d, protocol %d)", g.Available(), g.NumStreams-1, v, proto)
					}
				}
				return ""
			}()
			if msg != "" {
				t.Fatal(msg)
			}
		}
	}
	fmt.Println("VFLONGHIST ok")
}
