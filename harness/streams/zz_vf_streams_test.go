package streams

// Verification harness for the stream id allocator (property C08).  Overlaid into
// internal/streams by /verif/bin/check; needs the "verif" build tag for the yield
// points.  Uses only the exported API, String() and the hook arguments.

import (
	"bufio"
	"encoding/json"
	"fmt"
	"math/rand"
	"os"
	"sort"
	"strconv"
	"strings"
	"sync"
	"sync/atomic"
	"testing"
	"time"
)

// ---------------------------------------------------------------- projection

// vfFree parses String() ("hexword hexword ...") into the sorted list of free ids.
func vfFree(s *IDGenerator) []int {
	free := []int{}
	// String() pads its result with NUL bytes (capacity-sized slice); ignore them
	for w, f := range strings.FieldsFunc(s.String(), func(r rune) bool { return r == ' ' || r == 0 }) {
		bits, err := strconv.ParseUint(f, 16, 64)
		if err != nil {
			panic(err)
		}
		for j := 0; j < 64; j++ {
			if bits>>(63-uint(j))&1 == 0 {
				free = append(free, w*64+j)
			}
		}
	}
	return free
}

func vfInuse(s *IDGenerator) int { return s.NumStreams - s.Available() - 1 }

// ---------------------------------------------------------------- gate scheduler

type vfThread struct {
	name    string
	cmd     chan vfCmd
	parked  chan struct{} // thread -> scheduler: parked at a hook or finished the call
	resume  chan struct{}
	point   string // "idle" or hook point where the thread is parked
	a, b    uint64
	resKind string
	resVal  int
	held    map[int]bool
}

type vfCmd struct {
	op string // get | clear | quit
	id int
}

type vfSched struct {
	gen     *IDGenerator
	threads map[string]*vfThread
	cur     *vfThread
}

var vfCurSched atomic.Value // *vfSched (nil when free running)
var vfProbe func(point string, s *IDGenerator, a, b uint64)

func init() {
	VerifHook = func(point string, s *IDGenerator, a, b uint64) {
		if p := vfProbe; p != nil {
			p(point, s, a, b)
			return
		}
		v := vfCurSched.Load()
		if v == nil {
			return
		}
		sc := v.(*vfSched)
		if sc == nil || sc.gen != s || sc.cur == nil {
			return
		}
		th := sc.cur
		th.point, th.a, th.b = point, a, b
		th.parked <- struct{}{}
		<-th.resume
	}
}

func vfNewSched(gen *IDGenerator, names []string) *vfSched {
	sc := &vfSched{gen: gen, threads: map[string]*vfThread{}}
	for _, n := range names {
		th := &vfThread{name: n, cmd: make(chan vfCmd), parked: make(chan struct{}), resume: make(chan struct{}),
			point: "idle", resKind: "none", resVal: -1, held: map[int]bool{}}
		sc.threads[n] = th
		go func(th *vfThread) {
			for c := range th.cmd {
				switch c.op {
				case "get":
					id, ok := gen.GetStream()
					if ok {
						th.resKind, th.resVal = "get_ok", id
					} else {
						th.resKind, th.resVal = "get_fail", 0
					}
				case "clear":
					if gen.Clear(c.id) {
						th.resKind, th.resVal = "clear_true", c.id
					} else {
						th.resKind, th.resVal = "clear_false", c.id
					}
				}
				th.point = "idle"
				th.parked <- struct{}{}
			}
		}(th)
	}
	return sc
}

func (sc *vfSched) stop() {
	for _, th := range sc.threads {
		close(th.cmd)
	}
}

// step lets thread t perform exactly one atomic operation (or start a call and run
// to its first yield point).
func (sc *vfSched) step(t string, op string, id int) error {
	th := sc.threads[t]
	sc.cur = th
	if th.point == "idle" {
		if op == "" {
			return fmt.Errorf("thread %s is idle but the schedule has no call to start", t)
		}
		th.resKind, th.resVal = "none", -1
		th.cmd <- vfCmd{op: op, id: id}
	} else {
		th.resume <- struct{}{}
	}
	select {
	case <-th.parked:
	case <-time.After(20 * time.Second):
		return fmt.Errorf("thread %s did not reach a yield point within 20s", t)
	}
	sc.cur = nil
	return nil
}

// ---------------------------------------------------------------- schedules

type vfThState struct {
	Pc   string `json:"pc"`
	Ops  int    `json:"ops"`
	Id   int    `json:"id"`
	Pos  int    `json:"pos"`
	J    int    `json:"j"`
	Off  int    `json:"off"`
	Held []int  `json:"held"`
	Past []int  `json:"past"`
	Rk   string `json:"rk"`
	Rv   int    `json:"rv"`
}

type vfProj struct {
	Free   []int                `json:"used"` // MC_Streams!Proj prints the FREE ids under this key
	Offset int                  `json:"offset"`
	Inuse  int                  `json:"inuse"`
	Th     map[string]vfThState `json:"th"`
}

type vfStep struct {
	T   string `json:"t"`
	Op  string `json:"op"`
	Id  int    `json:"id"`
	Exp vfProj `json:"exp"`
}

type vfSchedule struct {
	N     int      `json:"n"`
	Proto int      `json:"proto"`
	Init  vfProj   `json:"init"`
	Steps []vfStep `json:"steps"`
}

type vfEvent struct {
	Sched int    `json:"sched"`
	K     int    `json:"k"`
	T     string `json:"t"`
	Op    string `json:"op"`
	Id    int    `json:"id"`
	Pc    string `json:"pc"`
	A     int    `json:"a"`
	B     int    `json:"b"`
	Rk    string `json:"rk"`
	Rv    int    `json:"rv"`
	Free  []int  `json:"free"`
	Inuse int    `json:"inuse"`
}

func vfEqInts(a, b []int) bool {
	if len(a) != len(b) {
		return false
	}
	for i := range a {
		if a[i] != b[i] {
			return false
		}
	}
	return true
}

// vfPrepare builds a real allocator whose free ids are exactly `free` and whose next
// GetStream will load `offset`, using the public API only.  Every id handed out on the
// way is checked to be fresh and in range (the sequential "all ids get used" clause).
func vfPrepare(proto int, free []int, offset int) (*IDGenerator, error) {
	for attempt := 0; attempt < 4; attempt++ {
		g := New(proto)
		seen := map[int]bool{}
		want := g.NumStreams - 1
		// an extra call before filling shifts the rotating offset
		for i := 0; i < attempt; i++ {
			id, ok := g.GetStream()
			if !ok {
				return nil, fmt.Errorf("prepare: exhaustion on an empty allocator")
			}
			g.Clear(id)
		}
		for i := 0; i < want; i++ {
			id, ok := g.GetStream()
			if !ok {
				return nil, fmt.Errorf("VIOLATION all-ids: GetStream failed after %d of %d ids", i, want)
			}
			if id <= 0 || id >= g.NumStreams {
				return nil, fmt.Errorf("VIOLATION range: GetStream returned %d", id)
			}
			if seen[id] {
				return nil, fmt.Errorf("VIOLATION unique: GetStream returned %d twice", id)
			}
			seen[id] = true
		}
		if id, ok := g.GetStream(); ok {
			return nil, fmt.Errorf("VIOLATION unique/range: GetStream returned %d on a full allocator", id)
		}
		for _, id := range free {
			if !g.Clear(id) {
				return nil, fmt.Errorf("VIOLATION clear-reports: Clear(%d) of a held id returned false", id)
			}
		}
		// learn the offset the next GetStream will load
		var seenOff int64 = -1
		vfProbe = func(point string, s *IDGenerator, a, b uint64) {
			if s == g && point == "g_cas_offset" && seenOff < 0 {
				seenOff = int64(a)
			}
		}
		id, ok := g.GetStream()
		vfProbe = nil
		if ok {
			g.Clear(id)
		}
		// that probe call advanced the offset by one: the next call loads seenOff+1
		nb := g.NumStreams / 64
		if seenOff >= 0 && (int(seenOff)+1)%nb == offset {
			if !vfEqInts(vfFree(g), free) {
				return nil, fmt.Errorf("prepare: free set %v, want %v", vfFree(g), free)
			}
			return g, nil
		}
	}
	return nil, fmt.Errorf("prepare: could not reach offset %d", offset)
}

// TestVfStreamsReplay executes TLC-generated schedules (VF_SCHEDULES, NDJSON) on the
// real allocator under the gate scheduler, compares the projected state after every
// step with the model's, and writes the real trace of every schedule to VF_TRACES.
func TestVfStreamsReplay(t *testing.T) {
	in := os.Getenv("VF_SCHEDULES")
	if in == "" {
		t.Skip("VF_SCHEDULES not set")
	}
	f, err := os.Open(in)
	if err != nil {
		t.Fatal(err)
	}
	defer f.Close()
	out, err := os.Create(os.Getenv("VF_TRACES"))
	if err != nil {
		t.Fatal(err)
	}
	defer out.Close()
	w := bufio.NewWriterSize(out, 1<<20)
	defer w.Flush()
	enc := json.NewEncoder(w)
	rd := bufio.NewReaderSize(f, 1<<20)
	type summary struct {
		Schedules, Steps, Diverged, Errors int
		FirstDivergence                    string
		PrepareViolation                   string
	}
	var sum summary
	for {
		line, err := rd.ReadBytes('\n')
		if len(line) > 1 {
			var sch vfSchedule
			if e := json.Unmarshal(line, &sch); e != nil {
				t.Fatalf("bad schedule: %v", e)
			}
			div, e2 := vfRunSchedule(&sch, enc)
			sum.Schedules++
			sum.Steps += len(sch.Steps)
			if e2 != nil {
				if strings.HasPrefix(e2.Error(), "VIOLATION") {
					sum.PrepareViolation = e2.Error()
					break
				}
				sum.Errors++
				if sum.FirstDivergence == "" {
					sum.FirstDivergence = e2.Error()
				}
			}
			if div != "" {
				sum.Diverged++
				if sum.FirstDivergence == "" {
					sum.FirstDivergence = fmt.Sprintf("schedule %d: %s", sch.N, div)
				}
			}
		}
		if err != nil {
			break
		}
	}
	b, _ := json.Marshal(sum)
	fmt.Printf("VFSUMMARY %s\n", b)
}

func vfRunSchedule(sch *vfSchedule, enc *json.Encoder) (divergence string, err error) {
	g, err := vfPrepare(sch.Proto, sch.Init.Free, sch.Init.Offset)
	if err != nil {
		return "", err
	}
	names := make([]string, 0, len(sch.Init.Th))
	for n := range sch.Init.Th {
		names = append(names, n)
	}
	sort.Strings(names)
	sc := vfNewSched(g, names)
	vfCurSched.Store(sc)
	defer func() {
		// drain: let every parked thread finish its call
		for _, n := range names {
			for i := 0; sc.threads[n].point != "idle" && i < 100000; i++ {
				if e := sc.step(n, "", 0); e != nil {
					break
				}
			}
		}
		vfCurSched.Store((*vfSched)(nil))
		sc.stop()
	}()
	enc.Encode(vfEvent{Sched: sch.N, K: 0, T: "", Op: "init", Pc: "", Rk: "none", Rv: -1, Free: vfFree(g), Inuse: vfInuse(g)})
	diverged := false
	for k, st := range sch.Steps {
		th := sc.threads[st.T]
		op, id := "", 0
		if th.point == "idle" {
			op, id = st.Op, st.Id
			if diverged && op == "" {
				// the model expected this thread to be in the middle of a call; nothing to do
				continue
			}
			if diverged && op == "clear" && !th.held[id] {
				// never release an id the real thread does not hold
				continue
			}
			if op == "clear" {
				delete(th.held, id)
			}
		}
		if e := sc.step(st.T, op, id); e != nil {
			return divergence, e
		}
		if th.point == "idle" && th.resKind == "get_ok" {
			th.held[th.resVal] = true
		}
		ev := vfEvent{Sched: sch.N, K: k + 1, T: st.T, Op: op, Id: id, Pc: th.point, A: int(th.a), B: int(th.b),
			Rk: th.resKind, Rv: th.resVal, Free: vfFree(g), Inuse: vfInuse(g)}
		enc.Encode(ev)
		if diverged {
			continue
		}
		exp := st.Exp
		et := exp.Th[st.T]
		var why string
		switch {
		case th.point != et.Pc:
			why = fmt.Sprintf("thread at %q, model at %q", th.point, et.Pc)
		case !vfEqInts(ev.Free, exp.Free):
			why = fmt.Sprintf("free ids %v, model %v", ev.Free, exp.Free)
		case ev.Inuse != exp.Inuse:
			why = fmt.Sprintf("inuse %d, model %d", ev.Inuse, exp.Inuse)
		case th.point == "idle" && (th.resKind != et.Rk || th.resVal != et.Rv):
			why = fmt.Sprintf("result %s/%d, model %s/%d", th.resKind, th.resVal, et.Rk, et.Rv)
		case th.point == "g_cas_offset" && int(th.a) != et.Off:
			why = fmt.Sprintf("loaded offset %d, model %d", th.a, et.Off)
		case (th.point == "g_load_word" || th.point == "g_cas_word" || th.point == "g_reload_word" || th.point == "g_add_inuse") && int(th.a) != et.Pos:
			why = fmt.Sprintf("%s on word %d, model %d", th.point, th.a, et.Pos)
		case (th.point == "g_cas_word" || th.point == "g_reload_word") && int(th.b) != et.J:
			why = fmt.Sprintf("%s on bit %d, model %d", th.point, th.b, et.J)
		}
		if why != "" {
			diverged = true
			divergence = fmt.Sprintf("step %d (%s %s): %s", k+1, st.T, st.Op, why)
		}
	}
	return divergence, nil
}

// ---------------------------------------------------------------- free-running stress

type vfLinEvent struct {
	Seq int64  `json:"seq"`
	T   int    `json:"t"`
	Ev  string `json:"ev"` // call_get | ret_get | call_clear | ret_clear
	Id  int    `json:"id"`
	Ok  bool   `json:"ok"`
}

// TestVfStreamsStress runs goroutines against a real allocator with few free ids and
// logs call/return events with a global sequence number (intent before, observation
// after) for validation by Trace_StreamsLin.tla.
func TestVfStreamsStress(t *testing.T) {
	outDir := os.Getenv("VF_OUT")
	if outDir == "" {
		t.Skip("VF_OUT not set")
	}
	seed, _ := strconv.ParseInt(os.Getenv("VF_SEED"), 10, 64)
	nTraces, _ := strconv.Atoi(os.Getenv("VF_NTRACES"))
	if nTraces == 0 {
		nTraces = 8
	}
	nOps, _ := strconv.Atoi(os.Getenv("VF_NOPS"))
	if nOps == 0 {
		nOps = 60
	}
	rng := rand.New(rand.NewSource(seed))
	for tr := 0; tr < nTraces; tr++ {
		proto := 2 + 2*(tr%2) // 2 (128 ids) and 4 (32768 ids)
		g := New(proto)
		nfree := 1 + rng.Intn(4)
		nthreads := 2 + rng.Intn(3)
		// occupy everything, then free a few ids, some adjacent at a word boundary.
		// On the small capacity this sequential prefix is part of the logged trace (so TLC
		// decides "every non-reserved id is handed out before exhaustion"); on the large
		// one it is asserted here.
		var seq int64
		var mu sync.Mutex
		var evs []vfLinEvent
		logEv := func(e vfLinEvent) {
			// the sequence number is taken inside the same critical section as the append
			mu.Lock()
			seq++
			e.Seq = seq
			evs = append(evs, e)
			mu.Unlock()
		}
		logged := proto == 2
		initFree := []int{}
		if logged {
			for id := 1; id < g.NumStreams; id++ {
				initFree = append(initFree, id)
			}
		}
		var all []int
		seenAll := map[int]bool{}
		for {
			if logged {
				logEv(vfLinEvent{T: 0, Ev: "call_get"})
			}
			id, ok := g.GetStream()
			if logged {
				logEv(vfLinEvent{T: 0, Ev: "ret_get", Id: id, Ok: ok})
			}
			if !ok || len(all) > g.NumStreams+2 {
				break
			}
			if !logged && (id <= 0 || id >= g.NumStreams || seenAll[id]) {
				t.Fatalf("VIOLATION all-ids: GetStream returned %d (out of range or twice) on capacity %d", id, g.NumStreams)
			}
			seenAll[id] = true
			all = append(all, id)
		}
		if !logged && len(all) != g.NumStreams-1 {
			t.Fatalf("VIOLATION all-ids: got %d ids of %d", len(all), g.NumStreams-1)
		}
		cands := []int{62, 63, 64, 65, 127, 1, g.NumStreams - 1, g.NumStreams - 64, g.NumStreams - 65}
		freeSet := map[int]bool{}
		for len(freeSet) < nfree {
			c := cands[rng.Intn(len(cands))]
			if c > 0 && c < g.NumStreams && seenAll[c] {
				freeSet[c] = true
			}
		}
		var free []int
		for id := range freeSet {
			free = append(free, id)
		}
		sort.Ints(free)
		for _, id := range free {
			if logged {
				logEv(vfLinEvent{T: 0, Ev: "call_clear", Id: id})
			}
			ok := g.Clear(id)
			if logged {
				logEv(vfLinEvent{T: 0, Ev: "ret_clear", Id: id, Ok: ok})
			}
		}
		if !logged {
			initFree = free
		}
		var wg sync.WaitGroup
		for th := 0; th < nthreads; th++ {
			wg.Add(1)
			go func(th int, r *rand.Rand) {
				defer wg.Done()
				var mine []int
				for i := 0; i < nOps; i++ {
					if len(mine) > 0 && r.Intn(2) == 0 {
						id := mine[len(mine)-1]
						mine = mine[:len(mine)-1]
						// sometimes a second release path races on the same id (helper thread th+nthreads);
						// the owner waits for it before it acquires again
						var hw sync.WaitGroup
						if r.Intn(3) == 0 {
							hw.Add(1)
							go func() {
								defer hw.Done()
								logEv(vfLinEvent{T: th + nthreads, Ev: "call_clear", Id: id})
								ok := g.Clear(id)
								logEv(vfLinEvent{T: th + nthreads, Ev: "ret_clear", Id: id, Ok: ok})
							}()
						}
						logEv(vfLinEvent{T: th, Ev: "call_clear", Id: id})
						ok := g.Clear(id)
						logEv(vfLinEvent{T: th, Ev: "ret_clear", Id: id, Ok: ok})
						hw.Wait()
					} else {
						logEv(vfLinEvent{T: th, Ev: "call_get"})
						id, ok := g.GetStream()
						logEv(vfLinEvent{T: th, Ev: "ret_get", Id: id, Ok: ok})
						if ok {
							mine = append(mine, id)
						}
					}
					if r.Intn(4) == 0 {
						time.Sleep(time.Microsecond)
					}
				}
				for _, id := range mine {
					logEv(vfLinEvent{T: th, Ev: "call_clear", Id: id})
					ok := g.Clear(id)
					logEv(vfLinEvent{T: th, Ev: "ret_clear", Id: id, Ok: ok})
				}
			}(th, rand.New(rand.NewSource(rng.Int63())))
		}
		wg.Wait()
		fn := fmt.Sprintf("%s/lin_%03d.ndjson", outDir, tr)
		f, err := os.Create(fn)
		if err != nil {
			t.Fatal(err)
		}
		w := bufio.NewWriter(f)
		enc := json.NewEncoder(w)
		enc.Encode(map[string]interface{}{"seq": 0, "t": -1, "ev": "init", "id": 0, "ok": true, "free": initFree,
			"n": g.NumStreams, "threads": 2 * nthreads, "avail": len(free)})
		for _, e := range evs {
			enc.Encode(e)
		}
		enc.Encode(map[string]interface{}{"seq": seq + 1, "t": -1, "ev": "end", "id": g.Available(), "ok": true,
			"freeEnd": vfFree(g)})
		w.Flush()
		f.Close()
	}
}
