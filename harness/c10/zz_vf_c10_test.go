package gocql

// Verification harness for replica placement (property C10).  Overlaid into package
// gocql by /verif/bin/check.  It is glue only: it builds real HostInfo / tokenRing /
// placement strategies from a case description, calls the driver (newTokenRing,
// getStrategy, replicaMap, replicasFor) and serialises what the driver returned.  It never
// decides whether a result is right: expected values and verdicts come from TLC
// (spec/Topology.tla, Gen_Topology.tla, Trace_Topology.tla).

import (
	"bufio"
	"context"
	"encoding/json"
	"errors"
	"fmt"
	"math/big"
	"math/rand"
	"net"
	"os"
	"sort"
	"strconv"
	"strings"
	"testing"
	"time"
)

// vfC10Case is one placement case: a ring, a datacenter/rack layout and a keyspace.
// Node ids are 1-based indexes into Dc/Rack.  Tokens are abstract integers (strictly
// increasing, one per ring entry); they are mapped to partitioner tokens by vfC10Tok.
type vfC10Case struct {
	ID     int      `json:"id"`
	Ring   []int    `json:"ring"`
	Dc     []string `json:"dc"`
	Rack   []string `json:"rack"`
	Strat  string   `json:"strat"` // "simple" | "nts"
	RfDc   []string `json:"rfdc"`  // datacenters the keyspace names ("*" for simple)
	RfN    []int    `json:"rfn"`
	Tokens []int    `json:"tokens"`
	Look   [][]int  `json:"look"` // [token, ...]: only element 0 is read here
	Form   string   `json:"form"` // "int" | "str": type of the replication factor option values
	Parts  []string `json:"parts"`
	Down   []int    `json:"down"` // node ids whose state is DOWN while the ring and the replica map are built
	// Spread: how the abstract tokens are laid out in the partitioner's token space:
	// "" / "compact", "full" (smallest value -> minimum token, largest -> maximum token),
	// "edge" (half of the values next to the minimum, half next to the maximum), "zero" (consecutive around 0)
	Spread string `json:"spread"`
	// Pol: additionally build the replica map through a real TokenAwareHostPolicy with this fallback /
	// these options ("rr" | "dc" | "rack", + "-shuffle", + "-nonlocal"), route queries through it and read
	// the map the policy holds AFTERWARDS ("" = not done)
	Pol string `json:"pol"`
	// Fault (policy cases only): after the map was built and read, an update that cannot be carried out:
	// "local" / "unknown-class" / "bad-rf" (ALTER KEYSPACE to a placement the driver cannot compute, then
	// KeyspaceChanged), "fetch-fail-ks" (the keyspace metadata lookup fails during KeyspaceChanged),
	// "fetch-remove" (it fails while the highest-numbered node is removed).  Look3 = lookups afterwards.
	Fault string `json:"fault"`
	// DcNames: how the abstract datacenter names (dc1, dc2, dc3, dcX) are spelled in the host rows and in
	// the keyspace options: "" (as they are), "upper" (DC1 ..), "mixed" (names that differ only in the
	// case of letters are DIFFERENT datacenters: dc1 -> "DC1", dc2 -> "dc1", dc3 -> "Dc1", dcX -> "dC1"),
	// "blank" (surrounding blanks are part of the name: " dc1", "dc2 ", " dc3 ", "dcX  ")
	DcNames string `json:"dcnames"`
}

type vfC10Entry struct {
	T     int   `json:"t"`
	Hosts []int `json:"hosts"`
}

// vfC10Vector is a case together with what the real code returned for it.
type vfC10Vector struct {
	ID      int          `json:"id"`
	Part    string       `json:"part"`
	Form    string       `json:"form"`
	Ring    []int        `json:"ring"`
	Dc      []string     `json:"dc"`
	Rack    []string     `json:"rack"`
	Strat   string       `json:"strat"`
	RfDc    []string     `json:"rfdc"`
	RfN     []int        `json:"rfn"`
	Tokens  []int        `json:"tokens"`
	Down    []int        `json:"down"`
	Spread  string       `json:"spread"`
	Pol     string       `json:"pol"`
	Map2    []vfC10Entry `json:"map2"`  // the replica map a token aware policy holds after routing queries
	Look2   []vfC10Entry `json:"look2"` // ... and its lookups
	DcNames string       `json:"dcnames"`
	Fault   string       `json:"fault"`
	Look3   []vfC10Entry `json:"look3"`  // lookups in the policy's replica map after the faulty update
	PClass  string       `json:"pclass"` // none | mapsize | map-other | lookup | build | policy
	PMsg    string       `json:"pmsg"`
	Map     []vfC10Entry `json:"map"`
	Look    []vfC10Entry `json:"look"`
}

// vfC10Tok maps an abstract integer token (0..1005) to the textual token of a partitioner,
// strictly monotonically in that partitioner's own order.
func vfC10Tok(part string, v int) string {
	switch part {
	case "Murmur3Partitioner":
		// signed 64-bit, spans negative and positive values
		return strconv.FormatInt(int64(v-500)*9000000000000000, 10)
	case "OrderedPartitioner":
		// byte-wise order, including proper prefixes ("012" < "0125" < "013")
		s := fmt.Sprintf("%03d", v/10)
		if v%10 != 0 {
			s += string(rune('0' + v%10))
		}
		return s
	case "RandomPartitioner":
		// beyond 64 bits
		if v == 0 {
			return "0"
		}
		return strconv.Itoa(v) + strings.Repeat("0", 35)
	}
	panic("vfC10Tok: unknown partitioner " + part)
}

// vfC10TokMap returns the strictly monotone map from the abstract integer tokens of a case (ring
// tokens and lookup tokens) to textual tokens of the partitioner, laid out as c.Spread says: the
// whole token space is used, including its minimum and maximum, neighbours of both, values around
// zero and pairs that are further apart than half the space.
func vfC10TokMap(c *vfC10Case, part string) func(v int) string {
	if c.Spread == "" || c.Spread == "compact" {
		return func(v int) string { return vfC10Tok(part, v) }
	}
	seen := map[int]bool{}
	var vals []int
	add := func(v int) {
		if !seen[v] {
			seen[v] = true
			vals = append(vals, v)
		}
	}
	for _, t := range c.Tokens {
		add(t)
	}
	for _, l := range c.Look {
		add(l[0])
	}
	sort.Ints(vals)
	n := len(vals)
	rank := make(map[int]int, n)
	for r, v := range vals {
		rank[v] = r
	}
	lo, hi := vals[0], vals[n-1]
	// scaled(v, span) = (v-lo)*span/(hi-lo): 0 for lo, span for hi
	scaled := func(v int, span *big.Int) *big.Int {
		if hi == lo {
			return new(big.Int)
		}
		x := new(big.Int).Mul(big.NewInt(int64(v-lo)), span)
		return x.Div(x, big.NewInt(int64(hi-lo)))
	}
	one := big.NewInt(1)
	switch part {
	case "Murmur3Partitioner":
		min := new(big.Int).Lsh(one, 63)
		min.Neg(min)                                            // -2^63
		max := new(big.Int).Sub(new(big.Int).Lsh(one, 63), one) // 2^63-1
		span := new(big.Int).Sub(new(big.Int).Lsh(one, 64), one)
		return func(v int) string {
			r := rank[v]
			switch c.Spread {
			case "full":
				return new(big.Int).Add(min, scaled(v, span)).String()
			case "edge":
				if r < n/2 {
					return new(big.Int).Add(min, big.NewInt(int64(r))).String()
				}
				return new(big.Int).Sub(max, big.NewInt(int64(n-1-r))).String()
			default: // zero
				return strconv.Itoa(r - n/2)
			}
		}
	case "RandomPartitioner":
		max := new(big.Int).Sub(new(big.Int).Lsh(one, 127), one) // 2^127-1
		return func(v int) string {
			r := rank[v]
			switch c.Spread {
			case "full":
				return scaled(v, max).String()
			case "edge":
				if r < n/2 {
					return strconv.Itoa(r)
				}
				return new(big.Int).Sub(max, big.NewInt(int64(n-1-r))).String()
			default:
				return strconv.Itoa(r)
			}
		}
	case "OrderedPartitioner":
		return func(v int) string {
			r := rank[v]
			switch c.Spread {
			case "full":
				// "" < 3 big-endian bytes (unsigned byte order, values above 0x7f included) <= ff ff ff
				if r == 0 {
					return ""
				}
				x := scaled(v, big.NewInt(0xFFFFFF)).Int64()
				return string([]byte{byte(x >> 16), byte(x >> 8), byte(x)})
			case "edge":
				// "", 00, 00 00, ... below; ff, ff ff, ... above (proper prefixes, extreme bytes)
				if r < n/2 {
					return strings.Repeat("\x00", r)
				}
				return strings.Repeat("\xff", r-n/2+1)
			default:
				return vfC10Tok(part, v)
			}
		}
	}
	panic("vfC10TokMap: unknown partitioner " + part)
}

// vfC10DcName spells an abstract datacenter name the way c.DcNames says (injective: different
// abstract names stay different datacenters; datacenter names are case sensitive strings).
func vfC10DcName(c *vfC10Case, dc string) string {
	i := map[string]int{"dc1": 0, "dc2": 1, "dc3": 2, "dcX": 3}
	k, ok := i[dc]
	if !ok {
		return dc
	}
	switch c.DcNames {
	case "upper":
		return strings.ToUpper(dc)
	case "mixed":
		return []string{"DC1", "dc1", "Dc1", "dC1"}[k]
	case "blank":
		return []string{" dc1", "dc2 ", " dc3 ", "dcX  "}[k]
	}
	return dc
}

func vfC10Hosts(c *vfC10Case, part string) []*HostInfo {
	tm := vfC10TokMap(c, part)
	toks := make([][]string, len(c.Dc))
	for k, h := range c.Ring {
		toks[h-1] = append(toks[h-1], tm(c.Tokens[k]))
	}
	hosts := make([]*HostInfo, len(c.Dc))
	for i := range c.Dc {
		hosts[i] = &HostInfo{
			hostId:         "h" + strconv.Itoa(i+1),
			connectAddress: net.IPv4(10, 0, byte(i/200), byte(i%200+1)),
			dataCenter:     vfC10DcName(c, c.Dc[i]),
			rack:           c.Rack[i],
			tokens:         toks[i],
			state:          NodeUp,
		}
	}
	// placement does not depend on liveness: a down node still owns its tokens
	for _, d := range c.Down {
		if d >= 1 && d <= len(hosts) {
			hosts[d-1].state = NodeDown
		}
	}
	return hosts
}

func vfC10Keyspace(c *vfC10Case) *KeyspaceMetadata {
	val := func(n int) interface{} {
		if c.Form == "str" {
			return strconv.Itoa(n)
		}
		return n
	}
	ks := &KeyspaceMetadata{Name: "vfks", StrategyOptions: map[string]interface{}{}}
	if c.Strat == "simple" {
		ks.StrategyClass = "org.apache.cassandra.locator.SimpleStrategy"
		ks.StrategyOptions["replication_factor"] = val(c.RfN[0])
	} else {
		ks.StrategyClass = "org.apache.cassandra.locator.NetworkTopologyStrategy"
		for i, dc := range c.RfDc {
			ks.StrategyOptions[vfC10DcName(c, dc)] = val(c.RfN[i])
		}
	}
	ks.StrategyOptions["class"] = ks.StrategyClass
	return ks
}

func vfC10Ids(idx map[*HostInfo]int, hs []*HostInfo) []int {
	out := make([]int, 0, len(hs))
	for _, h := range hs {
		id, ok := idx[h]
		if !ok {
			id = 0 // a host that is not part of the case (nil or foreign)
		}
		out = append(out, id)
	}
	return out
}

// vfC10Run executes one case on the real code for one partitioner.
func vfC10Run(c *vfC10Case, part string) (v vfC10Vector) {
	v = vfC10Vector{ID: c.ID, Part: part, Form: c.Form, Ring: c.Ring, Dc: c.Dc, Rack: c.Rack, Strat: c.Strat,
		RfDc: c.RfDc, RfN: c.RfN, Tokens: c.Tokens, Down: append([]int{}, c.Down...), Spread: c.Spread, Pol: c.Pol, Fault: c.Fault, DcNames: c.DcNames,
		PClass: "none", Map: []vfC10Entry{}, Look: []vfC10Entry{}, Map2: []vfC10Entry{}, Look2: []vfC10Entry{}, Look3: []vfC10Entry{}}
	stage := "build"
	defer func() {
		if r := recover(); r != nil {
			v.PMsg = fmt.Sprint(r)
			switch {
			case stage == "map" && strings.Contains(v.PMsg, "token map different size to token ring"):
				v.PClass = "mapsize"
			case stage == "map":
				v.PClass = "map-other"
			default:
				v.PClass = stage
			}
			v.Map, v.Look, v.Map2, v.Look2, v.Look3 = []vfC10Entry{}, []vfC10Entry{}, []vfC10Entry{}, []vfC10Entry{}, []vfC10Entry{}
		}
	}()
	tm := vfC10TokMap(c, part)
	hosts := vfC10Hosts(c, part)
	idx := make(map[*HostInfo]int, len(hosts))
	for i, h := range hosts {
		idx[h] = i + 1
	}
	tr, err := newTokenRing("org.apache.cassandra.dht."+part, hosts)
	if err != nil {
		panic(err)
	}
	strat := getStrategy(vfC10Keyspace(c), nopLogger{})
	if strat == nil {
		panic("getStrategy returned nil")
	}
	// abstract value of a concrete token, to report the replica map by abstract token
	abs := make(map[string]int, len(c.Tokens))
	for _, t := range c.Tokens {
		abs[tr.partitioner.ParseString(tm(t)).String()] = t
	}
	stage = "map"
	rm := strat.replicaMap(tr)
	for _, e := range rm {
		t, ok := abs[e.token.String()]
		if !ok {
			t = -1
		}
		v.Map = append(v.Map, vfC10Entry{T: t, Hosts: vfC10Ids(idx, e.hosts)})
	}
	stage = "lookup"
	for _, l := range c.Look {
		ht := rm.replicasFor(tr.partitioner.ParseString(tm(l[0])))
		var hs []*HostInfo
		if ht != nil {
			hs = ht.hosts
		}
		v.Look = append(v.Look, vfC10Entry{T: l[0], Hosts: vfC10Ids(idx, hs)})
	}
	if c.Pol != "" {
		stage = "policy"
		v.Map2, v.Look2, v.Look3 = vfC10ViaPolicy(c, part, tm, abs)
		if c.Fault == "" || ((c.Fault == "fetch-remove" || c.Fault == "remove") && len(c.Dc) < 2) {
			v.Fault = ""
		}
	}
	return v
}

// vfC10Query is a minimal ExecutableQuery (routing key and keyspace only).
type vfC10Query struct{ key []byte }

func (q *vfC10Query) borrowForExecution()                                    {}
func (q *vfC10Query) releaseAfterExecution()                                 {}
func (q *vfC10Query) execute(ctx context.Context, conn *Conn) *Iter          { return nil }
func (q *vfC10Query) attempt(string, time.Time, time.Time, *Iter, *HostInfo) {}
func (q *vfC10Query) retryPolicy() RetryPolicy                               { return nil }
func (q *vfC10Query) speculativeExecutionPolicy() SpeculativeExecutionPolicy { return nil }
func (q *vfC10Query) GetRoutingKey() ([]byte, error)                         { return q.key, nil }
func (q *vfC10Query) Keyspace() string                                       { return "vfks" }
func (q *vfC10Query) Table() string                                          { return "vft" }
func (q *vfC10Query) IsIdempotent() bool                                     { return true }
func (q *vfC10Query) withContext(context.Context) ExecutableQuery            { return q }
func (q *vfC10Query) Attempts() int                                          { return 0 }
func (q *vfC10Query) SetConsistency(c Consistency)                           {}
func (q *vfC10Query) GetConsistency() Consistency                            { return Quorum }
func (q *vfC10Query) Context() context.Context                               { return context.Background() }

// vfC10ViaPolicy builds the replica map the way a session does - a real TokenAwareHostPolicy over the
// fallback / with the options named by c.Pol gets the hosts, the partitioner and the keyspace - then
// routes queries through it (Pick, iterator drained) and returns the replica map the policy holds
// AFTER that, with its lookups.  "The replicas the driver associates with a token" must not depend on
// which queries were routed before.
func vfC10ViaPolicy(c *vfC10Case, part string, tm func(int) string, abs map[string]int) (m, look, look3 []vfC10Entry) {
	m, look, look3 = []vfC10Entry{}, []vfC10Entry{}, []vfC10Entry{}
	hosts := vfC10Hosts(c, part)
	idx := make(map[*HostInfo]int, len(hosts))
	for i, h := range hosts {
		idx[h] = i + 1
	}
	var base HostSelectionPolicy
	switch {
	case strings.HasPrefix(c.Pol, "rack"):
		base = RackAwareRoundRobinPolicy(vfC10DcName(c, "dc1"), "r1")
	case strings.HasPrefix(c.Pol, "dc"):
		base = DCAwareRoundRobinPolicy(vfC10DcName(c, "dc1"))
	default:
		base = RoundRobinHostPolicy()
	}
	var opts []func(*tokenAwareHostPolicy)
	if strings.Contains(c.Pol, "-shuffle") {
		opts = append(opts, ShuffleReplicas())
	}
	if strings.Contains(c.Pol, "-nonlocal") {
		opts = append(opts, NonLocalReplicasFallback())
	}
	pol := TokenAwareHostPolicy(base, opts...)
	ta := pol.(*tokenAwareHostPolicy)
	ks := vfC10Keyspace(c)
	fetchFails := false
	ta.getKeyspaceName = func() string { return "vfks" }
	ta.getKeyspaceMetadata = func(name string) (*KeyspaceMetadata, error) {
		if name != "vfks" {
			return nil, errors.New("vf: unknown keyspace")
		}
		if fetchFails {
			return nil, errors.New("vf: keyspace metadata query failed")
		}
		return ks, nil
	}
	ta.logger = nopLogger{}
	pname := "org.apache.cassandra.dht." + part
	if c.ID%2 == 0 {
		pol.SetPartitioner(pname)
	}
	for _, h := range hosts {
		pol.AddHost(h)
	}
	pol.SetPartitioner(pname)
	pol.KeyspaceChanged(KeyspaceUpdateEvent{Keyspace: "vfks", Change: "UPDATED"})
	// route queries: with the order preserving partitioner the key is the token, so every lookup class
	// is hit; otherwise arbitrary keys
	var keys [][]byte
	if part == "OrderedPartitioner" {
		for _, l := range c.Look {
			keys = append(keys, []byte(tm(l[0])))
		}
	} else {
		for i := 0; i < 24; i++ {
			keys = append(keys, []byte("vfkey-"+strconv.Itoa(i*7919+c.ID)))
		}
	}
	for _, k := range keys {
		if len(k) == 0 {
			continue // an empty routing key means "no routing key" to the policy
		}
		for rep := 0; rep < 2; rep++ {
			next := pol.Pick(&vfC10Query{key: k})
			for i := 0; i < 4*len(hosts)+8; i++ {
				if next() == nil {
					break
				}
			}
		}
	}
	meta := ta.getMetadataReadOnly()
	if meta == nil || meta.tokenRing == nil {
		panic("the policy holds no token ring")
	}
	rm := meta.replicas["vfks"]
	for _, e := range rm {
		t, ok := abs[e.token.String()]
		if !ok {
			t = -1
		}
		m = append(m, vfC10Entry{T: t, Hosts: vfC10Ids(idx, e.hosts)})
	}
	for _, l := range c.Look {
		ht := rm.replicasFor(meta.tokenRing.partitioner.ParseString(tm(l[0])))
		var hs []*HostInfo
		if ht != nil {
			hs = ht.hosts
		}
		look = append(look, vfC10Entry{T: l[0], Hosts: vfC10Ids(idx, hs)})
	}
	// an update that cannot be carried out: afterwards the policy must not go on associating the
	// replicas of the old ring / the old replication setting with tokens
	switch c.Fault {
	case "":
		return m, look, look3
	case "local", "unknown-class", "bad-rf":
		alt := &KeyspaceMetadata{Name: "vfks", StrategyOptions: map[string]interface{}{}}
		switch c.Fault {
		case "local":
			alt.StrategyClass = "org.apache.cassandra.locator.LocalStrategy"
		case "unknown-class":
			alt.StrategyClass = "com.example.locator.CustomReplicationStrategy"
			alt.StrategyOptions["replication_factor"] = "2"
		default:
			alt.StrategyClass = "org.apache.cassandra.locator.SimpleStrategy"
			alt.StrategyOptions["replication_factor"] = "3/1"
		}
		alt.StrategyOptions["class"] = alt.StrategyClass
		ks = alt
		pol.KeyspaceChanged(KeyspaceUpdateEvent{Keyspace: "vfks", Change: "UPDATED"})
	case "fetch-fail-ks":
		fetchFails = true
		pol.KeyspaceChanged(KeyspaceUpdateEvent{Keyspace: "vfks", Change: "UPDATED"})
	case "fetch-remove", "remove":
		// the highest-numbered node leaves (metadata lookup failing / healthy)
		if len(hosts) < 2 {
			return m, look, look3
		}
		fetchFails = c.Fault == "fetch-remove"
		pol.RemoveHost(hosts[len(hosts)-1])
	default:
		panic("vfC10ViaPolicy: fault " + c.Fault)
	}
	meta = ta.getMetadataReadOnly()
	for _, l := range c.Look {
		var hs []*HostInfo
		if ht := meta.replicas["vfks"].replicasFor(meta.tokenRing.partitioner.ParseString(tm(l[0]))); ht != nil {
			hs = ht.hosts
		}
		look3 = append(look3, vfC10Entry{T: l[0], Hosts: vfC10Ids(idx, hs)})
	}
	return m, look, look3
}

func vfC10Env(t *testing.T, name string) string {
	s := os.Getenv(name)
	if s == "" {
		t.Skip(name + " not set")
	}
	return s
}

// TestVfC10Cases: spec -> code.  Executes the TLC-generated cases of VF_CASES and writes one
// vector per case and partitioner to VF_RESULTS.
func TestVfC10Cases(t *testing.T) {
	in, err := os.Open(vfC10Env(t, "VF_CASES"))
	if err != nil {
		t.Fatal(err)
	}
	defer in.Close()
	outf, err := os.Create(vfC10Env(t, "VF_RESULTS"))
	if err != nil {
		t.Fatal(err)
	}
	defer outf.Close()
	w := bufio.NewWriterSize(outf, 1<<20)
	defer w.Flush()
	enc := json.NewEncoder(w)
	sc := bufio.NewScanner(in)
	sc.Buffer(make([]byte, 1<<20), 1<<24)
	n := 0
	for sc.Scan() {
		var c vfC10Case
		if err := json.Unmarshal(sc.Bytes(), &c); err != nil {
			t.Fatal(err)
		}
		for _, part := range c.Parts {
			if err := enc.Encode(vfC10Run(&c, part)); err != nil {
				t.Fatal(err)
			}
			n++
		}
	}
	if err := sc.Err(); err != nil {
		t.Fatal(err)
	}
	fmt.Printf("VFSUMMARY {\"executed\": %d}\n", n)
}

// TestVfC10Random: code -> spec.  Seeded random larger rings (vnodes, uneven racks,
// replication factors 0 .. beyond the datacenter size, datacenters unknown to the ring);
// the real output is recorded as vectors that TLC validates (Trace_Topology.tla).
func TestVfC10Random(t *testing.T) {
	outp := vfC10Env(t, "VF_RESULTS")
	seed, _ := strconv.ParseInt(os.Getenv("VF_SEED"), 10, 64)
	count, _ := strconv.Atoi(os.Getenv("VF_COUNT"))
	if count == 0 {
		count = 100
	}
	maxNodes, _ := strconv.Atoi(os.Getenv("VF_MAXNODES"))
	if maxNodes == 0 {
		maxNodes = 12
	}
	maxVnodes, _ := strconv.Atoi(os.Getenv("VF_MAXVNODES"))
	if maxVnodes == 0 {
		maxVnodes = 8
	}
	rnd := rand.New(rand.NewSource(seed*7919 + 17))
	outf, err := os.Create(outp)
	if err != nil {
		t.Fatal(err)
	}
	defer outf.Close()
	w := bufio.NewWriterSize(outf, 1<<20)
	defer w.Flush()
	enc := json.NewEncoder(w)
	parts := []string{"Murmur3Partitioner", "OrderedPartitioner", "RandomPartitioner"}
	for id := 1; id <= count; id++ {
		c := vfC10RandomCase(rnd, id, maxNodes, maxVnodes)
		if err := enc.Encode(vfC10Run(c, parts[id%3])); err != nil {
			t.Fatal(err)
		}
	}
	fmt.Printf("VFSUMMARY {\"executed\": %d}\n", count)
}

func vfC10RandomCase(rnd *rand.Rand, id, maxNodes, maxVnodes int) *vfC10Case {
	c := &vfC10Case{ID: id, Form: []string{"int", "str"}[rnd.Intn(2)]}
	n := 1 + rnd.Intn(maxNodes)
	ndc := 1 + rnd.Intn(3)
	dcNames := []string{"dc1", "dc2", "dc3"}
	// uneven racks: per datacenter a different number of racks, skewed population
	racksIn := make([]int, ndc)
	for d := range racksIn {
		racksIn[d] = 1 + rnd.Intn(3)
	}
	maxV := 1 + rnd.Intn(maxVnodes)
	type ent struct{ tok, host int }
	var ents []ent
	used := map[int]bool{}
	for h := 1; h <= n; h++ {
		d := rnd.Intn(ndc)
		if rnd.Intn(3) == 0 {
			d = 0
		}
		r := rnd.Intn(racksIn[d])
		if rnd.Intn(2) == 0 {
			r = 0
		}
		c.Dc = append(c.Dc, dcNames[d])
		c.Rack = append(c.Rack, "r"+strconv.Itoa(r+1))
		nv := 1 + rnd.Intn(maxV)
		for k := 0; k < nv; k++ {
			tok := 1 + rnd.Intn(1000)
			for used[tok] {
				tok = 1 + rnd.Intn(1000)
			}
			used[tok] = true
			ents = append(ents, ent{tok, h})
		}
	}
	sort.Slice(ents, func(i, j int) bool { return ents[i].tok < ents[j].tok })
	for _, e := range ents {
		c.Ring = append(c.Ring, e.host)
		c.Tokens = append(c.Tokens, e.tok)
	}
	if rnd.Intn(4) == 0 {
		c.Strat, c.RfDc, c.RfN = "simple", []string{"*"}, []int{rnd.Intn(n + 2)}
	} else {
		c.Strat = "nts"
		for _, dc := range append(dcNames, "dcX") {
			switch rnd.Intn(5) {
			case 0: // not named
			case 1:
				c.RfDc, c.RfN = append(c.RfDc, dc), append(c.RfN, 0)
			default:
				c.RfDc, c.RfN = append(c.RfDc, dc), append(c.RfN, 1+rnd.Intn(4))
			}
		}
		if c.RfDc == nil {
			c.RfDc, c.RfN = []string{}, []int{}
		}
	}
	c.Spread = []string{"compact", "full", "edge", "zero"}[rnd.Intn(4)]
	c.DcNames = []string{"", "upper", "mixed", "blank"}[rnd.Intn(4)]
	if rnd.Intn(3) == 0 {
		c.Pol = []string{"rr", "dc", "rack"}[rnd.Intn(3)] + []string{"", "-shuffle"}[rnd.Intn(2)] + []string{"", "-nonlocal"}[rnd.Intn(2)]
	}
	if c.Pol != "" {
		c.Fault = []string{"", "local", "unknown-class", "bad-rf", "fetch-fail-ks", "fetch-remove", "remove", "remove"}[rnd.Intn(8)]
	}
	// some nodes are down while the ring is built
	c.Down = []int{}
	for h := 1; h <= n; h++ {
		if rnd.Intn(5) == 0 {
			c.Down = append(c.Down, h)
		}
	}
	// lookups: below the smallest, above the largest, equal to and between ring tokens
	look := map[int]bool{0: true, c.Tokens[0] - 1: true, c.Tokens[len(c.Tokens)-1] + 1: true, 1005: true}
	for k := 0; k < 8; k++ {
		p := rnd.Intn(len(c.Tokens))
		look[c.Tokens[p]] = true
		look[c.Tokens[p]+1] = true
	}
	var ls []int
	for t := range look {
		ls = append(ls, t)
	}
	sort.Ints(ls)
	for _, t := range ls {
		c.Look = append(c.Look, []int{t})
	}
	return c
}
