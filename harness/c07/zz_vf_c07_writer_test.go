package gocql

// C07: frames are written whole.
//  (1) TestVfC07Cases: TLC-enumerated (mode, frame sizes, failure offset) cases executed on the
//      real deadlineContextWriter / writeCoalescer with a socket that accepts only a prefix.
//  (2) TestVfC07Concurrent: many goroutines through the real writers over a socket that takes
//      one byte at a time and yields in between (a missing lock shows as interleaved bytes).
//  (3) TestVfC07ConnWire: the byte stream of a real connection under concurrent requests and a
//      write failure, with the frames an independent encoder expects.

import (
	"bufio"
	"context"
	"encoding/json"
	"errors"
	"fmt"
	"math/rand"
	"os"
	"runtime"
	"sync"
	"sync/atomic"
	"testing"
	"time"
)

// vfC07Sock accepts the first `limit` bytes (limit < 0: everything), then fails.
type vfC07Sock struct {
	mu      sync.Mutex
	wire    []int
	limit   int
	yield   bool
	failErr error
	// once: only the write that crosses the limit fails; afterwards the socket takes everything
	// (a transient condition such as a write deadline) - whatever follows a torn frame shows up
	once   bool
	failed bool
	// slow: the failing write blocks this long before it returns, so that other writers queue up
	slow time.Duration
}

func (s *vfC07Sock) SetWriteDeadline(time.Time) error { return nil }

func (s *vfC07Sock) Write(p []byte) (int, error) {
	n := 0
	for _, b := range p {
		s.mu.Lock()
		if s.limit >= 0 && len(s.wire) >= s.limit && !(s.once && s.failed) {
			s.failed = true
			s.mu.Unlock()
			if s.slow > 0 {
				time.Sleep(s.slow)
			}
			return n, s.failErr
		}
		s.wire = append(s.wire, int(b))
		s.mu.Unlock()
		n++
		if s.yield {
			runtime.Gosched()
		}
	}
	return n, nil
}

func (s *vfC07Sock) Wire() []int {
	s.mu.Lock()
	defer s.mu.Unlock()
	out := make([]int, len(s.wire))
	copy(out, s.wire)
	return out
}

type vfC07Case struct {
	ID   int    `json:"id"`
	Mode string `json:"mode"` // direct | coalesce
	Lens []int  `json:"lens"`
	K    int    `json:"k"` // bytes the socket accepts in the first round (-1: all)
}

type vfC07Res struct {
	N   int    `json:"n"`
	Err string `json:"err"` // none | io | other
}

type vfC07Vec struct {
	ID    int        `json:"id"`
	Mode  string     `json:"mode"`
	Lens  []int      `json:"lens"`
	K     int        `json:"k"`
	Res   []vfC07Res `json:"res"`
	Wire  []int      `json:"wire"`  // after the first round (writer index 1.. per byte)
	Res2  vfC07Res   `json:"res2"`  // a further frame (length 2, writer index 9) written afterwards
	Wire2 []int      `json:"wire2"` // bytes that further write put on the socket
	Res3  vfC07Res   `json:"res3"`  // and one more (length 2, writer index 10), a coalescing window later
	Wire3 []int      `json:"wire3"`
	Stuck int        `json:"stuck"`
}

var vfC07Fail = errors.New("vf: socket failure")

// vfC07SlowErr is the same failure, but describing it takes a while (an error value whose text is built on demand):
// whatever the writer does with the error of a partial write before it has recorded the connection as unusable, the
// writers queued behind it get that much time (scheduling only - no verdict depends on the duration)
type vfC07SlowErr struct{ d time.Duration }

func (e vfC07SlowErr) Error() string {
	time.Sleep(e.d)
	return vfC07Fail.Error()
}
func (e vfC07SlowErr) Unwrap() error { return vfC07Fail }

func vfC07ErrClass(err error) string {
	if err == nil {
		return "none"
	}
	if errors.Is(err, context.Canceled) || errors.Is(err, context.DeadlineExceeded) {
		return "ctx"
	}
	if errors.Is(err, vfC07Fail) {
		return "io"
	}
	return "other"
}

func vfC07Frame(writer, n int) []byte {
	b := make([]byte, n)
	for i := range b {
		b[i] = byte(writer)
	}
	return b
}

func vfC07RunCase(c vfC07Case) vfC07Vec {
	v := vfC07Vec{ID: c.ID, Mode: c.Mode, Lens: c.Lens, K: c.K, Res: []vfC07Res{}, Wire: []int{}, Wire2: []int{}, Wire3: []int{}}
	sock := &vfC07Sock{limit: c.K, failErr: vfC07Fail}
	ctx := context.Background()
	if c.Mode == "direct" {
		w := &deadlineContextWriter{w: sock, timeout: time.Second, semaphore: make(chan struct{}, 1), quit: make(chan struct{})}
		// a write that does not come back (a semaphore never returned) is an outcome: WriterHang
		write := func(f []byte) (vfC07Res, bool) {
			var r vfC07Res
			ok, _ := vfWithin(10*time.Second, func() {
				got, err := w.writeContext(ctx, f)
				r = vfC07Res{got, vfC07ErrClass(err)}
			})
			return r, ok
		}
		for i, n := range c.Lens {
			r, ok := write(vfC07Frame(i+1, n))
			if !ok {
				v.Stuck = 1
				for len(v.Res) < len(c.Lens) {
					v.Res = append(v.Res, vfC07Res{0, ""})
				}
				v.Wire = sock.Wire()
				return v
			}
			v.Res = append(v.Res, r)
		}
		v.Wire = sock.Wire()
		sock.mu.Lock()
		sock.limit = -1 // the socket would accept more: does the writer still write?
		sock.mu.Unlock()
		var ok bool
		if v.Res2, ok = write(vfC07Frame(9, 2)); !ok {
			v.Stuck = 1
			return v
		}
		v.Wire2 = sock.Wire()[len(v.Wire):]
		if v.Res3, ok = write(vfC07Frame(10, 2)); !ok {
			v.Stuck = 1
			return v
		}
		v.Wire3 = sock.Wire()[len(v.Wire)+len(v.Wire2):]
		return v
	}
	quit := make(chan struct{})
	defer close(quit)
	enq := make(chan struct{}, 16)
	flushed := make(chan struct{}, 16)
	timerC := make(chan time.Time)
	// the flush timer is the harness': it fires exactly when the flusher armed it (a tick the flusher
	// did not ask for would be an event the real timer never produces)
	var armed int32
	w := &writeCoalescer{writeCh: make(chan writeRequest), c: sock, quit: quit, timeout: time.Second,
		testEnqueuedHook: func() { enq <- struct{}{} }, testFlushedHook: func() { flushed <- struct{}{} }}
	go w.writeFlusherImpl(timerC, func() { atomic.StoreInt32(&armed, 1) })
	round := func(frames [][]byte) ([]vfC07Res, bool) {
		res := make([]vfC07Res, len(frames))
		var wg sync.WaitGroup
		for i, f := range frames {
			wg.Add(1)
			go func(i int, f []byte) {
				defer wg.Done()
				n, err := w.writeContext(ctx, f)
				res[i] = vfC07Res{n, vfC07ErrClass(err)}
			}(i, f)
			// keep the enqueue order = writer order; a writer refused right away never signals
			select {
			case <-enq:
			case <-time.After(300 * time.Millisecond):
			}
		}
		// the flusher either refuses a request on receipt (its writer returns) or keeps it and arms
		// the timer: wait for one of the two, then let the timer fire if it was armed
		alldone := make(chan struct{})
		go func() { wg.Wait(); close(alldone) }()
		deadline := time.Now().Add(10 * time.Second)
		for {
			if atomic.CompareAndSwapInt32(&armed, 1, 0) {
				select {
				case timerC <- time.Now():
					select {
					case <-flushed:
					case <-time.After(10 * time.Second):
						return res, false
					}
				case <-time.After(10 * time.Second):
					return res, false
				}
				continue
			}
			select {
			case <-alldone:
				return res, true
			default:
			}
			if time.Now().After(deadline) {
				return res, false
			}
			time.Sleep(50 * time.Microsecond)
		}
	}
	var frames [][]byte
	for i, n := range c.Lens {
		frames = append(frames, vfC07Frame(i+1, n))
	}
	res, ok := round(frames)
	v.Res = res
	if !ok {
		v.Stuck = 1
	}
	v.Wire = sock.Wire()
	sock.mu.Lock()
	sock.limit = -1
	sock.mu.Unlock()
	res2, ok2 := round([][]byte{vfC07Frame(9, 2)})
	v.Res2 = res2[0]
	if !ok2 {
		v.Stuck = 1
	}
	v.Wire2 = sock.Wire()[len(v.Wire):]
	res3, ok3 := round([][]byte{vfC07Frame(10, 2)})
	v.Res3 = res3[0]
	if !ok3 {
		v.Stuck = 1
	}
	v.Wire3 = sock.Wire()[len(v.Wire)+len(v.Wire2):]
	return v
}

func TestVfC07Cases(t *testing.T) {
	in := os.Getenv("VF_CASES")
	if in == "" {
		t.Skip("VF_CASES not set")
	}
	f, err := os.Open(in)
	if err != nil {
		t.Fatal(err)
	}
	defer f.Close()
	var cases []vfC07Case
	sc := bufio.NewScanner(f)
	sc.Buffer(make([]byte, 1<<20), 1<<20)
	for sc.Scan() {
		var c vfC07Case
		if err := json.Unmarshal(sc.Bytes(), &c); err != nil {
			t.Fatal(err)
		}
		cases = append(cases, c)
	}
	out, err := vfCreateNDJSON(vfOutPath("c07_vectors.ndjson"))
	if err != nil {
		t.Fatal(err)
	}
	defer out.Close()
	vecs := make([]vfC07Vec, len(cases))
	sem := make(chan struct{}, 32)
	var wg sync.WaitGroup
	for i, c := range cases {
		wg.Add(1)
		sem <- struct{}{}
		go func(i int, c vfC07Case) {
			defer wg.Done()
			defer func() { <-sem }()
			vecs[i] = vfC07RunCase(c)
		}(i, c)
	}
	wg.Wait()
	for _, v := range vecs {
		out.Write(v)
	}
	fmt.Printf("VFSUMMARY {\"cases\": %d}\n", len(cases))
}

// TestVfC07Concurrent: concurrent writers, byte-at-a-time socket with yields.
func TestVfC07Concurrent(t *testing.T) {
	if vfOutDir() == "" {
		t.Skip("VF_OUT not set")
	}
	rng := rand.New(rand.NewSource(vfSeed()))
	rounds := vfEnvInt("VF_ROUNDS", 40)
	out, err := vfCreateNDJSON(vfOutPath("c07_concurrent.ndjson"))
	if err != nil {
		t.Fatal(err)
	}
	defer out.Close()
	for r := 0; r < rounds; r++ {
		mode := "direct"
		if r%2 == 1 {
			mode = "coalesce"
		}
		nw := 3 + rng.Intn(6)
		lens := make([]int, nw)
		total := 0
		for i := range lens {
			lens[i] = 1 + rng.Intn(12)
			total += lens[i]
		}
		limit := -1
		if rng.Intn(2) == 0 {
			limit = rng.Intn(total + 1)
		}
		sock := &vfC07Sock{limit: limit, failErr: vfC07Fail, yield: true}
		if limit >= 0 && r%4 >= 2 {
			sock.once = true
			sock.slow = 2 * time.Millisecond
			sock.failErr = vfC07SlowErr{3 * time.Millisecond}
		}
		quit := make(chan struct{})
		var w contextWriter
		if mode == "direct" {
			w = &deadlineContextWriter{w: sock, timeout: time.Second, semaphore: make(chan struct{}, 1), quit: quit}
		} else {
			w = newWriteCoalescer(sock, time.Second, time.Duration(100+rng.Intn(1500))*time.Microsecond, quit)
		}
		cancelAt := make([]time.Duration, nw)
		for i := range cancelAt {
			cancelAt[i] = -1
			if x := rng.Intn(8); x < 2 {
				cancelAt[i] = time.Duration(rng.Intn(1200)) * time.Microsecond
			} else if x == 2 {
				cancelAt[i] = 0 // already cancelled when the writer is called
			}
		}
		res := make([]vfC07Res, nw)
		var wg sync.WaitGroup
		for i := 0; i < nw; i++ {
			wg.Add(1)
			go func(i int) {
				defer wg.Done()
				if i%3 == 2 {
					time.Sleep(time.Duration(50+i*20) * time.Microsecond)
				}
				ctx := context.Background()
				if cancelAt[i] >= 0 {
					var cancel context.CancelFunc
					ctx, cancel = context.WithCancel(ctx)
					if cancelAt[i] == 0 {
						cancel()
					} else {
						t := time.AfterFunc(cancelAt[i], cancel)
						defer t.Stop()
					}
					defer cancel()
				}
				n, err := w.writeContext(ctx, vfC07Frame(i+1, lens[i]))
				res[i] = vfC07Res{n, vfC07ErrClass(err)}
			}(i)
		}
		ok, _ := vfWithin(10*time.Second, wg.Wait)
		close(quit)
		stuck := 0
		if !ok {
			stuck = 1
		}
		out.Write(map[string]interface{}{"id": r, "mode": mode, "lens": lens, "k": limit, "res": res, "wire": sock.Wire(), "stuck": stuck})
	}
}
