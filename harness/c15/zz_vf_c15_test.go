package gocql

// Verification harness for C15 (paged iteration).  Overlaid into package gocql by
// /verif/checks/c15.py.  Glue only: it executes the runs TLC generated (Gen_Paging.tla)
// through Session.Query(...).PageSize(n).Prefetch(p)[.PageState(s)].Iter() against a scripted
// node, and records what happened (requests the node received, rows the consumer was handed,
// how the iteration ended) as NDJSON traces and result records.  It never decides anything:
// expected values come from TLC, the verdict operators are evaluated by TLC on the traces.

import (
	"context"
	"encoding/hex"
	"encoding/json"
	"fmt"
	"math/rand"
	"os"
	"runtime"
	"strconv"
	"strings"
	"sync"
	"sync/atomic"
	"testing"
	"time"
)

type vfC15Case struct {
	Run   int    `json:"run"`
	ID    int    `json:"id"`
	Pages []int  `json:"pages"`
	Q     int    `json:"q"`
	Kind  string `json:"kind"`
	Fail  int    `json:"fail"`
	Mode  string `json:"mode"`
	Start int    `json:"start"`
	Prep  string `json:"prep"`
	Skip  int    `json:"skip"`
	Size  int    `json:"size"`
	Sched int    `json:"sched"` // 0: node answers inline, consumer never pauses; >0: racing schedule
	// Plan: one entry per execution of the SAME *Query value (q.Iter() again): -1 = consume to the end,
	// m >= 0 = stop asking for rows after m rows and Close. Rebind: q.Bind(values...) before executions 2, 3.
	Plan   []int `json:"plan"`
	Rebind int   `json:"rebind"`
	// Opt: one execution option of the Query (none | serial | spec | retry | ctx | ctxto | observer | trace | ts |
	// payload | release); none of them changes what the property demands of the iteration.
	Opt string `json:"opt"`
	// Conc > 1: that many goroutines iterate the SAME prepared statement at the same time, each with its own bound
	// key; the node releases the answers of a page level together.
	Conc int `json:"conc"`
	// Starts: the paging-state token the Query holds in each execution of the plan (Rebind 2 = Bind(values) only
	// before executions 2, 3: the Query then holds none)
	Starts []int `json:"starts"`
	// Pin: "error" | "lost": the query is pinned to one connection of a two-node session (Conn.query); the failing
	// page fails by an ERROR answer / because that connection is lost after the page before it. "no": not pinned.
	Pin string `json:"pin"`
}

// vfC15Req is a QUERY / EXECUTE body decoded field by field in the order of native_protocol_v4.spec section 4.1.4
// (<consistency><flags>[<n>[name_1]<value_1>...][<result_page_size>][<paging_state>][<serial_consistency>]
// [<timestamp>]), every optional field the flags announce, nothing left over - independent of the driver's writer.
type vfC15Req struct {
	Text    string // statement (QUERY) or prepared id (EXECUTE)
	Cons    int
	Flags   int
	Vals    string
	Size    int // -1: no page size
	State   []byte
	Serial  int   // -1: none
	TS      int64 // valid if HasTS
	HasTS   bool
	Payload string
	Err     string
}

func vfC15Decode(f *vfFrame) *vfC15Req {
	q := &vfC15Req{Size: -1, Serial: -1}
	r := &vfR{b: f.Body}
	if f.Flags&0x04 != 0 { // custom payload: [bytes map]
		n := r.Short()
		var ps []string
		for i := 0; i < n && r.err == nil; i++ {
			k := r.String()
			v, _ := r.Bytes()
			ps = append(ps, k+"="+hex.EncodeToString(v))
		}
		q.Payload = strings.Join(ps, ",")
	}
	if f.Op == vfOpQuery {
		q.Text = r.LongString()
	} else {
		q.Text = string(r.ShortBytes())
	}
	q.Cons = r.Short()
	q.Flags = int(r.Byte())
	if q.Flags&0x01 != 0 {
		n := r.Short()
		var vs []string
		for i := 0; i < n && r.err == nil; i++ {
			name := ""
			if q.Flags&0x40 != 0 {
				name = r.String() + ":"
			}
			v, k := r.Bytes()
			if k != 0 {
				vs = append(vs, fmt.Sprintf("%sk%d", name, k))
			} else {
				vs = append(vs, name+hex.EncodeToString(v))
			}
		}
		q.Vals = strings.Join(vs, ",")
	}
	if q.Flags&0x04 != 0 {
		q.Size = int(r.Int())
	}
	if q.Flags&0x08 != 0 {
		q.State, _ = r.Bytes()
	}
	if q.Flags&0x10 != 0 {
		q.Serial = r.Short()
	}
	if q.Flags&0x20 != 0 {
		q.TS = r.Long()
		q.HasTS = true
	}
	if r.err != nil {
		q.Err = r.err.Error()
	} else if len(r.b) != 0 {
		q.Err = fmt.Sprintf("%d bytes left over after the last announced field", len(r.b))
	} else if q.Flags&0x80 != 0 {
		q.Err = "flag 0x80 is not defined in protocol 4"
	}
	return q
}

// vfC15Policy: a RetryPolicy with a fixed verdict (Retry: once).
type vfC15Policy struct{ t RetryType }

func (p vfC15Policy) Attempt(q RetryableQuery) bool {
	if p.t == Retry {
		return q.Attempts() <= 1
	}
	return true
}
func (p vfC15Policy) GetRetryType(error) RetryType { return p.t }

type vfC15Obs struct{ n int64 }

func (o *vfC15Obs) ObserveQuery(context.Context, ObservedQuery) { atomic.AddInt64(&o.n, 1) }

type vfC15Tracer struct{ n int64 }

func (t *vfC15Tracer) Trace(id []byte) { atomic.AddInt64(&t.n, 1) }

type vfC15Result struct {
	Run     int      `json:"run"` // trace id of this execution: job*8 + exec
	Job     int      `json:"job"`
	Exec    int      `json:"exec"`
	Member  int      `json:"member"`  // concurrent cases: which of the goroutines (1-based), else 0
	Changed int      `json:"changed"` // rows the caller kept (maps) whose content was different when re-read after the end
	Stop    int      `json:"stop"`
	QTok    int      `json:"qtok"` // paging state found in the caller's Query afterwards (-2: released, not looked at)
	ID      int      `json:"id"`
	Reqs    []int    `json:"reqs"`
	ReqF    []string `json:"reqf"` // per request: everything but the paging state
	Rows    [][2]int `json:"rows"`
	Ended   string   `json:"ended"` // normal | error | abandoned (stopped as planned) | aborted (runaway guard) | panic
	Err     int      `json:"err"`
	Exposed int      `json:"exposed"`
	ErrMsg  string   `json:"errmsg"`
	Env     string   `json:"env"` // non-empty: the run is not evidence (timeout, hang)
	Resps   int      `json:"resps"`
}

var vfC15Cols = []vfCol{{"p", vfTInt}, {"i", vfTInt}, {"s", vfTVarchar}, {"b", vfTBlob}}

// vfC15Blob is the content of the blob column of row (p, i): different in every row, of different lengths
func vfC15Blob(p, i int) []byte {
	return []byte(fmt.Sprintf("B%d.%d%s", p, i, strings.Repeat("x", (p*3+i)%5)))
}

var vfC15Cons = []Consistency{Quorum, One, LocalQuorum}

const vfC15MaxReqs = 40 // the node fails every request beyond this one (runaway guard)
const vfC15MaxRows = 64 // the consumer gives up beyond this many rows (runaway guard)

// vfC15Run is one execution of a case.
type vfC15Run struct {
	c       vfC15Case
	exec    int          // 1-based execution of the plan
	member  int          // concurrent cases: 1-based goroutine number (0 otherwise)
	failTok int          // token of the request last answered with the scripted failure, +1 (0: none)
	mkIter  func() *Iter // pinned cases: how the iterator is obtained (Conn.query) instead of q.Iter()
	pinConn *Conn        // ... and the connection it is pinned to
	grp     *vfC15Group
	w       *vfC15Worker
	id      int // trace id
	tr      *vfTracer
	mu      sync.Mutex
	nreq    int
	reqs    []int
	reqf    []string
	resps   int
	ndelay  []time.Duration // node: delay of the k-th answer
	cpause  []time.Duration // consumer: pause before asking for the next row
	lpause  []time.Duration // consumer: pause between being handed a row and logging it
	ended   int32
	pending sync.WaitGroup
}

// vfC15Group: the iterations the node is serving at the moment for one job - one, or the Conc concurrent ones.
type vfC15Group struct {
	job     int
	mu      sync.Mutex
	members []*vfC15Run      // index member-1 (single: one entry)
	waves   map[int][]func() // concurrent: held answers per page level
}

func (g *vfC15Group) member(m int) *vfC15Run {
	g.mu.Lock()
	defer g.mu.Unlock()
	if m < 0 || m >= len(g.members) {
		return nil
	}
	return g.members[m]
}

// hold keeps the answer to a request for page `level` until every member that is still iterating has asked for
// that level (or a moment has passed), then lets all of them go at once.
func (g *vfC15Group) hold(level int, answer func()) {
	g.mu.Lock()
	g.waves[level] = append(g.waves[level], answer)
	alive := 0
	for _, r := range g.members {
		if r != nil && atomic.LoadInt32(&r.ended) == 0 {
			alive++
		}
	}
	n := len(g.waves[level])
	var flush []func()
	if n >= alive {
		flush = g.waves[level]
		g.waves[level] = nil
	}
	g.mu.Unlock()
	if flush == nil && n == 1 {
		time.AfterFunc(20*time.Millisecond, func() {
			g.mu.Lock()
			fl := g.waves[level]
			g.waves[level] = nil
			g.mu.Unlock()
			for _, a := range fl {
				a()
			}
		})
	}
	// one after the other into the connection's send queue: the answers of a wave reach the driver back to back
	for _, a := range flush {
		a()
	}
}

type vfC15Worker struct {
	id     int
	sess   [4]*Session // [skip]: the sequential cases; [2+skip]: the concurrent cases (sessions of their own)
	nodes  [4]*vfNode
	cur    atomic.Value // *vfC15Run
	churn  [2]*Query
	psess  *Session // two-node session for the pinned cases (made on first use)
	pnodes [2]*vfNode
	stale  int64    // requests that belong to no running iteration
	late   int64    // ... of which: prefetches of iterators the caller had abandoned (expected; nobody waits for them)
	abJob  sync.Map // jobs in which the caller abandoned an iterator
}

func (w *vfC15Worker) nodeIdx(n *vfNode) int {
	if n != nil && n == w.pnodes[1] {
		return 1
	}
	return 0
}

func (w *vfC15Worker) countStale(job int) {
	if _, ok := w.abJob.Load(job); ok {
		atomic.AddInt64(&w.late, 1)
	} else {
		atomic.AddInt64(&w.stale, 1)
	}
}

func vfC15RunOf(text string) int {
	i := strings.Index(text, "/*run=")
	if i < 0 {
		return -1
	}
	j := strings.Index(text[i:], "*/")
	if j < 0 {
		return -1
	}
	n, err := strconv.Atoi(text[i+6 : i+j])
	if err != nil {
		return -1
	}
	return n
}

// Paging states are "r<job>:e<exec>:<k>": job and execution in which the node issued them (exec 0: made
// up by the caller for PageState), k = token. vfC15Tok returns (exec, k); k = 0 for no state, -1 unparsable.
func vfC15Tok(job int, b []byte) (int, int) {
	e, k, _ := vfC15Tok3(job, b)
	return e, k
}

// vfC15Tok3 also returns the member the state was issued to.
func vfC15Tok3(job int, b []byte) (exec, k, member int) {
	if len(b) == 0 {
		return 0, 0, 0
	}
	var j int
	var node int
	if n, err := fmt.Sscanf(string(b), "r%d:e%d:%d:m%d:n%d", &j, &exec, &k, &member, &node); n != 5 || err != nil || j != job || k < 1 {
		return 0, -1, 0
	}
	return exec, k, member
}

// vfC15TokNode: the node that issued the state (-1: not a state of ours)
func vfC15TokNode(b []byte) int {
	var j, e, k, m, node int
	if n, err := fmt.Sscanf(string(b), "r%d:e%d:%d:m%d:n%d", &j, &e, &k, &m, &node); n != 5 || err != nil {
		return -1
	}
	return node
}

func vfC15State(job, exec, tok, member int, node ...int) []byte {
	n := 0
	if len(node) > 0 {
		n = node[0]
	}
	return []byte(fmt.Sprintf("r%d:e%d:%d:m%d:n%d", job, exec, tok, member, n))
}

func (w *vfC15Worker) handle(nc *vfNodeConn, f *vfFrame, q *vfRequest) bool {
	switch f.Op {
	case vfOpPrepare:
		nc.Reply(f, vfOpResult, vfPreparedBody(f.Version, []byte("id:"+q.Stmt), "ks", "t", strings.Count(q.Stmt, "?"), vfC15Cols))
		return true
	case vfOpQuery, vfOpExecute:
		d := vfC15Decode(f)
		text := d.Text
		run := vfC15RunOf(text)
		if run < 0 {
			return false
		}
		var r *vfC15Run
		if g, _ := w.cur.Load().(*vfC15Group); g != nil && g.job == run {
			m := 0
			if len(g.members) > 1 {
				// concurrent iterations of one prepared statement are told apart by their bound key
				m = -1
				if v := strings.SplitN(d.Vals, ",", 2)[0]; len(v) == 8 {
					if key, err := strconv.ParseInt(v, 16, 64); err == nil {
						m = int(key) - run*16 - 1
					}
				}
			}
			r = g.member(m)
		}
		if r == nil || atomic.LoadInt32(&r.ended) != 0 {
			w.countStale(run)
			nc.Reply(f, vfOpError, vfErrorBody(0x0000, "vf-stale request of a finished iteration", nil))
			return true
		}
		texec, tok, tmember := vfC15Tok3(run, d.State)
		if d.Err != "" || (d.Flags&0x08 != 0 && len(d.State) == 0) {
			tok = -1 // a request a server following the protocol specification cannot decode (or an empty state)
		} else if tok > 0 && tmember != r.member {
			tok = -2 // a paging state this node issued - to ANOTHER of the concurrent iterations
		} else if tok > 0 && vfC15TokNode(d.State) != w.nodeIdx(nc.Node) {
			tok = -3 // a paging state ANOTHER node issued
		}
		if d.Err == "" && tok > 0 && texec != 0 && texec != r.exec {
			// a paging state the node issued during an EARLIER execution of this Query value: a prefetch of an
			// abandoned iterator that is still under way, or state that leaked into the re-executed Query. It is
			// not logged as a request of this execution (the two cannot be told apart on the wire); it is served
			// like any request, so whatever the caller is handed because of it shows in the rows it receives.
			w.countStale(run)
			r.serve(nc, f, d, tok, 0, false)
			return true
		}
		r.onRequest(nc, f, d, text, tok)
		return true
	}
	return false
}

func (r *vfC15Run) onRequest(nc *vfNodeConn, f *vfFrame, q *vfC15Req, text string, tok int) {
	op := "QUERY"
	if f.Op == vfOpExecute {
		op = "EXECUTE"
	}
	flags := q.Flags &^ 0x08 // everything but "with paging state"
	// the default timestamp is taken anew for every request: its presence must not change, its value may; a
	// timestamp the caller chose (WithTimestamp) must be repeated as it is
	ts := "none"
	if q.HasTS {
		ts = "set"
		if r.c.Opt == "ts" {
			ts = strconv.FormatInt(q.TS, 10)
		}
	}
	hflags := int(f.Flags)
	r.mu.Lock()
	if r.c.Opt == "retrysame" && r.failTok == tok+1 {
		// the failed page asked for again on the RetryPolicy's verdict Retry: what retries look like is C13's
		r.tr.Emit("retry", "run", r.id, "tok", tok)
		r.mu.Unlock()
		r.serve(nc, f, q, tok, 0, false)
		return
	}
	r.nreq++
	k := r.nreq
	r.reqs = append(r.reqs, tok)
	r.reqf = append(r.reqf, fmt.Sprintf("%s|%s|%s|%d|%d|%d|%d|%s|%d|%s", op, text, q.Vals, q.Size, q.Cons, flags, q.Serial, ts, hflags, q.Payload))
	// the event is appended inside the same critical section that orders the requests
	r.tr.Emit("req", "run", r.id, "tok", tok, "op", op, "stmt", text, "vals", q.Vals, "size", q.Size, "cons", q.Cons, "flags", flags,
		"serial", q.Serial, "ts", ts, "hflags", hflags, "payload", q.Payload, "bad", q.Err)
	r.mu.Unlock()

	var d time.Duration
	if k-1 < len(r.ndelay) {
		d = r.ndelay[k-1]
	}
	if r.grp != nil && len(r.grp.members) > 1 {
		r.pending.Add(1)
		r.grp.hold(tok+1, func() {
			defer r.pending.Done()
			r.serve(nc, f, q, tok, k, true)
		})
		return
	}
	if d == 0 {
		r.serve(nc, f, q, tok, k, true)
		return
	}
	r.pending.Add(1)
	go func() {
		defer r.pending.Done()
		time.Sleep(d)
		r.serve(nc, f, q, tok, k, true)
	}()
}

// serve answers the k-th request of the execution (log: it is one) carrying token tok.
func (r *vfC15Run) serve(nc *vfNodeConn, f *vfFrame, q *vfC15Req, tok, k int, log bool) {
	c := &r.c
	resp := func(page, ok, next int) {
		if log {
			r.emitResp(page, ok, next)
		}
	}
	page := tok + 1
	if k > vfC15MaxReqs {
		resp(0, 0, 0)
		nc.Reply(f, vfOpError, vfErrorBody(0x0000, "vf-runaway: too many requests in one iteration", nil))
		return
	}
	if tok < 0 || page > len(c.Pages) {
		resp(0, 0, 0)
		nc.Reply(f, vfOpError, vfErrorBody(0x2200, "vf-badstate: unknown paging state", nil))
		return
	}
	if page == c.Fail {
		r.mu.Lock()
		r.failTok = tok + 1
		r.mu.Unlock()
		msg := fmt.Sprintf("vf-fail run=%d page=%d.", c.Run, page)
		resp(page, 0, 0)
		switch (c.Run + page) % 3 {
		case 0:
			nc.Reply(f, vfOpError, vfErrorBody(0x0000, msg, nil))
		case 1:
			nc.Reply(f, vfOpError, vfErrorBody(0x1001, msg, nil))
		default:
			nc.Reply(f, vfOpError, vfErrorBody(0x1200, msg, func(w *vfW) { w.Short(int(Quorum)).Int(1).Int(2).Byte(0) }))
		}
		return
	}
	next := 0
	var ps []byte
	if page < len(c.Pages) {
		next = page
		ps = vfC15State(c.Run, r.exec, page, r.member, r.nodeIdx(nc))
	}
	cells := make([][][]byte, 0, c.Pages[page-1])
	for i := 1; i <= c.Pages[page-1]; i++ {
		cells = append(cells, [][]byte{vfCellInt(int32(page)), vfCellInt(int32(i)), vfCellText(fmt.Sprintf("r%d.%d", page, i)), vfC15Blob(page, i)})
	}
	resp(page, 1, next)
	body := vfRowsBody(f.Version, "ks", "t", vfC15Cols, cells, ps, q.Flags&0x02 != 0)
	if f.Flags&0x02 != 0 { // tracing requested: the response carries the flag and a tracing id ahead of the body
		id := make([]byte, 16)
		id[15] = byte(page)
		nc.ReplyFlags(f, 0x02, vfOpResult, append(id, body...))
		return
	}
	nc.Reply(f, vfOpResult, body)
}

func (r *vfC15Run) nodeIdx(nc *vfNodeConn) int {
	if r.w != nil {
		return r.w.nodeIdx(nc.Node)
	}
	return 0
}

func (r *vfC15Run) emitResp(page, ok, next int) {
	r.mu.Lock()
	r.resps++
	r.tr.Emit("resp", "run", r.id, "page", page, "ok", ok, "next", next)
	r.mu.Unlock()
}

func vfC15NewWorker(id int) (*vfC15Worker, error) {
	w := &vfC15Worker{id: id}
	for k := 0; k < 4; k++ {
		skip, conns := k&1, 1
		_ = k // (the concurrent cases use one connection as well: its answers reach the waiting goroutines back to back)
		var lastErr error
		for attempt := 0; attempt < 4 && w.sess[k] == nil; attempt++ { // set-up is retried: a loaded machine is not a verdict
			cl := &vfCluster{Partitioner: "org.apache.cassandra.dht.Murmur3Partitioner", Version: "3.11.4"}
			d := vfDesc(1)
			cl.Set([]vfHostDesc{d})
			n := vfNewNode(cl, d)
			n.Handler = w.handle
			disable := skip == 0
			s, _, err := vfSingleNodeSession(n, 4, func(cfg *ClusterConfig) {
				cfg.DisableSkipMetadata = disable
				cfg.NumConns = conns
				cfg.Timeout = 20 * time.Second // far above anything the scripted node does: a timeout is never paging behaviour
				cfg.ConnectTimeout = 20 * time.Second
			})
			if err != nil {
				lastErr = err
				time.Sleep(200 * time.Millisecond)
				continue
			}
			w.sess[k] = s
			w.nodes[k] = n
		}
		if w.sess[k] == nil {
			return nil, lastErr
		}
	}
	return w, nil
}

func (w *vfC15Worker) close() {
	for _, s := range w.sess {
		if s != nil {
			s.Close()
		}
	}
	if w.psess != nil {
		w.psess.Close()
	}
}

func vfC15Sched(c *vfC15Case, seed int64) (nd, cp, lp []time.Duration) {
	if c.Sched == 0 {
		return nil, nil, nil
	}
	rng := rand.New(rand.NewSource(seed*1000003 + int64(c.Run)*7919 + int64(c.Sched)))
	nd = make([]time.Duration, 8)
	cp = make([]time.Duration, 16)
	lp = make([]time.Duration, 16)
	switch c.Sched % 4 {
	case 1: // slow node, eager consumer: the consumer reaches the page end while the prefetch is in flight
		for i := range nd {
			nd[i] = 1500 * time.Microsecond
		}
	case 2: // fast node (answers from another goroutine), slow consumer: the page is there long before the switch
		for i := range nd {
			nd[i] = time.Microsecond
		}
		// the pause sits between Scan returning and the row being logged: a request the prefetch goroutine sends
		// meanwhile is logged before that row, which pins down the position at which the prefetch was triggered
		for i := range lp {
			lp[i] = 300 * time.Microsecond
		}
	default:
		ch := []time.Duration{0, time.Microsecond, 40 * time.Microsecond, 200 * time.Microsecond, 900 * time.Microsecond}
		for i := range nd {
			nd[i] = ch[rng.Intn(len(ch))]
		}
		for i := range cp {
			cp[i] = ch[rng.Intn(len(ch))]
			lp[i] = ch[rng.Intn(len(ch))]
		}
	}
	return
}

func vfC15Stmt(c *vfC15Case, member int) (stmt string, vals []interface{}) {
	switch c.Prep {
	case "query": // not a DML keyword: sent as QUERY, never prepared, no values
		stmt = fmt.Sprintf("LIST p, i, s, b FROM ks.t /*run=%d*/", c.Run)
	case "exec0":
		stmt = fmt.Sprintf("SELECT p, i, s, b FROM ks.t /*run=%d*/", c.Run)
	default:
		stmt = fmt.Sprintf("SELECT p, i, s, b FROM ks.t WHERE a = ? AND b = ? /*run=%d*/", c.Run)
		vals = []interface{}{c.Run*16 + member, 7}
	}
	return
}

// pinSession: a session over two scripted nodes (both speak for this worker), made on first use, set-up retried.
func (w *vfC15Worker) pinSession() (*Session, error) {
	if w.psess != nil {
		return w.psess, nil
	}
	var lastErr error
	for attempt := 0; attempt < 4; attempt++ {
		cl := &vfCluster{Partitioner: "org.apache.cassandra.dht.Murmur3Partitioner", Version: "3.11.4"}
		d1, d2 := vfDesc(1), vfDesc(2)
		cl.Set([]vfHostDesc{d1, d2})
		n1, n2 := vfNewNode(cl, d1), vfNewNode(cl, d2)
		n1.Handler, n2.Handler = w.handle, w.handle
		dl := vfNewDialer(n1, n2)
		cfg := vfClusterConfig(dl, 4, d1.Addr, d2.Addr)
		cfg.disableControlConn = true
		cfg.DisableInitialHostLookup = true
		cfg.Timeout = 20 * time.Second
		cfg.ConnectTimeout = 20 * time.Second
		s, err := NewSession(*cfg)
		if err != nil {
			lastErr = err
			time.Sleep(200 * time.Millisecond)
			continue
		}
		w.psess, w.pnodes = s, [2]*vfNode{n1, n2}
		return s, nil
	}
	return nil, lastErr
}

// runPinned: the query runs on ONE connection (Conn.query - the path of the driver's own system-table queries):
// every page has to be asked for on that connection, and when it is gone the fetch fails.
func (w *vfC15Worker) runPinned(c vfC15Case, seed int64) (results []vfC15Result, traces [][]map[string]interface{}) {
	res := vfC15Result{Run: c.Run*8 + 1, Job: c.Run, Exec: 1, Stop: -1, QTok: -2, ID: c.ID, Reqs: []int{}, ReqF: []string{}, Rows: [][2]int{}}
	s, err := w.pinSession()
	if err != nil {
		res.Env, res.Ended = "set-up of the two-node session failed: "+err.Error(), "aborted"
		return []vfC15Result{res}, [][]map[string]interface{}{nil}
	}
	var conn *Conn
	for wait := 0; wait < 40 && conn == nil; wait++ { // a connection lost in an earlier case is being re-established
		for _, h := range s.ring.allHosts() {
			if pool, ok := s.pool.getPool(h); ok {
				if cn := pool.Pick(); cn != nil && !cn.Closed() {
					conn = cn
					break
				}
			}
		}
		if conn == nil {
			time.Sleep(25 * time.Millisecond)
		}
	}
	if conn == nil {
		res.Env, res.Ended = "no connection in the two-node session", "aborted"
		return []vfC15Result{res}, [][]map[string]interface{}{nil}
	}
	s.SetPageSize(c.Size)
	s.SetPrefetch(float64(c.Q) / 4)
	stmt, _ := vfC15Stmt(&c, 0)
	r := &vfC15Run{c: c, exec: 1, id: c.Run*8 + 1, tr: vfNewTracer(), w: w}
	r.ndelay, r.cpause, r.lpause = vfC15Sched(&c, seed+131)
	r.mkIter = func() *Iter { return conn.query(context.Background(), stmt) }
	r.pinConn = conn
	w.cur.Store(&vfC15Group{job: c.Run, members: []*vfC15Run{r}})
	res, evs := w.runExec(c, 1, nil, 0, seed, r)
	if c.Pin == "lost" {
		// the session has lost a connection for good (no reconnect interval): the next pinned case gets a new one
		ps := w.psess
		w.psess = nil
		go ps.Close()
	}
	return []vfC15Result{res}, [][]map[string]interface{}{evs}
}

// runConc: Conc goroutines iterate the same prepared statement (one statement text, one cache entry), each with
// its own bound key, at the same time; every one of them is a trace and a result of its own.
func (w *vfC15Worker) runConc(c vfC15Case, seed int64) (results []vfC15Result, traces [][]map[string]interface{}) {
	g := &vfC15Group{job: c.Run, members: make([]*vfC15Run, c.Conc), waves: map[int][]func(){}}
	for m := 1; m <= c.Conc; m++ {
		g.members[m-1] = &vfC15Run{c: c, exec: 1, member: m, id: c.Run*8 + m - 1, tr: vfNewTracer(), grp: g}
	}
	w.cur.Store(g)
	s := w.sess[2+c.Skip&1]
	results = make([]vfC15Result, c.Conc)
	traces = make([][]map[string]interface{}, c.Conc)
	var wg sync.WaitGroup
	for m := 1; m <= c.Conc; m++ {
		wg.Add(1)
		go func(m int) {
			defer wg.Done()
			stmt, vals := vfC15Stmt(&c, m)
			q := s.Query(stmt, vals...).PageSize(c.Size).Prefetch(float64(c.Q) / 4).Consistency(vfC15Cons[c.Run%3])
			if c.Mode == "manual" {
				var st []byte
				if c.Start > 0 {
					st = vfC15State(c.Run, 0, c.Start, m)
				}
				q = q.PageState(st)
			}
			results[m-1], traces[m-1] = w.runExec(c, 1, q, 0, seed, g.members[m-1])
		}(m)
	}
	wg.Wait()
	return
}

// runCase executes the plan of a case: ONE Query value, q.Iter() once per plan entry. Each execution is
// recorded as a trace and a result of its own.
func (w *vfC15Worker) runCase(c vfC15Case, seed int64) (results []vfC15Result, traces [][]map[string]interface{}) {
	if len(c.Plan) == 0 {
		c.Plan = []int{-1}
	}
	s := w.sess[c.Skip&1]
	if c.Conc > 1 {
		return w.runConc(c, seed)
	}
	if c.Pin == "error" || c.Pin == "lost" {
		return w.runPinned(c, seed)
	}
	stmt, vals := vfC15Stmt(&c, 0)
	var callerState []byte
	if c.Mode == "manual" && c.Start > 0 {
		callerState = vfC15State(c.Run, 0, c.Start, 0)
	}
	q := s.Query(stmt, vals...).PageSize(c.Size).Prefetch(float64(c.Q) / 4).Consistency(vfC15Cons[c.Run%3])
	if c.Mode == "manual" {
		q = q.PageState(callerState)
	}
	switch c.Opt {
	case "serial":
		q = q.SerialConsistency(LocalSerial)
	case "spec": // speculative execution armed; the delay is far beyond any answer, no second attempt is ever started
		q = q.Idempotent(true).SetSpeculativeExecutionPolicy(&SimpleSpeculativeExecution{NumAttempts: 1, TimeoutDelay: 5 * time.Minute})
	case "retry": // a retry policy is present; it rethrows (what retries do to a failed page is C13's)
		q = q.RetryPolicy(vfC15Policy{Rethrow})
	case "retryignore":
		q = q.RetryPolicy(vfC15Policy{Ignore})
	case "retrynext":
		q = q.RetryPolicy(vfC15Policy{RetryNextHost})
	case "retrysame":
		q = q.RetryPolicy(vfC15Policy{Retry})
	case "ctx": // the usual ctx, cancel := ...; defer cancel()
		ctx, cancel := context.WithCancel(context.Background())
		defer cancel()
		q = q.WithContext(ctx)
	case "ctxto":
		ctx, cancel := context.WithTimeout(context.Background(), 10*time.Minute)
		defer cancel()
		q = q.WithContext(ctx)
	case "observer":
		q = q.Observer(&vfC15Obs{})
	case "trace":
		q = q.Trace(&vfC15Tracer{})
	case "ts":
		q = q.WithTimestamp(1700000000000000 + int64(c.Run))
	case "payload":
		q = q.CustomPayload(map[string][]byte{"vf": {1, 2, 3}})
	}
	for e := 1; e <= len(c.Plan); e++ {
		if e > 1 && c.Rebind == 1 {
			q = q.Bind(vals...) // documented: rebinding an existing query instance
			if c.Mode == "manual" && c.Rebind == 1 {
				q = q.PageState(callerState)
			}
		}
		if e > 1 && c.Rebind == 2 {
			q = q.Bind(vals...) // ... and nothing else: the Query holds the new arguments and no paging state
		}
		// odd single-execution cases hand the Query back to the pool - AFTER the iteration is over: doc.go ("Query
		// values ... must not be modified after starting execution of the query") and the example at Query.Release
		// (Exec, then Release) do not allow touching the Query while its iterator can still fetch pages
		rel := 0
		if len(c.Plan) == 1 && c.Run%2 == 1 {
			rel = 1
		}
		// opt "release": the caller is done with the Query as soon as Iter() has returned and hands it back; the pool
		// gives the object to the next Session.Query calls while the iterator still has pages to fetch (ruling in
		// notes/C15.md: Release ends the caller's use of the *Query*; nothing documents the Iter as invalid)
		if c.Opt == "release" && len(c.Plan) == 1 {
			rel = 2
		}
		res, evs := w.runExec(c, e, q, rel, seed, nil)
		results = append(results, res)
		traces = append(traces, evs)
		if strings.HasPrefix(res.Env, "hang") {
			break
		}
	}
	return
}

func (w *vfC15Worker) runExec(c vfC15Case, exec int, q *Query, rel int, seed int64, r *vfC15Run) (vfC15Result, []map[string]interface{}) {
	stop := c.Plan[exec-1]
	if c.Kind == "SliceMap" {
		stop = -1 // one call: it cannot stop early
	}
	start := c.Start
	if exec-1 < len(c.Starts) {
		start = c.Starts[exec-1]
	}
	if r == nil {
		r = &vfC15Run{c: c, exec: exec, id: c.Run*8 + exec, tr: vfNewTracer()}
		r.ndelay, r.cpause, r.lpause = vfC15Sched(&c, seed+int64(exec)*131)
		w.cur.Store(&vfC15Group{job: c.Run, members: []*vfC15Run{r}})
	}
	res := vfC15Result{Run: r.id, Job: c.Run, Exec: exec, Member: r.member, Stop: stop, QTok: -2, ID: c.ID, Reqs: []int{}, ReqF: []string{}, Rows: [][2]int{}}
	r.tr.Emit("begin", "run", r.id, "id", c.ID, "pages", c.Pages, "q", c.Q, "kind", c.Kind, "fail", c.Fail, "mode", c.Mode,
		"start", start, "prep", c.Prep, "skip", c.Skip, "size", c.Size, "sched", c.Sched, "exec", exec, "stop", stop,
		"rebind", c.Rebind, "opt", c.Opt, "member", r.member, "fkind", map[bool]string{true: "lost", false: "error"}[c.Pin == "lost"])

	rows := [][2]int{}
	row := func(p, i int, sv string, bv []byte) {
		if n := len(rows); n < len(r.lpause) && r.lpause[n] > time.Microsecond && c.Kind != "SliceMap" {
			time.Sleep(r.lpause[n])
		}
		if sv != fmt.Sprintf("r%d.%d", p, i) || string(bv) != string(vfC15Blob(p, i)) {
			p = -1000 - p // a row whose columns do not belong together
		}
		rows = append(rows, [2]int{p, i})
		r.tr.Emit("row", "run", r.id, "page", p, "idx", i)
	}
	pause := func() {
		if n := len(rows); n < len(r.cpause) && r.cpause[n] > 0 {
			if r.cpause[n] <= time.Microsecond {
				runtime.Gosched()
			} else {
				time.Sleep(r.cpause[n])
			}
		}
	}
	// more asks whether the caller wants another row; stopped: it left of its own accord
	stopped := false
	lostAt := -1 // pinned + lost: the connection is closed when the last row of the page before the failing one is in
	if c.Pin == "lost" && r.pinConn != nil && c.Fail >= 2 {
		lostAt = 0
		for _, n := range c.Pages[:c.Fail-1] {
			lostAt += n
		}
	}
	more := func() bool {
		if lostAt >= 0 && len(rows) == lostAt {
			lostAt = -1
			r.pinConn.Close()
		}
		if stop >= 0 && len(rows) >= stop {
			stopped = true
			return false
		}
		if len(rows) > vfC15MaxRows {
			return false
		}
		return true
	}
	var err error
	var iter *Iter
	var reuse []byte
	var held []map[string]interface{}
	var heldB []string
	panicked := ""
	ok, dump := vfWithin(60*time.Second, func() {
		defer func() {
			if x := recover(); x != nil {
				panicked = fmt.Sprintf("panic: %v", x)
			}
		}()
		if r.mkIter != nil {
			iter = r.mkIter()
		} else {
			iter = q.Iter()
		}
		if rel == 2 {
			q.Release()
			s := w.sess[c.Skip&1]
			// other queries of the application take the pooled object (never executed: only their construction matters)
			w.churn[0] = s.Query("SELECT x FROM ks.other WHERE a = ? AND b = ?", 990001, 990002).PageSize(7).Consistency(Any)
			w.churn[1] = s.Query("SELECT y FROM ks.other2 WHERE a = ? AND b = ?", 990003, 990004)
		}
		switch c.Kind {
		case "Scan":
			for more() {
				pause()
				var p, i int
				var sv string
				var bv []byte
				if !iter.Scan(&p, &i, &sv, &bv) {
					break
				}
				row(p, i, sv, bv)
			}
			err = iter.Close()
		case "Scanner":
			sc := iter.Scanner()
			for more() {
				pause()
				if !sc.Next() {
					break
				}
				var p, i int
				var sv string
				var bv []byte
				if e := sc.Scan(&p, &i, &sv, &bv); e != nil {
					p, i, sv = -1, -1, e.Error()
				}
				row(p, i, sv, bv)
			}
			err = sc.Err()
		case "MapScan":
			for more() {
				pause()
				// a new map every call (as documented); odd runs pass the same *[]byte destination again each time.
				// The caller keeps the maps and reads them again after the iteration.
				m := map[string]interface{}{}
				if c.Run%2 == 1 {
					m["b"] = &reuse
				}
				if !iter.MapScan(m) {
					break
				}
				p, _ := m["p"].(int)
				i, _ := m["i"].(int)
				sv, _ := m["s"].(string)
				bv, _ := m["b"].([]byte)
				held = append(held, m)
				heldB = append(heldB, string(bv))
				row(p, i, sv, bv)
			}
			err = iter.Close()
		default: // SliceMap
			var ms []map[string]interface{}
			ms, err = iter.SliceMap()
			for _, m := range ms {
				p, _ := m["p"].(int)
				i, _ := m["i"].(int)
				sv, _ := m["s"].(string)
				bv, _ := m["b"].([]byte)
				row(p, i, sv, bv)
				if len(rows) > vfC15MaxRows {
					break
				}
			}
			if e2 := iter.Close(); err == nil {
				err = e2
			}
		}
	})
	if !ok {
		atomic.StoreInt32(&r.ended, 1)
		res.Env = "hang: the iteration did not return within 60s\n" + dump
		res.Ended = "aborted"
		return res, nil
	}
	exposed := 0
	if iter != nil {
		var em int
		_, exposed, em = vfC15Tok3(c.Run, iter.PageState())
		if exposed > 0 && em != r.member {
			exposed = -2 // the state of another of the concurrent iterations
		}
	}
	// in-package look at what the execution left in the caller's Query
	qtok := -2
	if rel != 2 && q != nil {
		_, qtok = vfC15Tok(c.Run, q.pageState)
	}
	if rel == 1 && panicked == "" {
		q.Release()
	}
	normal, errpage, msg := 1, 0, ""
	res.Ended = "normal"
	if panicked != "" {
		normal, res.Ended, msg = 3, "panic", panicked
		errpage = -1
	} else if len(rows) > vfC15MaxRows || (err != nil && strings.Contains(err.Error(), "vf-runaway")) {
		// stopped by the harness's runaway guards (rows without end / requests without end): not an ending of the driver's
		normal, res.Ended = 2, "aborted"
		if err != nil {
			msg = err.Error()
		}
	} else if err != nil {
		normal, errpage, msg = 0, -1, err.Error()
		res.Ended = "error"
		pre := fmt.Sprintf("vf-fail run=%d page=", c.Run)
		if i := strings.Index(msg, pre); i >= 0 {
			rest := msg[i+len(pre):]
			if j := strings.IndexByte(rest, '.'); j > 0 {
				if n, e := strconv.Atoi(rest[:j]); e == nil {
					errpage = n
				}
			}
		}
		if c.Pin == "lost" && errpage == -1 && !strings.Contains(msg, "vf-") {
			// the fetch after the loss of the pinned connection failed with the driver's own error (connection
			// closed / write failed): that is the failure of page Fail being surfaced
			errpage = c.Fail
		} else {
			switch vfErrClass(err) {
			// (a cancelled context is NOT environment: the harness cancels the caller's context only after the end)
			case "timeout", "closed", "net":
				res.Env = "environment error, not paging behaviour: " + msg
			}
		}
	} else if stopped {
		normal, res.Ended = 2, "abandoned" // the caller stopped after `stop` rows; Close reported no error
	}
	// the rows the caller kept: are they still what it was handed?
	changed := 0
	for k, m := range held {
		if bv, _ := m["b"].([]byte); string(bv) != heldB[k] {
			changed++
		}
	}
	res.Changed = changed
	r.tr.Emit("end", "run", r.id, "normal", normal, "errpage", errpage, "exposed", exposed, "errmsg", msg, "qtok", qtok,
		"changed", changed)
	r.pending.Wait()
	if stopped {
		w.abJob.Store(c.Run, true)
		// a prefetch the abandoned iterator has started may still be on its way: give it a moment to arrive while
		// it can still be attributed to this execution (later it is recognised by its paging state and set aside)
		for i := 0; i < 3; i++ {
			time.Sleep(200 * time.Microsecond)
			r.pending.Wait()
		}
	}
	atomic.StoreInt32(&r.ended, 1)
	r.pending.Wait()
	r.mu.Lock()
	res.Reqs = append(res.Reqs, r.reqs...)
	res.ReqF = append(res.ReqF, r.reqf...)
	res.Resps = r.resps
	r.mu.Unlock()
	res.Rows = rows
	res.Err = errpage
	res.Exposed = exposed
	res.ErrMsg = msg
	res.QTok = qtok
	return res, r.tr.Events()
}

// TestVfC15Run executes the runs of VF_RUNS and writes c15_results.ndjson and c15_trace_<w>.ndjson.
func TestVfC15Run(t *testing.T) {
	path := os.Getenv("VF_RUNS")
	if path == "" {
		t.Skip("VF_RUNS not set")
	}
	data, err := os.ReadFile(path)
	if err != nil {
		t.Fatal(err)
	}
	var cases []vfC15Case
	for _, line := range strings.Split(string(data), "\n") {
		if strings.TrimSpace(line) == "" {
			continue
		}
		var c vfC15Case
		if err := json.Unmarshal([]byte(line), &c); err != nil {
			t.Fatalf("bad run line %q: %v", line, err)
		}
		cases = append(cases, c)
	}
	nw := vfEnvInt("VF_WORKERS", 8)
	if nw > len(cases) {
		nw = len(cases)
	}
	if nw < 1 {
		nw = 1
	}
	seed := vfSeed()
	resOut, err := vfCreateNDJSON(vfOutPath("c15_results.ndjson"))
	if err != nil {
		t.Fatal(err)
	}
	defer resOut.Close()
	var wg sync.WaitGroup
	var stale, late, done int64
	errs := make(chan error, nw)
	t0 := time.Now()
	for wi := 0; wi < nw; wi++ {
		wg.Add(1)
		go func(wi int) {
			defer wg.Done()
			w, err := vfC15NewWorker(wi)
			if err != nil {
				errs <- err
				return
			}
			defer w.close()
			trOut, err := vfCreateNDJSON(vfOutPath(fmt.Sprintf("c15_trace_%d.ndjson", wi)))
			if err != nil {
				errs <- err
				return
			}
			defer trOut.Close()
			progress := vfOutPath(fmt.Sprintf("c15_progress_%d", wi))
			for k := wi; k < len(cases); k += nw {
				// which job this worker is in, should the driver take the process down
				os.WriteFile(progress, []byte(strconv.Itoa(cases[k].Run)), 0644)
				ress, trs := w.runCase(cases[k], seed)
				hang := false
				for i, res := range ress {
					resOut.Write(res)
					if res.Env == "" {
						for _, e := range trs[i] {
							delete(e, "seq")
							trOut.Write(e)
						}
					}
					atomic.AddInt64(&done, 1)
					hang = hang || strings.HasPrefix(res.Env, "hang")
				}
				if hang {
					// the stuck goroutine still owns the session: start over with fresh ones
					w2, err := vfC15NewWorker(wi)
					if err != nil {
						errs <- err
						return
					}
					w = w2
				}
			}
			atomic.AddInt64(&stale, atomic.LoadInt64(&w.stale))
			atomic.AddInt64(&late, atomic.LoadInt64(&w.late))
		}(wi)
	}
	wg.Wait()
	select {
	case err := <-errs:
		t.Fatalf("worker setup failed: %v", err)
	default:
	}
	sum, _ := json.Marshal(map[string]interface{}{"runs": done, "stale": stale, "late_prefetches_of_abandoned_iterators": late, "workers": nw, "ms": time.Since(t0).Milliseconds()})
	fmt.Printf("VFSUMMARY %s\n", sum)
}
