package gocql

// Verification harness for properties C12 (byte-exact CQL encodings) and C02 (Marshal /
// Unmarshal round trip).  Overlaid into package gocql by /verif/bin/check.
//
// The harness is glue only: it turns abstract values (tagged JSON records produced by TLC or by
// its own seeded generator) into Go values with the standard library (big.Int.SetBytes,
// math.Float64frombits, time.UnixMilli, net.IP, reflect), calls the public Marshal / Unmarshal
// and writes down what came back, again as abstract values.  It never decides whether a result
// is right: expected bytes and expected decoded values are computed by the TLA+ specification
// (spec/Cql.tla) and compared by the check / by TLC.
//
// gopkg.in/inf.v0 is the package's own dependency for the decimal type (marshal.go imports it);
// nothing else outside the standard library is used.

import (
	"bufio"
	"bytes"
	"encoding/binary"
	"encoding/hex"
	"encoding/json"
	"fmt"
	"math"
	"math/big"
	"math/rand"
	"net"
	"os"
	"reflect"
	"sort"
	"strconv"
	"strings"
	"sync"
	"testing"
	"time"

	"gopkg.in/inf.v0"
)

// ---------------------------------------------------------------- abstract records

type vfC12Type struct {
	T  string      `json:"t"`
	E  *vfC12Type  `json:"e,omitempty"`
	Kt *vfC12Type  `json:"kt,omitempty"`
	Vt *vfC12Type  `json:"vt,omitempty"`
	Es []vfC12Type `json:"es,omitempty"`
}

type vfC12Kind struct {
	G  string      `json:"g"`
	E  *vfC12Kind  `json:"e,omitempty"`
	Kk *vfC12Kind  `json:"kk,omitempty"`
	Vk *vfC12Kind  `json:"vk,omitempty"`
	Es []vfC12Kind `json:"es,omitempty"`
	N  int         `json:"n,omitempty"`
	// pstruct: a struct with len(Ix) fields, field j receiving UDT field Ix[j] (1-based), matched by cql tag
	// or (Byname) by field name
	Ix     []int `json:"ix,omitempty"`
	Byname bool  `json:"byname,omitempty"`
}

type vfC12KV struct {
	Key vfC12Val `json:"key"`
	Val vfC12Val `json:"val"`
}

type vfC12Val struct {
	K        string     `json:"k"`
	Neg      bool       `json:"neg"`
	M        []int      `json:"m"`
	B        []int      `json:"b"`
	V        bool       `json:"v"`
	Scale    *vfC12Val  `json:"scale"`
	Unscaled *vfC12Val  `json:"unscaled"`
	Mo       *vfC12Val  `json:"mo"`
	D        *vfC12Val  `json:"d"`
	Ns       *vfC12Val  `json:"ns"`
	Es       []vfC12Val `json:"es"`
	Ps       []vfC12KV  `json:"ps"`
}

type vfC12Enc struct {
	St string `json:"st"`
	B  []int  `json:"b"`
}

type vfC12Target struct {
	K vfC12Kind `json:"K"`
}

type vfC12Case struct {
	ID      int           `json:"id"`
	T       vfC12Type     `json:"T"`
	P       int           `json:"p"`
	K       vfC12Kind     `json:"K"`
	Gv      vfC12Val      `json:"gv"`
	Dec     string        `json:"dec"`
	Spec    vfC12Enc      `json:"spec"`
	Spec2   vfC12Enc      `json:"spec2"` // a second conformant encoding (short UDT values), st "err" if there is none
	Targets []vfC12Target `json:"targets"`
}

// named kinds ("integer types" of the documentation includes user-defined integer types)
type vfC12NInt int
type vfC12NInt8 int8
type vfC12NInt16 int16
type vfC12NInt32 int32
type vfC12NInt64 int64
type vfC12NUint uint
type vfC12NUint8 uint8
type vfC12NUint16 uint16
type vfC12NUint32 uint32
type vfC12NUint64 uint64

// User-defined types that marshal themselves (gocql.Marshaler / Unmarshaler): an int32 written as the 4-byte CQL int
// with encoding/binary.  vfC12UMV has a value-receiver MarshalCQL, vfC12UMP a pointer-receiver one; the methods are
// written the way user code is (no nil-receiver handling): a nil *T must never reach them, it is CQL null.
type vfC12UMV struct{ X int32 }
type vfC12UMP struct{ X int32 }

func (m vfC12UMV) MarshalCQL(info TypeInfo) ([]byte, error) {
	b := make([]byte, 4)
	binary.BigEndian.PutUint32(b, uint32(m.X))
	return b, nil
}

func (m *vfC12UMV) UnmarshalCQL(info TypeInfo, data []byte) error {
	if len(data) == 0 {
		m.X = 0
		return nil
	}
	if len(data) != 4 {
		return fmt.Errorf("vfC12UMV: %d bytes", len(data))
	}
	m.X = int32(binary.BigEndian.Uint32(data))
	return nil
}

func (m *vfC12UMP) MarshalCQL(info TypeInfo) ([]byte, error) {
	b := make([]byte, 4)
	binary.BigEndian.PutUint32(b, uint32(m.X))
	return b, nil
}

func (m *vfC12UMP) UnmarshalCQL(info TypeInfo, data []byte) error {
	if len(data) == 0 {
		m.X = 0
		return nil
	}
	if len(data) != 4 {
		return fmt.Errorf("vfC12UMP: %d bytes", len(data))
	}
	m.X = int32(binary.BigEndian.Uint32(data))
	return nil
}

var vfC12LeafTypes = map[string]reflect.Type{
	"um_v": reflect.TypeOf(vfC12UMV{}), "um_p": reflect.TypeOf(vfC12UMP{}),
	"int": reflect.TypeOf(int(0)), "int8": reflect.TypeOf(int8(0)), "int16": reflect.TypeOf(int16(0)),
	"int32": reflect.TypeOf(int32(0)), "int64": reflect.TypeOf(int64(0)),
	"uint": reflect.TypeOf(uint(0)), "uint8": reflect.TypeOf(uint8(0)), "uint16": reflect.TypeOf(uint16(0)),
	"uint32": reflect.TypeOf(uint32(0)), "uint64": reflect.TypeOf(uint64(0)),
	"nint": reflect.TypeOf(vfC12NInt(0)), "nint8": reflect.TypeOf(vfC12NInt8(0)), "nint16": reflect.TypeOf(vfC12NInt16(0)),
	"nint32": reflect.TypeOf(vfC12NInt32(0)), "nint64": reflect.TypeOf(vfC12NInt64(0)),
	"nuint": reflect.TypeOf(vfC12NUint(0)), "nuint8": reflect.TypeOf(vfC12NUint8(0)), "nuint16": reflect.TypeOf(vfC12NUint16(0)),
	"nuint32": reflect.TypeOf(vfC12NUint32(0)), "nuint64": reflect.TypeOf(vfC12NUint64(0)),
	"bigint": reflect.TypeOf(big.Int{}), "string": reflect.TypeOf(""), "bytes": reflect.TypeOf([]byte(nil)),
	"bool": reflect.TypeOf(false), "float32": reflect.TypeOf(float32(0)), "float64": reflect.TypeOf(float64(0)),
	"dec": reflect.TypeOf(inf.Dec{}), "gdur": reflect.TypeOf(time.Duration(0)), "time": reflect.TypeOf(time.Time{}),
	"time_p9": reflect.TypeOf(time.Time{}), "time_m5": reflect.TypeOf(time.Time{}), // the same instant carried in a non-UTC Location
	"uuid": reflect.TypeOf(UUID{}), "arr16": reflect.TypeOf([16]byte{}), "ip": reflect.TypeOf(net.IP(nil)),
	"cdur": reflect.TypeOf(Duration{}), "nil": reflect.TypeOf((*interface{})(nil)).Elem(),
}

var vfC12NativeTypes = map[string]Type{
	"ascii": TypeAscii, "bigint": TypeBigInt, "blob": TypeBlob, "boolean": TypeBoolean, "counter": TypeCounter,
	"decimal": TypeDecimal, "double": TypeDouble, "float": TypeFloat, "int": TypeInt, "text": TypeText,
	"timestamp": TypeTimestamp, "uuid": TypeUUID, "varchar": TypeVarchar, "varint": TypeVarint, "timeuuid": TypeTimeUUID,
	"inet": TypeInet, "date": TypeDate, "time": TypeTime, "smallint": TypeSmallInt, "tinyint": TypeTinyInt,
	"duration": TypeDuration,
}

func vfC12Info(t *vfC12Type, proto byte) (TypeInfo, error) {
	switch t.T {
	case "list", "set":
		e, err := vfC12Info(t.E, proto)
		if err != nil {
			return nil, err
		}
		typ := TypeList
		if t.T == "set" {
			typ = TypeSet
		}
		return CollectionType{NativeType: NewNativeType(proto, typ, ""), Elem: e}, nil
	case "map":
		k, err := vfC12Info(t.Kt, proto)
		if err != nil {
			return nil, err
		}
		v, err := vfC12Info(t.Vt, proto)
		if err != nil {
			return nil, err
		}
		return CollectionType{NativeType: NewNativeType(proto, TypeMap, ""), Key: k, Elem: v}, nil
	case "tuple":
		es := make([]TypeInfo, len(t.Es))
		for i := range t.Es {
			e, err := vfC12Info(&t.Es[i], proto)
			if err != nil {
				return nil, err
			}
			es[i] = e
		}
		return TupleTypeInfo{NativeType: NewNativeType(proto, TypeTuple, ""), Elems: es}, nil
	case "udt":
		fs := make([]UDTField, len(t.Es))
		for i := range t.Es {
			e, err := vfC12Info(&t.Es[i], proto)
			if err != nil {
				return nil, err
			}
			fs[i] = UDTField{Name: vfC12FieldName(i), Type: e}
		}
		return UDTTypeInfo{NativeType: NewNativeType(proto, TypeUDT, ""), KeySpace: "ks", Name: "u", Elements: fs}, nil
	}
	nt, ok := vfC12NativeTypes[t.T]
	if !ok {
		return nil, fmt.Errorf("harness: unknown CQL type %q", t.T)
	}
	return NewNativeType(proto, nt, ""), nil
}

// UDT field names are exported identifiers so that a struct can also match them by field name
func vfC12FieldName(i int) string { return "F" + strconv.Itoa(i+1) }

var vfC12Zones = map[string]*time.Location{"time_p9": time.FixedZone("+09:00", 9*3600), "time_m5": time.FixedZone("-05:00", -5*3600)}

func vfC12GoType(k *vfC12Kind) (reflect.Type, error) {
	switch k.G {
	case "ptr":
		e, err := vfC12GoType(k.E)
		if err != nil {
			return nil, err
		}
		return reflect.PtrTo(e), nil
	case "slice":
		e, err := vfC12GoType(k.E)
		if err != nil {
			return nil, err
		}
		return reflect.SliceOf(e), nil
	case "array":
		e, err := vfC12GoType(k.E)
		if err != nil {
			return nil, err
		}
		return reflect.ArrayOf(k.N, e), nil
	case "setmap":
		e, err := vfC12GoType(k.E)
		if err != nil {
			return nil, err
		}
		if !e.Comparable() {
			return nil, fmt.Errorf("harness: %v cannot be a map key", e)
		}
		return reflect.MapOf(e, reflect.TypeOf(struct{}{})), nil
	case "map":
		a, err := vfC12GoType(k.Kk)
		if err != nil {
			return nil, err
		}
		b, err := vfC12GoType(k.Vk)
		if err != nil {
			return nil, err
		}
		if !a.Comparable() {
			return nil, fmt.Errorf("harness: %v cannot be a map key", a)
		}
		return reflect.MapOf(a, b), nil
	case "struct":
		fs := make([]reflect.StructField, len(k.Es))
		for i := range k.Es {
			e, err := vfC12GoType(&k.Es[i])
			if err != nil {
				return nil, err
			}
			// Go field G<i> carries UDT field F<i> through its cql tag (for tuples the position counts)
			fs[i] = reflect.StructField{Name: "G" + strconv.Itoa(i+1), Type: e, Tag: reflect.StructTag(`cql:"` + vfC12FieldName(i) + `"`)}
		}
		return reflect.StructOf(fs), nil
	case "pstruct":
		if len(k.Ix) != len(k.Es) {
			return nil, fmt.Errorf("harness: pstruct arity mismatch")
		}
		fs := make([]reflect.StructField, len(k.Es))
		for j := range k.Es {
			e, err := vfC12GoType(&k.Es[j])
			if err != nil {
				return nil, err
			}
			if k.Byname {
				fs[j] = reflect.StructField{Name: vfC12FieldName(k.Ix[j] - 1), Type: e}
			} else {
				fs[j] = reflect.StructField{Name: "G" + strconv.Itoa(k.Ix[j]), Type: e, Tag: reflect.StructTag(`cql:"` + vfC12FieldName(k.Ix[j]-1) + `"`)}
			}
		}
		return reflect.StructOf(fs), nil
	case "ifaces":
		return reflect.TypeOf([]interface{}(nil)), nil
	case "udtmap":
		return reflect.TypeOf(map[string]interface{}(nil)), nil
	}
	t, ok := vfC12LeafTypes[k.G]
	if !ok {
		return nil, fmt.Errorf("harness: unknown Go kind %q", k.G)
	}
	return t, nil
}

func vfC12Bytes(xs []int) []byte {
	b := make([]byte, len(xs))
	for i, x := range xs {
		b[i] = byte(x)
	}
	return b
}

func vfC12Ints(b []byte) []int {
	xs := make([]int, len(b))
	for i, x := range b {
		xs[i] = int(x)
	}
	return xs
}

func vfC12Big(v *vfC12Val) (*big.Int, error) {
	if v == nil || v.K != "int" {
		return nil, fmt.Errorf("harness: integer expected, got %+v", v)
	}
	x := new(big.Int).SetBytes(vfC12Bytes(v.M))
	if v.Neg {
		x.Neg(x)
	}
	return x, nil
}

func vfC12IsMapped(b []byte) bool {
	if len(b) != 16 {
		return false
	}
	for i := 0; i < 10; i++ {
		if b[i] != 0 {
			return false
		}
	}
	return b[10] == 0xff && b[11] == 0xff
}

func vfC12UUIDString(b []byte) string {
	h := hex.EncodeToString(b)
	if len(h) != 32 {
		return h
	}
	return h[0:8] + "-" + h[8:12] + "-" + h[12:16] + "-" + h[16:20] + "-" + h[20:32]
}

// the Go string that stands for abstract value gv in a column of type t
func vfC12String(t *vfC12Type, gv *vfC12Val) (string, error) {
	switch gv.K {
	case "empty":
		return "", nil
	case "int":
		x, err := vfC12Big(gv)
		if err != nil {
			return "", err
		}
		switch t.T {
		case "date":
			return time.Unix(x.Int64()*86400, 0).UTC().Format("2006-01-02"), nil
		case "duration":
			return time.Duration(x.Int64()).String(), nil
		}
		return x.String(), nil
	case "bytes":
		b := vfC12Bytes(gv.B)
		switch t.T {
		case "inet":
			if vfC12IsMapped(b) {
				return "::ffff:" + net.IP(b[12:]).String(), nil
			}
			return net.IP(b).String(), nil
		case "uuid", "timeuuid":
			return vfC12UUIDString(b), nil
		}
		return string(b), nil
	}
	return "", fmt.Errorf("harness: cannot make a string of %q", gv.K)
}

var vfC12NilIface = reflect.Zero(reflect.TypeOf((*interface{})(nil)).Elem())

// vfC12Build makes the Go value described by (kind, abstract value) for a column of type t.
func vfC12Build(k *vfC12Kind, gv *vfC12Val, t *vfC12Type) (reflect.Value, error) {
	typ, err := vfC12GoType(k)
	if err != nil {
		return reflect.Value{}, err
	}
	if k.G == "nil" {
		return vfC12NilIface, nil
	}
	if gv.K == "null" {
		switch k.G {
		case "ptr", "slice", "map", "setmap", "udtmap", "ifaces":
			return reflect.Zero(typ), nil
		}
		return reflect.Value{}, fmt.Errorf("harness: kind %s cannot be nil", k.G)
	}
	switch k.G {
	case "ptr":
		e, err := vfC12Build(k.E, gv, t)
		if err != nil {
			return reflect.Value{}, err
		}
		p := reflect.New(typ.Elem())
		p.Elem().Set(e)
		return p, nil
	case "slice", "array":
		var es []vfC12Val
		if gv.K == "list" || gv.K == "tuple" {
			es = gv.Es
		} else {
			return reflect.Value{}, fmt.Errorf("harness: list expected for %s", k.G)
		}
		var v reflect.Value
		if k.G == "slice" {
			v = reflect.MakeSlice(typ, len(es), len(es))
		} else {
			if k.N != len(es) {
				return reflect.Value{}, fmt.Errorf("harness: array length mismatch")
			}
			v = reflect.New(typ).Elem()
		}
		for i := range es {
			et := t.E
			if t.T == "tuple" {
				et = &t.Es[i]
			}
			e, err := vfC12Build(k.E, &es[i], et)
			if err != nil {
				return reflect.Value{}, err
			}
			v.Index(i).Set(e)
		}
		return v, nil
	case "setmap":
		v := reflect.MakeMap(typ)
		for i := range gv.Es {
			e, err := vfC12Build(k.E, &gv.Es[i], t.E)
			if err != nil {
				return reflect.Value{}, err
			}
			v.SetMapIndex(e, reflect.ValueOf(struct{}{}))
		}
		if v.Len() != len(gv.Es) {
			return reflect.Value{}, fmt.Errorf("harness: duplicate set elements")
		}
		return v, nil
	case "map":
		v := reflect.MakeMap(typ)
		for i := range gv.Ps {
			a, err := vfC12Build(k.Kk, &gv.Ps[i].Key, t.Kt)
			if err != nil {
				return reflect.Value{}, err
			}
			b, err := vfC12Build(k.Vk, &gv.Ps[i].Val, t.Vt)
			if err != nil {
				return reflect.Value{}, err
			}
			v.SetMapIndex(a, b)
		}
		if v.Len() != len(gv.Ps) {
			return reflect.Value{}, fmt.Errorf("harness: duplicate map keys")
		}
		return v, nil
	case "struct":
		v := reflect.New(typ).Elem()
		if len(gv.Es) != len(k.Es) || len(t.Es) != len(k.Es) {
			return reflect.Value{}, fmt.Errorf("harness: struct arity mismatch")
		}
		for i := range k.Es {
			e, err := vfC12Build(&k.Es[i], &gv.Es[i], &t.Es[i])
			if err != nil {
				return reflect.Value{}, err
			}
			v.Field(i).Set(e)
		}
		return v, nil
	case "ifaces":
		if len(gv.Es) != len(k.Es) || len(t.Es) != len(k.Es) {
			return reflect.Value{}, fmt.Errorf("harness: tuple arity mismatch")
		}
		s := make([]interface{}, len(k.Es))
		for i := range k.Es {
			e, err := vfC12Build(&k.Es[i], &gv.Es[i], &t.Es[i])
			if err != nil {
				return reflect.Value{}, err
			}
			if k.Es[i].G != "nil" {
				s[i] = e.Interface()
			}
		}
		return reflect.ValueOf(s), nil
	case "udtmap":
		if len(gv.Es) != len(k.Es) || len(t.Es) != len(k.Es) {
			return reflect.Value{}, fmt.Errorf("harness: udt arity mismatch")
		}
		m := map[string]interface{}{}
		for i := range k.Es {
			if gv.Es[i].K == "absent" {
				continue
			}
			e, err := vfC12Build(&k.Es[i], &gv.Es[i], &t.Es[i])
			if err != nil {
				return reflect.Value{}, err
			}
			if k.Es[i].G == "nil" {
				m[vfC12FieldName(i)] = nil
			} else {
				m[vfC12FieldName(i)] = e.Interface()
			}
		}
		return reflect.ValueOf(m), nil
	}
	// leaves
	v := reflect.New(typ).Elem()
	switch k.G {
	case "string":
		s, err := vfC12String(t, gv)
		if err != nil {
			return reflect.Value{}, err
		}
		v.SetString(s)
		return v, nil
	case "time":
		if gv.K == "empty" {
			return v, nil // the zero time.Time
		}
		x, err := vfC12Big(gv)
		if err != nil {
			return reflect.Value{}, err
		}
		if !x.IsInt64() {
			return reflect.Value{}, fmt.Errorf("harness: instant out of range")
		}
		v.Set(reflect.ValueOf(time.UnixMilli(x.Int64()).UTC()))
		return v, nil
	case "time_p9", "time_m5":
		if gv.K == "empty" {
			return reflect.ValueOf(time.Time{}.In(vfC12Zones[k.G])), nil // still the zero time.Time
		}
		x, err := vfC12Big(gv)
		if err != nil {
			return reflect.Value{}, err
		}
		if !x.IsInt64() {
			return reflect.Value{}, fmt.Errorf("harness: instant out of range")
		}
		return reflect.ValueOf(time.UnixMilli(x.Int64()).In(vfC12Zones[k.G])), nil
	}
	if k.G == "um_v" || k.G == "um_p" {
		x, err := vfC12Big(gv)
		if err != nil {
			return reflect.Value{}, err
		}
		if !x.IsInt64() || int64(int32(x.Int64())) != x.Int64() {
			return reflect.Value{}, fmt.Errorf("harness: %s does not fit %s", x, k.G)
		}
		v.Field(0).SetInt(x.Int64())
		return v, nil
	}
	switch typ.Kind() {
	case reflect.Int, reflect.Int8, reflect.Int16, reflect.Int32, reflect.Int64:
		x, err := vfC12Big(gv)
		if err != nil {
			return reflect.Value{}, err
		}
		if !x.IsInt64() || v.OverflowInt(x.Int64()) {
			return reflect.Value{}, fmt.Errorf("harness: %s does not fit %s", x, k.G)
		}
		v.SetInt(x.Int64())
		return v, nil
	case reflect.Uint, reflect.Uint8, reflect.Uint16, reflect.Uint32, reflect.Uint64:
		x, err := vfC12Big(gv)
		if err != nil {
			return reflect.Value{}, err
		}
		if !x.IsUint64() || v.OverflowUint(x.Uint64()) {
			return reflect.Value{}, fmt.Errorf("harness: %s does not fit %s", x, k.G)
		}
		v.SetUint(x.Uint64())
		return v, nil
	case reflect.Bool:
		if gv.K != "bool" {
			return reflect.Value{}, fmt.Errorf("harness: bool expected")
		}
		v.SetBool(gv.V)
		return v, nil
	case reflect.Float32:
		if gv.K != "bytes" || len(gv.B) != 4 {
			return reflect.Value{}, fmt.Errorf("harness: 4-byte bit pattern expected")
		}
		b := vfC12Bytes(gv.B)
		f := math.Float32frombits(uint32(b[0])<<24 | uint32(b[1])<<16 | uint32(b[2])<<8 | uint32(b[3]))
		return reflect.ValueOf(f), nil
	case reflect.Float64:
		if gv.K != "bytes" || len(gv.B) != 8 {
			return reflect.Value{}, fmt.Errorf("harness: 8-byte bit pattern expected")
		}
		var u uint64
		for _, x := range vfC12Bytes(gv.B) {
			u = u<<8 | uint64(x)
		}
		return reflect.ValueOf(math.Float64frombits(u)), nil
	}
	switch k.G {
	case "bigint":
		x, err := vfC12Big(gv)
		if err != nil {
			return reflect.Value{}, err
		}
		return reflect.ValueOf(*x), nil
	case "bytes":
		if gv.K != "bytes" {
			return reflect.Value{}, fmt.Errorf("harness: bytes expected")
		}
		return reflect.ValueOf(vfC12Bytes(gv.B)), nil
	case "ip":
		if gv.K != "bytes" {
			return reflect.Value{}, fmt.Errorf("harness: bytes expected")
		}
		return reflect.ValueOf(net.IP(vfC12Bytes(gv.B))), nil
	case "uuid", "arr16":
		if gv.K != "bytes" || len(gv.B) != 16 {
			return reflect.Value{}, fmt.Errorf("harness: 16 bytes expected")
		}
		reflect.Copy(v, reflect.ValueOf(vfC12Bytes(gv.B)))
		return v, nil
	case "dec":
		if gv.K != "dec" {
			return reflect.Value{}, fmt.Errorf("harness: decimal expected")
		}
		u, err := vfC12Big(gv.Unscaled)
		if err != nil {
			return reflect.Value{}, err
		}
		s, err := vfC12Big(gv.Scale)
		if err != nil {
			return reflect.Value{}, err
		}
		if !s.IsInt64() || s.Int64() > math.MaxInt32 || s.Int64() < math.MinInt32 {
			return reflect.Value{}, fmt.Errorf("harness: scale out of range")
		}
		return reflect.ValueOf(*inf.NewDecBig(u, inf.Scale(s.Int64()))), nil
	case "cdur":
		if gv.K != "dur" {
			return reflect.Value{}, fmt.Errorf("harness: duration expected")
		}
		mo, err1 := vfC12Big(gv.Mo)
		d, err2 := vfC12Big(gv.D)
		ns, err3 := vfC12Big(gv.Ns)
		if err1 != nil || err2 != nil || err3 != nil {
			return reflect.Value{}, fmt.Errorf("harness: bad duration")
		}
		if !mo.IsInt64() || !d.IsInt64() || !ns.IsInt64() || int64(int32(mo.Int64())) != mo.Int64() || int64(int32(d.Int64())) != d.Int64() {
			return reflect.Value{}, fmt.Errorf("harness: duration component out of range")
		}
		return reflect.ValueOf(Duration{Months: int32(mo.Int64()), Days: int32(d.Int64()), Nanoseconds: ns.Int64()}), nil
	}
	return reflect.Value{}, fmt.Errorf("harness: cannot build kind %q", k.G)
}

// ---------------------------------------------------------------- Go value -> abstract value

type vfC12Obj = map[string]interface{}

func vfC12DumpBig(x *big.Int) vfC12Obj {
	return vfC12Obj{"k": "int", "neg": x.Sign() < 0, "m": vfC12Ints(new(big.Int).Abs(x).Bytes())}
}

func vfC12DumpBytes(b []byte) vfC12Obj { return vfC12Obj{"k": "bytes", "b": vfC12Ints(b)} }

func vfC12Unparsable(s string) vfC12Obj { return vfC12Obj{"k": "unparsable", "s": s} }

func vfC12DumpString(s string, t *vfC12Type) vfC12Obj {
	switch t.T {
	case "tinyint", "smallint", "int", "bigint", "counter", "varint":
		x, ok := new(big.Int).SetString(s, 10)
		if !ok {
			return vfC12Unparsable(s)
		}
		return vfC12DumpBig(x)
	case "inet":
		if s == "" {
			return vfC12DumpBytes(nil)
		}
		ip := net.ParseIP(s)
		if ip == nil {
			return vfC12Unparsable(s)
		}
		if v4 := ip.To4(); v4 != nil {
			return vfC12DumpBytes(v4)
		}
		return vfC12DumpBytes(ip.To16())
	case "uuid", "timeuuid":
		b, err := hex.DecodeString(strings.Replace(s, "-", "", -1))
		if err != nil {
			return vfC12Unparsable(s)
		}
		return vfC12DumpBytes(b)
	case "date":
		if s == "" {
			return vfC12Obj{"k": "empty"}
		}
		tm, err := time.Parse("2006-01-02", s)
		if err != nil {
			return vfC12Unparsable(s)
		}
		return vfC12DumpBig(big.NewInt(tm.Unix() / 86400))
	case "duration":
		d, err := time.ParseDuration(s)
		if err != nil {
			return vfC12Unparsable(s)
		}
		return vfC12DumpBig(big.NewInt(int64(d)))
	}
	return vfC12DumpBytes([]byte(s))
}

var (
	vfC12TBig  = reflect.TypeOf(big.Int{})
	vfC12TTime = reflect.TypeOf(time.Time{})
	vfC12TDec  = reflect.TypeOf(inf.Dec{})
	vfC12TDur  = reflect.TypeOf(Duration{})
	vfC12TIP   = reflect.TypeOf(net.IP(nil))
	vfC12TUMV  = reflect.TypeOf(vfC12UMV{})
	vfC12TUMP  = reflect.TypeOf(vfC12UMP{})
)

func vfC12ElemType(t *vfC12Type, i int) *vfC12Type {
	switch t.T {
	case "list", "set":
		return t.E
	case "tuple", "udt":
		if i < len(t.Es) {
			return &t.Es[i]
		}
	}
	return &vfC12Type{T: "?"}
}

func vfC12Dump(v reflect.Value, t *vfC12Type) vfC12Obj {
	if !v.IsValid() {
		return vfC12Obj{"k": "null"}
	}
	switch v.Type() {
	case vfC12TBig:
		x := v.Interface().(big.Int)
		return vfC12DumpBig(&x)
	case vfC12TTime:
		tm := v.Interface().(time.Time)
		if tm.IsZero() {
			return vfC12Obj{"k": "empty"}
		}
		if tm.Nanosecond()%1000000 != 0 {
			return vfC12Unparsable(tm.Format(time.RFC3339Nano))
		}
		return vfC12DumpBig(big.NewInt(tm.UnixMilli()))
	case vfC12TDec:
		d := v.Interface().(inf.Dec)
		return vfC12Obj{"k": "dec", "scale": vfC12DumpBig(big.NewInt(int64(d.Scale()))), "unscaled": vfC12DumpBig(d.UnscaledBig())}
	case vfC12TDur:
		d := v.Interface().(Duration)
		return vfC12Obj{"k": "dur", "mo": vfC12DumpBig(big.NewInt(int64(d.Months))), "d": vfC12DumpBig(big.NewInt(int64(d.Days))),
			"ns": vfC12DumpBig(big.NewInt(d.Nanoseconds))}
	case vfC12TUMV, vfC12TUMP:
		return vfC12DumpBig(big.NewInt(v.Field(0).Int()))
	case vfC12TIP:
		ip := v.Interface().(net.IP)
		if v4 := ip.To4(); v4 != nil {
			return vfC12DumpBytes(v4)
		}
		return vfC12DumpBytes(ip)
	}
	switch v.Kind() {
	case reflect.Ptr, reflect.Interface:
		if v.IsNil() {
			return vfC12Obj{"k": "null"}
		}
		return vfC12Dump(v.Elem(), t)
	case reflect.Int, reflect.Int8, reflect.Int16, reflect.Int32, reflect.Int64:
		return vfC12DumpBig(big.NewInt(v.Int()))
	case reflect.Uint, reflect.Uint8, reflect.Uint16, reflect.Uint32, reflect.Uint64:
		return vfC12DumpBig(new(big.Int).SetUint64(v.Uint()))
	case reflect.Bool:
		return vfC12Obj{"k": "bool", "v": v.Bool()}
	case reflect.Float32:
		u := math.Float32bits(float32(v.Float()))
		if f, ok := v.Interface().(float32); ok {
			u = math.Float32bits(f)
		}
		return vfC12DumpBytes([]byte{byte(u >> 24), byte(u >> 16), byte(u >> 8), byte(u)})
	case reflect.Float64:
		u := math.Float64bits(v.Float())
		b := make([]byte, 8)
		for i := 0; i < 8; i++ {
			b[i] = byte(u >> uint(56-8*i))
		}
		return vfC12DumpBytes(b)
	case reflect.String:
		return vfC12DumpString(v.String(), t)
	case reflect.Slice, reflect.Array:
		if v.Type().Elem().Kind() == reflect.Uint8 && t.T != "list" && t.T != "set" && t.T != "tuple" && t.T != "udt" {
			b := make([]byte, v.Len())
			for i := range b {
				b[i] = byte(v.Index(i).Uint())
			}
			return vfC12DumpBytes(b)
		}
		if v.Kind() == reflect.Slice && v.IsNil() {
			return vfC12Obj{"k": "null"}
		}
		es := make([]interface{}, v.Len())
		for i := range es {
			es[i] = vfC12Dump(v.Index(i), vfC12ElemType(t, i))
		}
		if t.T == "tuple" || t.T == "udt" {
			return vfC12Obj{"k": "tuple", "es": es}
		}
		return vfC12Obj{"k": "list", "es": es}
	case reflect.Struct:
		es := make([]interface{}, v.NumField())
		for i := range es {
			idx := i
			if n, err := strconv.Atoi(v.Type().Field(i).Name[1:]); err == nil { // G<n> / F<n>: the n-th field of the UDT / tuple
				idx = n - 1
			}
			es[i] = vfC12Dump(v.Field(i), vfC12ElemType(t, idx))
		}
		return vfC12Obj{"k": "tuple", "es": es}
	case reflect.Map:
		if v.IsNil() {
			return vfC12Obj{"k": "null"}
		}
		if t.T == "udt" {
			es := make([]interface{}, len(t.Es))
			for i := range t.Es {
				e := v.MapIndex(reflect.ValueOf(vfC12FieldName(i)))
				if !e.IsValid() {
					es[i] = vfC12Obj{"k": "absent"}
				} else {
					es[i] = vfC12Dump(e, &t.Es[i])
				}
			}
			return vfC12Obj{"k": "tuple", "es": es}
		}
		type ent struct {
			s    string
			k, v vfC12Obj
		}
		ents := make([]ent, 0, v.Len())
		it := v.MapRange()
		for it.Next() {
			var e ent
			if t.T == "map" {
				e.k = vfC12Dump(it.Key(), t.Kt)
				e.v = vfC12Dump(it.Value(), t.Vt)
			} else {
				e.k = vfC12Dump(it.Key(), vfC12ElemType(t, 0))
			}
			js, _ := json.Marshal(e.k)
			e.s = string(js)
			ents = append(ents, e)
		}
		sort.Slice(ents, func(i, j int) bool { return ents[i].s < ents[j].s })
		if t.T == "map" {
			ps := make([]interface{}, len(ents))
			for i, e := range ents {
				ps[i] = vfC12Obj{"key": e.k, "val": e.v}
			}
			return vfC12Obj{"k": "map", "ps": ps}
		}
		es := make([]interface{}, len(ents))
		for i, e := range ents {
			es[i] = e.k
		}
		return vfC12Obj{"k": "list", "es": es}
	}
	return vfC12Unparsable(fmt.Sprintf("%T", v.Interface()))
}

// ---------------------------------------------------------------- calling the driver

func vfC12Marshal(info TypeInfo, val reflect.Value) (res vfC12Obj, data []byte) {
	defer func() {
		if r := recover(); r != nil {
			res = vfC12Obj{"st": "panic", "b": []int{}, "err": fmt.Sprint(r)}
			data = nil
		}
	}()
	var arg interface{}
	if val.IsValid() && !(val.Kind() == reflect.Interface && val.IsNil()) {
		arg = val.Interface()
	}
	b, err := Marshal(info, arg)
	if err != nil {
		return vfC12Obj{"st": "err", "b": []int{}, "err": err.Error()}, nil
	}
	if b == nil {
		return vfC12Obj{"st": "null", "b": []int{}}, nil
	}
	return vfC12Obj{"st": "ok", "b": vfC12Ints(b)}, b
}

// ---------------------------------------------------------------- decode destinations
//
// "decodes to an equal value" must hold whatever the destination held before (the usual
// `for iter.Scan(&m)` loop reuses one variable).  Every decode is therefore run three times:
//   fresh   a zero value of the target type
//   dirty   a destination pre-filled by reflection with junk of the same type: non-zero scalars,
//           non-nil pointers, 3-element slices, 2-entry maps, filled struct fields / array elements
//   reuse   one long-lived destination per (type, protocol, target kind) that every case of
//           the run decodes into, one after the other
// The expected value is the same in all three (it comes from the specification and does not
// depend on the destination); the harness only reports the dirty / reuse result when it is not
// identical to the fresh one, and the check judges it like any other decode.

type vfC12Dest struct {
	k    *vfC12Kind
	ptr  reflect.Value // pointer to the destination (all kinds but ifaces)
	ptrs []interface{} // ifaces: the []interface{} of pointers handed to Unmarshal
}

func vfC12NewDest(k *vfC12Kind) (*vfC12Dest, error) {
	d := &vfC12Dest{k: k}
	if k.G == "ifaces" {
		d.ptrs = make([]interface{}, len(k.Es))
		for i := range k.Es {
			et, err := vfC12GoType(&k.Es[i])
			if err != nil {
				return nil, err
			}
			d.ptrs[i] = reflect.New(et).Interface()
		}
		return d, nil
	}
	typ, err := vfC12GoType(k)
	if err != nil {
		return nil, err
	}
	d.ptr = reflect.New(typ)
	return d, nil
}

// vfC12Junk overwrites v with a non-zero value of its type (different for different salts).
func vfC12Junk(v reflect.Value, salt int, depth int) {
	if !v.CanSet() || depth > 6 {
		return
	}
	switch v.Type() {
	case vfC12TBig:
		v.Set(reflect.ValueOf(*big.NewInt(int64(5921370 + salt))))
		return
	case vfC12TTime:
		v.Set(reflect.ValueOf(time.Unix(int64(1234567+salt), 0).UTC()))
		return
	case vfC12TDec:
		v.Set(reflect.ValueOf(*inf.NewDec(int64(777+salt), 3)))
		return
	case vfC12TDur:
		v.Set(reflect.ValueOf(Duration{Months: 7, Days: 8, Nanoseconds: int64(9 + salt)}))
		return
	case vfC12TIP:
		v.Set(reflect.ValueOf(net.IP{9, 9, 9, byte(salt)}))
		return
	}
	switch v.Kind() {
	case reflect.Ptr:
		p := reflect.New(v.Type().Elem())
		vfC12Junk(p.Elem(), salt, depth+1)
		v.Set(p)
	case reflect.Interface:
		if v.NumMethod() == 0 {
			v.Set(reflect.ValueOf("junk" + strconv.Itoa(salt)))
		}
	case reflect.Int, reflect.Int8, reflect.Int16, reflect.Int32, reflect.Int64:
		v.SetInt(int64(85 + salt%40))
	case reflect.Uint, reflect.Uint8, reflect.Uint16, reflect.Uint32, reflect.Uint64:
		v.SetUint(uint64(85 + salt%40))
	case reflect.Bool:
		v.SetBool(salt%2 == 0)
	case reflect.Float32, reflect.Float64:
		v.SetFloat(1.5 + float64(salt))
	case reflect.String:
		v.SetString("junk" + strconv.Itoa(salt))
	case reflect.Slice:
		s := reflect.MakeSlice(v.Type(), 3, 3)
		for i := 0; i < 3; i++ {
			vfC12Junk(s.Index(i), salt+i, depth+1)
		}
		v.Set(s)
	case reflect.Array:
		for i := 0; i < v.Len(); i++ {
			vfC12Junk(v.Index(i), salt+i, depth+1)
		}
	case reflect.Map:
		m := reflect.MakeMap(v.Type())
		for i := 0; i < 2; i++ {
			key := reflect.New(v.Type().Key()).Elem()
			val := reflect.New(v.Type().Elem()).Elem()
			vfC12Junk(key, salt+i, depth+1)
			vfC12Junk(val, salt+i, depth+1)
			m.SetMapIndex(key, val)
		}
		v.Set(m)
	case reflect.Struct:
		for i := 0; i < v.NumField(); i++ {
			vfC12Junk(v.Field(i), salt+i, depth+1)
		}
	}
}

func (d *vfC12Dest) fill(salt int) {
	if d.k.G == "ifaces" {
		for i := range d.ptrs {
			vfC12Junk(reflect.ValueOf(d.ptrs[i]).Elem(), salt+i, 0)
		}
		return
	}
	vfC12Junk(d.ptr.Elem(), salt, 0)
}

// decode runs Unmarshal(data) (nil = CQL null) into the destination and dumps what it holds afterwards.
func (d *vfC12Dest) decode(info TypeInfo, t *vfC12Type, data []byte) (res vfC12Obj) {
	defer func() {
		if r := recover(); r != nil {
			res = vfC12Obj{"st": "panic", "err": fmt.Sprint(r), "gv": vfC12Obj{"k": "null"}}
		}
	}()
	var in []byte
	if data != nil {
		in = make([]byte, len(data), len(data)+1) // private copy: decoders must not alias across targets
		copy(in, data)
	}
	if d.k.G == "ifaces" {
		if err := Unmarshal(info, in, d.ptrs); err != nil {
			return vfC12Obj{"st": "err", "err": err.Error(), "gv": vfC12Obj{"k": "null"}}
		}
		es := make([]interface{}, len(d.ptrs))
		for i := range d.ptrs {
			es[i] = vfC12Dump(reflect.ValueOf(d.ptrs[i]).Elem(), vfC12ElemType(t, i))
		}
		return vfC12Obj{"st": "ok", "gv": vfC12Obj{"k": "tuple", "es": es}}
	}
	if err := Unmarshal(info, in, d.ptr.Interface()); err != nil {
		return vfC12Obj{"st": "err", "err": err.Error(), "gv": vfC12Obj{"k": "null"}}
	}
	return vfC12Obj{"st": "ok", "gv": vfC12Dump(d.ptr.Elem(), t)}
}

// vfC12Unmarshal decodes data (nil = CQL null) into a fresh target of kind k and dumps it.
func vfC12Unmarshal(info TypeInfo, t *vfC12Type, k *vfC12Kind, data []byte) vfC12Obj {
	d, err := vfC12NewDest(k)
	if err != nil {
		return vfC12Obj{"st": "harness", "err": err.Error(), "gv": vfC12Obj{"k": "null"}}
	}
	return d.decode(info, t, data)
}

var vfC12Reused = map[string]*vfC12Dest{}
var vfC12Salt int

func vfC12Same(a, b vfC12Obj) bool {
	if a["st"] != b["st"] {
		return false
	}
	if a["st"] != "ok" {
		return true
	}
	x, _ := json.Marshal(a["gv"])
	y, _ := json.Marshal(b["gv"])
	return string(x) == string(y)
}

// vfC12UnmarshalAll: fresh decode plus the dirty / reuse decodes; the latter two are returned only
// when they differ from the fresh result (nil otherwise).  stream separates the reuse destinations
// of independent byte streams ("spec", "real", "vec").
func vfC12UnmarshalAll(info TypeInfo, t *vfC12Type, proto int, k *vfC12Kind, data []byte, stream string) (fresh, dirty, reuse vfC12Obj) {
	fresh = vfC12Unmarshal(info, t, k, data)
	if fresh["st"] == "harness" {
		return fresh, nil, nil
	}
	vfC12Salt = (vfC12Salt + 1) % 7
	if d, err := vfC12NewDest(k); err == nil {
		d.fill(vfC12Salt)
		if r := d.decode(info, t, data); !vfC12Same(fresh, r) {
			dirty = r
		}
	}
	kt, _ := json.Marshal([]interface{}{stream, vfC12TypeObj(t), proto, vfC12KindObj(k)})
	d := vfC12Reused[string(kt)]
	if d == nil {
		var err error
		if d, err = vfC12NewDest(k); err != nil {
			return fresh, dirty, nil
		}
		vfC12Reused[string(kt)] = d
	}
	if r := d.decode(info, t, data); !vfC12Same(fresh, r) {
		reuse = r
	}
	return fresh, dirty, reuse
}

// vfC12Kept: a marshalled value that stays referenced while further values are marshalled
// (hold-and-recheck: the bytes Marshal returned must still be the value's encoding later on -
// Conn.executeQuery marshals every bind value of a statement before it builds the frame).
type vfC12Kept struct {
	id    int
	info  TypeInfo
	val   reflect.Value
	data  []byte // the very slice Marshal returned
	first []byte // its content at that moment
	coll  bool
	c     *vfC12Case
}

// vfC12DecJob: one decode of the sequential run, to be repeated by many goroutines at the same moment
// (Unmarshal must not share state between calls); fresh = its sequential result.
type vfC12DecJob struct {
	id, ti int
	which  string
	info   TypeInfo
	t      *vfC12Type
	k      *vfC12Kind
	data   []byte
	fresh  string
}

var vfC12Jobs []vfC12DecJob
var vfC12JobSeq int

func vfC12ResKey(r vfC12Obj) string {
	if r["st"] != "ok" {
		return fmt.Sprint(r["st"])
	}
	js, _ := json.Marshal(r["gv"])
	return "ok" + string(js)
}

// decodes of bytes that changed after Marshal returned them (or that a later Marshal of the same value produced):
// the real Unmarshal of those bytes into every target of the case, judged like any round trip (C02)
func vfC12LaterDecs(k *vfC12Kept, b []byte) []interface{} {
	decs := []interface{}{}
	if k.c == nil || b == nil {
		return decs
	}
	for i := range k.c.Targets {
		r := vfC12Unmarshal(k.info, &k.c.T, &k.c.Targets[i].K, b)
		decs = append(decs, vfC12Obj{"i": i, "res": r})
	}
	return decs
}

func vfC12Later(id int, mode string, b []byte, err error) vfC12Obj {
	r := vfC12Obj{"later_of": id, "mode": mode}
	switch {
	case err != nil:
		r["res_later"] = vfC12Obj{"st": "err", "b": []int{}, "err": err.Error()}
	case b == nil:
		r["res_later"] = vfC12Obj{"st": "null", "b": []int{}}
	default:
		r["res_later"] = vfC12Obj{"st": "ok", "b": vfC12Ints(b)}
	}
	return r
}

func vfC12Arg(val reflect.Value) interface{} {
	if val.IsValid() && !(val.Kind() == reflect.Interface && val.IsNil()) {
		return val.Interface()
	}
	return nil
}

func vfC12RunCase(c *vfC12Case) (vfC12Obj, *vfC12Kept) {
	out := vfC12Obj{"id": c.ID}
	info, err := vfC12Info(&c.T, byte(c.P))
	if err != nil {
		out["harness"] = err.Error()
		return out, nil
	}
	val, err := vfC12Build(&c.K, &c.Gv, &c.T)
	if err != nil {
		out["harness"] = err.Error()
		return out, nil
	}
	if c.Dec != "" && c.Gv.K == "int" { // cross-check of the value mapping against TLC's decimal rendering
		if x, _ := vfC12Big(&c.Gv); x.String() != c.Dec {
			out["harness"] = "decimal rendering differs: " + x.String() + " vs " + c.Dec
			return out, nil
		}
	}
	res, data := vfC12Marshal(info, val)
	out["res"] = res
	var kept *vfC12Kept
	if res["st"] == "ok" {
		kept = &vfC12Kept{id: c.ID, info: info, val: val, data: data, first: append([]byte{}, data...), c: c,
			coll: c.T.T == "list" || c.T.T == "set" || c.T.T == "map" || c.T.T == "tuple" || c.T.T == "udt"}
	}
	var specData []byte
	switch c.Spec.St {
	case "ok":
		specData = make([]byte, len(c.Spec.B))
		copy(specData, vfC12Bytes(c.Spec.B))
	}
	decs := make([]interface{}, 0, len(c.Targets))
	for i := range c.Targets {
		k := &c.Targets[i].K
		d := vfC12Obj{"i": i}
		put := func(which string, data []byte) {
			f, dirty, reuse := vfC12UnmarshalAll(info, &c.T, c.P, k, data, which)
			d[which] = f
			// arbitrary-precision targets always, every 9th other decode: repeated concurrently later on
			vfC12JobSeq++
			kj, _ := json.Marshal(k)
			if f["st"] != "harness" && which != "spec2" && len(vfC12Jobs) < 6000 && (c.T.T == "varint" || c.T.T == "decimal" ||
				strings.Contains(string(kj), "bigint") || strings.Contains(string(kj), "\"dec\"") || vfC12JobSeq%9 == 0) {
				vfC12Jobs = append(vfC12Jobs, vfC12DecJob{id: c.ID, ti: i, which: which, info: info, t: &c.T, k: k,
					data: append([]byte(nil), data...), fresh: vfC12ResKey(f)})
				if data != nil && vfC12Jobs[len(vfC12Jobs)-1].data == nil {
					vfC12Jobs[len(vfC12Jobs)-1].data = []byte{}
				}
			}
			if dirty != nil {
				d[which+"_dirty"] = dirty
			}
			if reuse != nil {
				d[which+"_reuse"] = reuse
			}
		}
		if c.Spec.St == "ok" || c.Spec.St == "null" {
			put("spec", specData) // Unmarshal(Enc(v)), the specification's bytes
		}
		if c.Spec2.St == "ok" {
			put("spec2", append(make([]byte, 0, len(c.Spec2.B)+1), vfC12Bytes(c.Spec2.B)...)) // UDT values with absent trailing fields
		}
		if res["st"] == "ok" || res["st"] == "null" {
			put("real", data) // Unmarshal(Marshal(v)), the driver's own bytes
		}
		decs = append(decs, d)
	}
	out["decs"] = decs
	return out, kept
}

// ---------------------------------------------------------------- [short] framing limits (big values)

type vfC12BigCase struct {
	ID    int    `json:"id"`
	Form  string `json:"form"`
	P     int    `json:"p"`
	Size  int    `json:"size"`
	Count int    `json:"count"`
}

func vfC12Pattern(n int) []byte {
	b := make([]byte, n)
	for j := range b {
		b[j] = byte(j % 251)
	}
	return b
}

// vfC12RunBig builds the described value (see Gen_Cql.tla, BigSet), marshals it and reports whether it
// was refused, the total length and the first bytes of the output, and a summary of the round trip
// through the real Unmarshal (element count, equality with the input decided by Go's own comparison).
func vfC12RunBig(c *vfC12BigCase) (out vfC12Obj) {
	out = vfC12Obj{"id": c.ID}
	defer func() {
		if r := recover(); r != nil {
			out["st"] = "panic"
			out["err"] = fmt.Sprint(r)
		}
	}()
	p := byte(c.P)
	nt := func(t Type) TypeInfo { return NewNativeType(p, t, "") }
	coll := func(t Type, k, e TypeInfo) TypeInfo { return CollectionType{NativeType: NewNativeType(p, t, ""), Key: k, Elem: e} }
	big := vfC12Pattern(c.Size)
	var info TypeInfo
	var value interface{}
	var target interface{}
	var equal func() (int, bool)
	switch c.Form {
	case "list-elem":
		info = coll(TypeList, nil, nt(TypeBlob))
		in := [][]byte{big, []byte("ab")}
		var got [][]byte
		value, target = in, &got
		equal = func() (int, bool) {
			return len(got), len(got) == 2 && bytes.Equal(got[0], in[0]) && bytes.Equal(got[1], in[1])
		}
	case "set-elem":
		info = coll(TypeSet, nil, nt(TypeText))
		in := []string{string(big)}
		var got []string
		value, target = in, &got
		equal = func() (int, bool) { return len(got), len(got) == 1 && got[0] == in[0] }
	case "map-key":
		info = coll(TypeMap, nt(TypeText), nt(TypeInt))
		in := map[string]int32{string(big): 1}
		var got map[string]int32
		value, target = in, &got
		equal = func() (int, bool) { return len(got), reflect.DeepEqual(got, in) }
	case "map-val":
		info = coll(TypeMap, nt(TypeInt), nt(TypeBlob))
		in := map[int32][]byte{7: big}
		var got map[int32][]byte
		value, target = in, &got
		equal = func() (int, bool) { return len(got), reflect.DeepEqual(got, in) }
	case "list-count":
		info = coll(TypeList, nil, nt(TypeTinyInt))
		in := make([]int8, c.Count)
		for i := range in {
			in[i] = int8(i % 100)
		}
		var got []int8
		value, target = in, &got
		equal = func() (int, bool) { return len(got), reflect.DeepEqual(got, in) }
	case "set-count":
		info = coll(TypeSet, nil, nt(TypeInt))
		in := make(map[int32]struct{}, c.Count)
		for i := 0; i < c.Count; i++ {
			in[int32(i)] = struct{}{}
		}
		var got []int32
		value, target = in, &got
		equal = func() (int, bool) {
			seen := make(map[int32]struct{}, len(got))
			for _, x := range got {
				seen[x] = struct{}{}
			}
			return len(got), len(got) == len(in) && reflect.DeepEqual(seen, in)
		}
	case "map-count":
		info = coll(TypeMap, nt(TypeInt), nt(TypeTinyInt))
		in := make(map[int32]int8, c.Count)
		for i := 0; i < c.Count; i++ {
			in[int32(i)] = int8(i % 100)
		}
		var got map[int32]int8
		value, target = in, &got
		equal = func() (int, bool) { return len(got), reflect.DeepEqual(got, in) }
	default:
		out["harness"] = "unknown big form " + c.Form
		return out
	}
	b, err := Marshal(info, value)
	out["prefix"] = []int{}
	out["total"] = 0
	out["rt"] = vfC12Obj{"st": "none", "count": 0, "equal": false}
	if err != nil {
		out["st"] = "err"
		out["err"] = err.Error()
		return out
	}
	out["st"] = "ok"
	out["total"] = len(b)
	n := len(b)
	if n > 24 {
		n = 24
	}
	out["prefix"] = vfC12Ints(b[:n])
	func() {
		defer func() {
			if r := recover(); r != nil {
				out["rt"] = vfC12Obj{"st": "panic", "count": 0, "equal": false, "err": fmt.Sprint(r)}
			}
		}()
		if err := Unmarshal(info, b, target); err != nil {
			out["rt"] = vfC12Obj{"st": "err", "count": 0, "equal": false, "err": err.Error()}
			return
		}
		cnt, eq := equal()
		out["rt"] = vfC12Obj{"st": "ok", "count": cnt, "equal": eq}
	}()
	return out
}

func TestVfC12Replay(t *testing.T) {
	in, out := os.Getenv("VF_CASES"), os.Getenv("VF_RESULTS")
	if in == "" || out == "" {
		t.Skip("VF_CASES / VF_RESULTS not set")
	}
	f, err := os.Open(in)
	if err != nil {
		t.Fatal(err)
	}
	defer f.Close()
	w, err := os.Create(out)
	if err != nil {
		t.Fatal(err)
	}
	bw := bufio.NewWriterSize(w, 1<<20)
	sc := bufio.NewScanner(f)
	sc.Buffer(make([]byte, 1<<20), 1<<26)
	n, nstmt := 0, 0
	emit := func(r vfC12Obj) {
		js, err := json.Marshal(r)
		if err != nil {
			t.Fatal(err)
		}
		bw.Write(js)
		bw.WriteByte('\n')
	}
	held := []*vfC12Kept{}
	stmt := []*vfC12Kept{}
	flushStmt := func() {
		qv := make([]queryValues, len(stmt))
		errs := make([]error, len(stmt))
		for i, k := range stmt {
			func() {
				defer func() {
					if r := recover(); r != nil {
						errs[i] = fmt.Errorf("panic: %v", r)
					}
				}()
				errs[i] = marshalQueryValue(k.info, vfC12Arg(k.val), &qv[i])
			}()
		}
		for i, k := range stmt { // all values of the statement are read after the last one was marshalled
			l := vfC12Later(k.id, "statement", qv[i].value, errs[i])
			if errs[i] == nil && !bytes.Equal(qv[i].value, k.first) {
				l["decs"] = vfC12LaterDecs(k, qv[i].value)
			}
			emit(l)
			nstmt++
		}
		stmt = stmt[:0]
	}
	for sc.Scan() {
		if len(sc.Bytes()) == 0 {
			continue
		}
		c := new(vfC12Case)
		if err := json.Unmarshal(sc.Bytes(), c); err != nil {
			t.Fatalf("case %d: %v", n, err)
		}
		r, kept := vfC12RunCase(c)
		emit(r)
		n++
		if kept == nil {
			continue
		}
		held = append(held, kept)
		// the bind values of one statement: marshalQueryValue for each of them, then all are read
		stmt = append(stmt, kept)
		if len(stmt) == 4 {
			flushStmt()
		}
	}
	if err := sc.Err(); err != nil {
		t.Fatal(err)
	}
	flushStmt()
	// concurrent marshalling: a sample of the values (every collection, every 7th other value) is marshalled and
	// held by this goroutine while four others marshal the same sample over and over
	sample := []*vfC12Kept{}
	for i, k := range held {
		if (k.coll || i%7 == 0) && len(sample) < 3000 {
			sample = append(sample, k)
		}
	}
	var wg sync.WaitGroup
	stop := make(chan struct{})
	for g := 0; g < 4; g++ {
		wg.Add(1)
		go func(g int) {
			defer wg.Done()
			defer func() { recover() }()
			for round := 0; ; round++ {
				for i := range sample {
					select {
					case <-stop:
						return
					default:
					}
					k := sample[(i*7+g*13+round)%len(sample)]
					Marshal(k.info, vfC12Arg(k.val))
				}
			}
		}(g)
	}
	conc := make([]*vfC12Kept, 0, len(sample))
	for _, k := range sample {
		res, data := vfC12Marshal(k.info, k.val)
		if res["st"] == "ok" {
			conc = append(conc, &vfC12Kept{id: k.id, info: k.info, c: k.c, data: data, first: append([]byte{}, data...)})
		} else {
			emit(vfC12Later(k.id, "concurrent", nil, fmt.Errorf("%v", res["err"])))
		}
	}
	close(stop)
	wg.Wait()
	nlater := 0
	for _, k := range conc {
		// what Marshal returned while the other goroutines were marshalling, and what the slice holds now
		emit(vfC12Later(k.id, "concurrent-first", k.first, nil))
		if !bytes.Equal(k.data, k.first) {
			l := vfC12Later(k.id, "concurrent", k.data, nil)
			l["decs"] = vfC12LaterDecs(k, k.data)
			emit(l)
			nlater++
		}
	}
	// every output of the sequential run, re-read now that thousands of further values were marshalled
	for _, k := range held {
		if !bytes.Equal(k.data, k.first) {
			l := vfC12Later(k.id, "held", k.data, nil)
			l["decs"] = vfC12LaterDecs(k, k.data)
			emit(l)
			nlater++
		}
	}
	// concurrent decoding: eight goroutines repeat the recorded decodes (arbitrary-precision targets first of all:
	// negative varint / decimal / integer-into-big.Int values of different lengths) at the same moment, each into its
	// own fresh destination; a result that differs from the sequential one is reported and judged like any decode
	nconc, nconcDiff := 0, 0
	if jobs := vfC12Jobs; len(jobs) > 0 {
		rounds := 1
		if v, err := strconv.Atoi(os.Getenv("VF_CONC_DECODES")); err == nil && v > len(jobs) {
			rounds = v / len(jobs)
		}
		var mu sync.Mutex
		diffs := []vfC12Obj{}
		var dwg sync.WaitGroup
		for g := 0; g < 8; g++ {
			dwg.Add(1)
			go func(g int) {
				defer dwg.Done()
				n := 0
				for r := 0; r < rounds; r++ {
					for i := range jobs {
						j := &jobs[(i*(2*g+1)+r*31+g*17)%len(jobs)]
						d, err := vfC12NewDest(j.k)
						if err != nil {
							continue
						}
						res := d.decode(j.info, j.t, j.data)
						n++
						if vfC12ResKey(res) != j.fresh {
							mu.Lock()
							if len(diffs) < 300 {
								diffs = append(diffs, vfC12Obj{"conc_of": j.id, "i": j.ti, "which": j.which, "res": res})
							}
							nconcDiff++
							mu.Unlock()
						}
					}
				}
				mu.Lock()
				nconc += n
				mu.Unlock()
			}(g)
		}
		dwg.Wait()
		for _, d := range diffs {
			emit(d)
		}
	}
	nbig := 0
	if bigIn := os.Getenv("VF_BIG"); bigIn != "" {
		bf, err := os.Open(bigIn)
		if err != nil {
			t.Fatal(err)
		}
		bs := bufio.NewScanner(bf)
		bs.Buffer(make([]byte, 1<<20), 1<<24)
		for bs.Scan() {
			if len(bs.Bytes()) == 0 {
				continue
			}
			var c vfC12BigCase
			if err := json.Unmarshal(bs.Bytes(), &c); err != nil {
				t.Fatal(err)
			}
			r := vfC12RunBig(&c)
			r["big"] = true
			emit(r)
			nbig++
		}
		bf.Close()
	}
	bw.Flush()
	w.Close()
	fmt.Printf("VFSUMMARY {\"cases\": %d, \"held\": %d, \"statement_values\": %d, \"concurrent\": %d, \"changed_later\": %d, \"big\": %d, \"concurrent_decode_jobs\": %d, \"concurrent_decodes\": %d, \"concurrent_decodes_differing\": %d}\n",
		n, len(held), nstmt, len(conc), nlater, nbig, len(vfC12Jobs), nconc, nconcDiff)
}

// ---------------------------------------------------------------- seeded random vectors (code -> spec)

// clean: keep the inputs of the confirmed defects (DESIGN section 9) out of nested values, so that a
// nested vector that fails is never attributed to one of them by its inputs alone; scalar vectors
// (where the check verifies the defect's symptom on the output) keep them.
type vfC12Gen struct {
	r     *rand.Rand
	clean bool
}

func (g *vfC12Gen) big(maxBits int, signed bool) *big.Int {
	bits := g.r.Intn(maxBits + 1)
	x := new(big.Int)
	if bits > 0 {
		x.Rand(g.r, new(big.Int).Lsh(big.NewInt(1), uint(bits)))
	}
	switch g.r.Intn(8) { // pull towards byte boundaries and all-ones patterns
	case 0:
		x = new(big.Int).Lsh(big.NewInt(1), uint(bits))
	case 1:
		x = new(big.Int).Sub(new(big.Int).Lsh(big.NewInt(1), uint(bits)), big.NewInt(1))
	}
	if signed && g.r.Intn(2) == 0 {
		x.Neg(x)
	}
	return x
}

func vfC12AbsBig(x *big.Int) vfC12Val {
	return vfC12Val{K: "int", Neg: x.Sign() < 0, M: vfC12Ints(new(big.Int).Abs(x).Bytes())}
}

func (g *vfC12Gen) bytes(n int) []int {
	b := make([]int, n)
	for i := range b {
		switch g.r.Intn(4) {
		case 0:
			b[i] = []int{0, 1, 127, 128, 255}[g.r.Intn(5)]
		default:
			b[i] = g.r.Intn(256)
		}
	}
	return b
}

var vfC12IntKindBits = map[string]int{"um_v": 32, "um_p": 32, "int": 64, "int8": 8, "int16": 16, "int32": 32, "int64": 64, "uint": -64, "uint8": -8, "uint16": -16,
	"uint32": -32, "uint64": -64, "nint": 64, "nint8": 8, "nint16": 16, "nint32": 32, "nint64": 64, "nuint": -64, "nuint8": -8,
	"nuint16": -16, "nuint32": -32, "nuint64": -64}

func (g *vfC12Gen) intFor(kind string) vfC12Val {
	bits, ok := vfC12IntKindBits[kind]
	if !ok { // big.Int, string
		return vfC12AbsBig(g.big(130, true))
	}
	for {
		var x *big.Int
		if bits > 0 {
			x = g.big(bits, true)
			lim := new(big.Int).Lsh(big.NewInt(1), uint(bits-1))
			if x.Cmp(lim) >= 0 || x.Cmp(new(big.Int).Neg(lim)) < 0 {
				continue
			}
		} else {
			x = g.big(-bits, false)
			if x.Cmp(new(big.Int).Lsh(big.NewInt(1), uint(-bits))) >= 0 {
				continue
			}
		}
		return vfC12AbsBig(x)
	}
}

var vfC12AllIntKinds = []string{"int", "int8", "int16", "int32", "int64", "uint", "uint8", "uint16", "uint32", "uint64",
	"nint", "nint8", "nint16", "nint32", "nint64", "nuint", "nuint8", "nuint16", "nuint32", "nuint64", "bigint", "string"}

func (g *vfC12Gen) pick(xs []string) string { return xs[g.r.Intn(len(xs))] }

var vfC12ScalarKinds = map[string][]string{
	"tinyint": vfC12AllIntKinds, "smallint": vfC12AllIntKinds, "int": append(append([]string{}, vfC12AllIntKinds...), "um_v", "um_v"), "bigint": vfC12AllIntKinds,
	"counter": vfC12AllIntKinds, "varint": vfC12AllIntKinds,
	"text": {"string", "bytes"}, "ascii": {"string", "bytes"}, "varchar": {"string", "bytes"}, "blob": {"string", "bytes"},
	"boolean": {"bool"}, "float": {"float32"}, "double": {"float64"}, "decimal": {"dec"},
	"time": {"int64", "nint64", "gdur"}, "timestamp": {"int64", "nint64", "time", "time", "time_p9", "time_m5"}, "date": {"int64", "time", "time", "string", "time_p9", "time_m5"},
	"duration": {"int64", "nint64", "gdur", "cdur", "cdur", "string"}, "uuid": {"uuid", "arr16", "bytes", "string"},
	"timeuuid": {"uuid", "arr16", "bytes", "string"}, "inet": {"ip", "string"},
}

// a random value for a column of type t held in a Go value of kind k
func (g *vfC12Gen) scalarVal(t, k string) vfC12Val {
	switch t {
	case "tinyint", "smallint", "int", "bigint", "counter", "varint":
		v := g.intFor(k)
		if w, fixed := map[string]int{"tinyint": 1, "smallint": 2, "int": 4, "bigint": 8, "counter": 8}[t]; fixed && g.clean && vfC12IntKindBits[k] < 0 {
			for x, _ := vfC12Big(&v); x.BitLen() > 8*w-1; x, _ = vfC12Big(&v) {
				v = g.intFor(k)
			}
		}
		return v
	case "text", "ascii", "varchar", "blob":
		return vfC12Val{K: "bytes", B: g.bytes(g.r.Intn(12))}
	case "boolean":
		return vfC12Val{K: "bool", V: g.r.Intn(2) == 0}
	case "float":
		return vfC12Val{K: "bytes", B: g.bytes(4)}
	case "double":
		return vfC12Val{K: "bytes", B: g.bytes(8)}
	case "decimal":
		s, u := vfC12AbsBig(big.NewInt(int64(int32(g.r.Uint32())>>uint(g.r.Intn(32))))), vfC12AbsBig(g.big(140, true))
		return vfC12Val{K: "dec", Scale: &s, Unscaled: &u}
	case "time":
		return g.intFor("int64")
	case "timestamp":
		return vfC12AbsBig(g.big(50, true))
	case "date":
		if k == "string" {
			return vfC12AbsBig(big.NewInt(int64(g.r.Intn(2932896+719162) - 719162)))
		}
		return vfC12AbsBig(g.big(47, !g.clean))
	case "duration":
		if k == "cdur" {
			mo, d, ns := g.intFor("int32"), g.intFor("int32"), g.intFor("int64")
			return vfC12Val{K: "dur", Mo: &mo, D: &d, Ns: &ns}
		}
		for {
			v := g.intFor("int64")
			if k == "string" && len(v.M) == 8 && v.M[0] >= 128 {
				continue // time.Duration(math.MinInt64).String() does not parse back
			}
			return v
		}
	case "uuid", "timeuuid":
		return vfC12Val{K: "bytes", B: g.bytes(16)}
	case "inet":
		n := 4
		if g.r.Intn(2) == 0 {
			n = 16
		}
		b := g.bytes(n)
		if n == 16 && g.r.Intn(4) == 0 {
			copy(b, []int{0, 0, 0, 0, 0, 0, 0, 0, 0, 0, 255, 255})
		}
		return vfC12Val{K: "bytes", B: b}
	}
	panic("harness: no generator for " + t)
}

// a random scalar (type, kind, value); hashable: usable as a Go map key
func (g *vfC12Gen) scalar(hashable bool) (vfC12Type, vfC12Kind, vfC12Val) {
	for {
		t := g.pick([]string{"tinyint", "smallint", "int", "bigint", "counter", "varint", "varint", "text", "ascii", "varchar", "blob", "boolean",
			"float", "double", "decimal", "time", "timestamp", "timestamp", "date", "date", "duration", "duration", "uuid", "timeuuid", "inet"})
		k := g.pick(vfC12ScalarKinds[t])
		if g.clean && ((t == "duration" && k == "nint64") || ((t == "bigint" || t == "counter") && k == "bigint")) {
			k = "int64"
		}
		if hashable && (k == "bytes" || k == "bigint" || k == "ip" || k == "dec") {
			continue
		}
		if hashable && (t == "float" || t == "double") {
			continue // NaN keys cannot be looked up again
		}
		return vfC12Type{T: t}, vfC12Kind{G: k}, g.scalarVal(t, k)
	}
}

func (g *vfC12Gen) value(depth int, proto int, hashable bool) (vfC12Type, vfC12Kind, vfC12Val) {
	if depth == 0 || hashable || g.r.Intn(3) == 0 {
		t, k, v := g.scalar(hashable)
		if !hashable && g.r.Intn(6) == 0 {
			k = vfC12Kind{G: "ptr", E: &vfC12Kind{G: k.G}}
		}
		return t, k, v
	}
	choices := []string{"list", "set", "map", "setmap"}
	if proto >= 3 {
		choices = append(choices, "tuple", "tuple-struct", "udt", "udtmap")
	}
	switch c := g.pick(choices); c {
	case "list", "set":
		et, ek, _ := g.value(depth-1, proto, false)
		n := g.r.Intn(4)
		es := make([]vfC12Val, n)
		for i := range es {
			es[i] = g.like(&et, &ek, proto)
		}
		return vfC12Type{T: c, E: &et}, vfC12Kind{G: "slice", E: &ek}, vfC12Val{K: "list", Es: es}
	case "setmap":
		et, ek, _ := g.value(0, proto, true)
		es := g.distinct(&et, &ek, g.r.Intn(4), proto)
		return vfC12Type{T: "set", E: &et}, vfC12Kind{G: "setmap", E: &ek}, vfC12Val{K: "list", Es: es}
	case "map":
		kt, kk, _ := g.value(0, proto, true)
		vt, vk, _ := g.value(depth-1, proto, false)
		keys := g.distinct(&kt, &kk, g.r.Intn(4), proto)
		ps := make([]vfC12KV, len(keys))
		for i := range keys {
			ps[i] = vfC12KV{Key: keys[i], Val: g.like(&vt, &vk, proto)}
		}
		return vfC12Type{T: "map", Kt: &kt, Vt: &vt}, vfC12Kind{G: "map", Kk: &kk, Vk: &vk}, vfC12Val{K: "map", Ps: ps}
	default:
		n := 1 + g.r.Intn(3)
		ts, ks, vs := make([]vfC12Type, n), make([]vfC12Kind, n), make([]vfC12Val, n)
		for i := 0; i < n; i++ {
			ts[i], ks[i], vs[i] = g.value(depth-1, proto, false)
			if ks[i].G == "ptr" && g.r.Intn(2) == 0 && c != "tuple" {
				vs[i] = vfC12Val{K: "null"} // nil pointer field: CQL null (the []interface{} form is the known typed-nil defect)
			}
			if (ks[i].G == "slice" || ks[i].G == "map" || ks[i].G == "setmap") && false {
				vs[i] = vfC12Val{K: "null"}
			}
		}
		tt := "tuple"
		if c == "udt" || c == "udtmap" {
			tt = "udt"
		}
		kg := map[string]string{"tuple": "ifaces", "tuple-struct": "struct", "udt": "struct", "udtmap": "udtmap"}[c]
		return vfC12Type{T: tt, Es: ts}, vfC12Kind{G: kg, Es: ks}, vfC12Val{K: "tuple", Es: vs}
	}
}

// another random value of the same (type, kind) shape
func (g *vfC12Gen) like(t *vfC12Type, k *vfC12Kind, proto int) vfC12Val {
	kk := k
	if kk.G == "ptr" {
		kk = kk.E
	}
	switch t.T {
	case "list", "set", "map", "tuple", "udt":
		return g.likeNested(t, kk, proto)
	}
	return g.scalarVal(t.T, kk.G)
}

func (g *vfC12Gen) likeNested(t *vfC12Type, k *vfC12Kind, proto int) vfC12Val {
	switch t.T {
	case "list", "set":
		if k.G == "setmap" {
			return vfC12Val{K: "list", Es: g.distinct(t.E, k.E, g.r.Intn(3), proto)}
		}
		es := make([]vfC12Val, g.r.Intn(3))
		for i := range es {
			es[i] = g.like(t.E, k.E, proto)
		}
		return vfC12Val{K: "list", Es: es}
	case "map":
		keys := g.distinct(t.Kt, k.Kk, g.r.Intn(3), proto)
		ps := make([]vfC12KV, len(keys))
		for i := range keys {
			ps[i] = vfC12KV{Key: keys[i], Val: g.like(t.Vt, k.Vk, proto)}
		}
		return vfC12Val{K: "map", Ps: ps}
	default:
		vs := make([]vfC12Val, len(t.Es))
		for i := range vs {
			vs[i] = g.like(&t.Es[i], &k.Es[i], proto)
		}
		return vfC12Val{K: "tuple", Es: vs}
	}
}

func (g *vfC12Gen) distinct(t *vfC12Type, k *vfC12Kind, n int, proto int) []vfC12Val {
	seen := map[string]bool{}
	es := []vfC12Val{}
	for tries := 0; len(es) < n && tries < 50; tries++ {
		v := g.like(t, k, proto)
		s, err := vfC12String(t, &v) // two abstract values may stand for one Go key (IPv4-mapped strings)
		if err != nil {
			js, _ := json.Marshal(v)
			s = string(js)
		}
		if kk := k; t.T == "date" && v.K == "int" {
			if kk.G == "ptr" {
				kk = kk.E
			}
			if kk.G != "string" { // two instants of one day are one key of the column
				x, _ := vfC12Big(&v)
				s = new(big.Int).Div(x, big.NewInt(86400000)).String() // Euclidean = floor for a positive divisor
			}
		}
		if seen[s] {
			continue
		}
		seen[s] = true
		es = append(es, v)
	}
	return es
}

// candidate decode targets for a type: the harness proposes, the specification decides which of
// them are documented and can hold the value
func (g *vfC12Gen) targets(t *vfC12Type, k *vfC12Kind) []vfC12Kind {
	var out []vfC12Kind
	switch t.T {
	case "list", "set", "map", "tuple", "udt":
		if k.G == "slice" || k.G == "map" || k.G == "struct" || k.G == "ifaces" {
			out = append(out, *k)
		}
		if t.T == "udt" && k.G == "struct" && len(k.Es) >= 2 { // a struct that lacks one non-trailing field of the UDT
			drop := g.r.Intn(len(k.Es) - 1)
			ps := vfC12Kind{G: "pstruct", Byname: g.r.Intn(2) == 0}
			for i := range k.Es {
				if i != drop {
					ps.Es = append(ps.Es, k.Es[i])
					ps.Ix = append(ps.Ix, i+1)
				}
			}
			if g.r.Intn(2) == 0 && len(ps.Es) == 2 {
				ps.Es[0], ps.Es[1], ps.Ix[0], ps.Ix[1] = ps.Es[1], ps.Es[0], ps.Ix[1], ps.Ix[0]
			}
			out = append(out, ps)
		}
		return out
	}
	kk := k
	if kk.G == "ptr" {
		kk = kk.E
	}
	out = append(out, *kk, vfC12Kind{G: "ptr", E: kk})
	switch t.T {
	case "tinyint", "smallint", "int", "bigint", "counter", "varint":
		for i := 0; i < 4; i++ {
			out = append(out, vfC12Kind{G: g.pick(vfC12AllIntKinds)})
		}
	case "text", "ascii", "varchar", "blob":
		out = append(out, vfC12Kind{G: "string"}, vfC12Kind{G: "bytes"})
	case "timestamp":
		out = append(out, vfC12Kind{G: "int64"}, vfC12Kind{G: "time"})
	case "date":
		out = append(out, vfC12Kind{G: "time"}, vfC12Kind{G: "string"})
	case "time":
		out = append(out, vfC12Kind{G: "int64"}, vfC12Kind{G: "gdur"})
	case "duration":
		out = append(out, vfC12Kind{G: "cdur"})
	case "uuid", "timeuuid":
		out = append(out, vfC12Kind{G: "uuid"}, vfC12Kind{G: "string"}, vfC12Kind{G: "bytes"})
	case "inet":
		out = append(out, vfC12Kind{G: "ip"}, vfC12Kind{G: "string"})
	}
	return out
}

// abstract value -> JSON object without nulls (TLC's ndJsonDeserialize rejects null)
func vfC12ValObj(v *vfC12Val) vfC12Obj {
	switch v.K {
	case "int":
		m := v.M
		if m == nil {
			m = []int{}
		}
		return vfC12Obj{"k": "int", "neg": v.Neg, "m": m}
	case "bytes":
		b := v.B
		if b == nil {
			b = []int{}
		}
		return vfC12Obj{"k": "bytes", "b": b}
	case "bool":
		return vfC12Obj{"k": "bool", "v": v.V}
	case "dec":
		return vfC12Obj{"k": "dec", "scale": vfC12ValObj(v.Scale), "unscaled": vfC12ValObj(v.Unscaled)}
	case "dur":
		return vfC12Obj{"k": "dur", "mo": vfC12ValObj(v.Mo), "d": vfC12ValObj(v.D), "ns": vfC12ValObj(v.Ns)}
	case "list", "tuple":
		es := make([]interface{}, len(v.Es))
		for i := range v.Es {
			es[i] = vfC12ValObj(&v.Es[i])
		}
		return vfC12Obj{"k": v.K, "es": es}
	case "map":
		ps := make([]interface{}, len(v.Ps))
		for i := range v.Ps {
			ps[i] = vfC12Obj{"key": vfC12ValObj(&v.Ps[i].Key), "val": vfC12ValObj(&v.Ps[i].Val)}
		}
		return vfC12Obj{"k": "map", "ps": ps}
	}
	return vfC12Obj{"k": v.K}
}

func vfC12TypeObj(t *vfC12Type) vfC12Obj {
	o := vfC12Obj{"t": t.T}
	if t.E != nil {
		o["e"] = vfC12TypeObj(t.E)
	}
	if t.Kt != nil {
		o["kt"] = vfC12TypeObj(t.Kt)
		o["vt"] = vfC12TypeObj(t.Vt)
	}
	if t.T == "tuple" || t.T == "udt" {
		es := make([]interface{}, len(t.Es))
		for i := range t.Es {
			es[i] = vfC12TypeObj(&t.Es[i])
		}
		o["es"] = es
	}
	return o
}

func vfC12KindObj(k *vfC12Kind) vfC12Obj {
	o := vfC12Obj{"g": k.G}
	if k.E != nil {
		o["e"] = vfC12KindObj(k.E)
	}
	if k.Kk != nil {
		o["kk"] = vfC12KindObj(k.Kk)
		o["vk"] = vfC12KindObj(k.Vk)
	}
	if k.G == "pstruct" {
		o["ix"] = append([]int{}, k.Ix...)
		o["byname"] = k.Byname
	}
	if k.G == "struct" || k.G == "ifaces" || k.G == "udtmap" || k.G == "pstruct" {
		es := make([]interface{}, len(k.Es))
		for i := range k.Es {
			es[i] = vfC12KindObj(&k.Es[i])
		}
		o["es"] = es
	}
	if k.G == "array" {
		o["n"] = k.N
	}
	return o
}

// vfC12Vector runs Marshal on (kind, value) and Unmarshal of the real bytes into every target kind
// and returns the record TLC validates (Trace_Cql.tla).
func vfC12Vector(n int, ct *vfC12Type, ck *vfC12Kind, cv *vfC12Val, proto int, targets []vfC12Kind) (vfC12Obj, error) {
	rec, _, err := vfC12VectorHeld(n, ct, ck, cv, proto, targets)
	return rec, err
}

// vfC12VectorHeld also returns the slice Marshal returned, for the hold-and-recheck at the end of the run.
func vfC12VectorHeld(n int, ct *vfC12Type, ck *vfC12Kind, cv *vfC12Val, proto int, targets []vfC12Kind) (vfC12Obj, []byte, error) {
	info, err := vfC12Info(ct, byte(proto))
	if err != nil {
		return nil, nil, err
	}
	val, err := vfC12Build(ck, cv, ct)
	if err != nil {
		return nil, nil, err
	}
	res, data := vfC12Marshal(info, val)
	rec := vfC12Obj{"n": n, "T": vfC12TypeObj(ct), "p": proto, "K": vfC12KindObj(ck), "gv": vfC12ValObj(cv), "res": res}
	decs := []interface{}{}
	if res["st"] == "ok" || res["st"] == "null" {
		for i := range targets {
			d, dirty, reuse := vfC12UnmarshalAll(info, ct, proto, &targets[i], data, "vec")
			d["K"] = vfC12KindObj(&targets[i])
			d["mode"] = "fresh"
			decs = append(decs, d)
			for _, mode := range []string{"dirty", "reuse"} {
				x := dirty
				if mode == "reuse" {
					x = reuse
				}
				if x != nil { // same bytes into a pre-filled / long-lived destination gave something else
					x["K"] = vfC12KindObj(&targets[i])
					x["mode"] = mode
					decs = append(decs, x)
				}
			}
		}
	}
	rec["decs"] = decs
	return rec, data, nil
}

// TestVfC12Rerun re-executes given inputs (replay of a reported violation): NDJSON lines
// {T, p, K, gv, targets: [K, ...]} in, vector records out.
func TestVfC12Rerun(t *testing.T) {
	in, out := os.Getenv("VF_INPUTS"), os.Getenv("VF_VECTORS")
	if in == "" || out == "" {
		t.Skip("VF_INPUTS / VF_VECTORS not set")
	}
	f, err := os.Open(in)
	if err != nil {
		t.Fatal(err)
	}
	defer f.Close()
	w, err := os.Create(out)
	if err != nil {
		t.Fatal(err)
	}
	bw := bufio.NewWriter(w)
	sc := bufio.NewScanner(f)
	sc.Buffer(make([]byte, 1<<20), 1<<26)
	n := 0
	for sc.Scan() {
		if len(sc.Bytes()) == 0 {
			continue
		}
		var c struct {
			T       vfC12Type   `json:"T"`
			P       int         `json:"p"`
			K       vfC12Kind   `json:"K"`
			Gv      vfC12Val    `json:"gv"`
			Targets []vfC12Kind `json:"targets"`
		}
		if err := json.Unmarshal(sc.Bytes(), &c); err != nil {
			t.Fatal(err)
		}
		rec, err := vfC12Vector(n, &c.T, &c.K, &c.Gv, c.P, c.Targets)
		if err != nil {
			t.Fatalf("input %d: %v", n, err)
		}
		js, _ := json.Marshal(rec)
		bw.Write(js)
		bw.WriteByte('\n')
		n++
	}
	bw.Flush()
	w.Close()
	fmt.Printf("VFSUMMARY {\"vectors\": %d}\n", n)
}

func TestVfC12Random(t *testing.T) {
	out := os.Getenv("VF_VECTORS")
	if out == "" {
		t.Skip("VF_VECTORS not set")
	}
	seed, _ := strconv.ParseInt(os.Getenv("VF_SEED"), 10, 64)
	n, _ := strconv.Atoi(os.Getenv("VF_NVECTORS"))
	if n == 0 {
		n = 1000
	}
	g := &vfC12Gen{r: rand.New(rand.NewSource(seed))}
	type heldVec struct {
		n           int
		rec         vfC12Obj
		data, first []byte
	}
	held := []heldVec{}
	w, err := os.Create(out)
	if err != nil {
		t.Fatal(err)
	}
	bw := bufio.NewWriterSize(w, 1<<20)
	written := 0
	for i := 0; written < n && i < 20*n; i++ {
		proto := []int{1, 2, 3, 4, 5}[g.r.Intn(5)]
		depth := []int{0, 0, 1, 1, 2}[g.r.Intn(5)]
		g.clean = depth > 0
		ct, ck, cv := g.value(depth, proto, false)
		rec, data, err := vfC12VectorHeld(written, &ct, &ck, &cv, proto, g.targets(&ct, &ck))
		if err != nil {
			continue // e.g. two abstract keys that collapse into one Go key
		}
		js, err := json.Marshal(rec)
		if err != nil {
			t.Fatal(err)
		}
		bw.Write(js)
		bw.WriteByte('\n')
		if data != nil {
			held = append(held, heldVec{n: written, rec: rec, data: data, first: append([]byte{}, data...)})
		}
		written++
	}
	// hold-and-recheck: every vector's bytes are read again after all later values were marshalled; a vector
	// whose bytes changed is recorded once more (with the later bytes) and judged by TLC like the first
	changed := 0
	for _, h := range held {
		if bytes.Equal(h.data, h.first) {
			continue
		}
		later := vfC12Obj{"n": 1000000 + h.n, "later_of": h.n, "mode": "held", "T": h.rec["T"], "p": h.rec["p"], "K": h.rec["K"], "gv": h.rec["gv"],
			"res": vfC12Obj{"st": "ok", "b": vfC12Ints(h.data)}, "decs": []interface{}{}}
		js, _ := json.Marshal(later)
		bw.Write(js)
		bw.WriteByte('\n')
		changed++
	}
	bw.Flush()
	w.Close()
	fmt.Printf("VFSUMMARY {\"vectors\": %d, \"held\": %d, \"changed_later\": %d}\n", written, len(held), changed)
}
