package gocql

// Verification harness for property C16 (the driver's picture of the cluster follows what the
// cluster reports).  Executes histories produced by TLC from spec/Cluster.tla against a real
// Session over the scripted cluster of harness/common and records, after every step, the
// projection of the real ring / pool / policy state as one NDJSON line.  The Go side is glue:
// the expected states that come with a history are used only to decide how long to wait for
// quiescence; the verdict is TLC's (spec/Trace_Cluster.tla) on the recorded trace.

import (
	"bufio"
	"context"
	"encoding/json"
	"fmt"
	"net"
	"os"
	"runtime"
	"sort"
	"strings"
	"sync"
	"sync/atomic"
	"testing"
	"time"
)

// ---------------------------------------------------------------- names

// abstract names of the specification <-> concrete values of the scripted cluster
// aK: the address clients connect to (a scripted node listens there); bK: the node-to-node
// (peer / broadcast) address of a multi-homed node, nothing listens there; cK / l0: the
// preferred_ip of host iK / the listen_address of the control node (never an index key, never
// dialed - decoys that every lookup probes).
func vfC16IP(a string) string {
	net3 := map[byte]string{'a': "10.0.0.", 'b': "10.1.0.", 'c': "10.2.0.", 'l': "10.3.0."}[a[0]]
	if a[1:] == "0" {
		return net3 + "100"
	}
	return net3 + a[1:]
}

func vfC16UUID(i string) string {
	n := 0
	fmt.Sscanf(strings.TrimPrefix(i, "i"), "%d", &n)
	return fmt.Sprintf("00000000-0000-0000-0000-%012d", 100+n)
}

type vfC16Names struct {
	addrOf map[string]string // ip -> abstract
	idOf   map[string]string // uuid -> abstract
	addrs  []string          // connect addresses (one scripted node each)
	probe  []string          // every address a lookup by address is tried with
	ids    []string
}

func vfC16NewNames(nIds, nAddrs int) *vfC16Names {
	n := &vfC16Names{addrOf: map[string]string{}, idOf: map[string]string{}}
	for k := 0; k <= nAddrs; k++ {
		a := fmt.Sprintf("a%d", k)
		n.addrs = append(n.addrs, a)
		n.addrOf[vfC16IP(a)] = a
		b := fmt.Sprintf("b%d", k)
		n.probe = append(n.probe, a, b)
		n.addrOf[vfC16IP(b)] = b
	}
	n.probe = append(n.probe, "l0")
	n.addrOf[vfC16IP("l0")] = "l0"
	for k := 0; k <= nIds; k++ {
		c := fmt.Sprintf("c%d", k)
		n.probe = append(n.probe, c)
		n.addrOf[vfC16IP(c)] = c
	}
	for k := 0; k <= nIds; k++ {
		i := fmt.Sprintf("i%d", k)
		n.ids = append(n.ids, i)
		n.idOf[vfC16UUID(i)] = i
	}
	return n
}

func (n *vfC16Names) A(ip net.IP) string {
	if ip == nil {
		return "nil"
	}
	if a, ok := n.addrOf[ip.String()]; ok {
		return a
	}
	return ip.String()
}

func (n *vfC16Names) I(uuid string) string {
	if i, ok := n.idOf[uuid]; ok {
		return i
	}
	if uuid == "" {
		return "empty"
	}
	return uuid
}

// ---------------------------------------------------------------- scenario format

type vfC16Row struct {
	ID   string `json:"id"`
	Addr string `json:"addr"` // rpc_address
	Peer string `json:"peer"` // peer (node-to-node address); "" = same as Addr
	Inv  string `json:"inv"`  // ok | notokens | norack | nodc | nohostid | norpc
}

type vfC16HA struct {
	ID   string `json:"id"`
	Addr string `json:"addr"`
	N2N  string `json:"n2n"`
}

type vfC16Ev struct {
	Kind string `json:"kind"` // UP | DOWN | NEW_NODE | REMOVED_NODE
	Addr string `json:"addr"`
}

type vfC16PA struct {
	ID   string `json:"id"`
	Addr string `json:"addr"`
}

type vfC16Host struct {
	ID   string `json:"id"`
	Addr string `json:"addr"`
	N2N  string `json:"n2n"`
	Up   bool   `json:"up"`
}

// vfC16Exp is the model's driver state after a step (used as the waiting criterion only).
type vfC16Exp struct {
	Hosts     []vfC16HA `json:"hosts"`
	ByAddr    []vfC16PA `json:"byaddr"`
	Pool      []string  `json:"pool"`
	Pol       []string  `json:"pol"`
	Down      []string  `json:"down"`
	Refreshes int       `json:"refreshes"`
}

type vfC16Step struct {
	Op   string     `json:"op"` // refresh | events | nodefail | noderecover | ctllost | burst
	Rows []vfC16Row `json:"rows"`
	Fail string     `json:"fail"` // none | local | peers
	Evs  []vfC16Ev  `json:"evs"`
	Addr string     `json:"addr"`
	Ov   string     `json:"ov"` // "" | handler | peers: this step happens while the previous one is held there
	Exp  *vfC16Exp  `json:"exp,omitempty"`
}

type vfC16Scenario struct {
	N     int         `json:"n"`
	Mode  string      `json:"mode"` // direct | wire
	NIds  int         `json:"nids"`
	NAddr int         `json:"naddrs"`
	Filt  []string    `json:"filt"`
	C0    string      `json:"c0peer"` // broadcast_address of the control node: a0 (default) or b0
	Pol   string      `json:"policy"` // rr (default) | ta-rr | ta-dc: token aware over round robin / DC aware, session keyspace "ks"
	Init  []vfC16Row  `json:"init"`
	Exp0  *vfC16Exp   `json:"exp0,omitempty"`
	Steps []vfC16Step `json:"steps"`
}

// vfC16Rec is one line of the recorded trace.
type vfC16Rec struct {
	Sc        int         `json:"sc"`
	K         int         `json:"k"`
	Mode      string      `json:"mode"`
	Op        string      `json:"op"`
	Rows      []vfC16Row  `json:"rows"`
	Fail      string      `json:"fail"`
	Evs       []vfC16Ev   `json:"evs"`
	Addr      string      `json:"addr"`
	Filt      []string    `json:"filt"`
	C0        string      `json:"c0peer"`
	Policy    string      `json:"policy"`
	Ov        string      `json:"ov"`
	Held      bool        `json:"held"` // the step was still in progress (held) when the next one happened: no state to judge
	Hosts     []vfC16Host `json:"hosts"`
	ByID      []vfC16HA   `json:"byid"`
	ByAddr    []vfC16PA   `json:"byaddr"`
	HList     []string    `json:"hlist"`
	Pool      []vfC16PA   `json:"pool"`
	Pol       []vfC16PA   `json:"pol"`
	Served    []string    `json:"served"`
	Refreshes int         `json:"refreshes"`
	Err       string      `json:"err"`
	Panic     string      `json:"panic"`
	UpCalls   []string    `json:"upcalls"` // hosts the policy was told "up" for during the step while their node was not answering
	Stuck     string      `json:"stuck"`   // "" | what the goroutines' stacks show about a call that cannot return
	Waited    int         `json:"waited_ms"`
	Matched   bool        `json:"matched"`
}

// ---------------------------------------------------------------- world

type vfC16World struct {
	sc        *vfC16Scenario
	names     *vfC16Names
	cl        *vfCluster
	nodes     map[string]*vfNode // by abstract address
	dialer    *vfDialer
	s         *Session
	peersQ    int64 // system.peers queries seen by the control node
	served    sync.Map
	qseq      int64
	filt      map[string]bool
	cut       []*Conn // connections the current step has cut from the node side: quiescence needs the driver to have noticed
	mismatch  bool    // a step ended in a state other than the one that came with the history
	stalled   bool    // the session was still busy at the hard limit of a wait
	tmu       sync.Mutex
	truth     []vfC16Row // what the control node reports in system.peers
	fail      string     // none | local | peers
	schema    string     // ok | error | norows: how the keyspace metadata query is answered
	pol       HostSelectionPolicy
	debounced int32 // direct mode: a debounced ring refresh has been requested
	spawns    int64 // successful pool connects (each one starts a handleNodeConnected goroutine)
	hostUps   int64 // HostUp calls that reached the policy (end of handleNodeConnected)
	fills     int64 // pool fills under way (hooks p_fill_begin / p_fill_end)

	// wire mode: what the driver's debouncers are doing (hooks, wrapped callbacks), so that
	// quiescence is observed and steps can be placed inside a flush / a refresh
	evPending   int32 // events debounced and not yet flushed
	evQueued    int64 // e_debounce hooks seen
	handlers    int32 // event handlers started by a flush and not finished
	rfArmed     int32 // refresh debounce timer armed / refreshNow requested, not yet picked up by the flusher
	rfSince     int64 // tick of the last arming
	rfQueued    int64 // d_debounce + d_refresh_now hooks seen
	refreshing  int32 // the refresh function is running
	calls       int32 // Session.refreshRing calls of the harness that have not returned
	lost        bool  // a request for a refresh was never served (see quiet)
	holdMu      sync.Mutex
	holdHandler chan struct{} // non-nil: the next node event handler parks before it reads its frames
	handlerHeld chan struct{}
	parked      bool
	noBeat      int32 // the control connection's heartbeat does not get through (its period "has not elapsed yet")
	stuck       string
	upCalls     []string
	async       bool // refresh steps do not wait for the call to return (set while a step is held)
	holdPeers   bool // the next system.peers answer is withheld (after the rows have been read)
	peersHeld   chan struct{}
	heldReply   func()
}

// vfC16Dialer is the schedule control for the control connection's heartbeat, which has no hook:
// while noBeat is set, a dial made from the heartbeat goroutine is refused, i.e. the session behaves
// as if the heartbeat's period had not elapsed yet; every other dial (pools, a reconnection started
// by anybody else) goes through.
type vfC16Dialer struct {
	inner *vfDialer
	w     *vfC16World
}

func (d *vfC16Dialer) DialHost(ctx context.Context, host *HostInfo) (*DialedHost, error) {
	if atomic.LoadInt32(&d.w.noBeat) == 1 {
		buf := make([]byte, 8192)
		if st := string(buf[:runtime.Stack(buf, false)]); strings.Contains(st, "controlConn).heartBeat") {
			return nil, &net.OpError{Op: "dial", Net: "tcp", Err: fmt.Errorf("vf: not yet")}
		}
	}
	return d.inner.DialHost(ctx, host)
}

// vfC16Policy wraps the round-robin policy to see when the session's asynchronous
// handleNodeConnected calls have finished (quiescence), nothing else.
type vfC16Policy struct {
	HostSelectionPolicy
	w *vfC16World
}

func (p *vfC16Policy) Init(s *Session) {
	vfC16Worlds.Store(s, p.w)
	p.HostSelectionPolicy.Init(s)
}

func (p *vfC16Policy) HostUp(h *HostInfo) {
	if n := p.w.dialer.Node(h.ConnectAddress().String()); n != nil {
		n.mu.Lock()
		down := n.Down
		n.mu.Unlock()
		if down {
			p.w.tmu.Lock()
			p.w.upCalls = append(p.w.upCalls, p.w.names.I(h.HostID()))
			p.w.tmu.Unlock()
		}
	}
	p.HostSelectionPolicy.HostUp(h)
	atomic.AddInt64(&p.w.hostUps, 1)
}

var (
	vfC16Worlds     sync.Map // *Session -> *vfC16World
	vfC16Debouncers sync.Map // *refreshDebouncer -> *vfC16World
	vfC16Scope      *vfScope
	vfC16ScopeOnce  sync.Once
	vfC16Events     int64
)

// vfC16Ticks counts 10 ms sleeps of a goroutine of this process: the clock for "this should have
// happened by now" (a process that gets no CPU does not tick either).
var vfC16Ticks int64

// vfC16InstallScope routes the pool / debouncer hooks of every scenario of this process.
func vfC16InstallScope() {
	vfC16ScopeOnce.Do(func() {
		go func() {
			for {
				time.Sleep(10 * time.Millisecond)
				atomic.AddInt64(&vfC16Ticks, 1)
			}
		}()
		sc := vfNewScope()
		trim := func() {
			if atomic.AddInt64(&vfC16Events, 1)%4096 == 0 {
				sc.tr.mu.Lock()
				sc.tr.evs = nil
				sc.tr.mu.Unlock()
			}
		}
		sc.OnConn = func(point string, c *Conn, call *callReq, a, b int, err error) { trim() }
		sc.OnEvent = func(point string, obj interface{}, str string, a int, err error) {
			trim()
			switch point {
			case "p_connect_add", "p_connect_late":
				if p, ok := obj.(*hostConnPool); ok {
					if w, ok := vfC16Worlds.Load(p.session); ok {
						atomic.AddInt64(&w.(*vfC16World).spawns, 1)
					}
				}
			case "p_fill_begin", "p_fill_end":
				// fills under way, also those of pools the session has already dropped (a fill
				// that fails reports its address as down after the pool is gone)
				if p, ok := obj.(*hostConnPool); ok {
					if w, ok := vfC16Worlds.Load(p.session); ok {
						if point == "p_fill_begin" {
							atomic.AddInt64(&w.(*vfC16World).fills, 1)
						} else {
							atomic.AddInt64(&w.(*vfC16World).fills, -1)
						}
					}
				}
			case "d_debounce", "d_refresh_now":
				if v, ok := vfC16Debouncers.Load(obj); ok {
					w := v.(*vfC16World)
					if point == "d_debounce" {
						atomic.StoreInt32(&w.debounced, 1)
					}
					atomic.StoreInt64(&w.rfSince, atomic.LoadInt64(&vfC16Ticks))
					atomic.StoreInt32(&w.rfArmed, 1)
					atomic.AddInt64(&w.rfQueued, 1)
				}
			case "d_flusher_refresh":
				if v, ok := vfC16Debouncers.Load(obj); ok {
					w := v.(*vfC16World)
					atomic.StoreInt32(&w.refreshing, 1)
					atomic.StoreInt32(&w.rfArmed, 0)
				}
			case "e_debounce":
				if v, ok := vfC16Debouncers.Load(obj); ok {
					w := v.(*vfC16World)
					atomic.StoreInt32(&w.evPending, 1)
					atomic.AddInt64(&w.evQueued, 1)
				}
			case "e_flush":
				if v, ok := vfC16Debouncers.Load(obj); ok && a > 0 {
					w := v.(*vfC16World)
					atomic.AddInt32(&w.handlers, 1)
					atomic.StoreInt32(&w.evPending, 0)
				}
			}
		}
		vfC16Scope = sc
		vfDefault.Store(sc)
	})
}

// pendingUps: handleNodeConnected goroutines that have been started and have not finished.
func (w *vfC16World) pendingUps() int64 {
	return atomic.LoadInt64(&w.spawns) - atomic.LoadInt64(&w.hostUps)
}

var vfC16Tokens = map[string][]string{}

// The control node answers system.local / system.peers itself (not the default handler of
// harness/common, whose hosts have a single address): every row carries its own rpc_address,
// peer / broadcast_address and preferred_ip / listen_address.
var vfC16LocalCols = []vfCol{
	{"key", vfTVarchar}, {"cluster_name", vfTVarchar}, {"data_center", vfTVarchar}, {"rack", vfTVarchar},
	{"host_id", vfTUUID}, {"release_version", vfTVarchar}, {"partitioner", vfTVarchar},
	{"rpc_address", vfTInet}, {"broadcast_address", vfTInet}, {"listen_address", vfTInet}, {"tokens", vfTSet}, {"schema_version", vfTUUID},
}

var vfC16PeerCols = []vfCol{
	{"peer", vfTInet}, {"data_center", vfTVarchar}, {"rack", vfTVarchar}, {"host_id", vfTUUID},
	{"release_version", vfTVarchar}, {"rpc_address", vfTInet}, {"preferred_ip", vfTInet}, {"tokens", vfTSet}, {"schema_version", vfTUUID},
}

// Host iK owns exactly the token of the routing key "key-iK" (computed with the partitioner the
// session uses - set-up, not an expectation): a query routed with that key has iK as its first
// replica, so the routed queries cover every host's range.
func vfC16Key(id string) []byte { return []byte("key-" + id) }

func vfC16Token(id string) string {
	return murmur3Partitioner{}.Hash(vfC16Key(id)).String()
}

// vfC16KeyspaceBody: RESULT/Rows of "SELECT durable_writes, replication FROM system_schema.keyspaces
// WHERE keyspace_name = ?" (boolean, map<varchar, varchar>); nil = no such keyspace.
func vfC16KeyspaceBody(repl [][2]string) []byte {
	w := &vfW{}
	w.Int(2).Int(0x01).Int(2).String("system_schema").String("keyspaces")
	w.String("durable_writes").Short(vfTBoolean)
	w.String("replication").Short(0x0021).Short(vfTVarchar).Short(vfTVarchar)
	if repl == nil {
		return w.Int(0).b
	}
	m := &vfW{}
	m.Int(int32(len(repl)))
	for _, kv := range repl {
		m.Bytes([]byte(kv[0])).Bytes([]byte(kv[1]))
	}
	return w.Int(1).Bytes([]byte{1}).Bytes(m.b).b
}

func vfC16Num(id string) int {
	n := 0
	fmt.Sscanf(strings.TrimPrefix(id, "i"), "%d", &n)
	return n
}

func (w *vfC16World) setTruth(rows []vfC16Row) {
	w.tmu.Lock()
	w.truth = append([]vfC16Row(nil), rows...)
	w.tmu.Unlock()
}

func (w *vfC16World) setFail(f string) {
	w.tmu.Lock()
	w.fail = f
	w.tmu.Unlock()
}

// schemaTables: the driver reads the schema tables with prepared statements ("... WHERE
// keyspace_name = ?"): PREPARE is answered with varchar bind markers, EXECUTE of the keyspaces
// query with the replication of keyspace "ks" - or an error / no row while the keyspace metadata
// is unavailable; the other schema tables are empty (default: void).
func (w *vfC16World) schemaTables(nc *vfNodeConn, f *vfFrame, q *vfRequest) bool {
	isSchema := func(s string) bool {
		l := strings.ToLower(s)
		return strings.Contains(l, "system_schema.") || strings.Contains(l, "system.schema_")
	}
	if f.Op == vfOpPrepare {
		if !isSchema(q.Stmt) {
			return false
		}
		b := &vfW{}
		b.Int(4).ShortBytes([]byte("id:" + q.Stmt))
		n := strings.Count(q.Stmt, "?")
		b.Int(0x01).Int(int32(n))
		if f.Version >= 4 {
			b.Int(0)
		}
		b.String("system_schema").String("t")
		for i := 0; i < n; i++ {
			b.String(fmt.Sprintf("p%d", i)).Short(vfTVarchar)
		}
		b.Int(0x01).Int(0).String("system_schema").String("t")
		nc.Reply(f, vfOpResult, b.b)
		return true
	}
	id := strings.ToLower(string(q.PreparedID))
	if !strings.Contains(id, "system_schema.keyspaces") && !strings.Contains(id, "system.schema_keyspaces") {
		return false
	}
	w.tmu.Lock()
	mode := w.schema
	w.tmu.Unlock()
	switch mode {
	case "error":
		nc.Reply(f, vfOpError, vfErrorBody(0x0000, "vf: schema tables unavailable", nil))
	case "norows":
		nc.Reply(f, vfOpResult, vfC16KeyspaceBody(nil))
	default:
		nc.Reply(f, vfOpResult, vfC16KeyspaceBody([][2]string{{"class", "org.apache.cassandra.locator.SimpleStrategy"}, {"replication_factor", "2"}}))
	}
	return true
}

// systemTables answers the control node's system.local / system.peers queries.
func (w *vfC16World) systemTables(nc *vfNodeConn, f *vfFrame, stmt string) bool {
	low := strings.ToLower(stmt)
	w.tmu.Lock()
	rows, fail := append([]vfC16Row(nil), w.truth...), w.fail
	w.tmu.Unlock()
	inet := func(a string) []byte { return vfCellInet(net.ParseIP(vfC16IP(a))) }
	const part, ver = "org.apache.cassandra.dht.Murmur3Partitioner", "3.11.4"
	switch {
	case strings.Contains(low, "schema_version from system.local"):
		// second half of the driver's wait for schema agreement (after a schema event); the
		// system.peers query just before it was not a ring refresh
		atomic.AddInt64(&w.peersQ, -1)
		nc.Reply(f, vfOpResult, vfRowsBody(f.Version, "system", "local", []vfCol{{"schema_version", vfTUUID}},
			[][][]byte{{vfCellUUID(vfSchemaVersion)}}, nil, false))
		return true
	case strings.Contains(low, "system.local"):
		if fail == "local" {
			nc.Reply(f, vfOpError, vfErrorBody(0x0000, "vf: local unavailable", nil))
			return true
		}
		c0 := w.sc.C0
		if c0 == "" {
			c0 = "a0"
		}
		row := [][]byte{vfCellText("local"), vfCellText("vf"), vfCellText("dc1"), vfCellText("r1"),
			vfCellUUID(vfMustUUID(vfC16UUID("i0"))), vfCellText(ver), vfCellText(part),
			inet("a0"), inet(c0), inet("l0"), vfSetCell(f.Version, []string{vfC16Token("i0")}), vfCellUUID(vfSchemaVersion)}
		nc.Reply(f, vfOpResult, vfRowsBody(f.Version, "system", "local", vfC16LocalCols, [][][]byte{row}, nil, false))
		return true
	case strings.Contains(low, "system.peers_v2"):
		nc.Reply(f, vfOpError, vfErrorBody(0x2200, "unconfigured table peers_v2", nil))
		return true
	case strings.Contains(low, "system.peers"):
		if fail == "peers" {
			nc.Reply(f, vfOpError, vfErrorBody(0x0000, "vf: peers unavailable", nil))
			return true
		}
		var out [][][]byte
		for _, r := range rows {
			peer := r.Peer
			if peer == "" {
				peer = r.Addr
			}
			n := vfC16Num(r.ID)
			row := [][]byte{inet(peer), vfCellText("dc1"), vfCellText("r1"), vfCellUUID(vfMustUUID(vfC16UUID(r.ID))),
				vfCellText(ver), inet(r.Addr), inet(fmt.Sprintf("c%d", n)), vfSetCell(f.Version, []string{vfC16Token(r.ID)}), vfCellUUID(vfSchemaVersion)}
			switch r.Inv {
			case "nodc":
				row[1] = nil
			case "norack":
				row[2] = nil
			case "nohostid":
				row[3] = nil
			case "norpc":
				row[5] = nil
			case "notokens":
				row[7] = nil
			}
			out = append(out, row)
		}
		body := vfRowsBody(f.Version, "system", "peers", vfC16PeerCols, out, nil, false)
		w.holdMu.Lock()
		if w.holdPeers {
			// the rows have been read; the answer is delivered when the harness says so
			w.holdPeers = false
			w.heldReply = func() { nc.Reply(f, vfOpResult, body) }
			close(w.peersHeld)
			w.holdMu.Unlock()
			return true
		}
		w.holdMu.Unlock()
		nc.Reply(f, vfOpResult, body)
		return true
	}
	return false
}

func vfC16NewWorld(sc *vfC16Scenario) (*vfC16World, error) {
	w := &vfC16World{sc: sc, names: vfC16NewNames(sc.NIds, sc.NAddr), nodes: map[string]*vfNode{}, filt: map[string]bool{}}
	w.cl = &vfCluster{Partitioner: "org.apache.cassandra.dht.Murmur3Partitioner", Version: "3.11.4"}
	w.cl.Set([]vfHostDesc{{ID: vfC16UUID("i0"), Addr: vfC16IP("a0"), DC: "dc1", Rack: "r1", Tokens: []string{"1000"}}})
	w.fail = "none"
	w.setTruth(sc.Init)
	var nodes []*vfNode
	for _, a := range w.names.addrs {
		a := a
		// every node's own description is the control node's id only for a0; the others never
		// serve as control node (system.local is refused there, see below)
		n := vfNewNode(w.cl, vfHostDesc{ID: vfC16UUID("i0"), Addr: vfC16IP(a), DC: "dc1", Rack: "r1", Tokens: []string{"1000"}})
		if a == "a0" {
			n.OnFrame = func(nc *vfNodeConn, f *vfFrame, q *vfRequest) {
				if f.Op == vfOpQuery && q != nil && strings.Contains(q.Stmt, "system.peers") {
					atomic.AddInt64(&w.peersQ, 1)
				}
			}
		}
		n.Handler = func(nc *vfNodeConn, f *vfFrame, q *vfRequest) bool {
			if a == "a0" && q != nil && (f.Op == vfOpPrepare || f.Op == vfOpExecute) {
				return w.schemaTables(nc, f, q)
			}
			if f.Op != vfOpQuery || q == nil {
				return false
			}
			if strings.HasPrefix(q.Stmt, "LIST vf") {
				w.served.Store(a, true)
				return false
			}
			if a != "a0" && strings.Contains(q.Stmt, "system.local") {
				nc.Reply(f, vfOpError, vfErrorBody(0x0000, "vf: this node does not act as control node", nil))
				return true
			}
			if a == "a0" {
				return w.systemTables(nc, f, q.Stmt)
			}
			return false
		}
		w.nodes[a] = n
		nodes = append(nodes, n)
	}
	w.dialer = vfNewDialer(nodes...)
	cfg := vfClusterConfig(w.dialer, 4, vfC16IP("a0"))
	cfg.HostDialer = &vfC16Dialer{inner: w.dialer, w: w}
	vfC16InstallScope()
	var inner HostSelectionPolicy
	switch sc.Pol {
	case "ta-rr":
		inner = TokenAwareHostPolicy(RoundRobinHostPolicy())
		cfg.Keyspace = "ks"
	case "ta-dc":
		inner = TokenAwareHostPolicy(DCAwareRoundRobinPolicy("dc1"))
		cfg.Keyspace = "ks"
	default:
		inner = RoundRobinHostPolicy()
	}
	w.pol = &vfC16Policy{HostSelectionPolicy: inner, w: w}
	cfg.PoolConfig.HostSelectionPolicy = w.pol
	cfg.ReconnectionPolicy = &ConstantReconnectionPolicy{MaxRetries: 1, Interval: 0}
	cfg.Timeout = 15 * time.Second // a slow machine (or a withheld answer) must not look like a failing refresh
	cfg.ConnectTimeout = 5 * time.Second
	for _, a := range sc.Filt {
		w.filt[vfC16IP(a)] = true
	}
	if len(sc.Filt) > 0 {
		filt := w.filt
		cfg.HostFilter = HostFilterFunc(func(h *HostInfo) bool { return !filt[h.ConnectAddress().String()] })
	}
	s, err := NewSession(*cfg)
	if err != nil {
		return nil, err
	}
	w.s = s
	if sc.Mode == "direct" {
		// Breadth: the same refresh function behind a debouncer whose interval never elapses
		// during a scenario; the harness lets the interval "elapse" itself, right after the
		// batch of events that asked for the refresh has been handled (refreshNow), which is
		// the order the 1 s intervals of the driver produce.  The real intervals are
		// exercised by the wire-mode scenarios.
		old := s.ringRefresher
		nd := newRefreshDebouncer(time.Hour, func() error { return refreshRing(s.hostSource) })
		vfC16Debouncers.Store(nd, w)
		s.ringRefresher = nd
		vfWithin(2*time.Second, old.stop)
	} else {
		// wire mode: the driver's own debouncers, observed through their hooks; the handlers and
		// the refresh function are wrapped to see them end (and to park a handler on request)
		vfC16Debouncers.Store(s.ringRefresher, w)
		vfC16Debouncers.Store(s.nodeEvents, w)
		vfC16Debouncers.Store(s.schemaEvents, w)
		rf := s.ringRefresher.refreshFn
		s.ringRefresher.refreshFn = func() error {
			defer atomic.StoreInt32(&w.refreshing, 0)
			return rf()
		}
		ncb := s.nodeEvents.callback
		s.nodeEvents.callback = func(frames []frame) {
			defer atomic.AddInt32(&w.handlers, -1)
			w.holdMu.Lock()
			hold, held := w.holdHandler, w.handlerHeld
			if hold != nil && w.parked {
				hold = nil
			}
			if hold != nil {
				w.parked = true
			}
			w.holdMu.Unlock()
			if hold != nil {
				close(held)
				<-hold
			}
			ncb(frames)
		}
		scb := s.schemaEvents.callback
		s.schemaEvents.callback = func(frames []frame) {
			defer atomic.AddInt32(&w.handlers, -1)
			scb(frames)
		}
	}
	return w, nil
}

func (w *vfC16World) close() {
	vfWithin(3*time.Second, w.s.Close)
	w.release()
	vfC16Debouncers.Delete(w.s.ringRefresher)
	vfC16Debouncers.Delete(w.s.nodeEvents)
	vfC16Debouncers.Delete(w.s.schemaEvents)
	vfC16Worlds.Delete(w.s)
	for _, n := range w.nodes {
		n.CloseAll()
	}
}

// ---------------------------------------------------------------- projection

func (w *vfC16World) project(withQueries bool) *vfC16Rec {
	s, nm := w.s, w.names
	r := &vfC16Rec{Hosts: []vfC16Host{}, ByID: []vfC16HA{}, ByAddr: []vfC16PA{}, HList: []string{}, Pool: []vfC16PA{}, Pol: []vfC16PA{}, Served: []string{}, UpCalls: []string{}}
	w.tmu.Lock()
	r.UpCalls = append(r.UpCalls, w.upCalls...)
	w.tmu.Unlock()
	sort.Strings(r.UpCalls)
	for _, h := range s.ring.allHosts() {
		r.Hosts = append(r.Hosts, vfC16Host{ID: nm.I(h.HostID()), Addr: nm.A(h.ConnectAddress()), N2N: nm.A(h.nodeToNodeAddress()), Up: h.IsUp()})
	}
	sort.Slice(r.Hosts, func(i, j int) bool { return r.Hosts[i].ID < r.Hosts[j].ID })
	// lookup by id: every id of the universe and every id the ring lists
	uuids, seen := []string{}, map[string]bool{}
	for _, i := range nm.ids {
		uuids = append(uuids, vfC16UUID(i))
	}
	for _, h := range s.ring.allHosts() {
		uuids = append(uuids, h.HostID())
	}
	for _, u := range uuids {
		if seen[u] {
			continue
		}
		seen[u] = true
		if h := s.ring.getHost(u); h != nil {
			r.ByID = append(r.ByID, vfC16HA{ID: nm.I(u), Addr: nm.A(h.ConnectAddress()), N2N: nm.A(h.nodeToNodeAddress())})
		}
	}
	sort.Slice(r.ByID, func(i, j int) bool { return r.ByID[i].ID < r.ByID[j].ID })
	// lookup by address: every address any host has or had (connect, node-to-node, preferred, listen)
	for _, a := range nm.probe {
		if h, ok := s.ring.getHostByIP(vfC16IP(a)); ok {
			id := "none"
			if h != nil {
				id = nm.I(h.HostID())
			}
			r.ByAddr = append(r.ByAddr, vfC16PA{ID: id, Addr: a})
		}
	}
	s.ring.mu.RLock()
	for _, h := range s.ring.hostList {
		r.HList = append(r.HList, nm.I(h.HostID()))
	}
	s.ring.mu.RUnlock()
	s.pool.mu.RLock()
	for id, p := range s.pool.hostConnPools {
		r.Pool = append(r.Pool, vfC16PA{ID: nm.I(id), Addr: nm.A(p.host.ConnectAddress())})
	}
	s.pool.mu.RUnlock()
	sort.Slice(r.Pool, func(i, j int) bool { return r.Pool[i].ID < r.Pool[j].ID })
	// the hosts the selection policy offers: every host of the query plans (Pick) of a query
	// without routing key and of one query routed into every host's token range
	offered := map[vfC16PA]bool{}
	plan := func(q ExecutableQuery) {
		next := w.pol.Pick(q)
		for i := 0; i < 64; i++ {
			sh := next()
			if sh == nil || sh.Info() == nil {
				break
			}
			offered[vfC16PA{ID: nm.I(sh.Info().HostID()), Addr: nm.A(sh.Info().ConnectAddress())}] = true
		}
	}
	plan(nil)
	if w.sc.Pol != "rr" {
		for _, i := range nm.ids {
			q := w.s.Query("LIST vf").RoutingKey(vfC16Key(i))
			plan(q)
			q.Release()
		}
	}
	for pa := range offered {
		r.Pol = append(r.Pol, pa)
	}
	sort.Slice(r.Pol, func(i, j int) bool {
		return r.Pol[i].ID < r.Pol[j].ID || (r.Pol[i].ID == r.Pol[j].ID && r.Pol[i].Addr < r.Pol[j].Addr)
	})
	if withQueries {
		w.served = sync.Map{}
		nq := 2*len(r.Pol) + 2
		for q := 0; q < nq; q++ {
			// not a statement the driver prepares: one QUERY frame on the chosen host
			w.s.Query("LIST vf").Exec()
		}
		if w.sc.Pol != "rr" {
			for _, i := range nm.ids {
				w.s.Query("LIST vf").RoutingKey(vfC16Key(i)).Exec()
			}
		}
		w.served.Range(func(k, v interface{}) bool {
			r.Served = append(r.Served, k.(string))
			return true
		})
		sort.Strings(r.Served)
	}
	return r
}

func vfC16SetEq(a, b []string) bool {
	if len(a) != len(b) {
		return false
	}
	m := map[string]int{}
	for _, x := range a {
		m[x]++
	}
	for _, x := range b {
		m[x]--
	}
	for _, v := range m {
		if v != 0 {
			return false
		}
	}
	return true
}

func vfC16Pairs(l []vfC16PA) []string {
	out := []string{}
	for _, p := range l {
		out = append(out, p.ID+"@"+p.Addr)
	}
	return out
}

func vfC16HAs(l []vfC16HA) []string {
	out := []string{}
	for _, p := range l {
		out = append(out, p.ID+"@"+p.Addr+"/"+p.N2N)
	}
	return out
}

func vfC16IDs(l []vfC16PA) []string {
	out := []string{}
	for _, p := range l {
		out = append(out, p.ID)
	}
	return out
}

// matches reports whether the projected state equals the model's expectation (waiting criterion).
func (w *vfC16World) matches(r *vfC16Rec, e *vfC16Exp, refreshes int) bool {
	hp, down := []string{}, []string{}
	for _, h := range r.Hosts {
		hp = append(hp, h.ID+"@"+h.Addr+"/"+h.N2N)
		if !h.Up {
			down = append(down, h.ID)
		}
	}
	return refreshes >= e.Refreshes &&
		vfC16SetEq(hp, vfC16HAs(e.Hosts)) &&
		vfC16SetEq(vfC16Pairs(r.ByAddr), vfC16Pairs(e.ByAddr)) &&
		vfC16SetEq(vfC16IDs(r.Pool), e.Pool) &&
		vfC16SetEq(vfC16IDs(r.Pol), e.Pol) &&
		vfC16SetEq(down, e.Down) &&
		len(r.HList) == len(r.Hosts) && w.idle()
}

// poolsIdle: no pool is filling and every pool of a node that answers has its connection.
func (w *vfC16World) poolsIdle() bool {
	w.s.pool.mu.RLock()
	defer w.s.pool.mu.RUnlock()
	for _, p := range w.s.pool.hostConnPools {
		answers := true
		if n := w.dialer.Node(p.host.ConnectAddress().String()); n != nil {
			n.mu.Lock()
			answers = !n.Down
			n.mu.Unlock()
		}
		p.mu.RLock()
		busy := p.filling || (answers && len(p.conns) < p.size)
		p.mu.RUnlock()
		if busy {
			return false
		}
	}
	return true
}

// controlIdle: the control connection is established (or cannot be: its node does not answer)
// and no reconnection is under way.
func (w *vfC16World) controlIdle() bool {
	c := w.s.control
	if c == nil {
		return true
	}
	if atomic.LoadInt32(&c.reconnecting) == 1 {
		return false
	}
	n := w.nodes["a0"]
	n.mu.Lock()
	down := n.Down
	n.mu.Unlock()
	ch := c.getConn()
	if ch == nil || ch.conn.Closed() {
		return down || atomic.LoadInt32(&w.noBeat) == 1
	}
	return true
}

// selfWait looks at the goroutines' stacks for the one thing that makes a pending refresh hopeless:
// the goroutine that performs this session's refreshes (the refresh debouncer's flusher) is itself
// inside Session.refreshRing, waiting for a refresh nobody else can perform.
func (w *vfC16World) selfWait() string {
	me := fmt.Sprintf("refreshDebouncer).flusher(%p)", w.s.ringRefresher)
	buf := make([]byte, 16<<20)
	for _, g := range strings.Split(string(buf[:runtime.Stack(buf, true)]), "\n\n") {
		if strings.Contains(g, me) && strings.Contains(g, "(*Session).refreshRing(") {
			return "refresher-waits-for-its-own-refresh"
		}
	}
	return ""
}

func (w *vfC16World) idle() bool {
	for _, c := range w.cut {
		if !c.Closed() {
			return false
		}
	}
	return atomic.LoadInt64(&w.fills) <= 0 && w.poolsIdle() && w.pendingUps() <= 0 && w.controlIdle() && w.quiet()
}

// quiet (wire mode): no event waits for its flush, no handler and no refresh runs, no refresh is
// due, no refreshRing call of the harness is open.  A refresh that is due (timer armed, immediate
// refresh requested) and is not started although nothing else has been going on for 6 s of the
// process's own clock - six debounce intervals - counts as lost: the state is then recorded as
// it is, for TLC to judge.
func (w *vfC16World) quiet() bool {
	if w.sc.Mode != "wire" {
		return true
	}
	if atomic.LoadInt32(&w.evPending) != 0 || atomic.LoadInt32(&w.handlers) > 0 || atomic.LoadInt32(&w.refreshing) != 0 {
		return false
	}
	if atomic.LoadInt32(&w.rfArmed) != 0 || atomic.LoadInt32(&w.calls) > 0 {
		if atomic.LoadInt64(&vfC16Ticks)-atomic.LoadInt64(&w.rfSince) < 600 {
			return false
		}
		w.lost = true
	}
	return true
}

// release lets a parked handler / a withheld system.peers answer go.
func (w *vfC16World) release() {
	w.holdMu.Lock()
	hold, reply := w.holdHandler, w.heldReply
	w.holdHandler, w.handlerHeld, w.heldReply, w.holdPeers, w.parked = nil, nil, nil, false, false
	w.holdMu.Unlock()
	if hold != nil {
		close(hold)
	}
	if reply != nil {
		reply()
	}
}

// await waits until cond holds; false after 10 s of the process's own clock.
func (w *vfC16World) await(cond func() bool) bool {
	for t0 := atomic.LoadInt64(&vfC16Ticks); !cond(); {
		if atomic.LoadInt64(&vfC16Ticks)-t0 > 1000 {
			return false
		}
		time.Sleep(2 * time.Millisecond)
	}
	return true
}

// connsTo: the driver's open connections to the node at abstract address a (pools and control).
func (w *vfC16World) connsTo(a string) []*Conn {
	ip := vfC16IP(a)
	var out []*Conn
	w.s.pool.mu.RLock()
	for _, p := range w.s.pool.hostConnPools {
		if p.host.ConnectAddress().String() != ip {
			continue
		}
		p.mu.RLock()
		out = append(out, p.conns...)
		p.mu.RUnlock()
	}
	w.s.pool.mu.RUnlock()
	if ch := w.s.control.getConn(); ch != nil && ch.host.ConnectAddress().String() == ip {
		out = append(out, ch.conn)
	}
	return out
}

// settle waits for quiescence and projects the state.  The wait ends when the projection equals
// the expectation that came with the history and nothing is under way (matched); or when nothing
// has been under way for a grace period although the projection differs (the recorded state is
// then what TLC judges); or - stalled - at a hard limit while the session is still busy (the
// scenario is then not judged at all: a machine stall is not evidence).  Wire-mode steps first
// wait out the driver's own debounce timers, which no flag shows.
func (w *vfC16World) settle(e *vfC16Exp, base int64, minWait, timerWait time.Duration) (rec *vfC16Rec, matched bool, waited time.Duration) {
	const grace = 150 * time.Millisecond // > the driver's pause after a failed fill (<= 131 ms)
	hardCap := 15 * time.Second
	if w.sc.Mode == "wire" {
		hardCap = 40 * time.Second
	}
	t0 := time.Now()
	if minWait > 0 {
		time.Sleep(minWait)
	}
	var idleSince time.Time
	for {
		now := time.Now()
		if e != nil {
			rec = w.project(false)
			if w.matches(rec, e, int(atomic.LoadInt64(&w.peersQ)-base)) {
				time.Sleep(2 * time.Millisecond)
				if w.matches(w.project(false), e, int(atomic.LoadInt64(&w.peersQ)-base)) {
					matched = true
					break
				}
			}
		}
		if w.idle() {
			if idleSince.IsZero() {
				idleSince = now
			} else if now.Sub(idleSince) >= grace && now.Sub(t0) >= timerWait {
				break
			}
		} else {
			idleSince = time.Time{}
		}
		if now.Sub(t0) > hardCap {
			w.stalled = true
			break
		}
		time.Sleep(3 * time.Millisecond)
	}
	if e != nil && !matched {
		w.mismatch = true
	}
	// The queries that show which nodes are offered belong to the step: picking a connection from
	// a pool without connections starts a fill, and a fill that fails reports its address as
	// down some 100 ms later.  Let that finish, then take the state that is recorded.
	served := w.project(true).Served
	for t1 := time.Now(); time.Since(t1) < 2*time.Second; {
		if w.idle() {
			time.Sleep(2 * time.Millisecond) // (the failing fill reports right after its last hook)
			if w.idle() {
				break
			}
		}
		time.Sleep(3 * time.Millisecond)
	}
	rec = w.project(false)
	rec.Served = served
	if e != nil && matched && !w.matches(rec, e, int(atomic.LoadInt64(&w.peersQ)-base)) {
		matched, w.mismatch = false, true
	}
	rec.Refreshes = int(atomic.LoadInt64(&w.peersQ) - base)
	return rec, matched, time.Since(t0)
}

// ---------------------------------------------------------------- steps

func (w *vfC16World) controlNodeConn() *vfNodeConn {
	var best *vfNodeConn
	for _, nc := range w.nodes["a0"].Conns() {
		if len(nc.Registered) > 0 && atomic.LoadInt32(&nc.closed) == 0 && !nc.Conn.IsClosed() {
			best = nc
		}
	}
	return best
}

func (w *vfC16World) setDown(a string, down bool) {
	n := w.nodes[a]
	n.mu.Lock()
	n.Down = down
	n.mu.Unlock()
}

// vfC16ErrClass: "timeout" marks an answer that did not arrive in time (machine stall: the
// scenario is then not judged), anything else is an error the refresh reported.
func vfC16ErrClass(err error) string {
	if c := vfErrClass(err); c == "timeout" || c == "ctx" {
		return "timeout"
	}
	if strings.Contains(err.Error(), "timeout") || strings.Contains(err.Error(), "no response") {
		return "timeout"
	}
	return "error"
}

func (w *vfC16World) exec(st *vfC16Step) (errs string, pan string) {
	defer func() {
		if p := recover(); p != nil {
			pan = fmt.Sprintf("%v", p)
		}
	}()
	w.cut = nil
	w.tmu.Lock()
	w.upCalls = nil
	w.tmu.Unlock()
	switch st.Op {
	case "refresh":
		w.setTruth(st.Rows)
		w.setFail(st.Fail)
		if w.async {
			// a step placed inside another one: the call is made, its end is awaited by settle
			atomic.AddInt32(&w.calls, 1)
			atomic.StoreInt64(&w.rfSince, atomic.LoadInt64(&vfC16Ticks))
			q0 := atomic.LoadInt64(&w.rfQueued)
			go func() {
				w.s.refreshRing()
				atomic.AddInt32(&w.calls, -1)
			}()
			if !w.await(func() bool { return atomic.LoadInt64(&w.rfQueued) > q0 }) {
				return "hang", ""
			}
			return "", ""
		}
		var err error
		done := make(chan struct{})
		go func() {
			err = w.s.refreshRing()
			close(done)
		}()
		returned := w.await(func() bool {
			select {
			case <-done:
				return true
			default:
				// every 3 s of process time: can the call still return?
				if t := atomic.LoadInt64(&vfC16Ticks); t%300 == 299 {
					if w.stuck = w.selfWait(); w.stuck != "" {
						return true
					}
				}
				return false
			}
		})
		w.setFail("none")
		if w.stuck != "" {
			return "", ""
		}
		if !returned {
			if w.stuck = w.selfWait(); w.stuck != "" {
				return "", ""
			}
			return "hang", ""
		}
		if err != nil {
			return vfC16ErrClass(err), ""
		}
	case "events", "burst":
		w.setTruth(st.Rows)
		if w.sc.Mode == "wire" {
			nc := w.controlNodeConn()
			if nc == nil {
				return "nocontrol", ""
			}
			q0 := atomic.LoadInt64(&w.evQueued)
			for _, e := range st.Evs {
				ip := net.ParseIP(vfC16IP(e.Addr))
				if e.Kind == "UP" || e.Kind == "DOWN" {
					nc.Event(vfStatusEventBody(e.Kind, ip, 9042))
				} else {
					nc.Event(vfTopologyEventBody(e.Kind, ip, 9042))
				}
			}
			// the frames have arrived when the debouncer has queued them
			if !w.await(func() bool { return atomic.LoadInt64(&w.evQueued) >= q0+int64(len(st.Evs)) }) {
				return "undelivered", ""
			}
		} else {
			var frames []frame
			for _, e := range st.Evs {
				ip := net.ParseIP(vfC16IP(e.Addr))
				if e.Kind == "UP" || e.Kind == "DOWN" {
					frames = append(frames, &statusChangeEventFrame{change: e.Kind, host: ip, port: 9042})
				} else {
					frames = append(frames, &topologyChangeEventFrame{change: e.Kind, host: ip, port: 9042})
				}
			}
			atomic.StoreInt32(&w.debounced, 0)
			w.s.handleNodeEvent(frames)
			if atomic.SwapInt32(&w.debounced, 0) == 1 {
				// the debounce interval elapses
				var err error
				ok, _ := vfWithin(20*time.Second, func() { err = <-w.s.ringRefresher.refreshNow() })
				if !ok {
					return "hang", ""
				}
				if err != nil {
					return vfC16ErrClass(err), ""
				}
			}
		}
	case "schema":
		// the keyspace metadata becomes (un)available (st.Addr: ok | error | norows) and the cluster
		// announces a change of the session keyspace, which makes the driver drop what it cached
		w.setTruth(st.Rows)
		w.tmu.Lock()
		w.schema = st.Addr
		w.tmu.Unlock()
		if w.sc.Mode == "wire" {
			nc := w.controlNodeConn()
			if nc == nil {
				return "nocontrol", ""
			}
			q0 := atomic.LoadInt64(&w.evQueued)
			nc.Event((&vfW{}).String("SCHEMA_CHANGE").String("UPDATED").String("KEYSPACE").String("ks").b)
			if !w.await(func() bool { return atomic.LoadInt64(&w.evQueued) > q0 }) {
				return "undelivered", ""
			}
		} else {
			w.s.handleSchemaEvent([]frame{&schemaChangeKeyspace{keyspace: "ks", change: "UPDATED"}})
		}
	case "nodefail":
		w.setTruth(st.Rows)
		w.setDown(st.Addr, true)
		w.cut = w.connsTo(st.Addr)
		w.nodes[st.Addr].CloseAll()
	case "noderecover":
		w.setTruth(st.Rows)
		w.setDown(st.Addr, false)
		if st.Addr == "a0" && w.sc.Mode == "direct" {
			// the control connection's heartbeat (1 s period) notices and reconnects; direct
			// mode does not wait for the period to elapse
			vfWithin(8*time.Second, w.s.control.reconnect)
		}
	case "heal":
		// the control node answers again; the heartbeat has not come round yet
		w.setTruth(st.Rows)
		atomic.StoreInt32(&w.noBeat, 1)
		w.setDown("a0", false)
	case "reconnect":
		// the heartbeat comes round and re-establishes the control connection
		w.setTruth(st.Rows)
		atomic.StoreInt32(&w.noBeat, 0)
		if w.sc.Mode == "direct" {
			vfWithin(8*time.Second, w.s.control.reconnect)
		}
	case "ctllost":
		// the control connection (and every other connection to the control node) is cut; the
		// node stays reachable
		w.setTruth(st.Rows)
		w.cut = w.connsTo("a0")
		w.nodes["a0"].CloseAll()
	default:
		return "badop", ""
	}
	return "", ""
}

func vfC16Run(sc *vfC16Scenario, out *vfNDJSON) (steps int, timeouts int, err error) {
	if sc.Mode == "" {
		sc.Mode = "direct"
	}
	if sc.C0 == "" {
		sc.C0 = "a0"
	}
	if sc.Pol == "" {
		sc.Pol = "rr"
	}
	norm := func(rows []vfC16Row) {
		for i := range rows {
			if rows[i].Peer == "" {
				rows[i].Peer = rows[i].Addr
			}
		}
	}
	norm(sc.Init)
	for i := range sc.Steps {
		norm(sc.Steps[i].Rows)
	}
	w, err := vfC16NewWorld(sc)
	if err != nil {
		return 0, 0, err
	}
	defer w.close()
	fill := func(r *vfC16Rec, k int, st *vfC16Step) {
		r.Sc, r.K, r.Mode, r.Filt = sc.N, k, sc.Mode, append([]string{}, sc.Filt...)
		r.C0, r.Policy = sc.C0, sc.Pol
		if st != nil {
			r.Op, r.Rows, r.Fail, r.Evs, r.Addr, r.Ov = st.Op, st.Rows, st.Fail, st.Evs, st.Addr, st.Ov
		}
		if r.Rows == nil {
			r.Rows = []vfC16Row{}
		}
		if r.Evs == nil {
			r.Evs = []vfC16Ev{}
		}
		if r.Fail == "" {
			r.Fail = "none"
		}
	}
	rec, m, wt := w.settle(sc.Exp0, 0, 0, 0)
	fill(rec, 0, &vfC16Step{Op: "init", Rows: sc.Init})
	rec.Refreshes = 0
	rec.Matched, rec.Waited = m, int(wt/time.Millisecond)
	out.Write(rec)
	for k := 0; k < len(sc.Steps); k++ {
		st := &sc.Steps[k]
		base := atomic.LoadInt64(&w.peersQ)
		if k+1 < len(sc.Steps) && sc.Steps[k+1].Ov != "" && sc.Mode == "wire" {
			// The next step happens while this one is in progress: this one is started and held -
			// its event handler parked before it reads its frames ("handler"), or the answer to its
			// system.peers query withheld after the rows were read ("peers") -, the next one is
			// carried out, then the held one goes on.  One state is recorded, after both.
			in := &sc.Steps[k+1]
			w.holdMu.Lock()
			if in.Ov == "handler" {
				w.holdHandler, w.handlerHeld, w.parked = make(chan struct{}), make(chan struct{}), false
			} else {
				w.holdPeers, w.peersHeld = true, make(chan struct{})
			}
			reached := w.handlerHeld
			if in.Ov != "handler" {
				reached = w.peersHeld
			}
			w.holdMu.Unlock()
			w.async = true
			errs, pan := w.exec(st)
			ok := errs == "" && pan == ""
			if ok {
				ok = w.await(func() bool {
					select {
					case <-reached:
						return true
					default:
						return false
					}
				})
			}
			if !ok {
				w.async = false
				w.release()
				w.stalled = true
				break
			}
			hr := w.project(false)
			fill(hr, k+1, st)
			hr.Held = true
			out.Write(hr)
			steps++
			base = atomic.LoadInt64(&w.peersQ)
			q0 := atomic.LoadInt64(&w.rfQueued)
			errs, pan = w.exec(in)
			if in.Ov == "peers" && in.Op != "refresh" && errs == "" {
				// the event has been handled when it has asked for its refresh
				if !w.await(func() bool { return atomic.LoadInt64(&w.rfQueued) > q0 }) {
					errs = "undelivered"
				}
			}
			w.async = false
			w.release()
			rec, m, wt := w.settle(in.Exp, base, 0, 0)
			fill(rec, k+2, in)
			if errs == "" && w.lost && atomic.LoadInt32(&w.calls) > 0 {
				errs = "unanswered"
			}
			rec.Err, rec.Panic, rec.Matched, rec.Waited = errs, pan, m, int(wt/time.Millisecond)
			out.Write(rec)
			steps++
			k++
			if pan != "" || w.mismatch || w.stalled {
				break
			}
			continue
		}
		errs, pan := w.exec(st)
		if w.stuck != "" {
			// nothing will settle: the state as it is, with what the stacks show
			rec := w.project(false)
			fill(rec, k+1, st)
			rec.Stuck = w.stuck
			out.Write(rec)
			steps++
			w.mismatch = true
			break
		}
		rec, m, wt := w.settle(st.Exp, base, 0, 0)
		fill(rec, k+1, st)
		rec.Err, rec.Panic, rec.Matched, rec.Waited = errs, pan, m, int(wt/time.Millisecond)
		out.Write(rec)
		steps++
		if pan != "" {
			break
		}
		if w.mismatch || w.stalled {
			// the state the model expects was not reached: the recorded state is judged by TLC;
			// what follows from it is not executed
			break
		}
	}
	if !w.mismatch && !w.stalled {
		// late effects (something the flags do not show): one more look
		last := sc.Exp0
		rows := sc.Init
		if n := len(sc.Steps); n > 0 {
			last, rows = sc.Steps[n-1].Exp, sc.Steps[n-1].Rows
		}
		base := atomic.LoadInt64(&w.peersQ)
		lateWait := 40 * time.Millisecond
		var le *vfC16Exp
		if last != nil {
			c := *last
			c.Refreshes = 0
			le = &c
		}
		rec, m, wt = w.settle(le, base, lateWait, 0)
		fill(rec, len(sc.Steps)+1, &vfC16Step{Op: "settle", Rows: rows})
		rec.Matched, rec.Waited = m, int(wt/time.Millisecond)
		out.Write(rec)
	}
	if w.stalled {
		out.Write(&vfC16Rec{Sc: sc.N, K: -1, Mode: sc.Mode, Op: "stalled", Rows: []vfC16Row{}, Fail: "none", Evs: []vfC16Ev{}, Filt: []string{}, C0: sc.C0, Policy: sc.Pol,
			Hosts: []vfC16Host{}, ByID: []vfC16HA{}, ByAddr: []vfC16PA{}, HList: []string{}, Pool: []vfC16PA{}, Pol: []vfC16PA{}, Served: []string{}, UpCalls: []string{}})
	}
	if w.mismatch {
		timeouts = 1
	}
	return steps, timeouts, nil
}

// ---------------------------------------------------------------- test entry

type vfC16Summary struct {
	Scenarios int
	Steps     int
	Errors    int
	Timeouts  int // scenarios that ended in a state other than the expected one
	Stalled   int
	FirstErr  string
	WallMs    int
}

// TestVfC16Replay executes the scenarios of $VF_SCENARIOS (NDJSON) and writes $VF_TRACES.
func TestVfC16Replay(t *testing.T) {
	path := os.Getenv("VF_SCENARIOS")
	if path == "" {
		t.Skip("VF_SCENARIOS not set")
	}
	f, err := os.Open(path)
	if err != nil {
		t.Fatal(err)
	}
	defer f.Close()
	var scs []*vfC16Scenario
	rd := bufio.NewReaderSize(f, 1<<20)
	for {
		line, err := rd.ReadBytes('\n')
		if len(strings.TrimSpace(string(line))) > 0 {
			sc := &vfC16Scenario{}
			if e := json.Unmarshal(line, sc); e != nil {
				t.Fatalf("bad scenario: %v", e)
			}
			scs = append(scs, sc)
		}
		if err != nil {
			break
		}
	}
	out, err := vfCreateNDJSON(os.Getenv("VF_TRACES"))
	if err != nil {
		t.Fatal(err)
	}
	defer out.Close()
	par := vfEnvInt("VF_PAR", 16)
	t0 := time.Now()
	var sum vfC16Summary
	var mu sync.Mutex
	ch := make(chan *vfC16Scenario)
	var wg sync.WaitGroup
	for i := 0; i < par; i++ {
		wg.Add(1)
		go func() {
			defer wg.Done()
			for sc := range ch {
				n, to, err := vfC16Run(sc, out)
				mu.Lock()
				sum.Scenarios++
				sum.Steps += n
				sum.Timeouts += to
				if err != nil {
					sum.Errors++
					if sum.FirstErr == "" {
						sum.FirstErr = fmt.Sprintf("scenario %d: %v", sc.N, err)
					}
				}
				mu.Unlock()
			}
		}()
	}
	for _, sc := range scs {
		ch <- sc
	}
	close(ch)
	wg.Wait()
	sum.WallMs = int(time.Since(t0) / time.Millisecond)
	b, _ := json.Marshal(sum)
	fmt.Printf("VFSUMMARY %s\n", b)
}
