package gocql

// Verification harness for extension X01 (schema agreement, schema metadata cache, routing key
// info), part 1: the environment.  A real Session (control connection, one pooled connection)
// over one scripted node that serves
//   - system.peers / system.local schema versions for Conn.awaitSchemaAgreement,
//   - a VERSIONED schema through the system_schema tables: every part of the metadata of keyspace k
//     carries the version it was read at (and the serial number of the fetch), so that what
//     Session.KeyspaceMetadata returns tells which fetch produced it and how old each part is,
//   - PREPARE answers for three statements on table t whose partition key depends on the version.
// Nothing here decides a property: observations go to the trace, TLC evaluates them with
// spec/Trace_SchemaMeta.tla and spec/Trace_SchemaAgree.tla.

import (
	"container/list"
	"context"
	"encoding/binary"
	"errors"
	"fmt"
	"math/rand"
	"net"
	"reflect"
	"sort"
	"strconv"
	"strings"
	"sync"
	"sync/atomic"
	"time"
	"unsafe"
)

// ---------------------------------------------------------------- wire helpers (types the common codec lacks)

type vfX01Col struct {
	Name string
	Type []byte // encoded [option]
}

func vfX01T(id int, sub ...int) []byte {
	w := &vfW{}
	w.Short(id)
	for _, s := range sub {
		w.Short(s)
	}
	return w.b
}

var (
	vfX01TText   = vfX01T(0x000D)
	vfX01TBool   = vfX01T(0x0004)
	vfX01TInt    = vfX01T(0x0009)
	vfX01TUUID   = vfX01T(0x000C)
	vfX01TMapTT  = vfX01T(0x0021, 0x000D, 0x000D)
	vfX01TListT  = vfX01T(0x0020, 0x000D)
)

func vfX01Rows(version byte, ks, table string, cols []vfX01Col, rows [][][]byte) []byte {
	w := &vfW{}
	w.Int(2).Int(0x01).Int(int32(len(cols)))
	w.String(ks).String(table)
	for _, c := range cols {
		w.String(c.Name)
		w.Raw(c.Type)
	}
	w.Int(int32(len(rows)))
	for _, r := range rows {
		for _, cell := range r {
			w.Bytes(cell)
		}
	}
	return w.b
}

func vfX01Prepared(version byte, id []byte, ks, table string, binds []vfX01Col, pk []int, res []vfX01Col) []byte {
	w := &vfW{}
	w.Int(4)
	w.ShortBytes(id)
	w.Int(0x01).Int(int32(len(binds)))
	if version >= 4 {
		w.Int(int32(len(pk)))
		for _, i := range pk {
			w.Short(i)
		}
	}
	w.String(ks).String(table)
	for _, c := range binds {
		w.String(c.Name)
		w.Raw(c.Type)
	}
	if version >= 2 {
		w.Int(0x01).Int(int32(len(res)))
		w.String(ks).String(table)
		for _, c := range res {
			w.String(c.Name)
			w.Raw(c.Type)
		}
	}
	return w.b
}

func vfX01CellMap(m map[string]string) []byte {
	keys := make([]string, 0, len(m))
	for k := range m {
		keys = append(keys, k)
	}
	sort.Strings(keys)
	w := &vfW{}
	w.Int(int32(len(keys)))
	for _, k := range keys {
		w.Bytes([]byte(k)).Bytes([]byte(m[k]))
	}
	return w.b
}

func vfX01CellList(l []string) []byte {
	w := &vfW{}
	w.Int(int32(len(l)))
	for _, s := range l {
		w.Bytes([]byte(s))
	}
	return w.b
}

func vfX01CellBool(b bool) []byte {
	if b {
		return []byte{1}
	}
	return []byte{0}
}

// RESULT/schema_change body (v3+) and EVENT/SCHEMA_CHANGE body
func vfX01SchemaChange(w *vfW, change, target, ks, name string, args []string) *vfW {
	w.String(change).String(target).String(ks)
	switch target {
	case "TABLE", "TYPE":
		w.String(name)
	case "FUNCTION", "AGGREGATE":
		w.String(name).StringList(args)
	}
	return w
}

func vfX01SchemaChangeResult(change, target, ks, name string) []byte {
	return vfX01SchemaChange((&vfW{}).Int(5), change, target, ks, name, nil).b
}

func vfX01SchemaEventBody(change, target, ks, name string, args []string) []byte {
	return vfX01SchemaChange((&vfW{}).String("SCHEMA_CHANGE"), change, target, ks, name, args).b
}

// ---------------------------------------------------------------- the versioned schema

// partition key of table t at version v (the same definition as PK in spec/SchemaMeta.tla; the node needs it to
// serve column rows, expectations come from TLC)
func vfX01PK(v int) []string {
	if v%2 == 1 {
		return []string{"a"}
	}
	return []string{"b", "a"}
}

type vfX01Stmt struct {
	Name  string
	Text  string
	Ks    string
	Binds []string
}

var vfX01Stmts = []vfX01Stmt{
	{"s1", "SELECT v FROM k1.t WHERE a = ? AND b = ?", "k1", []string{"a", "b"}},
	{"s2", "SELECT v FROM k1.t WHERE a = ?", "k1", []string{"a"}},
	{"s3", "SELECT v FROM k2.t WHERE b = ? AND a = ?", "k2", []string{"b", "a"}},
}

func vfX01StmtByName(n string) *vfX01Stmt {
	for i := range vfX01Stmts {
		if vfX01Stmts[i].Name == n {
			return &vfX01Stmts[i]
		}
	}
	return nil
}

func vfX01StmtByText(t string) *vfX01Stmt {
	for i := range vfX01Stmts {
		if vfX01Stmts[i].Text == t {
			return &vfX01Stmts[i]
		}
	}
	return nil
}

// the parts of one metadata fetch, in the order refreshSchema queries them (Cassandra 3.x tables)
var vfX01Parts = []string{"ks", "tb", "vw", "co", "fn", "ag", "ty", "mv"}

func vfX01PartOf(stmt string) string {
	switch {
	case strings.Contains(stmt, "system_schema.keyspaces"):
		return "ks"
	case strings.Contains(stmt, "system_schema.tables"):
		return "tb"
	case strings.Contains(stmt, "system_schema.views") && strings.Contains(stmt, "base_table_id"):
		return "mv"
	case strings.Contains(stmt, "system_schema.views"):
		return "vw"
	case strings.Contains(stmt, "system_schema.columns"):
		return "co"
	case strings.Contains(stmt, "system_schema.functions"):
		return "fn"
	case strings.Contains(stmt, "system_schema.aggregates"):
		return "ag"
	case strings.Contains(stmt, "system_schema.types"):
		return "ty"
	}
	return ""
}

func vfX01PartCols(part string) []vfX01Col {
	switch part {
	case "ks":
		return []vfX01Col{{"durable_writes", vfX01TBool}, {"replication", vfX01TMapTT}}
	case "tb":
		return []vfX01Col{{"table_name", vfX01TText}}
	case "vw":
		return []vfX01Col{{"view_name", vfX01TText}}
	case "co":
		return []vfX01Col{{"table_name", vfX01TText}, {"column_name", vfX01TText}, {"clustering_order", vfX01TText},
			{"type", vfX01TText}, {"kind", vfX01TText}, {"position", vfX01TInt}}
	case "fn":
		return []vfX01Col{{"function_name", vfX01TText}, {"argument_types", vfX01TListT}, {"argument_names", vfX01TListT},
			{"body", vfX01TText}, {"called_on_null_input", vfX01TBool}, {"language", vfX01TText}, {"return_type", vfX01TText}}
	case "ag":
		return []vfX01Col{{"aggregate_name", vfX01TText}, {"argument_types", vfX01TListT}, {"final_func", vfX01TText},
			{"initcond", vfX01TText}, {"return_type", vfX01TText}, {"state_func", vfX01TText}, {"state_type", vfX01TText}}
	case "ty":
		return []vfX01Col{{"type_name", vfX01TText}, {"field_names", vfX01TListT}, {"field_types", vfX01TListT}}
	}
	return []vfX01Col{{"view_name", vfX01TText}}
}

// rows of one part of keyspace ks at version v, fetched by fetch number rid
func (e *vfX01Env) partRows(part, ks string, v, rid int) [][][]byte {
	sv := strconv.Itoa(v)
	switch part {
	case "ks":
		if e.absent[v] {
			return nil
		}
		return [][][]byte{{vfX01CellBool(true), vfX01CellMap(map[string]string{
			"class": "org.apache.cassandra.locator.SimpleStrategy", "replication_factor": "1", "v": sv, "rid": strconv.Itoa(rid)})}}
	case "tb":
		rows := [][][]byte{{vfCellText("z")}, {vfCellText("m" + sv)}}
		if !e.notable[v] {
			rows = append(rows, [][]byte{vfCellText("t")})
		}
		return rows
	case "vw":
		return [][][]byte{{vfCellText("w" + sv)}}
	case "co":
		col := func(tb, name, kind string, pos int) [][]byte {
			order := "none"
			if kind == "clustering" {
				order = "asc"
			}
			return [][]byte{vfCellText(tb), vfCellText(name), vfCellText(order), vfCellText("int"), vfCellText(kind), vfCellInt(int32(pos))}
		}
		rows := [][][]byte{col("z", "zk", "partition_key", 0), col("z", "c"+sv, "regular", -1)}
		pk := vfX01PK(v)
		for i, n := range pk {
			rows = append(rows, col("t", n, "partition_key", i))
		}
		if len(pk) == 1 {
			rows = append(rows, col("t", "b", "clustering", 0))
		}
		rows = append(rows, col("t", "v", "regular", -1))
		return rows
	case "fn":
		return [][][]byte{{vfCellText("f" + sv), vfX01CellList([]string{"int"}), vfX01CellList([]string{"x"}), vfCellText("return x;"),
			vfX01CellBool(false), vfCellText("java"), vfCellText("int")}}
	case "ag":
		return [][][]byte{{vfCellText("g" + sv), vfX01CellList([]string{"int"}), vfCellText(""), vfCellText("0"), vfCellText("int"),
			vfCellText("f" + sv), vfCellText("int")}}
	case "ty":
		return [][][]byte{{vfCellText("y" + sv), vfX01CellList([]string{"p"}), vfX01CellList([]string{"int"})}}
	}
	return nil
}

// vfX01Label is what a *KeyspaceMetadata says about its origin.
type vfX01Label struct {
	T   string // ok | nil | notexist | closed | nokeyspace | err
	Rid int
	Ks, Tb, Vw, Co, Fn, Ag, Ty int
	HasT bool
	PK   []string
}

func vfX01Marker(names []string, prefix string) int {
	best := 0
	for _, n := range names {
		if strings.HasPrefix(n, prefix) {
			if v, err := strconv.Atoi(n[len(prefix):]); err == nil && len(n) > len(prefix) {
				if v > best {
					best = v
				}
			}
		}
	}
	return best
}

func vfX01LabelOf(m *KeyspaceMetadata, err error) vfX01Label {
	l := vfX01Label{PK: []string{}}
	switch {
	case err == ErrKeyspaceDoesNotExist:
		l.T = "notexist"
		return l
	case err == ErrSessionClosed:
		l.T = "closed"
		return l
	case err == ErrNoKeyspace:
		l.T = "nokeyspace"
		return l
	case err != nil:
		l.T = "err"
		return l
	case m == nil:
		l.T = "nil"
		return l
	}
	l.T = "ok"
	atoi := func(x interface{}) int {
		s, _ := x.(string)
		v, _ := strconv.Atoi(s)
		return v
	}
	l.Ks = atoi(m.StrategyOptions["v"])
	l.Rid = atoi(m.StrategyOptions["rid"])
	var tn, zc, fn, ag, ty []string
	for n := range m.Tables {
		tn = append(tn, n)
	}
	l.Tb = vfX01Marker(tn, "m")
	l.Vw = vfX01Marker(tn, "w")
	if z := m.Tables["z"]; z != nil {
		for n := range z.Columns {
			zc = append(zc, n)
		}
	}
	l.Co = vfX01Marker(zc, "c")
	for n := range m.Functions {
		fn = append(fn, n)
	}
	l.Fn = vfX01Marker(fn, "f")
	for n := range m.Aggregates {
		ag = append(ag, n)
	}
	l.Ag = vfX01Marker(ag, "g")
	for n := range m.UserTypes {
		ty = append(ty, n)
	}
	l.Ty = vfX01Marker(ty, "y")
	if t := m.Tables["t"]; t != nil {
		l.HasT = true
		for _, c := range t.PartitionKey {
			if c != nil {
				l.PK = append(l.PK, c.Name)
			}
		}
	}
	return l
}

func (l vfX01Label) json() map[string]interface{} {
	return map[string]interface{}{"t": l.T, "rid": l.Rid, "ks": l.Ks, "tb": l.Tb, "vw": l.Vw, "co": l.Co, "fn": l.Fn, "ag": l.Ag,
		"ty": l.Ty, "hast": l.HasT, "pk": append([]string{}, l.PK...)}
}

// ---------------------------------------------------------------- environment

// vfX01CountRR is the round-robin policy plus a count of HostUp calls (the end of handleNodeConnected)
type vfX01CountRR struct {
	HostSelectionPolicy
	ups int32
}

func (p *vfX01CountRR) HostUp(h *HostInfo) {
	p.HostSelectionPolicy.HostUp(h)
	atomic.AddInt32(&p.ups, 1)
}

type vfX01Fetch struct {
	rid    int
	ks     string
	tbver  int    // version served for every part after "ks" (hold mode: fixed when "tb" is released)
	failAt string // part answered with an error ("" = none)
}

type vfX01Held struct {
	nc   *vfNodeConn
	f    *vfFrame
	kind string // schema | prepare | peers | local | ddl
	part string
	ks   string
	stmt *vfX01Stmt
}

type vfX01PeerRow struct {
	Kind string // ok | invalid | nullver
	Ver  string // version name ("a", "b")
	Inv  int    // which column makes the row invalid
}

type vfX01Env struct {
	sc    *vfScope
	tr    *vfTracer
	cl    *vfCluster
	node  *vfNode
	d     *vfDialer
	sess  *Session
	proto int
	pol   *tokenAwareHostPolicy

	mu      sync.Mutex
	ver     map[string]int
	absent  map[int]bool
	notable map[int]bool
	pkprep  bool
	hold    bool
	holdPolls bool
	rid     int
	fetch   map[string]*vfX01Fetch // keyspace -> fetch in progress / last fetch
	held    []*vfX01Held
	streak  map[string]int // keyspace/part -> answers still to fail (a failed query is retried by the control connection)
	rng     *rand.Rand
	pFail   float64
	maxFail int
	nFail   int
	// agreement
	awArmed  bool
	awLocal  string
	awPeers  []vfX01PeerRow
	awScript func(kind string) string // free mode: "ok" | "err" for the next poll query
	ddlReply string                   // "change" | "error"
	ddlNew   string                   // local version after the statement
	polls    int32
	npeers   int // system.peers polls that arrived while a wait was armed
	firstPoll time.Time // arrival of the first poll of the current wait (the driver computed its deadline before sending it)
	ndll     int // schema-changing statements answered
	// policy spy
	npol   int
	polres vfX01Label
	// routing cache removals seen by OnEvicted
	closed int32
}

var vfX01VerUUID = map[string]string{
	"a": "aaaaaaaa-aaaa-aaaa-aaaa-aaaaaaaaaaaa", "b": "bbbbbbbb-bbbb-bbbb-bbbb-bbbbbbbbbbbb", "c": "cccccccc-cccc-cccc-cccc-cccccccccccc",
}

type vfX01Opts struct {
	Proto    int
	MaxRoute int
	MaxWait  time.Duration
	Policy   bool // token-aware policy (handleKeyspaceChange -> KeyspaceChanged -> KeyspaceMetadata)
	Absent   []int
	NoTable  []int
	PkPrep   bool
	Hold     bool
	Seed     int64
	Release  string // release_version of the node (peers_v2 is asked from 4.0 on)
	ConnHooks bool  // record the connection hooks of the session (x_ctx: a request refused because its context is done)
}

func vfX01NewEnv(o vfX01Opts) (*vfX01Env, error) {
	if o.Release == "" {
		o.Release = "3.11.4"
	}
	e := &vfX01Env{proto: o.Proto, ver: map[string]int{"k1": 1, "k2": 1}, absent: map[int]bool{}, notable: map[int]bool{},
		fetch: map[string]*vfX01Fetch{}, streak: map[string]int{}, hold: o.Hold, pkprep: o.PkPrep, rng: rand.New(rand.NewSource(o.Seed)),
		awLocal: "a", ddlReply: "change", ddlNew: "b"}
	for _, v := range o.Absent {
		e.absent[v] = true
	}
	for _, v := range o.NoTable {
		e.notable[v] = true
	}
	e.sc = vfNewScope()
	e.tr = e.sc.tr
	e.cl = &vfCluster{Partitioner: "org.apache.cassandra.dht.Murmur3Partitioner", Version: o.Release}
	e.cl.Set([]vfHostDesc{vfDesc(1)})
	e.node = vfNewNode(e.cl, vfDesc(1))
	e.node.Handler = e.handle
	e.d = vfNewDialer(e.node)
	cfg := vfClusterConfig(e.d, o.Proto, "10.0.0.1")
	cfg.MaxRoutingKeyInfo = o.MaxRoute
	if o.MaxRoute == 0 {
		cfg.MaxRoutingKeyInfo = 1000
	}
	cfg.MaxWaitSchemaAgreement = o.MaxWait
	cfg.Timeout = 60 * time.Second // held answers must not run into the request timeout
	crr := &vfX01CountRR{HostSelectionPolicy: RoundRobinHostPolicy()}
	if o.Policy {
		cfg.PoolConfig.HostSelectionPolicy = TokenAwareHostPolicy(crr)
	} else {
		cfg.PoolConfig.HostSelectionPolicy = crr
	}
	s, err := NewSession(*cfg)
	if err != nil {
		return nil, err
	}
	e.sess = s
	if o.ConnHooks {
		e.sc.BindSession(s)
	}
	// the pool reports its first connection on a goroutine of its own (handleNodeConnected marks the host up and
	// tells the policy): wait for it, so that a later "hosts down" is not undone by it
	if !vfX01WaitFor(30*time.Second, func() bool { return atomic.LoadInt32(&crr.ups) > 0 && s.getConn() != nil }) {
		s.Close()
		return nil, errors.New("vf: the session did not connect its pool")
	}
	e.sc.Bind(s.stmtsLRU)
	e.sc.Bind(s.schemaEvents)
	e.sc.OnEvent = e.onEvent
	s.routingKeyInfoCache.mu.Lock()
	s.routingKeyInfoCache.lru.OnEvicted = func(key string, value interface{}) {
		if st := vfX01StmtByText(key); st != nil {
			e.tr.Emit("rk_evict", "s", st.Name)
		}
	}
	s.routingKeyInfoCache.mu.Unlock()
	if o.Policy {
		if t, ok := s.policy.(*tokenAwareHostPolicy); ok {
			e.pol = t
			t.mu.Lock()
			orig := t.getKeyspaceMetadata
			t.getKeyspaceMetadata = func(ks string) (*KeyspaceMetadata, error) {
				m, err := orig(ks)
				if ks != "" {
					l := vfX01LabelOf(m, err)
					e.mu.Lock()
					e.npol++
					e.polres = l
					e.mu.Unlock()
					e.tr.Emit("pol", "k", ks, "lab", l.json())
				}
				return m, err
			}
			t.mu.Unlock()
		}
	}
	return e, nil
}

func (e *vfX01Env) Close() {
	atomic.StoreInt32(&e.closed, 1)
	e.ReleaseAll()
	vfWithin(10*time.Second, e.sess.Close)
	e.sc.gates.ReleaseAll()
}

// hook observer: a lookup in the prepared-statement cache for one of the routed statements is one computation of
// routing info (nothing else prepares those statements here)
func (e *vfX01Env) onEvent(point string, obj interface{}, s string, a int, err error) {
	if point == "lru_hit" || point == "lru_miss" {
		for i := range vfX01Stmts {
			if strings.HasSuffix(s, vfX01Stmts[i].Text) {
				e.tr.Emit("rk_comp", "s", vfX01Stmts[i].Name)
			}
		}
	}
}

// ---------------------------------------------------------------- node handler

func (e *vfX01Env) handle(nc *vfNodeConn, f *vfFrame, q *vfRequest) bool {
	switch f.Op {
	case vfOpPrepare:
		if part := vfX01PartOf(q.Stmt); part != "" {
			nc.Reply(f, vfOpResult, vfX01Prepared(f.Version, []byte("x01:"+part), "system_schema", "x",
				[]vfX01Col{{"keyspace_name", vfX01TText}}, nil, vfX01PartCols(part)))
			return true
		}
		if st := vfX01StmtByText(q.Stmt); st != nil {
			h := &vfX01Held{nc: nc, f: f, kind: "prepare", stmt: st}
			e.mu.Lock()
			hold := e.hold
			if hold {
				e.held = append(e.held, h)
			}
			e.mu.Unlock()
			if !hold {
				ans := "ok"
				if e.roll() {
					ans = "fail"
				}
				e.answerPrepare(h, ans)
			}
			return true
		}
		return false
	case vfOpExecute:
		id := string(q.PreparedID)
		if strings.HasPrefix(id, "x01:") && len(q.Values) >= 1 {
			h := &vfX01Held{nc: nc, f: f, kind: "schema", part: id[4:], ks: string(q.Values[0])}
			e.schemaQuery(h)
			return true
		}
		if strings.HasPrefix(id, "x01s:") {
			nc.Reply(f, vfOpResult, vfX01Rows(f.Version, "k1", "t", []vfX01Col{{"v", vfX01TInt}}, nil))
			return true
		}
		return false
	case vfOpQuery:
		low := strings.ToLower(q.Stmt)
		switch {
		case strings.HasPrefix(low, "select schema_version from system.local"):
			e.pollQuery(&vfX01Held{nc: nc, f: f, kind: "local"})
			return true
		case strings.Contains(low, "from system.peers") && !strings.Contains(low, "peers_v2"):
			e.mu.Lock()
			armed := e.awArmed
			e.mu.Unlock()
			if !armed {
				return false
			}
			e.pollQuery(&vfX01Held{nc: nc, f: f, kind: "peers"})
			return true
		case strings.HasPrefix(low, "create ") || strings.HasPrefix(low, "alter ") || strings.HasPrefix(low, "drop "):
			e.pollQuery(&vfX01Held{nc: nc, f: f, kind: "ddl"})
			return true
		}
	}
	return false
}

// roll decides a failure in free-running mode
func (e *vfX01Env) roll() bool {
	e.mu.Lock()
	defer e.mu.Unlock()
	if e.pFail > 0 && e.nFail < e.maxFail && e.rng.Float64() < e.pFail {
		e.nFail++
		return true
	}
	return false
}

func (e *vfX01Env) answerPrepare(h *vfX01Held, ans string) {
	st := h.stmt
	e.mu.Lock()
	v := e.ver[st.Ks]
	pkprep := e.pkprep
	e.mu.Unlock()
	e.tr.Emit("p_ans", "s", st.Name, "ans", ans, "v", v)
	if ans != "ok" {
		h.nc.Reply(h.f, vfOpError, vfErrorBody(0x0000, "vf: prepare failed", nil))
		return
	}
	binds := make([]vfX01Col, len(st.Binds))
	for i, b := range st.Binds {
		binds[i] = vfX01Col{b, vfX01TInt}
	}
	var pk []int
	if pkprep && h.f.Version >= 4 {
		// what the server does for protocol 4: positions of the partition key columns among the bind markers
		for _, c := range vfX01PK(v) {
			idx := -1
			for i, b := range st.Binds {
				if b == c {
					idx = i
					break
				}
			}
			if idx < 0 {
				pk = nil
				break
			}
			pk = append(pk, idx)
		}
	}
	h.nc.Reply(h.f, vfOpResult, vfX01Prepared(h.f.Version, []byte("x01s:"+st.Name), st.Ks, "t", binds, pk, []vfX01Col{{"v", vfX01TInt}}))
}

// vfX01Retries: controlConn.query asks a failing query again (SimpleRetryPolicy{NumRetries: 3}); a fetch fails only
// when the retries fail too, so a failure the scenario asks for is a failure of the query and of its retries
const vfX01Retries = 3

// one system_schema query arrived
func (e *vfX01Env) schemaQuery(h *vfX01Held) {
	key := h.ks + "/" + h.part
	e.mu.Lock()
	retry := e.streak[key] > 0
	if retry {
		e.streak[key]--
	}
	if h.part == "ks" && !retry {
		e.rid++
		e.fetch[h.ks] = &vfX01Fetch{rid: e.rid, ks: h.ks}
	}
	fe := e.fetch[h.ks]
	if fe == nil {
		e.rid++
		fe = &vfX01Fetch{rid: e.rid, ks: h.ks}
		e.fetch[h.ks] = fe
	}
	rid := fe.rid
	holdIt := !retry && e.hold && (h.part == "ks" || h.part == "tb")
	if holdIt {
		e.held = append(e.held, h)
	}
	failNow := retry || (e.hold && !holdIt && fe.failAt == h.part)
	if failNow && !retry {
		e.streak[key] = vfX01Retries
	}
	hold := e.hold
	e.mu.Unlock()
	e.tr.Emit("q_arr", "k", h.ks, "part", h.part, "rid", rid)
	if holdIt {
		return
	}
	ans := "ok"
	if failNow {
		ans = "fail"
	} else if !hold && e.roll() {
		ans = "fail"
		e.mu.Lock()
		e.streak[key] = vfX01Retries
		e.mu.Unlock()
	}
	e.answerSchema(h, ans)
}

func (e *vfX01Env) answerSchema(h *vfX01Held, ans string) {
	e.mu.Lock()
	fe := e.fetch[h.ks]
	v := e.ver[h.ks]
	if e.hold && h.part != "ks" && h.part != "tb" && fe.tbver > 0 {
		v = fe.tbver
	}
	if e.hold && h.part == "tb" {
		fe.tbver = v
	}
	rid := fe.rid
	e.mu.Unlock()
	out := ans
	if ans == "ok" && h.part == "ks" && e.absent[v] {
		out = "absent"
	}
	// the answer is logged before it is sent: whatever the driver does with it comes later in the trace
	e.tr.Emit("q_ans", "k", h.ks, "part", h.part, "rid", rid, "v", v, "ans", out, "flag", h.part == "tb" && e.notable[v])
	if ans != "ok" {
		h.nc.Reply(h.f, vfOpError, vfErrorBody(0x0000, "vf: schema query failed", nil))
		return
	}
	h.nc.Reply(h.f, vfOpResult, vfX01Rows(h.f.Version, "system_schema", "x", vfX01PartCols(h.part), e.partRows(h.part, h.ks, v, rid)))
}

// ---------------------------------------------------------------- hold mode: commands

func (e *vfX01Env) takeHeld(match func(*vfX01Held) bool) *vfX01Held {
	e.mu.Lock()
	defer e.mu.Unlock()
	for i, h := range e.held {
		if match(h) {
			e.held = append(e.held[:i], e.held[i+1:]...)
			return h
		}
	}
	return nil
}

// Pending lists what the node holds: [kind-or-part, keyspace-or-statement]
func (e *vfX01Env) Pending() [][]string {
	e.mu.Lock()
	defer e.mu.Unlock()
	out := [][]string{}
	for _, h := range e.held {
		switch h.kind {
		case "schema":
			out = append(out, []string{h.part, h.ks})
		case "prepare":
			out = append(out, []string{"prep", h.stmt.Name})
		default:
			out = append(out, []string{h.kind, ""})
		}
	}
	sort.Slice(out, func(i, j int) bool { return out[i][0]+out[i][1] < out[j][0]+out[j][1] })
	return out
}

func (e *vfX01Env) HoldsSchemaQuery() bool {
	e.mu.Lock()
	defer e.mu.Unlock()
	for _, h := range e.held {
		if h.kind == "schema" {
			return true
		}
	}
	return false
}

// ReleaseSchema answers the held query of the given part ("ks" / "tb"). failPart names the query that fails when
// ans = "fail" and part = "tb" (one of tb vw co fn ag ty mv; the later ones are answered as they arrive).
func (e *vfX01Env) ReleaseSchema(part, ans, failPart string) bool {
	h := e.takeHeld(func(h *vfX01Held) bool { return h.kind == "schema" && h.part == part })
	if h == nil {
		return false
	}
	if part == "tb" && ans == "fail" && failPart != "tb" {
		e.mu.Lock()
		e.fetch[h.ks].failAt = failPart
		e.mu.Unlock()
		ans = "ok"
	}
	if ans == "fail" {
		e.mu.Lock()
		e.streak[h.ks+"/"+part] = vfX01Retries
		e.mu.Unlock()
	}
	e.answerSchema(h, ans)
	return true
}

func (e *vfX01Env) ReleasePrepare(s, ans string) bool {
	h := e.takeHeld(func(h *vfX01Held) bool { return h.kind == "prepare" && h.stmt.Name == s })
	if h == nil {
		return false
	}
	e.answerPrepare(h, ans)
	return true
}

func (e *vfX01Env) ReleaseAll() {
	e.mu.Lock()
	hs := e.held
	e.held = nil
	e.hold = false
	e.holdPolls = false
	e.mu.Unlock()
	for _, h := range hs {
		switch h.kind {
		case "schema":
			e.answerSchema(h, "ok")
		case "prepare":
			e.answerPrepare(h, "ok")
		default:
			e.answerPoll(h, "ok")
		}
	}
}

// Change makes the cluster change keyspace ks (the event is the caller's business).
func (e *vfX01Env) Change(ks, kind string) int {
	e.mu.Lock()
	v := e.ver[ks] + 1
	// logged before the new version can be served: whatever shows it comes later in the trace
	e.tr.Emit("chg", "k", ks, "v", v, "kind", kind)
	e.ver[ks] = v
	e.mu.Unlock()
	return v
}

// frames of handleSchemaEvent for a change of the given kind; target and change type rotate with n (12 combinations)
var vfX01Changes = []string{"UPDATED", "CREATED", "DROPPED"}

func vfX01EventFrame(ks, kind string, n int) frame {
	ch := vfX01Changes[n%3]
	if kind == "keyspace" {
		return &schemaChangeKeyspace{change: ch, keyspace: ks}
	}
	switch n % 4 {
	case 0:
		return &schemaChangeTable{change: ch, keyspace: ks, object: "t"}
	case 1:
		return &schemaChangeType{change: ch, keyspace: ks, object: "y"}
	case 2:
		return &schemaChangeFunction{change: ch, keyspace: ks, name: "f", args: []string{"int"}}
	}
	return &schemaChangeAggregate{change: ch, keyspace: ks, name: "g", args: []string{"int"}}
}

func vfX01EventBody(ks, kind string, n int) []byte {
	ch := vfX01Changes[n%3]
	if kind == "keyspace" {
		return vfX01SchemaEventBody(ch, "KEYSPACE", ks, "", nil)
	}
	switch n % 4 {
	case 0:
		return vfX01SchemaEventBody(ch, "TABLE", ks, "t", nil)
	case 1:
		return vfX01SchemaEventBody(ch, "TYPE", ks, "y", nil)
	case 2:
		return vfX01SchemaEventBody(ch, "FUNCTION", ks, "f", []string{"int"})
	}
	return vfX01SchemaEventBody(ch, "AGGREGATE", ks, "g", []string{"int"})
}

// PushEvent sends an EVENT frame on the connection that registered for schema changes (the control connection)
func (e *vfX01Env) PushEvent(body []byte) bool {
	for _, nc := range e.node.Conns() {
		for _, r := range nc.Registered {
			if r == "SCHEMA_CHANGE" && atomic.LoadInt32(&nc.closed) == 0 {
				nc.Event(body)
				return true
			}
		}
	}
	return false
}

func (e *vfX01Env) SetUp(up bool) {
	// "down" is logged before the hosts are marked down, "up" after they are marked up: a call that fails for want
	// of a connection always has the down period inside its interval
	if !up {
		e.tr.Emit("down")
	}
	for _, h := range e.sess.ring.allHosts() {
		if up {
			h.setState(NodeUp)
		} else {
			h.setState(NodeDown)
		}
	}
	if up {
		e.tr.Emit("up")
	}
}

// ---------------------------------------------------------------- observations at rest (in-package reads)

// CacheLabels reads the describer's cache without disturbing it; ok = false when it cannot be read safely now
func (e *vfX01Env) CacheLabels() (map[string]vfX01Label, bool) {
	sd := e.sess.schemaDescriber
	locked := sd.mu.TryLock()
	if !locked && !e.HoldsSchemaQuery() {
		return nil, false
	}
	// either we hold the mutex, or its holder is parked on an answer the node is holding: nobody writes
	out := map[string]vfX01Label{}
	for k, m := range sd.cache {
		out[k] = vfX01LabelOf(m, nil)
	}
	if locked {
		sd.mu.Unlock()
	}
	return out, true
}

// RouteLRU returns the statements in the routing info cache, most recently used first, with the state of each entry
func (e *vfX01Env) RouteLRU() [][]string {
	rc := &e.sess.routingKeyInfoCache
	rc.mu.Lock()
	defer rc.mu.Unlock()
	out := [][]string{}
	cv := reflect.ValueOf(rc.lru).Elem()
	llv := cv.FieldByName("ll")
	if llv.IsNil() {
		return out
	}
	ll := (*list.List)(unsafe.Pointer(llv.Pointer()))
	for el := ll.Front(); el != nil; el = el.Next() {
		ev := reflect.ValueOf(el.Value).Elem()
		key := ev.FieldByName("key").String()
		valv := ev.FieldByName("value")
		name := key
		if st := vfX01StmtByText(key); st != nil {
			name = st.Name
		}
		state := "?"
		if valv.Kind() == reflect.Interface && !valv.IsNil() {
			p := valv.Elem()
			if p.Kind() == reflect.Ptr {
				ent := (*inflightCachedEntry)(unsafe.Pointer(p.Pointer()))
				state = vfX01EntryState(ent)
			}
		}
		out = append(out, []string{name, state})
	}
	return out
}

// the state of a routing cache entry: the WaitGroup counter tells whether the computation has been published
func vfX01EntryState(ent *inflightCachedEntry) string {
	running := false
	st := reflect.ValueOf(&ent.wg).Elem().FieldByName("state")
	if st.IsValid() {
		if v := st.FieldByName("v"); v.IsValid() {
			running = (v.Uint() >> 32) != 0
		}
	}
	if ent.err != nil {
		return "fail"
	}
	if running {
		return "run"
	}
	return "ok"
}

// routing key -> bind positions (values are their own positions, encoded as int)
func vfX01DecodeRoutingKey(b []byte, nbinds int) []int {
	if len(b) == 4 {
		return []int{int(int32(binary.BigEndian.Uint32(b)))}
	}
	out := []int{}
	for len(b) >= 3 {
		n := int(binary.BigEndian.Uint16(b))
		if len(b) < 2+n+1 || n != 4 {
			return []int{-1}
		}
		out = append(out, int(int32(binary.BigEndian.Uint32(b[2:2+n]))))
		b = b[2+n+1:]
	}
	if len(b) != 0 {
		return []int{-1}
	}
	return out
}

type vfX01RouteRes struct {
	T   string // key | nil | err
	Idx []int
	Err string // noconn | notexist | nometa | prepare | other
}

func (e *vfX01Env) Route(ctx context.Context, s string) vfX01RouteRes {
	st := vfX01StmtByName(s)
	vals := make([]interface{}, len(st.Binds))
	for i := range vals {
		vals[i] = int32(i)
	}
	q := e.sess.Query(st.Text, vals...).WithContext(ctx)
	key, err := q.GetRoutingKey()
	r := vfX01RouteRes{Idx: []int{}}
	switch {
	case err != nil:
		r.T = "err"
		switch {
		case strings.Contains(err.Error(), "no connection available"):
			r.Err = "noconn"
		case err == ErrKeyspaceDoesNotExist:
			r.Err = "notexist"
		case err == ErrNoMetadata:
			r.Err = "nometa"
		case strings.Contains(err.Error(), "prepare failed"):
			r.Err = "prepare"
		case strings.Contains(err.Error(), "schema"):
			r.Err = "meta"
		default:
			r.Err = "other:" + err.Error()
		}
	case key == nil:
		r.T = "nil"
	default:
		r.T = "key"
		r.Idx = vfX01DecodeRoutingKey(key, len(st.Binds))
	}
	return r
}

// ---------------------------------------------------------------- agreement polls

func (e *vfX01Env) pollQuery(h *vfX01Held) {
	atomic.AddInt32(&e.polls, 1)
	e.mu.Lock()
	if h.kind == "peers" {
		e.npeers++
		if e.firstPoll.IsZero() {
			e.firstPoll = time.Now()
		}
	}
	hold := e.holdPolls
	if hold {
		e.held = append(e.held, h)
	}
	script := e.awScript
	e.mu.Unlock()
	e.tr.Emit("a_arr", "kind", h.kind)
	if hold {
		return
	}
	ans := "ok"
	if script != nil {
		ans = script(h.kind)
	}
	e.answerPoll(h, ans)
}

func vfX01InvalidKinds() int { return 5 }

func (e *vfX01Env) answerPoll(h *vfX01Held, ans string) {
	e.mu.Lock()
	local := e.awLocal
	peers := append([]vfX01PeerRow(nil), e.awPeers...)
	if h.kind == "ddl" && ans == "ok" && e.ddlReply == "change" {
		e.awLocal = e.ddlNew
		local = e.awLocal
	}
	ddlReply := e.ddlReply
	if h.kind == "ddl" {
		e.ndll++
	}
	e.mu.Unlock()
	switch h.kind {
	case "ddl":
		if ans != "ok" || ddlReply != "change" {
			e.tr.Emit("a_ddl", "ans", "error", "lver", local)
			h.nc.Reply(h.f, vfOpError, vfErrorBody(0x2200, "vf: invalid statement", nil))
			return
		}
		e.tr.Emit("a_ddl", "ans", "change", "lver", local)
		h.nc.Reply(h.f, vfOpResult, vfX01SchemaChangeResult("CREATED", "TABLE", "k1", "t2"))
	case "local":
		if ans != "ok" {
			e.tr.Emit("a_local", "ans", "err", "lver", local)
			h.nc.Reply(h.f, vfOpError, vfErrorBody(0x0000, "vf: local unavailable", nil))
			return
		}
		e.tr.Emit("a_local", "ans", "ok", "lver", local)
		h.nc.Reply(h.f, vfOpResult, vfX01Rows(h.f.Version, "system", "local", []vfX01Col{{"schema_version", vfX01TUUID}},
			[][][]byte{{vfCellUUID(vfMustUUID(vfX01VerUUID[local]))}}))
	case "peers":
		rowsJ := []interface{}{}
		for _, p := range peers {
			rowsJ = append(rowsJ, []string{p.Kind, p.Ver})
		}
		if ans != "ok" {
			e.tr.Emit("a_peers", "ans", "err", "rows", rowsJ)
			h.nc.Reply(h.f, vfOpError, vfErrorBody(0x0000, "vf: peers unavailable", nil))
			return
		}
		e.tr.Emit("a_peers", "ans", "ok", "rows", rowsJ)
		var rows [][][]byte
		for i, p := range peers {
			hd := vfDesc(10 + i)
			row := [][]byte{vfCellInet(net.ParseIP(hd.Addr)), vfCellText(hd.DC), vfCellText(hd.Rack), vfCellUUID(vfMustUUID(hd.ID)),
				vfCellText("3.11.4"), vfCellInet(net.ParseIP(hd.Addr)), vfSetCell(h.f.Version, hd.Tokens),
				vfCellUUID(vfMustUUID(vfX01VerUUID[p.Ver]))}
			switch p.Kind {
			case "nullver":
				row[7] = nil
			case "invalid":
				// data_center, rack, host_id, rpc_address, tokens: each makes the row unusable (isValidPeer)
				row[[]int{1, 2, 3, 5, 6}[p.Inv%5]] = nil
			}
			rows = append(rows, row)
		}
		h.nc.Reply(h.f, vfOpResult, vfRowsBody(h.f.Version, "system", "peers", vfPeerCols, rows, nil, false))
	}
}

func (e *vfX01Env) ReleasePoll(kind, ans string) bool {
	h := e.takeHeld(func(h *vfX01Held) bool { return h.kind == kind })
	if h == nil {
		return false
	}
	e.answerPoll(h, ans)
	return true
}

// ---------------------------------------------------------------- small helpers

func vfX01ErrClassAwait(err error) string {
	switch {
	case err == nil:
		return "nil"
	case errors.Is(err, context.Canceled), errors.Is(err, context.DeadlineExceeded):
		return "ctx"
	case strings.Contains(err.Error(), "cluster schema versions not consistent"):
		return "disagree"
	}
	return "other:" + err.Error()
}

func vfX01WaitFor(d time.Duration, cond func() bool) bool {
	end := time.Now().Add(d)
	for {
		if cond() {
			return true
		}
		if time.Now().After(end) {
			return false
		}
		time.Sleep(time.Millisecond)
	}
}

var _ = fmt.Sprintf
