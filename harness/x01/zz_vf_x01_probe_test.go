package gocql

import (
	"context"
	"net"
	"strings"
	"testing"
	"time"
)

// throw-away probes (replaced by the real harness)
func TestVfX01ProbeNullVersion(t *testing.T) {
	cl := &vfCluster{Partitioner: "org.apache.cassandra.dht.Murmur3Partitioner", Version: "3.11.4"}
	cl.Set([]vfHostDesc{vfDesc(1), vfDesc(2)})
	n1 := vfNewNode(cl, vfDesc(1))
	n2 := vfNewNode(cl, vfDesc(2))
	n1.Handler = func(nc *vfNodeConn, f *vfFrame, q *vfRequest) bool {
		if f.Op == vfOpQuery && strings.Contains(q.Stmt, "system.peers") && !strings.Contains(q.Stmt, "peers_v2") {
			h := vfDesc(2)
			row := [][]byte{vfCellInet(net.ParseIP(h.Addr)), vfCellText(h.DC), vfCellText(h.Rack), vfCellUUID(vfMustUUID(h.ID)),
				vfCellText("3.11.4"), vfCellInet(net.ParseIP(h.Addr)), vfSetCell(f.Version, h.Tokens), nil}
			nc.Reply(f, vfOpResult, vfRowsBody(f.Version, "system", "peers", vfPeerCols, [][][]byte{row}, nil, false))
			return true
		}
		return false
	}
	d := vfNewDialer(n1, n2)
	cfg := vfClusterConfig(d, 4, "10.0.0.1")
	cfg.MaxWaitSchemaAgreement = 1 * time.Second
	s, err := NewSession(*cfg)
	if err != nil {
		t.Fatal(err)
	}
	defer s.Close()
	t0 := time.Now()
	err = s.AwaitSchemaAgreement(context.Background())
	t.Logf("AwaitSchemaAgreement with a peer whose schema_version is null: err=%v after %v", err, time.Since(t0))
}

func TestVfX01ProbeNoConnCached(t *testing.T) {
	cl := &vfCluster{Partitioner: "org.apache.cassandra.dht.Murmur3Partitioner", Version: "3.11.4"}
	cl.Set([]vfHostDesc{vfDesc(1)})
	n1 := vfNewNode(cl, vfDesc(1))
	d := vfNewDialer(n1)
	cfg := vfClusterConfig(d, 4, "10.0.0.1")
	s, err := NewSession(*cfg)
	if err != nil {
		t.Fatal(err)
	}
	defer s.Close()
	h := s.ring.allHosts()[0]
	h.setState(NodeDown)
	_, err1 := s.Query("SELECT v FROM t WHERE a = ?", 1).GetRoutingKey()
	h.setState(NodeUp)
	_, err2 := s.Query("SELECT v FROM t WHERE a = ?", 1).GetRoutingKey()
	_, err3 := s.Query("SELECT v FROM t WHERE b = ?", 1).GetRoutingKey()
	t.Logf("down: %v; up again, same statement: %v; up, other statement: %v", err1, err2, err3)
}
