package gocql

// Verification harness for property C19 (UUIDs).  Overlaid into package gocql by
// /verif/bin/check.  Glue only: inputs come from TLC (cases) or a seeded generator; what the real
// UUID API answered is written down and judged by TLC (Uuid.tla) / against TLC's expectation.
// 64-bit integers travel as 8 big-endian bytes, strings as code points.

import (
	"bufio"
	"encoding/binary"
	"encoding/json"
	"fmt"
	"math/rand"
	"os"
	"runtime"
	"strconv"
	"sync"
	"sync/atomic"
	"testing"
	"time"
)

type vfC19Case struct {
	K     string `json:"k"`
	Cls   string `json:"cls"`
	S     []int  `json:"s"`
	T     []int  `json:"t"`
	Clock int    `json:"clock"`
	Node  []int  `json:"node"`
	Sec   []int  `json:"sec"`
	Ns    int    `json:"ns"`
}

type vfC19Vec map[string]interface{}

func vfC19Ints(b []byte) []int {
	r := make([]int, len(b))
	for i, x := range b {
		r[i] = int(x)
	}
	return r
}

func vfC19Bytes(a []int) []byte {
	r := make([]byte, len(a))
	for i, x := range a {
		r[i] = byte(x)
	}
	return r
}

func vfC19I64(v int64) []int {
	var b [8]byte
	binary.BigEndian.PutUint64(b[:], uint64(v))
	return vfC19Ints(b[:])
}

func vfC19ToI64(a []int) int64 { return int64(binary.BigEndian.Uint64(vfC19Bytes(a))) }

// vfC19Str builds the Go string for a sequence of character codes: a code below 0x110000 is a
// Unicode code point (UTF-8 encoded), 0x110000+b is the single byte b standing alone (invalid UTF-8).
func vfC19Str(codes []int) string {
	b := make([]byte, 0, len(codes)+8)
	for _, c := range codes {
		if c >= 0x110000 {
			b = append(b, byte(c-0x110000))
		} else {
			b = append(b, string(rune(c))...)
		}
	}
	return string(b)
}

func vfC19Codes(s string) []int {
	r := []int{}
	for _, c := range s {
		r = append(r, int(c))
	}
	return r
}

func vfC19Env(t *testing.T, name string) string {
	v := os.Getenv(name)
	if v == "" {
		t.Skipf("%s not set", name)
	}
	return v
}

func vfC19Guard(f func()) (pan string) {
	defer func() {
		if r := recover(); r != nil {
			pan = fmt.Sprint(r)
		}
	}()
	f()
	return ""
}

// ---------------------------------------------------------------- observations

// vfC19Parse observes ParseUUID (via "parse").
func vfC19Parse(codes []int) vfC19Vec { return vfC19ParseVia("parse", codes, nil) }

type vfC19Rec struct {
	N  int  `json:"n"`
	ID UUID `json:"id"`
}

// vfC19ParseVia observes one of the parsing entry points on the string codes:
//
//	parse   ParseUUID(s)
//	text    (&u).UnmarshalText(s)                 with u holding pre (16 bytes) before the call
//	json    (&u).UnmarshalJSON("\"" + s + "\"")     likewise
//	jsondec json.Unmarshal(`{"n":1,"id":<s as a JSON string>}`, &rec) into a record that is re-used:
//	        rec.ID holds pre before the call (a decode loop filling one variable again and again)
//
// ok = no error; u = the resulting UUID (the destination after the call).
func vfC19ParseVia(via string, codes []int, pre []byte) vfC19Vec {
	v := vfC19Vec{"k": "parse", "via": via, "pre": vfC19Ints(pre), "s": codes, "ok": false, "u": []int{}, "panic": ""}
	v["panic"] = vfC19Guard(func() {
		str := vfC19Str(codes)
		var u UUID
		copy(u[:], pre)
		var err error
		switch via {
		case "parse":
			u, err = ParseUUID(str)
		case "text":
			err = (&u).UnmarshalText([]byte(str))
		case "json":
			err = (&u).UnmarshalJSON([]byte("\"" + str + "\""))
		case "jsondec":
			rec := vfC19Rec{N: 7, ID: u}
			js, merr := json.Marshal(str)
			if merr != nil {
				panic(merr)
			}
			err = json.Unmarshal([]byte(`{"n":1,"id":`+string(js)+`}`), &rec)
			u = rec.ID
		default:
			panic("vf: unknown via " + via)
		}
		if err == nil {
			v["ok"] = true
			v["u"] = vfC19Ints(u[:])
		}
	})
	return v
}

var vfC19Vias = []string{"parse", "text", "json", "jsondec"}

// destinations that already hold something: all ones, a pattern, a previous UUID
func vfC19Pre(n int) []byte {
	p := make([]byte, 16)
	for i := range p {
		switch n % 3 {
		case 0:
			p[i] = 0xff
		case 1:
			p[i] = byte(0xa5 ^ (i * 17))
		default:
			p[i] = byte(0x10 + i)
		}
	}
	return p
}

// vfC19Print: String() and ParseUUID back; MarshalText / json.Marshal and back through
// UnmarshalText / json.Unmarshal into destinations that already hold another UUID.
// Everything printed is HELD by the harness like a caller holds it: "s", "mt", "js" are the texts
// right after the call, "s2", "mt2", "js2" the same objects read again after further UUIDs have been
// printed (vfC19Writer re-reads them later; the concurrent driver after yielding), and
// "tback2" / "jback2" what the held MarshalText / MarshalJSON output parses to at that later point.
func vfC19Print(b []byte) vfC19Vec {
	v := vfC19Vec{"k": "print", "u": vfC19Ints(b), "s": []int{}, "backok": false, "back": []int{},
		"tbackok": false, "tback": []int{}, "jbackok": false, "jback": []int{},
		"mt": []int{}, "js": []int{}, "s2": []int{}, "mt2": []int{}, "js2": []int{},
		"tback2ok": false, "tback2": []int{}, "jback2ok": false, "jback2": []int{}, "panic": ""}
	var heldS string
	var heldT, heldJ []byte
	got := false
	v["panic"] = vfC19Guard(func() {
		u, err := UUIDFromBytes(b)
		if err != nil {
			panic(err)
		}
		heldS = u.String()
		v["s"] = vfC19Codes(heldS)
		back, err := ParseUUID(heldS)
		if err == nil {
			v["backok"] = true
			v["back"] = vfC19Ints(back[:])
		}
		var t UUID
		copy(t[:], vfC19Pre(int(b[0])))
		if mt, err := u.MarshalText(); err == nil {
			heldT = mt
			v["mt"] = vfC19Codes(string(mt))
			if (&t).UnmarshalText(mt) == nil {
				v["tbackok"] = true
				v["tback"] = vfC19Ints(t[:])
			}
		}
		if mj, err := u.MarshalJSON(); err == nil {
			heldJ = mj
			v["js"] = vfC19Codes(string(mj))
		}
		rec := vfC19Rec{N: 1}
		copy(rec.ID[:], vfC19Pre(int(b[1])))
		if js, err := json.Marshal(vfC19Rec{N: 2, ID: u}); err == nil && json.Unmarshal(js, &rec) == nil {
			v["jbackok"] = true
			v["jback"] = vfC19Ints(rec.ID[:])
		}
		got = true
	})
	v["_re"] = func() {
		if !got {
			return
		}
		if pan := vfC19Guard(func() {
			v["s2"] = vfC19Codes(heldS)
			v["mt2"] = vfC19Codes(string(heldT))
			v["js2"] = vfC19Codes(string(heldJ))
			var t, j UUID
			copy(t[:], vfC19Pre(int(b[2])))
			copy(j[:], vfC19Pre(int(b[3])))
			if (&t).UnmarshalText(heldT) == nil {
				v["tback2ok"] = true
				v["tback2"] = vfC19Ints(t[:])
			}
			if (&j).UnmarshalJSON(heldJ) == nil {
				v["jback2ok"] = true
				v["jback2"] = vfC19Ints(j[:])
			}
		}); pan != "" {
			v["panic"] = pan
		}
	}
	return v
}

func vfC19Getters(v vfC19Vec, u UUID) {
	v["u"] = vfC19Ints(u[:])
	v["ver"] = u.Version()
	v["varietf"] = u.Variant() == VariantIETF
	v["ts"] = vfC19I64(u.Timestamp())
	tm := u.Time()
	v["tsec"] = vfC19I64(tm.Unix())
	v["tns"] = tm.Nanosecond()
}

func vfC19V1(t []int, clock int, node []int) vfC19Vec {
	v := vfC19Vec{"k": "v1", "t": t, "clock": clock, "node": node, "u": []int{}, "str": []int{}, "ver": -1, "varietf": false,
		"ts": []int{}, "tsec": []int{}, "tns": -1, "clk": -1, "nd": []int{}, "panic": ""}
	v["panic"] = vfC19Guard(func() {
		u := TimeUUIDWith(vfC19ToI64(t), uint32(clock), vfC19Bytes(node))
		vfC19Getters(v, u)
		v["str"] = vfC19Codes(u.String())
		v["clk"] = int(u.Clock())
		v["nd"] = vfC19Ints(u.Node())
	})
	return v
}

// the instant (sec, ns) presented in one of three locations: UTC, the local zone, a fixed offset
func vfC19Time(sec []int, ns int, zone int) time.Time {
	tm := time.Unix(vfC19ToI64(sec), int64(ns))
	switch zone % 3 {
	case 0:
		return tm.UTC()
	case 1:
		return tm.In(time.FixedZone("vf", -(5*3600 + 1800)))
	}
	return tm.In(time.FixedZone("vf", 14*3600))
}

func vfC19FromTime(sec []int, ns int, zone int) vfC19Vec {
	v := vfC19Vec{"k": "fromtime", "sec": sec, "ns": ns, "zone": zone, "u": []int{}, "ver": -1, "varietf": false,
		"ts": []int{}, "tsec": []int{}, "tns": -1, "panic": ""}
	v["panic"] = vfC19Guard(func() {
		vfC19Getters(v, UUIDFromTime(vfC19Time(sec, ns, zone)))
	})
	return v
}

func vfC19MinMax(sec []int, ns int, zone int) vfC19Vec {
	v := vfC19Vec{"k": "minmax", "sec": sec, "ns": ns, "zone": zone, "mn": []int{}, "mx": []int{}, "panic": ""}
	v["panic"] = vfC19Guard(func() {
		tm := vfC19Time(sec, ns, zone)
		mn, mx := MinTimeUUID(tm), MaxTimeUUID(tm)
		v["mn"], v["mx"] = vfC19Ints(mn[:]), vfC19Ints(mx[:])
	})
	return v
}

func vfC19Rand() vfC19Vec {
	v := vfC19Vec{"k": "rand", "u": []int{}, "ver": -1, "varietf": false, "panic": ""}
	v["panic"] = vfC19Guard(func() {
		u, err := RandomUUID()
		if err != nil {
			panic(err)
		}
		v["u"] = vfC19Ints(u[:])
		v["ver"] = u.Version()
		v["varietf"] = u.Variant() == VariantIETF
	})
	return v
}

func vfC19Now() vfC19Vec {
	v := vfC19Vec{"k": "now", "u": []int{}, "ver": -1, "varietf": false, "lo": []int{}, "hi": []int{}, "panic": ""}
	v["panic"] = vfC19Guard(func() {
		lo := time.Now().Unix()
		u := TimeUUID()
		hi := time.Now().Unix()
		v["u"] = vfC19Ints(u[:])
		v["ver"] = u.Version()
		v["varietf"] = u.Variant() == VariantIETF
		v["lo"], v["hi"] = vfC19I64(lo-1), vfC19I64(hi+1) // one second of slack for wall-clock adjustments
	})
	return v
}

// ---------------------------------------------------------------- drivers

// vfC19Writer delays every record by vfC19Window later records; values the real code returned stay
// held meanwhile and are re-read ("_re") just before the record is written.
type vfC19Writer struct {
	f    *os.File
	w    *bufio.Writer
	enc  *json.Encoder
	n    int
	held []interface{}
}

const vfC19Window = 6

func vfC19Create(t *testing.T, path string) *vfC19Writer {
	f, err := os.Create(path)
	if err != nil {
		t.Fatal(err)
	}
	w := bufio.NewWriterSize(f, 1<<20)
	return &vfC19Writer{f: f, w: w, enc: json.NewEncoder(w)}
}

func (w *vfC19Writer) write(x interface{}) {
	if v, ok := x.(vfC19Vec); ok {
		if re, ok := v["_re"].(func()); ok {
			re()
		}
		delete(v, "_re")
	}
	if err := w.enc.Encode(x); err != nil {
		panic(err)
	}
}

func (w *vfC19Writer) put(v interface{}) {
	w.n++
	w.held = append(w.held, v)
	if len(w.held) > vfC19Window {
		w.write(w.held[0])
		w.held = w.held[1:]
	}
}

func (w *vfC19Writer) close() {
	for _, v := range w.held {
		w.write(v)
	}
	w.held = nil
	w.w.Flush()
	w.f.Close()
}

// TestVfC19Cases executes TLC-generated cases (VF_CASES): results with the case number "i" go
// to VF_RESULTS; Min/MaxTimeUUID observations (judged by a predicate, not a value) to VF_VECTORS.
func TestVfC19Cases(t *testing.T) {
	in, err := os.Open(vfC19Env(t, "VF_CASES"))
	if err != nil {
		t.Fatal(err)
	}
	defer in.Close()
	res := vfC19Create(t, vfC19Env(t, "VF_RESULTS"))
	defer res.close()
	vec := vfC19Create(t, vfC19Env(t, "VF_VECTORS"))
	defer vec.close()
	sc := bufio.NewScanner(in)
	sc.Buffer(make([]byte, 1<<20), 1<<26)
	for i := 0; sc.Scan(); i++ {
		var c vfC19Case
		if err := json.Unmarshal(sc.Bytes(), &c); err != nil {
			t.Fatal(err)
		}
		switch c.K {
		case "parse":
			v := vfC19Parse(append([]int{}, c.S...))
			v["i"] = i
			res.put(v)
			// the other parsing entry points, into destinations that already hold a UUID: all of them
			// for strings that can be accepted, one (rotating) for the strings that must be refused
			for n, via := range vfC19Vias[1:] {
				if c.Cls == "reject" && (i+n)%3 != 0 {
					continue
				}
				for p := 0; p < 3; p++ {
					if c.Cls == "reject" && p != i%3 {
						continue
					}
					v := vfC19ParseVia(via, append([]int{}, c.S...), vfC19Pre(p))
					v["i"] = i
					res.put(v)
				}
			}
		case "v1":
			v := vfC19V1(c.T, c.Clock, c.Node)
			v["i"] = i
			res.put(v)
		case "time":
			for zone := 0; zone < 3; zone++ {
				v := vfC19FromTime(c.Sec, c.Ns, zone)
				v["i"] = i
				res.put(v)
				vec.put(vfC19MinMax(c.Sec, c.Ns, zone))
			}
		default:
			t.Fatalf("unknown case kind %q", c.K)
		}
	}
	fmt.Printf("VFSUMMARY {\"results\":%d,\"vectors\":%d}\n", res.n, vec.n)
}

// character codes for the random strings (see vfC19Str): hex digits (weighted), hyphen, near misses,
// control and white-space characters, and for every hex digit / hyphen c the colliding code points
// c+0x80, c+0x100, c+0x400, c+0x600, c+0x1E00, c+0xFEE0, c+0xFF00, c+0x10000, c+0x1F600 and the lone
// byte c+0x80 (invalid UTF-8)
var vfC19Alphabet = func() []int {
	hex := []int{}
	for _, c := range "0123456789abcdefABCDEF-" {
		hex = append(hex, int(c))
	}
	a := append([]int{}, hex...)
	a = append(a, hex...)
	for _, c := range "gG/:@` {}xXzZ_+.," {
		a = append(a, int(c))
	}
	a = append(a, 0, 8, 9, 10, 11, 12, 13, 27, 127, 133, 160, 0x2028, 0x3000, 0xFEFF, 233, 0x2010, 0x2212, 0xFFFD, 0x10FFFF)
	for _, c := range hex {
		for _, off := range []int{0x80, 0x100, 0x400, 0x600, 0x630, 0x1E00, 0xFEE0, 0xFF00, 0x10000, 0x1F600} {
			a = append(a, c+off)
		}
		a = append(a, 0x110000+c+0x80)
	}
	for c := 0; c < 256; c++ { // the whole byte range: as code points and (from 128) as lone bytes
		a = append(a, c)
		if c >= 128 {
			a = append(a, 0x110000+c)
		}
	}
	return a
}()

func vfC19RandString(rng *rand.Rand) []int {
	b := make([]byte, 16)
	rng.Read(b)
	u, _ := UUIDFromBytes(b)
	var s []int
	switch rng.Intn(4) {
	case 0:
		s = vfC19Codes(u.String())
	case 1:
		s = vfC19Codes(fmt.Sprintf("%x", b))
	case 2:
		s = vfC19Codes(fmt.Sprintf("%X", b))
	default: // hyphen after random bytes
		for i, x := range b {
			s = append(s, vfC19Codes(fmt.Sprintf("%02x", x))...)
			if i < 15 && rng.Intn(4) == 0 {
				s = append(s, '-')
			}
		}
	}
	for i := range s {
		if rng.Intn(3) == 0 && s[i] >= 'a' && s[i] <= 'f' {
			s[i] -= 32
		}
	}
	pick := func() int { return vfC19Alphabet[rng.Intn(len(vfC19Alphabet))] }
	for n := rng.Intn(3); n > 0; n-- { // mutations
		switch rng.Intn(5) {
		case 0, 1: // replace one character (keeps the length: a colliding character in a digit position)
			if len(s) > 0 {
				s[rng.Intn(len(s))] = pick()
			}
		case 2:
			p := rng.Intn(len(s) + 1)
			s = append(s[:p], append([]int{pick()}, s[p:]...)...)
		case 3:
			if len(s) > 0 {
				p := rng.Intn(len(s))
				s = append(s[:p], s[p+1:]...)
			}
		default:
			if len(s) > 0 {
				s = s[:rng.Intn(len(s)+1)]
			}
		}
	}
	return append([]int{}, s...)
}

// a time inside the 60-bit timestamp range (1582-10-15 .. 5236-03-31), biased to the present
func vfC19RandTime(rng *rand.Rand) ([]int, int) {
	const base, span = int64(-12219292800), int64(115292150460)
	var sec int64
	switch rng.Intn(4) {
	case 0:
		sec = base + rng.Int63n(span)
	case 1:
		sec = rng.Int63n(1 << 32)
	case 2:
		sec = -rng.Int63n(-base)
	default:
		sec = 1700000000 + rng.Int63n(200000000)
	}
	ns := rng.Intn(1000000000)
	switch rng.Intn(5) {
	case 0:
		ns = ns / 100 * 100
	case 1:
		ns = ns/100*100 + 99
	}
	return vfC19I64(sec), ns
}

// TestVfC19Record records VF_N seeded random observations of every kind.
func TestVfC19Record(t *testing.T) {
	vec := vfC19Create(t, vfC19Env(t, "VF_VECTORS"))
	defer vec.close()
	seed, _ := strconv.ParseInt(os.Getenv("VF_SEED"), 10, 64)
	n, _ := strconv.Atoi(os.Getenv("VF_N"))
	if n == 0 {
		n = 1000
	}
	rng := rand.New(rand.NewSource(seed*15485863 + 3))
	for i := 0; i < n; i++ {
		switch x := rng.Intn(20); {
		case x < 6:
			if rng.Intn(2) == 0 {
				vec.put(vfC19Parse(vfC19RandString(rng)))
			} else {
				vec.put(vfC19ParseVia(vfC19Vias[1+rng.Intn(3)], vfC19RandString(rng), vfC19Pre(rng.Intn(3))))
			}
		case x < 9:
			b := make([]byte, 16)
			rng.Read(b)
			if rng.Intn(4) == 0 {
				for j := range b {
					b[j] = []byte{0x00, 0xff, 0x0f, 0xf0, 0xa0, 0x0a, 0x9f, 0xf9}[rng.Intn(8)]
				}
			}
			vec.put(vfC19Print(b))
		case x < 12:
			ts := rng.Int63n(1 << 60)
			if rng.Intn(4) == 0 {
				ts = rng.Int63n(1 << uint(1+rng.Intn(60)))
			}
			node := make([]byte, 6)
			rng.Read(node)
			vec.put(vfC19V1(vfC19I64(ts), rng.Intn(1<<14), vfC19Ints(node)))
		case x < 15:
			sec, ns := vfC19RandTime(rng)
			vec.put(vfC19FromTime(sec, ns, rng.Intn(3)))
		case x < 17:
			sec, ns := vfC19RandTime(rng)
			vec.put(vfC19MinMax(sec, ns, rng.Intn(3)))
		case x < 19:
			vec.put(vfC19Rand())
		default:
			vec.put(vfC19Now())
		}
	}
	fmt.Printf("VFSUMMARY {\"vectors\":%d}\n", vec.n)
}

// TestVfC19Concurrent: VF_G goroutines call TimeUUID() VF_M times each, all released together.
// Every UUID obtained is written to shard file VF_CONC_<octet 3 mod VF_SHARDS>.ndjson.
func TestVfC19Concurrent(t *testing.T) {
	dir := vfC19Env(t, "VF_CONC_DIR")
	g, _ := strconv.Atoi(os.Getenv("VF_G"))
	m, _ := strconv.Atoi(os.Getenv("VF_M"))
	ns, _ := strconv.Atoi(os.Getenv("VF_SHARDS"))
	if g == 0 || m == 0 || ns == 0 {
		t.Fatal("VF_G, VF_M, VF_SHARDS required")
	}
	got := make([][]UUID, g)
	for i := range got {
		got[i] = make([]UUID, m)
	}
	var wg sync.WaitGroup
	start := make(chan struct{})
	c0 := atomic.LoadUint32(&clockSeq)
	for i := 0; i < g; i++ {
		wg.Add(1)
		go func(mine []UUID) {
			defer wg.Done()
			<-start
			for j := range mine {
				mine[j] = TimeUUID()
			}
		}(got[i])
	}
	close(start)
	wg.Wait()
	c1 := atomic.LoadUint32(&clockSeq)
	counts := make([]int, ns)
	for _, us := range got {
		for _, u := range us {
			counts[int(u[3])%ns]++
		}
	}
	be4 := func(v uint32) []int {
		var b [4]byte
		binary.BigEndian.PutUint32(b[:], v)
		return vfC19Ints(b[:])
	}
	ws := make([]*vfC19Writer, ns)
	for s := range ws {
		ws[s] = vfC19Create(t, fmt.Sprintf("%s/conc_%d.ndjson", dir, s))
		ws[s].put(map[string]interface{}{"shard": s, "nshard": ns, "n": counts[s], "total": g * m, "c0": be4(c0), "c1": be4(c1)})
	}
	for gi, us := range got {
		for _, u := range us {
			ws[int(u[3])%ns].put(map[string]interface{}{"g": gi, "u": vfC19Ints(u[:])})
		}
	}
	for _, w := range ws {
		w.close()
	}
	fmt.Printf("VFSUMMARY {\"goroutines\":%d,\"each\":%d,\"total\":%d}\n", g, m, g*m)
}

// TestVfC19WrapDemo shows the mechanism behind the uniqueness limit on the real code: the clock
// sequence has 14 bits, so the same time presented again 2^14 calls later gives the same UUID.
// Informational (UUIDFromTime with an explicit time is not "generated from the current time").
func TestVfC19WrapDemo(t *testing.T) {
	tm := time.Unix(1700000000, 0)
	u1 := UUIDFromTime(tm)
	for i := 0; i < 1<<14-1; i++ {
		UUIDFromTime(tm.Add(100 * time.Nanosecond))
	}
	u2 := UUIDFromTime(tm)
	fmt.Printf("VFWRAP first=%s after_16384_calls=%s equal=%v\n", u1, u2, u1 == u2)
}

// TestVfC19PrintConcurrent: VF_G goroutines each print their own random UUIDs (String, MarshalText,
// MarshalJSON), hold what they got, yield so that other goroutines print other UUIDs, and read the
// held texts again.  Once with 2 Ps (several goroutines share a P) and once with all Ps.
func TestVfC19PrintConcurrent(t *testing.T) {
	vec := vfC19Create(t, vfC19Env(t, "VF_VECTORS"))
	defer vec.close()
	seed, _ := strconv.ParseInt(os.Getenv("VF_SEED"), 10, 64)
	g, _ := strconv.Atoi(os.Getenv("VF_G"))
	m, _ := strconv.Atoi(os.Getenv("VF_M"))
	if g == 0 || m == 0 {
		t.Fatal("VF_G, VF_M required")
	}
	for phase, procs := range []int{2, runtime.NumCPU()} {
		old := runtime.GOMAXPROCS(procs)
		got := make([][]vfC19Vec, g)
		var wg sync.WaitGroup
		start := make(chan struct{})
		for gi := 0; gi < g; gi++ {
			wg.Add(1)
			go func(gi int) {
				defer wg.Done()
				rng := rand.New(rand.NewSource(seed*2750159 + int64(phase*1000+gi)))
				<-start
				for j := 0; j < m; j++ {
					b := make([]byte, 16)
					rng.Read(b)
					v := vfC19Print(b)
					for y := rng.Intn(3); y >= 0; y-- {
						runtime.Gosched()
					}
					v["_re"].(func())()
					delete(v, "_re")
					v["g"] = gi
					got[gi] = append(got[gi], v)
				}
			}(gi)
		}
		close(start)
		wg.Wait()
		runtime.GOMAXPROCS(old)
		for _, vs := range got {
			for _, v := range vs {
				vec.put(v)
			}
		}
	}
	fmt.Printf("VFSUMMARY {\"vectors\":%d}\n", vec.n)
}
