package gocql

// Verification harness for property C09 (partition tokens): partitioners, token strings and
// routing keys.  Overlaid into package gocql by /verif/bin/check.  Glue only: inputs come from
// TLC (cases) or a seeded generator (vectors); the outputs of the real code are written down
// and judged by TLC / against TLC's expected values.  crypto/md5 is used directly to hand the
// digest to the specification (trusted).

import (
	"bufio"
	"crypto/md5"
	"encoding/binary"
	"encoding/json"
	"fmt"
	"math/big"
	"math/rand"
	"os"
	"runtime"
	"strconv"
	"sync"
	"sync/atomic"
	"testing"

	"github.com/gocql/gocql/internal/lru"
	"github.com/gocql/gocql/internal/streams"
)

type vfC09Comp struct {
	T string `json:"t"`
	N int    `json:"n"`
	B []int  `json:"b"`
}

type vfC09Step struct {
	Op   string      `json:"op"`
	Vals []vfC09Comp `json:"vals"`
	B    []int       `json:"b"`
	Ix   []int       `json:"ix"`
}

type vfC09Case struct {
	Obj   string      `json:"obj"`
	Steps []vfC09Step `json:"steps"`
	K     string      `json:"k"`
	Key   []int       `json:"key"`
	Vals  []vfC09Comp `json:"vals"`
	Idx   []int       `json:"idx"`
	P     string      `json:"p"`
	A     []int       `json:"a"`
	B     []int       `json:"b"`
}

// one record per observation; fields not used by a kind are omitted (never null)
type vfC09Vec map[string]interface{}

func vfC09Ints(b []byte) []int {
	r := make([]int, len(b))
	for i, x := range b {
		r[i] = int(x)
	}
	return r
}

func vfC09Bytes(a []int) []byte {
	r := make([]byte, len(a))
	for i, x := range a {
		r[i] = byte(x)
	}
	return r
}

func vfC09Env(t *testing.T, name string) string {
	v := os.Getenv(name)
	if v == "" {
		t.Skipf("%s not set", name)
	}
	return v
}

func vfC09Guard(f func()) (pan string) {
	defer func() {
		if r := recover(); r != nil {
			pan = fmt.Sprint(r)
		}
	}()
	f()
	return ""
}

func vfC09Partitioner(p string) partitioner {
	switch p {
	case "m3":
		return murmur3Partitioner{}
	case "rnd":
		return randomPartitioner{}
	}
	return orderedPartitioner{}
}

// ---------------------------------------------------------------- observations

// The token object is HELD: "out" is its text right after Hash, "out2" its text after further
// tokens / routing keys have been produced (see vfC09Writer).
func vfC09Hash(p string, key []byte) vfC09Vec {
	v := vfC09Vec{"k": p, "key": vfC09Ints(key), "out": []int{}, "out2": []int{}, "panic": ""}
	if p == "rnd" {
		sum := md5.Sum(key)
		v["md5"] = vfC09Ints(sum[:])
	}
	var held token
	v["panic"] = vfC09Guard(func() {
		held = vfC09Partitioner(p).Hash(key)
		v["out"] = vfC09Ints([]byte(held.String()))
	})
	v["_re"] = func() {
		if held == nil {
			return
		}
		if pan := vfC09Guard(func() { v["out2"] = vfC09Ints([]byte(held.String())) }); pan != "" {
			v["panic"] = pan
		}
	}
	return v
}

func vfC09Ord(a, b []byte) vfC09Vec {
	v := vfC09Vec{"k": "ord", "a": vfC09Ints(a), "b": vfC09Ints(b), "sa": []int{}, "less": false, "panic": ""}
	v["panic"] = vfC09Guard(func() {
		p := orderedPartitioner{}
		ta, tb := p.Hash(a), p.Hash(b)
		v["sa"] = vfC09Ints([]byte(ta.String()))
		v["less"] = ta.Less(tb)
	})
	return v
}

func vfC09Cmp(p string, a, b []byte) vfC09Vec {
	v := vfC09Vec{"k": "cmp", "p": p, "a": vfC09Ints(a), "b": vfC09Ints(b), "ra": []int{}, "less": false, "panic": ""}
	v["panic"] = vfC09Guard(func() {
		pt := vfC09Partitioner(p)
		ta, tb := pt.ParseString(string(a)), pt.ParseString(string(b))
		v["ra"] = vfC09Ints([]byte(ta.String()))
		v["less"] = ta.Less(tb)
	})
	return v
}

func vfC09CmpKey(p string, a, key []byte) vfC09Vec {
	sum := md5.Sum(key)
	v := vfC09Vec{"k": "cmpk", "p": p, "a": vfC09Ints(a), "key": vfC09Ints(key), "md5": vfC09Ints(sum[:]),
		"ak": false, "ka": false, "panic": ""}
	v["panic"] = vfC09Guard(func() {
		pt := vfC09Partitioner(p)
		ta, tk := pt.ParseString(string(a)), pt.Hash(key)
		v["ak"] = ta.Less(tk)
		v["ka"] = tk.Less(ta)
	})
	return v
}

// ---------------------------------------------------------------- routing keys

func vfC09Value(c vfC09Comp) (TypeInfo, interface{}) {
	b := vfC09Bytes(c.B)
	switch c.T {
	case "blob":
		return NewNativeType(4, TypeBlob, ""), b
	case "text":
		return NewNativeType(4, TypeVarchar, ""), string(b)
	case "int":
		return NewNativeType(4, TypeInt, ""), c.N
	case "bigint":
		return NewNativeType(4, TypeBigInt, ""), int64(c.N)
	case "bigint8":
		return NewNativeType(4, TypeBigInt, ""), int64(binary.BigEndian.Uint64(b))
	case "boolean":
		return NewNativeType(4, TypeBoolean, ""), c.N != 0
	case "uuid":
		u, err := UUIDFromBytes(b)
		if err != nil {
			panic(err)
		}
		return NewNativeType(4, TypeUUID, ""), u
	}
	panic("vf: unknown component type " + c.T)
}

var vfC09StmtN int64

// vfC09Session builds a session without network whose prepared-statement cache already holds
// the PREPARE result for stmt, so that Session.routingKeyInfo derives the routing key
// description from that metadata.  pkeyV4: the PREPARED frame carried partition-key indexes
// (protocol v4); otherwise the key columns are looked up by name in the table metadata.
func vfC09Session(stmt string, cols []ColumnInfo, pkIdx []int, pkeyV4 bool) *Session {
	s := &Session{}
	s.routingKeyInfoCache.lru = lru.New(16)
	s.stmtsLRU = &preparedLRU{lru: lru.New(16)}
	host := &HostInfo{hostId: "vf-host", state: NodeUp}
	s.ring.hosts = map[string]*HostInfo{"vf-host": host}
	conn := &Conn{session: s, host: host, streams: streams.New(4)}
	s.pool = &policyConnPool{session: s, hostConnPools: map[string]*hostConnPool{
		"vf-host": {session: s, host: host, size: 1, conns: []*Conn{conn}},
	}}
	vfC09AddStmt(s, stmt, cols, pkIdx, pkeyV4)
	return s
}

// vfC09AddStmt puts the PREPARE result of one more statement into the session's cache.
func vfC09AddStmt(s *Session, stmt string, cols []ColumnInfo, pkIdx []int, pkeyV4 bool) {
	meta := preparedMetadata{keyspace: "ks", table: "tbl"}
	meta.columns = cols
	meta.colCount = len(cols)
	meta.actualColCount = len(cols)
	if pkeyV4 {
		meta.pkeyColumns = pkIdx
	} else {
		tm := &TableMetadata{Keyspace: "ks", Name: "tbl"}
		for k, i := range pkIdx {
			name := "lit" + strconv.Itoa(k) // a key column the statement gives as a literal: no bind marker
			if i >= 0 {
				name = cols[i].Name
			}
			tm.PartitionKey = append(tm.PartitionKey, &ColumnMetadata{Keyspace: "ks", Table: "tbl", Name: name})
		}
		s.schemaDescriber = &schemaDescriber{session: s, cache: map[string]*KeyspaceMetadata{
			"ks": {Name: "ks", Tables: map[string]*TableMetadata{"tbl": tm}},
		}}
	}
	done := make(chan struct{})
	close(done)
	s.stmtsLRU.add(s.stmtsLRU.keyFor("vf-host", "", stmt), &inflightPrepare{done: done,
		preparedStatment: &preparedStatment{id: []byte{1}, request: meta}})
}

// vfC09Routing observes the routing key for bound values vals whose partition-key columns are,
// in partition-key order, at the 1-based positions idx.
// The returned slice is HELD by the harness the way a caller holds it until it hashes it: "out" is
// its content right after the call, "out2" its content after further routing keys for other values
// have been produced (vfC09Writer re-reads it later; the concurrent driver after yielding).
func vfC09Routing(via string, vals []vfC09Comp, idx []int) vfC09Vec {
	v := vfC09Vec{"k": "rk", "via": via, "vals": vals, "idx": idx, "out": []int{}, "out2": []int{}, "err": "", "panic": ""}
	var held []byte
	v["_re"] = func() { v["out2"] = vfC09Ints(held) }
	v["panic"] = vfC09Guard(func() {
		values := make([]interface{}, len(vals))
		types := make([]TypeInfo, len(vals))
		cols := make([]ColumnInfo, len(vals))
		for i, c := range vals {
			types[i], values[i] = vfC09Value(c)
			cols[i] = ColumnInfo{Keyspace: "ks", Table: "tbl", Name: "c" + strconv.Itoa(i), TypeInfo: types[i]}
		}
		idx0 := make([]int, len(idx))
		ktypes := make([]TypeInfo, len(idx))
		for i, x := range idx {
			idx0[i] = x - 1 // 0 = key column not bound by a marker (-1): only the schema paths can express it
			if x > 0 {
				ktypes[i] = types[x-1]
			}
		}
		var out []byte
		var err error
		stmt := "SELECT * FROM ks.tbl WHERE vf = " + strconv.FormatInt(atomic.AddInt64(&vfC09StmtN, 1), 10)
		switch via {
		case "create":
			out, err = createRoutingKey(&routingKeyInfo{indexes: idx0, types: ktypes, keyspace: "ks", table: "tbl"}, values)
		case "query":
			s := &Session{}
			s.routingKeyInfoCache.lru = lru.New(4)
			s.routingKeyInfoCache.lru.Add(stmt, &inflightCachedEntry{
				value: &routingKeyInfo{indexes: idx0, types: ktypes, keyspace: "ks", table: "tbl"}})
			q := &Query{stmt: stmt, values: values, session: s, routingInfo: &queryRoutingInfo{}}
			out, err = q.GetRoutingKey()
		case "prepared4", "preparedmeta":
			s := vfC09Session(stmt, cols, idx0, via == "prepared4")
			q := &Query{stmt: stmt, values: values, session: s, routingInfo: &queryRoutingInfo{}}
			out, err = q.GetRoutingKey()
		case "batch", "batchmeta":
			s := vfC09Session(stmt, cols, idx0, via == "batch")
			b := &Batch{session: s, routingInfo: &queryRoutingInfo{}}
			b.Entries = append(b.Entries, BatchEntry{Stmt: stmt, Args: values})
			out, err = b.GetRoutingKey()
		default:
			panic("vf: unknown via " + via)
		}
		if err != nil {
			v["err"] = err.Error()
			if v["err"] == "" {
				v["err"] = "error"
			}
		}
		held = out
		v["out"] = vfC09Ints(out)
	})
	return v
}

func vfC09Bound(vals []vfC09Comp) ([]interface{}, []TypeInfo, []ColumnInfo) {
	values := make([]interface{}, len(vals))
	types := make([]TypeInfo, len(vals))
	cols := make([]ColumnInfo, len(vals))
	for i, c := range vals {
		types[i], values[i] = vfC09Value(c)
		cols[i] = ColumnInfo{Keyspace: "ks", Table: "tbl", Name: "c" + strconv.Itoa(i), TypeInfo: types[i]}
	}
	return values, types, cols
}

func vfC09NewStmt() string {
	return "SELECT * FROM ks.tbl WHERE vf = " + strconv.FormatInt(atomic.AddInt64(&vfC09StmtN, 1), 10)
}

// vfC09Seq runs a script on ONE Query (obj "query": bind = Query.Bind, route = Query.RoutingKey(b),
// clear = Query.RoutingKey(nil), get = Query.GetRoutingKey) or ONE Batch (add = Batch.Query with a
// statement of its own whose key positions are step.ix, get = Batch.GetRoutingKey).  "outs" holds the
// key observed at every get; every returned slice stays held and is re-read later ("outs2").
func vfC09Seq(via, obj string, idx []int, steps []vfC09Step) vfC09Vec {
	v := vfC09Vec{"k": "rkseq", "via": via, "obj": obj, "idx": idx, "steps": steps, "outs": [][]int{}, "outs2": [][]int{},
		"err": "", "panic": ""}
	var held [][]byte
	v["_re"] = func() {
		o2 := [][]int{}
		for _, h := range held {
			o2 = append(o2, vfC09Ints(h))
		}
		v["outs2"] = o2
	}
	v["panic"] = vfC09Guard(func() {
		outs := [][]int{}
		note := func(out []byte, err error) {
			if err != nil && v["err"] == "" {
				v["err"] = "get " + strconv.Itoa(len(outs)+1) + ": " + err.Error()
			}
			held = append(held, out)
			outs = append(outs, vfC09Ints(out))
			v["outs"] = outs
		}
		idx0 := make([]int, len(idx))
		for i, x := range idx {
			idx0[i] = x - 1
		}
		if obj == "batch" {
			s := vfC09Session(vfC09NewStmt(), nil, nil, true)
			b := &Batch{session: s, routingInfo: &queryRoutingInfo{}}
			for _, st := range steps {
				switch st.Op {
				case "add":
					values, _, cols := vfC09Bound(st.Vals)
					ix0 := make([]int, len(st.Ix))
					for i, x := range st.Ix {
						ix0[i] = x - 1
					}
					stmt := vfC09NewStmt()
					vfC09AddStmt(s, stmt, cols, ix0, true)
					b.Query(stmt, values...)
				case "get":
					note(b.GetRoutingKey())
				default:
					panic("vf: unknown batch step " + st.Op)
				}
			}
			return
		}
		// the statement's bind markers: taken from the first bind of the script
		var types []TypeInfo
		var cols []ColumnInfo
		for _, st := range steps {
			if st.Op == "bind" {
				_, types, cols = vfC09Bound(st.Vals)
				break
			}
		}
		stmt := vfC09NewStmt()
		var s *Session
		switch via {
		case "query":
			ktypes := make([]TypeInfo, len(idx0))
			for i, x := range idx0 {
				if x < len(types) {
					ktypes[i] = types[x]
				}
			}
			s = &Session{}
			s.routingKeyInfoCache.lru = lru.New(4)
			s.routingKeyInfoCache.lru.Add(stmt, &inflightCachedEntry{
				value: &routingKeyInfo{indexes: idx0, types: ktypes, keyspace: "ks", table: "tbl"}})
		case "prepared4", "preparedmeta":
			s = vfC09Session(stmt, cols, idx0, via == "prepared4")
		default:
			panic("vf: unknown via " + via)
		}
		q := &Query{stmt: stmt, session: s, routingInfo: &queryRoutingInfo{}}
		for _, st := range steps {
			switch st.Op {
			case "bind":
				values, _, _ := vfC09Bound(st.Vals)
				q.Bind(values...)
			case "route":
				q.RoutingKey(vfC09Bytes(st.B))
			case "clear":
				q.RoutingKey(nil)
			case "get":
				note(q.GetRoutingKey())
			default:
				panic("vf: unknown query step " + st.Op)
			}
		}
	})
	return v
}

func vfC09SeqVias(obj string) []string {
	if obj == "batch" {
		return []string{"batch"}
	}
	return []string{"query", "prepared4", "preparedmeta"}
}

var vfC09Vias = []string{"create", "query", "prepared4", "preparedmeta", "batch", "batchmeta"}

// vfC09ViasFor: a statement that leaves a key column to a literal (idx 0) comes with a PREPARE result
// without partition-key indexes on every protocol version, i.e. the table-metadata paths
func vfC09ViasFor(idx []int) []string {
	for _, x := range idx {
		if x == 0 {
			return []string{"preparedmeta", "batchmeta"}
		}
	}
	return vfC09Vias
}

// ---------------------------------------------------------------- drivers

// vfC09Writer delays every record by vfC09Window later records: values returned by the real code
// (routing-key slices, tokens) stay held meanwhile and are re-read ("_re") just before the record is
// written, so that a returned value that is changed by LATER calls is observed.
type vfC09Writer struct {
	f    *os.File
	w    *bufio.Writer
	enc  *json.Encoder
	n    int
	held []vfC09Vec
}

const vfC09Window = 8

func vfC09Create(t *testing.T, path string) *vfC09Writer {
	f, err := os.Create(path)
	if err != nil {
		t.Fatal(err)
	}
	w := bufio.NewWriter(f)
	return &vfC09Writer{f: f, w: w, enc: json.NewEncoder(w)}
}

func (w *vfC09Writer) write(v vfC09Vec) {
	if re, ok := v["_re"].(func()); ok {
		re()
	}
	delete(v, "_re")
	if err := w.enc.Encode(v); err != nil {
		panic(err)
	}
}

func (w *vfC09Writer) put(v vfC09Vec) {
	w.n++
	w.held = append(w.held, v)
	if len(w.held) > vfC09Window {
		w.write(w.held[0])
		w.held = w.held[1:]
	}
}

func (w *vfC09Writer) close() {
	for _, v := range w.held {
		w.write(v)
	}
	w.held = nil
	w.w.Flush()
	w.f.Close()
}

// TestVfC09TokenCases executes the TLC-generated cases (VF_CASES).  Results that TLC already
// computed an expectation for go to VF_RESULTS (field "i" = case number); observations that
// need TLC to judge them (RandomPartitioner: needs the digest) go to VF_VECTORS.
func TestVfC09TokenCases(t *testing.T) {
	in, err := os.Open(vfC09Env(t, "VF_CASES"))
	if err != nil {
		t.Fatal(err)
	}
	defer in.Close()
	res := vfC09Create(t, vfC09Env(t, "VF_RESULTS"))
	defer res.close()
	vec := vfC09Create(t, vfC09Env(t, "VF_VECTORS"))
	defer vec.close()
	sc := bufio.NewScanner(in)
	sc.Buffer(make([]byte, 1<<20), 1<<26)
	for i := 0; sc.Scan(); i++ {
		var c vfC09Case
		if err := json.Unmarshal(sc.Bytes(), &c); err != nil {
			t.Fatal(err)
		}
		switch c.K {
		case "key":
			key := vfC09Bytes(c.Key)
			if len(key) > 0 {
				v := vfC09Hash("m3", key)
				v["i"] = i
				res.put(v)
				vec.put(vfC09Hash("rnd", key))
			}
		case "rk":
			for _, via := range vfC09ViasFor(c.Idx) {
				v := vfC09Routing(via, c.Vals, c.Idx)
				v["i"] = i
				res.put(v)
			}
		case "rkseq":
			for _, via := range vfC09SeqVias(c.Obj) {
				v := vfC09Seq(via, c.Obj, c.Idx, c.Steps)
				v["i"] = i
				res.put(v)
			}
		case "cmp":
			v := vfC09Cmp(c.P, vfC09Bytes(c.A), vfC09Bytes(c.B))
			v["i"] = i
			res.put(v)
		case "ord":
			v := vfC09Ord(vfC09Bytes(c.A), vfC09Bytes(c.B))
			v["i"] = i
			res.put(v)
		default:
			t.Fatalf("unknown case kind %q", c.K)
		}
	}
	fmt.Printf("VFSUMMARY {\"results\":%d,\"vectors\":%d}\n", res.n, vec.n)
}

func vfC09RandKey(rng *rand.Rand, maxLen int) []byte {
	classes := []byte{0x00, 0x01, 0x7f, 0x80, 0xff}
	key := make([]byte, 1+rng.Intn(maxLen))
	mode := rng.Intn(3)
	for j := range key {
		if mode == 0 || mode == 1 && rng.Intn(2) == 0 {
			key[j] = byte(rng.Intn(256))
		} else {
			key[j] = classes[rng.Intn(len(classes))]
		}
	}
	return key
}

func vfC09RandComp(rng *rand.Rand) vfC09Comp {
	switch rng.Intn(7) {
	case 0:
		return vfC09Comp{T: "int", N: int(int32(rng.Uint32())), B: []int{}}
	case 1:
		return vfC09Comp{T: "bigint", N: int(int32(rng.Uint32())), B: []int{}}
	case 2:
		b := make([]byte, 8)
		rng.Read(b)
		return vfC09Comp{T: "bigint8", B: vfC09Ints(b)}
	case 3:
		return vfC09Comp{T: "boolean", N: rng.Intn(2), B: []int{}}
	case 4:
		b := make([]byte, 16)
		rng.Read(b)
		return vfC09Comp{T: "uuid", B: vfC09Ints(b)}
	case 5:
		b := make([]byte, rng.Intn(12))
		for i := range b {
			b[i] = byte(0x20 + rng.Intn(0x5f))
		}
		return vfC09Comp{T: "text", B: vfC09Ints(b)}
	}
	n := rng.Intn(20)
	if rng.Intn(10) == 0 {
		n = 250 + rng.Intn(400)
	}
	b := make([]byte, n)
	rng.Read(b)
	return vfC09Comp{T: "blob", B: vfC09Ints(b)}
}

func vfC09RandCompOf(rng *rand.Rand, t string) vfC09Comp {
	for {
		if c := vfC09RandComp(rng); c.T == t {
			return c
		}
	}
}

func vfC09RandIdx(rng *rand.Rand, nv int) []int {
	perm := rng.Perm(nv)
	nk := 1 + rng.Intn(nv)
	if nk > 3 {
		nk = 3
	}
	idx := make([]int, nk)
	for j := range idx {
		idx[j] = perm[j] + 1
	}
	return idx
}

// a random script on one Query / Batch (see vfC09Seq); an explicit routing key is always cleared
// before the query is bound again
func vfC09RandSeq(rng *rand.Rand) vfC09Vec {
	empty := func(op string) vfC09Step { return vfC09Step{Op: op, Vals: []vfC09Comp{}, B: []int{}, Ix: []int{}} }
	nv := 1 + rng.Intn(3)
	base := make([]vfC09Comp, nv)
	for j := range base {
		base[j] = vfC09RandComp(rng)
	}
	tuple := func() []vfC09Comp {
		t := make([]vfC09Comp, nv)
		for j := range t {
			t[j] = base[j]
			if rng.Intn(3) > 0 {
				t[j] = vfC09RandCompOf(rng, base[j].T)
			}
		}
		return t
	}
	n := 3 + rng.Intn(6)
	steps := []vfC09Step{}
	if rng.Intn(4) == 0 {
		for len(steps) < n {
			if rng.Intn(2) == 0 {
				st := empty("add")
				m := 1 + rng.Intn(3)
				for j := 0; j < m; j++ {
					st.Vals = append(st.Vals, vfC09RandComp(rng))
				}
				st.Ix = vfC09RandIdx(rng, m)
				steps = append(steps, st)
			} else {
				steps = append(steps, empty("get"))
			}
		}
		return vfC09Seq("batch", "batch", []int{1}, steps)
	}
	idx := vfC09RandIdx(rng, nv)
	bound, over := false, false
	first := empty("bind")
	first.Vals = tuple()
	for len(steps) < n {
		switch x := rng.Intn(10); {
		case x < 4 && !over:
			st := empty("bind")
			if !bound {
				st = first
			} else {
				st.Vals = tuple()
			}
			steps = append(steps, st)
			bound = true
		case x < 8 && (bound || over):
			steps = append(steps, empty("get"))
		case x == 8 && bound && !over: // the script needs a bind first so that the statement's types are known
			st := empty("route")
			b := make([]byte, 1+rng.Intn(6))
			rng.Read(b)
			st.B = vfC09Ints(b)
			steps = append(steps, st)
			over = true
		case x == 9 && over:
			steps = append(steps, empty("clear"))
			over = false
		}
	}
	if !over {
		steps = append(steps, empty("get"))
	}
	return vfC09Seq([]string{"query", "prepared4", "preparedmeta"}[rng.Intn(3)], "query", idx, steps)
}

// a decimal numeral near the token of key (so that comparisons are decided in the low digits)
func vfC09Near(rng *rand.Rand, p string, key []byte) []byte {
	var n *big.Int
	n, _ = new(big.Int).SetString(vfC09Partitioner(p).Hash(key).String(), 10)
	if n == nil {
		n = new(big.Int)
	}
	n.Add(n, big.NewInt(int64(rng.Intn(5)-2)))
	lo, hi := new(big.Int).Lsh(big.NewInt(-1), 63), new(big.Int).Sub(new(big.Int).Lsh(big.NewInt(1), 63), big.NewInt(1))
	if p == "rnd" {
		lo, hi = big.NewInt(0), new(big.Int).Lsh(big.NewInt(1), 127)
	}
	if n.Cmp(lo) < 0 {
		n = lo
	}
	if n.Cmp(hi) > 0 {
		n = hi
	}
	return []byte(n.String())
}

func vfC09RandTok(rng *rand.Rand, p string) []byte {
	bits := 64
	if p == "rnd" {
		bits = 127
	}
	n := new(big.Int).Rand(rng, new(big.Int).Lsh(big.NewInt(1), uint(1+rng.Intn(bits))))
	if p == "m3" {
		n.Sub(n, new(big.Int).Rand(rng, new(big.Int).Lsh(big.NewInt(1), uint(1+rng.Intn(63)))))
		lo, hi := new(big.Int).Lsh(big.NewInt(-1), 63), new(big.Int).Sub(new(big.Int).Lsh(big.NewInt(1), 63), big.NewInt(1))
		if n.Cmp(lo) < 0 {
			n = lo
		}
		if n.Cmp(hi) > 0 {
			n = hi
		}
	}
	return []byte(n.String())
}

// TestVfC09TokenRecord records VF_N seeded random observations of every kind.
func TestVfC09TokenRecord(t *testing.T) {
	vec := vfC09Create(t, vfC09Env(t, "VF_VECTORS"))
	defer vec.close()
	seed, _ := strconv.ParseInt(os.Getenv("VF_SEED"), 10, 64)
	n, _ := strconv.Atoi(os.Getenv("VF_N"))
	if n == 0 {
		n = 1000
	}
	rng := rand.New(rand.NewSource(seed*104729 + 5))
	for i := 0; i < n; i++ {
		switch x := rng.Intn(22); {
		case x >= 20:
			vec.put(vfC09RandSeq(rng))
		case x < 8:
			vec.put(vfC09Hash("m3", vfC09RandKey(rng, 70)))
		case x < 11:
			vec.put(vfC09Hash("rnd", vfC09RandKey(rng, 40)))
		case x < 12:
			a := vfC09RandKey(rng, 6)
			b := vfC09RandKey(rng, 6)
			if rng.Intn(3) == 0 {
				b = append(append([]byte{}, a...), b[:rng.Intn(2)]...)
			}
			vec.put(vfC09Ord(a, b))
		case x < 14:
			p := []string{"m3", "rnd"}[rng.Intn(2)]
			vec.put(vfC09Cmp(p, vfC09RandTok(rng, p), vfC09RandTok(rng, p)))
		case x < 17:
			p := []string{"m3", "m3", "rnd"}[rng.Intn(3)]
			key := vfC09RandKey(rng, 24)
			a := vfC09Near(rng, p, key)
			if rng.Intn(4) == 0 {
				a = vfC09RandTok(rng, p)
			}
			vec.put(vfC09CmpKey(p, a, key))
		default:
			nv := 1 + rng.Intn(4)
			vals := make([]vfC09Comp, nv)
			for j := range vals {
				vals[j] = vfC09RandComp(rng)
			}
			perm := rng.Perm(nv)
			nk := 1 + rng.Intn(nv)
			if nk > 3 {
				nk = 3
			}
			idx := make([]int, nk)
			for j := range idx {
				idx[j] = perm[j] + 1
			}
			if len(idx) > 1 && rng.Intn(4) == 0 {
				idx[rng.Intn(len(idx))] = 0 // this key column is a literal in the statement
			}
			vias := vfC09ViasFor(idx)
			vec.put(vfC09Routing(vias[rng.Intn(len(vias))], vals, idx))
		}
	}
	fmt.Printf("VFSUMMARY {\"vectors\":%d}\n", vec.n)
}

// TestVfC09TokenConcurrent: VF_G goroutines each obtain routing keys for their own random values,
// hold the returned slice, yield so that other goroutines produce keys for other values, and re-read
// the held slice ("out2").  Run once with 2 Ps (several goroutines share a P) and once with all Ps.
func TestVfC09TokenConcurrent(t *testing.T) {
	vec := vfC09Create(t, vfC09Env(t, "VF_VECTORS"))
	defer vec.close()
	seed, _ := strconv.ParseInt(os.Getenv("VF_SEED"), 10, 64)
	g, _ := strconv.Atoi(os.Getenv("VF_G"))
	m, _ := strconv.Atoi(os.Getenv("VF_M"))
	if g == 0 || m == 0 {
		t.Fatal("VF_G, VF_M required")
	}
	for phase, procs := range []int{2, runtime.NumCPU()} {
		old := runtime.GOMAXPROCS(procs)
		got := make([][]vfC09Vec, g)
		var wg sync.WaitGroup
		start := make(chan struct{})
		for gi := 0; gi < g; gi++ {
			wg.Add(1)
			go func(gi int) {
				defer wg.Done()
				rng := rand.New(rand.NewSource(seed*7368787 + int64(phase*1000+gi)))
				<-start
				for j := 0; j < m; j++ {
					nv := 2 + rng.Intn(3)
					vals := make([]vfC09Comp, nv)
					for x := range vals {
						vals[x] = vfC09RandComp(rng)
					}
					perm := rng.Perm(nv)
					nk := 1 + rng.Intn(3)
					if nk > nv {
						nk = nv
					}
					idx := make([]int, nk)
					for x := range idx {
						idx[x] = perm[x] + 1
					}
					v := vfC09Routing(vfC09Vias[rng.Intn(len(vfC09Vias))], vals, idx)
					for y := rng.Intn(3); y >= 0; y-- {
						runtime.Gosched()
					}
					v["_re"].(func())()
					delete(v, "_re")
					v["g"] = gi
					got[gi] = append(got[gi], v)
				}
			}(gi)
		}
		close(start)
		wg.Wait()
		runtime.GOMAXPROCS(old)
		for _, vs := range got {
			for _, v := range vs {
				vec.put(v)
			}
		}
	}
	fmt.Printf("VFSUMMARY {\"vectors\":%d}\n", vec.n)
}
