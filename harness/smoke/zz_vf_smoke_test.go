package gocql

import (
	"testing"
	"time"
)

// TestVfSmoke: a full Session (control connection, ring refresh, query, close) over the scripted cluster.
func TestVfSmoke(t *testing.T) {
	cl := &vfCluster{Partitioner: "org.apache.cassandra.dht.Murmur3Partitioner", Version: "3.11.4"}
	cl.Set([]vfHostDesc{vfDesc(1), vfDesc(2), vfDesc(3)})
	var nodes []*vfNode
	for i := 1; i <= 3; i++ {
		nodes = append(nodes, vfNewNode(cl, vfDesc(i)))
	}
	d := vfNewDialer(nodes...)
	cfg := vfClusterConfig(d, 4, "10.0.0.1")
	sc := vfNewScope()
	vfDefault.Store(sc)
	defer vfDefault.Store((*vfScope)(nil))
	s, err := NewSession(*cfg)
	if err != nil {
		t.Fatal(err)
	}
	if err := s.Query("INSERT INTO t (a) VALUES (1)").Exec(); err != nil {
		t.Fatal(err)
	}
	hosts := s.ring.allHosts()
	t.Logf("hosts=%d events=%d", len(hosts), len(sc.tr.Events()))
	if len(hosts) != 3 {
		t.Fatalf("hosts %v", hosts)
	}
	ok, dump := vfWithin(5*time.Second, s.Close)
	if !ok {
		t.Fatalf("close hung\n%s", dump)
	}
	time.Sleep(50 * time.Millisecond)
	for _, n := range nodes {
		if n.OpenConns() != 0 {
			t.Fatalf("node %s still has %d open conns", n.Desc.Addr, n.OpenConns())
		}
	}
}
