package gocql

// C05, input family 5: protocol positions (spec/Gen_Positions.tla).  A complete Session
// (control connection, event registration, ring refresh, host pool, heartbeats) talks to the
// scripted node of harness/common; the node follows the protocol except at ONE position of
// the conversation, where it answers with the frame TLC chose.  The application's calls run
// inside vfC05Guard; the driver's own goroutines cannot be wrapped - a panic there ends the
// child process, which the parent observes (zz_vf_c05_run_test.go).

import (
	"encoding/json"
	"strings"
	"sync"
	"time"
)

type vfC05LiveCase struct {
	Cfg     string `json:"cfg"`
	Pos     string `json:"pos"`
	Req     string `json:"req"`
	Variant string `json:"variant"`
	Kind    string `json:"kind"`
	Bytes   []int  `json:"bytes"`
	Once    bool   `json:"once"` // only the first request at the position gets the frame
}

// vfC05Chain: an authenticator of the application's that takes part in a challenge round.
type vfC05Chain struct{ inner PasswordAuthenticator }

func (a vfC05Chain) Challenge(req []byte) ([]byte, Authenticator, error) {
	resp, _, err := a.inner.Challenge(req)
	if err != nil {
		return nil, nil, err
	}
	return resp, vfC05ChainStep{}, nil
}
func (a vfC05Chain) Success(data []byte) error { return nil }

type vfC05ChainStep struct{}

func (vfC05ChainStep) Challenge(req []byte) ([]byte, Authenticator, error) {
	return []byte("vf-step"), vfC05ChainStep{}, nil
}
func (vfC05ChainStep) Success(data []byte) error { return nil }

// vfC05Patch puts the stream id into a protocol >= 3 response frame.
func vfC05Patch(frame []byte, stream int) []byte {
	b := append([]byte(nil), frame...)
	if len(b) >= 4 {
		b[2] = byte(uint16(int16(stream)) >> 8)
		b[3] = byte(uint16(int16(stream)))
	}
	return b
}

type vfC05ConnState struct {
	options, auth int
}

type vfC05LiveNode struct {
	mu       sync.Mutex
	c        *vfC05LiveCase
	frame    []byte
	conns    map[int]*vfC05ConnState
	ctlLocal int
	ctlBeats int
	hits     int
	slowCtl  bool
}

func (ln *vfC05LiveNode) position(nc *vfNodeConn, f *vfFrame, q *vfRequest) string {
	ln.mu.Lock()
	defer ln.mu.Unlock()
	st := ln.conns[nc.ID]
	if st == nil {
		st = &vfC05ConnState{}
		ln.conns[nc.ID] = st
	}
	c := "pool"
	if nc.ID == 1 {
		c = "ctl"
	}
	switch f.Op {
	case vfOpOptions:
		st.options++
		if st.options == 1 {
			return c + ".options"
		}
		if c == "pool" {
			return "pool.heartbeat"
		}
		// the connection's own heartbeat starts a second after the connection was set up, the
		// control connection's monitor a second after the control connection was registered
		// (the node delays its first system.local answer to keep the two apart)
		ln.ctlBeats++
		if ln.ctlBeats == 1 {
			return "ctl.conn_heartbeat"
		}
		if ln.ctlBeats == 2 {
			return "ctl.heartbeat"
		}
		return "ctl.later_heartbeat"
	case vfOpStartup:
		return c + ".startup"
	case vfOpAuthResponse:
		st.auth++
		if st.auth == 1 {
			return c + ".auth_response"
		}
		return c + ".auth_response2"
	case vfOpRegister:
		return "ctl.register"
	case vfOpQuery:
		low := strings.ToLower(q.Stmt)
		switch {
		case strings.HasPrefix(low, "use "):
			return "pool.use"
		case c == "ctl" && strings.Contains(low, "system.local"):
			ln.ctlLocal++
			if ln.ctlLocal == 1 {
				return "ctl.query_local"
			}
			return "ctl.refresh_local"
		case c == "ctl" && strings.Contains(low, "system.peers"):
			return "ctl.refresh_peers"
		case strings.Contains(low, "system"):
			return "other"
		}
		return "app.query"
	case vfOpPrepare:
		if strings.Contains(q.Stmt, "batchtbl") {
			return "app.batch_prepare"
		}
		return "app.prepare"
	case vfOpExecute:
		return "app.execute"
	case vfOpBatch:
		return "app.batch"
	}
	return "other"
}

func (ln *vfC05LiveNode) handler(nc *vfNodeConn, f *vfFrame, q *vfRequest) bool {
	pos := ln.position(nc, f, q)
	if pos == ln.c.Pos {
		ln.mu.Lock()
		ln.hits++
		first := ln.hits == 1
		ln.mu.Unlock()
		if first || !ln.c.Once {
			nc.Send(vfC05Patch(ln.frame, f.Stream))
			return true
		}
	}
	// the protocol-abiding answers the default node does not give by itself
	switch {
	case f.Op == vfOpAuthResponse && ln.c.Cfg == "chain":
		ln.mu.Lock()
		n := ln.conns[nc.ID].auth
		ln.mu.Unlock()
		if n == 1 {
			nc.Reply(f, vfOpAuthChallenge, (&vfW{}).Bytes([]byte("vf-challenge")).b)
			return true
		}
	case pos == "ctl.query_local" && ln.slowCtl:
		go func() {
			time.Sleep(350 * time.Millisecond)
			nc.Node.defaultHandle(nc, f, q)
		}()
		return true
	}
	return false
}

// vfC05LiveWaits: how long the case lets the session run before it looks at it again.  For the
// heartbeat positions the clock that matters is the driver's (first heartbeat a second after a
// connection is set up): the case waits until the node has SEEN that request (at most max) and
// then a little for the driver to digest the answer.
func vfC05LiveWaits(pos string) (fixed, max time.Duration) {
	switch pos {
	case "pool.heartbeat", "ctl.conn_heartbeat", "ctl.heartbeat":
		return 400 * time.Millisecond, 8 * time.Second
	case "unsolicited.event", "unsolicited.stream0", "unsolicited.unused_stream":
		return 1500 * time.Millisecond, 0 // event debounce (1 s) and what the handlers then do
	}
	return 0, 0
}

func vfC05RunLive(in *vfC05Input) vfC05Result {
	res := vfC05Result{ID: in.ID}
	var c vfC05LiveCase
	if err := json.Unmarshal(in.Live, &c); err != nil {
		res.Obs = append(res.Obs, vfC05Obs{St: "input", Out: "bad-live-case"})
		return res
	}
	res.Len = len(c.Bytes)
	cl := &vfCluster{Partitioner: "org.apache.cassandra.dht.Murmur3Partitioner", Version: "3.11.4"}
	cl.Set([]vfHostDesc{vfDesc(1)})
	n := vfNewNode(cl, vfDesc(1))
	ln := &vfC05LiveNode{c: &c, frame: vfC05I2B(c.Bytes), conns: map[int]*vfC05ConnState{},
		slowCtl: c.Pos == "ctl.heartbeat" || c.Pos == "ctl.conn_heartbeat"}
	n.Handler = ln.handler
	if c.Cfg == "auth" || c.Cfg == "chain" {
		n.AuthClass = "org.apache.cassandra.auth.PasswordAuthenticator"
	}
	d := vfNewDialer(n)
	cfg := vfClusterConfig(d, 4, n.Desc.Addr)
	cfg.ConnectTimeout = 1500 * time.Millisecond
	cfg.Timeout = 400 * time.Millisecond
	cfg.ReconnectionPolicy = &ConstantReconnectionPolicy{MaxRetries: 2, Interval: 5 * time.Millisecond}
	cfg.MaxWaitSchemaAgreement = 300 * time.Millisecond
	pa := PasswordAuthenticator{Username: "u", Password: "p"}
	switch c.Cfg {
	case "auth":
		cfg.Authenticator = pa
	case "chain":
		cfg.Authenticator = vfC05Chain{inner: pa}
	case "keyspace":
		cfg.Keyspace = "ks1"
	}

	var s *Session
	o := vfC05Guard("newsession", false, func() string {
		var err error
		s, err = NewSession(*cfg)
		if err != nil {
			return "error"
		}
		return "value"
	})
	res.Obs = append(res.Obs, o)
	if o.Out != "value" || s == nil {
		// background goroutines of the failed session (reconnects, pool fills) get a moment
		time.Sleep(50 * time.Millisecond)
		n.CloseAll()
		return res
	}

	consume := func(iter *Iter) string {
		if _, err := iter.SliceMap(); err != nil {
			return "error"
		}
		return "value"
	}
	ops := []struct {
		name string
		fn   func() string
	}{
		{"app-query", func() string { return consume(s.Query("TRUNCATE ks1.t").Iter()) }},
		{"app-prepared", func() string { return consume(s.Query("SELECT a FROM ks1.t WHERE k = ?", 1).Iter()) }},
		{"app-prepared-scanner", func() string {
			sc := s.Query("SELECT a FROM ks1.t WHERE k = ?", 1).Iter().Scanner()
			for i := 0; sc.Next() && i < vfC05RowCap; i++ {
				var a int
				if err := sc.Scan(&a); err != nil {
					break
				}
			}
			if err := sc.Err(); err != nil {
				return "error"
			}
			return "value"
		}},
		{"app-batch", func() string {
			b := s.NewBatch(LoggedBatch)
			b.Query("INSERT INTO ks1.t (k) VALUES (1)")
			if err := s.ExecuteBatch(b); err != nil {
				return "error"
			}
			return "value"
		}},
		{"app-batch-prepared", func() string {
			b := s.NewBatch(LoggedBatch)
			b.Query("INSERT INTO ks1.batchtbl (k) VALUES (?)", 1)
			if err := s.ExecuteBatch(b); err != nil {
				return "error"
			}
			return "value"
		}},
	}
	for _, op := range ops {
		res.Obs = append(res.Obs, vfC05Guard(op.name, false, op.fn))
	}

	if strings.HasPrefix(c.Pos, "unsolicited.") {
		stream := -1
		switch c.Pos {
		case "unsolicited.stream0":
			stream = 0
		case "unsolicited.unused_stream":
			stream = 300
		}
		for _, nc := range n.Conns() {
			if nc.ID == 1 {
				nc.Send(vfC05Patch(ln.frame, stream))
			}
		}
		ln.mu.Lock()
		ln.hits++
		ln.mu.Unlock()
	}
	if w, max := vfC05LiveWaits(c.Pos); w > 0 {
		for end := time.Now().Add(max); time.Now().Before(end); time.Sleep(20 * time.Millisecond) {
			ln.mu.Lock()
			hit := ln.hits > 0
			ln.mu.Unlock()
			if hit {
				break
			}
		}
		time.Sleep(w)
		// the session must still answer (or fail cleanly) afterwards
		res.Obs = append(res.Obs, vfC05Guard("app-query-after", false, ops[0].fn))
	}
	ln.mu.Lock()
	hits := ln.hits
	ln.mu.Unlock()
	if hits == 0 {
		res.Obs = append(res.Obs, vfC05Obs{St: "position", Out: "not-reached"})
	}
	ok, _ := vfWithin(5*time.Second, s.Close)
	if !ok {
		res.Obs = append(res.Obs, vfC05Obs{St: "close", Out: "stuck"})
	}
	n.CloseAll()
	return res
}
