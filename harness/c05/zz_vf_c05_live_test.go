package gocql

// C05, input family 5: protocol positions (spec/Gen_Positions.tla).  A complete Session
// (control connection, event registration, ring refresh, host pool, heartbeats) talks to the
// scripted node of harness/common; the node follows the protocol except at ONE position of
// the conversation, where it answers with the frame TLC chose.  The application's calls run
// inside vfC05Guard; the driver's own goroutines cannot be wrapped - a panic there ends the
// child process, which the parent observes (zz_vf_c05_run_test.go).

import (
	"encoding/json"
	"strings"
	"sync"
	"time"
)

type vfC05LiveCase struct {
	Cfg     string `json:"cfg"`
	Pos     string `json:"pos"`
	Req     string `json:"req"`
	Variant string `json:"variant"`
	Kind    string `json:"kind"`
	Bytes   []int  `json:"bytes"`
	Once    bool   `json:"once"` // only the first request at the position gets the frame
}

// vfC05Chain: an authenticator of the application's that takes part in a challenge round.
type vfC05Chain struct{ inner PasswordAuthenticator }

func (a vfC05Chain) Challenge(req []byte) ([]byte, Authenticator, error) {
	resp, _, err := a.inner.Challenge(req)
	if err != nil {
		return nil, nil, err
	}
	return resp, vfC05ChainStep{}, nil
}
func (a vfC05Chain) Success(data []byte) error { return nil }

type vfC05ChainStep struct{}

func (vfC05ChainStep) Challenge(req []byte) ([]byte, Authenticator, error) {
	return []byte("vf-step"), vfC05ChainStep{}, nil
}
func (vfC05ChainStep) Success(data []byte) error { return nil }

// vfC05Patch puts the stream id into a protocol >= 3 response frame.
func vfC05Patch(frame []byte, stream int) []byte {
	b := append([]byte(nil), frame...)
	if len(b) >= 4 {
		b[2] = byte(uint16(int16(stream)) >> 8)
		b[3] = byte(uint16(int16(stream)))
	}
	return b
}

type vfC05ConnState struct {
	options, auth int
}

type vfC05LiveNode struct {
	mu       sync.Mutex
	c        *vfC05LiveCase
	frame    []byte
	conns    map[int]*vfC05ConnState
	ctlLocal int
	ctlBeats int
	hits     int
	slowCtl  bool
	// multi-step positions
	prepares   map[string]int // PREPAREs seen per statement
	executes   map[string]int // EXECUTEs seen per statement
	unprepared map[string]bool
	// the concurrent position: EXECUTEs of the "conc" statement held back, and its second PREPARE
	concHeld    []*vfFrame
	concConn    *vfNodeConn
	concPrepare *vfFrame
	concState   int // 0 warm-up, 1 collecting two EXECUTEs, 2 first answered UNPREPARED, 3 done
}

// vfC05MaxHits: "every request at the position gets the frame" ends here (a node that answers
// every page request with "there are more pages" would otherwise keep SliceMap busy for ever -
// which is an endless result, not a defect)
const vfC05MaxHits = 40

const (
	vfC05StmtPlain = "SELECT a FROM ks1.t WHERE k = ?"
	vfC05StmtPaged = "SELECT a FROM ks1.paged WHERE k = ?"
	vfC05StmtConc  = "SELECT a FROM ks1.conc WHERE k = ?"
)

// vfC05StmtOf: the default node hands out "id:<statement>" as prepared id.
func vfC05StmtOf(id []byte) string {
	if strings.HasPrefix(string(id), "id:") {
		return string(id[3:])
	}
	return string(id)
}

func (ln *vfC05LiveNode) position(nc *vfNodeConn, f *vfFrame, q *vfRequest) string {
	ln.mu.Lock()
	defer ln.mu.Unlock()
	st := ln.conns[nc.ID]
	if st == nil {
		st = &vfC05ConnState{}
		ln.conns[nc.ID] = st
	}
	c := "pool"
	if nc.ID == 1 && ln.c.Cfg != "nocontrol" {
		c = "ctl" // the session dials its control connection first
	}
	switch f.Op {
	case vfOpOptions:
		st.options++
		if st.options == 1 {
			return c + ".options"
		}
		if c == "pool" {
			return "pool.heartbeat"
		}
		// the connection's own heartbeat starts a second after the connection was set up, the
		// control connection's monitor a second after the control connection was registered
		// (the node delays its first system.local answer to keep the two apart)
		ln.ctlBeats++
		if ln.ctlBeats == 1 {
			return "ctl.conn_heartbeat"
		}
		if ln.ctlBeats == 2 {
			return "ctl.heartbeat"
		}
		return "ctl.later_heartbeat"
	case vfOpStartup:
		return c + ".startup"
	case vfOpAuthResponse:
		st.auth++
		if st.auth == 1 {
			return c + ".auth_response"
		}
		return c + ".auth_response2"
	case vfOpRegister:
		return "ctl.register"
	case vfOpQuery:
		low := strings.ToLower(q.Stmt)
		switch {
		case strings.HasPrefix(low, "use "):
			return "pool.use"
		case c == "ctl" && strings.Contains(low, "system.local"):
			ln.ctlLocal++
			if ln.ctlLocal == 1 {
				return "ctl.query_local"
			}
			return "ctl.refresh_local"
		case c == "ctl" && strings.Contains(low, "system.peers"):
			return "ctl.refresh_peers"
		case strings.Contains(low, "system"):
			return "other"
		}
		return "app.query"
	case vfOpPrepare:
		if strings.Contains(q.Stmt, "batchtbl") {
			return "app.batch_prepare"
		}
		ln.prepares[q.Stmt]++
		if q.Stmt == vfC05StmtPlain && ln.prepares[q.Stmt] > 1 {
			return "app.prepare2" // the driver prepares again (after UNPREPARED)
		}
		if q.Stmt == vfC05StmtPlain {
			return "app.prepare"
		}
		return "other"
	case vfOpExecute:
		stmt := vfC05StmtOf(q.PreparedID)
		ln.executes[stmt]++
		switch stmt {
		case vfC05StmtPaged:
			if len(q.PageState) > 0 {
				return "app.page2"
			}
			return "app.page1"
		case vfC05StmtConc:
			return "conc.execute"
		}
		if ln.prepares[vfC05StmtPlain] > 1 {
			return "app.execute2"
		}
		return "app.execute"
	case vfOpBatch:
		return "app.batch"
	}
	return "other"
}

// vfC05PagedRows: one page of the paged statement; state nil = last page.
func vfC05PagedRows(f *vfFrame, first int32, state []byte) []byte {
	rows := [][][]byte{{vfCellInt(first)}, {vfCellInt(first + 1)}}
	return vfRowsBody(f.Version, "ks1", "paged", []vfCol{{"v", vfTInt}}, rows, state, false)
}

// conc: two callers execute the same prepared statement.  The node waits until both EXECUTEs
// are there, answers the first UNPREPARED, waits for the driver's new PREPARE, answers the
// second EXECUTE (with the case's frame at position conc.execute2, else UNPREPARED as well)
// and only then the PREPARE.
func (ln *vfC05LiveNode) concExecute(nc *vfNodeConn, f *vfFrame, q *vfRequest) bool {
	ln.mu.Lock()
	defer ln.mu.Unlock()
	switch ln.concState {
	case 0: // the warm-up execution
		ln.concState = 1
		return false
	case 1:
		ln.concHeld = append(ln.concHeld, f)
		ln.concConn = nc
		if len(ln.concHeld) == 1 {
			go func() { // a lone caller is not kept waiting for ever
				time.Sleep(300 * time.Millisecond)
				ln.concStep(true)
			}()
		} else {
			go ln.concStep(false)
		}
		return true
	}
	return false
}

func (ln *vfC05LiveNode) concStep(timeout bool) {
	ln.mu.Lock()
	if ln.concState != 1 || (!timeout && len(ln.concHeld) < 2) {
		ln.mu.Unlock()
		return
	}
	ln.concState = 2
	held, nc := ln.concHeld, ln.concConn
	ln.mu.Unlock()
	id := []byte("id:" + vfC05StmtConc)
	nc.Reply(held[0], vfOpError, vfUnpreparedBody(id))
	if len(held) < 2 {
		ln.mu.Lock()
		ln.concState = 3
		ln.mu.Unlock()
		return
	}
	// the second caller's answer arrives while the new PREPARE is unanswered
	for end := time.Now().Add(400 * time.Millisecond); time.Now().Before(end); time.Sleep(5 * time.Millisecond) {
		ln.mu.Lock()
		got := ln.concPrepare != nil
		ln.mu.Unlock()
		if got {
			break
		}
	}
	if ln.c.Pos == "conc.execute2" {
		ln.mu.Lock()
		ln.hits++
		ln.mu.Unlock()
		nc.Send(vfC05Patch(ln.frame, held[1].Stream))
	} else {
		nc.Reply(held[1], vfOpError, vfUnpreparedBody(id))
	}
	time.Sleep(60 * time.Millisecond)
	ln.mu.Lock()
	pf := ln.concPrepare
	ln.concState = 3
	ln.mu.Unlock()
	if pf != nil {
		nc.Node.defaultHandle(nc, pf, vfParseRequest(pf))
	}
}

func (ln *vfC05LiveNode) handler(nc *vfNodeConn, f *vfFrame, q *vfRequest) bool {
	pos := ln.position(nc, f, q)
	// ---- the protocol-abiding steps that lead to (or accompany) the multi-step positions
	switch {
	case pos == "conc.execute":
		return ln.concExecute(nc, f, q)
	case f.Op == vfOpPrepare && q.Stmt == vfC05StmtConc:
		ln.mu.Lock()
		hold := ln.concState == 2 && ln.concPrepare == nil
		if hold {
			ln.concPrepare = f
		}
		ln.mu.Unlock()
		if hold {
			return true
		}
	case pos == "app.page1":
		nc.Reply(f, vfOpResult, vfC05PagedRows(f, 1, []byte("vf-page-2")))
		return true
	case pos == "app.page2" && ln.c.Pos != "app.page2":
		nc.Reply(f, vfOpResult, vfC05PagedRows(f, 3, nil))
		return true
	case pos == "app.execute" && (ln.c.Pos == "app.prepare2" || ln.c.Pos == "app.execute2"):
		ln.mu.Lock()
		first := !ln.unprepared[vfC05StmtPlain]
		ln.unprepared[vfC05StmtPlain] = true
		ln.mu.Unlock()
		if first {
			nc.Reply(f, vfOpError, vfUnpreparedBody(q.PreparedID))
			return true
		}
	case (pos == "app.query" && ln.c.Pos == "app.query.second_answer") || (pos == "app.execute" && ln.c.Pos == "app.execute.second_answer"):
		// the answer, and then another frame on the same stream
		ln.mu.Lock()
		ln.hits++
		ln.mu.Unlock()
		nc.Node.defaultHandle(nc, f, q)
		nc.Send(vfC05Patch(ln.frame, f.Stream))
		return true
	case pos == "app.query" && ln.c.Pos == "app.query.late_answer":
		// no answer until the caller has given up (Timeout is 400 ms), then the frame
		ln.mu.Lock()
		ln.hits++
		first := ln.hits == 1
		ln.mu.Unlock()
		if first {
			go func() {
				time.Sleep(650 * time.Millisecond)
				nc.Send(vfC05Patch(ln.frame, f.Stream))
			}()
			return true
		}
	}
	if pos == ln.c.Pos {
		ln.mu.Lock()
		ln.hits++
		first, many := ln.hits == 1, ln.hits > vfC05MaxHits
		ln.mu.Unlock()
		if first || (!ln.c.Once && !many) {
			nc.Send(vfC05Patch(ln.frame, f.Stream))
			return true
		}
	}
	// the protocol-abiding answers the default node does not give by itself
	switch {
	case f.Op == vfOpAuthResponse && ln.c.Cfg == "chain":
		ln.mu.Lock()
		n := ln.conns[nc.ID].auth
		ln.mu.Unlock()
		if n == 1 {
			nc.Reply(f, vfOpAuthChallenge, (&vfW{}).Bytes([]byte("vf-challenge")).b)
			return true
		}
	case pos == "ctl.query_local" && ln.slowCtl:
		go func() {
			time.Sleep(350 * time.Millisecond)
			nc.Node.defaultHandle(nc, f, q)
		}()
		return true
	}
	return false
}

// vfC05LiveWaits: how long the case lets the session run before it looks at it again.  For the
// heartbeat positions the clock that matters is the driver's (first heartbeat a second after a
// connection is set up): the case waits until the node has SEEN that request (at most max) and
// then a little for the driver to digest the answer.
// vfC05PagedScanner reads the paged statement through Iter.Scanner with n raw destinations per row.
func vfC05PagedScanner(s *Session, n int) string {
	sc := s.Query(vfC05StmtPaged, 1).PageSize(2).Iter().Scanner()
	dests := make([]interface{}, n)
	for i := range dests {
		dests[i] = &vfC05RawDest{}
	}
	for i := 0; sc.Next() && i < vfC05RowCap; i++ {
		_ = sc.Scan(dests...) // (an error invalidates this row only)
	}
	if err := sc.Err(); err != nil {
		return "error"
	}
	return "value"
}

func vfC05LiveWaits(pos string) (fixed, max time.Duration) {
	switch pos {
	case "pool.heartbeat", "ctl.conn_heartbeat", "ctl.heartbeat":
		return 400 * time.Millisecond, 8 * time.Second
	case "unsolicited.event", "unsolicited.stream0", "unsolicited.unused_stream":
		return 1500 * time.Millisecond, 0 // event debounce (1 s) and what the handlers then do
	case "app.query.late_answer":
		return 500 * time.Millisecond, 0 // the withheld frame is sent 650 ms after the request
	}
	return 0, 0
}

func vfC05RunLive(in *vfC05Input) (res vfC05Result) {
	t0 := time.Now()
	defer func() { res.Us = time.Since(t0).Microseconds() }()
	res = vfC05Result{ID: in.ID}
	var c vfC05LiveCase
	if err := json.Unmarshal(in.Live, &c); err != nil {
		res.Obs = append(res.Obs, vfC05Obs{St: "input", Out: "bad-live-case"})
		return res
	}
	res.Len = len(c.Bytes)
	cl := &vfCluster{Partitioner: "org.apache.cassandra.dht.Murmur3Partitioner", Version: "3.11.4"}
	cl.Set([]vfHostDesc{vfDesc(1)})
	n := vfNewNode(cl, vfDesc(1))
	ln := &vfC05LiveNode{c: &c, frame: vfC05I2B(c.Bytes), conns: map[int]*vfC05ConnState{},
		prepares: map[string]int{}, executes: map[string]int{}, unprepared: map[string]bool{},
		slowCtl: c.Pos == "ctl.heartbeat" || c.Pos == "ctl.conn_heartbeat"}
	n.Handler = ln.handler
	if c.Cfg == "auth" || c.Cfg == "chain" {
		n.AuthClass = "org.apache.cassandra.auth.PasswordAuthenticator"
	}
	d := vfNewDialer(n)
	cfg := vfClusterConfig(d, 4, n.Desc.Addr)
	cfg.ConnectTimeout = 1500 * time.Millisecond
	cfg.Timeout = 400 * time.Millisecond
	cfg.ReconnectionPolicy = &ConstantReconnectionPolicy{MaxRetries: 2, Interval: 5 * time.Millisecond}
	cfg.MaxWaitSchemaAgreement = 300 * time.Millisecond
	pa := PasswordAuthenticator{Username: "u", Password: "p"}
	switch c.Cfg {
	case "auth":
		cfg.Authenticator = pa
	case "chain":
		cfg.Authenticator = vfC05Chain{inner: pa}
	case "keyspace":
		cfg.Keyspace = "ks1"
	case "noschema":
		cfg.Events.DisableSchemaEvents = true
	case "nostatus":
		cfg.Events.DisableNodeStatusEvents = true
	case "notopology":
		cfg.Events.DisableTopologyEvents = true
	case "noevents":
		cfg.Events.DisableSchemaEvents, cfg.Events.DisableNodeStatusEvents, cfg.Events.DisableTopologyEvents = true, true, true
	case "nolookup":
		cfg.DisableInitialHostLookup = true
	case "ignorepeer":
		cfg.IgnorePeerAddr = true
	case "nocontrol":
		cfg.disableControlConn = true
		cfg.DisableInitialHostLookup = true
	case "snappy":
		// negotiated through SUPPORTED / STARTUP; the node reads the driver's compressed requests
		cfg.Compressor = SnappyCompressor{}
		n.Decompress = func(name string, body []byte) ([]byte, error) { return SnappyCompressor{}.Decode(body) }
	case "tokenaware":
		// the policy asks Query.GetRoutingKey (-> Session.routingKeyInfo -> PREPARE) before the request is sent
		cfg.PoolConfig.HostSelectionPolicy = TokenAwareHostPolicy(RoundRobinHostPolicy())
	}

	var s *Session
	o := vfC05Guard("newsession", false, func() string {
		var err error
		s, err = NewSession(*cfg)
		if err != nil {
			return "error"
		}
		return "value"
	})
	res.Obs = append(res.Obs, o)
	if o.Out != "value" || s == nil {
		// background goroutines of the failed session (reconnects, pool fills) get a moment
		time.Sleep(50 * time.Millisecond)
		n.CloseAll()
		return res
	}

	consume := func(iter *Iter) string {
		if _, err := iter.SliceMap(); err != nil {
			return "error"
		}
		return "value"
	}
	ops := []struct {
		name string
		fn   func() string
	}{
		{"app-query", func() string { return consume(s.Query("TRUNCATE ks1.t").Iter()) }},
		{"app-prepared", func() string { return consume(s.Query("SELECT a FROM ks1.t WHERE k = ?", 1).Iter()) }},
		{"app-prepared-scanner", func() string {
			sc := s.Query("SELECT a FROM ks1.t WHERE k = ?", 1).Iter().Scanner()
			for i := 0; sc.Next() && i < vfC05RowCap; i++ {
				var a int
				if err := sc.Scan(&a); err != nil {
					break
				}
			}
			if err := sc.Err(); err != nil {
				return "error"
			}
			return "value"
		}},
		// the routing key, as a token-aware policy (or the application) asks for it
		{"app-routing-key", func() string {
			if _, err := s.Query(vfC05StmtPlain, 1).GetRoutingKey(); err != nil {
				return "error"
			}
			return "value"
		}},
		{"app-batch-routing-key", func() string {
			b := s.NewBatch(LoggedBatch)
			b.Query("INSERT INTO ks1.batchtbl (k) VALUES (?)", 1)
			if _, err := b.GetRoutingKey(); err != nil {
				return "error"
			}
			return "value"
		}},
		// lightweight transactions: the result's first column is expected to be the boolean [applied]
		{"app-scancas", func() string {
			var prev int
			if _, err := s.Query("UPDATE ks1.t SET a = ? WHERE k = ? IF a = ?", 1, 2, 3).ScanCAS(&prev); err != nil {
				return "error"
			}
			return "value"
		}},
		{"app-mapscancas", func() string {
			if _, err := s.Query("UPDATE ks1.t SET a = ? WHERE k = ? IF a = ?", 1, 2, 3).MapScanCAS(map[string]interface{}{}); err != nil {
				return "error"
			}
			return "value"
		}},
		{"app-batchcas", func() string {
			b := s.NewBatch(LoggedBatch)
			b.Query("UPDATE ks1.batchtbl SET a = ? WHERE k = ? IF a = ?", 1, 2, 3)
			var prev int
			_, iter, err := s.ExecuteBatchCAS(b, &prev)
			if iter != nil {
				for i := 0; iter.Scan(&prev) && i < vfC05RowCap; i++ {
				}
				iter.Close()
			}
			if err != nil {
				return "error"
			}
			return "value"
		}},
		{"app-mapbatchcas", func() string {
			b := s.NewBatch(LoggedBatch)
			b.Query("UPDATE ks1.batchtbl SET a = ? WHERE k = ? IF a = ?", 1, 2, 3)
			_, iter, err := s.MapExecuteBatchCAS(b, map[string]interface{}{})
			if iter != nil {
				iter.Close()
			}
			if err != nil {
				return "error"
			}
			return "value"
		}},
		// a paged result read the way the first page looks (one int column)
		{"app-paged-scan", func() string {
			iter := s.Query(vfC05StmtPaged, 1).PageSize(2).Iter()
			var a int
			for i := 0; iter.Scan(&a) && i < vfC05RowCap; i++ {
			}
			if err := iter.Close(); err != nil {
				return "error"
			}
			return "value"
		}},
		{"app-paged-slicemap", func() string { return consume(s.Query(vfC05StmtPaged, 1).PageSize(2).Iter()) }},
		{"app-paged-scanner", func() string {
			sc := s.Query(vfC05StmtPaged, 1).PageSize(2).Iter().Scanner()
			for i := 0; sc.Next() && i < vfC05RowCap; i++ {
				var a int
				if err := sc.Scan(&a); err != nil {
					break
				}
			}
			if err := sc.Err(); err != nil {
				return "error"
			}
			return "value"
		}},
		// the application knows how many columns ITS statement selects (2, 3): it passes that many
		// destinations whatever the first page's metadata said, and goes on after a row it could not scan
		{"app-paged-scanner-2dests", func() string { return vfC05PagedScanner(s, 2) }},
		{"app-paged-scanner-3dests", func() string { return vfC05PagedScanner(s, 3) }},
		{"app-batch", func() string {
			b := s.NewBatch(LoggedBatch)
			b.Query("INSERT INTO ks1.t (k) VALUES (1)")
			if err := s.ExecuteBatch(b); err != nil {
				return "error"
			}
			return "value"
		}},
		{"app-batch-prepared", func() string {
			b := s.NewBatch(LoggedBatch)
			b.Query("INSERT INTO ks1.batchtbl (k) VALUES (?)", 1)
			if err := s.ExecuteBatch(b); err != nil {
				return "error"
			}
			return "value"
		}},
	}
	for _, op := range ops {
		if c.Cfg == "nocontrol" && strings.Contains(op.name, "routing-key") {
			continue // needs Session.control (keyspace metadata); nil only in this unexported test mode
		}
		res.Obs = append(res.Obs, vfC05Guard(op.name, false, op.fn))
	}
	if strings.HasPrefix(c.Pos, "conc.") || (in.ID+int(vfSeed()))%8 == 0 {
		// two callers of one prepared statement (warm-up first: the statement is in the cache)
		conc := func() string { return consume(s.Query(vfC05StmtConc, 1).Iter()) }
		res.Obs = append(res.Obs, vfC05Guard("app-conc-warmup", false, conc))
		var cwg sync.WaitGroup
		cobs := make([]vfC05Obs, 2)
		for i := range cobs {
			cwg.Add(1)
			go func(i int) {
				defer cwg.Done()
				cobs[i] = vfC05Guard("app-conc-caller", false, conc)
			}(i)
		}
		cwg.Wait()
		res.Obs = append(res.Obs, cobs...)
	}

	if strings.HasPrefix(c.Pos, "unsolicited.") {
		stream := -1
		switch c.Pos {
		case "unsolicited.stream0":
			stream = 0
		case "unsolicited.unused_stream":
			stream = 300
		}
		for _, nc := range n.Conns() {
			if nc.ID == 1 {
				nc.Send(vfC05Patch(ln.frame, stream))
			}
		}
		ln.mu.Lock()
		ln.hits++
		ln.mu.Unlock()
	}
	if w, max := vfC05LiveWaits(c.Pos); w > 0 {
		for end := time.Now().Add(max); time.Now().Before(end); time.Sleep(20 * time.Millisecond) {
			ln.mu.Lock()
			hit := ln.hits > 0
			ln.mu.Unlock()
			if hit {
				break
			}
		}
		time.Sleep(w)
		// the session must still answer (or fail cleanly) afterwards
		res.Obs = append(res.Obs, vfC05Guard("app-query-after", false, ops[0].fn))
	}
	ln.mu.Lock()
	hits := ln.hits
	ln.mu.Unlock()
	if hits == 0 {
		res.Obs = append(res.Obs, vfC05Obs{St: "position", Out: "not-reached"})
	}
	ok, _ := vfWithin(5*time.Second, s.Close)
	if !ok {
		res.Obs = append(res.Obs, vfC05Obs{St: "close", Out: "stuck"})
	}
	n.CloseAll()
	return res
}
