package gocql

// C13, end-to-end level: real Session over scripted nodes (harness/common), real
// Session.Query(...).Iter() and Session.ExecuteBatch, real round-robin host selection, real
// connections / frame decoding, real retry policies, Query.attempt and Batch.attempt with and
// without observers.  Only public API is used to observe: a HostSelectionPolicy wrapper (picks),
// a RetryPolicy wrapper (allow / decide with the real Attempts()), the scripted nodes (which host
// got the request, which error it answered).  Statements are executed one at a time without
// speculation, so the observations of one statement are totally ordered by causality.  The
// traces use the vocabulary of spec/ExecutorMon.tla; the identity of the returned *Iter cannot
// be seen from outside (n = -1 in the return event), the error's attempt can (it is part of the
// server's message).

import (
	"bufio"
	"bytes"
	"context"
	"encoding/json"
	"fmt"
	"math/rand"
	"os"
	"sort"
	"strconv"
	"strings"
	"sync"
	"testing"
	"time"
)

type vfC13E2ERun struct {
	id       int
	mu       sync.Mutex
	log      []vfC13Ev
	rng      *rand.Rand
	classes  []string
	hostIdx  map[string]int // connect address -> index in offering order
	offered  []string
	natt     map[int]int // per execution
	total    int
	polName  string
	classOf  map[int]string
	maxTries int

	gids       map[int64]int // goroutine -> execution (numbered by first iterator call)
	execOfH    map[int]int   // host index -> execution that picked it last
	pending    map[int]int   // execution -> attempt the node has seen and the driver has not reported yet
	unseen     map[int]int   // host -> attempts the driver reported which the node had not seen
	observer   bool          // "end" events come from the Query/BatchObserver callback
	delay      time.Duration // the node answers its first request only after this long
	nodeDone   chan struct{} // closed when the delayed answer has been sent
	ctx        context.Context
	cancelLog  bool
	scen       string
	fixedOrder bool   // the host policy offers the hosts in the same order on every Pick
	cancelIn   func() // called inside the retry policy's Attempt: the caller cancels BETWEEN two attempts
	dialer     *vfDialer
	base       map[string]int // bytes the driver had written to each node when the statement began
	handled    map[string]int // requests of this statement the nodes have handled, per node
	marker     []byte         // text only this statement's request frames contain, once per request
	hold       chan struct{}  // non-nil: the nodes stay silent until it is closed
	nodes      sync.WaitGroup // requests of this statement the nodes are still handling
}

func (r *vfC13E2ERun) execLocked() int {
	g := vfC13Gid()
	e, ok := r.gids[g]
	if !ok {
		e = len(r.gids) + 1
		r.gids[g] = e
	}
	return e
}

// the caller's deadline is noted at the first observation of its expiry (see vfC13Run.noteExpiredLocked)
func (r *vfC13E2ERun) noteExpiredLocked() {
	if r.ctx != nil && !r.cancelLog && r.ctx.Err() != nil {
		r.cancelLog = true
		r.log = append(r.log, vfC13Ev{Ev: "cancel", X: "deadline"})
	}
}

// bytes the driver has written so far on its connections to the node
func vfC13E2EWritten(d *vfDialer, addr string) int {
	n, _ := vfC13E2EWrittenSince(d, addr, 0, nil)
	return n
}

// total bytes written to the node, and how often `marker` occurs in those after offset `from`
func vfC13E2EWrittenSince(d *vfDialer, addr string, from int, marker []byte) (total, hits int) {
	d.mu.Lock()
	cs := append([]*vfMemConn{}, d.DriverConns[addr]...)
	d.mu.Unlock()
	for _, c := range cs {
		c.fmu.Lock()
		if marker != nil {
			lo := from - total
			if lo < 0 {
				lo = 0
			}
			if lo < len(c.wrote) {
				hits += bytes.Count(c.wrote[lo:], marker)
			}
		}
		total += len(c.wrote)
		c.fmu.Unlock()
	}
	return
}

// has the driver written a request of THIS statement (its text is in the frame) that the node has
// not handled yet?  Only bytes written since the statement began are looked at.
func (r *vfC13E2ERun) onTheWireLocked(addr string) bool {
	_, hits := vfC13E2EWrittenSince(r.dialer, addr, r.base[addr], r.marker)
	return hits > r.handled[addr]
}

// driver-side report of an attempt (public observer API): the attempt the node saw ends, or - if
// the node saw none - the attempt was refused before the wire (context already done)
func (r *vfC13E2ERun) observed(host *HostInfo, err error) {
	r.mu.Lock()
	defer r.mu.Unlock()
	e := r.execLocked()
	class, _ := vfC13E2EErr(err)
	ctxErr := class == "canceled" || class == "deadline"
	h := r.hostIdx[host.ConnectAddress().String()]
	aid, ok := r.pending[e]
	wire := !ok && r.onTheWireLocked(host.ConnectAddress().String())
	if ctxErr && (ok || !wire) {
		r.noteExpiredLocked()
	}
	if !ok {
		// The node has not seen this attempt: it was refused before the wire (context already
		// done), or its request is still on its way while the driver has given up.  The bytes the
		// driver has written on its connection to that node decide (statements run one at a time;
		// no wall clock involved): more written than the node has handled = the request was sent.
		// When it arrives at the node later it is this attempt, not a new one.
		r.natt[e]++
		aid = 10*e + r.natt[e]
		x := "refused"
		if wire {
			x = "sent"
			r.unseen[h]++
		}
		r.log = append(r.log, vfC13Ev{Ev: "start", E: e, H: h, N: aid, X: x})
		if ctxErr && wire {
			// the request left while the timer context was still alive (Conn.exec refuses a dead
			// one): the expiry is noted after it
			r.noteExpiredLocked()
		}
	}
	delete(r.pending, e)
	r.log = append(r.log, vfC13Ev{Ev: "end", E: e, H: h, N: aid, X: class})
}

type vfC13E2EObs struct{ r *vfC13E2ERun }

func (o *vfC13E2EObs) ObserveQuery(_ context.Context, q ObservedQuery) { o.r.observed(q.Host, q.Err) }
func (o *vfC13E2EObs) ObserveBatch(_ context.Context, b ObservedBatch) { o.r.observed(b.Host, b.Err) }

var vfC13E2ERuns sync.Map   // statement id -> *vfC13E2ERun
var vfC13E2EByStmt sync.Map // ExecutableQuery -> *vfC13E2ERun

func vfC13E2EIdOf(stmt string) int {
	if !strings.HasPrefix(stmt, "vfc13 ") {
		return 0
	}
	id, _ := strconv.Atoi(strings.TrimRight(strings.Fields(stmt)[1], ";"))
	return id
}

// the node's side: which host got the request, and the scripted answer
func vfC13E2EHandler(addr string) func(nc *vfNodeConn, f *vfFrame, q *vfRequest) bool {
	return func(nc *vfNodeConn, f *vfFrame, q *vfRequest) bool {
		id := 0
		switch f.Op {
		case vfOpQuery:
			id = vfC13E2EIdOf(q.Stmt)
		case vfOpBatch:
			if len(q.BatchStmts) > 0 {
				id = vfC13E2EIdOf(q.BatchStmts[0])
			}
		}
		if id == 0 {
			return false
		}
		v, ok := vfC13E2ERuns.Load(id)
		if !ok {
			return false
		}
		r := v.(*vfC13E2ERun)
		r.mu.Lock()
		h := r.hostIdx[addr]
		r.handled[addr]++
		if r.unseen[h] > 0 { // the late arrival of an attempt the driver has already reported
			r.unseen[h]--
			r.mu.Unlock()
			nc.Reply(f, vfOpResult, vfVoidBody())
			return true
		}
		e := r.execOfH[h]
		r.natt[e]++
		r.total++
		aid := 10*e + r.natt[e]
		r.log = append(r.log, vfC13Ev{Ev: "start", E: e, H: h, N: aid, X: "sent"})
		class := r.classes[r.rng.Intn(len(r.classes))]
		if r.rng.Intn(4) == 0 || r.total >= r.maxTries {
			class = "ok"
		}
		if r.scen == "cancel-between" && r.total == 1 {
			class = "overloaded" // a retryable failure, so that the retry policy is consulted
		}
		if r.scen == "spec" {
			// the first request (the main execution's) is answered late and with a retryable
			// error, the second (the speculative execution's) at once and with success
			if r.total == 1 {
				class = "overloaded"
			} else if r.total == 2 {
				class = "ok"
			}
		}
		r.classOf[aid] = class
		delay := time.Duration(0)
		if r.total == 1 {
			delay = r.delay
		}
		if r.observer {
			r.pending[e] = aid
		}
		r.mu.Unlock()
		if delay > 0 {
			time.Sleep(delay) // a slow node: the caller's deadline / the speculation timer comes first
			defer close(r.nodeDone)
		}
		if r.hold != nil {
			r.nodes.Add(1)
			defer r.nodes.Done()
			<-r.hold // a silent node
		}
		if !r.observer {
			r.mu.Lock()
			r.log = append(r.log, vfC13Ev{Ev: "end", E: e, H: h, N: aid, X: class})
			r.mu.Unlock()
		}
		msg := fmt.Sprintf("vfc13:%s:%d", class, aid)
		cl := func(w *vfW) *vfW { return w.Short(int(Quorum)) }
		switch class {
		case "ok":
			nc.Reply(f, vfOpResult, vfVoidBody())
		case "unavail_alive":
			nc.Reply(f, vfOpError, vfErrorBody(0x1000, msg, func(w *vfW) { cl(w).Int(2).Int(1) }))
		case "unavail_dead":
			nc.Reply(f, vfOpError, vfErrorBody(0x1000, msg, func(w *vfW) { cl(w).Int(2).Int(0) }))
		case "read_timeout":
			nc.Reply(f, vfOpError, vfErrorBody(0x1200, msg, func(w *vfW) { cl(w).Int(1).Int(2).Byte(0) }))
		case "read_timeout_data":
			nc.Reply(f, vfOpError, vfErrorBody(0x1200, msg, func(w *vfW) { cl(w).Int(1).Int(2).Byte(1) }))
		default:
			if wire, recv, ok := vfC13ParseWt(class); ok { // WRITE_TIMEOUT <cl><received><blockfor><write type>
				nc.Reply(f, vfOpError, vfErrorBody(0x1100, msg, func(w *vfW) { cl(w).Int(int32(recv)).Int(2).String(wire) }))
			} else { // overloaded: scripted classes e_* and "overloaded"
				nc.Reply(f, vfOpError, vfErrorBody(0x1001, msg, nil))
			}
		}
		return true
	}
}

// class and attempt of an error that came back through the driver
func vfC13E2EErr(err error) (class string, aid int) {
	if err == nil {
		return "ok", 0
	}
	if re, ok := err.(RequestError); ok {
		p := strings.Split(re.Message(), ":")
		if len(p) == 3 && p[0] == "vfc13" {
			aid, _ = strconv.Atoi(p[2])
			return p[1], aid
		}
	}
	switch err {
	case ErrNoConnections:
		return "noconn", 0
	case ErrUnknownRetryType:
		return "unknownretry", 0
	case context.Canceled:
		return "canceled", 0
	case context.DeadlineExceeded:
		return "deadline", 0
	}
	return "other", 0
}

type vfC13E2EPolicy struct {
	HostSelectionPolicy
	mu    sync.Mutex
	hosts []*HostInfo
}

func (p *vfC13E2EPolicy) AddHost(h *HostInfo) {
	p.mu.Lock()
	p.hosts = append(p.hosts, h)
	sort.Slice(p.hosts, func(i, j int) bool {
		return p.hosts[i].ConnectAddress().String() < p.hosts[j].ConnectAddress().String()
	})
	p.mu.Unlock()
	p.HostSelectionPolicy.AddHost(h)
}

// a plan with a REPEATABLE order (like a token-aware plan for one routing key): the same hosts in
// the same order on every Pick
func (p *vfC13E2EPolicy) fixedPlan() NextHost {
	p.mu.Lock()
	hs := append([]*HostInfo{}, p.hosts...)
	p.mu.Unlock()
	i := 0
	return func() SelectedHost {
		for i < len(hs) {
			i++
			if hs[i-1].IsUp() {
				return (*selectedHost)(hs[i-1])
			}
		}
		return nil
	}
}

func (p *vfC13E2EPolicy) Pick(q ExecutableQuery) NextHost {
	inner := p.HostSelectionPolicy.Pick(q)
	v, ok := vfC13E2EByStmt.Load(q)
	if !ok {
		return inner
	}
	r := v.(*vfC13E2ERun)
	if r.fixedOrder {
		inner = p.fixedPlan()
	}
	return func() SelectedHost {
		sh := inner()
		r.mu.Lock()
		defer r.mu.Unlock()
		h := 0
		e := r.execLocked()
		if sh != nil && sh.Info() != nil {
			a := sh.Info().ConnectAddress().String()
			if _, seen := r.hostIdx[a]; !seen {
				r.offered = append(r.offered, "ok")
				r.hostIdx[a] = len(r.offered)
			}
			h = r.hostIdx[a]
			r.execOfH[h] = e
		}
		r.log = append(r.log, vfC13Ev{Ev: "pick", E: e, H: h})
		return sh
	}
}

type vfC13E2ERT struct {
	r    *vfC13E2ERun
	real RetryPolicy
}

func (w *vfC13E2ERT) Attempt(q RetryableQuery) bool {
	w.r.mu.Lock()
	if c := w.r.cancelIn; c != nil {
		// the caller's context ends now: after an attempt has failed, before the next one starts
		w.r.cancelIn = nil
		w.r.log = append(w.r.log, vfC13Ev{Ev: "cancel", X: "cancel"})
		c()
	}
	w.r.mu.Unlock()
	n := q.Attempts()
	ans := w.real.Attempt(vfC13Snap{q, n})
	x := "no"
	if ans {
		x = "yes"
	}
	w.r.mu.Lock()
	w.r.log = append(w.r.log, vfC13Ev{Ev: "allow", E: w.r.execLocked(), N: n, X: x})
	w.r.mu.Unlock()
	return ans
}

func (w *vfC13E2ERT) GetRetryType(err error) RetryType {
	class, _ := vfC13E2EErr(err)
	d := w.real.GetRetryType(err)
	want := map[string]RetryType{"e_retry": Retry, "e_next": RetryNextHost, "e_ignore": Ignore, "e_rethrow": Rethrow,
		"e_unknown": RetryType(0x77)}
	if wd, ok := want[class]; ok && wd != d {
		d = wd
	}
	w.r.mu.Lock()
	w.r.log = append(w.r.log, vfC13Ev{Ev: "decide", E: w.r.execLocked(), X: vfC13DecisionName(d), Y: class})
	w.r.mu.Unlock()
	return d
}

// vfC13E2EDefaultRT is the SESSION's default retry policy (ClusterConfig.RetryPolicy): the real
// SimpleRetryPolicy{NumRetries: 3}, observed like the statements' own policies.  Statements keep it,
// replace it with their own through Query/Batch.RetryPolicy, or switch retrying off with RetryPolicy(nil).
type vfC13E2EDefaultRT struct {
	real RetryPolicy
	cur  sync.Map // goroutine -> *vfC13E2ERun of its latest Attempt call
}

func (w *vfC13E2EDefaultRT) Attempt(q RetryableQuery) bool {
	v, ok := vfC13E2EByStmt.Load(q)
	if !ok {
		return w.real.Attempt(q)
	}
	r := v.(*vfC13E2ERun)
	w.cur.Store(vfC13Gid(), r)
	return (&vfC13E2ERT{r: r, real: w.real}).Attempt(q)
}

func (w *vfC13E2EDefaultRT) GetRetryType(err error) RetryType {
	v, ok := w.cur.Load(vfC13Gid())
	if !ok {
		return w.real.GetRetryType(err)
	}
	return (&vfC13E2ERT{r: v.(*vfC13E2ERun), real: w.real}).GetRetryType(err)
}

// TestVfC13E2E: VF_NSTMTS statements through a real Session over 4 scripted nodes -> VF_TRACES.
func TestVfC13E2E(t *testing.T) {
	if os.Getenv("VF_TRACES") == "" {
		t.Skip("VF_TRACES not set")
	}
	seed, _ := strconv.ParseInt(os.Getenv("VF_SEED"), 10, 64)
	n, _ := strconv.Atoi(os.Getenv("VF_NSTMTS"))
	if n == 0 {
		n = 100
	}
	base, _ := strconv.Atoi(os.Getenv("VF_IDBASE"))
	const H = 4
	cl := &vfCluster{Partitioner: "org.apache.cassandra.dht.Murmur3Partitioner", Version: "3.11.4"}
	var descs []vfHostDesc
	for i := 1; i <= H; i++ {
		descs = append(descs, vfDesc(i))
	}
	cl.Set(descs)
	var nodes []*vfNode
	for i := 1; i <= H; i++ {
		nd := vfNewNode(cl, vfDesc(i))
		nd.Handler = vfC13E2EHandler(nd.Addr.IP.String())
		nodes = append(nodes, nd)
	}
	d := vfNewDialer(nodes...)
	cfg := vfClusterConfig(d, 4, "10.0.0.1")
	cfg.Timeout = 5 * time.Second
	cfg.PoolConfig.HostSelectionPolicy = &vfC13E2EPolicy{HostSelectionPolicy: RoundRobinHostPolicy()}
	cfg.RetryPolicy = &vfC13E2EDefaultRT{real: &SimpleRetryPolicy{NumRetries: 3}}
	s, err := NewSession(*cfg)
	if err != nil {
		t.Fatalf("session: %v", err)
	}
	defer s.Close()
	deadline := time.Now().Add(10 * time.Second)
	for {
		ready := 0
		for _, h := range s.ring.allHosts() {
			if p, ok := s.pool.getPool(h); ok && p.Size() == 1 && h.IsUp() {
				ready++
			}
		}
		if ready == H {
			break
		}
		if time.Now().After(deadline) {
			t.Fatalf("pools not filled (%d of %d)", ready, H)
		}
		time.Sleep(5 * time.Millisecond)
	}
	out, err := os.Create(os.Getenv("VF_TRACES"))
	if err != nil {
		t.Fatal(err)
	}
	defer out.Close()
	w := bufio.NewWriterSize(out, 1<<20)
	defer w.Flush()
	rng := rand.New(rand.NewSource(seed*7919 + 13))
	for i := 0; i < n; i++ {
		id := base + i + 1
		r := &vfC13E2ERun{id: id, rng: rand.New(rand.NewSource(rng.Int63())), hostIdx: map[string]int{}, classOf: map[int]string{},
			maxTries: 12, natt: map[int]int{}, gids: map[int64]int{}, execOfH: map[int]int{}, pending: map[int]int{}, unseen: map[int]int{},
			dialer: d, base: map[string]int{}, handled: map[string]int{}}
		for _, nd := range nodes {
			a := nd.Addr.IP.String()
			r.base[a] = vfC13E2EWritten(d, a)
		}
		cfgm := vfC13Cfg{K: 0, Idem: rng.Intn(4) != 0, Allow: []int{}, Hosts: []string{}}
		// scenario: plain / the caller's deadline expires while the (slow) first node has not answered /
		// a statement that is NOT idempotent with a speculative policy and a slow first node
		// / an idempotent statement whose main execution sits on a slow node that answers with an
		// error only after a speculative execution elsewhere has delivered the result
		// / an idempotent statement with a speculative policy whose caller cancels after every execution
		// was launched and while all nodes are silent: the call must return all the same
		scen := []string{"plain", "plain", "plain", "cancel-between", "deadline", "specnonidem", "spec", "spec-cancel"}[rng.Intn(8)]
		r.scen = scen
		pols := []string{"none", "simple", "expo", "downgrade", "script", "default"}
		r.polName = pols[rng.Intn(len(pols))]
		var real RetryPolicy
		switch r.polName {
		case "none":
			cfgm.Polkind = "none"
		case "script":
			cfgm.Polkind = "script"
			p := &vfC13ScriptPolicy{allow: map[int]bool{}}
			for a := 1; a <= 4; a++ {
				if rng.Intn(2) == 0 {
					cfgm.Allow = append(cfgm.Allow, a)
					p.allow[a] = true
				}
			}
			real = p
		case "default": // the statement keeps the session default, SimpleRetryPolicy{3}
			cfgm.Polkind, cfgm.Poln = "budget", 3
		default:
			cfgm.Polkind = "budget"
			cfgm.Poln = rng.Intn(4)
			if scen == "spec" || scen == "cancel-between" {
				cfgm.Poln = 2 + rng.Intn(2) // a budget the retry in question would still fit in
			}
			switch r.polName {
			case "simple":
				real = &SimpleRetryPolicy{NumRetries: cfgm.Poln}
			case "expo":
				real = &ExponentialBackoffRetryPolicy{NumRetries: cfgm.Poln, Min: time.Microsecond, Max: 4 * time.Microsecond}
			case "downgrade":
				lv := []Consistency{Quorum, Two, One, Any, LocalOne}
				real = &DowngradingConsistencyRetryPolicy{ConsistencyLevelsToTry: lv[:cfgm.Poln]}
			}
		}
		r.classes = cfgm.outsFree()
		for k, c := range r.classes { // no silent nodes / closed connections at this level
			if c == "timeout" || c == "connloss" {
				r.classes[k] = "overloaded"
			}
		}
		// how the statement gets its retry policy: its own through the setter / RetryPolicy(nil): none /
		// no call: the session default
		var rt RetryPolicy
		setter := "own"
		switch {
		case r.polName == "default":
			setter, r.polName = "default", "simple"
		case real == nil:
			setter = "nil"
		default:
			rt = &vfC13E2ERT{r: r, real: real}
		}
		stmt := []string{"query", "batch"}[rng.Intn(2)]
		observer := rng.Intn(2) == 0
		var spec SpeculativeExecutionPolicy
		ctx := context.Background()
		cancel := func() {}
		switch scen {
		case "deadline":
			observer = true // the driver-side end of the attempt is seen through the observer
			r.delay = 6 * time.Millisecond
			ctx, cancel = context.WithTimeout(ctx, 1500*time.Microsecond)
			r.ctx = ctx
		case "cancel-between":
			// the caller cancels while the retry policy is being consulted, i.e. between two attempts:
			// the retry must not reach any server
			observer = true
			ctx, cancel = context.WithCancel(ctx)
			r.cancelIn = cancel
		case "spec":
			r.fixedOrder = rng.Intn(2) == 0
			cfgm.Idem = true
			cfgm.K = 1
			r.delay = 4 * time.Millisecond
			spec = &SimpleSpeculativeExecution{NumAttempts: 1, TimeoutDelay: 300 * time.Microsecond}
		case "spec-cancel":
			cfgm.Idem = true
			cfgm.K = 1
			r.hold = make(chan struct{})
			spec = &SimpleSpeculativeExecution{NumAttempts: 1, TimeoutDelay: 200 * time.Microsecond}
			ctx, cancel = context.WithCancel(ctx)
		case "specnonidem":
			cfgm.Idem = false
			cfgm.K = 1
			r.delay = 3 * time.Millisecond
			spec = &SimpleSpeculativeExecution{NumAttempts: 1, TimeoutDelay: 300 * time.Microsecond}
		}
		r.observer = observer
		r.nodeDone = make(chan struct{})
		obs := &vfC13E2EObs{r: r}
		vfC13E2ERuns.Store(id, r)
		var rerr error
		var exec func() error
		cleanup := func() {}
		release := func() {}
		text := fmt.Sprintf("vfc13 %d", id)
		r.marker = []byte(text + ";")
		entries := ""
		if stmt == "query" {
			// idempotence comes from the real statement: Query.Idempotent
			// Session.Query takes the object from the driver's pool; statements that need no context of
			// their own run on that very object and hand it back with Release() afterwards, so that later
			// statements re-use it (a recycled Query must start with Attempts() = 0)
			q0 := s.Query(text + ";")
			q := q0.Idempotent(cfgm.Idem).Consistency(Quorum)
			if scen == "plain" {
				release = func() { q0.Release() }
			} else {
				q = q.WithContext(ctx)
			}
			if setter != "default" {
				q.RetryPolicy(rt) // rt is the nil interface for "nil"
			}
			if spec != nil {
				q.SetSpeculativeExecutionPolicy(spec)
			}
			if observer {
				q.Observer(obs)
			}
			vfC13E2EByStmt.Store(ExecutableQuery(q), r)
			cleanup = func() { vfC13E2EByStmt.Delete(ExecutableQuery(q)) }
			exec = func() error { return q.Iter().Close() }
		} else {
			// ... or from the per-entry flags of a real Batch: all / none / mixed
			b := s.NewBatch(UnloggedBatch).WithContext(ctx)
			b.Entries, entries = vfC13Entries(cfgm.Idem, rng.Intn(4))
			for k := range b.Entries {
				b.Entries[k].Stmt = fmt.Sprintf("%s e%d", text, k)
				if k == 0 {
					b.Entries[k].Stmt = text + "; e0"
				}
			}
			b.Cons = Quorum
			if setter != "default" {
				b.RetryPolicy(rt)
			}
			if spec != nil {
				b.SpeculativeExecutionPolicy(spec)
			}
			b.observer = nil
			if observer {
				b.Observer(obs)
			}
			vfC13E2EByStmt.Store(ExecutableQuery(b), r)
			cleanup = func() { vfC13E2EByStmt.Delete(ExecutableQuery(b)) }
			exec = func() error { return s.ExecuteBatch(b) }
		}
		hang, stuck := "", false
		if scen != "spec-cancel" {
			rerr = exec()
		} else {
			resCh := make(chan error, 1)
			go func() { resCh <- exec() }()
			// every execution launched and in flight: both nodes hold a request (and stay silent)
			for t0 := time.Now(); time.Since(t0) < 2*time.Second; time.Sleep(50 * time.Microsecond) {
				r.mu.Lock()
				n := r.total
				r.mu.Unlock()
				if n >= 2 {
					break
				}
			}
			r.mu.Lock()
			r.log = append(r.log, vfC13Ev{Ev: "cancel", X: "cancel"})
			cancel()
			r.mu.Unlock()
			// The call must return.  Event based: once no execution goroutine of the statement is left
			// nothing can be sent on the results channel any more; if the call has not returned a
			// grace period after that, it never will.
			var since time.Time
		wait:
			for {
				select {
				case rerr = <-resCh:
					break wait
				case <-time.After(500 * time.Microsecond):
				}
				if strings.Contains(vfGoroutineDump(), "(*queryExecutor).run") {
					since = time.Time{}
				} else if since.IsZero() {
					since = time.Now()
				} else if time.Since(since) > vfC13StuckGrace {
					hang, stuck = "the call has not returned although the caller's context is cancelled and every execution goroutine has finished: nothing can wake it any more", true
					break wait
				}
			}
			close(r.hold)
			r.nodes.Wait()
		}
		// the caller has its result
		if !stuck {
			r.mu.Lock()
			class, ea := vfC13E2EErr(rerr)
			if class == "canceled" || class == "deadline" {
				r.noteExpiredLocked()
			}
			r.log = append(r.log, vfC13Ev{Ev: "return", N: -1, H: ea, X: class})
			r.mu.Unlock()
		}
		cancel()
		// settle, event based: the slow node has sent its answer, and every execution goroutine of
		// the statement has ended - whatever they still do for the statement is in the trace
		if r.delay > 0 {
			r.mu.Lock()
			seen := r.total > 0
			r.mu.Unlock()
			if seen { // let the slow node finish before the next statement uses its connection
				select {
				case <-r.nodeDone:
				case <-time.After(5 * time.Second):
				}
			}
		}
		if cfgm.K > 0 && !stuck {
			deadline := time.Now().Add(5 * time.Second)
			for strings.Contains(vfGoroutineDump(), "(*queryExecutor).run") {
				if time.Now().After(deadline) {
					hang = "an execution goroutine of the statement was still running 5s after the result was returned"
					break
				}
				time.Sleep(100 * time.Microsecond)
			}
		}
		cleanup()
		release()
		vfC13E2ERuns.Delete(id)
		r.mu.Lock()
		// hosts the round robin did not get to offer
		for len(r.offered) < H {
			r.offered = append(r.offered, "ok")
		}
		begin := vfC13Begin{Ev: "begin", Id: id, Hosts: r.offered, Polkind: cfgm.Polkind, Poln: cfgm.Poln, Allow: cfgm.Allow,
			K: cfgm.K, Idem: cfgm.Idem, Policy: r.polName, Mode: "e2e:" + scen, Stmt: stmt, Obs: observer, Entries: entries, Wire: true, Setter: setter}
		vfC13Write(w, begin, r.log)
		sum := vfC13Summary{Id: id, Mode: "e2e", Policy: r.polName, Events: len(r.log)}
		r.mu.Unlock()
		sum.Hang, sum.Stuck = hang, stuck
		sb, _ := json.Marshal(sum)
		fmt.Printf("VFC13SUM %s\n", sb)
	}
}
