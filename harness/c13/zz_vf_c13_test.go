package gocql

// Verification harness for property C13 (retries, idempotence, speculative execution).
// Overlaid into package gocql by /verif/bin/check.  It drives the REAL queryExecutor
// (executeQuery / speculate / run / do), the REAL Query metrics (Query.attempt, Attempts),
// the REAL retry policies and SimpleSpeculativeExecution with
//   - a fake ExecutableQuery whose execute() returns scripted *Iter values,
//   - hand-built HostInfos / policyConnPool / hostConnPools with dummy *Conn,
//   - a recording host selection policy (fixed order, or wrapping the real round robin).
// Everything it observes is written as NDJSON events in the vocabulary of
// spec/ExecutorMon.tla; the verdicts are computed by TLC, not here.

import (
	"bufio"
	"context"
	"encoding/json"
	"fmt"
	"math/rand"
	"net"
	"os"
	"runtime"
	"strconv"
	"strings"
	"sync"
	"sync/atomic"
	"testing"
	"time"

	"github.com/gocql/gocql/internal/streams"
)

// ---------------------------------------------------------------- data

type vfC13Cfg struct {
	Hosts   []string `json:"hosts"`
	Polkind string   `json:"polkind"` // none | budget | script
	Poln    int      `json:"poln"`
	Allow   []int    `json:"allow"`
	K       int      `json:"k"`
	Idem    bool     `json:"idem"`
	Cancel  string   `json:"cancel"` // none | cancel | deadline
}

type vfC13Ev struct {
	Ev string `json:"ev"`
	E  int    `json:"e"`
	H  int    `json:"h"`
	N  int    `json:"n"`
	X  string `json:"x"`
	Y  string `json:"y"`
}

type vfC13Case struct {
	Id   int       `json:"id"`
	Cfg  vfC13Cfg  `json:"cfg"`
	Hist []vfC13Ev `json:"hist"`
}

type vfC13Begin struct {
	Ev      string   `json:"ev"`
	E       int      `json:"e"`
	H       int      `json:"h"`
	N       int      `json:"n"`
	X       string   `json:"x"`
	Y       string   `json:"y"`
	Id      int      `json:"id"`
	Hosts   []string `json:"hosts"`
	Polkind string   `json:"polkind"`
	Poln    int      `json:"poln"`
	Allow   []int    `json:"allow"`
	K       int      `json:"k"`
	Idem    bool     `json:"idem"`
	Policy  string   `json:"policy"`
	Mode    string   `json:"mode"`
	Stmt    string   `json:"stmt"`
	Obs     bool     `json:"observer"`
	Entries string   `json:"entries"`
	Wire    bool     `json:"wire"` // end-to-end observation: "start" is logged by the node on receipt
	Setter  string   `json:"setter"`
}

type vfC13Summary struct {
	Id       int    `json:"id"`
	Mode     string `json:"mode"`
	Policy   string `json:"policy"`
	Exact    bool   `json:"exact"`    // the real event sequence equals the model's behaviour
	Diverged string `json:"diverged"` // where the scheduler lost the model's behaviour
	Hang     string `json:"hang"`     // executeQuery / an execution did not finish (watchdog)
	Events   int    `json:"events"`
	Panic    string `json:"panic"`
	Skipped  bool   `json:"skipped"` // not executed: too many executions hung before
	Stuck    bool   `json:"stuck"`   // the hang is certain: nothing can wake executeQuery any more
}

// scripted error: one object per attempt, so "the last attempt's error" is an identity
type vfC13Err struct {
	class string
	aid   int
}

func (e *vfC13Err) Error() string { return fmt.Sprintf("vf-c13 %s #%d", e.class, e.aid) }

// ---------------------------------------------------------------- one run

type vfC13Gate struct {
	e      int
	kind   string // start | end | allow | decide
	resume chan string
}

type vfC13Run struct {
	mu   sync.Mutex
	log  []vfC13Ev
	cfg  vfC13Cfg
	rng  *rand.Rand
	free bool // free running (no gates)

	hosts   []*HostInfo
	hostIdx map[*HostInfo]int
	offered []string // kinds of the hosts in the order the policy offered them
	kindOf  map[*HostInfo]string

	gids  map[int64]int
	natt  map[int]int
	iters map[*Iter]int
	errs  map[error]int
	curH  map[int]int // aid -> host index

	ctx          context.Context
	cancel       func()
	realTimer    bool // ctx is a context.WithTimeout: its expiry is noted at the first observation
	cancelLogged bool
	wg           sync.WaitGroup

	parkCh  chan *vfC13Gate
	drain   bool
	outcome map[int]string // aid -> outcome the model chose (used while draining)
	made    map[int]string // aid -> class the attempt's error object was made for
	polName string

	maxDelay              time.Duration
	retLogged             bool // the return event has been logged (mu)
	runsStarted, runsLive int  // execution goroutines (mu)
	minDelay              time.Duration

	stmt     string // "query" | "batch"
	observer bool
	entries  string // batch: all | none | mixed
	setter   string // how the statement got its retry policy: own | nil | default
}

func vfC13Gid() int64 {
	var b [64]byte
	n := runtime.Stack(b[:], false)
	f := strings.Fields(string(b[:n]))
	id, _ := strconv.ParseInt(f[1], 10, 64)
	return id
}

// exec id of the calling goroutine (assigned at its first host iterator call); mu held
func (r *vfC13Run) execLocked() int {
	g := vfC13Gid()
	e, ok := r.gids[g]
	if !ok {
		e = len(r.gids) + 1
		r.gids[g] = e
	}
	return e
}

func (r *vfC13Run) exec() int {
	r.mu.Lock()
	defer r.mu.Unlock()
	return r.execLocked()
}

// park blocks the calling goroutine at a gate until the scheduler resumes it.
func (r *vfC13Run) park(e int, kind string) string {
	if r.free {
		return ""
	}
	r.mu.Lock()
	d := r.drain
	r.mu.Unlock()
	if d {
		return ""
	}
	g := &vfC13Gate{e: e, kind: kind, resume: make(chan string, 1)}
	r.parkCh <- g
	return <-g.resume
}

func vfC13Class(r *vfC13Run, err error) (class string, aid int) {
	switch err {
	case nil:
		return "ok", 0
	case context.Canceled:
		return "canceled", 0
	case context.DeadlineExceeded:
		return "deadline", 0
	case ErrNoConnections:
		return "noconn", 0
	case ErrUnknownRetryType:
		return "unknownretry", 0
	}
	if a, ok := r.errs[err]; ok {
		switch t := err.(type) {
		case *vfC13Err:
			return t.class, a
		default:
			return vfC13TypedClass(err), a
		}
	}
	return "other", 0
}

// server error classes: "unavail_alive|dead", "read_timeout" / "read_timeout_data",
// "wt_<write type>_<recv|none>" for every write type of the protocol
var vfC13WriteTypes = []struct{ short, wire string }{{"simple", "SIMPLE"}, {"batch", "BATCH"}, {"counter", "COUNTER"},
	{"unlogged", "UNLOGGED_BATCH"}, {"cas", "CAS"}, {"batchlog", "BATCH_LOG"}, {"view", "VIEW"}, {"cdc", "CDC"}}

func vfC13ServerClasses() []string {
	cs := []string{"unavail_alive", "unavail_dead", "read_timeout", "read_timeout_data"}
	for _, w := range vfC13WriteTypes {
		cs = append(cs, "wt_"+w.short+"_recv", "wt_"+w.short+"_none")
	}
	return cs
}

// write type (wire name) and received count of a "wt_*" class
func vfC13ParseWt(class string) (wire string, recv int, ok bool) {
	p := strings.Split(class, "_")
	if len(p) != 3 || p[0] != "wt" {
		return "", 0, false
	}
	for _, w := range vfC13WriteTypes {
		if w.short == p[1] {
			if p[2] == "recv" {
				recv = 1
			}
			return w.wire, recv, true
		}
	}
	return "", 0, false
}

func vfC13TypedClass(err error) string {
	switch t := err.(type) {
	case *RequestErrUnavailable:
		if t.Alive > 0 {
			return "unavail_alive"
		}
		return "unavail_dead"
	case *RequestErrWriteTimeout:
		for _, w := range vfC13WriteTypes {
			if w.wire == t.WriteType {
				if t.Received > 0 {
					return "wt_" + w.short + "_recv"
				}
				return "wt_" + w.short + "_none"
			}
		}
	case *RequestErrReadTimeout:
		if t.DataPresent != 0 {
			return "read_timeout_data"
		}
		return "read_timeout"
	}
	return "other"
}

// error object for an outcome class.  With the real DowngradingConsistencyRetryPolicy the
// scripted classes are realised by the server errors for which that policy takes exactly
// that decision, so its own GetRetryType decides.
func (r *vfC13Run) mkErr(class string, aid int) error {
	if r.polName == "downgrade" {
		switch class {
		case "e_retry":
			return &RequestErrReadTimeout{Consistency: Quorum, Received: 1, BlockFor: 2}
		case "e_rethrow":
			return &RequestErrUnavailable{Consistency: Quorum, Required: 2, Alive: 0}
		case "e_ignore":
			return &RequestErrWriteTimeout{Consistency: Quorum, Received: 1, BlockFor: 2, WriteType: "SIMPLE"}
		}
	}
	switch class {
	case "unavail_alive":
		return &RequestErrUnavailable{Consistency: Quorum, Required: 2, Alive: 1}
	case "unavail_dead":
		return &RequestErrUnavailable{Consistency: Quorum, Required: 2, Alive: 0}
	case "read_timeout":
		return &RequestErrReadTimeout{Consistency: Quorum, Received: 1, BlockFor: 2}
	case "read_timeout_data":
		return &RequestErrReadTimeout{Consistency: Quorum, Received: 1, BlockFor: 2, DataPresent: 1}
	}
	if wire, recv, ok := vfC13ParseWt(class); ok {
		return &RequestErrWriteTimeout{Consistency: Quorum, Received: recv, BlockFor: 2, WriteType: wire}
	}
	return &vfC13Err{class: class, aid: aid} // e_* classes, "timeout", "connloss"
}

// class under which an error object is reported: the scripted class it was made for
func (r *vfC13Run) classOfAid(aid int, err error) string {
	if c, ok := r.made[aid]; ok {
		return c
	}
	c, _ := vfC13Class(r, err)
	return c
}

// ---------------------------------------------------------------- contexts

// vfC13Ctx is a caller's context with a deadline that expires when the scheduler says so (replay of
// the model's "deadline" form of the cancellation action): Err() is context.DeadlineExceeded.  It
// implements the AfterFunc hook of package context, so the child context executeQuery derives is
// cancelled synchronously, exactly like the child of a timer context.
type vfC13Ctx struct {
	mu   sync.Mutex
	done chan struct{}
	err  error
	fns  map[int]func()
	next int
	dl   time.Time
}

func vfC13NewCtx() *vfC13Ctx {
	return &vfC13Ctx{done: make(chan struct{}), fns: map[int]func(){}, dl: time.Now().Add(time.Hour)}
}
func (c *vfC13Ctx) Deadline() (time.Time, bool)       { return c.dl, true }
func (c *vfC13Ctx) Done() <-chan struct{}             { return c.done }
func (c *vfC13Ctx) Value(key interface{}) interface{} { return nil }
func (c *vfC13Ctx) Err() error {
	c.mu.Lock()
	defer c.mu.Unlock()
	return c.err
}
func (c *vfC13Ctx) AfterFunc(f func()) func() bool {
	c.mu.Lock()
	defer c.mu.Unlock()
	if c.err != nil {
		go f()
		return func() bool { return false }
	}
	id := c.next
	c.next++
	c.fns[id] = f
	return func() bool {
		c.mu.Lock()
		defer c.mu.Unlock()
		_, ok := c.fns[id]
		delete(c.fns, id)
		return ok
	}
}
func (c *vfC13Ctx) expire(err error) {
	c.mu.Lock()
	if c.err != nil {
		c.mu.Unlock()
		return
	}
	c.err = err
	close(c.done)
	fns := c.fns
	c.fns = map[int]func(){}
	c.mu.Unlock()
	for _, f := range fns {
		f()
	}
}

func vfC13CtxClass(err error) string {
	if err == context.DeadlineExceeded {
		return "deadline"
	}
	return "canceled"
}

// noteExpiredLocked: with a REAL timer context (free running) the expiry of the caller's deadline
// is logged at the first observation of it, before the observing event (mu held): the context
// did end before, and nothing observes it without passing through a logging point.
func (r *vfC13Run) noteExpiredLocked() {
	if r.realTimer && !r.cancelLogged && r.ctx.Err() != nil {
		r.cancelLogged = true
		r.log = append(r.log, vfC13Ev{Ev: "cancel", X: "deadline"})
	}
}

// ---------------------------------------------------------------- the fake statements

// Both real statement kinds are driven: vfC13Query embeds a real *Query, vfC13Batch a real
// *Batch; only the wire-level execute step is replaced.  Their REAL attempt() methods feed the
// shared counter (Attempts()), with and without an observer installed.
type vfC13Core struct {
	vrun *vfC13Run
}

type vfC13Query struct {
	*Query
	vfC13Core
}

type vfC13Batch struct {
	*Batch
	vfC13Core
}

func (q *vfC13Query) borrowForExecution()    { q.vrun.borrow() }
func (q *vfC13Query) releaseAfterExecution() { q.vrun.release() }
func (q *vfC13Query) execute(ctx context.Context, conn *Conn) *Iter {
	return q.vrun.doExecute(ctx, conn)
}
func (q *vfC13Query) attempt(keyspace string, end, start time.Time, iter *Iter, host *HostInfo) {
	q.vrun.doAttempt(func() { q.Query.attempt(keyspace, end, start, iter, host) }, iter, host)
}

func (b *vfC13Batch) borrowForExecution()    { b.vrun.borrow() }
func (b *vfC13Batch) releaseAfterExecution() { b.vrun.release() }
func (b *vfC13Batch) execute(ctx context.Context, conn *Conn) *Iter {
	return b.vrun.doExecute(ctx, conn)
}
func (b *vfC13Batch) attempt(keyspace string, end, start time.Time, iter *Iter, host *HostInfo) {
	b.vrun.doAttempt(func() { b.Batch.attempt(keyspace, end, start, iter, host) }, iter, host)
}

// execution goroutines (queryExecutor.run) started / still running: run() brackets its work with
// borrowForExecution / releaseAfterExecution
func (r *vfC13Run) borrow() {
	r.wg.Add(1)
	r.mu.Lock()
	r.runsStarted++
	r.runsLive++
	r.mu.Unlock()
}

func (r *vfC13Run) release() {
	r.mu.Lock()
	r.runsLive--
	r.mu.Unlock()
	r.wg.Done()
}

// how long executeQuery may take to return once nothing can wake it any more
const vfC13StuckGrace = 3 * time.Second

// awaitEnd waits for executeQuery (done) and every execution goroutine.  It recognises, EVENT
// BASED, that executeQuery can never return: the caller's context is done, every execution
// goroutine that was started has finished (so nothing will ever be sent on the results channel),
// and executeQuery has still not returned after a grace period.  tick() is called between polls.
func (r *vfC13Run) awaitEnd(done <-chan struct{}, limit time.Duration, tick func()) (hang string, stuck bool) {
	fin := make(chan struct{})
	go func() { <-done; r.wg.Wait(); close(fin) }()
	watchdog := time.After(limit)
	var since time.Time
	for {
		if tick != nil {
			tick()
		}
		select {
		case <-fin:
			return "", false
		case <-watchdog:
			return fmt.Sprintf("executeQuery or an execution goroutine did not finish within %v", limit), false
		case <-time.After(500 * time.Microsecond):
		}
		returned := false
		select {
		case <-done:
			returned = true
		default:
		}
		r.mu.Lock()
		cond := !returned && r.runsStarted > 0 && r.runsLive == 0 && r.ctx.Err() != nil
		r.mu.Unlock()
		switch {
		case !cond:
			since = time.Time{}
		case since.IsZero():
			since = time.Now()
		case time.Since(since) > vfC13StuckGrace:
			return "executeQuery has not returned although the caller's context is done and every execution goroutine has finished: nothing can wake it any more", true
		}
	}
}

// observer installed on half of the statements (the real attempt() takes another path then)
type vfC13Obs struct {
	mu sync.Mutex
	n  int
}

func (o *vfC13Obs) ObserveQuery(context.Context, ObservedQuery) { o.mu.Lock(); o.n++; o.mu.Unlock() }
func (o *vfC13Obs) ObserveBatch(context.Context, ObservedBatch) { o.mu.Lock(); o.n++; o.mu.Unlock() }

func (r *vfC13Run) doExecute(ctx context.Context, conn *Conn) *Iter {
	e := r.exec()
	r.park(e, "start")
	r.mu.Lock()
	r.natt[e]++
	aid := 10*e + r.natt[e]
	h := r.hostIdx[conn.host]
	r.curH[aid] = h
	// Conn.exec refuses a context that is already done: nothing reaches the server
	dead := ctx.Err() != nil
	x := "sent"
	if dead {
		x = "refused"
		r.noteExpiredLocked()
	}
	r.log = append(r.log, vfC13Ev{Ev: "start", E: e, H: h, N: aid, X: x})
	var class string
	var delay time.Duration
	if r.free && !dead {
		outs := r.cfg.outsFree()
		class = outs[r.rng.Intn(len(outs))]
		if r.rng.Intn(5) == 0 {
			class = "ok"
		}
		delay = r.minDelay + time.Duration(r.rng.Int63n(int64(r.maxDelay-r.minDelay)+1))
	}
	r.mu.Unlock()

	if dead {
		r.park(e, "end")
		it := &Iter{err: ctx.Err()}
		r.mu.Lock()
		r.iters[it] = aid
		r.mu.Unlock()
		return it
	}
	if r.free {
		select {
		case <-time.After(delay):
		case <-ctx.Done():
			class = vfC13CtxClass(ctx.Err())
		}
	} else {
		class = r.park(e, "end")
		if class == "" { // draining: the model's outcome if it had one, else success
			r.mu.Lock()
			class = r.outcome[aid]
			r.mu.Unlock()
			if class == "" || ((class == "canceled" || class == "deadline") && ctx.Err() == nil) {
				class = "ok"
			}
		}
	}
	var err error
	switch class {
	case "ok":
	case "canceled", "deadline":
		err = ctx.Err()
		if err == nil {
			err = context.Canceled
		}
	default:
		err = r.mkErr(class, aid)
	}
	it := &Iter{err: err}
	r.mu.Lock()
	r.iters[it] = aid
	if err != nil && class != "canceled" && class != "deadline" {
		r.errs[err] = aid
		r.made[aid] = class
	}
	r.mu.Unlock()
	return it
}

// attempt: the real metrics update and the "end" event in one critical section
func (r *vfC13Run) doAttempt(real func(), iter *Iter, host *HostInfo) {
	r.mu.Lock()
	e := r.execLocked()
	aid := r.iters[iter]
	real()
	if r.kindOf[host] == "okonce" {
		// the node is reported down while the query is under way: a retry on the same host finds it gone
		host.setState(NodeDown)
	}
	class := "ok"
	if iter.err != nil {
		class = r.classOfAid(aid, iter.err)
		if class == "canceled" || class == "deadline" {
			r.noteExpiredLocked()
		}
	}
	r.log = append(r.log, vfC13Ev{Ev: "end", E: e, H: r.hostIdx[host], N: aid, X: class})
	r.mu.Unlock()
}

// ---------------------------------------------------------------- retry policy wrapper

// Attempt() is always answered by the wrapped REAL policy (or the scripted one for
// pol.kind = script); GetRetryType by the real policy unless the scripted error class
// demands a decision that policy never takes.
type vfC13RT struct {
	run  *vfC13Run
	real RetryPolicy
}

// the value of Attempts() the policy decides on is the one that is logged
type vfC13Snap struct {
	RetryableQuery
	n int
}

func (s vfC13Snap) Attempts() int { return s.n }

func (w *vfC13RT) Attempt(q RetryableQuery) bool {
	r := w.run
	e := r.exec()
	r.park(e, "allow")
	r.mu.Lock()
	defer r.mu.Unlock()
	n := q.Attempts()
	ans := w.real.Attempt(vfC13Snap{q, n})
	x := "no"
	if ans {
		x = "yes"
	}
	r.log = append(r.log, vfC13Ev{Ev: "allow", E: e, N: n, X: x})
	return ans
}

func vfC13DecisionName(t RetryType) string {
	switch t {
	case Retry:
		return "retry"
	case RetryNextHost:
		return "next"
	case Ignore:
		return "ignore"
	case Rethrow:
		return "rethrow"
	}
	return "unknown"
}

func (w *vfC13RT) GetRetryType(err error) RetryType {
	r := w.run
	e := r.exec()
	r.park(e, "decide")
	r.mu.Lock()
	defer r.mu.Unlock()
	class, _ := vfC13Class(r, err)
	if a, ok := r.errs[err]; ok {
		class = r.classOfAid(a, err)
	}
	d := w.real.GetRetryType(err)
	want := map[string]RetryType{"e_retry": Retry, "e_next": RetryNextHost, "e_ignore": Ignore, "e_rethrow": Rethrow,
		"e_unknown": RetryType(0x77)}
	if wd, ok := want[class]; ok && wd != d {
		d = wd // scripted decision function
	}
	r.log = append(r.log, vfC13Ev{Ev: "decide", E: e, X: vfC13DecisionName(d), Y: class})
	return d
}

type vfC13ScriptPolicy struct{ allow map[int]bool }

func (p *vfC13ScriptPolicy) Attempt(q RetryableQuery) bool { return p.allow[q.Attempts()] }
func (p *vfC13ScriptPolicy) GetRetryType(error) RetryType  { return RetryNextHost }

// ---------------------------------------------------------------- host selection

type vfC13Fixed struct{ hosts []*HostInfo }

func (p *vfC13Fixed) AddHost(*HostInfo)                   {}
func (p *vfC13Fixed) RemoveHost(*HostInfo)                {}
func (p *vfC13Fixed) HostUp(*HostInfo)                    {}
func (p *vfC13Fixed) HostDown(*HostInfo)                  {}
func (p *vfC13Fixed) SetPartitioner(string)               {}
func (p *vfC13Fixed) KeyspaceChanged(KeyspaceUpdateEvent) {}
func (p *vfC13Fixed) Init(*Session)                       {}
func (p *vfC13Fixed) IsLocal(*HostInfo) bool              { return true }
func (p *vfC13Fixed) Pick(ExecutableQuery) NextHost {
	i := 0
	return func() SelectedHost {
		if i >= len(p.hosts) {
			return nil
		}
		i++
		return (*selectedHost)(p.hosts[i-1])
	}
}

// recording wrapper: numbers the hosts in the order they are offered
type vfC13Policy struct {
	HostSelectionPolicy
	run *vfC13Run
}

func (p *vfC13Policy) Pick(q ExecutableQuery) NextHost {
	inner := p.HostSelectionPolicy.Pick(q)
	r := p.run
	return func() SelectedHost {
		r.mu.Lock()
		defer r.mu.Unlock()
		e := r.execLocked()
		sh := inner()
		h := 0
		if sh != nil && sh.Info() != nil {
			hi := sh.Info()
			if _, seen := r.hostIdx[hi]; !seen {
				r.offered = append(r.offered, r.kindOf[hi])
				r.hostIdx[hi] = len(r.offered)
			}
			h = r.hostIdx[hi]
		}
		r.log = append(r.log, vfC13Ev{Ev: "pick", E: e, H: h})
		return sh
	}
}

func (c vfC13Cfg) outsFree() []string {
	if c.Polkind == "script" || c.Polkind == "none" {
		return []string{"e_retry", "e_next", "e_ignore", "e_rethrow", "e_unknown", "timeout", "connloss"}
	}
	return append(vfC13ServerClasses(), "timeout", "connloss", "e_next")
}

// ---------------------------------------------------------------- set-up

// how a run's statement and context are made
type vfC13Opts struct {
	stmt      string        // "query" | "batch"
	observer  bool          // QueryObserver / BatchObserver installed
	entries   int           // batch: which per-entry idempotence pattern (see vfC13Entries)
	timeout   time.Duration // > 0: the caller's context is context.WithTimeout(timeout)
	scripted  bool          // the caller's context is a vfC13Ctx (deadline expires on command)
	specDelay time.Duration // > 0: SpeculativeExecutionPolicy.Delay()
	setter    int           // which way the statement gets its retry policy
}

// per-entry idempotence of a batch: all entries idempotent when the scenario says the statement is
// idempotent; otherwise none of them, or a MIXED batch (some are, some are not), which is not
// idempotent either.  The scenario's "idem" is what the harness configured, never IsIdempotent().
func vfC13Entries(idem bool, pattern int) (es []BatchEntry, name string) {
	flags := []bool{true, true}
	name = "all"
	if !idem {
		switch pattern % 4 {
		case 0:
			flags, name = []bool{false, false}, "none"
		case 1:
			flags, name = []bool{true, false}, "mixed"
		case 2:
			flags, name = []bool{false, true}, "mixed"
		case 3:
			flags, name = []bool{false, true, true}, "mixed"
		}
	}
	for i, f := range flags {
		es = append(es, BatchEntry{Stmt: fmt.Sprintf("vf-c13-%d", i), Idempotent: f})
	}
	return
}

func vfC13NewRun(cfg vfC13Cfg, seed int64, free bool, polName string, roundRobin bool, o vfC13Opts) (*vfC13Run, *queryExecutor, ExecutableQuery) {
	stmt, observer := o.stmt, o.observer
	r := &vfC13Run{cfg: cfg, rng: rand.New(rand.NewSource(seed)), free: free,
		hostIdx: map[*HostInfo]int{}, kindOf: map[*HostInfo]string{}, gids: map[int64]int{}, natt: map[int]int{},
		iters: map[*Iter]int{}, errs: map[error]int{}, curH: map[int]int{}, parkCh: make(chan *vfC13Gate, 16),
		outcome: map[int]string{}, made: map[int]string{}, polName: polName, stmt: stmt, observer: observer, maxDelay: 300 * time.Microsecond}
	pool := &policyConnPool{hostConnPools: map[string]*hostConnPool{}, keyspace: "vf"}
	for i, kind := range cfg.Hosts {
		h := &HostInfo{hostId: fmt.Sprintf("vfc13-host-%d", i+1), connectAddress: net.IPv4(10, 13, 0, byte(i+1)),
			port: 9042, state: NodeUp}
		if kind == "down" {
			h.state = NodeDown
		}
		r.hosts = append(r.hosts, h)
		r.kindOf[h] = kind
		if kind == "nopool" {
			continue
		}
		hp := &hostConnPool{host: h, port: 9042, keyspace: "vf", logger: &defaultLogger{}}
		if kind != "noconn" {
			n := 1 + r.rng.Intn(2)
			for j := 0; j < n; j++ {
				hp.conns = append(hp.conns, &Conn{host: h, streams: streams.New(4)})
			}
		}
		hp.size = len(hp.conns) // a full pool: Pick never starts a fill
		pool.hostConnPools[h.HostID()] = hp
	}
	var inner HostSelectionPolicy
	if roundRobin {
		rr := RoundRobinHostPolicy()
		for _, h := range r.hosts {
			rr.AddHost(h)
		}
		inner = rr
	} else {
		inner = &vfC13Fixed{hosts: r.hosts}
		for i, h := range r.hosts { // the fixed policy offers exactly cfg.Hosts
			r.hostIdx[h] = i + 1
			r.offered = append(r.offered, cfg.Hosts[i])
		}
	}
	ex := &queryExecutor{pool: pool, policy: &vfC13Policy{HostSelectionPolicy: inner, run: r}}

	switch {
	case o.scripted:
		c := vfC13NewCtx()
		r.ctx, r.cancel = c, func() { c.expire(context.DeadlineExceeded) }
	case o.timeout > 0:
		r.ctx, r.cancel = context.WithTimeout(context.Background(), o.timeout)
		r.realTimer = true
	default:
		r.ctx, r.cancel = context.WithCancel(context.Background())
	}
	// The statement gets its policies the way an application gives them: the fields hold what
	// defaultsFromSession / NewBatch would have put there (a session default retry policy, or none;
	// NonSpeculativeExecution), and the statement's own REAL setters override that - including
	// RetryPolicy(nil), which switches retrying off for the statement.  retryPolicy() and
	// speculativeExecutionPolicy() are the statements' own.
	var spec SpeculativeExecutionPolicy
	if cfg.K > 0 {
		d := time.Duration(2+r.rng.Intn(3)) * time.Millisecond
		if free {
			d = time.Duration(30+r.rng.Intn(400)) * time.Microsecond
		}
		if o.specDelay > 0 {
			d = o.specDelay
		}
		spec = &SimpleSpeculativeExecution{NumAttempts: cfg.K, TimeoutDelay: d}
	}
	core := vfC13Core{vrun: r}
	var fq ExecutableQuery
	var setRT func(RetryPolicy)
	var setSpec func(SpeculativeExecutionPolicy)
	var presetRT func(RetryPolicy)
	obs := &vfC13Obs{}
	if stmt == "batch" {
		b := &Batch{Type: UnloggedBatch, Cons: Quorum, spec: &NonSpeculativeExecution{}, context: r.ctx, keyspace: "vf",
			metrics: &queryMetrics{m: map[string]*hostMetrics{}}, routingInfo: &queryRoutingInfo{}}
		b.Entries, r.entries = vfC13Entries(cfg.Idem, o.entries)
		if observer {
			b.observer = obs
		}
		fb := &vfC13Batch{Batch: b, vfC13Core: core}
		fq, setRT, presetRT = fb, func(p RetryPolicy) { b.RetryPolicy(p) }, func(p RetryPolicy) { b.rt = p }
		setSpec = func(sp SpeculativeExecutionPolicy) { b.SpeculativeExecutionPolicy(sp) }
	} else {
		q := &Query{stmt: "vf-c13", refCount: 1, metrics: &queryMetrics{m: map[string]*hostMetrics{}},
			routingInfo: &queryRoutingInfo{}, context: r.ctx, cons: Quorum, spec: &NonSpeculativeExecution{}}
		q.Idempotent(cfg.Idem)
		if observer {
			q.observer = obs
		}
		f := &vfC13Query{Query: q, vfC13Core: core}
		fq, setRT, presetRT = f, func(p RetryPolicy) { q.RetryPolicy(p) }, func(p RetryPolicy) { q.rt = p }
		setSpec = func(sp SpeculativeExecutionPolicy) { q.SetSpeculativeExecutionPolicy(sp) }
	}
	var real RetryPolicy
	switch cfg.Polkind {
	case "budget":
		switch polName {
		case "simple":
			real = &SimpleRetryPolicy{NumRetries: cfg.Poln}
		case "expo":
			real = &ExponentialBackoffRetryPolicy{NumRetries: cfg.Poln, Min: time.Microsecond, Max: 4 * time.Microsecond}
		case "downgrade":
			lv := []Consistency{Quorum, Two, One, Any, LocalOne}
			real = &DowngradingConsistencyRetryPolicy{ConsistencyLevelsToTry: lv[:cfg.Poln]}
		}
	case "script":
		p := &vfC13ScriptPolicy{allow: map[int]bool{}}
		for _, a := range cfg.Allow {
			p.allow[a] = true
		}
		real = p
	}
	if spec != nil {
		setSpec(spec)
	}
	// the session default the statement starts from (NewCluster's is SimpleRetryPolicy{NumRetries: 3})
	sessionDefault := &vfC13RT{run: r, real: &SimpleRetryPolicy{NumRetries: 3}}
	switch {
	case real == nil && o.setter%2 == 0:
		presetRT(sessionDefault)
		setRT(nil) // retrying switched off for this statement
		r.setter = "nil"
	case real == nil:
		r.setter = "default" // a session without a default retry policy
	case polName == "simple" && cfg.Poln == 3 && o.setter%2 == 1:
		presetRT(sessionDefault)
		r.setter = "default" // the statement keeps the session default
	default:
		presetRT(sessionDefault)
		setRT(&vfC13RT{run: r, real: real})
		r.setter = "own"
	}
	return r, ex, fq
}

func (r *vfC13Run) logReturn(it *Iter) {
	r.mu.Lock()
	defer r.mu.Unlock()
	ev := vfC13Ev{Ev: "return"}
	r.retLogged = true
	if it == nil {
		ev.X = "nil-iter"
	} else {
		ev.N = r.iters[it]
		class, ea := vfC13Class(r, it.err)
		if class == "canceled" || class == "deadline" {
			r.noteExpiredLocked()
		}
		if ea != 0 {
			class = r.classOfAid(ea, it.err)
		}
		ev.H, ev.X = ea, class
	}
	r.log = append(r.log, ev)
}

func (r *vfC13Run) logLen() int {
	r.mu.Lock()
	defer r.mu.Unlock()
	return len(r.log)
}

// ---------------------------------------------------------------- replay of a model behaviour

// how long the scheduler waits for an expected reaction of the real code (VF_SETTLE_MS)
var vfC13Settle = 1000 * time.Millisecond

// after this many hung executions the remaining cases are skipped (a hang costs a watchdog period)
const vfC13MaxHangs = 6

var vfC13Hangs int32

// vfC13Replay forces the real executor through the model behaviour c.Hist.
func vfC13Replay(c *vfC13Case, polName string) (sum vfC13Summary, begin vfC13Begin, log []vfC13Ev) {
	// statement kind and observer vary with the case number, independently of the policy (id % 3)
	stmt := []string{"query", "batch"}[(c.Id/3)%2]
	r, ex, fq := vfC13NewRun(c.Cfg, int64(c.Id), false, polName, false,
		vfC13Opts{stmt: stmt, observer: (c.Id/6)%2 == 1, entries: c.Id / 12, scripted: c.Cfg.Cancel == "deadline", setter: c.Id / 5})
	sum = vfC13Summary{Id: c.Id, Mode: "replay", Policy: polName}
	for _, ev := range c.Hist {
		if ev.Ev == "end" {
			r.outcome[ev.N] = ev.X
		}
	}
	done := make(chan struct{})
	go func() {
		defer close(done)
		defer func() {
			if p := recover(); p != nil {
				r.mu.Lock()
				sum.Panic = fmt.Sprint(p)
				r.mu.Unlock()
			}
		}()
		it, _ := ex.executeQuery(fq)
		r.logReturn(it)
	}()

	parked := map[int]*vfC13Gate{}
	returned := func() bool {
		select {
		case <-done:
			return true
		default:
			return false
		}
	}
	// wait until cond() holds, absorbing gate arrivals; false on time-out
	await := func(cond func() bool, d time.Duration) bool {
		deadline := time.After(d)
		for {
			if cond() {
				return true
			}
			select {
			case g := <-r.parkCh:
				parked[g.e] = g
			case <-deadline:
				return cond()
			case <-time.After(50 * time.Microsecond):
			}
		}
	}
	diverge := func(i int, why string) {
		if sum.Diverged == "" {
			sum.Diverged = fmt.Sprintf("event %d: %s", i, why)
		}
	}
	// does execution e have another gated event after position i?
	nextGated := func(e, i int) string {
		for j := i + 1; j < len(c.Hist); j++ {
			if c.Hist[j].E == e && c.Hist[j].Ev != "pick" && c.Hist[j].Ev != "return" && c.Hist[j].Ev != "cancel" {
				return c.Hist[j].Ev
			}
		}
		return ""
	}
	seen := map[int]bool{}
	slowDone := false
	for i := 0; i < len(c.Hist) && sum.Diverged == ""; i++ {
		ev := c.Hist[i]
		switch ev.Ev {
		case "pick":
			if seen[ev.E] {
				break // consequence of the step before
			}
			seen[ev.E] = true
			// a new execution: started by executeQuery itself or by the speculation timer.
			// It calls the iterator and parks at its first attempt, or finishes.
			want := nextGated(ev.E, i)
			ok := await(func() bool {
				if want != "" {
					return parked[ev.E] != nil
				}
				return r.logLen() > i
			}, vfC13Settle)
			if !ok {
				diverge(i, fmt.Sprintf("execution %d did not show up", ev.E))
			}
		case "start", "end", "allow", "decide":
			g := parked[ev.E]
			if g == nil {
				await(func() bool { return parked[ev.E] != nil }, vfC13Settle)
				g = parked[ev.E]
			}
			if g == nil || g.kind != ev.Ev {
				k := "nothing"
				if g != nil {
					k = g.kind
				}
				diverge(i, fmt.Sprintf("execution %d is at gate %s, the model at %s", ev.E, k, ev.Ev))
				break
			}
			delete(parked, ev.E)
			arg := "go"
			if ev.Ev == "end" {
				arg = ev.X
				if !c.Cfg.Idem && c.Cfg.K > 0 && !slowDone {
					// a statement that is not idempotent carries a speculative policy: keep its first
					// attempt in flight longer than the policy's delay, so that a speculative
					// execution - which must not exist - would show up
					slowDone = true
					await(func() bool { return false }, 7*time.Millisecond)
				}
			}
			g.resume <- arg
			// settle: the execution parks at its next gate, or runs to its end
			want := nextGated(ev.E, i)
			j := i + 1
			for j < len(c.Hist) && ((c.Hist[j].Ev == "pick" && c.Hist[j].E == ev.E) || c.Hist[j].Ev == "return") {
				j++
			}
			expectReturn := false
			for _, x := range c.Hist[i+1 : j] {
				if x.Ev == "return" {
					expectReturn = true
				}
			}
			ok := await(func() bool {
				if parked[ev.E] != nil {
					return true
				}
				if want != "" {
					return false
				}
				if expectReturn {
					return returned()
				}
				return r.logLen() >= j
			}, vfC13Settle)
			if !ok {
				if expectReturn && want == "" && !returned() {
					// harness knowledge: everything else is parked, an execution has completed,
					// and executeQuery has not returned for a long time
					r.mu.Lock()
					r.log = append(r.log, vfC13Ev{Ev: "quiesce"})
					r.mu.Unlock()
					diverge(i, "executeQuery did not return although an execution had completed")
				} else {
					diverge(i, fmt.Sprintf("execution %d did not reach its next gate", ev.E))
				}
			} else if want == "" && parked[ev.E] != nil {
				diverge(i, fmt.Sprintf("execution %d continues (gate %s), the model says it has finished", ev.E, parked[ev.E].kind))
			}
		case "cancel":
			r.mu.Lock()
			r.log = append(r.log, vfC13Ev{Ev: "cancel", X: ev.X})
			r.cancel() // cancels, or lets the scripted deadline expire
			r.mu.Unlock()
			// in speculative mode executeQuery itself reacts to the cancellation
			if i+1 < len(c.Hist) && c.Hist[i+1].Ev == "return" {
				if !await(returned, vfC13Settle) {
					diverge(i, "executeQuery did not return after the context was cancelled")
				}
			}
		case "return":
			if !await(returned, vfC13Settle) {
				diverge(i, "executeQuery has not returned")
			}
		}
	}
	// drain: open all gates, let everything finish
	r.mu.Lock()
	r.drain = true
	r.mu.Unlock()
	sum.Hang, sum.Stuck = r.awaitEnd(done, 8*time.Second, func() {
		for {
			for e, g := range parked {
				g.resume <- ""
				delete(parked, e)
			}
			select {
			case g := <-r.parkCh:
				parked[g.e] = g
			default:
				return
			}
		}
	})
	if sum.Hang != "" {
		atomic.AddInt32(&vfC13Hangs, 1)
	}
	r.cancel()
	r.mu.Lock()
	log = append([]vfC13Ev{}, r.log...)
	r.mu.Unlock()
	sum.Events = len(log)
	sum.Exact = sum.Diverged == "" && sum.Hang == "" && vfC13SameHist(log, c.Hist)
	begin = r.begin(c.Id, "replay")
	return
}

func vfC13SameHist(a, b []vfC13Ev) bool {
	if len(a) != len(b) {
		return false
	}
	for i := range a {
		if a[i] != b[i] {
			return false
		}
	}
	return true
}

func (r *vfC13Run) begin(id int, mode string) vfC13Begin {
	b := vfC13Begin{Ev: "begin", Id: id, Hosts: append([]string{}, r.offered...), Polkind: r.cfg.Polkind, Poln: r.cfg.Poln,
		Allow: append([]int{}, r.cfg.Allow...), K: r.cfg.K, Idem: r.cfg.Idem, Policy: r.polName, Mode: mode, Stmt: r.stmt, Obs: r.observer, Entries: r.entries, Setter: r.setter}
	return b
}

// ---------------------------------------------------------------- free-running execution

func vfC13Free(id int, seed int64) (sum vfC13Summary, begin vfC13Begin, log []vfC13Ev) {
	rng := rand.New(rand.NewSource(seed))
	kinds := []string{"ok", "ok", "ok", "ok", "ok", "ok", "noconn", "nopool", "down", "okonce", "okonce"}
	cfg := vfC13Cfg{K: rng.Intn(3), Idem: rng.Intn(4) != 0, Allow: []int{}, Hosts: []string{}}
	nh := 1 + rng.Intn(5)
	if rng.Intn(12) == 0 {
		nh = 0
	}
	for i := 0; i < nh; i++ {
		cfg.Hosts = append(cfg.Hosts, kinds[rng.Intn(len(kinds))])
	}
	pols := []string{"none", "simple", "expo", "downgrade", "script"}
	polName := pols[rng.Intn(len(pols))]
	switch polName {
	case "none":
		cfg.Polkind = "none"
	case "script":
		cfg.Polkind = "script"
		for n := 1; n <= 4; n++ {
			if rng.Intn(2) == 0 {
				cfg.Allow = append(cfg.Allow, n)
			}
		}
	default:
		cfg.Polkind = "budget"
		cfg.Poln = rng.Intn(4)
	}
	// every 10th execution is a round of "the caller's context ends after every speculative execution
	// was launched and before any attempt has answered": executeQuery must return all the same (run()
	// may then drop its result, the choice inside its select is the runtime's)
	rounds := id%10 == 0
	if rounds {
		cfg.K, cfg.Idem, cfg.Hosts = 1, true, []string{"ok", "ok", "ok"}
	}
	roundRobin := rng.Intn(2) == 0
	stmt := []string{"query", "batch"}[rng.Intn(2)]
	opts := vfC13Opts{stmt: stmt, observer: rng.Intn(2) == 0, entries: rng.Intn(4), setter: rng.Intn(2)}
	// the caller's context: never ends / is cancelled by the caller / has a (real) deadline
	ctxForm := []string{"none", "none", "none", "none", "none", "cancel", "deadline", "deadline"}[rng.Intn(8)]
	if rounds {
		ctxForm = []string{"cancel", "deadline"}[rng.Intn(2)]
		opts.specDelay = 40 * time.Microsecond
	}
	if ctxForm == "deadline" {
		opts.timeout = time.Duration(1 + rng.Int63n(int64(600*time.Microsecond)))
		if rounds {
			opts.timeout = 900 * time.Microsecond
		}
	}
	r, ex, fq := vfC13NewRun(cfg, seed, true, polName, roundRobin, opts)
	sum = vfC13Summary{Id: id, Mode: "free", Policy: polName}
	if rng.Intn(4) == 0 {
		r.maxDelay = 5 * time.Microsecond
	}
	cancelAfter := time.Duration(-1)
	if ctxForm == "cancel" {
		cancelAfter = time.Duration(rng.Int63n(int64(600 * time.Microsecond)))
		if rounds {
			cancelAfter = 900 * time.Microsecond
		}
	}
	if rounds {
		r.minDelay, r.maxDelay = 2500*time.Microsecond, 3*time.Millisecond
	}
	done := make(chan struct{})
	go func() {
		defer close(done)
		defer func() {
			if p := recover(); p != nil {
				r.mu.Lock()
				sum.Panic = fmt.Sprint(p)
				r.mu.Unlock()
			}
		}()
		it, _ := ex.executeQuery(fq)
		r.logReturn(it)
	}()
	if cancelAfter >= 0 {
		go func() {
			select {
			case <-time.After(cancelAfter):
				r.mu.Lock()
				r.log = append(r.log, vfC13Ev{Ev: "cancel", X: "cancel"})
				r.cancel()
				r.mu.Unlock()
			case <-done:
			}
		}()
	}
	sum.Hang, sum.Stuck = r.awaitEnd(done, 10*time.Second, nil)
	if sum.Hang != "" {
		atomic.AddInt32(&vfC13Hangs, 1)
	}
	r.cancel()
	// complete the list of offered hosts (the real round robin decides the order)
	r.mu.Lock()
	if roundRobin {
		for _, h := range r.hosts {
			if _, seen := r.hostIdx[h]; !seen && r.kindOf[h] != "down" {
				// never offered during the run: order among the rest is irrelevant
				r.offered = append(r.offered, r.kindOf[h])
				r.hostIdx[h] = len(r.offered)
			}
		}
	}
	log = append([]vfC13Ev{}, r.log...)
	r.mu.Unlock()
	sum.Events = len(log)
	begin = r.begin(id, "free")
	return
}

// ---------------------------------------------------------------- drivers

func vfC13Write(w *bufio.Writer, begin vfC13Begin, log []vfC13Ev) {
	enc := json.NewEncoder(w)
	enc.Encode(begin)
	for _, e := range log {
		enc.Encode(e)
	}
	enc.Encode(vfC13Ev{Ev: "endtrace"})
}

func vfC13PolFor(c *vfC13Case) string {
	switch c.Cfg.Polkind {
	case "budget":
		return []string{"simple", "expo", "downgrade"}[c.Id%3]
	case "script":
		return "script"
	}
	return "none"
}

// TestVfC13Replay: VF_CASES (NDJSON of model behaviours) -> VF_TRACES (real traces), summaries on stdout.
func TestVfC13Replay(t *testing.T) {
	in := os.Getenv("VF_CASES")
	if in == "" {
		t.Skip("VF_CASES not set")
	}
	f, err := os.Open(in)
	if err != nil {
		t.Fatal(err)
	}
	defer f.Close()
	var cases []*vfC13Case
	sc := bufio.NewScanner(f)
	sc.Buffer(make([]byte, 1<<20), 1<<24)
	for sc.Scan() {
		if len(sc.Bytes()) < 2 {
			continue
		}
		c := &vfC13Case{}
		if e := json.Unmarshal(sc.Bytes(), c); e != nil {
			t.Fatalf("bad case: %v", e)
		}
		cases = append(cases, c)
	}
	out, err := os.Create(os.Getenv("VF_TRACES"))
	if err != nil {
		t.Fatal(err)
	}
	defer out.Close()
	w := bufio.NewWriterSize(out, 1<<20)
	defer w.Flush()
	if ms, _ := strconv.Atoi(os.Getenv("VF_SETTLE_MS")); ms > 0 {
		vfC13Settle = time.Duration(ms) * time.Millisecond
	}
	par, _ := strconv.Atoi(os.Getenv("VF_PAR"))
	if par <= 0 {
		par = 4
	}
	var wmu sync.Mutex
	var wg sync.WaitGroup
	sem := make(chan struct{}, par)
	for _, c := range cases {
		wg.Add(1)
		sem <- struct{}{}
		go func(c *vfC13Case) {
			defer wg.Done()
			defer func() { <-sem }()
			if atomic.LoadInt32(&vfC13Hangs) >= vfC13MaxHangs {
				b, _ := json.Marshal(vfC13Summary{Id: c.Id, Mode: "replay", Skipped: true})
				wmu.Lock()
				fmt.Printf("VFC13SUM %s\n", b)
				wmu.Unlock()
				return
			}
			sum, begin, log := vfC13Replay(c, vfC13PolFor(c))
			b, _ := json.Marshal(sum)
			wmu.Lock()
			vfC13Write(w, begin, log)
			fmt.Printf("VFC13SUM %s\n", b)
			wmu.Unlock()
		}(c)
	}
	wg.Wait()
}

// TestVfC13Free: VF_NTRACES seeded free-running executions -> VF_TRACES.
func TestVfC13Free(t *testing.T) {
	if os.Getenv("VF_TRACES") == "" {
		t.Skip("VF_TRACES not set")
	}
	seed, _ := strconv.ParseInt(os.Getenv("VF_SEED"), 10, 64)
	n, _ := strconv.Atoi(os.Getenv("VF_NTRACES"))
	if n == 0 {
		n = 100
	}
	base, _ := strconv.Atoi(os.Getenv("VF_IDBASE"))
	out, err := os.Create(os.Getenv("VF_TRACES"))
	if err != nil {
		t.Fatal(err)
	}
	defer out.Close()
	w := bufio.NewWriterSize(out, 1<<20)
	defer w.Flush()
	var wmu sync.Mutex
	var wg sync.WaitGroup
	sem := make(chan struct{}, 4)
	for i := 0; i < n; i++ {
		wg.Add(1)
		sem <- struct{}{}
		go func(i int) {
			defer wg.Done()
			defer func() { <-sem }()
			if atomic.LoadInt32(&vfC13Hangs) >= vfC13MaxHangs {
				b, _ := json.Marshal(vfC13Summary{Id: base + i + 1, Mode: "free", Skipped: true})
				wmu.Lock()
				fmt.Printf("VFC13SUM %s\n", b)
				wmu.Unlock()
				return
			}
			sum, begin, log := vfC13Free(base+i+1, seed*1000003+int64(i))
			b, _ := json.Marshal(sum)
			wmu.Lock()
			vfC13Write(w, begin, log)
			fmt.Printf("VFC13SUM %s\n", b)
			wmu.Unlock()
		}(i)
	}
	wg.Wait()
}

// ---------------------------------------------------------------- the shipped policies, row by row

type vfC13PolRow struct {
	Ev     string `json:"ev"`     // "decide" | "allow"
	Policy string `json:"policy"` // simple | expo | downgrade
	Poln   int    `json:"poln"`   // NumRetries / number of consistency levels
	N      int    `json:"n"`      // allow: Attempts() at the time of the call
	X      string `json:"x"`      // decide: the decision; allow: yes | no
	Y      string `json:"y"`      // decide: the error class
}

// TestVfC13PolicyTable calls GetRetryType of the REAL shipped retry policies with every server error
// kind x write type x acknowledged / alive variant (and a few client-side errors), and Attempt with
// every attempts count around the budget; the answers are written to VF_ROWS and judged by TLC
// (Trace_ExecutorPol.tla) against the table transcribed from the policies' godoc.
func TestVfC13PolicyTable(t *testing.T) {
	out := os.Getenv("VF_ROWS")
	if out == "" {
		t.Skip("VF_ROWS not set")
	}
	f, err := os.Create(out)
	if err != nil {
		t.Fatal(err)
	}
	defer f.Close()
	enc := json.NewEncoder(f)
	r := &vfC13Run{errs: map[error]int{}, made: map[int]string{}}
	classes := append(vfC13ServerClasses(), "timeout", "connloss", "overloaded")
	lv := []Consistency{Quorum, Two, One, Any, LocalOne}
	n := 0
	for poln := 0; poln <= 3; poln++ {
		pols := map[string]RetryPolicy{
			"simple":    &SimpleRetryPolicy{NumRetries: poln},
			"expo":      &ExponentialBackoffRetryPolicy{NumRetries: poln, Min: time.Microsecond, Max: 2 * time.Microsecond},
			"downgrade": &DowngradingConsistencyRetryPolicy{ConsistencyLevelsToTry: lv[:poln]},
		}
		for name, p := range pols {
			for _, c := range classes {
				d := p.GetRetryType(r.mkErr(c, 0))
				enc.Encode(vfC13PolRow{Ev: "decide", Policy: name, Poln: poln, X: vfC13DecisionName(d), Y: c})
				n++
			}
			for att := 0; att <= poln+2; att++ {
				q := &Query{cons: Quorum, routingInfo: &queryRoutingInfo{}, metrics: &queryMetrics{m: map[string]*hostMetrics{}}}
				x := "no"
				if p.Attempt(vfC13Snap{q, att}) {
					x = "yes"
				}
				enc.Encode(vfC13PolRow{Ev: "allow", Policy: name, Poln: poln, N: att, X: x})
				n++
			}
		}
	}
	fmt.Printf("VFC13ROWS %d\n", n)
}
