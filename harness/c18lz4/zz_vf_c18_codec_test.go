package lz4

// C18, codec part (this file exists twice, identical except for the package clause:
// harness/c18 for package gocql with SnappyCompressor, harness/c18lz4 for package lz4 with
// LZ4Compressor; the codec under test is chosen in zz_vf_c18_codec_sel_test.go).
//
// Drives the real Compressor.Encode / Decode and records NDJSON vectors; nothing is judged
// here - spec/Trace_Compress.tla does that with the reference decoders of spec/Compress.tla.
//  enc vectors : bodies of a boundary family + seeded random bodies, encoded by the real encoder
//  dec vectors : (a) the real encoder's output fed back to the real decoder, (b) streams assembled
//                by TLC (spec/Gen_Compress.tla) incl. corrupted variants, (c) seeded corruptions of
//                real encoder output (truncations, byte flips, prefix edits)
// Bodies above 4 KiB are only round-tripped in Go (reported, not decided by the specification).

import (
	"bufio"
	"bytes"
	"encoding/json"
	"fmt"
	"math/rand"
	"os"
	"os/exec"
	"runtime/debug"
	"strconv"
	"strings"
	"testing"
)

type vfC18Codec interface {
	Name() string
	Encode(data []byte) ([]byte, error)
	Decode(data []byte) ([]byte, error)
}

type vfC18Stream struct {
	ID     int    `json:"id"`
	Alg    string `json:"alg"`
	Cls    string `json:"cls"`
	Stream []int  `json:"stream"`
}

func vfC18Ints(b []byte) []int {
	l := make([]int, len(b))
	for i, x := range b {
		l[i] = int(x)
	}
	return l
}

func vfC18Bytes(l []int) []byte {
	b := make([]byte, len(l))
	for i, x := range l {
		b[i] = byte(x)
	}
	return b
}

func vfC18ErrText(err error) string {
	if err == nil {
		return ""
	}
	s := err.Error()
	if s == "" {
		s = "error"
	}
	return s
}

func vfC18SafeEncode(c vfC18Codec, body []byte) (out []byte, err error, pan string) {
	defer func() {
		if r := recover(); r != nil {
			pan = fmt.Sprint(r)
		}
	}()
	out, err = c.Encode(body)
	return
}

func vfC18SafeDecode(c vfC18Codec, s []byte) (out []byte, err error, pan string) {
	defer func() {
		if r := recover(); r != nil {
			pan = fmt.Sprint(r)
		}
	}()
	out, err = c.Decode(s)
	return
}

// vfC18Bodies: the boundary family. Lengths straddle the snappy 60-byte literal tag, the LZ4
// 15 / 15+255 literal-length and 4 / 19 / 19+255 match-length boundaries, and powers of two.
func vfC18Bodies(rnd *rand.Rand, thorough bool) (bodies [][]byte, kinds []string) {
	add := func(kind string, b []byte) {
		bodies = append(bodies, b)
		kinds = append(kinds, kind)
	}
	lens := []int{0, 1, 2, 3, 4, 5, 7, 8, 11, 12, 13, 14, 15, 16, 17, 18, 19, 20, 21, 22, 23, 24, 31, 32, 33, 59, 60, 61, 62, 63, 64, 65,
		127, 128, 129, 254, 255, 256, 257, 258, 269, 270, 271, 272, 273, 274, 275, 511, 512, 513, 524, 525, 526, 527, 528, 529,
		1023, 1024, 1025, 2047, 2048, 2049, 4000, 4095, 4096}
	for _, n := range lens {
		b := make([]byte, n)
		rnd.Read(b)
		add("random", b)
		add("run", bytes.Repeat([]byte{byte(n)}, n))
		for _, p := range []int{2, 3, 4, 5, 7, 12} {
			if n >= p && (n < 300 || p <= 4) {
				q := make([]byte, n)
				for i := range q {
					q[i] = byte('a' + i%p)
				}
				add("period"+strconv.Itoa(p), q)
			}
		}
		if n >= 8 {
			// random head, then a run or a repeat whose length walks through the match-length boundaries
			for _, tail := range []int{4, 5, 18, 19, 20, 273, 274, 275} {
				if tail+4 <= n {
					q := make([]byte, n)
					rnd.Read(q[:n-tail])
					off := (n-tail)%7 + 1
					if off > n-tail {
						off = n - tail
					}
					for i := n - tail; i < n; i++ {
						q[i] = q[i-off]
					}
					add("head+match"+strconv.Itoa(tail), q)
				}
			}
			// literal run of boundary length between two copies of the same phrase
			q := make([]byte, 0, n)
			phrase := []byte("SELECT * FROM ks.tbl WHERE k = ? ")
			for len(q) < n {
				q = append(q, phrase...)
				k := len(q) % 17
				for j := 0; j < k && len(q) < n; j++ {
					q = append(q, byte(rnd.Intn(256)))
				}
			}
			add("text", q[:n])
			t := make([]byte, n)
			for i := range t {
				t[i] = "abc"[rnd.Intn(3)]
			}
			add("noise3", t)
		}
	}
	extra := 60
	if thorough {
		extra = 1500
	}
	for i := 0; i < extra; i++ {
		n := rnd.Intn(4097)
		if i%3 == 0 {
			n = rnd.Intn(300)
		}
		b := make([]byte, n)
		switch i % 4 {
		case 0:
			rnd.Read(b)
		case 1:
			for j := range b {
				b[j] = byte(rnd.Intn(2))
			}
		case 2:
			p := 1 + rnd.Intn(40)
			seedb := make([]byte, p)
			rnd.Read(seedb)
			for j := range b {
				b[j] = seedb[j%p]
			}
		default:
			// segments: random literal, then back-reference of random length/offset
			j := 0
			for j < n {
				l := 1 + rnd.Intn(40)
				for k := 0; k < l && j < n; k++ {
					b[j] = byte(rnd.Intn(256))
					j++
				}
				if j > 0 {
					off := 1 + rnd.Intn(j)
					m := rnd.Intn(300)
					for k := 0; k < m && j < n; k++ {
						b[j] = b[j-off]
						j++
					}
				}
			}
		}
		add("seeded", b)
	}
	return
}

// streams whose declared uncompressed length would make the decoder allocate more than this are
// not executed (the allocation itself is the subject of property C05, not of C18)
const vfC18MaxDeclared = 64 << 20

func vfC18Declared(alg string, s []byte) uint64 {
	if alg == "lz4" {
		if len(s) < 4 {
			return 0
		}
		return uint64(s[0])<<24 | uint64(s[1])<<16 | uint64(s[2])<<8 | uint64(s[3])
	}
	var v uint64
	for i := 0; i < len(s) && i < 10; i++ {
		v |= uint64(s[i]&0x7f) << (7 * uint(i))
		if s[i] < 0x80 {
			break
		}
	}
	return v
}

func TestVfC18Codec(t *testing.T) {
	outPath := os.Getenv("VF_C18_OUT")
	if outPath == "" {
		t.Skip("VF_C18_OUT not set")
	}
	c := vfC18NewCodec()
	alg := c.Name()
	seed, _ := strconv.Atoi(os.Getenv("VF_SEED"))
	thorough := os.Getenv("VF_TIER") == "thorough"
	rnd := rand.New(rand.NewSource(int64(seed)*7919 + 18))
	out, err := os.Create(outPath)
	if err != nil {
		t.Fatal(err)
	}
	defer out.Close()
	w := bufio.NewWriterSize(out, 1<<20)
	defer w.Flush()
	id := 0
	emit := func(m map[string]interface{}) {
		m["id"] = id
		m["alg"] = alg
		id++
		b, err := json.Marshal(m)
		if err != nil {
			t.Fatal(err)
		}
		w.Write(b)
		w.WriteByte('\n')
	}
	decVec := func(cls string, s []byte) bool {
		if vfC18Declared(alg, s) > vfC18MaxDeclared {
			return false
		}
		o, err, pan := vfC18SafeDecode(c, s)
		if o == nil {
			o = []byte{}
		}
		// a decoder that hands back a buffer of the DECLARED size may return megabytes for a corrupt stream:
		// the length is recorded in full, the bytes up to 8 KiB (every well-formed stream here decodes to <= 4 KiB)
		olen := len(o)
		if len(o) > 8192 {
			o = o[:8192]
		}
		emit(map[string]interface{}{"k": "dec", "cls": cls, "stream": vfC18Ints(s), "out": vfC18Ints(o), "outlen": olen,
			"err": vfC18ErrText(err), "panic": pan})
		return true
	}
	nenc, ndec, nskipped := 0, 0, 0

	// (1) real encoder -> vectors; (a) its output back through the real decoder; (c) corruptions
	bodies, kinds := vfC18Bodies(rnd, thorough)
	for i, body := range bodies {
		enc, err, pan := vfC18SafeEncode(c, body)
		if enc == nil {
			enc = []byte{}
		}
		emit(map[string]interface{}{"k": "enc", "cls": kinds[i], "body": vfC18Ints(body), "enc": vfC18Ints(enc), "err": vfC18ErrText(err), "panic": pan})
		nenc++
		if err != nil || pan != "" {
			continue
		}
		decVec("real-encoder-output", enc)
		ndec++
		// corruptions of real output: a rotating selection keeps the volume bounded
		if len(enc) == 0 || (i+seed)%4 != 0 && len(enc) > 48 {
			continue
		}
		cuts := map[int]bool{}
		if len(enc) <= 48 {
			for k := 0; k < len(enc); k++ {
				cuts[k] = true
			}
		} else {
			for _, k := range []int{0, 1, 3, 4, 5, len(enc) / 3, len(enc) / 2, len(enc) - 2, len(enc) - 1} {
				cuts[k] = true
			}
			for j := 0; j < 4; j++ {
				cuts[rnd.Intn(len(enc))] = true
			}
		}
		for k := range cuts {
			if decVec("real-truncated", enc[:k]) {
				ndec++
			} else {
				nskipped++
			}
		}
		for j := 0; j < 6; j++ {
			m := append([]byte(nil), enc...)
			p := rnd.Intn(len(m))
			if j < 2 && len(m) > 5 {
				p = rnd.Intn(6) // the header / first tag
			}
			m[p] ^= byte(1 << uint(rnd.Intn(8)))
			if decVec("real-bitflip", m) {
				ndec++
			} else {
				nskipped++
			}
		}
	}

	// (b) streams assembled by TLC
	var huge []vfC18Stream
	if sp := os.Getenv("VF_C18_STREAMS"); sp != "" {
		in, err := os.Open(sp)
		if err != nil {
			t.Fatal(err)
		}
		sc := bufio.NewScanner(in)
		sc.Buffer(make([]byte, 4<<20), 4<<20)
		for sc.Scan() {
			line := strings.TrimSpace(sc.Text())
			if line == "" {
				continue
			}
			var s vfC18Stream
			if err := json.Unmarshal([]byte(line), &s); err != nil {
				t.Fatalf("bad stream line: %v", err)
			}
			if s.Alg != alg {
				continue
			}
			if strings.HasPrefix(s.Cls, "length-prefix-huge") {
				huge = append(huge, s) // a decoder may allocate gigabytes for these: a child process runs them
				continue
			}
			if decVec("gen:"+s.Cls, vfC18Bytes(s.Stream)) {
				ndec++
			} else {
				nskipped++
			}
		}
		in.Close()
	}
	// declared lengths at the 2^31 / 2^32 boundaries, in a child process: an allocation failure of the runtime there is
	// not a verdict (the cases are reported as not executed); a panic of Decode is recovered and recorded
	hugeRun, hugeLost := 0, 0
	if len(huge) > 0 {
		hp := outPath + ".huge"
		hf, err := os.Create(hp)
		if err != nil {
			t.Fatal(err)
		}
		for _, s := range huge {
			b, _ := json.Marshal(s)
			hf.Write(append(b, '\n'))
		}
		hf.Close()
		cmd := exec.Command(os.Args[0], "-test.run", "^TestVfC18CodecHuge$", "-test.timeout", "300s")
		cmd.Env = append(os.Environ(), "VF_C18_HUGE_STREAMS="+hp)
		o, _ := cmd.CombinedOutput()
		for _, ln := range strings.Split(string(o), "\n") {
			if strings.HasPrefix(ln, "VFVEC ") {
				var m map[string]interface{}
				if json.Unmarshal([]byte(strings.TrimPrefix(ln, "VFVEC ")), &m) == nil {
					emit(m)
					hugeRun++
					ndec++
				}
			}
		}
		hugeLost = len(huge) - hugeRun
		os.Remove(hp)
	}
	w.Flush()

	// (4) large bodies: Go round trip only
	sizes := []int{64 << 10, 1 << 20, 16 << 20}
	if thorough {
		sizes = append(sizes, 64<<20, 200<<20)
	}
	bigOK, bigBad := 0, []string{}
	for _, n := range sizes {
		for _, kind := range []string{"random", "run", "text"} {
			b := make([]byte, n)
			switch kind {
			case "random":
				rnd.Read(b)
			case "run":
				for i := range b {
					b[i] = 0x41
				}
			default:
				ph := []byte("INSERT INTO ks.tbl (a, b, c) VALUES (?, ?, ?); ")
				for i := range b {
					b[i] = ph[(i+i/977)%len(ph)]
				}
			}
			enc, err, pan := vfC18SafeEncode(c, b)
			if err != nil || pan != "" {
				bigBad = append(bigBad, fmt.Sprintf("%s/%d encode: %v %s", kind, n, err, pan))
				continue
			}
			dec, err, pan := vfC18SafeDecode(c, enc)
			if err != nil || pan != "" || !bytes.Equal(dec, b) {
				bigBad = append(bigBad, fmt.Sprintf("%s/%d decode: %v %s equal=%v", kind, n, err, pan, bytes.Equal(dec, b)))
				continue
			}
			bigOK++
		}
	}
	sum, _ := json.Marshal(map[string]interface{}{"alg": alg, "enc": nenc, "dec": ndec, "skipped_huge_declared": nskipped, "boundary_prefix_run": hugeRun, "boundary_prefix_not_executed": hugeLost,
		"big_ok": bigOK, "big_bad": append([]string{}, bigBad...), "big_max": sizes[len(sizes)-1]})
	fmt.Printf("VFSUMMARY %s\n", sum)
}

// TestVfC18CodecHuge (child process): Decode of streams whose declared length is at the 2^31 / 2^32 boundary.
func TestVfC18CodecHuge(t *testing.T) {
	sp := os.Getenv("VF_C18_HUGE_STREAMS")
	if sp == "" {
		t.Skip("not a child")
	}
	c := vfC18NewCodec()
	in, err := os.Open(sp)
	if err != nil {
		t.Fatal(err)
	}
	defer in.Close()
	sc := bufio.NewScanner(in)
	sc.Buffer(make([]byte, 1<<20), 1<<20)
	for sc.Scan() {
		var s vfC18Stream
		if json.Unmarshal([]byte(sc.Text()), &s) != nil || s.Alg != c.Name() {
			continue
		}
		stream := vfC18Bytes(s.Stream)
		o, err, pan := vfC18SafeDecode(c, stream)
		olen := len(o)
		if olen > 64 {
			o = o[:64]
		}
		if o == nil {
			o = []byte{}
		}
		b, _ := json.Marshal(map[string]interface{}{"k": "dec", "cls": "gen:" + s.Cls, "stream": s.Stream, "out": vfC18Ints(o), "outlen": olen,
			"err": vfC18ErrText(err), "panic": pan})
		fmt.Printf("VFVEC %s\n", b)
		o = nil
		debug.FreeOSMemory()
	}
	fmt.Println("VFCHILD done")
}
