package lz4

// the codec under test in this package
func vfC18NewCodec() vfC18Codec { return LZ4Compressor{} }
