package gocql

// Verification harness for property C03 (request frames are what the CQL native protocol
// specifies).  Overlaid into package gocql by /verif/bin/check.  It is glue only: it turns a
// logical request description into the driver's own request structs, lets the real frame
// builders (write*Frame.buildFrame on a real framer) produce the bytes, and records
// (logical request, bytes | refusal) as NDJSON.  The decision is taken by TLC with
// spec/WireReq.tla.  The only reader in this file (vfC03Summarise) pre-digests the
// 65535/65536 boundary frames into a run-length summary (stated trusted base).

import (
	"bufio"
	"context"
	"encoding/json"
	"fmt"
	"math/rand"
	"os"
	"path/filepath"
	"strconv"
	"testing"
)

// ---------------------------------------------------------------- logical request

type vfC03NB struct {
	Nul int   `json:"nul"`
	B   []int `json:"b"`
}

type vfC03Value struct {
	K     string `json:"k"` // val | null | unset
	B     []int  `json:"b"`
	Named int    `json:"named"`
	Name  []int  `json:"name"`
}

type vfC03SKV struct {
	K []int `json:"k"`
	V []int `json:"v"`
}

type vfC03BKV struct {
	K []int   `json:"k"`
	V vfC03NB `json:"v"`
}

type vfC03TS struct {
	Set int   `json:"set"`
	Now int   `json:"now"`
	B   []int `json:"b"`
}

type vfC03Entry struct {
	Prep   int          `json:"prep"`
	Stmt   []int        `json:"stmt"`
	Pid    []int        `json:"pid"`
	Values []vfC03Value `json:"values"`
}

type vfC03Case struct {
	ID       int          `json:"id"`
	Src      string       `json:"src"`
	V        int          `json:"v"`
	Stream   int          `json:"stream"`
	Comp     int          `json:"comp"`
	Trace    int          `json:"trace"`
	Kind     string       `json:"kind"`
	Smap     []vfC03SKV   `json:"smap"`
	Slist    [][]int      `json:"slist"`
	Tok      vfC03NB      `json:"tok"`
	Stmt     []int        `json:"stmt"`
	Pid      []int        `json:"pid"`
	Ks       []int        `json:"ks"`
	Cons     int          `json:"cons"`
	Skipmeta int          `json:"skipmeta"`
	Values   []vfC03Value `json:"values"`
	Pagesize int          `json:"pagesize"`
	Pstate   []int        `json:"pstate"`
	Serial   int          `json:"serial"`
	Ts       vfC03TS      `json:"ts"`
	Payload  []vfC03BKV   `json:"payload"`
	Btype    int          `json:"btype"`
	Stmts    []vfC03Entry `json:"stmts"`
	Exp      []int        `json:"exp"` // bytes expected by the reference encoder (generator cases), else empty
	Bytes    []int        `json:"bytes"`
	Err      string       `json:"err"`
}

// vfC03Norm replaces nil slices (JSON null) by empty ones; TLC's reader rejects null.
func vfC03Norm(c *vfC03Case) {
	e := []int{}
	nv := func(vs []vfC03Value) []vfC03Value {
		if vs == nil {
			return []vfC03Value{}
		}
		for i := range vs {
			if vs[i].B == nil {
				vs[i].B = e
			}
			if vs[i].Name == nil {
				vs[i].Name = e
			}
		}
		return vs
	}
	if c.Smap == nil {
		c.Smap = []vfC03SKV{}
	}
	for i := range c.Smap {
		if c.Smap[i].K == nil {
			c.Smap[i].K = e
		}
		if c.Smap[i].V == nil {
			c.Smap[i].V = e
		}
	}
	if c.Slist == nil {
		c.Slist = [][]int{}
	}
	for i := range c.Slist {
		if c.Slist[i] == nil {
			c.Slist[i] = e
		}
	}
	if c.Tok.B == nil {
		c.Tok.B = e
	}
	if c.Stmt == nil {
		c.Stmt = e
	}
	if c.Pid == nil {
		c.Pid = e
	}
	if c.Ks == nil {
		c.Ks = e
	}
	c.Values = nv(c.Values)
	if c.Pstate == nil {
		c.Pstate = e
	}
	if len(c.Ts.B) != 8 {
		c.Ts.B = []int{0, 0, 0, 0, 0, 0, 0, 0}
	}
	if c.Payload == nil {
		c.Payload = []vfC03BKV{}
	}
	for i := range c.Payload {
		if c.Payload[i].K == nil {
			c.Payload[i].K = e
		}
		if c.Payload[i].V.B == nil {
			c.Payload[i].V.B = e
		}
	}
	if c.Stmts == nil {
		c.Stmts = []vfC03Entry{}
	}
	for i := range c.Stmts {
		if c.Stmts[i].Stmt == nil {
			c.Stmts[i].Stmt = e
		}
		if c.Stmts[i].Pid == nil {
			c.Stmts[i].Pid = e
		}
		c.Stmts[i].Values = nv(c.Stmts[i].Values)
	}
	if c.Exp == nil {
		c.Exp = e
	}
	if c.Bytes == nil {
		c.Bytes = e
	}
}

func vfC03B(x []int) []byte {
	b := make([]byte, len(x))
	for i, v := range x {
		b[i] = byte(v)
	}
	return b
}

func vfC03I(b []byte) []int {
	x := make([]int, len(b))
	for i, v := range b {
		x[i] = int(v)
	}
	return x
}

// ---------------------------------------------------------------- logical -> driver structs

// stand-in compressor: the "codec" prefixes the body with one marker byte, so that the header
// staying plain and the length being patched after compression are visible on the wire.
type vfC03Comp struct{}

func (vfC03Comp) Name() string                    { return "vfc03" }
func (vfC03Comp) Encode(d []byte) ([]byte, error) { return append([]byte{0xC5}, d...), nil }
func (vfC03Comp) Decode(d []byte) ([]byte, error) { return d[1:], nil }

func vfC03Values(vs []vfC03Value) []queryValues {
	if len(vs) == 0 {
		return nil
	}
	out := make([]queryValues, len(vs))
	for i, v := range vs {
		switch v.K {
		case "val":
			out[i].value = vfC03B(v.B) // non-nil, possibly empty
		case "null":
			out[i].value = nil
		case "unset":
			out[i].isUnset = true
		}
		if v.Named == 1 {
			out[i].name = string(vfC03B(v.Name))
		}
	}
	return out
}

func vfC03PayloadMap(p []vfC03BKV) map[string][]byte {
	if len(p) == 0 {
		return nil
	}
	m := make(map[string][]byte, len(p))
	for _, kv := range p {
		if kv.V.Nul == 1 {
			m[string(vfC03B(kv.K))] = nil
		} else {
			m[string(vfC03B(kv.K))] = vfC03B(kv.V.B)
		}
	}
	return m
}

func vfC03Params(c *vfC03Case) queryParams {
	p := queryParams{
		consistency:       Consistency(c.Cons),
		skipMeta:          c.Skipmeta == 1,
		values:            vfC03Values(c.Values),
		pageSize:          c.Pagesize,
		serialConsistency: SerialConsistency(c.Serial),
		keyspace:          string(vfC03B(c.Ks)),
	}
	if len(c.Pstate) > 0 {
		p.pagingState = vfC03B(c.Pstate)
	}
	if c.Ts.Set == 1 {
		p.defaultTimestamp = true
		if c.Ts.Now == 0 {
			p.defaultTimestampValue = vfC03TsVal(c.Ts.B)
		}
	}
	return p
}

func vfC03TsVal(b []int) int64 {
	var u uint64
	for _, x := range b {
		u = u<<8 | uint64(byte(x))
	}
	return int64(u)
}

func vfC03Builder(c *vfC03Case) frameBuilder {
	switch c.Kind {
	case "STARTUP":
		m := map[string]string{}
		for _, kv := range c.Smap {
			m[string(vfC03B(kv.K))] = string(vfC03B(kv.V))
		}
		return &writeStartupFrame{opts: m}
	case "OPTIONS":
		return &writeOptionsFrame{}
	case "AUTH_RESPONSE":
		var d []byte
		if c.Tok.Nul == 0 {
			d = vfC03B(c.Tok.B)
		}
		return &writeAuthResponseFrame{data: d}
	case "REGISTER":
		ev := make([]string, len(c.Slist))
		for i, s := range c.Slist {
			ev[i] = string(vfC03B(s))
		}
		return &writeRegisterFrame{events: ev}
	case "QUERY":
		return &writeQueryFrame{statement: string(vfC03B(c.Stmt)), params: vfC03Params(c), customPayload: vfC03PayloadMap(c.Payload)}
	case "PREPARE":
		return &writePrepareFrame{statement: string(vfC03B(c.Stmt)), keyspace: string(vfC03B(c.Ks)), customPayload: vfC03PayloadMap(c.Payload)}
	case "EXECUTE":
		return &writeExecuteFrame{preparedID: vfC03B(c.Pid), params: vfC03Params(c), customPayload: vfC03PayloadMap(c.Payload)}
	case "BATCH":
		w := &writeBatchFrame{
			typ:               BatchType(c.Btype),
			consistency:       Consistency(c.Cons),
			serialConsistency: SerialConsistency(c.Serial),
			customPayload:     vfC03PayloadMap(c.Payload),
			statements:        make([]batchStatment, len(c.Stmts)),
		}
		if c.Ts.Set == 1 {
			w.defaultTimestamp = true
			if c.Ts.Now == 0 {
				w.defaultTimestampValue = vfC03TsVal(c.Ts.B)
			}
		}
		for i, s := range c.Stmts {
			if s.Prep == 1 {
				w.statements[i].preparedID = vfC03B(s.Pid)
			} else {
				w.statements[i].statement = string(vfC03B(s.Stmt))
			}
			w.statements[i].values = vfC03Values(s.Values)
		}
		return w
	}
	panic("vfC03: unknown kind " + c.Kind)
}

// vfC03Refusal runs f (a guard of the driver that sits in front of a frame builder) and
// returns the error text it answered with; "" when it did not refuse (returned no error, or
// went on into parts of the driver the stub objects do not have and panicked).
func vfC03Refusal(f func() error) (msg string) {
	defer func() {
		if r := recover(); r != nil {
			msg = ""
		}
	}()
	if err := f(); err != nil {
		return "refused before the frame builder: " + err.Error()
	}
	return ""
}

// vfC03Build lets the real frame builder produce the frame.  A refusal (error or panic of the
// builder, or of the driver's guard in front of it) is returned as text.
func vfC03Build(c *vfC03Case) (out []byte, errText string) {
	defer func() {
		if r := recover(); r != nil {
			out, errText = nil, fmt.Sprintf("panic: %v", r)
		}
	}()
	if c.Kind == "BATCH" && c.V == 1 {
		// the only caller of writeBatchFrame is Conn.executeBatch
		if m := vfC03Refusal(func() error {
			return (&Conn{version: 1}).executeBatch(context.Background(), &Batch{}).err
		}); m != "" {
			return nil, m
		}
	}
	if c.Kind == "AUTH_RESPONSE" {
		// the only caller of writeAuthResponseFrame is startupCoordinator.authenticateHandshake
		if m := vfC03AuthGuard(c.V); m != "" {
			return nil, m
		}
	}
	var comp Compressor
	if c.Comp == 1 {
		comp = vfC03Comp{}
	}
	fr := newFramer(comp, byte(c.V))
	if c.Trace == 1 {
		fr.trace() // what Conn.exec does for a traced request
	}
	if err := vfC03Builder(c).buildFrame(fr, c.Stream); err != nil {
		return nil, "error: " + err.Error()
	}
	return append([]byte{}, fr.buf...), ""
}

// ---------------------------------------------------------------- output

type vfC03Out struct {
	files []*os.File
	ws    []*bufio.Writer
	n     int
}

func vfC03NewOut(t *testing.T, prefix string, shards int) *vfC03Out {
	o := &vfC03Out{}
	dir := os.Getenv("VF_OUT")
	if dir == "" {
		t.Skip("VF_OUT not set: run through /verif/bin/check C03")
	}
	for i := 0; i < shards; i++ {
		f, err := os.Create(filepath.Join(dir, fmt.Sprintf("%s_%02d.ndjson", prefix, i)))
		if err != nil {
			t.Fatal(err)
		}
		o.files = append(o.files, f)
		o.ws = append(o.ws, bufio.NewWriterSize(f, 1<<20))
	}
	return o
}

func (o *vfC03Out) put(t *testing.T, rec interface{}) {
	b, err := json.Marshal(rec)
	if err != nil {
		t.Fatal(err)
	}
	w := o.ws[o.n%len(o.ws)]
	w.Write(b)
	w.WriteByte('\n')
	o.n++
}

func (o *vfC03Out) close() {
	for i := range o.ws {
		o.ws[i].Flush()
		o.files[i].Close()
	}
}

func vfC03Env(name string, def int) int {
	if v, err := strconv.Atoi(os.Getenv(name)); err == nil {
		return v
	}
	return def
}

func vfC03Run(t *testing.T, o *vfC03Out, c *vfC03Case) {
	vfC03Norm(c)
	b, e := vfC03Build(c)
	c.Bytes, c.Err = vfC03I(b), e
	o.put(t, c)
}

// ---------------------------------------------------------------- seeded random + boundary requests

type vfC03Gen struct {
	r  *rand.Rand
	id int
}

func (g *vfC03Gen) pick(xs ...int) int { return xs[g.r.Intn(len(xs))] }
func (g *vfC03Gen) chance(p float64) bool { return g.r.Float64() < p }

func (g *vfC03Gen) bytes(n int) []int {
	b := make([]int, n)
	for i := range b {
		switch g.r.Intn(6) {
		case 0:
			b[i] = g.pick(0, 0x7f, 0x80, 0xff)
		default:
			b[i] = g.r.Intn(256)
		}
	}
	return b
}

func (g *vfC03Gen) text(n int) []int {
	b := make([]int, n)
	for i := range b {
		b[i] = 32 + g.r.Intn(95)
	}
	return b
}

func (g *vfC03Gen) values(maxn int, allowNames bool) []vfC03Value {
	n := g.pick(0, 0, 1, 1, 2, 2, 3)
	if maxn > 3 && g.chance(0.02) {
		n = g.pick(255, 256, 300)
	}
	mode := 0 // none named
	if allowNames && n > 0 {
		mode = g.pick(0, 0, 0, 1, 1, 2) // 1: all named, 2: mixed
	}
	vs := make([]vfC03Value, n)
	for i := range vs {
		switch g.r.Intn(6) {
		case 0:
			vs[i].K = "null"
		case 1:
			vs[i].K = "unset"
		default:
			vs[i].K = "val"
			vs[i].B = g.bytes(g.pick(0, 1, 4, 8, 16, 255, 256))
		}
		if mode == 1 || (mode == 2 && g.chance(0.5)) {
			vs[i].Named = 1
			vs[i].Name = g.text(g.pick(1, 2, 5, 40))
		}
	}
	return vs
}

func (g *vfC03Gen) payload() []vfC03BKV {
	n := g.pick(1, 1, 2, 3)
	seen := map[string]bool{}
	var p []vfC03BKV
	for len(p) < n {
		k := g.text(g.pick(0, 1, 3, 10))
		if seen[string(vfC03B(k))] {
			continue
		}
		seen[string(vfC03B(k))] = true
		kv := vfC03BKV{K: k}
		switch g.r.Intn(4) {
		case 0:
			kv.V.Nul = 1
		case 1:
			kv.V.B = []int{}
		default:
			kv.V.B = g.bytes(g.pick(1, 7, 300))
		}
		p = append(p, kv)
	}
	return p
}

var vfC03TsBoundary = [][]int{
	{0, 0, 0, 0, 0, 0, 0, 1}, {255, 255, 255, 255, 255, 255, 255, 255}, {128, 0, 0, 0, 0, 0, 0, 0},
	{127, 255, 255, 255, 255, 255, 255, 255}, {0, 5, 0xd1, 0x4e, 0x9a, 0x3b, 0x80, 0x00}, {0, 0, 0, 0, 0x80, 0, 0, 0},
}

func (g *vfC03Gen) common(c *vfC03Case) {
	g.id++
	c.ID = g.id
	c.V = 1 + g.r.Intn(5)
	if c.V <= 2 {
		c.Stream = g.pick(0, 1, 2, 63, 126, 127, g.r.Intn(128))
	} else {
		c.Stream = g.pick(0, 1, 127, 128, 255, 256, 32766, 32767, g.r.Intn(32768))
	}
	if g.chance(0.25) {
		c.Comp = 1
	}
}

func (g *vfC03Gen) params(c *vfC03Case) {
	c.Cons = g.pick(0, 1, 2, 3, 4, 5, 6, 7, 10, 10, 255, 256, 65535)
	c.Values = g.values(300, true)
	if g.chance(0.4) {
		c.Skipmeta = 1
	}
	if g.chance(0.5) {
		c.Pagesize = g.pick(1, 100, 255, 256, 5000, 65535, 65536, 2147483647)
	} else if g.chance(0.4) {
		c.Pagesize = g.pick(-1, -2, -5000, -2147483648) // "a value <= 0 disables paging"
	}
	if g.chance(0.4) {
		c.Pstate = g.bytes(g.pick(1, 2, 20, 300))
	}
	if g.chance(0.4) {
		c.Serial = g.pick(8, 9)
	}
	g.ts(c)
	if g.chance(0.3) {
		c.Ks = g.text(g.pick(1, 3, 48))
	}
}

func (g *vfC03Gen) ts(c *vfC03Case) {
	if g.chance(0.4) {
		c.Ts.Set = 1
		switch g.r.Intn(4) {
		case 0:
			c.Ts.Now = 1
		case 1:
			c.Ts.B = g.bytes(8)
		default:
			c.Ts.B = append([]int{}, vfC03TsBoundary[g.r.Intn(len(vfC03TsBoundary))]...)
		}
		if c.Ts.Now == 0 && vfC03TsVal(c.Ts.B) == 0 {
			c.Ts.B[7] = 1 // a zero value means "now" to the driver
		}
	}
}

func (g *vfC03Gen) random() *vfC03Case {
	c := &vfC03Case{Src: "random"}
	g.common(c)
	k := g.r.Intn(100)
	traced, pl := false, false
	switch {
	case k < 28:
		c.Kind = "QUERY"
		c.Stmt = g.text(g.pick(0, 1, 12, 40, 255, 256, 300))
		if g.chance(0.1) {
			c.Stmt = g.bytes(g.pick(3, 17))
		}
		g.params(c)
		traced, pl = true, true
	case k < 56:
		c.Kind = "EXECUTE"
		c.Pid = g.bytes(g.pick(0, 1, 16, 16, 16, 32, 300))
		g.params(c)
		traced, pl = true, true
	case k < 78:
		c.Kind = "BATCH"
		c.Btype = g.pick(0, 1, 2)
		c.Cons = g.pick(0, 1, 4, 6, 10, 65535)
		n := g.pick(0, 1, 1, 2, 2, 3)
		if g.chance(0.02) {
			n = g.pick(255, 256, 300)
		}
		for i := 0; i < n; i++ {
			e := vfC03Entry{}
			if g.chance(0.5) {
				e.Prep = 1
				e.Pid = g.bytes(g.pick(1, 16, 16, 32))
			} else {
				e.Stmt = g.text(g.pick(0, 1, 30, 256))
			}
			e.Values = g.values(3, g.chance(0.15))
			c.Stmts = append(c.Stmts, e)
		}
		if g.chance(0.4) {
			c.Serial = g.pick(8, 9)
		}
		g.ts(c)
		traced, pl = true, true
	case k < 85:
		c.Kind = "PREPARE"
		c.Stmt = g.text(g.pick(0, 1, 40, 256))
		if g.chance(0.4) {
			c.Ks = g.text(g.pick(1, 5, 48))
		}
		traced, pl = true, true
	case k < 90:
		c.Kind = "STARTUP"
		c.Smap = []vfC03SKV{{K: vfC03I([]byte("CQL_VERSION")), V: vfC03I([]byte("3.0.0"))}}
		if g.chance(0.5) {
			c.Smap = append(c.Smap, vfC03SKV{K: vfC03I([]byte("COMPRESSION")), V: vfC03I([]byte("snappy"))})
		}
		if g.chance(0.5) {
			c.Smap = append(c.Smap, vfC03SKV{K: vfC03I([]byte("DRIVER_NAME")), V: g.text(g.pick(0, 5, 300))})
		}
		if g.chance(0.2) {
			c.Smap = c.Smap[:0]
		}
	case k < 94:
		c.Kind = "REGISTER"
		for _, e := range []string{"TOPOLOGY_CHANGE", "STATUS_CHANGE", "SCHEMA_CHANGE"} {
			if g.chance(0.6) {
				c.Slist = append(c.Slist, vfC03I([]byte(e)))
			}
		}
	case k < 97:
		c.Kind = "AUTH_RESPONSE"
		switch g.r.Intn(3) {
		case 0:
			c.Tok.Nul = 1
		case 1:
			c.Tok.B = []int{}
		default:
			c.Tok.B = g.bytes(g.pick(1, 12, 300))
		}
	default:
		c.Kind = "OPTIONS"
	}
	if traced && g.chance(0.3) {
		c.Trace = 1
	}
	if pl && g.chance(0.25) {
		c.Payload = g.payload()
	}
	return c
}

func TestVfC03Record(t *testing.T) {
	seed := int64(vfC03Env("VF_SEED", 1))
	n := vfC03Env("VF_C03_N", 2000)
	o := vfC03NewOut(t, "c03_rand", vfC03Env("VF_C03_SHARDS", 4))
	defer o.close()
	g := &vfC03Gen{r: rand.New(rand.NewSource(seed)), id: 1000000}
	for i := 0; i < n; i++ {
		vfC03Run(t, o, g.random())
	}
	fmt.Printf("VFC03 recorded=%d\n", o.n)
}

// TestVfC03Replay builds the cases enumerated by TLC (spec/Gen_WireReq.tla).
func TestVfC03Replay(t *testing.T) {
	path := os.Getenv("VF_CASES")
	f, err := os.Open(path)
	if err != nil {
		t.Skip("VF_CASES not readable: run through /verif/bin/check C03")
	}
	defer f.Close()
	o := vfC03NewOut(t, "c03_gen", vfC03Env("VF_C03_SHARDS", 4))
	defer o.close()
	sc := bufio.NewScanner(f)
	sc.Buffer(make([]byte, 1<<20), 1<<26)
	for sc.Scan() {
		if len(sc.Bytes()) == 0 {
			continue
		}
		c := &vfC03Case{}
		if err := json.Unmarshal(sc.Bytes(), c); err != nil {
			t.Fatalf("case: %v", err)
		}
		c.Src = "tlc"
		vfC03Run(t, o, c)
	}
	if err := sc.Err(); err != nil {
		t.Fatal(err)
	}
	fmt.Printf("VFC03 replayed=%d\n", o.n)
}

// ---------------------------------------------------------------- 65535 / 65536 boundary

type vfC03Sum struct {
	Sum     int    `json:"sum"`
	ID      int    `json:"id"`
	V       int    `json:"v"`
	Kind    string `json:"kind"`
	Site    string `json:"site"`
	Asked   int    `json:"asked"`
	Count   int    `json:"count"`
	Present int    `json:"present"`
	Exact   int    `json:"exact"`
	Len     int    `json:"len"`
	Bytes   []int  `json:"bytes"` // the whole frame for a few wrapped cases (decoded by TLC as well), else empty
	Err     string `json:"err"`
	Note    string `json:"note"`
}

// vfC03Summarise is a small wire reader of its own (no framer): it finds the [short] count
// field of the site and walks the entries that are really in the body up to the body's fixed
// tail.  The requests it is used on carry no optional parameter, so the tail is known from the
// version alone.
func vfC03Summarise(b []byte, v int, kind, site string) (count, present, exact int, err error) {
	defer func() {
		if r := recover(); r != nil {
			err = fmt.Errorf("summary reader: %v", r)
		}
	}()
	hs := 9
	if v <= 2 {
		hs = 8
	}
	end := len(b)
	blen := int(b[hs-4])<<24 | int(b[hs-3])<<16 | int(b[hs-2])<<8 | int(b[hs-1])
	if blen != end-hs {
		return 0, 0, 0, fmt.Errorf("length field %d, body %d", blen, end-hs)
	}
	p := hs
	u16 := func() int { x := int(b[p])<<8 | int(b[p+1]); p += 2; return x }
	i32 := func() int { x := int(int32(uint32(b[p])<<24 | uint32(b[p+1])<<16 | uint32(b[p+2])<<8 | uint32(b[p+3]))); p += 4; return x }
	val := func() {
		if n := i32(); n > 0 {
			p += n
		}
	}
	flagw := 1
	if v >= 5 {
		flagw = 4
	}
	switch kind {
	case "QUERY", "EXECUTE":
		if kind == "QUERY" {
			p += i32()
		} else {
			p += u16()
		}
		tail := 0
		if v == 1 {
			tail = 2 // <consistency> follows the values
		} else {
			p += 2 + flagw // <consistency><flags>
		}
		count = u16()
		for p < end-tail {
			val()
			present++
		}
		if p == end-tail {
			exact = 1
		}
	case "BATCH":
		tail := 2
		if v >= 3 {
			tail += flagw
		}
		p++ // type
		entry := func(all bool) {
			k := b[p]
			p++
			if k == 0 {
				p += i32()
			} else {
				p += u16()
			}
			m := u16()
			if all {
				for i := 0; i < m; i++ {
					val()
				}
			} else {
				count = m
				for p < end-tail {
					val()
					present++
				}
			}
		}
		if site == "batch-statements" {
			count = u16()
			for p < end-tail {
				entry(true)
				present++
			}
		} else {
			if u16() != 1 {
				return 0, 0, 0, fmt.Errorf("expected one entry")
			}
			entry(false)
		}
		if p == end-tail {
			exact = 1
		}
	}
	return
}

func TestVfC03Boundary(t *testing.T) {
	o := vfC03NewOut(t, "c03_big", 1)
	defer o.close()
	id := 9000000
	one := vfC03Value{K: "val", B: []int{7}}
	for _, n := range []int{65535, 65536, 65537, 70000} {
		vals := make([]vfC03Value, n)
		for i := range vals {
			if i%3 == 1 {
				vals[i] = vfC03Value{K: "null"}
			} else {
				vals[i] = one
			}
		}
		for v := 1; v <= 5; v++ {
			for _, site := range []string{"query-values", "execute-values", "batch-entry-values", "batch-statements"} {
				if (site == "query-values" || site[:5] == "batch") && v == 1 {
					continue
				}
				c := &vfC03Case{V: v, Stream: 1, Cons: 1}
				guard := ""
				switch site {
				case "query-values":
					c.Kind, c.Stmt, c.Values = "QUERY", vfC03I([]byte("q")), vals
				case "execute-values":
					c.Kind, c.Pid, c.Values = "EXECUTE", []int{1, 2, 3, 4}, vals
				case "batch-entry-values":
					c.Kind, c.Stmts = "BATCH", []vfC03Entry{{Prep: 1, Pid: []int{9}, Values: vals}}
				case "batch-statements":
					c.Kind = "BATCH"
					c.Stmts = make([]vfC03Entry, n)
					for i := range c.Stmts {
						c.Stmts[i] = vfC03Entry{Stmt: []int{'s'}}
						if i%2 == 1 {
							c.Stmts[i] = vfC03Entry{Prep: 1, Pid: []int{9, 9}, Values: []vfC03Value{one}}
						}
					}
					// the driver's guard in front of the builder: Session.executeBatch
					guard = vfC03Refusal(func() error {
						return (&Session{}).executeBatch(&Batch{Entries: make([]BatchEntry, n)}).err
					})
				}
				id++
				s := vfC03Sum{Sum: 1, ID: id, V: v, Kind: c.Kind, Site: site, Asked: n, Bytes: []int{}}
				if guard != "" {
					s.Err = guard
				} else {
					b, e := vfC03Build(c)
					s.Err, s.Len = e, len(b)
					if e == "" {
						if (n == 65536 || n == 65537) && (v == 4 || (v == 1 && n == 65536)) {
							s.Bytes = vfC03I(b)
						}
						var err error
						s.Count, s.Present, s.Exact, err = vfC03Summarise(b, v, c.Kind, site)
						if err != nil {
							// the reader could not walk the frame at all: not the expected layout
							s.Present, s.Exact, s.Note = -1, 0, err.Error()
						}
					}
				}
				o.put(t, &s)
			}
		}
	}
	// [string] length boundary: 65535 bytes is the longest [string]; one byte more cannot be said
	for _, n := range []int{65535, 65536} {
		long := make([]int, n)
		for i := range long {
			long[i] = 'a' + i%26
		}
		for _, site := range []string{"value-name", "payload-key", "keyspace", "startup-value"} {
			id++
			c := &vfC03Case{ID: id, Src: "boundary", V: 4, Stream: 2, Cons: 1, Kind: "QUERY", Stmt: vfC03I([]byte("q"))}
			switch site {
			case "value-name":
				c.Values = []vfC03Value{{K: "val", B: []int{1}, Named: 1, Name: long}}
			case "payload-key":
				c.Payload = []vfC03BKV{{K: long, V: vfC03NB{B: []int{1}}}}
			case "keyspace":
				c.V, c.Ks = 5, long
			case "startup-value":
				c.Kind, c.Stmt, c.Cons = "STARTUP", nil, 0
				c.Smap = []vfC03SKV{{K: vfC03I([]byte("CQL_VERSION")), V: long}}
			}
			vfC03Run(t, o, c)
		}
	}
	fmt.Printf("VFC03 boundary=%d\n", o.n)
}
