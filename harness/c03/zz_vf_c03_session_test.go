package gocql

// C03 at the Session API level: the logical request is what the CALLER asked for
// (Session.Query(...).Bind-style values incl. NamedValue, UnsetValue, nil, typed nil pointer;
// consistency, page size, paging state, serial consistency, timestamp, tracer, custom payload;
// Batch entries with arguments), executed through a real Session / Conn over the in-memory
// scripted node of harness/common: executeQuery / executeBatch, prepareStatement (metadata
// supplied by the node: every bind column is a blob, so a []byte value is its own encoding),
// marshalQueryValue, Conn.exec and the connection writer.  Every session has ONE connection and
// runs a sequence of 2-4 operations on it, so a request also meets whatever an earlier request
// (traced, with payload, ...) left behind on the connection.  The frames are taken from the
// node's reader exactly as received; TLC judges each against its own logical description.

import (
	"fmt"
	"math/rand"
	"strings"
	"sync"
	"testing"
	"time"
)

type vfC03Tap struct {
	mu     sync.Mutex
	frames []*vfFrame
}

func (t *vfC03Tap) add(f *vfFrame) {
	t.mu.Lock()
	g := *f
	g.Raw = append([]byte{}, f.Raw...)
	t.frames = append(t.frames, &g)
	t.mu.Unlock()
}

func (t *vfC03Tap) since(n int) []*vfFrame {
	t.mu.Lock()
	defer t.mu.Unlock()
	return append([]*vfFrame{}, t.frames[n:]...)
}

func (t *vfC03Tap) len() int {
	t.mu.Lock()
	defer t.mu.Unlock()
	return len(t.frames)
}

// RESULT/Prepared with n blob bind columns (named c0..) and no result columns
func vfC03PreparedBody(version byte, id []byte, n int, resultCols int) []byte {
	w := &vfW{}
	w.Int(4)
	w.ShortBytes(id)
	w.Int(0x01).Int(int32(n))
	if version >= 4 {
		w.Int(0)
	}
	w.String("ks").String("t")
	for i := 0; i < n; i++ {
		w.String(fmt.Sprintf("c%d", i))
		w.Short(vfTBlob)
	}
	if version >= 2 {
		w.Int(0x01).Int(int32(resultCols))
		w.String("ks").String("t")
		for i := 0; i < resultCols; i++ {
			w.String(fmt.Sprintf("v%d", i))
			w.Short(vfTBlob)
		}
	}
	return w.b
}

// a bound value as the caller writes it
type vfC03ApiVal struct {
	shape string // bytes | empty | nil | typednil | unset
	b     []byte
	named bool
	name  string
}

func (v vfC03ApiVal) arg() interface{} {
	var x interface{}
	switch v.shape {
	case "bytes":
		x = v.b
	case "empty":
		x = []byte{}
	case "nil":
		x = nil
	case "typednil":
		x = (*[]byte)(nil)
	case "unset":
		x = UnsetValue
	}
	if v.named {
		return NamedValue(v.name, x)
	}
	return x
}

func (v vfC03ApiVal) logical() vfC03Value {
	l := vfC03Value{K: "null"}
	switch v.shape {
	case "bytes":
		l.K, l.B = "val", vfC03I(v.b)
	case "empty":
		l.K = "val"
	case "unset":
		l.K = "unset"
	}
	if v.named {
		l.Named, l.Name = 1, vfC03I([]byte(v.name))
	}
	return l
}

// vfC03SASL is an Authenticator for a multi-round exchange: round i answers with tokens[i]
// (null, empty or bytes, all distinct) and hands back a follow-up challenger.  It records what
// it returned, in order: that is the logical AUTH_RESPONSE of each round.
type vfC03SASL struct {
	st *vfC03SASLState
}

type vfC03SASLState struct {
	mu       sync.Mutex
	tokens   [][]byte // nil entry = null token
	returned [][]byte
	round    int
	chal     [][]byte // challenges seen
}

func (a vfC03SASL) Challenge(req []byte) ([]byte, Authenticator, error) {
	a.st.mu.Lock()
	defer a.st.mu.Unlock()
	var tok []byte
	if a.st.round < len(a.st.tokens) {
		tok = a.st.tokens[a.st.round]
	} else {
		tok = []byte(fmt.Sprintf("extra-%d", a.st.round))
	}
	a.st.round++
	a.st.returned = append(a.st.returned, tok)
	a.st.chal = append(a.st.chal, append([]byte{}, req...))
	return tok, a, nil
}

func (a vfC03SASL) Success(data []byte) error { return nil }

type vfC03Sess struct {
	t        *testing.T
	g        *vfC03Gen
	v        int
	comp     int
	ks       string
	sess     *Session
	tap      *vfC03Tap
	prepared map[string]bool
	o        *vfC03Out
	ops      int
	frames   int
	unexpl   int
	paged    int

	// paging script of the node
	pmu       sync.Mutex
	pagesLeft int      // pages that still follow the next answer
	pageNo    int
	replied   [][]byte // paging state of every rows answer, in order (nil = last page)
}

func (s *vfC03Sess) apiValues(n int) []vfC03ApiVal {
	mode := s.g.pick(0, 0, 1, 1, 2) // none named, all named, mixed
	vs := make([]vfC03ApiVal, n)
	for i := range vs {
		vs[i].shape = []string{"bytes", "bytes", "empty", "nil", "typednil", "unset", "unset"}[s.g.r.Intn(7)]
		if vs[i].shape == "bytes" {
			vs[i].b = vfC03B(s.g.bytes(s.g.pick(1, 2, 4, 9, 300)))
		}
		if mode == 1 || (mode == 2 && s.g.chance(0.5)) {
			vs[i].named, vs[i].name = true, fmt.Sprintf("c%d", i)
		}
	}
	return vs
}

func (s *vfC03Sess) base(kind string) *vfC03Case {
	s.g.id++
	return &vfC03Case{ID: s.g.id, Src: "session", V: s.v, Comp: s.comp, Kind: kind}
}

func (s *vfC03Sess) prepareCase(stmt string, trace int) *vfC03Case {
	c := s.base("PREPARE")
	c.Stmt, c.Trace = vfC03I([]byte(stmt)), trace
	c.Ks = vfC03I([]byte(s.ks)) // sent from v5 on; inexpressible (left out) before
	return c
}

// run executes one API call and pairs the frames the node received during it with the
// logical frames the call stands for.
func (s *vfC03Sess) run(expect []*vfC03Case, call func() error) {
	n0 := s.tap.len()
	errText := ""
	func() {
		defer func() {
			if r := recover(); r != nil {
				errText = fmt.Sprintf("panic: %v", r)
			}
		}()
		if err := call(); err != nil {
			errText = "error: " + err.Error()
		}
	}()
	got := s.tap.since(n0)
	s.ops++
	if len(got) > len(expect) || (len(got) < len(expect) && errText == "") {
		// the driver sent something this harness does not account for (a re-prepare, a
		// heartbeat, ...): not judged
		s.unexpl++
		return
	}
	for i, c := range expect {
		vfC03Norm(c)
		if i < len(got) {
			c.Stream = got[i].Stream // as parsed by the node's reader
			c.Bytes = vfC03I(got[i].Raw)
			s.frames++
		} else if i == len(expect)-1 {
			c.Err = errText // the call itself was refused
		} else {
			// a preparatory PREPARE the refused call never got to: nothing to judge
			delete(s.prepared, string(vfC03B(c.Stmt)))
			continue
		}
		s.o.put(s.t, c)
	}
}

func (s *vfC03Sess) stmtFor(n int, dml bool) string {
	if !dml {
		return fmt.Sprintf("CREATE TABLE ks.t%d (k blob PRIMARY KEY)", s.g.r.Intn(1000))
	}
	cols, marks := make([]string, n), make([]string, n)
	for i := range cols {
		cols[i], marks[i] = fmt.Sprintf("c%d", i), "?"
	}
	return fmt.Sprintf("INSERT INTO ks.t%d (%s) VALUES (%s)", s.g.r.Intn(3), strings.Join(cols, ","), strings.Join(marks, ","))
}

func (s *vfC03Sess) payload() (map[string][]byte, []vfC03BKV) {
	l := s.g.payload()
	return vfC03PayloadMap(l), l
}

func (s *vfC03Sess) tsOpt(c *vfC03Case) (mode int, val int64) {
	// session default: DefaultTimestamp = true -> "now"
	switch s.g.r.Intn(3) {
	case 0:
		c.Ts = vfC03TS{Set: 1, Now: 1}
		return 0, 0
	case 1:
		b := append([]int{}, vfC03TsBoundary[s.g.r.Intn(len(vfC03TsBoundary))]...)
		c.Ts = vfC03TS{Set: 1, B: b}
		return 1, vfC03TsVal(b)
	}
	c.Ts = vfC03TS{}
	return 2, 0
}

func (s *vfC03Sess) opQuery() {
	dml := s.g.chance(0.8)
	var vals []vfC03ApiVal
	if dml {
		vals = s.apiValues(s.g.pick(0, 1, 1, 2, 2, 3))
	}
	stmt := s.stmtFor(len(vals), dml)
	main := s.base("QUERY")
	if dml {
		main.Kind = "EXECUTE"
		main.Pid = vfC03I([]byte("id:" + stmt))
		if !s.sess.cfg.DisableSkipMetadata {
			main.Skipmeta = 1
		}
	} else {
		main.Stmt = vfC03I([]byte(stmt))
	}
	args := make([]interface{}, len(vals))
	for i, v := range vals {
		args[i] = v.arg()
		main.Values = append(main.Values, v.logical())
	}
	q := s.sess.Query(stmt, args...)
	main.Cons = s.g.pick(1, 4, 6, 10)
	q.Consistency(Consistency(main.Cons))
	main.Pagesize = s.sess.cfg.PageSize
	if s.g.chance(0.6) {
		// "a value <= 0 will disable paging"
		main.Pagesize = s.g.pick(1, 100, 65536, 0, -1, -2147483648)
		q.PageSize(main.Pagesize)
	}
	if s.g.chance(0.3) {
		main.Pstate = s.g.bytes(s.g.pick(1, 20))
		q.PageState(vfC03B(main.Pstate))
	}
	main.Serial = int(s.sess.cfg.SerialConsistency)
	if s.g.chance(0.4) {
		main.Serial = s.g.pick(8, 9)
		q.SerialConsistency(SerialConsistency(main.Serial))
	}
	switch mode, val := s.tsOpt(main); mode {
	case 1:
		q.WithTimestamp(val)
	case 2:
		q.DefaultTimestamp(false)
	}
	if s.g.chance(0.35) {
		main.Trace = 1
		q.Trace(vfC03Tracer{})
	}
	if s.g.chance(0.3) {
		var m map[string][]byte
		m, main.Payload = s.payload()
		q.CustomPayload(m)
	}
	main.Ks = vfC03I([]byte(s.ks))
	expect := []*vfC03Case{}
	if dml && !s.prepared[stmt] {
		expect = append(expect, s.prepareCase(stmt, main.Trace))
		s.prepared[stmt] = true
	}
	expect = append(expect, main)
	s.run(expect, func() error { return q.Exec() })
}

// opPaged: one *Query value with automatic paging whose result spans several pages is executed
// and read to the end, then THE SAME value is executed again (1-2 times).  What the caller asked
// for: every execution starts without a paging state (none was set with PageState); each
// following request of an execution carries the state the server returned with the page before.
func (s *vfC03Sess) opPaged() {
	if s.v < 2 {
		return // no paging in v1
	}
	stmt := fmt.Sprintf("SELECT v0 FROM ks.t%d WHERE c0 = ?", s.g.r.Intn(3))
	arg := vfC03ApiVal{shape: "bytes", b: vfC03B(s.g.bytes(3))}
	q := s.sess.Query(stmt, arg.arg())
	cons := s.g.pick(1, 4, 6)
	q.Consistency(Consistency(cons))
	psz := s.g.pick(2, 2, 100)
	q.PageSize(psz)
	q.DefaultTimestamp(false)
	trace := 0
	if s.g.chance(0.2) {
		trace = 1
		q.Trace(vfC03Tracer{})
	}
	for ex, n := 0, s.g.pick(2, 2, 3); ex < n; ex++ {
		s.pmu.Lock()
		s.pagesLeft = s.g.pick(1, 1, 2, 3)
		r0 := len(s.replied)
		s.pmu.Unlock()
		n0 := s.tap.len()
		errText := ""
		func() {
			defer func() {
				if r := recover(); r != nil {
					errText = fmt.Sprintf("panic: %v", r)
				}
			}()
			it := q.Iter()
			var b []byte
			for it.Scan(&b) {
			}
			if err := it.Close(); err != nil {
				errText = "error: " + err.Error()
			}
		}()
		got := s.tap.since(n0)
		s.pmu.Lock()
		replied := append([][]byte{}, s.replied[r0:]...)
		s.pagesLeft = 0
		s.pmu.Unlock()
		s.ops++
		if errText != "" {
			s.unexpl++
			return
		}
		if len(got) > 0 && got[0].Op == vfOpPrepare {
			c := s.prepareCase(stmt, trace)
			vfC03Norm(c)
			c.Stream, c.Bytes = got[0].Stream, vfC03I(got[0].Raw)
			s.o.put(s.t, c)
			s.frames++
			got = got[1:]
		}
		if len(got) != len(replied) {
			s.unexpl++ // the node answered something else than the requests seen here
			return
		}
		for j, f := range got {
			c := s.base("EXECUTE")
			c.Pid = vfC03I([]byte("id:" + stmt))
			c.Values = []vfC03Value{arg.logical()}
			c.Cons, c.Pagesize, c.Trace = cons, psz, trace
			c.Serial = int(s.sess.cfg.SerialConsistency)
			c.Ks = vfC03I([]byte(s.ks))
			if !s.sess.cfg.DisableSkipMetadata {
				c.Skipmeta = 1
			}
			if j > 0 {
				c.Pstate = vfC03I(replied[j-1]) // what the server handed out with the previous page
			}
			vfC03Norm(c)
			c.Stream, c.Bytes = f.Stream, vfC03I(f.Raw)
			s.o.put(s.t, c)
			s.frames++
		}
		s.paged += len(got)
	}
}

func (s *vfC03Sess) opBatch() {
	main := s.base("BATCH")
	main.Btype = s.g.pick(0, 1, 2)
	b := s.sess.NewBatch(BatchType(main.Btype))
	main.Cons = s.g.pick(1, 4, 6)
	b.Cons = Consistency(main.Cons)
	main.Serial = int(s.sess.cfg.SerialConsistency)
	if s.g.chance(0.4) {
		main.Serial = s.g.pick(8, 9)
		b.SerialConsistency(SerialConsistency(main.Serial))
	}
	switch mode, val := s.tsOpt(main); mode {
	case 1:
		b.WithTimestamp(val)
	case 2:
		b.DefaultTimestamp(false)
	}
	if s.g.chance(0.3) {
		main.Trace = 1
		b.Trace(vfC03Tracer{})
	}
	if s.g.chance(0.25) {
		b.CustomPayload, main.Payload = s.payload()
	}
	expect := []*vfC03Case{}
	n := s.g.pick(1, 2, 2, 3)
	for i := 0; i < n; i++ {
		var vals []vfC03ApiVal
		if s.g.chance(0.7) {
			vals = s.apiValues(s.g.pick(1, 2))
			if s.g.chance(0.85) { // names in batches are refused by the builder: keep most batches positional
				for j := range vals {
					vals[j].named = false
				}
			}
		}
		stmt := s.stmtFor(len(vals), true)
		e := vfC03Entry{}
		args := make([]interface{}, len(vals))
		for j, v := range vals {
			args[j] = v.arg()
			e.Values = append(e.Values, v.logical())
		}
		if len(vals) > 0 {
			e.Prep, e.Pid = 1, vfC03I([]byte("id:"+stmt))
			if !s.prepared[stmt] {
				expect = append(expect, s.prepareCase(stmt, main.Trace))
				s.prepared[stmt] = true
			}
		} else {
			e.Stmt = vfC03I([]byte(stmt))
		}
		b.Query(stmt, args...)
		main.Stmts = append(main.Stmts, e)
	}
	expect = append(expect, main)
	s.run(expect, func() error { return s.sess.ExecuteBatch(b) })
}

func TestVfC03Session(t *testing.T) {
	seed := int64(vfC03Env("VF_SEED", 1))
	nsess := vfC03Env("VF_C03_NSESS", 60)
	o := vfC03NewOut(t, "c03_sess", 1)
	defer o.close()
	g := &vfC03Gen{r: rand.New(rand.NewSource(seed ^ 0x5e55)), id: 3000000}
	ops, frames, unexpl, noconn, authRounds := 0, 0, 0, 0, 0
	for i := 0; i < nsess; i++ {
		v := 1 + (i+int(seed))%5
		s := &vfC03Sess{t: t, g: g, v: v, prepared: map[string]bool{}, o: o, tap: &vfC03Tap{}}
		if g.chance(0.4) {
			s.comp = 1
		}
		if g.chance(0.5) {
			s.ks = "ks1"
		}
		node := vfNewNode(&vfCluster{}, vfDesc(1))
		// the server's SUPPORTED set does / does not contain the configured compressor
		advertised := g.chance(0.7)
		node.Supported = map[string][]string{"CQL_VERSION": {"3.4.5"}, "COMPRESSION": {"snappy", "lz4"}}
		if advertised {
			node.Supported["COMPRESSION"] = []string{"snappy", vfC03Comp{}.Name()}
		}
		configured := s.comp == 1
		if !(configured && advertised) {
			s.comp = 0 // compression is negotiated only if configured AND advertised
		}
		// authentication: 0-3 challenge rounds after the first AUTH_RESPONSE
		var sasl *vfC03SASLState
		rounds := 0
		if g.chance(0.45) {
			rounds = g.pick(0, 1, 1, 2, 3)
			sasl = &vfC03SASLState{}
			for r := 0; r <= rounds; r++ {
				switch {
				case r > 0 && g.chance(0.15):
					sasl.tokens = append(sasl.tokens, nil)
				case g.chance(0.1):
					sasl.tokens = append(sasl.tokens, []byte{})
				default:
					sasl.tokens = append(sasl.tokens, append([]byte{byte(r), 0, 'u'}, vfC03B(g.bytes(g.pick(1, 6, 40)))...))
				}
			}
			node.AuthClass = "org.apache.cassandra.auth.PasswordAuthenticator"
		}
		var amu sync.Mutex
		answered := map[int]int{} // node connection -> AUTH_RESPONSE frames seen
		node.Decompress = func(name string, body []byte) ([]byte, error) { return vfC03Comp{}.Decode(body) }
		node.OnFrame = func(nc *vfNodeConn, f *vfFrame, q *vfRequest) { s.tap.add(f) }
		node.Handler = func(nc *vfNodeConn, f *vfFrame, q *vfRequest) bool {
			switch f.Op {
			case vfOpPrepare:
				rc := 0
				if strings.HasPrefix(q.Stmt, "SELECT") {
					rc = 1
				}
				nc.Reply(f, vfOpResult, vfC03PreparedBody(f.Version, []byte("id:"+q.Stmt), strings.Count(q.Stmt, "?"), rc))
				return true
			case vfOpExecute:
				// a SELECT is answered page by page as scripted: s.pages more pages to come
				if !strings.HasPrefix(string(q.PreparedID), "id:SELECT") {
					return false
				}
				s.pmu.Lock()
				var state []byte
				if s.pagesLeft > 0 {
					s.pagesLeft--
					s.pageNo++
					state = []byte(fmt.Sprintf("state-%d", s.pageNo))
				}
				s.replied = append(s.replied, state)
				s.pmu.Unlock()
				rows := [][][]byte{{[]byte{1}}, {[]byte{2}}}
				nc.Reply(f, vfOpResult, vfRowsBody(f.Version, "ks", "t", []vfCol{{"v0", vfTBlob}}, rows, state, false))
				return true
			case vfOpAuthResponse:
				amu.Lock()
				answered[nc.ID]++
				k := answered[nc.ID]
				amu.Unlock()
				if k <= rounds {
					nc.Reply(f, vfOpAuthChallenge, (&vfW{}).Bytes([]byte(fmt.Sprintf("challenge-%d", k))).b)
				} else {
					nc.Reply(f, vfOpAuthSuccess, (&vfW{}).Bytes(nil).b)
				}
				return true
			}
			return false
		}
		skipMeta := g.chance(0.5)
		serialDefault := g.chance(0.3)
		defPage := 1 // 1: keep the default (5000)
		if g.chance(0.2) {
			defPage = g.pick(0, -1, -100)
		}
		cql := string(vfC03B(g.text(g.pick(3, 5, 8))))
		mod := func(cfg *ClusterConfig) {
			if configured {
				cfg.Compressor = vfC03Comp{}
			}
			if sasl != nil {
				cfg.Authenticator = vfC03SASL{st: sasl}
			}
			cfg.Keyspace = s.ks
			cfg.DisableSkipMetadata = !skipMeta
			cfg.CQLVersion = cql
			if defPage != 1 {
				cfg.PageSize = defPage
			}
			if serialDefault {
				cfg.SerialConsistency = LocalSerial
			}
			// no verdict depends on the clock: generous timeouts for a loaded machine
			cfg.Timeout = 20 * time.Second
			cfg.ConnectTimeout = 20 * time.Second
		}
		var sess *Session
		var err error
		for try := 0; try < 3; try++ { // set-up is retried
			s.tap = &vfC03Tap{}
			if sasl != nil {
				sasl.mu.Lock()
				sasl.returned, sasl.chal, sasl.round = nil, nil, 0
				sasl.mu.Unlock()
			}
			amu.Lock()
			answered = map[int]int{}
			amu.Unlock()
			if sess, _, err = vfSingleNodeSession(node, v, mod); err == nil {
				break
			}
			node.CloseAll()
		}
		if err != nil {
			noconn++
			node.CloseAll()
			continue
		}
		s.sess = sess
		// the handshake the connection performed: OPTIONS, STARTUP with what the caller configured
		// (COMPRESSION only when negotiated), then one AUTH_RESPONSE per round carrying the token
		// the authenticator returned for that round
		hs := s.tap.since(0)
		oc := s.base("OPTIONS")
		st := s.base("STARTUP")
		st.Smap = []vfC03SKV{{K: vfC03I([]byte("CQL_VERSION")), V: vfC03I([]byte(cql))},
			{K: vfC03I([]byte("DRIVER_NAME")), V: vfC03I([]byte(driverName))},
			{K: vfC03I([]byte("DRIVER_VERSION")), V: vfC03I([]byte(driverVersion))}}
		if s.comp == 1 {
			st.Smap = append(st.Smap, vfC03SKV{K: vfC03I([]byte("COMPRESSION")), V: vfC03I([]byte(vfC03Comp{}.Name()))})
		}
		expect := []*vfC03Case{oc, st}
		if sasl != nil {
			sasl.mu.Lock()
			for _, tok := range sasl.returned {
				a := s.base("AUTH_RESPONSE")
				if tok == nil {
					a.Tok.Nul = 1
				} else {
					a.Tok.B = vfC03I(tok)
				}
				expect = append(expect, a)
			}
			sasl.mu.Unlock()
		}
		if len(hs) >= len(expect) && (sasl == nil || len(expect) == 2+rounds+1) {
			for j, c := range expect {
				vfC03Norm(c)
				c.Stream, c.Bytes = hs[j].Stream, vfC03I(hs[j].Raw)
				o.put(t, c)
				s.frames++
			}
			authRounds += len(expect) - 2
		} else {
			s.unexpl++
		}
		for k, n := 0, g.pick(2, 3, 4); k < n; k++ {
			switch x := g.r.Intn(10); {
			case x < 6:
				s.opQuery()
			case x < 8:
				s.opBatch()
			default:
				s.opPaged()
			}
		}
		sess.Close()
		node.CloseAll()
		ops, frames, unexpl = ops+s.ops, frames+s.frames, unexpl+s.unexpl
	}
	fmt.Printf("VFC03 session sessions=%d noconnect=%d ops=%d frames=%d unexplained=%d\n", nsess, noconn, ops, frames, unexpl)
	fmt.Printf("VFC03 auth_responses=%d\n", authRounds)
}
