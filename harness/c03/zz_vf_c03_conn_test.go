package gocql

// C03, sample through the real connection write path: the request goes through Conn.exec
// (real stream id allocator, tracing flag set by exec, the bytes handed to the connection's
// contextWriter) and, for the handshake messages, through startupCoordinator.options /
// startup / authenticateHandshake, which build the request themselves.  No network: the Conn
// is a literal with a capturing writer; the request's context is cancelled once the frame was
// written, so exec returns without waiting for an answer.

import (
	"context"
	"fmt"
	"math/rand"
	"testing"
	"time"

	"github.com/gocql/gocql/internal/streams"
)

type vfC03Writer struct {
	got    []byte
	wrote  bool
	cancel context.CancelFunc
}

func (w *vfC03Writer) writeContext(ctx context.Context, p []byte) (int, error) {
	w.got = append([]byte{}, p...)
	w.wrote = true
	w.cancel()
	return len(p), nil
}

type vfC03Auth struct{ resp []byte }

func (a vfC03Auth) Challenge(req []byte) ([]byte, Authenticator, error) { return a.resp, a, nil }
func (a vfC03Auth) Success(data []byte) error                             { return nil }

type vfC03Tracer struct{}

func (vfC03Tracer) Trace(traceId []byte) {}

func vfC03StubConn(v int, comp Compressor) (*Conn, *vfC03Writer, context.Context) {
	ctx, cancel := context.WithCancel(context.Background())
	w := &vfC03Writer{cancel: cancel}
	cctx, ccancel := context.WithCancel(context.Background())
	c := &Conn{version: uint8(v), streams: streams.New(v), calls: map[int]*callReq{}, w: w, compressor: comp,
		ctx: cctx, cancel: ccancel, cfg: &ConnConfig{}}
	return c, w, ctx
}

// vfC03Link is one stub connection that carries a SEQUENCE of requests: what an earlier
// request leaves behind on the connection (pooled or cached objects, flags) meets the next one.
type vfC03Link struct {
	conn  *Conn
	w     *vfC03Writer
	v     int
	comp  int
	known map[int]bool // stream ids of the calls registered so far
}

// fresh returns the stream ids of the calls registered since the last look.
func (l *vfC03Link) fresh() []int {
	l.conn.mu.Lock()
	defer l.conn.mu.Unlock()
	out := []int{}
	for k := range l.conn.calls {
		if !l.known[k] {
			out = append(out, k)
			l.known[k] = true
		}
	}
	return out
}

func vfC03NewLink(v, comp, occupy int) *vfC03Link {
	var cp Compressor
	if comp == 1 {
		cp = vfC03Comp{}
	}
	conn, w, _ := vfC03StubConn(v, cp)
	// occupy a seeded number of stream ids first so that the allocator hands out other ids than 1
	for i := 0; i < occupy; i++ {
		conn.streams.GetStream()
	}
	return &vfC03Link{conn: conn, w: w, v: v, comp: comp, known: map[int]bool{}}
}

// vfC03AuthGuard: does the handshake code refuse to answer an AUTHENTICATE in this version
// before anything is written?  Returns the refusal text, "" if a frame went out (or the stub
// could not carry the call).
func vfC03AuthGuard(v int) (msg string) {
	defer func() {
		if r := recover(); r != nil {
			msg = ""
		}
	}()
	conn, w, ctx := vfC03StubConn(v, nil)
	defer conn.cancel()
	conn.auth = vfC03Auth{resp: []byte{0}}
	s := &startupCoordinator{conn: conn, frameTicker: make(chan struct{}, 4)}
	err := s.authenticateHandshake(ctx, &authenticateFrame{class: "org.apache.cassandra.auth.PasswordAuthenticator"})
	if err != nil && !w.wrote {
		return "refused before the frame builder: " + err.Error()
	}
	return ""
}

// vfC03Register runs controlConn.registerEvents for a configuration.  The logical request is
// what the ClusterConfig documentation says: status events (STATUS_CHANGE) unless
// DisableNodeStatusEvents, topology events (TOPOLOGY_CHANGE) unless DisableTopologyEvents, schema
// events (SCHEMA_CHANGE) unless DisableSchemaEvents.
func vfC03Register(c *vfC03Case, noStatus, noTopology, noSchema bool) (ok bool) {
	defer func() {
		if r := recover(); r != nil {
			ok = false
		}
	}()
	if !noTopology {
		c.Slist = append(c.Slist, vfC03I([]byte("TOPOLOGY_CHANGE")))
	}
	if !noStatus {
		c.Slist = append(c.Slist, vfC03I([]byte("STATUS_CHANGE")))
	}
	if !noSchema {
		c.Slist = append(c.Slist, vfC03I([]byte("SCHEMA_CHANGE")))
	}
	l := vfC03NewLink(c.V, c.Comp, 0)
	// registerEvents waits on its own context: end the wait by closing the connection's context
	l.w.cancel = l.conn.cancel
	sess := &Session{}
	sess.cfg.Events.DisableNodeStatusEvents = noStatus
	sess.cfg.Events.DisableTopologyEvents = noTopology
	sess.cfg.Events.DisableSchemaEvents = noSchema
	err := (&controlConn{session: sess}).registerEvents(l.conn)
	fresh := l.fresh()
	if l.w.wrote {
		if len(fresh) != 1 {
			return false
		}
		c.Stream, c.Bytes = fresh[0], vfC03I(l.w.got)
		return true
	}
	l.conn.cancel()
	if err != nil {
		c.Err = "error: " + err.Error()
	}
	return true
}

// vfC03ViaConn sends the logical request through the connection-level code.  ok=false when the
// stub could not carry the request (the driver went into parts the literal does not have).
func vfC03ViaConn(c *vfC03Case, l *vfC03Link) (out []byte, errText string, ok bool) {
	defer func() {
		if r := recover(); r != nil {
			l.fresh()
			if s := fmt.Sprint(r); len(s) > 0 && (c.Kind == "QUERY" || c.Kind == "EXECUTE" || c.Kind == "PREPARE" || c.Kind == "BATCH") {
				// the builders refuse by panicking (keyspace < v5, payload < v4): that is exec's behaviour too
				out, errText, ok = nil, "panic: "+s, true
				return
			}
			out, errText, ok = nil, "", false
		}
	}()
	conn, w := l.conn, l.w
	comp := conn.compressor
	ctx, cancel := context.WithCancel(context.Background())
	defer cancel()
	w.cancel, w.wrote, w.got = cancel, false, nil
	var err error
	s := &startupCoordinator{conn: conn, frameTicker: make(chan struct{}, 4)}
	switch c.Kind {
	case "OPTIONS":
		err = s.options(ctx)
	case "STARTUP":
		sup := map[string][]string{}
		for _, kv := range c.Smap {
			k, v := string(vfC03B(kv.K)), string(vfC03B(kv.V))
			switch k {
			case "CQL_VERSION":
				conn.cfg.CQLVersion = v
			case "COMPRESSION":
				sup["COMPRESSION"] = []string{"other", v}
			}
		}
		err = s.startup(ctx, sup)
	case "AUTH_RESPONSE":
		a := vfC03Auth{}
		if c.Tok.Nul == 0 {
			a.resp = vfC03B(c.Tok.B)
		}
		conn.auth = a
		err = s.authenticateHandshake(ctx, &authenticateFrame{class: "org.apache.cassandra.auth.PasswordAuthenticator"})
	case "BATCH":
		if c.V == 1 {
			// the guard in front of writeBatchFrame, asked on a connection of its own
			pc, pw, pctx := vfC03StubConn(c.V, comp)
			m := vfC03Refusal(func() error { return pc.executeBatch(pctx, (&Batch{}).WithContext(pctx)).err })
			pc.cancel()
			if m != "" && !pw.wrote {
				return nil, m, true
			}
		}
		fallthrough
	default:
		var tr Tracer
		if c.Trace == 1 {
			tr = vfC03Tracer{}
		}
		_, err = conn.exec(ctx, vfC03Builder(c), tr)
	}
	// the stream id the connection registered the new call under (not read from the frame)
	fresh := l.fresh()
	if w.wrote {
		if len(fresh) != 1 {
			return nil, "", false
		}
		c.Stream = fresh[0]
		return w.got, "", true
	}
	if err == nil || err == ErrNoStreams {
		return nil, "", false
	}
	return nil, "error: " + err.Error(), true
}

// TestVfC03ConnPath: seeded random requests through the connection-level path.
func TestVfC03ConnPath(t *testing.T) {
	seed := int64(vfC03Env("VF_SEED", 1))
	n := vfC03Env("VF_C03_NCONN", 600)
	o := vfC03NewOut(t, "c03_conn", vfC03Env("VF_C03_SHARDS", 4))
	defer o.close()
	g := &vfC03Gen{r: rand.New(rand.NewSource(seed ^ 0x5eed)), id: 2000000}
	skipped := 0
	// REGISTER as the control connection sends it: every combination of the three
	// ClusterConfig.Events.Disable* switches x protocol version, through the real
	// controlConn.registerEvents and Conn.exec
	for v := 1; v <= 5; v++ {
		for m := 0; m < 8; m++ {
			c := &vfC03Case{Src: "conn", V: v, Kind: "REGISTER", Comp: m % 2}
			g.id++
			c.ID = g.id
			if !vfC03Register(c, m&1 != 0, m&2 != 0, m&4 != 0) {
				skipped++
				continue
			}
			vfC03Norm(c)
			if len(c.Slist) == 0 && len(c.Bytes) == 0 && c.Err == "" {
				continue // nothing to register, nothing sent: nothing to judge
			}
			o.put(t, c)
		}
	}
	var link *vfC03Link
	left := 0
	for i := 0; i < n; i++ {
		c := g.random()
		c.Src = "conn"
		if left == 0 { // a new connection for the next 1-4 requests
			if link != nil {
				link.conn.cancel()
			}
			link = vfC03NewLink(c.V, c.Comp, g.pick(0, 0, 1, 5, 60, 110))
			left = g.pick(1, 2, 3, 4)
		}
		left--
		c.V, c.Comp = link.v, link.comp
		if i%4 == 0 { // more of the handshake messages than the random mix has
			c.Kind = []string{"OPTIONS", "STARTUP", "AUTH_RESPONSE", "REGISTER"}[(i/4)%4]
			c.Trace, c.Payload, c.Values, c.Ks, c.Pstate, c.Serial, c.Pagesize, c.Skipmeta = 0, nil, nil, nil, nil, 0, 0, 0
			c.Ts, c.Stmts, c.Stmt, c.Pid, c.Cons, c.Btype = vfC03TS{}, nil, nil, nil, 0, 0
			c.Smap, c.Slist, c.Tok = nil, nil, vfC03NB{}
			switch c.Kind {
			case "AUTH_RESPONSE":
				if i%8 == 0 {
					c.Tok.B = g.bytes(g.pick(0, 1, 20))
				} else {
					c.Tok.Nul = 1
				}
			case "REGISTER":
				c.Slist = [][]int{vfC03I([]byte("STATUS_CHANGE"))}
			}
		}
		if c.Kind == "STARTUP" {
			// what startup() will say: CQL version from the configuration, the driver's name and
			// version, and the compressor's name when the server supports it
			c.Smap = []vfC03SKV{{K: vfC03I([]byte("CQL_VERSION")), V: g.text(g.pick(0, 5, 8))},
				{K: vfC03I([]byte("DRIVER_NAME")), V: vfC03I([]byte(driverName))},
				{K: vfC03I([]byte("DRIVER_VERSION")), V: vfC03I([]byte(driverVersion))}}
			if c.Comp == 1 {
				c.Smap = append(c.Smap, vfC03SKV{K: vfC03I([]byte("COMPRESSION")), V: vfC03I([]byte(vfC03Comp{}.Name()))})
			}
		}
		c.Stream = 0
		vfC03Norm(c)
		type res struct {
			b  []byte
			e  string
			ok bool
		}
		ch := make(chan res, 1)
		go func(l *vfC03Link) { b, e, ok := vfC03ViaConn(c, l); ch <- res{b, e, ok} }(link)
		var b []byte
		var e string
		var ok bool
		select {
		case r := <-ch:
			b, e, ok = r.b, r.e, r.ok
		case <-time.After(20 * time.Second): // a request that never returns is not C03's subject
			ok, left = false, 0
		}
		if !ok {
			skipped++
			continue
		}
		c.Bytes, c.Err = vfC03I(b), e
		o.put(t, c)
	}
	fmt.Printf("VFC03 connpath=%d skipped=%d\n", o.n, skipped)
}
