package gocql

// C03 under CONCURRENT requests with a real compressor: several goroutines build and send
// requests through one real Conn.exec with SnappyCompressor negotiated.  Two kinds of runs:
//   - scheduled: request A is held right after Compressor.Encode returned (before the framer
//     appends the compressed body) while other goroutines run 1-2 complete requests on the same
//     connection, then A continues.  The schedule is imposed from outside by a wrapper around
//     the real compressor (the driver's code is untouched); GOMAXPROCS(1) keeps the goroutines on
//     one P so that per-P caches (sync.Pool) are shared the way they are on a busy P.
//   - free running: 4 goroutines x several requests.
// The capturing writer keys what was written by the request's context, the stream id comes from
// the StreamObserver context registered in conn.calls: no association is read from frame bytes.
// The body is decompressed by the harness with the snappy library (trusted base) and handed to
// TLC next to the frame as sent (fields unz / unzok).

import (
	"context"
	"fmt"
	"math/rand"
	"runtime"
	"sync"
	"testing"
	"time"
)

type vfC03ConcWriter struct {
	mu      sync.Mutex
	got     map[context.Context][]byte
	cancels map[context.Context]context.CancelFunc
}

func (w *vfC03ConcWriter) writeContext(ctx context.Context, p []byte) (int, error) {
	w.mu.Lock()
	w.got[ctx] = append([]byte{}, p...)
	cancel := w.cancels[ctx]
	w.mu.Unlock()
	if cancel != nil {
		cancel()
	}
	return len(p), nil
}

// stream observer: tags the call with the request context
type vfC03Obs struct{}
type vfC03ObsCtx struct{ ctx context.Context }

func (vfC03Obs) StreamContext(ctx context.Context) StreamObserverContext { return &vfC03ObsCtx{ctx: ctx} }
func (*vfC03ObsCtx) StreamStarted(ObservedStream)                        {}
func (*vfC03ObsCtx) StreamAbandoned(ObservedStream)                      {}
func (*vfC03ObsCtx) StreamFinished(ObservedStream)                       {}

// vfC03GateComp wraps the real compressor; hold (if armed) is taken by the first Encode that
// returns: that request waits at the point "Encode returned, result not yet used".
type vfC03GateComp struct {
	inner Compressor
	mu    sync.Mutex
	armed bool
	held  chan struct{} // closed when a request is parked
	free  chan struct{} // closed to let it go on
}

func (g *vfC03GateComp) Name() string { return g.inner.Name() }
func (g *vfC03GateComp) Decode(d []byte) ([]byte, error) {
	return g.inner.Decode(d)
}
func (g *vfC03GateComp) Encode(d []byte) ([]byte, error) {
	out, err := g.inner.Encode(d)
	g.mu.Lock()
	park := g.armed
	g.armed = false
	held, free := g.held, g.free
	g.mu.Unlock()
	if park {
		close(held)
		select {
		case <-free:
		case <-time.After(30 * time.Second): // never a verdict: the schedule simply was not completed
		}
	}
	return out, err
}

func (g *vfC03GateComp) arm() (held, free chan struct{}) {
	g.mu.Lock()
	defer g.mu.Unlock()
	g.armed, g.held, g.free = true, make(chan struct{}), make(chan struct{})
	return g.held, g.free
}

type vfC03ConcLink struct {
	conn *Conn
	w    *vfC03ConcWriter
	gate *vfC03GateComp
}

func vfC03NewConcLink(v int) *vfC03ConcLink {
	gate := &vfC03GateComp{inner: SnappyCompressor{}}
	w := &vfC03ConcWriter{got: map[context.Context][]byte{}, cancels: map[context.Context]context.CancelFunc{}}
	link := vfC03NewLink(v, 0, 0)
	link.conn.w = w
	link.conn.compressor = gate
	link.conn.streamObserver = vfC03Obs{}
	return &vfC03ConcLink{conn: link.conn, w: w, gate: gate}
}

// send runs one request through Conn.exec and fills in stream, bytes, unz / err.
func (l *vfC03ConcLink) send(c *vfC03Case) (rec map[string]interface{}, ok bool) {
	ctx, cancel := context.WithCancel(context.Background())
	defer cancel()
	l.w.mu.Lock()
	l.w.cancels[ctx] = cancel
	l.w.mu.Unlock()
	errText := ""
	func() {
		defer func() {
			if r := recover(); r != nil {
				errText = fmt.Sprintf("panic: %v", r)
			}
		}()
		var tr Tracer
		if c.Trace == 1 {
			tr = vfC03Tracer{}
		}
		if _, err := l.conn.exec(ctx, vfC03Builder(c), tr); err != nil {
			errText = "error: " + err.Error()
		}
	}()
	l.w.mu.Lock()
	b, wrote := l.w.got[ctx]
	delete(l.w.got, ctx)
	delete(l.w.cancels, ctx)
	l.w.mu.Unlock()
	vfC03Norm(c)
	unz, unzok := []int{}, 1
	if wrote {
		stream, n := -1, 0
		l.conn.mu.Lock()
		for id, call := range l.conn.calls {
			if o, isObs := call.streamObserverContext.(*vfC03ObsCtx); isObs && o.ctx == ctx {
				stream, n = id, n+1
			}
		}
		l.conn.mu.Unlock()
		if n != 1 {
			return nil, false
		}
		c.Stream, c.Bytes, c.Err = stream, vfC03I(b), ""
		hs := 9
		if c.V <= 2 {
			hs = 8
		}
		if len(b) >= hs && b[1]&0x01 != 0 {
			if d, err := (SnappyCompressor{}).Decode(b[hs:]); err == nil {
				unz = vfC03I(d)
			} else {
				unzok = 0
			}
		}
	} else {
		if errText == "" || errText == "error: "+ErrNoStreams.Error() {
			return nil, false
		}
		c.Err = errText
	}
	// the case record plus the decompressed body
	return map[string]interface{}{"id": c.ID, "src": c.Src, "v": c.V, "stream": c.Stream, "comp": c.Comp, "trace": c.Trace,
		"kind": c.Kind, "smap": c.Smap, "slist": c.Slist, "tok": c.Tok, "stmt": c.Stmt, "pid": c.Pid, "ks": c.Ks,
		"cons": c.Cons, "skipmeta": c.Skipmeta, "values": c.Values, "pagesize": c.Pagesize, "pstate": c.Pstate,
		"serial": c.Serial, "ts": c.Ts, "payload": c.Payload, "btype": c.Btype, "stmts": c.Stmts, "exp": c.Exp,
		"bytes": c.Bytes, "err": c.Err, "unz": unz, "unzok": unzok}, true
}

func (g *vfC03Gen) concRequest(v int) *vfC03Case {
	for {
		c := g.random()
		if c.Kind == "STARTUP" || c.Kind == "OPTIONS" || c.Kind == "AUTH_RESPONSE" || (c.Kind == "BATCH" && v == 1) {
			continue // never compressed / not a request of every version
		}
		c.Src, c.V, c.Comp, c.Stream = "conc", v, 1, 0
		return c
	}
}

func TestVfC03Concurrent(t *testing.T) {
	defer runtime.GOMAXPROCS(runtime.GOMAXPROCS(1))
	seed := int64(vfC03Env("VF_SEED", 1))
	n := vfC03Env("VF_C03_NCONC", 120)
	o := vfC03NewOut(t, "c03_conc", 1)
	defer o.close()
	g := &vfC03Gen{r: rand.New(rand.NewSource(seed ^ 0xc0c)), id: 4000000}
	var omu sync.Mutex
	put := func(rec map[string]interface{}, ok bool, skipped *int) {
		omu.Lock()
		defer omu.Unlock()
		if !ok {
			*skipped++
			return
		}
		o.put(t, rec)
	}
	skipped, incomplete := 0, 0
	for i := 0; i < n; i++ {
		v := 1 + (i+int(seed))%5
		l := vfC03NewConcLink(v)
		if i%3 != 2 {
			// scheduled: A parked after Encode while 1-2 other requests run to completion
			a := g.concRequest(v)
			others := []*vfC03Case{g.concRequest(v)}
			if g.chance(0.4) {
				others = append(others, g.concRequest(v))
			}
			held, free := l.gate.arm()
			done := make(chan struct{})
			go func() {
				rec, ok := l.send(a)
				put(rec, ok, &skipped)
				close(done)
			}()
			select {
			case <-held:
				for _, b := range others {
					rec, ok := l.send(b)
					put(rec, ok, &skipped)
				}
			case <-done: // A was refused before it compressed anything
				l.gate.mu.Lock()
				l.gate.armed = false
				l.gate.mu.Unlock()
			case <-time.After(30 * time.Second):
				incomplete++
			}
			close(free)
			select {
			case <-done:
			case <-time.After(30 * time.Second):
				incomplete++
			}
		} else {
			// free running: 4 goroutines x 3 requests on the connection
			reqs := make([][]*vfC03Case, 4)
			for k := range reqs {
				for j := 0; j < 3; j++ {
					reqs[k] = append(reqs[k], g.concRequest(v))
				}
			}
			var wg sync.WaitGroup
			for k := range reqs {
				wg.Add(1)
				go func(rs []*vfC03Case) {
					defer wg.Done()
					for _, c := range rs {
						rec, ok := l.send(c)
						put(rec, ok, &skipped)
						runtime.Gosched()
					}
				}(reqs[k])
			}
			wg.Wait()
		}
		l.conn.cancel()
	}
	fmt.Printf("VFC03 concurrent runs=%d vectors=%d skipped=%d incomplete=%d\n", n, o.n, skipped, incomplete)
}
