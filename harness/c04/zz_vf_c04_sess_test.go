package gocql

// C04 harness, part 2: the same frames through a live Session.  A scripted node on a
// loopback socket answers the driver's PREPARE with the PREPARED frame and the
// EXECUTE/QUERY with the response frame the TLA+ encoder produced (only the stream id is
// patched to the request's, and the body compressed when compression was negotiated).
// Everything else is the driver's own machinery: Conn.recv -> readHeader -> readFrame ->
// parseFrame -> Conn.executeQuery (which substitutes the prepared statement's result
// metadata when it asked the server to skip it) -> Iter.  Only glue, no oracle.

import (
	"bufio"
	"bytes"
	"context"
	"encoding/binary"
	"encoding/json"
	"errors"
	"fmt"
	"io"
	"net"
	"os"
	"runtime"
	"strings"
	"sync"
	"sync/atomic"
	"testing"
	"time"
)

type vfC04Node struct {
	ln   net.Listener
	comp bool
	mu   sync.Mutex
	prep []byte
	resp []byte
	nreq map[byte]int
	quit chan struct{}
}

func vfC04NewNode(comp bool) (*vfC04Node, error) {
	ln, err := net.Listen("tcp", "127.0.0.1:0")
	if err != nil {
		return nil, err
	}
	n := &vfC04Node{ln: ln, comp: comp, nreq: map[byte]int{}, quit: make(chan struct{})}
	go func() {
		for {
			c, err := ln.Accept()
			if err != nil {
				return
			}
			go n.serve(c)
		}
	}()
	return n, nil
}

func (n *vfC04Node) stop() { close(n.quit); n.ln.Close() }

func (n *vfC04Node) set(prep, resp []byte) {
	n.mu.Lock()
	n.prep, n.resp = prep, resp
	n.mu.Unlock()
}

func vfC04Hdr(version byte, stream int, op byte, body []byte) []byte {
	out := []byte{version | 0x80, 0}
	if version&0x7f >= 3 {
		out = append(out, byte(stream>>8), byte(stream))
	} else {
		out = append(out, byte(stream))
	}
	out = append(out, op, 0, 0, 0, 0)
	binary.BigEndian.PutUint32(out[len(out)-4:], uint32(len(body)))
	return append(out, body...)
}

func vfC04Restream(frame []byte, stream int) []byte {
	out := append([]byte{}, frame...)
	if out[0]&0x7f >= 3 {
		out[2], out[3] = byte(stream>>8), byte(stream)
	} else {
		out[2] = byte(stream)
	}
	return out
}

func (n *vfC04Node) serve(c net.Conn) {
	defer c.Close()
	rd := bufio.NewReader(c)
	for {
		var h [9]byte
		if _, err := io.ReadFull(rd, h[:1]); err != nil {
			return
		}
		ver := h[0] & 0x7f
		hs := 9
		if ver < 3 {
			hs = 8
		}
		if _, err := io.ReadFull(rd, h[1:hs]); err != nil {
			return
		}
		var stream int
		var op byte
		if ver >= 3 {
			stream, op = int(int16(binary.BigEndian.Uint16(h[2:4]))), h[4]
		} else {
			stream, op = int(int8(h[2])), h[3]
		}
		ln := int(binary.BigEndian.Uint32(h[hs-4 : hs]))
		body := make([]byte, ln)
		if _, err := io.ReadFull(rd, body); err != nil {
			return
		}
		if h[1]&0x01 != 0 {
			if dec, err := (SnappyCompressor{}).Decode(body); err == nil {
				body = dec
			}
		}
		n.mu.Lock()
		n.nreq[op]++
		prep, resp := n.prep, n.resp
		n.mu.Unlock()
		var out []byte
		switch op {
		case byte(opOptions):
			// SUPPORTED {COMPRESSION: [snappy], CQL_VERSION: [3.0.0]}
			body := []byte{0, 2, 0, 11}
			body = append(body, "COMPRESSION"...)
			body = append(body, 0, 1, 0, 6)
			body = append(body, "snappy"...)
			body = append(body, 0, 11)
			body = append(body, "CQL_VERSION"...)
			body = append(body, 0, 1, 0, 5)
			body = append(body, "3.0.0"...)
			out = vfC04Hdr(ver, stream, byte(opSupported), body)
		case byte(opStartup), byte(opRegister):
			out = vfC04Hdr(ver, stream, byte(opReady), nil)
		case byte(opPrepare):
			out = vfC04Restream(prep, stream)
			if n.comp {
				out = vfC04Compress(out)
			}
		case byte(opQuery):
			if bytes.Contains(body, []byte("system.")) {
				// the driver's own schema-agreement queries after a schema change: nothing to report
				out = vfC04Hdr(ver, stream, byte(opResult), []byte{0, 0, 0, 1})
				break
			}
			fallthrough
		default:
			out = vfC04Restream(resp, stream)
			if n.comp {
				out = vfC04Compress(out)
			}
		}
		if _, err := c.Write(out); err != nil {
			return
		}
	}
}

type vfC04Tracer struct {
	mu sync.Mutex
	id []byte
}

func (t *vfC04Tracer) Trace(id []byte) {
	t.mu.Lock()
	t.id = append([]byte{}, id...)
	t.mu.Unlock()
}

type vfC04Sess struct {
	node *vfC04Node
	sess *Session
	v     int
	comp  bool
	fault *vfC04FaultDialer
}

// ---------------------------------------------------------------- temporary read timeouts in the middle of a response

type vfC04TimeoutErr struct{}

func (vfC04TimeoutErr) Error() string   { return "i/o timeout (injected)" }
func (vfC04TimeoutErr) Timeout() bool   { return true }
func (vfC04TimeoutErr) Temporary() bool { return true }

// vfC04FaultConn is the client side of the socket.  When armed it hands the driver exactly `left`
// more bytes and then reports one temporary timeout (what an expired read deadline looks like)
// before it goes on delivering: a response that arrives in two pieces.  No clock is involved.
type vfC04FaultConn struct {
	net.Conn
	mu    sync.Mutex
	armed bool
	left  int
	fired *int64
	buf   []byte // read from the socket, not yet handed to the driver (only the reading goroutine touches it)
}

func (c *vfC04FaultConn) arm(n int) {
	c.mu.Lock()
	c.armed, c.left = true, n
	c.mu.Unlock()
}

func (c *vfC04FaultConn) Read(p []byte) (int, error) {
	// the receive loop is usually already blocked in Read when the harness arms the fault, so the
	// budget is applied to what is handed out, not to what is read from the socket
	if len(c.buf) == 0 {
		tmp := make([]byte, 4096)
		n, err := c.Conn.Read(tmp)
		if n == 0 {
			return 0, err
		}
		c.buf = tmp[:n]
	}
	c.mu.Lock()
	defer c.mu.Unlock()
	n := len(p)
	if n > len(c.buf) {
		n = len(c.buf)
	}
	if c.armed {
		if c.left == 0 {
			c.armed = false
			atomic.AddInt64(c.fired, 1)
			return 0, vfC04TimeoutErr{}
		}
		if n > c.left {
			n = c.left
		}
		c.left -= n
	}
	copy(p, c.buf[:n])
	c.buf = c.buf[n:]
	return n, nil
}

type vfC04FaultDialer struct {
	mu    sync.Mutex
	last  *vfC04FaultConn
	fired *int64
}

func (d *vfC04FaultDialer) DialContext(ctx context.Context, network, addr string) (net.Conn, error) {
	var nd net.Dialer
	c, err := nd.DialContext(ctx, network, addr)
	if err != nil {
		return nil, err
	}
	fc := &vfC04FaultConn{Conn: c, fired: d.fired}
	d.mu.Lock()
	d.last = fc
	d.mu.Unlock()
	return fc, nil
}

func (d *vfC04FaultDialer) arm(n int) {
	d.mu.Lock()
	c := d.last
	d.mu.Unlock()
	if c != nil {
		c.arm(n)
	}
}

var vfC04FaultsFired int64

func vfC04NewSess(v int, comp bool, fault bool) (*vfC04Sess, error) {
	node, err := vfC04NewNode(comp)
	if err != nil {
		return nil, err
	}
	cl := NewCluster(node.ln.Addr().String())
	cl.ProtoVersion = v
	cl.disableControlConn = true
	cl.NumConns = 1
	cl.Timeout = 90 * time.Second // generous: a slow machine must never look like a wrong answer
	cl.ConnectTimeout = 90 * time.Second
	cl.ReconnectInterval = 0
	cl.Logger = nopLogger{}
	if comp {
		cl.Compressor = SnappyCompressor{}
	}
	var fd *vfC04FaultDialer
	if fault {
		fd = &vfC04FaultDialer{fired: &vfC04FaultsFired}
		cl.Dialer = fd
	}
	s, err := cl.CreateSession()
	if err != nil {
		node.stop()
		return nil, err
	}
	return &vfC04Sess{node: node, sess: s, v: v, comp: comp, fault: fd}, nil
}

func (s *vfC04Sess) close() {
	done := make(chan struct{})
	go func() { s.sess.Close(); close(done) }()
	select {
	case <-done:
	case <-time.After(10 * time.Second):
	}
	s.node.stop()
}

// vfC04SessView runs the case as a query through the live session.  skip: let the driver ask
// the server to skip the result metadata (the default for prepared statements).
func vfC04SessView(s *vfC04Sess, c *vfC04Case, mode string, skip, iterOnly bool) vfC04M {
	v := vfC04EmptyView(c.ID, mode)
	s.node.set(vfC04I2B(c.Prep), vfC04I2B(c.Bytes))
	// a SELECT is prepared first (the node answers PREPARE with c.Prep); anything else goes
	// out as a plain QUERY (used for the ERROR responses)
	stmt := fmt.Sprintf("SELECT vf_c04_%d_%s", c.ID, mode)
	if len(c.Prep) == 0 {
		stmt = fmt.Sprintf("LIST vf_c04_%d_%s", c.ID, mode)
	}
	tracer := &vfC04Tracer{}
	hs := 9
	if c.V < 3 {
		hs = 8
	}
	open := func() (*Iter, *framer, error) {
		if s.fault != nil {
			// the next response (PREPARED the first time, then the result) arrives as header + a few
			// body bytes, a temporary read timeout, then the rest
			s.fault.arm(hs + 1 + c.ID%5)
		}
		q := s.sess.Query(stmt).Trace(tracer).PageState(nil)
		if !skip {
			q = q.NoSkipMetadata()
		}
		it := q.Iter()
		return it, it.framer, nil
	}
	func() {
		defer func() {
			if r := recover(); r != nil {
				v["panic"] = vfC04Ascii(fmt.Sprint(r))
			}
		}()
		it, fr, _ := open()
		_ = fr // only the public Iter API is observed here
		v["warnings"] = vfC04Strs(it.Warnings())
		v["payload"] = vfC04PayloadView(it.GetCustomPayload())
		f := vfC04M{"flags": -1, "colcount": -1, "paging": vfC04B2I(it.PageState()), "cols": vfC04ColsView(it.Columns()), "nrows": it.NumRows()}
		err := it.Close()
		tracer.mu.Lock()
		v["trace"] = vfC04B2I(tracer.id)
		tracer.mu.Unlock()
		if err != nil {
			if ev, ok := vfC04ErrView(err); ok {
				v["kind"], v["f"] = "error", ev
			} else {
				v["perr"] = vfC04Ascii(err.Error())
			}
			return
		}
		if iterOnly {
			// a result without rows: all there is to see is an iterator without columns and rows
			v["kind"] = "iter"
			v["f"] = vfC04M{"ncols": len(f["cols"].([]vfC04M)), "nrows": f["nrows"], "paging": f["paging"]}
			return
		}
		v["kind"] = "rows"
		for _, which := range vfC04Consumers {
			if vfC04IsTyped(which) && !c.Typed {
				f[which] = vfC04NoRun()
			} else {
				f[which] = vfC04Consume(which, c.Plan, open)
			}
		}
		v["f"] = f
	}()
	return v
}

// vfC04Transient: the query ran into the (90 s) client timeout - machine load, not an answer.
func vfC04Transient(v vfC04M) bool {
	is := func(s string) bool {
		return strings.Contains(s, "no response received") || strings.Contains(s, "deadline exceeded") || strings.Contains(s, "i/o timeout")
	}
	if s, _ := v["perr"].(string); is(s) {
		return true
	}
	if f, ok := v["f"].(vfC04M); ok {
		for _, x := range f {
			if c, ok := x.(vfC04M); ok {
				if s, _ := c["err"].(string); is(s) {
					return true
				}
			}
		}
	}
	return false
}

// vfC04Failed: the driver reported an error (or panicked) somewhere in this view.
func vfC04Failed(v vfC04M) bool {
	if s, _ := v["perr"].(string); s != "" {
		return true
	}
	if s, _ := v["panic"].(string); s != "" {
		return true
	}
	if f, ok := v["f"].(vfC04M); ok {
		for _, x := range f {
			if c, ok := x.(vfC04M); ok {
				if s, _ := c["err"].(string); s != "" {
					return true
				}
			}
		}
	}
	return false
}

var vfC04ErrStop = errors.New("vfC04: binding stops here")

// vfC04PrepView: the PREPARED response as an application sees it - the QueryInfo handed to
// a binding function (id, bind columns, result columns, partition key indexes).
func vfC04PrepView(s *vfC04Sess, c *vfC04Case, mode string) vfC04M {
	v := vfC04EmptyView(c.ID, mode)
	s.node.set(vfC04I2B(c.Bytes), nil)
	stmt := fmt.Sprintf("SELECT vf_c04_%d_%s", c.ID, mode)
	tracer := &vfC04Tracer{}
	func() {
		defer func() {
			if r := recover(); r != nil {
				v["panic"] = vfC04Ascii(fmt.Sprint(r))
			}
		}()
		var got *QueryInfo
		q := s.sess.Bind(stmt, func(info *QueryInfo) ([]interface{}, error) {
			got = info
			return nil, vfC04ErrStop
		}).Trace(tracer)
		err := q.Iter().Close()
		tracer.mu.Lock()
		v["trace"] = vfC04B2I(tracer.id)
		tracer.mu.Unlock()
		if got == nil {
			if err != nil {
				v["perr"] = vfC04Ascii(err.Error())
			} else {
				v["perr"] = "binding function not called"
			}
			return
		}
		if err != vfC04ErrStop {
			v["perr"] = vfC04Ascii(fmt.Sprint("unexpected result after binding: ", err))
			return
		}
		pk := []int{}
		pk = append(pk, got.PKeyColumns...)
		mv := func(cols []ColumnInfo) vfC04M {
			return vfC04M{"flags": -1, "colcount": -1, "paging": []int{}, "cols": vfC04ColsView(cols)}
		}
		v["kind"] = "prepared"
		v["f"] = vfC04M{"id": vfC04B2I(got.Id), "pk": pk, "req": mv(got.Args), "gks": []int{}, "gtable": []int{}, "res": mv(got.Rval)}
	}()
	return v
}

// ---------------------------------------------------------------- driver

func TestVfC04Run(t *testing.T) {
	in, outp := os.Getenv("VF_C04_CASES"), os.Getenv("VF_C04_VIEWS")
	if in == "" || outp == "" {
		t.Skip("VF_C04_CASES / VF_C04_VIEWS not set")
	}
	fi, err := os.Open(in)
	if err != nil {
		t.Fatal(err)
	}
	defer fi.Close()
	fo, err := os.Create(outp)
	if err != nil {
		t.Fatal(err)
	}
	w := bufio.NewWriterSize(fo, 1<<20)
	enc := json.NewEncoder(w)
	// watchdog: never let a mis-parsing driver eat the machine
	go func() {
		var ms runtime.MemStats
		for {
			time.Sleep(200 * time.Millisecond)
			runtime.ReadMemStats(&ms)
			if ms.HeapAlloc > 3<<30 {
				fmt.Printf("VFC04ABORT heap %d MiB\n", ms.HeapAlloc>>20)
				os.Exit(3)
			}
		}
	}()
	var cases []*vfC04Case
	sc := bufio.NewScanner(fi)
	sc.Buffer(make([]byte, 1<<20), 1<<26)
	for sc.Scan() {
		c := &vfC04Case{}
		if err := json.Unmarshal(sc.Bytes(), c); err != nil {
			t.Fatalf("bad case line: %v", err)
		}
		cases = append(cases, c)
	}
	if err := sc.Err(); err != nil {
		t.Fatal(err)
	}
	ncase := len(cases)
	var omu sync.Mutex
	nview, nsessfail := 0, 0
	sessErr := map[string]string{}
	emit := func(view vfC04M) {
		omu.Lock()
		defer omu.Unlock()
		if err := enc.Encode(view); err != nil {
			panic(err)
		}
		nview++
	}
	// framer-level jobs on a few workers; one goroutine per (version, compression) session
	type job struct {
		c    *vfC04Case
		mode string
	}
	nfw := 4
	fjobs := make([][]job, nfw)
	sjobs := map[string][]job{}
	for i, c := range cases {
		for _, mode := range c.Modes {
			switch mode {
			case "plain", "snappy":
				fjobs[i%nfw] = append(fjobs[i%nfw], job{c, mode})
			case "sess-full", "sess-skip", "sess-full-z", "sess-skip-z", "sess-prep", "sess-prep-z", "sess-iter", "sess-iter-z",
				"sess-full-t", "sess-skip-t":
				comp := strings.HasSuffix(mode, "-z")
				key := fmt.Sprintf("%d/%v/%v", c.V, comp, strings.HasSuffix(mode, "-t"))
				sjobs[key] = append(sjobs[key], job{c, mode})
			default:
				t.Fatalf("unknown mode %q", mode)
			}
		}
	}
	var wg sync.WaitGroup
	for _, js := range fjobs {
		wg.Add(1)
		go func(js []job) {
			defer wg.Done()
			for _, j := range js {
				emit(vfC04FramerView(j.c, j.mode))
			}
		}(js)
	}
	for key, js := range sjobs {
		wg.Add(1)
		go func(key string, js []job) {
			defer wg.Done()
			comp := strings.HasSuffix(js[0].mode, "-z")
			fault := strings.HasSuffix(js[0].mode, "-t")
			s, err := vfC04NewSess(js[0].c.V, comp, fault)
			for try := 0; err != nil && try < 3; try++ { // set-up is retried
				time.Sleep(time.Second)
				s, err = vfC04NewSess(js[0].c.V, comp, fault)
			}
			if err != nil {
				omu.Lock()
				sessErr[key] = err.Error()
				nsessfail += len(js)
				omu.Unlock()
				return
			}
			defer func() { s.close() }()
			failures := 0
			for _, j := range js {
				if fault && failures >= 5 {
					// a driver that breaks under the injected timeouts leaves its connection unusable:
					// do not wait out the client timeout for every remaining case
					view := vfC04EmptyView(j.c.ID, j.mode)
					view["perr"] = "harness: fault-injection session abandoned after repeated failures"
					emit(view)
					continue
				}
				var view vfC04M
				for try := 0; try < 3; try++ {
					if strings.HasPrefix(j.mode, "sess-prep") {
						view = vfC04PrepView(s, j.c, j.mode)
					} else {
						view = vfC04SessView(s, j.c, j.mode, strings.HasPrefix(j.mode, "sess-skip"), strings.HasPrefix(j.mode, "sess-iter"))
					}
					if !vfC04Transient(view) {
						break
					}
					view["transient"] = true // still timing out after the retries: not evidence about the code
				}
				emit(view)
				if fault && vfC04Failed(view) {
					failures++
					s.close()
					if ns, err := vfC04NewSess(js[0].c.V, comp, fault); err == nil {
						s = ns
					} else {
						failures = 5
					}
				}
			}
		}(key, js)
	}
	wg.Wait()
	w.Flush()
	fo.Close()
	se, _ := json.Marshal(sessErr)
	fmt.Printf("VFC04SUMMARY {\"cases\":%d,\"views\":%d,\"sess_skipped\":%d,\"sess_errors\":%s,\"faults_fired\":%d}\n", ncase, nview, nsessfail, se, atomic.LoadInt64(&vfC04FaultsFired))
}
