package gocql

// Verification harness for property C04 ("well-formed server responses are decoded to
// exactly what the server said").  Overlaid into package gocql by /verif/bin/check.
//
// This file is glue only: it feeds frame bytes produced by the TLA+ reference encoder
// (spec/WireResp.tla, evaluated by TLC) to the driver's real receive path
//   readHeader -> framer.readFrame (with decompression) -> framer.parseFrame -> Iter
// and serialises what the driver reports (the "view") as NDJSON.  It never decides
// anything: the comparison view = logical record is evaluated by TLC
// (spec/Trace_WireResp.tla).  Strings and byte strings are written as arrays of byte
// values so that both sides have one sort for them.

import (
	"bytes"
	"encoding/binary"
	"fmt"
	"math"
	"net"
	"reflect"
	"sort"
	"strconv"
	"strings"
	"time"
)

type vfC04Field struct {
	Name string `json:"name"`
	Kind string `json:"kind"` // int | text
}

type vfC04Plan struct {
	Kind   string       `json:"kind"`   // int | text | bool | list_int | blob | map_int_int | raw | tuple | udt | list_udt | map_int_udt
	Elems  []string     `json:"elems"`  // element kinds of a tuple column
	Shape  string       `json:"shape"`  // Go destination shape for the UDT values of this column
	Fields []vfC04Field `json:"fields"` // the UDT's fields (printable name, kind)
}

type vfC04Case struct {
	ID    int         `json:"id"`
	V     int         `json:"v"`
	Bytes []int       `json:"bytes"`
	Prep  []int       `json:"prep"`
	Typed bool        `json:"typed"`
	Cons  bool        `json:"cons"` // framer level: run the row consumers (a rows result that carries its metadata)
	Plan  []vfC04Plan `json:"plan"`
	Modes []string    `json:"modes"`
}

type vfC04M = map[string]interface{}

func vfC04B2I(b []byte) []int {
	r := make([]int, len(b))
	for i, x := range b {
		r[i] = int(x)
	}
	return r
}

func vfC04S2I(s string) []int { return vfC04B2I([]byte(s)) }

func vfC04I2B(a []int) []byte {
	r := make([]byte, len(a))
	for i, x := range a {
		r[i] = byte(x)
	}
	return r
}

func vfC04Strs(l []string) [][]int {
	r := make([][]int, len(l))
	for i, s := range l {
		r[i] = vfC04S2I(s)
	}
	return r
}

// vfC04Ascii keeps error texts printable and free of characters TLC's JSON reader dislikes.
func vfC04Ascii(s string) string {
	var sb strings.Builder
	for _, r := range s {
		if r >= 32 && r < 127 && r != '"' && r != '\\' {
			sb.WriteRune(r)
		} else {
			sb.WriteByte('?')
		}
	}
	if sb.Len() > 300 {
		return sb.String()[:300]
	}
	return sb.String()
}

// vfC04Compress rewrites an uncompressed frame the way a server with negotiated
// compression would send it: compression flag set, body compressed with the driver's own
// SnappyCompressor, length field = compressed length.
func vfC04Compress(frame []byte) []byte {
	hs := 9
	if frame[0]&0x7f < 3 {
		hs = 8
	}
	body, err := SnappyCompressor{}.Encode(frame[hs:])
	if err != nil {
		panic(err)
	}
	out := append([]byte{}, frame[:hs]...)
	out[1] |= 0x01
	binary.BigEndian.PutUint32(out[hs-4:hs], uint32(len(body)))
	return append(out, body...)
}

// ---------------------------------------------------------------- type trees, columns

func vfC04TypeView(t TypeInfo) vfC04M {
	m := vfC04M{"id": -1, "custom": []int{}, "ks": []int{}, "name": []int{}, "fnames": [][]int{}, "args": []vfC04M{}}
	if t == nil {
		return m
	}
	m["id"] = int(t.Type())
	m["custom"] = vfC04S2I(t.Custom())
	switch x := t.(type) {
	case CollectionType:
		args := []vfC04M{}
		if x.Key != nil {
			args = append(args, vfC04TypeView(x.Key))
		}
		args = append(args, vfC04TypeView(x.Elem))
		m["args"] = args
	case TupleTypeInfo:
		args := []vfC04M{}
		for _, e := range x.Elems {
			args = append(args, vfC04TypeView(e))
		}
		m["args"] = args
	case UDTTypeInfo:
		m["ks"] = vfC04S2I(x.KeySpace)
		m["name"] = vfC04S2I(x.Name)
		fn := [][]int{}
		args := []vfC04M{}
		for _, e := range x.Elements {
			fn = append(fn, vfC04S2I(e.Name))
			args = append(args, vfC04TypeView(e.Type))
		}
		m["fnames"] = fn
		m["args"] = args
	}
	return m
}

func vfC04ColsView(cols []ColumnInfo) []vfC04M {
	r := []vfC04M{}
	for _, c := range cols {
		r = append(r, vfC04M{"ks": vfC04S2I(c.Keyspace), "table": vfC04S2I(c.Table), "name": vfC04S2I(c.Name), "type": vfC04TypeView(c.TypeInfo)})
	}
	return r
}

func vfC04MetaView(m resultMetadata) vfC04M {
	return vfC04M{"flags": m.flags, "colcount": m.colCount, "paging": vfC04B2I(m.pagingState), "cols": vfC04ColsView(m.columns)}
}

func vfC04PayloadView(p map[string][]byte) []vfC04M {
	keys := make([]string, 0, len(p))
	for k := range p {
		keys = append(keys, k)
	}
	sort.Strings(keys) // byte order
	r := []vfC04M{}
	for _, k := range keys {
		r = append(r, vfC04M{"k": vfC04S2I(k), "null": p[k] == nil, "b": vfC04B2I(p[k])})
	}
	return r
}

// ---------------------------------------------------------------- errors

func vfC04ErrorMapView(em ErrorMap) []vfC04M {
	type ent struct {
		addr []byte
		code int
	}
	es := []ent{}
	for k, v := range em {
		ip := net.ParseIP(k)
		var a []byte
		if ip4 := ip.To4(); ip4 != nil {
			a = []byte(ip4)
		} else if ip != nil {
			a = []byte(ip.To16())
		} else {
			a = []byte(k) // not an address: shows up as a mismatch
		}
		es = append(es, ent{a, int(v)})
	}
	sort.Slice(es, func(i, j int) bool { return bytes.Compare(es[i].addr, es[j].addr) < 0 })
	r := []vfC04M{}
	for _, e := range es {
		r = append(r, vfC04M{"addr": vfC04B2I(e.addr), "code": e.code})
	}
	return r
}

func vfC04B2Int(b bool) int {
	if b {
		return 1
	}
	return 0
}

// vfC04ErrView maps the driver's error value to the uniform record of the specification.
func vfC04ErrView(e interface{}) (vfC04M, bool) {
	f := vfC04M{"etype": "", "code": 0, "msg": []int{}, "cl": 0, "n1": 0, "n2": 0, "n3": 0, "flag": 0,
		"s1": []int{}, "s2": []int{}, "list": [][]int{}, "id": []int{}, "rmap": []vfC04M{}}
	base := func(ef errorFrame, name string) {
		f["etype"] = name
		f["code"] = ef.Code()
		f["msg"] = vfC04S2I(ef.Message())
	}
	switch x := e.(type) {
	case errorFrame:
		base(x, "plain")
	case *errorFrame:
		base(*x, "plain")
	case *RequestErrUnavailable:
		base(x.errorFrame, "RequestErrUnavailable")
		f["cl"], f["n1"], f["n2"] = int(x.Consistency), x.Required, x.Alive
	case *RequestErrWriteTimeout:
		base(x.errorFrame, "RequestErrWriteTimeout")
		f["cl"], f["n1"], f["n2"], f["s1"] = int(x.Consistency), x.Received, x.BlockFor, vfC04S2I(x.WriteType)
	case *RequestErrReadTimeout:
		base(x.errorFrame, "RequestErrReadTimeout")
		f["cl"], f["n1"], f["n2"], f["flag"] = int(x.Consistency), x.Received, x.BlockFor, int(x.DataPresent)
	case *RequestErrReadFailure:
		base(x.errorFrame, "RequestErrReadFailure")
		f["cl"], f["n1"], f["n2"], f["n3"], f["flag"] = int(x.Consistency), x.Received, x.BlockFor, x.NumFailures, vfC04B2Int(x.DataPresent)
		f["rmap"] = vfC04ErrorMapView(x.ErrorMap)
	case *RequestErrWriteFailure:
		base(x.errorFrame, "RequestErrWriteFailure")
		f["cl"], f["n1"], f["n2"], f["n3"], f["s1"] = int(x.Consistency), x.Received, x.BlockFor, x.NumFailures, vfC04S2I(x.WriteType)
		f["rmap"] = vfC04ErrorMapView(x.ErrorMap)
	case *RequestErrFunctionFailure:
		base(x.errorFrame, "RequestErrFunctionFailure")
		f["s1"], f["s2"], f["list"] = vfC04S2I(x.Keyspace), vfC04S2I(x.Function), vfC04Strs(x.ArgTypes)
	case *RequestErrCDCWriteFailure:
		base(x.errorFrame, "RequestErrCDCWriteFailure")
	case *RequestErrCASWriteUnknown:
		base(x.errorFrame, "RequestErrCASWriteUnknown")
		f["cl"], f["n1"], f["n2"] = int(x.Consistency), x.Received, x.BlockFor
	case *RequestErrAlreadyExists:
		base(x.errorFrame, "RequestErrAlreadyExists")
		f["s1"], f["s2"] = vfC04S2I(x.Keyspace), vfC04S2I(x.Table)
	case *RequestErrUnprepared:
		base(x.errorFrame, "RequestErrUnprepared")
		f["id"] = vfC04B2I(x.StatementId)
	default:
		return f, false
	}
	return f, true
}

// ---------------------------------------------------------------- row consumers

// vfC04Raw is a scan destination that takes a cell exactly as the driver hands it over.
type vfC04Raw struct {
	null bool
	b    []byte
	set  bool
}

func (r *vfC04Raw) UnmarshalCQL(info TypeInfo, data []byte) error {
	r.set = true
	r.null = data == nil
	r.b = append([]byte{}, data...)
	return nil
}

// long values are shown in digest form (length, first, last), as in the specification
func vfC04ListR(xs []int) string {
	if len(xs) > 64 {
		return fmt.Sprintf("[#%d/%d/%d]", len(xs), xs[0], xs[len(xs)-1])
	}
	return "[" + vfC04Join(xs) + "]"
}

func vfC04BlobR(b []byte) string {
	if len(b) > 64 {
		return fmt.Sprintf("b#%d/%d/%d", len(b), b[0], b[len(b)-1])
	}
	return "b:" + vfC04Join(vfC04B2I(b))
}

func vfC04Join(xs []int) string {
	p := make([]string, len(xs))
	for i, x := range xs {
		p[i] = strconv.Itoa(x)
	}
	return strings.Join(p, ",")
}

// vfC04Render prints a scanned Go value in the notation of the specification.
func vfC04Render(v interface{}) string {
	switch x := v.(type) {
	case nil:
		return "null"
	case **int:
		if *x == nil {
			return "null"
		}
		return strconv.Itoa(**x)
	case **string:
		if *x == nil {
			return "null"
		}
		return "t:" + vfC04Join(vfC04S2I(**x))
	case **bool:
		if *x == nil {
			return "null"
		}
		return strconv.FormatBool(**x)
	case *[]int:
		if *x == nil {
			return "null"
		}
		return vfC04ListR(*x)
	case *[]byte:
		return vfC04BlobR(*x) // a []byte destination cannot tell null from empty
	case *map[int]int:
		if *x == nil {
			return "null"
		}
		return vfC04RenderMap(*x)
	case map[int]int:
		return vfC04RenderMap(x)
	case int:
		return strconv.Itoa(x)
	case string:
		return "t:" + vfC04Join(vfC04S2I(x))
	case bool:
		return strconv.FormatBool(x)
	case []int:
		return vfC04ListR(x)
	case []byte:
		return vfC04BlobR(x)
	}
	rv := reflect.ValueOf(v)
	return vfC04Ascii(fmt.Sprintf("?%s:%v", rv.Type(), v))
}

// ---------------------------------------------------------------- UDT destinations of every documented shape

// structs with cql tags for a UDT (f1 int, f2 text, f3 int): all fields, and partial ones
type vfC04TFull struct {
	A int    `cql:"f1"`
	B string `cql:"f2"`
	C int    `cql:"f3"`
}
type vfC04TNoLead struct {
	B string `cql:"f2"`
	C int    `cql:"f3"`
}
type vfC04TNoMid struct {
	A int `cql:"f1"`
	C int `cql:"f3"`
}
type vfC04TNoTrail struct {
	A int    `cql:"f1"`
	B string `cql:"f2"`
}
type vfC04TOnlyLast struct {
	C int `cql:"f3"`
}
type vfC04TOnlyMid struct {
	B string `cql:"f2"`
}

// structs matched by Go field name for a UDT ("Fa" int, "Fb" text, "Fc" int)
type vfC04NFull struct {
	Fa int
	Fb string
	Fc int
}
type vfC04NNoLead struct {
	Fb string
	Fc int
}
type vfC04NNoMid struct {
	Fa int
	Fc int
}
type vfC04NNoTrail struct {
	Fa int
	Fb string
}
type vfC04NOnlyLast struct {
	Fc int
}

// vfC04UdtU is a UDTUnmarshaler that keeps every field exactly as it was handed over.
type vfC04UdtU struct {
	got map[string]vfC04Raw
}

func (u *vfC04UdtU) UnmarshalUDT(name string, info TypeInfo, data []byte) error {
	if u.got == nil {
		u.got = map[string]vfC04Raw{}
	}
	u.got[name] = vfC04Raw{null: data == nil, b: append([]byte{}, data...), set: true}
	return nil
}

var vfC04Shapes = map[string]reflect.Type{
	"map":       reflect.TypeOf(map[string]interface{}{}),
	"udtu":      reflect.TypeOf(vfC04UdtU{}),
	"tfull":     reflect.TypeOf(vfC04TFull{}),
	"tnolead":   reflect.TypeOf(vfC04TNoLead{}),
	"tnomid":    reflect.TypeOf(vfC04TNoMid{}),
	"tnotrail":  reflect.TypeOf(vfC04TNoTrail{}),
	"tonlylast": reflect.TypeOf(vfC04TOnlyLast{}),
	"tonlymid":  reflect.TypeOf(vfC04TOnlyMid{}),
	"nfull":     reflect.TypeOf(vfC04NFull{}),
	"nnolead":   reflect.TypeOf(vfC04NNoLead{}),
	"nnomid":    reflect.TypeOf(vfC04NNoMid{}),
	"nnotrail":  reflect.TypeOf(vfC04NNoTrail{}),
	"nonlylast": reflect.TypeOf(vfC04NOnlyLast{}),
}

func vfC04UdtDest(kind, shape string) interface{} {
	t, ok := vfC04Shapes[shape]
	if !ok {
		panic("harness: unknown UDT shape " + shape)
	}
	switch kind {
	case "list_udt":
		t = reflect.SliceOf(t)
	case "map_int_udt":
		t = reflect.MapOf(reflect.TypeOf(int(0)), t)
	}
	return reflect.New(t).Interface()
}

func vfC04ZeroOf(kind string) string {
	if kind == "int" {
		return "0"
	}
	return "t:"
}

// vfC04RenderAny prints UDT values (struct of any shape, map, UDTUnmarshaler record) and
// lists / int-keyed maps of them in the notation of the specification.  A struct shows the
// fields it has; a map or a UDTUnmarshaler shows every field of the type, a missing key counting
// as the zero value / null.  ptr: nil collections are "null" (pointer destination), else empty.
func vfC04RenderAny(rv reflect.Value, fields []vfC04Field, ptr bool) string {
	for rv.Kind() == reflect.Ptr || rv.Kind() == reflect.Interface {
		if rv.IsNil() {
			return "null"
		}
		if rv.Kind() == reflect.Ptr && rv.Elem().Kind() == reflect.Struct && rv.CanInterface() {
			// *big.Int, *inf.Dec: as they print themselves
			if n := rv.Type().String(); n == "*big.Int" || n == "*inf.Dec" {
				return "s:" + vfC04Ascii(rv.Interface().(fmt.Stringer).String())
			}
		}
		rv = rv.Elem()
	}
	if rv.CanInterface() {
		switch x := rv.Interface().(type) {
		case time.Time:
			return "tm:" + strconv.FormatInt(x.UnixMilli(), 10)
		case UUID:
			return "u:" + vfC04Join(vfC04B2I(x[:]))
		case Duration:
			return fmt.Sprintf("dur:%d/%d/%d", x.Months, x.Days, x.Nanoseconds)
		}
	}
	switch rv.Kind() {
	case reflect.Float32:
		return "f32:" + strconv.FormatUint(uint64(math.Float32bits(float32(rv.Float()))), 10)
	case reflect.Float64:
		return "f64:" + strconv.FormatUint(math.Float64bits(rv.Float()), 10)
	case reflect.Int, reflect.Int8, reflect.Int16, reflect.Int32, reflect.Int64:
		return strconv.FormatInt(rv.Int(), 10)
	case reflect.String:
		return "t:" + vfC04Join(vfC04S2I(rv.String()))
	case reflect.Slice:
		if rv.Type().Elem().Kind() == reflect.Uint8 {
			return vfC04BlobR(rv.Bytes())
		}
		if rv.IsNil() {
			if ptr {
				return "null"
			}
			return "[]"
		}
		p := make([]string, rv.Len())
		for i := range p {
			p[i] = vfC04RenderAny(rv.Index(i), fields, ptr)
		}
		return "[" + strings.Join(p, ",") + "]"
	case reflect.Map:
		if rv.Type().Key().Kind() == reflect.String { // a UDT as map[string]interface{}
			p := []string{}
			for _, f := range fields {
				v := rv.MapIndex(reflect.ValueOf(f.Name))
				if !v.IsValid() {
					p = append(p, f.Name+"="+vfC04ZeroOf(f.Kind))
				} else {
					p = append(p, f.Name+"="+vfC04RenderAny(v, fields, ptr))
				}
			}
			if rv.Len() > len(fields) {
				p = append(p, fmt.Sprintf("?%d-keys", rv.Len()))
			}
			return "{" + strings.Join(p, ",") + "}"
		}
		if rv.IsNil() {
			if ptr {
				return "null"
			}
			return "{}"
		}
		keys := rv.MapKeys()
		sort.Slice(keys, func(i, j int) bool { return keys[i].Int() < keys[j].Int() })
		p := make([]string, len(keys))
		for i, k := range keys {
			p[i] = strconv.FormatInt(k.Int(), 10) + ":" + vfC04RenderAny(rv.MapIndex(k), fields, ptr)
		}
		return "{" + strings.Join(p, ",") + "}"
	case reflect.Struct:
		if rv.Type() == reflect.TypeOf(vfC04UdtU{}) {
			u := rv.Interface().(vfC04UdtU)
			p := []string{}
			for _, f := range fields {
				if r, ok := u.got[f.Name]; ok && !r.null {
					p = append(p, f.Name+"=b:"+vfC04Join(vfC04B2I(r.b)))
				} else {
					p = append(p, f.Name+"=null")
				}
			}
			return "{" + strings.Join(p, ",") + "}"
		}
		p := []string{}
		t := rv.Type()
		for _, f := range fields {
			for i := 0; i < t.NumField(); i++ {
				if t.Field(i).Tag.Get("cql") == f.Name || t.Field(i).Name == f.Name {
					p = append(p, f.Name+"="+vfC04RenderAny(rv.Field(i), fields, ptr))
				}
			}
		}
		return "{" + strings.Join(p, ",") + "}"
	}
	return vfC04Ascii(fmt.Sprintf("?%s", rv.Type()))
}

func vfC04IsUdtKind(kind string) bool {
	return kind == "udt" || kind == "list_udt" || kind == "map_int_udt"
}

func vfC04PlanFields(plan []vfC04Plan) []vfC04Field {
	for _, p := range plan {
		if len(p.Fields) > 0 {
			return p.Fields
		}
	}
	return nil
}

func vfC04RenderMap(m map[int]int) string {
	keys := make([]int, 0, len(m))
	for k := range m {
		keys = append(keys, k)
	}
	sort.Ints(keys)
	p := make([]string, len(keys))
	for i, k := range keys {
		p[i] = strconv.Itoa(k) + ":" + strconv.Itoa(m[k])
	}
	return "{" + strings.Join(p, ",") + "}"
}

func vfC04Dest(kind string) interface{} {
	switch kind {
	case "blob":
		return new([]byte)
	case "bigint":
		return new(int64)
	case "smallint":
		return new(int16)
	case "tinyint":
		return new(int8)
	case "float":
		return new(float32)
	case "double":
		return new(float64)
	case "timestamp", "date":
		return new(time.Time)
	case "time":
		return new(time.Duration)
	case "uuid":
		return new(UUID)
	case "inet":
		return new(string)
	case "duration":
		return new(Duration)
	case "varint", "decimal":
		// pointer to the arbitrary-precision type the driver itself pairs with the column type
		// (*big.Int, *inf.Dec) without importing it here
		t := TypeVarint
		if kind == "decimal" {
			t = TypeDecimal
		}
		d, err := NewNativeType(4, t, "").NewWithError()
		if err != nil {
			panic(err)
		}
		return d
	case "list_blob":
		return new([][]byte)
	case "map_int_blob":
		return new(map[int][]byte)
	case "map_int_int":
		return new(map[int]int)
	case "int":
		return new(*int)
	case "text":
		return new(*string)
	case "bool":
		return new(*bool)
	case "list_int":
		return new([]int)
	}
	return &vfC04Raw{}
}

// vfC04Dests builds the destinations for one row: raw ones (typed=false) or typed pointers.
func vfC04Dests(plan []vfC04Plan, typed bool) []interface{} {
	ds := []interface{}{}
	for _, p := range plan {
		if p.Kind == "tuple" {
			for _, e := range p.Elems {
				if typed && vfC04IsUdtKind(e) {
					ds = append(ds, vfC04UdtDest(e, p.Shape))
				} else if typed {
					ds = append(ds, vfC04Dest(e))
				} else {
					ds = append(ds, &vfC04Raw{})
				}
			}
		} else if typed && vfC04IsUdtKind(p.Kind) {
			ds = append(ds, vfC04UdtDest(p.Kind, p.Shape))
		} else if typed {
			ds = append(ds, vfC04Dest(p.Kind))
		} else {
			ds = append(ds, &vfC04Raw{})
		}
	}
	return ds
}

func vfC04RenderDest(v interface{}, fields []vfC04Field) string {
	s := vfC04Render(v)
	if strings.HasPrefix(s, "?") {
		rv := reflect.ValueOf(v)
		return vfC04RenderAny(rv, fields, rv.Kind() == reflect.Ptr)
	}
	return s
}

func vfC04RowOut(ds []interface{}, typed bool, fields []vfC04Field) interface{} {
	if typed {
		r := []string{}
		for _, d := range ds {
			r = append(r, vfC04RenderDest(d, fields))
			if u, ok := d.(*vfC04UdtU); ok {
				*u = vfC04UdtU{} // a reused record must not carry fields over to the next row
			}
		}
		return r
	}
	r := []vfC04M{}
	for _, d := range ds {
		x := d.(*vfC04Raw)
		r = append(r, vfC04M{"null": x.null || !x.set, "b": vfC04B2I(x.b)})
		*x = vfC04Raw{}
	}
	return r
}

func vfC04MapOut(m map[string]interface{}, fields []vfC04Field) []vfC04M {
	keys := make([]string, 0, len(m))
	for k := range m {
		keys = append(keys, k)
	}
	sort.Strings(keys)
	r := []vfC04M{}
	for _, k := range keys {
		r = append(r, vfC04M{"k": vfC04S2I(k), "v": vfC04RenderDest(m[k], fields)})
	}
	return r
}

func vfC04NoRun() vfC04M { return vfC04M{"run": false, "err": "", "rem": 0, "rows": []int{}} }

// vfC04Consume runs one consumer over a freshly opened iterator.  open returns the iterator
// and the framer whose buffer holds the rows content.
func vfC04Consume(which string, plan []vfC04Plan, open func() (*Iter, *framer, error)) (res vfC04M) {
	res = vfC04M{"run": true, "err": "", "rem": -1, "rows": []interface{}{}}
	defer func() {
		if r := recover(); r != nil {
			res["err"] = "panic: " + vfC04Ascii(fmt.Sprint(r))
		}
	}()
	iter, fr, err := open()
	if err != nil {
		res["err"] = "open: " + vfC04Ascii(err.Error())
		return
	}
	rows := []interface{}{}
	fields := vfC04PlanFields(plan)
	// a driver that mis-parses may report billions of rows; with no columns its own loops
	// would then spin without consuming anything: refuse (shows up as a mismatch)
	if iter.NumRows() > vfC04MaxRows {
		res["err"] = fmt.Sprintf("harness: refusing to iterate, NumRows=%d", iter.NumRows())
		return
	}
	limit := iter.NumRows() + 2
	var cerr error
	switch which {
	case "c_rawscan", "c_ptrscan":
		typed := which == "c_ptrscan"
		ds := vfC04Dests(plan, typed)
		for n := 0; n < limit && iter.Scan(ds...); n++ {
			rows = append(rows, vfC04RowOut(ds, typed, fields))
		}
		cerr = iter.err
	case "c_rawscanner", "c_ptrscanner":
		typed := which == "c_ptrscanner"
		ds := vfC04Dests(plan, typed)
		sc := iter.Scanner()
		for n := 0; n < limit && sc.Next(); n++ {
			if err := sc.Scan(ds...); err != nil {
				cerr = err
				break
			}
			rows = append(rows, vfC04RowOut(ds, typed, fields))
		}
		if fr != nil {
			res["rem"] = len(fr.buf)
		}
		if e := sc.Err(); e != nil && cerr == nil {
			cerr = e
		}
	case "c_keepscan":
		// new destinations for every row; they are only looked at after the last row was read
		kept := [][]interface{}{}
		for n := 0; n < limit; n++ {
			ds := vfC04Dests(plan, true)
			if !iter.Scan(ds...) {
				break
			}
			kept = append(kept, ds)
		}
		cerr = iter.err
		for _, ds := range kept {
			rows = append(rows, vfC04RowOut(ds, true, fields))
		}
	case "c_mapscan":
		// a new map per row (as documented); the maps are only looked at after the last row
		kept := []map[string]interface{}{}
		for n := 0; n < limit; n++ {
			m := map[string]interface{}{}
			if !iter.MapScan(m) {
				break
			}
			kept = append(kept, m)
		}
		cerr = iter.err
		for _, m := range kept {
			rows = append(rows, vfC04MapOut(m, fields))
		}
	case "c_slicemap":
		ms, err := iter.SliceMap()
		cerr = err
		for _, m := range ms {
			rows = append(rows, vfC04MapOut(m, fields))
		}
	}
	if res["rem"] == -1 && fr != nil {
		res["rem"] = len(fr.buf)
	}
	if cerr != nil {
		res["err"] = vfC04Ascii(cerr.Error())
	}
	res["rows"] = rows
	return
}

const vfC04MaxRows = 64

var vfC04Consumers = []string{"c_rawscan", "c_rawscanner", "c_ptrscan", "c_ptrscanner", "c_keepscan", "c_mapscan", "c_slicemap"}

func vfC04IsTyped(which string) bool { return which != "c_rawscan" && which != "c_rawscanner" }

// ---------------------------------------------------------------- framer-level path

type vfC04Parsed struct {
	head   frameHeader
	fr     *framer
	frame  frame
	perr   string
	panic_ string
}

// vfC04Parse pushes the bytes through the connection's receive steps: readHeader,
// newFramer+readFrame (decompresses), parseFrame.
func vfC04Parse(wire []byte, compressor Compressor) (p vfC04Parsed) {
	defer func() {
		if r := recover(); r != nil {
			p.panic_ = vfC04Ascii(fmt.Sprint(r))
		}
	}()
	rd := bytes.NewReader(wire)
	var hb [maxFrameHeaderSize]byte
	head, err := readHeader(rd, hb[:])
	if err != nil {
		p.perr = "readHeader: " + vfC04Ascii(err.Error())
		return
	}
	p.head = head
	fr := newFramer(compressor, byte(head.version))
	if err := fr.readFrame(rd, &head); err != nil {
		p.perr = "readFrame: " + vfC04Ascii(err.Error())
		return
	}
	p.fr = fr
	if rd.Len() != 0 {
		p.perr = fmt.Sprintf("readFrame left %d bytes of the frame unread", rd.Len())
		return
	}
	f, err := fr.parseFrame()
	if err != nil {
		p.perr = "parseFrame: " + vfC04Ascii(err.Error())
		return
	}
	p.frame = f
	return
}

func vfC04SchemaView(target, change, ks, name string, args []string) vfC04M {
	return vfC04M{"target": target, "change": vfC04S2I(change), "ks": vfC04S2I(ks), "name": vfC04S2I(name), "args": vfC04Strs(args)}
}

// vfC04FrameView: kind and kind-specific fields of a parsed frame.
func vfC04FrameView(f frame) (string, vfC04M) {
	switch x := f.(type) {
	case *readyFrame:
		return "ready", vfC04M{"x": 0}
	case *authenticateFrame:
		return "authenticate", vfC04M{"class": vfC04S2I(x.class)}
	case *authChallengeFrame:
		return "auth_challenge", vfC04M{"null": x.data == nil, "token": vfC04B2I(x.data)}
	case *authSuccessFrame:
		return "auth_success", vfC04M{"null": x.data == nil, "token": vfC04B2I(x.data)}
	case *supportedFrame:
		keys := make([]string, 0, len(x.supported))
		for k := range x.supported {
			keys = append(keys, k)
		}
		sort.Strings(keys)
		opts := []vfC04M{}
		for _, k := range keys {
			opts = append(opts, vfC04M{"k": vfC04S2I(k), "vals": vfC04Strs(x.supported[k])})
		}
		return "supported", vfC04M{"opts": opts}
	case *resultVoidFrame:
		return "void", vfC04M{"x": 0}
	case *resultKeyspaceFrame:
		return "set_keyspace", vfC04M{"ks": vfC04S2I(x.keyspace)}
	case *resultRowsFrame:
		mv := vfC04MetaView(x.meta)
		mv["nrows"] = x.numRows
		return "rows", mv
	case *resultPreparedFrame:
		pk := []int{}
		for _, i := range x.reqMeta.pkeyColumns {
			pk = append(pk, i)
		}
		return "prepared", vfC04M{"id": vfC04B2I(x.preparedID), "pk": pk, "req": vfC04MetaView(x.reqMeta.resultMetadata),
			"gks": vfC04S2I(x.reqMeta.keyspace), "gtable": vfC04S2I(x.reqMeta.table), "res": vfC04MetaView(x.respMeta)}
	case *schemaChangeKeyspace:
		return "schema_change", vfC04SchemaView("KEYSPACE", x.change, x.keyspace, "", nil)
	case *schemaChangeTable:
		return "schema_change", vfC04SchemaView("TABLE", x.change, x.keyspace, x.object, nil)
	case *schemaChangeType:
		return "schema_change", vfC04SchemaView("TYPE", x.change, x.keyspace, x.object, nil)
	case *schemaChangeFunction:
		return "schema_change", vfC04SchemaView("FUNCTION", x.change, x.keyspace, x.name, x.args)
	case *schemaChangeAggregate:
		return "schema_change", vfC04SchemaView("AGGREGATE", x.change, x.keyspace, x.name, x.args)
	case *topologyChangeEventFrame:
		return "topology_change", vfC04M{"change": vfC04S2I(x.change), "addr": vfC04B2I(x.host), "port": x.port}
	case *statusChangeEventFrame:
		return "status_change", vfC04M{"change": vfC04S2I(x.change), "addr": vfC04B2I(x.host), "port": x.port}
	}
	if ev, ok := vfC04ErrView(f); ok {
		return "error", ev
	}
	return vfC04Ascii(fmt.Sprintf("unknown:%T", f)), vfC04M{"x": 0}
}

func vfC04EmptyView(id int, mode string) vfC04M {
	return vfC04M{"id": id, "mode": mode, "panic": "", "perr": "", "hv": 0, "hresp": false, "hflags": 0, "hstream": 0,
		"hop": 0, "hlen": 0, "rem0": -1, "trace": []int{}, "warnings": [][]int{}, "payload": []vfC04M{}, "kind": "none",
		"f": vfC04M{"x": 0}}
}

// vfC04FramerView: the whole view of one case through the framer-level path.
func vfC04FramerView(c *vfC04Case, mode string) vfC04M {
	wire := vfC04I2B(c.Bytes)
	var comp Compressor
	if mode == "snappy" {
		wire = vfC04Compress(wire)
		comp = SnappyCompressor{}
	}
	v := vfC04EmptyView(c.ID, mode)
	p := vfC04Parse(wire, comp)
	v["panic"], v["perr"] = p.panic_, p.perr
	v["hv"], v["hresp"] = int(p.head.version.version()), p.head.version.response()
	v["hflags"], v["hstream"], v["hop"], v["hlen"] = int(p.head.flags), p.head.stream, int(p.head.op), p.head.length
	if mode == "snappy" {
		v["hlen"] = -1 // the compressed length is not something the specification decides
	}
	if p.fr == nil || p.frame == nil {
		return v
	}
	v["rem0"] = len(p.fr.buf)
	v["trace"] = vfC04B2I(p.fr.traceID)
	if p.fr.header != nil {
		v["warnings"] = vfC04Strs(p.fr.header.warnings)
	}
	v["payload"] = vfC04PayloadView(p.fr.customPayload)
	kind, f := vfC04FrameView(p.frame)
	v["kind"] = kind
	if rows, ok := p.frame.(*resultRowsFrame); ok {
		_ = rows
		for _, which := range vfC04Consumers {
			if !c.Cons || (vfC04IsTyped(which) && !c.Typed) {
				f[which] = vfC04NoRun()
				continue
			}
			f[which] = vfC04Consume(which, c.Plan, func() (*Iter, *framer, error) {
				q := vfC04Parse(wire, comp)
				if q.frame == nil {
					return nil, nil, fmt.Errorf("re-parse failed: %s %s", q.perr, q.panic_)
				}
				r, ok := q.frame.(*resultRowsFrame)
				if !ok {
					return nil, nil, fmt.Errorf("re-parse gave %T", q.frame)
				}
				// what Conn.executeQuery builds for a rows result whose metadata was not skipped
				return &Iter{meta: r.meta, framer: q.fr, numRows: r.numRows}, q.fr, nil
			})
		}
	}
	v["f"] = f
	return v
}
