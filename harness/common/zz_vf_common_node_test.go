package gocql

// Shared verification harness, part 4: a scripted in-memory Cassandra node / cluster and
// helpers to run a real Session (or a bare Conn) against it.

import (
	"context"
	"fmt"
	"io"
	"log"
	"net"
	"strings"
	"sync"
	"sync/atomic"
	"time"
)

// vfHostDesc describes one node of the scripted cluster as its peers report it.
type vfHostDesc struct {
	ID     string // host_id (UUID string)
	Addr   string // rpc / broadcast address (IPv4 literal)
	DC     string
	Rack   string
	Tokens []string
	// fields to make a peer row invalid on purpose
	NoTokens, NoRack, NoDC, NoHostID, NoRPC bool
}

// vfCluster is the mutable truth the control node reports.
type vfCluster struct {
	mu          sync.Mutex
	Partitioner string
	Version     string // release_version
	Hosts       []vfHostDesc
	// FailPeers makes system.peers answer with a server error
	FailPeers bool
	FailLocal bool
}

func (c *vfCluster) snapshot() (hosts []vfHostDesc, part, ver string, failLocal, failPeers bool) {
	c.mu.Lock()
	defer c.mu.Unlock()
	hosts = append(hosts, c.Hosts...)
	return hosts, c.Partitioner, c.Version, c.FailLocal, c.FailPeers
}

func (c *vfCluster) Set(hosts []vfHostDesc) {
	c.mu.Lock()
	c.Hosts = append([]vfHostDesc(nil), hosts...)
	c.mu.Unlock()
}

// vfNodeConn is the node's end of one connection.
type vfNodeConn struct {
	Node    *vfNode
	Conn    *vfMemConn
	ID      int
	sendq   chan vfSendItem
	quit    chan struct{}
	once    sync.Once
	Version byte
	Keyspace string
	Registered []string
	Compression string
	closed  int32
}

// vfSendItem is one unit of output: b is written as a whole, or - when splitAt > 0 - its first
// splitAt bytes, then a pause, then the rest (nothing else is written in between).
type vfSendItem struct {
	b       []byte
	splitAt int
	pause   time.Duration
}

// Send enqueues raw bytes to be written to the driver (never blocks the reader).
func (nc *vfNodeConn) Send(b []byte) {
	select {
	case nc.sendq <- vfSendItem{b: b}:
	case <-nc.quit:
	}
}

// SendSplit writes b[:k], stalls for pause, then writes the rest: a response that arrives in two
// pieces with a gap (e.g. longer than the driver's read deadline).
func (nc *vfNodeConn) SendSplit(b []byte, k int, pause time.Duration) {
	select {
	case nc.sendq <- vfSendItem{b: b, splitAt: k, pause: pause}:
	case <-nc.quit:
	}
}

// Reply sends a response frame for the request's stream.
func (nc *vfNodeConn) Reply(req *vfFrame, op byte, body []byte) {
	if nc.Node != nil && nc.Node.Compress != nil {
		// a node that compresses its answers on connections that negotiated compression
		if cb, ok := nc.Node.Compress(nc, op, body); ok {
			nc.Send(vfEncodeFrame(req.Version, 0x01, req.Stream, op, cb))
			return
		}
	}
	nc.Send(vfEncodeFrame(req.Version, 0, req.Stream, op, body))
}

func (nc *vfNodeConn) ReplyFlags(req *vfFrame, flags byte, op byte, body []byte) {
	nc.Send(vfEncodeFrame(req.Version, flags, req.Stream, op, body))
}

// Event pushes an EVENT frame (stream -1).
func (nc *vfNodeConn) Event(body []byte) {
	v := nc.Version
	if v == 0 {
		v = 4
	}
	nc.Send(vfEncodeFrame(v, 0, -1, vfOpEvent, body))
}

func (nc *vfNodeConn) Close() {
	nc.once.Do(func() {
		atomic.StoreInt32(&nc.closed, 1)
		close(nc.quit)
		nc.Conn.Close()
	})
}

// vfNode is one scripted node. Handler is invoked on the connection's reader goroutine for
// every request frame; returning false falls through to the default behaviour (handshake,
// system tables, USE, void results).
type vfNode struct {
	Desc    vfHostDesc
	Cluster *vfCluster
	Addr    *net.TCPAddr

	mu       sync.Mutex
	conns    []*vfNodeConn
	nextConn int
	Down     bool // refuse new connections
	dials    int
	closes   int

	Handler func(nc *vfNodeConn, f *vfFrame, q *vfRequest) bool
	// OnFrame observes every frame read from the driver (after parsing), before handling.
	OnFrame func(nc *vfNodeConn, f *vfFrame, q *vfRequest)
	// Supported overrides the SUPPORTED options.
	Supported map[string][]string
	// AuthClass != "" makes STARTUP answer AUTHENTICATE(class) and expects AUTH_RESPONSE.
	AuthClass string
	// BufferLimit bounds the in-memory pipe in each direction (0 = unbounded).
	BufferLimit int
	// Decompress, when set, is applied to request bodies that carry the compression flag.
	Decompress func(name string, body []byte) ([]byte, error)
	// Compress, when set, may turn the body of an answer into its compressed form (ok = send it flagged).
	Compress func(nc *vfNodeConn, op byte, body []byte) (out []byte, ok bool)
	Tracer   *vfTracer
}

func vfNewNode(cluster *vfCluster, desc vfHostDesc) *vfNode {
	return &vfNode{Desc: desc, Cluster: cluster, Addr: &net.TCPAddr{IP: net.ParseIP(desc.Addr), Port: 9042}}
}

func (n *vfNode) Conns() []*vfNodeConn {
	n.mu.Lock()
	defer n.mu.Unlock()
	return append([]*vfNodeConn(nil), n.conns...)
}

// OpenConns returns the connections whose driver end has not been closed.
func (n *vfNode) OpenConns() int {
	k := 0
	for _, nc := range n.Conns() {
		if !nc.Conn.IsClosed() && atomic.LoadInt32(&nc.closed) == 0 {
			k++
		}
	}
	return k
}

func (n *vfNode) Dials() int {
	n.mu.Lock()
	defer n.mu.Unlock()
	return n.dials
}

// Dial creates a connection to this node and returns the driver's end.
func (n *vfNode) Dial() (*vfMemConn, *vfNodeConn, error) {
	n.mu.Lock()
	if n.Down {
		n.mu.Unlock()
		return nil, nil, &net.OpError{Op: "dial", Net: "tcp", Addr: n.Addr, Err: fmt.Errorf("vf: connection refused")}
	}
	n.nextConn++
	id := n.nextConn
	n.dials++
	n.mu.Unlock()
	d, s := vfNewMemPair(n.Addr, n.BufferLimit)
	nc := &vfNodeConn{Node: n, Conn: s, ID: id, sendq: make(chan vfSendItem, 4096), quit: make(chan struct{})}
	d.onClose = func() {
		n.mu.Lock()
		n.closes++
		n.mu.Unlock()
	}
	n.mu.Lock()
	n.conns = append(n.conns, nc)
	n.mu.Unlock()
	go nc.writer()
	go nc.reader()
	return d, nc, nil
}

// CloseAll closes every connection from the node side.
func (n *vfNode) CloseAll() {
	for _, nc := range n.Conns() {
		nc.Close()
	}
}

func (nc *vfNodeConn) writer() {
	for {
		select {
		case it := <-nc.sendq:
			if it.splitAt > 0 && it.splitAt < len(it.b) {
				if _, err := nc.Conn.Write(it.b[:it.splitAt]); err != nil {
					return
				}
				select {
				case <-time.After(it.pause):
				case <-nc.quit:
					return
				}
				if _, err := nc.Conn.Write(it.b[it.splitAt:]); err != nil {
					return
				}
				continue
			}
			if _, err := nc.Conn.Write(it.b); err != nil {
				return
			}
		case <-nc.quit:
			// flush what is already queued, best effort
			for {
				select {
				case it := <-nc.sendq:
					nc.Conn.Write(it.b)
				default:
					return
				}
			}
		}
	}
}

func (nc *vfNodeConn) reader() {
	defer nc.Close()
	for {
		f, err := vfReadFrame(nc.Conn)
		if err != nil {
			if err != io.EOF && nc.Node.Tracer != nil {
				nc.Node.Tracer.Emit("n_readerr", "nconn", nc.ID)
			}
			return
		}
		if nc.Version == 0 {
			nc.Version = f.Version
		}
		if f.Flags&0x01 != 0 && nc.Node.Decompress != nil {
			if b, err := nc.Node.Decompress(nc.Compression, f.Body); err == nil {
				f.Body = b
			}
		}
		q := vfParseRequest(f)
		if nc.Node.OnFrame != nil {
			nc.Node.OnFrame(nc, f, q)
		}
		if nc.Node.Handler != nil && nc.Node.Handler(nc, f, q) {
			continue
		}
		nc.Node.defaultHandle(nc, f, q)
	}
}

var vfLocalCols = []vfCol{
	{"key", vfTVarchar}, {"cluster_name", vfTVarchar}, {"data_center", vfTVarchar}, {"rack", vfTVarchar},
	{"host_id", vfTUUID}, {"release_version", vfTVarchar}, {"partitioner", vfTVarchar},
	{"rpc_address", vfTInet}, {"broadcast_address", vfTInet}, {"tokens", vfTSet}, {"schema_version", vfTUUID},
}

var vfPeerCols = []vfCol{
	{"peer", vfTInet}, {"data_center", vfTVarchar}, {"rack", vfTVarchar}, {"host_id", vfTUUID},
	{"release_version", vfTVarchar}, {"rpc_address", vfTInet}, {"tokens", vfTSet}, {"schema_version", vfTUUID},
}

func vfSetCell(version byte, l []string) []byte {
	w := &vfW{}
	if version <= 2 {
		w.Short(len(l))
		for _, s := range l {
			w.ShortBytes([]byte(s))
		}
		return w.b
	}
	w.Int(int32(len(l)))
	for _, s := range l {
		w.Bytes([]byte(s))
	}
	return w.b
}

var vfSchemaVersion, _ = ParseUUID("11111111-1111-1111-1111-111111111111")

func vfMustUUID(s string) UUID {
	u, err := ParseUUID(s)
	if err != nil {
		panic(err)
	}
	return u
}

func (n *vfNode) defaultHandle(nc *vfNodeConn, f *vfFrame, q *vfRequest) {
	switch f.Op {
	case vfOpOptions:
		sup := n.Supported
		if sup == nil {
			sup = map[string][]string{"CQL_VERSION": {"3.4.5"}, "COMPRESSION": {"snappy", "lz4"}}
		}
		order := []string{}
		for _, k := range []string{"CQL_VERSION", "COMPRESSION", "PROTOCOL_VERSIONS"} {
			if _, ok := sup[k]; ok {
				order = append(order, k)
			}
		}
		for k := range sup {
			found := false
			for _, o := range order {
				if o == k {
					found = true
				}
			}
			if !found {
				order = append(order, k)
			}
		}
		nc.Reply(f, vfOpSupported, vfSupportedBody(sup, order))
	case vfOpStartup:
		nc.Compression = q.Startup["COMPRESSION"]
		if n.AuthClass != "" {
			nc.Reply(f, vfOpAuthenticate, (&vfW{}).String(n.AuthClass).b)
		} else {
			nc.Reply(f, vfOpReady, nil)
		}
	case vfOpAuthResponse:
		nc.Reply(f, vfOpAuthSuccess, (&vfW{}).Bytes(nil).b)
	case vfOpRegister:
		nc.Registered = q.Register
		nc.Reply(f, vfOpReady, nil)
	case vfOpQuery:
		n.defaultQuery(nc, f, q)
	case vfOpPrepare:
		nc.Reply(f, vfOpResult, vfPreparedBody(f.Version, []byte("id:"+q.Stmt), "ks", "tbl", strings.Count(q.Stmt, "?"), []vfCol{{"v", vfTInt}}))
	case vfOpExecute, vfOpBatch:
		nc.Reply(f, vfOpResult, vfVoidBody())
	default:
		nc.Reply(f, vfOpError, vfErrorBody(0x000A, "vf: unexpected opcode", nil))
	}
}

func (n *vfNode) defaultQuery(nc *vfNodeConn, f *vfFrame, q *vfRequest) {
	stmt := q.Stmt
	low := strings.ToLower(stmt)
	switch {
	case strings.HasPrefix(low, "use "):
		ks := strings.Trim(strings.TrimSpace(stmt[4:]), `"`)
		nc.Keyspace = ks
		nc.Reply(f, vfOpResult, vfSetKeyspaceBody(ks))
	case strings.Contains(low, "system.local"):
		hosts, part, ver, failLocal, _ := n.Cluster.snapshot()
		if failLocal {
			nc.Reply(f, vfOpError, vfErrorBody(0x0000, "vf: local unavailable", nil))
			return
		}
		_ = hosts
		d := n.Desc
		// the node's own current description (may have been changed in the cluster truth)
		for _, h := range hosts {
			if h.ID == d.ID {
				d = h
			}
		}
		row := [][]byte{vfCellText("local"), vfCellText("vf"), vfCellText(d.DC), vfCellText(d.Rack),
			vfCellUUID(vfMustUUID(d.ID)), vfCellText(ver), vfCellText(part),
			vfCellInet(net.ParseIP(d.Addr)), vfCellInet(net.ParseIP(d.Addr)), vfSetCell(f.Version, d.Tokens), vfCellUUID(vfSchemaVersion)}
		nc.Reply(f, vfOpResult, vfRowsBody(f.Version, "system", "local", vfLocalCols, [][][]byte{row}, nil, false))
	case strings.Contains(low, "system.peers_v2"):
		nc.Reply(f, vfOpError, vfErrorBody(0x2200, "unconfigured table peers_v2", nil))
	case strings.Contains(low, "system.peers"):
		hosts, _, ver, _, failPeers := n.Cluster.snapshot()
		if failPeers {
			nc.Reply(f, vfOpError, vfErrorBody(0x0000, "vf: peers unavailable", nil))
			return
		}
		var rows [][][]byte
		for _, h := range hosts {
			if h.ID == n.Desc.ID {
				continue
			}
			row := [][]byte{vfCellInet(net.ParseIP(h.Addr)), vfCellText(h.DC), vfCellText(h.Rack), vfCellUUID(vfMustUUID(h.ID)),
				vfCellText(ver), vfCellInet(net.ParseIP(h.Addr)), vfSetCell(f.Version, h.Tokens), vfCellUUID(vfSchemaVersion)}
			if h.NoDC {
				row[1] = nil
			}
			if h.NoRack {
				row[2] = nil
			}
			if h.NoHostID {
				row[3] = nil
			}
			if h.NoRPC {
				row[5] = nil
			}
			if h.NoTokens {
				row[6] = nil
			}
			rows = append(rows, row)
		}
		nc.Reply(f, vfOpResult, vfRowsBody(f.Version, "system", "peers", vfPeerCols, rows, nil, false))
	case strings.Contains(low, "system_schema") || strings.Contains(low, "system.schema"):
		nc.Reply(f, vfOpResult, vfRowsBody(f.Version, "system_schema", "keyspaces", []vfCol{{"keyspace_name", vfTVarchar}}, nil, nil, false))
	default:
		nc.Reply(f, vfOpResult, vfVoidBody())
	}
}

// ---------------------------------------------------------------- dialer, sessions

// vfDialer implements HostDialer over a set of scripted nodes, keyed by connect address.
type vfDialer struct {
	mu    sync.Mutex
	nodes map[string]*vfNode // by IP string
	// OnDial observes every attempt.
	OnDial func(addr string, n *vfNode, err error)
	DisableCoalesce bool
	// last driver-side conns by node address (most recent last)
	DriverConns map[string][]*vfMemConn
}

func vfNewDialer(nodes ...*vfNode) *vfDialer {
	d := &vfDialer{nodes: map[string]*vfNode{}, DriverConns: map[string][]*vfMemConn{}}
	for _, n := range nodes {
		d.nodes[n.Addr.IP.String()] = n
	}
	return d
}

func (d *vfDialer) AddNode(n *vfNode) {
	d.mu.Lock()
	d.nodes[n.Addr.IP.String()] = n
	d.mu.Unlock()
}

func (d *vfDialer) Node(ip string) *vfNode {
	d.mu.Lock()
	defer d.mu.Unlock()
	return d.nodes[net.ParseIP(ip).String()]
}

func (d *vfDialer) DialHost(ctx context.Context, host *HostInfo) (*DialedHost, error) {
	ip := host.ConnectAddress().String()
	d.mu.Lock()
	n := d.nodes[ip]
	d.mu.Unlock()
	if n == nil {
		err := &net.OpError{Op: "dial", Net: "tcp", Err: fmt.Errorf("vf: no route to %s", ip)}
		if d.OnDial != nil {
			d.OnDial(ip, nil, err)
		}
		return nil, err
	}
	c, _, err := n.Dial()
	if d.OnDial != nil {
		d.OnDial(ip, n, err)
	}
	if err != nil {
		return nil, err
	}
	d.mu.Lock()
	d.DriverConns[ip] = append(d.DriverConns[ip], c)
	d.mu.Unlock()
	return &DialedHost{Conn: c, DisableCoalesce: d.DisableCoalesce}, nil
}

type vfQuietLogger struct{}

func (vfQuietLogger) Print(v ...interface{})                 {}
func (vfQuietLogger) Printf(format string, v ...interface{}) {}
func (vfQuietLogger) Println(v ...interface{})               {}

var _ = log.Printf

// vfClusterConfig returns a ClusterConfig wired to the scripted nodes.
func vfClusterConfig(d *vfDialer, proto int, contact ...string) *ClusterConfig {
	cfg := NewCluster(contact...)
	cfg.ProtoVersion = proto
	cfg.HostDialer = d
	cfg.Timeout = 300 * time.Millisecond
	cfg.ConnectTimeout = 2 * time.Second
	cfg.NumConns = 1
	cfg.Logger = vfQuietLogger{}
	cfg.ReconnectInterval = 0
	cfg.DisableSkipMetadata = true
	cfg.WriteCoalesceWaitTime = 0
	return cfg
}

// vfSingleNodeSession: one scripted node, no control connection, one connection.
func vfSingleNodeSession(n *vfNode, proto int, mod func(*ClusterConfig)) (*Session, *vfDialer, error) {
	d := vfNewDialer(n)
	cfg := vfClusterConfig(d, proto, n.Desc.Addr)
	cfg.disableControlConn = true
	cfg.DisableInitialHostLookup = true
	if mod != nil {
		mod(cfg)
	}
	s, err := NewSession(*cfg)
	return s, d, err
}

// vfBareConn dials one real *Conn to the node through the session-less path used by the
// pools (Session.connect needs a session: a minimal one is created without hosts).
func vfDesc(i int) vfHostDesc {
	return vfHostDesc{ID: fmt.Sprintf("00000000-0000-0000-0000-%012d", i), Addr: fmt.Sprintf("10.0.0.%d", i), DC: "dc1", Rack: "r1",
		Tokens: []string{fmt.Sprintf("%d", i*1000)}}
}
