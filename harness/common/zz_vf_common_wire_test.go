package gocql

// Shared verification harness, part 3: a small CQL binary-protocol reader/writer written
// from the native protocol specification, independent of the driver's framer. It only
// operates the scripted node (parse requests, build responses); it is not an oracle.

import (
	"encoding/binary"
	"errors"
	"fmt"
	"io"
	"net"
)

const (
	vfOpError         = 0x00
	vfOpStartup       = 0x01
	vfOpReady         = 0x02
	vfOpAuthenticate  = 0x03
	vfOpOptions       = 0x05
	vfOpSupported     = 0x06
	vfOpQuery         = 0x07
	vfOpResult        = 0x08
	vfOpPrepare       = 0x09
	vfOpExecute       = 0x0A
	vfOpRegister      = 0x0B
	vfOpEvent         = 0x0C
	vfOpBatch         = 0x0D
	vfOpAuthChallenge = 0x0E
	vfOpAuthResponse  = 0x0F
	vfOpAuthSuccess   = 0x10
)

// vfFrame is a raw frame as seen on the wire.
type vfFrame struct {
	Version byte // without the direction bit
	Resp    bool
	Flags   byte
	Stream  int
	Op      byte
	Body    []byte
	Raw     []byte // header + body exactly as read
}

func vfHeaderLen(version byte) int {
	if version&0x7f > 2 {
		return 9
	}
	return 8
}

// vfReadFrame reads one frame. The protocol version of the first byte decides the header size.
func vfReadFrame(r io.Reader) (*vfFrame, error) {
	var first [1]byte
	if _, err := io.ReadFull(r, first[:]); err != nil {
		return nil, err
	}
	hl := vfHeaderLen(first[0])
	head := make([]byte, hl)
	head[0] = first[0]
	if _, err := io.ReadFull(r, head[1:]); err != nil {
		return nil, err
	}
	f := &vfFrame{Version: head[0] & 0x7f, Resp: head[0]&0x80 != 0, Flags: head[1]}
	var n uint32
	if hl == 9 {
		f.Stream = int(int16(binary.BigEndian.Uint16(head[2:4])))
		f.Op = head[4]
		n = binary.BigEndian.Uint32(head[5:9])
	} else {
		f.Stream = int(int8(head[2]))
		f.Op = head[3]
		n = binary.BigEndian.Uint32(head[4:8])
	}
	if n > 256<<20 {
		return nil, fmt.Errorf("vf: frame too large: %d", n)
	}
	f.Body = make([]byte, n)
	if _, err := io.ReadFull(r, f.Body); err != nil {
		return nil, err
	}
	f.Raw = append(head, f.Body...)
	return f, nil
}

// vfSplitFrames parses a byte stream written by the driver into frames; rest is the
// trailing incomplete part (possibly empty).
func vfSplitFrames(b []byte) (frames []*vfFrame, rest []byte, err error) {
	for len(b) > 0 {
		hl := vfHeaderLen(b[0])
		if len(b) < hl {
			return frames, b, nil
		}
		var n int
		if hl == 9 {
			n = int(binary.BigEndian.Uint32(b[5:9]))
		} else {
			n = int(binary.BigEndian.Uint32(b[4:8]))
		}
		if n < 0 || n > 256<<20 {
			return frames, b, errors.New("vf: implausible frame length")
		}
		if len(b) < hl+n {
			return frames, b, nil
		}
		f := &vfFrame{Version: b[0] & 0x7f, Resp: b[0]&0x80 != 0, Flags: b[1]}
		if hl == 9 {
			f.Stream = int(int16(binary.BigEndian.Uint16(b[2:4])))
			f.Op = b[4]
		} else {
			f.Stream = int(int8(b[2]))
			f.Op = b[3]
		}
		f.Body = b[hl : hl+n]
		f.Raw = b[:hl+n]
		frames = append(frames, f)
		b = b[hl+n:]
	}
	return frames, nil, nil
}

// vfEncodeFrame builds a response frame.
func vfEncodeFrame(version byte, flags byte, stream int, op byte, body []byte) []byte {
	v := version & 0x7f
	var out []byte
	if v > 2 {
		out = make([]byte, 9, 9+len(body))
		out[0] = v | 0x80
		out[1] = flags
		binary.BigEndian.PutUint16(out[2:4], uint16(int16(stream)))
		out[4] = op
		binary.BigEndian.PutUint32(out[5:9], uint32(len(body)))
	} else {
		out = make([]byte, 8, 8+len(body))
		out[0] = v | 0x80
		out[1] = flags
		out[2] = byte(int8(stream))
		out[3] = op
		binary.BigEndian.PutUint32(out[4:8], uint32(len(body)))
	}
	return append(out, body...)
}

// ---------------------------------------------------------------- body writer

type vfW struct{ b []byte }

func (w *vfW) Byte(v byte) *vfW  { w.b = append(w.b, v); return w }
func (w *vfW) Short(v int) *vfW  { w.b = append(w.b, byte(v>>8), byte(v)); return w }
func (w *vfW) Int(v int32) *vfW  { w.b = append(w.b, byte(v>>24), byte(v>>16), byte(v>>8), byte(v)); return w }
func (w *vfW) Long(v int64) *vfW { w.Int(int32(v >> 32)); w.Int(int32(v)); return w }
func (w *vfW) String(s string) *vfW {
	w.Short(len(s))
	w.b = append(w.b, s...)
	return w
}
func (w *vfW) LongString(s string) *vfW {
	w.Int(int32(len(s)))
	w.b = append(w.b, s...)
	return w
}
func (w *vfW) Bytes(p []byte) *vfW {
	if p == nil {
		return w.Int(-1)
	}
	w.Int(int32(len(p)))
	w.b = append(w.b, p...)
	return w
}
func (w *vfW) ShortBytes(p []byte) *vfW {
	w.Short(len(p))
	w.b = append(w.b, p...)
	return w
}
func (w *vfW) StringList(l []string) *vfW {
	w.Short(len(l))
	for _, s := range l {
		w.String(s)
	}
	return w
}
func (w *vfW) StringMultiMap(m map[string][]string, order []string) *vfW {
	w.Short(len(m))
	for _, k := range order {
		w.String(k)
		w.StringList(m[k])
	}
	return w
}
func (w *vfW) Inet(ip net.IP, port int) *vfW {
	if v4 := ip.To4(); v4 != nil {
		ip = v4
	}
	w.Byte(byte(len(ip)))
	w.b = append(w.b, ip...)
	w.Int(int32(port))
	return w
}
func (w *vfW) Raw(p []byte) *vfW { w.b = append(w.b, p...); return w }

// ---------------------------------------------------------------- body reader

type vfR struct {
	b   []byte
	err error
}

func (r *vfR) need(n int) bool {
	if r.err != nil {
		return false
	}
	if n < 0 || len(r.b) < n {
		r.err = errors.New("vf: short body")
		return false
	}
	return true
}
func (r *vfR) Byte() byte {
	if !r.need(1) {
		return 0
	}
	v := r.b[0]
	r.b = r.b[1:]
	return v
}
func (r *vfR) Short() int {
	if !r.need(2) {
		return 0
	}
	v := int(binary.BigEndian.Uint16(r.b))
	r.b = r.b[2:]
	return v
}
func (r *vfR) Int() int32 {
	if !r.need(4) {
		return 0
	}
	v := int32(binary.BigEndian.Uint32(r.b))
	r.b = r.b[4:]
	return v
}
func (r *vfR) Long() int64 {
	if !r.need(8) {
		return 0
	}
	v := int64(binary.BigEndian.Uint64(r.b))
	r.b = r.b[8:]
	return v
}
func (r *vfR) String() string {
	n := r.Short()
	if !r.need(n) {
		return ""
	}
	s := string(r.b[:n])
	r.b = r.b[n:]
	return s
}
func (r *vfR) LongString() string {
	n := int(r.Int())
	if !r.need(n) {
		return ""
	}
	s := string(r.b[:n])
	r.b = r.b[n:]
	return s
}

// Bytes returns (value, kind) with kind 0 = value, -1 = null, -2 = unset.
func (r *vfR) Bytes() ([]byte, int) {
	n := int(r.Int())
	if n < 0 {
		return nil, n
	}
	if !r.need(n) {
		return nil, 0
	}
	p := r.b[:n:n]
	r.b = r.b[n:]
	return p, 0
}
func (r *vfR) ShortBytes() []byte {
	n := r.Short()
	if !r.need(n) {
		return nil
	}
	p := r.b[:n:n]
	r.b = r.b[n:]
	return p
}
func (r *vfR) StringMap() map[string]string {
	n := r.Short()
	m := map[string]string{}
	for i := 0; i < n && r.err == nil; i++ {
		k := r.String()
		m[k] = r.String()
	}
	return m
}
func (r *vfR) StringList() []string {
	n := r.Short()
	l := []string{}
	for i := 0; i < n && r.err == nil; i++ {
		l = append(l, r.String())
	}
	return l
}

// ---------------------------------------------------------------- request view

// vfRequest is what the scripted node understands of a request frame.
type vfRequest struct {
	Frame     *vfFrame
	Stmt      string   // QUERY / PREPARE statement
	PreparedID []byte  // EXECUTE
	Cons      int
	QFlags    int
	Values    [][]byte // bound values (nil = null)
	ValueKinds []int   // 0 value, -1 null, -2 unset
	PageSize  int
	PageState []byte
	HasPageSize bool
	Startup   map[string]string
	AuthToken []byte
	Register  []string
	BatchN    int
	BatchIDs  [][]byte  // prepared ids of the batch entries (nil for string entries)
	BatchStmts []string
	BatchValueCounts []int
	Err       error
}

// vfParseRequest decodes the parts of a request the scripted node needs. body must be
// uncompressed and without the custom-payload prefix handled by the caller.
func vfParseRequest(f *vfFrame) *vfRequest {
	q := &vfRequest{Frame: f}
	body := f.Body
	r := &vfR{b: body}
	v := f.Version
	if f.Flags&0x04 != 0 && v >= 4 { // custom payload: [bytes map]
		n := r.Short()
		for i := 0; i < n && r.err == nil; i++ {
			r.String()
			r.Bytes()
		}
	}
	readParams := func() {
		q.Cons = r.Short()
		if v == 1 {
			return
		}
		if v >= 5 {
			q.QFlags = int(r.Int())
		} else {
			q.QFlags = int(r.Byte())
		}
		if q.QFlags&0x01 != 0 {
			n := r.Short()
			for i := 0; i < n && r.err == nil; i++ {
				if q.QFlags&0x40 != 0 {
					r.String()
				}
				p, k := r.Bytes()
				q.Values = append(q.Values, p)
				q.ValueKinds = append(q.ValueKinds, k)
			}
		}
		if q.QFlags&0x04 != 0 {
			q.PageSize = int(r.Int())
			q.HasPageSize = true
		}
		if q.QFlags&0x08 != 0 {
			q.PageState, _ = r.Bytes()
		}
	}
	switch f.Op {
	case vfOpStartup:
		q.Startup = r.StringMap()
	case vfOpAuthResponse:
		q.AuthToken, _ = r.Bytes()
	case vfOpRegister:
		q.Register = r.StringList()
	case vfOpQuery:
		q.Stmt = r.LongString()
		readParams()
	case vfOpPrepare:
		q.Stmt = r.LongString()
	case vfOpExecute:
		q.PreparedID = r.ShortBytes()
		if v == 1 {
			n := r.Short()
			for i := 0; i < n && r.err == nil; i++ {
				p, k := r.Bytes()
				q.Values = append(q.Values, p)
				q.ValueKinds = append(q.ValueKinds, k)
			}
			q.Cons = r.Short()
		} else {
			readParams()
		}
	case vfOpBatch:
		r.Byte()
		q.BatchN = r.Short()
		for i := 0; i < q.BatchN && r.err == nil; i++ {
			kind := r.Byte()
			if kind == 0 {
				q.BatchStmts = append(q.BatchStmts, r.LongString())
				q.BatchIDs = append(q.BatchIDs, nil)
			} else {
				q.BatchStmts = append(q.BatchStmts, "")
				q.BatchIDs = append(q.BatchIDs, r.ShortBytes())
			}
			n := r.Short()
			for j := 0; j < n && r.err == nil; j++ {
				r.Bytes()
			}
			q.BatchValueCounts = append(q.BatchValueCounts, n)
		}
		q.Cons = r.Short()
	}
	q.Err = r.err
	return q
}

// ---------------------------------------------------------------- response bodies

// CQL native type ids used by the node's result sets.
const (
	vfTAscii   = 0x0001
	vfTBigint  = 0x0002
	vfTBlob    = 0x0003
	vfTBoolean = 0x0004
	vfTInt     = 0x0009
	vfTVarchar = 0x000D
	vfTUUID    = 0x000C
	vfTInet    = 0x0010
	vfTSet     = 0x0022
)

type vfCol struct {
	Name string
	Type int // native id; vfTSet means set<varchar>
}

func vfTypeOption(w *vfW, t int) {
	w.Short(t)
	if t == vfTSet {
		w.Short(vfTVarchar)
	}
}

// vfRowsBody builds a RESULT/Rows body. cells[i][j] == nil encodes null. pagingState nil = last page.
func vfRowsBody(version byte, ks, table string, cols []vfCol, cells [][][]byte, pagingState []byte, noMetadata bool) []byte {
	w := &vfW{}
	w.Int(2)
	flags := int32(0x01)
	if pagingState != nil {
		flags |= 0x02
	}
	if noMetadata {
		flags = flags&^0x01 | 0x04
	}
	w.Int(flags)
	w.Int(int32(len(cols)))
	if pagingState != nil {
		w.Bytes(pagingState)
	}
	if !noMetadata {
		w.String(ks).String(table)
		for _, c := range cols {
			w.String(c.Name)
			vfTypeOption(w, c.Type)
		}
	}
	w.Int(int32(len(cells)))
	for _, row := range cells {
		for _, cell := range row {
			w.Bytes(cell)
		}
	}
	return w.b
}

func vfVoidBody() []byte { return (&vfW{}).Int(1).b }

func vfSetKeyspaceBody(ks string) []byte { return (&vfW{}).Int(3).String(ks).b }

// vfPreparedBody builds RESULT/Prepared for a statement with nBind bind markers (all int) and
// result columns cols.
func vfPreparedBody(version byte, id []byte, ks, table string, nBind int, cols []vfCol) []byte {
	w := &vfW{}
	w.Int(4)
	w.ShortBytes(id)
	// request metadata
	w.Int(0x01).Int(int32(nBind))
	if version >= 4 {
		w.Int(0) // pk count
	}
	w.String(ks).String(table)
	for i := 0; i < nBind; i++ {
		w.String(fmt.Sprintf("p%d", i))
		w.Short(vfTInt)
	}
	if version >= 2 {
		// result metadata
		w.Int(0x01).Int(int32(len(cols)))
		w.String(ks).String(table)
		for _, c := range cols {
			w.String(c.Name)
			vfTypeOption(w, c.Type)
		}
	}
	return w.b
}

func vfErrorBody(code int32, msg string, extra func(*vfW)) []byte {
	w := &vfW{}
	w.Int(code).String(msg)
	if extra != nil {
		extra(w)
	}
	return w.b
}

func vfUnpreparedBody(id []byte) []byte {
	return vfErrorBody(0x2500, "unprepared", func(w *vfW) { w.ShortBytes(id) })
}

func vfSupportedBody(m map[string][]string, order []string) []byte {
	return (&vfW{}).StringMultiMap(m, order).b
}

func vfStatusEventBody(change string, ip net.IP, port int) []byte {
	return (&vfW{}).String("STATUS_CHANGE").String(change).Inet(ip, port).b
}

func vfTopologyEventBody(change string, ip net.IP, port int) []byte {
	return (&vfW{}).String("TOPOLOGY_CHANGE").String(change).Inet(ip, port).b
}

// cell encoders for the node's own result sets (trivial encodings only)
func vfCellText(s string) []byte { return []byte(s) }
func vfCellInt(v int32) []byte   { return (&vfW{}).Int(v).b }
func vfCellUUID(u UUID) []byte   { return u[:] }
func vfCellInet(ip net.IP) []byte {
	if v4 := ip.To4(); v4 != nil {
		return []byte(v4)
	}
	return []byte(ip)
}
func vfCellTextSet(l []string) []byte {
	w := &vfW{}
	w.Int(int32(len(l)))
	for _, s := range l {
		w.Bytes([]byte(s))
	}
	return w.b
}
