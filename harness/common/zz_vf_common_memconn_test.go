package gocql

// Shared verification harness, part 2: an in-memory, buffered net.Conn pair with
// fault injection on the client (driver) side and a byte-exact record of what the
// driver wrote.

import (
	"errors"
	"io"
	"net"
	"os"
	"runtime"
	"sync"
	"time"
)

func vfRuntimeStack(buf []byte) int { return runtime.Stack(buf, true) }

// vfPipeHalf is one direction of the pipe: an unbounded (or bounded) byte queue.
type vfPipeHalf struct {
	mu       sync.Mutex
	cond     *sync.Cond
	buf      []byte
	closed   bool // writer side closed: readers drain then get EOF
	broken   error // reader gets this error immediately after draining (e.g. reset)
	limit    int   // 0 = unbounded; otherwise writers block when len(buf) >= limit
	rdead    time.Time
	wdead    time.Time
}

func vfNewHalf(limit int) *vfPipeHalf {
	h := &vfPipeHalf{limit: limit}
	h.cond = sync.NewCond(&h.mu)
	return h
}

type vfTimeoutErr struct{}

func (vfTimeoutErr) Error() string   { return "vf: i/o timeout" }
func (vfTimeoutErr) Timeout() bool   { return true }
func (vfTimeoutErr) Temporary() bool { return true }

var vfErrTimeout net.Error = vfTimeoutErr{}

type vfNetErr struct{ msg string }

func (e vfNetErr) Error() string   { return e.msg }
func (e vfNetErr) Timeout() bool   { return false }
func (e vfNetErr) Temporary() bool { return false }

func (h *vfPipeHalf) wakeAt(t time.Time) {
	if t.IsZero() {
		return
	}
	d := time.Until(t)
	if d < 0 {
		d = 0
	}
	time.AfterFunc(d+time.Millisecond, func() {
		h.mu.Lock()
		h.cond.Broadcast()
		h.mu.Unlock()
	})
}

func (h *vfPipeHalf) read(p []byte) (int, error) {
	h.mu.Lock()
	defer h.mu.Unlock()
	for {
		if len(h.buf) > 0 {
			n := copy(p, h.buf)
			h.buf = h.buf[n:]
			h.cond.Broadcast()
			return n, nil
		}
		if h.broken != nil {
			return 0, h.broken
		}
		if h.closed {
			return 0, io.EOF
		}
		if !h.rdead.IsZero() && !time.Now().Before(h.rdead) {
			return 0, os.ErrDeadlineExceeded
		}
		h.cond.Wait()
	}
}

func (h *vfPipeHalf) write(p []byte) (int, error) {
	h.mu.Lock()
	defer h.mu.Unlock()
	written := 0
	for len(p) > 0 {
		if h.closed || h.broken != nil {
			return written, vfNetErr{"vf: write on closed pipe"}
		}
		if !h.wdead.IsZero() && !time.Now().Before(h.wdead) {
			return written, os.ErrDeadlineExceeded
		}
		room := len(p)
		if h.limit > 0 {
			room = h.limit - len(h.buf)
			if room <= 0 {
				h.cond.Wait()
				continue
			}
			if room > len(p) {
				room = len(p)
			}
		}
		h.buf = append(h.buf, p[:room]...)
		p = p[room:]
		written += room
		h.cond.Broadcast()
	}
	return written, nil
}

func (h *vfPipeHalf) closeWrite() {
	h.mu.Lock()
	h.closed = true
	h.cond.Broadcast()
	h.mu.Unlock()
}

func (h *vfPipeHalf) breakWith(err error) {
	h.mu.Lock()
	h.broken = err
	h.cond.Broadcast()
	h.mu.Unlock()
}

// vfWriteFault describes what happens to the driver's writes.
type vfWriteFault struct {
	// FailAtByte >= 0: the write that would carry the byte with this absolute offset (counted over
	// everything the driver wrote on this connection) accepts the bytes before it and returns Err.
	FailAtByte int64
	Err        error
	// StallAtByte >= 0: that write blocks until the write deadline and returns a timeout error
	// (after accepting the bytes before the offset).
	StallAtByte int64
	// Chunk > 0: deliver in chunks of this size with a scheduler yield between chunks, so that a
	// missing writer lock shows up as interleaved bytes.
	Chunk int
	// Hold != nil: the write that would carry the byte with absolute offset HoldAtByte accepts the bytes
	// before it, closes Held and blocks (a peer that stopped reading) until Hold is closed or the
	// connection is closed; then it goes on normally. Write deadlines are ignored while held.
	// DeadlineErr != nil: SetWriteDeadline reports this error once DeadlineErrAtByte bytes have been written
	// (a socket that was closed underneath, a descriptor gone bad)
	DeadlineErr       error
	DeadlineErrAtByte int64
	HoldAtByte        int64
	Hold              chan struct{}
	Held       chan struct{}
	heldOnce   sync.Once
}

// vfMemConn is the driver's end (or the node's end) of an in-memory connection.
type vfMemConn struct {
	in, out    *vfPipeHalf
	local, rem net.Addr
	closeOnce  sync.Once
	onClose    func()

	// driver side only
	fmu      sync.Mutex
	fault    *vfWriteFault
	wrote    []byte // everything accepted from the driver, in order
	writeOps []int  // size of each accepted Write call
	closedCh chan struct{}
}

func vfNewMemPair(addr *net.TCPAddr, limit int) (driver, node *vfMemConn) {
	a, b := vfNewHalf(limit), vfNewHalf(limit) // a: driver->node, b: node->driver
	cl := &net.TCPAddr{IP: net.IPv4(127, 0, 0, 1), Port: 50000}
	driver = &vfMemConn{in: b, out: a, local: cl, rem: addr, closedCh: make(chan struct{})}
	node = &vfMemConn{in: a, out: b, local: addr, rem: cl, closedCh: make(chan struct{})}
	return
}

func (c *vfMemConn) SetFault(f *vfWriteFault) {
	c.fmu.Lock()
	c.fault = f
	c.fmu.Unlock()
}

func (c *vfMemConn) Written() []byte {
	c.fmu.Lock()
	defer c.fmu.Unlock()
	out := make([]byte, len(c.wrote))
	copy(out, c.wrote)
	return out
}

func (c *vfMemConn) Read(p []byte) (int, error) {
	n, err := c.in.read(p)
	if err == os.ErrDeadlineExceeded {
		return n, vfErrTimeout
	}
	return n, err
}

func (c *vfMemConn) Write(p []byte) (int, error) {
	select {
	case <-c.closedCh:
		return 0, vfNetErr{"vf: use of closed connection"}
	default:
	}
	c.fmu.Lock()
	f := c.fault
	base := int64(len(c.wrote))
	c.fmu.Unlock()
	if f != nil && f.Hold != nil && f.HoldAtByte >= base && f.HoldAtByte < base+int64(len(p)) {
		select {
		case <-f.Hold: // already released
		default:
			pre := int(f.HoldAtByte - base)
			m, err := c.out.write(p[:pre])
			c.fmu.Lock()
			c.wrote = append(c.wrote, p[:m]...)
			c.fmu.Unlock()
			if err != nil {
				return m, err
			}
			f.heldOnce.Do(func() {
				if f.Held != nil {
					close(f.Held)
				}
			})
			select {
			case <-f.Hold:
			case <-c.closedCh:
				return m, vfNetErr{"vf: closed while held"}
			}
			// the time spent held does not count against the write deadline (the scenario decides how
			// long the peer stays away, not the driver's WriteTimeout)
			c.out.mu.Lock()
			c.out.wdead = time.Time{}
			c.out.mu.Unlock()
			n2, err2 := c.Write(p[pre:])
			return m + n2, err2
		}
	}
	accept := len(p)
	var ferr error
	stall := false
	if f != nil {
		if f.FailAtByte >= 0 && f.FailAtByte < base+int64(len(p)) {
			accept = int(f.FailAtByte - base)
			if accept < 0 {
				accept = 0
			}
			ferr = f.Err
			if ferr == nil {
				ferr = vfNetErr{"vf: injected write failure"}
			}
		} else if f.StallAtByte >= 0 && f.StallAtByte < base+int64(len(p)) {
			accept = int(f.StallAtByte - base)
			if accept < 0 {
				accept = 0
			}
			stall = true
		}
	}
	n := 0
	chunk := accept
	if f != nil && f.Chunk > 0 {
		chunk = f.Chunk
	}
	for n < accept {
		k := chunk
		if k > accept-n || k <= 0 {
			k = accept - n
		}
		m, err := c.out.write(p[n : n+k])
		c.fmu.Lock()
		c.wrote = append(c.wrote, p[n:n+m]...)
		c.fmu.Unlock()
		n += m
		if err != nil {
			if err == os.ErrDeadlineExceeded {
				err = vfErrTimeout
			}
			return n, err
		}
		if f != nil && f.Chunk > 0 {
			runtime.Gosched()
		}
	}
	c.fmu.Lock()
	c.writeOps = append(c.writeOps, n)
	c.fmu.Unlock()
	if stall {
		// block until the write deadline
		c.out.mu.Lock()
		for {
			if c.out.closed || c.out.broken != nil {
				c.out.mu.Unlock()
				return n, vfNetErr{"vf: closed while stalled"}
			}
			if !c.out.wdead.IsZero() && !time.Now().Before(c.out.wdead) {
				c.out.mu.Unlock()
				return n, vfErrTimeout
			}
			c.out.cond.Wait()
		}
	}
	if ferr != nil {
		return n, ferr
	}
	return n, nil
}

func (c *vfMemConn) Close() error {
	c.closeOnce.Do(func() {
		close(c.closedCh)
		c.out.closeWrite()
		c.in.breakWith(vfNetErr{"vf: use of closed connection"})
		if c.onClose != nil {
			c.onClose()
		}
	})
	return nil
}

func (c *vfMemConn) IsClosed() bool {
	select {
	case <-c.closedCh:
		return true
	default:
		return false
	}
}

func (c *vfMemConn) LocalAddr() net.Addr  { return c.local }
func (c *vfMemConn) RemoteAddr() net.Addr { return c.rem }

func (c *vfMemConn) SetDeadline(t time.Time) error {
	c.SetReadDeadline(t)
	c.SetWriteDeadline(t)
	return nil
}

func (c *vfMemConn) SetReadDeadline(t time.Time) error {
	c.in.mu.Lock()
	c.in.rdead = t
	c.in.cond.Broadcast()
	c.in.mu.Unlock()
	c.in.wakeAt(t)
	return nil
}

func (c *vfMemConn) SetWriteDeadline(t time.Time) error {
	c.fmu.Lock()
	f, n := c.fault, int64(len(c.wrote))
	c.fmu.Unlock()
	if f != nil && f.DeadlineErr != nil && !t.IsZero() && n >= f.DeadlineErrAtByte {
		return f.DeadlineErr
	}
	c.out.mu.Lock()
	c.out.wdead = t
	c.out.cond.Broadcast()
	c.out.mu.Unlock()
	c.out.wakeAt(t)
	return nil
}

var _ net.Conn = (*vfMemConn)(nil)
var _ = errors.New
