package gocql

// Shared verification harness (package gocql, overlaid at build time).
// Part 1: event tracer with a global sequence counter, dispatch of the "verif" hooks,
// and the gate controller used to force interleavings.

import (
	"bufio"
	"context"
	"encoding/json"
	"errors"
	"fmt"
	"net"
	"os"
	"strconv"
	"sync"
	"sync/atomic"
	"time"
)

// ---------------------------------------------------------------- environment

func vfEnvInt(name string, def int) int {
	if v := os.Getenv(name); v != "" {
		if n, err := strconv.Atoi(v); err == nil {
			return n
		}
	}
	return def
}

func vfSeed() int64      { return int64(vfEnvInt("VF_SEED", 1)) }
func vfThorough() bool   { return os.Getenv("VF_TIER") == "thorough" }
func vfOutDir() string   { return os.Getenv("VF_OUT") }
func vfOutPath(n string) string { return vfOutDir() + "/" + n }

// ---------------------------------------------------------------- tracer

// vfTracer collects events of one scenario. The sequence number is taken inside the
// same critical section that appends the event, so the log order is a total order
// consistent with every happens-before edge through the tracer.
type vfTracer struct {
	mu   sync.Mutex
	seq  int64
	evs  []map[string]interface{}
	objs map[interface{}]int // stable small ids for pointers (calls, conns)
	next int
}

func vfNewTracer() *vfTracer { return &vfTracer{objs: map[interface{}]int{}} }

// Emit appends an event. kv is alternating key, value.
func (t *vfTracer) Emit(ev string, kv ...interface{}) {
	m := map[string]interface{}{"ev": ev}
	for i := 0; i+1 < len(kv); i += 2 {
		m[kv[i].(string)] = kv[i+1]
	}
	t.mu.Lock()
	t.seq++
	m["seq"] = t.seq
	t.evs = append(t.evs, m)
	t.mu.Unlock()
}

// ObjID returns a stable small integer for a pointer-like key.
func (t *vfTracer) ObjID(o interface{}) int {
	t.mu.Lock()
	defer t.mu.Unlock()
	if id, ok := t.objs[o]; ok {
		return id
	}
	t.next++
	t.objs[o] = t.next
	return t.next
}

func (t *vfTracer) Events() []map[string]interface{} {
	t.mu.Lock()
	defer t.mu.Unlock()
	out := make([]map[string]interface{}, len(t.evs))
	copy(out, t.evs)
	return out
}

// vfNDJSON writes records one per line.
type vfNDJSON struct {
	f *os.File
	w *bufio.Writer
	e *json.Encoder
	mu sync.Mutex
}

func vfCreateNDJSON(path string) (*vfNDJSON, error) {
	f, err := os.Create(path)
	if err != nil {
		return nil, err
	}
	w := bufio.NewWriterSize(f, 1<<20)
	return &vfNDJSON{f: f, w: w, e: json.NewEncoder(w)}, nil
}

func (n *vfNDJSON) Write(v interface{}) {
	n.mu.Lock()
	n.e.Encode(v)
	n.mu.Unlock()
}

func (n *vfNDJSON) Close() {
	n.mu.Lock()
	n.w.Flush()
	n.f.Close()
	n.mu.Unlock()
}

// ---------------------------------------------------------------- hook dispatch

// A vfScope receives the hooks of the objects registered with it. Scenarios running in
// parallel in one process each have their own scope; objects (conns, pools,
// debouncers, writers) are bound to a scope by the pointer the hook passes.
type vfScope struct {
	tr    *vfTracer
	gates *vfGates
	// OnConn / OnEvent are optional extra observers, called before the gate.
	OnConn  func(point string, c *Conn, call *callReq, a, b int, err error)
	OnEvent func(point string, obj interface{}, s string, a int, err error)
	// OnDur may shorten a pause of the driver (heartbeat interval) for connections of this scope.
	OnDur func(point string, c *Conn, d time.Duration) time.Duration
	// ReqOf maps a call to the request id found in its context (set by verifCtx).
	reqMu sync.Mutex
	reqOf map[*callReq]int
}

type vfReqKey struct{}

// vfWithReq tags a context with a request id; exec's verifCtx hook binds the call to it.
func vfWithReq(ctx context.Context, id int) context.Context {
	return context.WithValue(ctx, vfReqKey{}, id)
}

var (
	vfScopes    sync.Map // object pointer -> *vfScope
	vfDefault   atomic.Value // *vfScope used when an object is not registered (may be nil)
	vfSessScope sync.Map // *Session -> *vfScope
)

func vfNewScope() *vfScope {
	return &vfScope{tr: vfNewTracer(), gates: vfNewGates(), reqOf: map[*callReq]int{}}
}

func (sc *vfScope) Bind(obj interface{})   { vfScopes.Store(obj, sc) }
func (sc *vfScope) Unbind(obj interface{}) { vfScopes.Delete(obj) }
func (sc *vfScope) BindSession(s *Session) { vfSessScope.Store(s, sc) }

func vfScopeOf(obj interface{}) *vfScope {
	if v, ok := vfScopes.Load(obj); ok {
		return v.(*vfScope)
	}
	return nil
}

func vfScopeOfConn(c *Conn) *vfScope {
	if c == nil {
		return nil
	}
	if sc := vfScopeOf(c); sc != nil {
		return sc
	}
	if c.session != nil {
		if v, ok := vfSessScope.Load(c.session); ok {
			sc := v.(*vfScope)
			vfScopes.Store(c, sc)
			return sc
		}
	}
	if v := vfDefault.Load(); v != nil {
		if sc, _ := v.(*vfScope); sc != nil {
			return sc
		}
	}
	return nil
}

func (sc *vfScope) ReqOf(call *callReq) int {
	if call == nil {
		return 0
	}
	sc.reqMu.Lock()
	defer sc.reqMu.Unlock()
	return sc.reqOf[call]
}

func vfErrClass(err error) string {
	switch {
	case err == nil:
		return "none"
	case errors.Is(err, context.Canceled), errors.Is(err, context.DeadlineExceeded):
		return "ctx"
	case errors.Is(err, ErrConnectionClosed):
		return "closed"
	case errors.Is(err, ErrTimeoutNoResponse):
		return "timeout"
	case errors.Is(err, ErrNoStreams):
		return "nostreams"
	}
	var ne net.Error
	if errors.As(err, &ne) {
		return "net"
	}
	return "other"
}

func init() {
	verifCtxHook = func(ctx context.Context, c *Conn, call *callReq) {
		sc := vfScopeOfConn(c)
		if sc == nil {
			return
		}
		id, _ := ctx.Value(vfReqKey{}).(int)
		if id == 0 {
			// internal request (heartbeat, USE, PREPARE on the connection context, startup)
			id = -sc.tr.ObjID(call)
		}
		sc.reqMu.Lock()
		sc.reqOf[call] = id
		sc.reqMu.Unlock()
		sc.tr.Emit("x_stream", "conn", sc.tr.ObjID(c), "req", id, "stream", call.streamID)
		sc.gates.Reach("x_stream", id)
	}
	verifConnHook = func(point string, c *Conn, call *callReq, a, b int, err error) {
		sc := vfScopeOfConn(c)
		if sc == nil {
			return
		}
		req := sc.ReqOf(call)
		if sc.OnConn != nil {
			sc.OnConn(point, c, call, a, b, err)
		}
		sid := 0
		if call != nil {
			sid = call.streamID
		}
		sc.tr.Emit(point, "conn", sc.tr.ObjID(c), "req", req, "stream", sid, "a", a, "b", b, "err", vfErrClass(err))
		sc.gates.Reach(point, req)
	}
	verifDurHook = func(point string, c *Conn, d time.Duration) time.Duration {
		sc := vfScopeOfConn(c)
		if sc == nil || sc.OnDur == nil {
			return d
		}
		return sc.OnDur(point, c, d)
	}
	verifEventHook = func(point string, obj interface{}, s string, a int, err error) {
		sc := vfScopeOf(obj)
		if sc == nil {
			if v := vfDefault.Load(); v != nil {
				sc, _ = v.(*vfScope)
			}
			if sc == nil {
				return
			}
		}
		if sc.OnEvent != nil {
			sc.OnEvent(point, obj, s, a, err)
		}
		sc.tr.Emit(point, "obj", sc.tr.ObjID(obj), "s", s, "a", a, "err", vfErrClass(err))
		sc.gates.Reach(point, 0)
	}
}

// ---------------------------------------------------------------- gates

// vfGates blocks goroutines at hook points. Arm(point, req) makes the next goroutine that
// reaches `point` for request `req` (0 = any) park there; AwaitReached waits until it is
// parked; Release lets it continue.
type vfGate struct {
	point   string
	req     int
	reached chan struct{}
	release chan struct{}
	taken   bool
}

type vfGates struct {
	mu    sync.Mutex
	armed []*vfGate
}

func vfNewGates() *vfGates { return &vfGates{} }

func (g *vfGates) Arm(point string, req int) *vfGate {
	gt := &vfGate{point: point, req: req, reached: make(chan struct{}), release: make(chan struct{})}
	g.mu.Lock()
	g.armed = append(g.armed, gt)
	g.mu.Unlock()
	return gt
}

func (g *vfGates) Reach(point string, req int) {
	g.mu.Lock()
	var hit *vfGate
	for _, gt := range g.armed {
		if !gt.taken && gt.point == point && (gt.req == 0 || gt.req == req) {
			gt.taken = true
			hit = gt
			break
		}
	}
	g.mu.Unlock()
	if hit == nil {
		return
	}
	close(hit.reached)
	<-hit.release
}

// AwaitReached reports whether a goroutine parked at the gate within d.
func (gt *vfGate) AwaitReached(d time.Duration) bool {
	select {
	case <-gt.reached:
		return true
	case <-time.After(d):
		return false
	}
}

func (gt *vfGate) Release() {
	select {
	case <-gt.release:
	default:
		close(gt.release)
	}
}

// ReleaseAll releases every armed gate (scenario teardown: nothing stays parked).
func (g *vfGates) ReleaseAll() {
	g.mu.Lock()
	for _, gt := range g.armed {
		gt.taken = true
		select {
		case <-gt.release:
		default:
			close(gt.release)
		}
	}
	g.mu.Unlock()
}

// ---------------------------------------------------------------- watchdog

// vfWithin runs fn and reports whether it returned within d. On expiry the goroutine is
// left behind (the scenario is over) and a goroutine dump is returned.
func vfWithin(d time.Duration, fn func()) (ok bool, dump string) {
	done := make(chan struct{})
	go func() {
		defer close(done)
		fn()
	}()
	select {
	case <-done:
		return true, ""
	case <-time.After(d):
		return false, vfGoroutineDump()
	}
}

func vfGoroutineDump() string {
	buf := make([]byte, 1<<20)
	n := vfRuntimeStack(buf)
	return string(buf[:n])
}

func vfFmt(f string, a ...interface{}) string { return fmt.Sprintf(f, a...) }
