package gocql

// Verification harness for host selection (property C11).  Overlaid into package gocql
// together with harness/c10 (token mapping and keyspace metadata helpers are shared).
// Glue only: it builds real HostInfo objects and real policy objects
// (RoundRobinHostPolicy, DCAwareRoundRobinPolicy, RackAwareRoundRobinPolicy,
// TokenAwareHostPolicy with ShuffleReplicas / NonLocalReplicasFallback), replays a history
// of AddHost / RemoveHost / HostUp / HostDown / SetPartitioner / KeyspaceChanged calls,
// drains the NextHost iterator of several successive Pick calls and serialises what was
// offered.  Verdicts come from TLC (spec/Policies.tla, Trace_Policies.tla).

import (
	"bufio"
	"context"

	"github.com/gocql/gocql/internal/lru"

	"encoding/json"
	"errors"
	"fmt"
	"math/rand"
	"os"
	"sort"
	"strconv"
	"strings"
	"sync"
	"sync/atomic"
	"testing"
	"time"
)

type vfC11World struct {
	Dc        []string `json:"dc"`
	Rack      []string `json:"rack"`
	Ring      []int    `json:"ring"`
	Tokens    []int    `json:"tokens"`
	Pol       string   `json:"pol"` // rr | dc | rack
	Ta        bool     `json:"ta"`
	Shuffle   bool     `json:"shuffle"`
	Nonlocal  bool     `json:"nonlocal"`
	Localdc   string   `json:"localdc"`
	Localrack string   `json:"localrack"`
	Strat     string   `json:"strat"`
	Rfdc      []string `json:"rfdc"`
	Rfn       []int    `json:"rfn"`
	// a second keyspace ("vfks2") with its own replication, "none" if there is none: statements on its
	// tables get their keyspace from the prepared-statement information, not from the session
	// Addr: address index per host; hosts with the same index share one address (a node replaced at the
	// same address has another host id and other tokens)
	Addr   []int    `json:"addr"`
	Strat2 string   `json:"strat2"`
	Rfdc2  []string `json:"rfdc2"`
	Rfn2   []int    `json:"rfn2"`
}

type vfC11Op struct {
	Op string `json:"op"` // add remove up down sdown setpart ks pick
	H  int    `json:"h"`
}

type vfC11Group struct {
	Q       int     `json:"q"`  // abstract routing token, -1 = no routing key
	Ks      int     `json:"ks"` // 1: statement on the session's keyspace, 2: on the second keyspace
	K       int     `json:"k"`
	Picks   [][]int `json:"picks"`
	Capped  []bool  `json:"capped"`
	Realrep []int   `json:"realrep"` // the driver's own replica list for q (observation only)
}

// vfC11Il is an interleaved group: several iterators (one Pick each, for the routing tokens Qs)
// are alive at the same time and advanced one NextHost call at a time in the order given by
// Sched (1-based iterator numbers; an iterator is created - Pick is called - when it is first
// mentioned); afterwards every iterator is drained.  Like a query being retried on its next host
// while other queries for the same partition are picked.
type vfC11Il struct {
	Qs     []int   `json:"qs"`
	Sched  []int   `json:"sched"`
	Seqs   [][]int `json:"seqs"`   // what each iterator offered, in its own order
	Capped []bool  `json:"capped"` // per iterator
	Rep0   []int   `json:"rep0"`   // the policy's stored replica list for Qs[0] before the group
	Rep1   []int   `json:"rep1"`   // ... and after it (observation only)
}

// vfC11Mid: a node is reported down (status event: state + HostDown) while a query plan is being consumed - after
// First was offered and before Rest; Victim had not been offered yet and was up.
type vfC11Mid struct {
	Q      int   `json:"q"`
	Ks     int   `json:"ks"`
	First  []int `json:"first"`
	Victim int   `json:"victim"`
	Rest   []int `json:"rest"`
	Capped bool  `json:"capped"`
}

type vfC11Case struct {
	ID     int          `json:"id"`
	W      vfC11World   `json:"w"`
	Hist   []vfC11Op    `json:"hist"`
	Groups []vfC11Group `json:"groups"`
	Il     []vfC11Il    `json:"il"`
}

type vfC11Vector struct {
	ID     int          `json:"id"`
	W      vfC11World   `json:"w"`
	Hist   []vfC11Op    `json:"hist"`
	Groups []vfC11Group `json:"groups"`
	PClass string       `json:"pclass"` // none | mapsize | op | pick
	PMsg   string       `json:"pmsg"`
	PAt    int          `json:"pat"`  // 1-based index in hist of the call that panicked (0: none / in a pick)
	PGrp   int          `json:"pgrp"` // 1-based index of the group whose pick panicked (0: none)
	Il     []vfC11Il    `json:"il"`
	PIl    int          `json:"pil"` // 1-based index of the interleaved group that panicked (0: none)
	Xov    int          `json:"xov"` // executor runs: calls that entered NextHost while another call was inside
	Mid    []vfC11Mid   `json:"mid,omitempty"`
}

// vfC11Query is a minimal ExecutableQuery: only the routing key and the keyspace matter
// to host selection policies.
type vfC11Query struct {
	key []byte
}

func (q *vfC11Query) borrowForExecution()                                    {}
func (q *vfC11Query) releaseAfterExecution()                                 {}
func (q *vfC11Query) execute(ctx context.Context, conn *Conn) *Iter          { return nil }
func (q *vfC11Query) attempt(string, time.Time, time.Time, *Iter, *HostInfo) {}
func (q *vfC11Query) retryPolicy() RetryPolicy                               { return nil }
func (q *vfC11Query) speculativeExecutionPolicy() SpeculativeExecutionPolicy { return nil }
func (q *vfC11Query) GetRoutingKey() ([]byte, error)                         { return q.key, nil }
func (q *vfC11Query) Keyspace() string                                       { return "vfks" }
func (q *vfC11Query) Table() string                                          { return "vft" }
func (q *vfC11Query) IsIdempotent() bool                                     { return true }
func (q *vfC11Query) withContext(context.Context) ExecutableQuery            { return q }
func (q *vfC11Query) Attempts() int                                          { return 0 }
func (q *vfC11Query) SetConsistency(c Consistency)                           {}
func (q *vfC11Query) GetConsistency() Consistency                            { return Quorum }
func (q *vfC11Query) Context() context.Context                               { return context.Background() }

// vfC11Env is one policy object under test with its hosts.
type vfC11Env struct {
	w      *vfC11World
	hosts  []*HostInfo
	idx    map[*HostInfo]int
	policy HostSelectionPolicy
	ta     *tokenAwareHostPolicy
	ksOn   atomic.Bool
	ks2On  atomic.Bool
	sess   *Session // stub: default keyspace "vfks", routing key information of two statements cached

	// gate inside the keyspace-metadata callback: when armed, the next call of the callback parks
	// (signals parked, waits for release) - used to overlap two update calls
	gateArmed atomic.Bool
	parked    chan struct{}
	release   chan struct{}
}

func vfC11New(w *vfC11World) *vfC11Env {
	e := &vfC11Env{w: w}
	c := &vfC10Case{Ring: w.Ring, Dc: w.Dc, Rack: w.Rack, Tokens: w.Tokens, Strat: w.Strat, RfDc: w.Rfdc, RfN: w.Rfn, Form: "str"}
	e.hosts = vfC10Hosts(c, "OrderedPartitioner")
	for i, a := range w.Addr {
		if i < len(e.hosts) && a >= 1 && a != i+1 {
			e.hosts[i].connectAddress = e.hosts[a-1].connectAddress
		}
	}
	e.idx = make(map[*HostInfo]int, len(e.hosts))
	for i, h := range e.hosts {
		e.idx[h] = i + 1
	}
	var base HostSelectionPolicy
	switch w.Pol {
	case "rr":
		base = RoundRobinHostPolicy()
	case "dc":
		base = DCAwareRoundRobinPolicy(w.Localdc)
	case "rack":
		base = RackAwareRoundRobinPolicy(w.Localdc, w.Localrack)
	default:
		panic("vfC11New: policy " + w.Pol)
	}
	e.policy = base
	if w.Ta {
		var opts []func(*tokenAwareHostPolicy)
		if w.Shuffle {
			opts = append(opts, ShuffleReplicas())
		}
		if w.Nonlocal {
			opts = append(opts, NonLocalReplicasFallback())
		}
		e.policy = TokenAwareHostPolicy(base, opts...)
		e.ta = e.policy.(*tokenAwareHostPolicy)
		ks := vfC10Keyspace(c)
		var ks2 *KeyspaceMetadata
		if w.Strat2 != "" && w.Strat2 != "none" {
			c2 := *c
			c2.Strat, c2.RfDc, c2.RfN = w.Strat2, w.Rfdc2, w.Rfn2
			ks2 = vfC10Keyspace(&c2)
			ks2.Name = "vfks2"
		}
		e.ta.getKeyspaceName = func() string { return "vfks" }
		e.ta.getKeyspaceMetadata = func(name string) (*KeyspaceMetadata, error) {
			if e.gateArmed.CompareAndSwap(true, false) {
				close(e.parked)
				<-e.release
			}
			if name == "vfks2" && ks2 != nil && e.ks2On.Load() {
				return ks2, nil
			}
			if !e.ksOn.Load() || name != "vfks" {
				return nil, errors.New("vf: keyspace metadata not available")
			}
			return ks, nil
		}
		e.ta.logger = nopLogger{}
	}
	return e
}

func (e *vfC11Env) apply(op vfC11Op) {
	var h *HostInfo
	if op.H >= 1 && op.H <= len(e.hosts) {
		h = e.hosts[op.H-1]
	}
	switch op.Op {
	case "add":
		e.policy.AddHost(h)
	case "remove":
		e.policy.RemoveHost(h)
	case "up":
		h.setState(NodeUp)
		e.policy.HostUp(h)
	case "down":
		h.setState(NodeDown)
		e.policy.HostDown(h)
	case "sdown":
		h.setState(NodeDown)
	case "setpart":
		e.policy.SetPartitioner("org.apache.cassandra.dht.OrderedPartitioner")
	case "ks2":
		e.ks2On.Store(true)
		e.policy.KeyspaceChanged(KeyspaceUpdateEvent{Keyspace: "vfks2", Change: "UPDATED"})
	case "ks":
		e.ksOn.Store(true)
		e.policy.KeyspaceChanged(KeyspaceUpdateEvent{Keyspace: "vfks", Change: "UPDATED"})
	default:
		panic("vfC11 apply: op " + op.Op)
	}
}

// overlap makes call a and, while a is parked inside the keyspace-metadata callback (if it gets
// there), call b; a is released when b has returned or has not returned within a short while (b
// waiting for a lock that a holds is the expected design).  Returns the panic message of either
// call ("" if none) and whether a call did not return at all.
func (e *vfC11Env) overlap(a, b vfC11Op) (pmsg string, stuck bool) {
	e.parked, e.release = make(chan struct{}), make(chan struct{})
	var mu sync.Mutex
	run := func(op vfC11Op, done chan struct{}) {
		defer close(done)
		defer func() {
			if r := recover(); r != nil {
				mu.Lock()
				if pmsg == "" {
					pmsg = fmt.Sprint(r)
				}
				mu.Unlock()
			}
		}()
		e.apply(op)
	}
	aDone, bDone := make(chan struct{}), make(chan struct{})
	e.gateArmed.Store(true)
	go run(a, aDone)
	select {
	case <-e.parked:
	case <-aDone: // a never consulted the keyspace metadata: nothing to overlap with
	case <-time.After(10 * time.Second):
		return "first overlapped call neither parked nor returned", true
	}
	e.gateArmed.Store(false)
	go run(b, bDone)
	select {
	case <-bDone:
	case <-time.After(15 * time.Millisecond):
	}
	close(e.release)
	for _, d := range []chan struct{}{aDone, bDone} {
		select {
		case <-d:
		case <-time.After(10 * time.Second):
			return "overlapped calls did not return", true
		}
	}
	mu.Lock()
	defer mu.Unlock()
	return pmsg, false
}

// burst makes all the given calls concurrently: every goroutine spins on a start flag, so the calls
// begin within nanoseconds of each other.  Returns the first panic message ("" if none).
func (e *vfC11Env) burst(ops []vfC11Op) (pmsg string) {
	var mu sync.Mutex
	var wg sync.WaitGroup
	var ready int32
	var start atomic.Bool
	for _, op := range ops {
		wg.Add(1)
		go func(op vfC11Op) {
			defer wg.Done()
			defer func() {
				if r := recover(); r != nil {
					mu.Lock()
					if pmsg == "" {
						pmsg = fmt.Sprint(r)
					}
					mu.Unlock()
				}
			}()
			atomic.AddInt32(&ready, 1)
			for !start.Load() {
			}
			e.apply(op)
		}(op)
	}
	for deadline := time.Now().Add(5 * time.Second); atomic.LoadInt32(&ready) < int32(len(ops)) && time.Now().Before(deadline); {
		time.Sleep(50 * time.Microsecond)
	}
	start.Store(true)
	done := make(chan struct{})
	go func() { wg.Wait(); close(done) }()
	select {
	case <-done:
	case <-time.After(20 * time.Second):
		return "concurrent calls did not return"
	}
	mu.Lock()
	defer mu.Unlock()
	return pmsg
}

var vfC11Stmts = map[int]string{1: "SELECT v FROM vfks.t WHERE k = ?", 2: "SELECT v FROM vfks2.t WHERE k = ?"}

// queryKs returns the query for routing token q of a statement on keyspace ks (1 | 2).  In worlds with
// a second keyspace it is a real, fresh *Query of a stub session (default keyspace "vfks"): routing key
// and keyspace are derived by GetRoutingKey from the bound value and the cached prepared-statement
// information, as for session.Query(stmt, value).
func (e *vfC11Env) queryKs(q, ks int) ExecutableQuery {
	if q < 0 || e.w.Strat2 == "" || e.w.Strat2 == "none" {
		return e.query(q)
	}
	if e.sess == nil {
		s := &Session{}
		s.cfg.Keyspace = "vfks"
		s.routingKeyInfoCache.lru = lru.New(10)
		for k, name := range map[int]string{1: "vfks", 2: "vfks2"} {
			s.routingKeyInfoCache.lru.Add(vfC11Stmts[k], &inflightCachedEntry{value: &routingKeyInfo{
				indexes: []int{0}, types: []TypeInfo{NativeType{proto: 4, typ: TypeVarchar}}, keyspace: name, table: "t"}})
		}
		e.sess = s
	}
	if ks != 2 {
		ks = 1
	}
	return &Query{stmt: vfC11Stmts[ks], values: []interface{}{vfC10Tok("OrderedPartitioner", q)}, session: e.sess,
		routingInfo: &queryRoutingInfo{}}
}

func (e *vfC11Env) query(q int) ExecutableQuery {
	if q < 0 {
		return &vfC11Query{}
	}
	return &vfC11Query{key: []byte(vfC10Tok("OrderedPartitioner", q))}
}

// drain calls the iterator until it ends (or far more often than there are hosts).
func (e *vfC11Env) drain(next NextHost) (seq []int, capped bool) {
	seq = []int{}
	limit := 4*len(e.hosts) + 8
	for i := 0; i < limit; i++ {
		sh := next()
		if sh == nil {
			return seq, false
		}
		id := 0
		if info := sh.Info(); info != nil {
			id = e.idx[info]
		}
		seq = append(seq, id)
	}
	return seq, true
}

// realReplicas reads the replica list the token aware policy itself holds for q.
func (e *vfC11Env) realReplicas(q int) (ids []int) { return e.realReplicasKs(q, 1) }

func (e *vfC11Env) realReplicasKs(q, ks int) (ids []int) {
	ids = []int{}
	defer func() { recover() }()
	if e.ta == nil || q < 0 {
		return
	}
	meta := e.ta.getMetadataReadOnly()
	if meta == nil || meta.tokenRing == nil {
		return
	}
	tok := meta.tokenRing.partitioner.Hash([]byte(vfC10Tok("OrderedPartitioner", q)))
	name := "vfks"
	if ks == 2 {
		name = "vfks2"
	}
	if ht := meta.replicas[name].replicasFor(tok); ht != nil {
		ids = vfC10Ids(e.idx, ht.hosts)
	}
	return
}

func vfC11PanicClass(msg, dflt string) string {
	if strings.Contains(msg, "token map different size to token ring") {
		return "mapsize"
	}
	return dflt
}

// vfC11Run replays the history and the pick groups of one case on fresh real objects.
func vfC11Run(c *vfC11Case) (v vfC11Vector) {
	v = vfC11Vector{ID: c.ID, W: c.W, Hist: c.Hist, Groups: []vfC11Group{}, PClass: "none", Il: []vfC11Il{}, Mid: []vfC11Mid{}}
	if c.W.Strat2 == "" {
		c.W.Strat2 = "none"
	}
	if c.W.Rfdc2 == nil {
		c.W.Rfdc2 = []string{}
	}
	if c.W.Rfn2 == nil {
		c.W.Rfn2 = []int{}
	}
	if len(c.W.Addr) != len(c.W.Dc) {
		c.W.Addr = make([]int, len(c.W.Dc))
		for i := range c.W.Addr {
			c.W.Addr[i] = i + 1
		}
	}
	v.W = c.W
	e := vfC11New(&c.W)
	for i := 0; i < len(c.Hist); i++ {
		op := c.Hist[i]
		if op.Op == "pick" {
			// earlier picks of a longer history: drained, not recorded here
			for k := 0; k < op.H; k++ {
				e.drain(e.policy.Pick(e.query(-1)))
			}
			continue
		}
		if op.Op == "conc" && i+op.H < len(c.Hist) {
			// the next op.H calls are made at the same moment from as many goroutines
			if msg := e.burst(c.Hist[i+1 : i+1+op.H]); msg != "" {
				v.PMsg, v.PClass, v.PAt = msg, vfC11PanicClass(msg, "op"), i+1
				return v
			}
			i += op.H
			continue
		}
		if op.Op == "par" && i+2 < len(c.Hist) {
			msg, stuck := e.overlap(c.Hist[i+1], c.Hist[i+2])
			if msg != "" || stuck {
				v.PMsg, v.PClass, v.PAt = msg, vfC11PanicClass(msg, "op"), i+2
				return v
			}
			i += 2
			continue
		}
		func() {
			defer func() {
				if r := recover(); r != nil {
					v.PMsg = fmt.Sprint(r)
					v.PClass = vfC11PanicClass(v.PMsg, "op")
					v.PAt = i + 1
				}
			}()
			e.apply(op)
		}()
		if v.PClass != "none" {
			// the policy may hold its mutex forever now: do not touch it again
			return v
		}
	}
	for gi, g := range c.Groups {
		if g.Ks == 0 {
			g.Ks = 1
		}
		out := vfC11Group{Q: g.Q, Ks: g.Ks, K: g.K, Picks: [][]int{}, Capped: []bool{}, Realrep: e.realReplicasKs(g.Q, g.Ks)}
		func() {
			defer func() {
				if r := recover(); r != nil {
					v.PMsg = fmt.Sprint(r)
					v.PClass = vfC11PanicClass(v.PMsg, "pick")
					v.PGrp = gi + 1
				}
			}()
			for k := 0; k < g.K; k++ {
				seq, capped := e.drain(e.policy.Pick(e.queryKs(g.Q, g.Ks)))
				out.Picks = append(out.Picks, seq)
				out.Capped = append(out.Capped, capped)
			}
		}()
		v.Groups = append(v.Groups, out)
		if v.PClass != "none" {
			return v
		}
	}
	for ii, il := range c.Il {
		out := e.interleave(il)
		func() {
			defer func() {
				if r := recover(); r != nil {
					v.PMsg = fmt.Sprint(r)
					v.PClass = vfC11PanicClass(v.PMsg, "pick")
					v.PIl = ii + 1
				}
			}()
			out.run()
		}()
		v.Il = append(v.Il, *out.rec)
		if v.PClass != "none" {
			return v
		}
	}
	// last (it changes nothing that was recorded above): a host goes down in the middle of a plan
	byID := map[int]*HostInfo{}
	for h, id := range e.idx {
		byID[id] = h
	}
	for gi, g := range c.Groups {
		if gi >= 3 {
			break
		}
		if g.Ks == 0 {
			g.Ks = 1
		}
		func() {
			defer func() {
				if r := recover(); r != nil {
					v.PMsg = fmt.Sprint(r)
					v.PClass = vfC11PanicClass(v.PMsg, "pick")
					v.PGrp = gi + 1
				}
			}()
			full, capped := e.drain(e.policy.Pick(e.queryKs(g.Q, g.Ks)))
			if capped || len(full) < 2 || full[len(full)-1] == 0 {
				return
			}
			victim := full[len(full)-1]
			next := e.policy.Pick(e.queryKs(g.Q, g.Ks))
			sh := next()
			if sh == nil || sh.Info() == nil || e.idx[sh.Info()] == victim || byID[victim] == nil || !byID[victim].IsUp() {
				return
			}
			m := vfC11Mid{Q: g.Q, Ks: g.Ks, First: []int{e.idx[sh.Info()]}, Victim: victim}
			byID[victim].setState(NodeDown)
			e.policy.HostDown(byID[victim])
			m.Rest, m.Capped = e.drain(next)
			byID[victim].setState(NodeUp)
			e.policy.HostUp(byID[victim])
			v.Mid = append(v.Mid, m)
		}()
		if v.PClass != "none" {
			return v
		}
	}
	return v
}

type vfC11IlRun struct {
	e     *vfC11Env
	rec   *vfC11Il
	iters []NextHost
	done  []bool
}

func (e *vfC11Env) interleave(il vfC11Il) *vfC11IlRun {
	n := len(il.Qs)
	rec := &vfC11Il{Qs: il.Qs, Sched: il.Sched, Seqs: make([][]int, n), Capped: make([]bool, n), Rep0: []int{}, Rep1: []int{}}
	for i := range rec.Seqs {
		rec.Seqs[i] = []int{}
	}
	return &vfC11IlRun{e: e, rec: rec, iters: make([]NextHost, n), done: make([]bool, n)}
}

// step makes one NextHost call on iterator i (creating it with Pick first if necessary).
func (r *vfC11IlRun) step(i int) {
	if i < 0 || i >= len(r.iters) || r.done[i] {
		return
	}
	if r.iters[i] == nil {
		r.iters[i] = r.e.policy.Pick(r.e.query(r.rec.Qs[i]))
	}
	if len(r.rec.Seqs[i]) >= 4*len(r.e.hosts)+8 {
		r.rec.Capped[i], r.done[i] = true, true
		return
	}
	sh := r.iters[i]()
	if sh == nil {
		r.done[i] = true
		return
	}
	id := 0
	if info := sh.Info(); info != nil {
		id = r.e.idx[info]
	}
	r.rec.Seqs[i] = append(r.rec.Seqs[i], id)
}

func (r *vfC11IlRun) run() {
	r.rec.Rep0 = r.e.realReplicas(r.rec.Qs[0])
	for _, k := range r.rec.Sched {
		r.step(k - 1)
	}
	for i := range r.iters {
		for !r.done[i] {
			r.step(i)
		}
	}
	r.rec.Rep1 = r.e.realReplicas(r.rec.Qs[0])
}

// TestVfC11Cases: spec -> code.  Executes the TLC-generated cases of VF_CASES.
func TestVfC11Cases(t *testing.T) {
	in, err := os.Open(vfC10Env(t, "VF_CASES"))
	if err != nil {
		t.Fatal(err)
	}
	defer in.Close()
	outf, err := os.Create(vfC10Env(t, "VF_RESULTS"))
	if err != nil {
		t.Fatal(err)
	}
	defer outf.Close()
	w := bufio.NewWriterSize(outf, 1<<20)
	defer w.Flush()
	sc := bufio.NewScanner(in)
	sc.Buffer(make([]byte, 1<<20), 1<<24)
	var cases []*vfC11Case
	for sc.Scan() {
		c := new(vfC11Case)
		if err := json.Unmarshal(sc.Bytes(), c); err != nil {
			t.Fatal(err)
		}
		cases = append(cases, c)
	}
	if err := sc.Err(); err != nil {
		t.Fatal(err)
	}
	// cases are independent (fresh objects each): run them on several goroutines, write in order
	out := make([][]byte, len(cases))
	var next int64 = -1
	var wg sync.WaitGroup
	for g := 0; g < 12; g++ {
		wg.Add(1)
		go func() {
			defer wg.Done()
			for {
				i := int(atomic.AddInt64(&next, 1))
				if i >= len(cases) {
					return
				}
				b, err := json.Marshal(vfC11Run(cases[i]))
				if err != nil {
					panic(err)
				}
				out[i] = b
			}
		}()
	}
	wg.Wait()
	for _, b := range out {
		w.Write(b)
		w.WriteByte('\n')
	}
	n := len(cases)
	fmt.Printf("VFSUMMARY {\"executed\": %d}\n", n)
}

var vfC11Keyspaces = []struct {
	strat string
	dcs   []string
	rfs   []int
}{
	{"simple", []string{"*"}, []int{1}},
	{"simple", []string{"*"}, []int{2}},
	{"simple", []string{"*"}, []int{3}},
	{"nts", []string{"dc1", "dc2"}, []int{1, 1}},
	{"nts", []string{"dc1", "dc2"}, []int{2, 2}},
	{"nts", []string{"dc1", "dc2"}, []int{3, 1}},
	{"nts", []string{"dc1"}, []int{2}},
	{"nts", []string{"dc2"}, []int{2}},
	{"nts", []string{"dc1", "dcX"}, []int{2, 1}},
	{"nts", []string{"dc1", "dc2", "dcX"}, []int{1, 0, 1}},
}

func vfC11RandomWorld(rnd *rand.Rand, maxHosts, maxVnodes int) vfC11World {
	w := vfC11World{}
	n := 1 + rnd.Intn(maxHosts)
	type ent struct{ tok, host int }
	var ents []ent
	used := map[int]bool{}
	for h := 1; h <= n; h++ {
		d := rnd.Intn(2)
		if rnd.Intn(3) == 0 {
			d = 0
		}
		w.Dc = append(w.Dc, "dc"+strconv.Itoa(d+1))
		w.Rack = append(w.Rack, "r"+strconv.Itoa(1+rnd.Intn(3)))
		for k, nv := 0, 1+rnd.Intn(maxVnodes); k < nv; k++ {
			tok := 1 + rnd.Intn(1000)
			for used[tok] {
				tok = 1 + rnd.Intn(1000)
			}
			used[tok] = true
			ents = append(ents, ent{tok, h})
		}
	}
	sort.Slice(ents, func(i, j int) bool { return ents[i].tok < ents[j].tok })
	for _, e := range ents {
		w.Ring = append(w.Ring, e.host)
		w.Tokens = append(w.Tokens, e.tok)
	}
	w.Pol = []string{"rr", "dc", "rack"}[rnd.Intn(3)]
	w.Localdc = "dc" + strconv.Itoa(1+rnd.Intn(2))
	w.Localrack = "r" + strconv.Itoa(1+rnd.Intn(3))
	w.Ta = rnd.Intn(4) != 0
	if w.Ta {
		w.Shuffle = rnd.Intn(3) == 0
		w.Nonlocal = rnd.Intn(2) == 0
	}
	ks := vfC11Keyspaces[rnd.Intn(len(vfC11Keyspaces))]
	w.Strat, w.Rfdc, w.Rfn = ks.strat, ks.dcs, ks.rfs
	w.Strat2, w.Rfdc2, w.Rfn2 = "none", []string{}, []int{}
	for i := range w.Dc {
		w.Addr = append(w.Addr, i+1)
	}
	return w
}

// TestVfC11Random: code -> spec.  Seeded random histories of notifications interleaved with
// picks on random clusters; one vector per pick point (the history so far + the picks).
func TestVfC11Random(t *testing.T) {
	outp := vfC10Env(t, "VF_RESULTS")
	seed, _ := strconv.ParseInt(os.Getenv("VF_SEED"), 10, 64)
	count, _ := strconv.Atoi(os.Getenv("VF_COUNT"))
	if count == 0 {
		count = 100
	}
	rnd := rand.New(rand.NewSource(seed*104729 + 11))
	outf, err := os.Create(outp)
	if err != nil {
		t.Fatal(err)
	}
	defer outf.Close()
	wr := bufio.NewWriterSize(outf, 1<<20)
	defer wr.Flush()
	enc := json.NewEncoder(wr)
	id, hists := 0, 0
	for id < count {
		hists++
		w := vfC11RandomWorld(rnd, 6, 3)
		n := len(w.Dc)
		if n >= 2 && rnd.Intn(6) == 0 {
			w.Addr[n-1] = 1 // the last host is a replacement of host 1 at the same address
		}
		var hist []vfC11Op
		// most histories start like a session does; some start from nothing
		if rnd.Intn(4) != 0 {
			if rnd.Intn(2) == 0 {
				hist = append(hist, vfC11Op{"setpart", 0})
			}
			for _, h := range rnd.Perm(n) {
				hist = append(hist, vfC11Op{"add", h + 1})
			}
			hist = append(hist, vfC11Op{"setpart", 0})
			if rnd.Intn(5) != 0 {
				hist = append(hist, vfC11Op{"ks", 0})
			}
		}
		steps := 2 + rnd.Intn(10)
		for s := 0; s < steps && id < count; s++ {
			if rnd.Intn(3) != 0 {
				ops := []string{"add", "remove", "up", "down", "sdown", "up", "down", "add", "setpart", "ks"}
				op := vfC11Op{ops[rnd.Intn(len(ops))], 1 + rnd.Intn(n)}
				if op.Op == "setpart" || op.Op == "ks" {
					op.H = 0
				} else if w.Addr[n-1] != n && (op.H == 1 || op.H == n) && op.Op != "add" && op.Op != "remove" {
					// a replaced node and its replacement are announced and removed, not reported up / down
					// (the token aware layer and its fallback would otherwise disagree about who is at the address)
					op.Op = []string{"add", "remove"}[rnd.Intn(2)]
				}
				hist = append(hist, op)
				continue
			}
			// a pick point: replay the history so far on fresh objects and record the picks
			q := -1
			if rnd.Intn(4) != 0 {
				switch rnd.Intn(3) {
				case 0:
					q = w.Tokens[rnd.Intn(len(w.Tokens))]
				case 1:
					q = w.Tokens[rnd.Intn(len(w.Tokens))] + 1
				default:
					q = rnd.Intn(1006)
				}
			}
			k := 2
			if q < 0 {
				k = n + 1
			}
			id++
			c := &vfC11Case{ID: id, W: w, Hist: append([]vfC11Op{}, hist...), Groups: []vfC11Group{{Q: q, K: k}}}
			if rnd.Intn(2) == 0 {
				// two or three live iterators, mostly for the same token, advanced in a random interleaving
				ni := 2 + rnd.Intn(2)
				il := vfC11Il{}
				qq := q
				if qq < 0 {
					qq = w.Tokens[rnd.Intn(len(w.Tokens))]
				}
				for i := 0; i < ni; i++ {
					switch rnd.Intn(6) {
					case 0:
						il.Qs = append(il.Qs, -1)
					case 1:
						il.Qs = append(il.Qs, rnd.Intn(1006))
					default:
						il.Qs = append(il.Qs, qq)
					}
				}
				for s, ns := 0, 1+rnd.Intn(3*n+2); s < ns; s++ {
					il.Sched = append(il.Sched, 1+rnd.Intn(ni))
				}
				c.Il = []vfC11Il{il}
			}
			v := vfC11Run(c)
			if err := enc.Encode(v); err != nil {
				t.Fatal(err)
			}
			if v.PClass != "none" {
				break
			}
			np := k
			for _, il := range c.Il {
				np += len(il.Qs)
			}
			hist = append(hist, vfC11Op{"pick", np})
		}
	}
	fmt.Printf("VFSUMMARY {\"executed\": %d, \"histories\": %d}\n", id, hists)
}

type vfC11Safety struct {
	ID       int    `json:"id"`
	Pol      string `json:"pol"`
	Ta       bool   `json:"ta"`
	Shuffle  bool   `json:"shuffle"`
	Nonlocal bool   `json:"nonlocal"`
	Strat    string `json:"strat"`
	Picks    int    `json:"picks"`
	Offered  int    `json:"offered"`
	Nils     int    `json:"nils"`
	Capped   int    `json:"capped"`
	Panics   int    `json:"panics"`
	Mutators int    `json:"mutations"`
	PMsg     string `json:"pmsg"`
}

// TestVfC11Concurrent: safety only.  Several goroutines pick and drain while another one
// adds / removes hosts and reports them up / down.  Records counts; TLC checks no panic, no nil
// host, no unbounded iteration (Trace_PoliciesSafety.tla).
func TestVfC11Concurrent(t *testing.T) {
	outp := vfC10Env(t, "VF_RESULTS")
	seed, _ := strconv.ParseInt(os.Getenv("VF_SEED"), 10, 64)
	rounds, _ := strconv.Atoi(os.Getenv("VF_COUNT"))
	if rounds == 0 {
		rounds = 12
	}
	millis, _ := strconv.Atoi(os.Getenv("VF_MILLIS"))
	if millis == 0 {
		millis = 150
	}
	rnd := rand.New(rand.NewSource(seed*15485863 + 5))
	outf, err := os.Create(outp)
	if err != nil {
		t.Fatal(err)
	}
	defer outf.Close()
	enc := json.NewEncoder(outf)
	for id := 1; id <= rounds; id++ {
		w := vfC11RandomWorld(rnd, 6, 3)
		for len(w.Dc) < 3 {
			w = vfC11RandomWorld(rnd, 6, 3)
		}
		// every combination is visited in turn; keyspaces that cannot trip the C10 panic (every
		// datacenter of the ring keeps replicas whatever is removed)
		w.Pol = []string{"rr", "dc", "rack"}[id%3]
		w.Ta = id%4 != 0
		w.Shuffle = w.Ta && id%2 == 0
		w.Nonlocal = w.Ta && (id/2)%2 == 0
		ks := vfC11Keyspaces[[]int{0, 1, 2, 3, 4, 5}[id%6]]
		w.Strat, w.Rfdc, w.Rfn = ks.strat, ks.dcs, ks.rfs
		e := vfC11New(&w)
		e.apply(vfC11Op{"setpart", 0})
		for h := range e.hosts {
			e.apply(vfC11Op{"add", h + 1})
		}
		e.apply(vfC11Op{"ks", 0})
		rec := vfC11Safety{ID: id, Pol: w.Pol, Ta: w.Ta, Shuffle: w.Shuffle, Nonlocal: w.Nonlocal, Strat: w.Strat}
		var mu sync.Mutex
		var stop atomic.Bool
		var wg sync.WaitGroup
		var livePicks, liveMuts int64
		guard := func(f func()) {
			defer func() {
				if r := recover(); r != nil {
					mu.Lock()
					rec.Panics++
					if rec.PMsg == "" {
						rec.PMsg = fmt.Sprint(r)
					}
					mu.Unlock()
				}
			}()
			f()
		}
		for g := 0; g < 4; g++ {
			wg.Add(1)
			r := rand.New(rand.NewSource(seed + int64(id*100+g)))
			go func() {
				defer wg.Done()
				picks, offered, nils, capped := 0, 0, 0, 0
				for !stop.Load() {
					guard(func() {
						q := -1
						if r.Intn(4) != 0 {
							q = r.Intn(1006)
						}
						seq, c := e.drain(e.policy.Pick(e.query(q)))
						picks++
						atomic.AddInt64(&livePicks, 1)
						offered += len(seq)
						if c {
							capped++
						}
						for _, x := range seq {
							if x == 0 {
								nils++
							}
						}
					})
				}
				mu.Lock()
				rec.Picks += picks
				rec.Offered += offered
				rec.Nils += nils
				rec.Capped += capped
				mu.Unlock()
			}()
		}
		wg.Add(1)
		mr := rand.New(rand.NewSource(seed + int64(id*100+99)))
		go func() {
			defer wg.Done()
			n := 0
			for !stop.Load() {
				// host 1 always stays: the ring is never empty
				h := 2 + mr.Intn(len(e.hosts)-1)
				op := []string{"add", "remove", "up", "down"}[mr.Intn(4)]
				guard(func() { e.apply(vfC11Op{op, h}) })
				n++
				atomic.AddInt64(&liveMuts, 1)
				if n%16 == 0 {
					time.Sleep(time.Millisecond)
				}
			}
			mu.Lock()
			rec.Mutators = n
			mu.Unlock()
		}()
		// at least the requested time, and until both sides really ran (a loaded machine may not
		// schedule the mutator at all within the time), at most 10 s
		for t0 := time.Now(); ; {
			time.Sleep(10 * time.Millisecond)
			el := time.Since(t0)
			busy := atomic.LoadInt64(&livePicks) >= 200 && atomic.LoadInt64(&liveMuts) >= 50
			if (el >= time.Duration(millis)*time.Millisecond && busy) || el > 10*time.Second {
				break
			}
			mu.Lock()
			dead := rec.Panics > 0
			mu.Unlock()
			if dead && el >= time.Duration(millis)*time.Millisecond {
				break
			}
		}
		stop.Store(true)
		done := make(chan struct{})
		go func() { wg.Wait(); close(done) }()
		select {
		case <-done:
		case <-time.After(20 * time.Second):
			rec.Panics++
			rec.PMsg = "goroutines did not finish within 20s (stuck policy call)"
		}
		mu.Lock()
		err := enc.Encode(rec)
		mu.Unlock()
		if err != nil {
			t.Fatal(err)
		}
	}
	fmt.Printf("VFSUMMARY {\"executed\": %d}\n", rounds)
}

// ---------------------------------------------------------------- picks through the real queryExecutor

// vfC11SpecQuery is vfC11Query with a speculative execution policy; it counts the executions
// the executor has in flight (borrowForExecution / releaseAfterExecution).
type vfC11SpecQuery struct {
	vfC11Query
	spec SpeculativeExecutionPolicy
	live int32
}

func (q *vfC11SpecQuery) borrowForExecution()                                    { atomic.AddInt32(&q.live, 1) }
func (q *vfC11SpecQuery) releaseAfterExecution()                                 { atomic.AddInt32(&q.live, -1) }
func (q *vfC11SpecQuery) speculativeExecutionPolicy() SpeculativeExecutionPolicy { return q.spec }
func (q *vfC11SpecQuery) withContext(context.Context) ExecutableQuery            { return q }

// vfC11Watch hands out the iterator of the wrapped (real) policy and watches how the executor uses
// it: which hosts the one query was offered, in which order, and whether a call entered NextHost
// while another call was still inside (HostSelectionPolicy.Pick promises that does not happen).
// The first call is slow, so that speculative executions start while the main one is inside.
type vfC11Watch struct {
	HostSelectionPolicy
	idx      map[*HostInfo]int
	inside   int32
	overlaps int32
	calls    int32
	overlap  chan struct{}
	once     sync.Once
	mu       sync.Mutex
	offered  []int
}

func (p *vfC11Watch) Pick(q ExecutableQuery) NextHost {
	next := p.HostSelectionPolicy.Pick(q)
	return func() SelectedHost {
		if atomic.AddInt32(&p.inside, 1) > 1 {
			atomic.AddInt32(&p.overlaps, 1)
			p.once.Do(func() { close(p.overlap) })
		}
		defer atomic.AddInt32(&p.inside, -1)
		if atomic.AddInt32(&p.calls, 1) == 1 {
			select {
			case <-p.overlap:
			case <-time.After(40 * time.Millisecond):
			}
		}
		h := next()
		if h != nil {
			id := 0
			if info := h.Info(); info != nil {
				id = p.idx[info]
			}
			p.mu.Lock()
			p.offered = append(p.offered, id)
			p.mu.Unlock()
		}
		return h
	}
}

// TestVfC11Executor: the hosts ONE query is offered when it runs through the real queryExecutor with
// SimpleSpeculativeExecution: no host has a connection pool, so every execution (main and
// speculative) walks the shared iterator on; the query as a whole must be offered what a single
// iterator offers.  Vectors are judged by TLC like every other pick.
func TestVfC11Executor(t *testing.T) {
	outp := vfC10Env(t, "VF_RESULTS")
	seed, _ := strconv.ParseInt(os.Getenv("VF_SEED"), 10, 64)
	count, _ := strconv.Atoi(os.Getenv("VF_COUNT"))
	if count == 0 {
		count = 40
	}
	rnd := rand.New(rand.NewSource(seed*32452843 + 3))
	outf, err := os.Create(outp)
	if err != nil {
		t.Fatal(err)
	}
	defer outf.Close()
	enc := json.NewEncoder(outf)
	for id := 1; id <= count; id++ {
		w := vfC11RandomWorld(rnd, 6, 3)
		w.Pol = []string{"rr", "dc", "rack"}[id%3]
		w.Ta = id%5 != 0
		w.Shuffle = w.Ta && id%4 == 1
		w.Nonlocal = w.Ta && id%2 == 0
		ks := vfC11Keyspaces[[]int{0, 1, 2, 3, 4, 5}[id%6]]
		w.Strat, w.Rfdc, w.Rfn = ks.strat, ks.dcs, ks.rfs
		n := len(w.Dc)
		hist := []vfC11Op{{"setpart", 0}}
		for _, h := range rnd.Perm(n) {
			hist = append(hist, vfC11Op{"add", h + 1})
		}
		hist = append(hist, vfC11Op{"ks", 0})
		if n > 1 && rnd.Intn(2) == 0 {
			hist = append(hist, vfC11Op{[]string{"down", "sdown"}[rnd.Intn(2)], 1 + rnd.Intn(n)})
		}
		q := -1
		if rnd.Intn(5) != 0 {
			q = rnd.Intn(1006)
		}
		v := vfC11Vector{ID: id, W: w, Hist: hist, Groups: []vfC11Group{}, PClass: "none", Il: []vfC11Il{}}
		e := vfC11New(&w)
		for _, op := range hist {
			e.apply(op)
		}
		watch := &vfC11Watch{HostSelectionPolicy: e.policy, idx: e.idx, overlap: make(chan struct{})}
		exec := &queryExecutor{pool: &policyConnPool{hostConnPools: map[string]*hostConnPool{}}, policy: watch}
		qry := &vfC11SpecQuery{spec: &SimpleSpeculativeExecution{NumAttempts: 1 + id%2, TimeoutDelay: 2 * time.Millisecond}}
		if q >= 0 {
			qry.key = []byte(vfC10Tok("OrderedPartitioner", q))
		}
		realrep := e.realReplicas(q)
		done := make(chan string, 1)
		go func() {
			defer func() {
				if r := recover(); r != nil {
					done <- fmt.Sprint(r)
				}
			}()
			iter, _ := exec.executeQuery(qry)
			if iter == nil || iter.err != ErrNoConnections {
				done <- fmt.Sprintf("unexpected result %+v", iter)
				return
			}
			done <- ""
		}()
		select {
		case msg := <-done:
			if msg != "" {
				v.PClass, v.PMsg, v.PGrp = "pick", msg, 1
			}
		case <-time.After(20 * time.Second):
			v.PClass, v.PMsg, v.PGrp = "pick", "executeQuery did not return within 20s", 1
		}
		// executions that lost the race finish their walk on their own
		for deadline := time.Now().Add(5 * time.Second); atomic.LoadInt32(&qry.live) != 0 && time.Now().Before(deadline); {
			time.Sleep(time.Millisecond)
		}
		watch.mu.Lock()
		offered := append([]int{}, watch.offered...)
		watch.mu.Unlock()
		v.Groups = []vfC11Group{{Q: q, Ks: 1, K: 1, Picks: [][]int{offered}, Capped: []bool{atomic.LoadInt32(&qry.live) != 0}, Realrep: realrep}}
		v.Xov = int(atomic.LoadInt32(&watch.overlaps))
		if err := enc.Encode(v); err != nil {
			t.Fatal(err)
		}
	}
	fmt.Printf("VFSUMMARY {\"executed\": %d}\n", count)
}

// TestVfC11Burst: notification calls that arrive at the same moment (several nodes finish connecting
// together: HostUp / AddHost / RemoveHost / HostDown for DIFFERENT hosts from different goroutines; the
// calls commute on the cluster view).  After quiescence the policy is picked from sequentially; the
// vectors (history with a "conc" marker + picks) are judged by TLC like every other vector: every up
// host the policy knows must be offered.  Verdicts come from the settled state, never from timing.
func TestVfC11Burst(t *testing.T) {
	outp := vfC10Env(t, "VF_RESULTS")
	seed, _ := strconv.ParseInt(os.Getenv("VF_SEED"), 10, 64)
	count, _ := strconv.Atoi(os.Getenv("VF_COUNT"))
	if count == 0 {
		count = 300
	}
	rnd := rand.New(rand.NewSource(seed*49979687 + 7))
	outf, err := os.Create(outp)
	if err != nil {
		t.Fatal(err)
	}
	defer outf.Close()
	wr := bufio.NewWriterSize(outf, 1<<20)
	defer wr.Flush()
	enc := json.NewEncoder(wr)
	for id := 1; id <= count; id++ {
		w := vfC11RandomWorld(rnd, 8, 2)
		for len(w.Dc) < 4 {
			w = vfC11RandomWorld(rnd, 8, 2)
		}
		n := len(w.Dc)
		hist := []vfC11Op{{"setpart", 0}, {"ks", 0}}
		// first burst: every host arrives (AddHost or HostUp) at once
		hist = append(hist, vfC11Op{"conc", n})
		for _, h := range rnd.Perm(n) {
			hist = append(hist, vfC11Op{[]string{"add", "up"}[rnd.Intn(2)], h + 1})
		}
		// second burst: some leave / are reported down while the others are re-announced
		if rnd.Intn(2) == 0 {
			hist = append(hist, vfC11Op{"conc", n})
			for _, h := range rnd.Perm(n) {
				hist = append(hist, vfC11Op{[]string{"remove", "down", "up", "add", "up"}[rnd.Intn(5)], h + 1})
			}
		}
		q := w.Tokens[rnd.Intn(len(w.Tokens))]
		c := &vfC11Case{ID: id, W: w, Hist: hist, Groups: []vfC11Group{{Q: -1, K: 2}, {Q: q, K: 1}}}
		if err := enc.Encode(vfC11Run(c)); err != nil {
			t.Fatal(err)
		}
	}
	fmt.Printf("VFSUMMARY {\"executed\": %d}\n", count)
}
