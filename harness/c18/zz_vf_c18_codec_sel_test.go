package gocql

// the codec under test in this package
func vfC18NewCodec() vfC18Codec { return SnappyCompressor{} }
