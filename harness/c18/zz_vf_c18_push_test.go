package gocql

// C18, server -> driver direction after negotiation (package gocql).
//
// A proxy between the driver and the scripted node re-encodes what the node sends the way a
// Cassandra node does once STARTUP carried COMPRESSION: frames get the compression flag and a
// body compressed with the negotiated algorithm (snappy: the real SnappyCompressor.Encode) -
// responses to every request kind of a full session (control connection: SUPPORTED is before
// STARTUP and stays plain; READY, REGISTER's READY, system-table RESULTs; pool connection:
// RESULT rows / prepared / void) and server-pushed EVENT frames (stream -1) on the registered
// control connection.  Which frames are compressed is the scenario's mode (all | resp | events |
// alt | none): the flag is per frame, so mixtures are legal.
// Recorded: every forwarded frame ("srv": flag, body on the wire, plain body - TLC checks that what
// the proxy sent is a well-formed compressed form of the plain body) and what became of it
// ("resp": value | error | crash ...).  Judged by spec/Trace_Compress.tla.
// Every scenario runs in a child process.

import (
	"bytes"
	"context"
	"encoding/json"
	"fmt"
	"net"
	"os"
	"os/exec"
	"strings"
	"sync"
	"testing"
	"time"
)

type vfC18PushCase struct {
	ID         int    `json:"id"`
	Negotiated string `json:"negotiated"`
	Mode       string `json:"mode"`
	Proto      int    `json:"proto"`
}

type vfC18Fwd struct {
	Conn    int
	Op      byte
	Stream  int
	Flag    bool
	Flags   byte // the frame's flags byte as sent to the driver
	Wire    []byte
	Logical []byte
}

// vfC18Proxy is a HostDialer: dials the scripted node through the shared dialer and puts a
// re-encoding relay between the two ends.
type vfC18Proxy struct {
	inner *vfDialer
	mode  string
	mu    sync.Mutex
	conns []*vfMemConn // the ends handed to the driver
	fwd   []vfC18Fwd
	count int
}

func (p *vfC18Proxy) snapshot() (n int) {
	p.mu.Lock()
	defer p.mu.Unlock()
	return len(p.fwd)
}

func (p *vfC18Proxy) since(n int) []vfC18Fwd {
	p.mu.Lock()
	defer p.mu.Unlock()
	return append([]vfC18Fwd(nil), p.fwd[n:]...)
}

func (p *vfC18Proxy) want(stream int) bool {
	p.count++
	switch p.mode {
	case "all":
		return true
	case "resp":
		return stream >= 0
	case "events":
		return stream < 0
	case "alt":
		return p.count%2 == 0
	}
	return false
}

func (p *vfC18Proxy) DialHost(ctx context.Context, host *HostInfo) (*DialedHost, error) {
	dh, err := p.inner.DialHost(ctx, host)
	if err != nil {
		return nil, err
	}
	inner := dh.Conn
	addr, _ := inner.RemoteAddr().(*net.TCPAddr)
	drv, relay := vfNewMemPair(addr, 0)
	p.mu.Lock()
	ci := len(p.conns)
	p.conns = append(p.conns, drv)
	p.mu.Unlock()
	var nmu sync.Mutex
	negotiated := ""
	// driver -> node: pass through, watch for STARTUP's COMPRESSION
	go func() {
		defer inner.Close()
		for {
			f, err := vfReadFrame(relay)
			if err != nil {
				return
			}
			if f.Op == vfOpStartup {
				q := vfParseRequest(f)
				nmu.Lock()
				negotiated = q.Startup["COMPRESSION"]
				nmu.Unlock()
			}
			if _, err := inner.Write(f.Raw); err != nil {
				return
			}
		}
	}()
	// node -> driver: re-encode
	go func() {
		defer relay.Close()
		for {
			f, err := vfReadFrame(inner)
			if err != nil {
				return
			}
			nmu.Lock()
			neg := negotiated
			nmu.Unlock()
			rec := vfC18Fwd{Conn: ci, Op: f.Op, Stream: f.Stream, Logical: f.Body, Wire: f.Body, Flags: f.Flags}
			raw := f.Raw
			p.mu.Lock()
			do := neg != "" && f.Flags&0x01 == 0 && p.want(f.Stream)
			p.mu.Unlock()
			if do {
				if cp := vfC18Compressor(neg); cp != nil {
					if enc, err := cp.Encode(f.Body); err == nil {
						rec.Flag, rec.Wire, rec.Flags = true, enc, f.Flags|0x01
						raw = vfEncodeFrame(f.Version, f.Flags|0x01, f.Stream, f.Op, enc)
					}
				}
			}
			p.mu.Lock()
			p.fwd = append(p.fwd, rec)
			p.mu.Unlock()
			if _, err := relay.Write(raw); err != nil {
				return
			}
		}
	}()
	return &DialedHost{Conn: drv, DisableCoalesce: true}, nil
}

type vfC18PushVec map[string]interface{}

type vfC18Held struct {
	nc *vfNodeConn
	f  *vfFrame
}

// ---- response flag combinations: the prefixes a response carries when the tracing (0x02), warning (0x08) and
// custom-payload (0x04) flags are set are part of the BODY - <tracing id><warnings><custom payload><message>
// (native protocol v4, section 2.2) - and therefore lie inside the compressed block of a compressed frame.

type vfC18FlagSpec struct {
	Kind    string // rows | void | prep | batch
	T, W, P bool
}

func (fs vfC18FlagSpec) table() string {
	s := "ks.fl_" + fs.Kind + "_"
	if fs.T {
		s += "t"
	}
	if fs.W {
		s += "w"
	}
	if fs.P {
		s += "p"
	}
	return s + "_x"
}

func vfC18ParseFlagSpec(stmt string) (fs vfC18FlagSpec, ok bool) {
	i := strings.Index(stmt, "ks.fl_")
	if i < 0 {
		return fs, false
	}
	parts := strings.SplitN(stmt[i+len("ks.fl_"):], "_", 3)
	if len(parts) < 3 {
		return fs, false
	}
	fs.Kind = parts[0]
	fs.T, fs.W, fs.P = strings.Contains(parts[1], "t"), strings.Contains(parts[1], "w"), strings.Contains(parts[1], "p")
	return fs, true
}

func (fs vfC18FlagSpec) traceID() []byte {
	id := make([]byte, 16)
	copy(id, "T:"+fs.table())
	return id
}
func (fs vfC18FlagSpec) warnings() []string {
	return []string{"warning one for " + fs.table(), "w2"}
}
func (fs vfC18FlagSpec) payload() map[string][]byte {
	return map[string][]byte{"pk": []byte("payload of " + fs.table())}
}

// prefix builds the frame flags and the body prefix of a response.
func (fs vfC18FlagSpec) prefix() (flags byte, pre []byte) {
	w := &vfW{}
	if fs.T {
		flags |= 0x02
		w.Raw(fs.traceID())
	}
	if fs.W {
		flags |= 0x08
		w.StringList(fs.warnings())
	}
	if fs.P {
		flags |= 0x04
		w.Short(1).String("pk").Bytes(fs.payload()["pk"])
	}
	return flags, w.b
}

type vfC18Tracer struct {
	mu  sync.Mutex
	ids [][]byte
}

func (t *vfC18Tracer) Trace(id []byte) {
	t.mu.Lock()
	t.ids = append(t.ids, append([]byte(nil), id...))
	t.mu.Unlock()
}
func (t *vfC18Tracer) has(id []byte) bool {
	t.mu.Lock()
	defer t.mu.Unlock()
	for _, x := range t.ids {
		if bytes.Equal(x, id) {
			return true
		}
	}
	return false
}

func vfC18RunPush(c vfC18PushCase, emit func(vfC18PushVec)) {
	cl := &vfCluster{Partitioner: "org.apache.cassandra.dht.Murmur3Partitioner", Version: "3.11.4"}
	cl.Set([]vfHostDesc{vfDesc(1)})
	n := vfNewNode(cl, vfDesc(1))
	n.Supported = map[string][]string{"CQL_VERSION": {"3.4.5"}, "COMPRESSION": {"snappy", "lz4", "vfxor"}}
	n.Decompress = func(name string, body []byte) ([]byte, error) {
		cp := vfC18Compressor(name)
		if cp == nil {
			return nil, fmt.Errorf("vf: no compressor")
		}
		return cp.Decode(body)
	}
	rows := vfRowsBody(byte(c.Proto), "ks", "tbl", []vfCol{{"v", vfTVarchar}}, [][][]byte{{vfCellText("forty-two")}}, nil, false)
	// highly repetitive results: rows x columns x 4 exceeds the COMPRESSED size of the frame by far
	const nbig = 250
	var same, counted [][][]byte
	for i := 0; i < nbig; i++ {
		same = append(same, [][]byte{vfCellText("aaaaaaaa"), vfCellText("bb")})
		counted = append(counted, [][]byte{vfCellText(fmt.Sprintf("k%05d", i)), vfCellText("vvvvvvvv")})
	}
	cols2 := []vfCol{{"a", vfTVarchar}, {"b", vfTVarchar}}
	bigSame := vfRowsBody(byte(c.Proto), "ks", "big", cols2, same, nil, false)
	bigCounted := vfRowsBody(byte(c.Proto), "ks", "big", cols2, counted, nil, false)
	lateCh := make(chan vfC18Held, 4)
	var prepMu sync.Mutex
	prepared := map[string]string{} // prepared id -> statement
	n.Handler = func(nc *vfNodeConn, f *vfFrame, q *vfRequest) bool {
		switch f.Op {
		case vfOpPrepare:
			prepMu.Lock()
			prepared["id:"+q.Stmt] = q.Stmt
			prepMu.Unlock()
			if fs, ok := vfC18ParseFlagSpec(q.Stmt); ok && fs.Kind == "prep" {
				fl, pre := fs.prefix()
				nc.ReplyFlags(f, fl, vfOpResult, append(pre, vfPreparedBody(f.Version, []byte("id:"+q.Stmt), "ks", "tbl", strings.Count(q.Stmt, "?"), []vfCol{{"v", vfTVarchar}})...))
				return true
			}
			return false
		case vfOpBatch:
			for _, st := range q.BatchStmts {
				if fs, ok := vfC18ParseFlagSpec(st); ok {
					fl, pre := fs.prefix()
					nc.ReplyFlags(f, fl, vfOpResult, append(pre, vfVoidBody()...))
					return true
				}
			}
			return false
		case vfOpExecute:
			prepMu.Lock()
			stmt := prepared[string(q.PreparedID)]
			prepMu.Unlock()
			if strings.Contains(stmt, "ks.late") { // answered by the scenario, after the caller gave up
				lateCh <- vfC18Held{nc: nc, f: f}
				return true
			}
			if fs, ok := vfC18ParseFlagSpec(stmt); ok && (fs.Kind == "rows" || fs.Kind == "void") {
				fl, pre := fs.prefix()
				msg := rows
				if fs.Kind == "void" {
					msg = vfVoidBody()
				}
				nc.ReplyFlags(f, fl, vfOpResult, append(pre, msg...))
				return true
			}
			switch {
			case strings.Contains(stmt, "ks.bigsame"):
				nc.Reply(f, vfOpResult, bigSame)
			case strings.Contains(stmt, "ks.bigcounted"):
				nc.Reply(f, vfOpResult, bigCounted)
			default:
				nc.Reply(f, vfOpResult, rows)
			}
			return true
		case vfOpQuery:
			if strings.Contains(q.Stmt, "ks.rows") {
				nc.Reply(f, vfOpResult, rows)
				return true
			}
		}
		return false
	}
	px := &vfC18Proxy{inner: vfNewDialer(n), mode: c.Mode}
	cfg := vfClusterConfig(px.inner, c.Proto, n.Desc.Addr)
	cfg.HostDialer = px
	cfg.Compressor = vfC18Compressor(c.Negotiated)
	cfg.ReconnectionPolicy = &ConstantReconnectionPolicy{MaxRetries: 1, Interval: time.Millisecond}
	// generous time limits: on a saturated machine a late answer must not read as "not delivered"
	cfg.Timeout = 5 * time.Second
	cfg.ConnectTimeout = 10 * time.Second

	// one "resp" vector per frame forwarded during a step, all with the step's outcome
	report := func(stage string, from int, outcome, detail string) {
		frames := px.since(from)
		if len(frames) == 0 {
			emit(vfC18PushVec{"k": "resp", "negotiated": c.Negotiated, "stage": stage, "kind": c.Mode, "flag": false, "body": []int{},
				"outcome": outcome, "detail": "no frame forwarded during this step; " + detail})
			return
		}
		for _, f := range frames {
			neg := c.Negotiated
			emit(vfC18PushVec{"k": "srv", "negotiated": neg, "stage": stage, "kind": c.Mode, "flag": f.Flag, "fflags": int(f.Flags), "op": int(f.Op), "stream": f.Stream,
				"body": vfC18Ints(f.Wire), "logical": vfC18Ints(f.Logical)})
			emit(vfC18PushVec{"k": "resp", "negotiated": neg, "stage": fmt.Sprintf("%s:op%d", stage, f.Op), "kind": c.Mode, "flag": f.Flag,
				"body": vfC18Ints(f.Wire), "outcome": outcome, "detail": detail})
		}
	}
	oc := func(err error) (string, string) {
		if err != nil {
			return "error", err.Error()
		}
		return "value", ""
	}

	mark := px.snapshot()
	s, err := NewSession(*cfg)
	o, d := oc(err)
	report("session-setup", mark, o, d)
	if err != nil {
		return
	}
	defer s.Close()
	controlStillFirst := func() (bool, string) {
		px.mu.Lock()
		first := px.conns[0]
		nconns := len(px.conns)
		px.mu.Unlock()
		if first.IsClosed() {
			return false, fmt.Sprintf("the control connection was closed (%d connections dialled)", nconns)
		}
		return true, ""
	}

	mark = px.snapshot()
	var v string
	err = s.Query("SELECT v FROM ks.rows").Scan(&v)
	o, d = oc(err)
	if err == nil && v != "forty-two" {
		o, d = "wrong-value", v
	}
	report("rows", mark, o, d)

	// every cell of the big results is compared with what the node sent (the same in every mode, compressed or not)
	bigStep := func(stage, table string, want [][][]byte) {
		mark := px.snapshot()
		iter := s.Query("SELECT a, b FROM ks." + table).PageSize(10000).Iter()
		var a, b string
		rowsSeen, bad := 0, ""
		for iter.Scan(&a, &b) {
			if rowsSeen < len(want) && (a != string(want[rowsSeen][0]) || b != string(want[rowsSeen][1])) && bad == "" {
				bad = fmt.Sprintf("row %d: got (%q, %q)", rowsSeen, a, b)
			}
			rowsSeen++
		}
		o, d := oc(iter.Close())
		if o == "value" && (rowsSeen != len(want) || bad != "") {
			o, d = "wrong-value", fmt.Sprintf("%d of %d rows; %s", rowsSeen, len(want), bad)
		}
		report(stage, mark, o, d)
	}
	if c.Negotiated != "vfxor" && c.Mode != "alt" && c.Mode != "events" { // the xor stand-in does not compress: nothing to learn, and 8 KiB xor bodies are slow in TLC
		bigStep("rows-250-identical", "bigsame", same)
		bigStep("rows-250-counted", "bigcounted", counted)
	}

	// flag combinations on every result kind: what the prefixes carry must reach the caller
	if c.Mode != "events" {
		var specs []vfC18FlagSpec
		if c.Proto >= 4 {
			for m := 0; m < 8; m++ {
				specs = append(specs, vfC18FlagSpec{Kind: "rows", T: m&1 != 0, W: m&2 != 0, P: m&4 != 0})
			}
			for _, k := range []string{"void", "prep", "batch"} {
				for _, m := range []int{1, 3, 6, 7} {
					specs = append(specs, vfC18FlagSpec{Kind: k, T: m&1 != 0, W: m&2 != 0, P: m&4 != 0})
				}
			}
		} else {
			for _, k := range []string{"rows", "void", "prep", "batch"} {
				specs = append(specs, vfC18FlagSpec{Kind: k, T: true})
			}
		}
		for _, fs := range specs {
			mark := px.snapshot()
			tr := &vfC18Tracer{}
			var err error
			var warns []string
			var pay map[string][]byte
			val := ""
			switch fs.Kind {
			case "rows", "void", "prep":
				stmt := "SELECT v FROM " + fs.table() + " WHERE k = ?"
				iter := s.Query(stmt, 1).Trace(tr).Iter()
				if fs.Kind == "rows" {
					iter.Scan(&val)
				}
				warns, pay = iter.Warnings(), iter.GetCustomPayload()
				err = iter.Close()
			case "batch":
				b := s.NewBatch(UnloggedBatch)
				b.Query("INSERT INTO " + fs.table() + " (k) VALUES (1)")
				b.Trace(tr)
				iter := s.executeBatch(b)
				warns, pay = iter.Warnings(), iter.GetCustomPayload()
				err = iter.Close()
			}
			o, d := oc(err)
			if o == "value" {
				var miss []string
				if fs.Kind == "rows" && val != "forty-two" {
					miss = append(miss, fmt.Sprintf("row value %q", val))
				}
				if fs.T && !tr.has(fs.traceID()) {
					miss = append(miss, fmt.Sprintf("tracing id not delivered (tracer got %q)", tr.ids))
				}
				if fs.Kind != "prep" && fs.Kind != "batch" { // warnings / payload of a PREPARE answer or a void BATCH result are not exposed by the driver
					if fs.W && strings.Join(warns, "|") != strings.Join(fs.warnings(), "|") {
						miss = append(miss, fmt.Sprintf("warnings %q", warns))
					}
					if fs.P && !bytes.Equal(pay["pk"], fs.payload()["pk"]) {
						miss = append(miss, fmt.Sprintf("custom payload %q", pay))
					}
				}
				if len(miss) > 0 {
					o, d = "wrong-value", strings.Join(miss, "; ")
				}
			}
			report("flags-"+strings.TrimPrefix(strings.TrimSuffix(fs.table(), "_x"), "ks.fl_"), mark, o, d)
		}
	}

	mark = px.snapshot()
	o, d = oc(s.Query("INSERT INTO ks.tbl (k, v) VALUES (?, ?)", 7, 8).Exec())
	report("prepare+execute", mark, o, d)

	mark = px.snapshot()
	b := s.NewBatch(LoggedBatch)
	b.Query("INSERT INTO ks.tbl (k) VALUES (2)")
	o, d = oc(s.ExecuteBatch(b))
	report("batch", mark, o, d)

	// server-pushed events on the registered (control) connection
	var reg *vfNodeConn
	for _, nc := range n.Conns() {
		if len(nc.Registered) > 0 {
			reg = nc
		}
	}
	if reg == nil {
		emit(vfC18PushVec{"k": "resp", "negotiated": c.Negotiated, "stage": "event", "kind": c.Mode, "flag": false, "body": []int{},
			"outcome": "error", "detail": "no connection registered for events"})
		return
	}
	// events leave the queue when the 1 s debounce timer fires: keep what was flushed too, so that a starved
	// poller on a saturated machine still sees them
	var fmu sync.Mutex
	var flushed []frame
	s.nodeEvents.mu.Lock()
	origCallback := s.nodeEvents.callback
	s.nodeEvents.callback = func(fr []frame) {
		fmu.Lock()
		flushed = append(flushed, fr...)
		fmu.Unlock()
		origCallback(fr)
	}
	s.nodeEvents.mu.Unlock()
	push := func(stage string, body []byte, seen func(frame) bool) {
		mark := px.snapshot()
		reg.Event(body)
		outcome, detail := "error", "the event did not reach the session's event queue within 4 s"
		deadline := time.Now().Add(4 * time.Second)
		for time.Now().Before(deadline) && outcome != "value" {
			s.nodeEvents.mu.Lock()
			for _, f := range s.nodeEvents.events {
				if seen(f) {
					outcome, detail = "value", ""
				}
			}
			s.nodeEvents.mu.Unlock()
			fmu.Lock()
			for _, f := range flushed {
				if seen(f) {
					outcome, detail = "value", ""
				}
			}
			fmu.Unlock()
			if outcome != "value" {
				time.Sleep(5 * time.Millisecond)
			}
		}
		if ok, why := controlStillFirst(); !ok {
			outcome, detail = "error", why
		}
		report(stage, mark, outcome, detail)
		// the connection must still serve requests
		mark = px.snapshot()
		iter := s.control.query("SELECT key FROM system.local")
		var cerr error
		if iter != nil {
			cerr = iter.Close()
		}
		o, d := oc(cerr)
		if ok, why := controlStillFirst(); !ok {
			o, d = "error", why
		}
		if fr := px.since(mark); len(fr) > 0 && fr[0].Conn != 0 {
			o, d = "error", "the control query was answered on another connection"
		}
		report(stage+"+control-query", mark, o, d)
	}
	up := net.IP{10, 0, 0, 9}
	push("event-status", vfStatusEventBody("UP", up, 9042), func(f frame) bool {
		e, ok := f.(*statusChangeEventFrame)
		return ok && e.change == "UP" && e.host.Equal(up) && e.port == 9042
	})
	nn := net.IP{10, 0, 0, 10}
	push("event-topology", vfTopologyEventBody("NEW_NODE", nn, 9043), func(f frame) bool {
		e, ok := f.(*topologyChangeEventFrame)
		return ok && e.change == "NEW_NODE" && e.host.Equal(nn) && e.port == 9043
	})
	// and the session is still usable
	mark = px.snapshot()
	err = s.Query("SELECT v FROM ks.rows").Scan(&v)
	o, d = oc(err)
	if err == nil && v != "forty-two" {
		o, d = "wrong-value", v
	}
	report("rows-after-events", mark, o, d)

	// ---- frames nobody waits for, on the pool connection: (1) the caller of a request gives up (context cancelled)
	// and the node answers afterwards; (2) a response for a stream that has no request at all.  Both are ordinary
	// frames of a connection that negotiated compression: they must be read as negotiated, the connection must stay
	// in step and open, the NEXT request on it must be answered, and nothing is re-dialled.  No timing decides
	// anything here: every step waits for the event it depends on.
	poolState := func() (int, bool) {
		px.mu.Lock()
		defer px.mu.Unlock()
		return len(px.conns), len(px.conns) > 1 && px.conns[len(px.conns)-1].IsClosed()
	}
	waitForwarded := func(mark int) bool {
		for i := 0; i < 4000; i++ {
			if px.snapshot() > mark {
				return true
			}
			time.Sleep(5 * time.Millisecond)
		}
		return false
	}
	afterUnawaited := func(stage string, mark int) {
		nBefore, _ := poolState()
		if !waitForwarded(mark) {
			report(stage, mark, "error", "set-up: the node's frame never passed the proxy")
			return
		}
		// the next request on the same connection
		var v2 string
		qerr := s.Query("SELECT v FROM ks.rows").Scan(&v2)
		o, d := oc(qerr)
		if qerr == nil && v2 != "forty-two" {
			o, d = "wrong-value", v2
		}
		nAfter, closed := poolState()
		if o == "value" && (nAfter != nBefore || closed) {
			o, d = "error", fmt.Sprintf("the connection was closed and re-dialled after the frame (%d -> %d connections)", nBefore, nAfter)
		} else if o != "value" {
			d += fmt.Sprintf(" (%d -> %d connections)", nBefore, nAfter)
		}
		report(stage, mark, o, d)
	}
	{
		ctx, cancel := context.WithCancel(context.Background())
		errc := make(chan error, 1)
		go func() { errc <- s.Query("SELECT v FROM ks.late WHERE k = ?", 1).WithContext(ctx).Exec() }()
		select {
		case h := <-lateCh:
			cancel()
			<-errc // the caller has given up
			mark = px.snapshot()
			h.nc.Reply(h.f, vfOpResult, rows) // the late answer
			afterUnawaited("late-answer-after-caller-gave-up", mark)
			mark = px.snapshot()
			h.nc.Send(vfEncodeFrame(h.f.Version, 0, 12345, vfOpResult, rows)) // a stream nobody uses
			afterUnawaited("answer-for-unused-stream", mark)
		case err := <-errc:
			cancel()
			report("late-answer-after-caller-gave-up", px.snapshot(), "error", fmt.Sprintf("set-up: the request ended before the node saw it: %v", err))
		case <-time.After(30 * time.Second):
			cancel()
			report("late-answer-after-caller-gave-up", px.snapshot(), "error", "set-up: the node never saw the request")
		}
	}
}

func vfC18PushCases() []vfC18PushCase {
	var cases []vfC18PushCase
	add := func(neg, mode string, proto int) {
		cases = append(cases, vfC18PushCase{ID: len(cases), Negotiated: neg, Mode: mode, Proto: proto})
	}
	add("", "none", 4)
	for _, neg := range []string{"snappy", "lz4", "vfxor"} {
		for _, mode := range []string{"all", "resp", "events", "alt", "none"} {
			add(neg, mode, 4)
		}
	}
	add("snappy", "all", 3)
	add("lz4", "events", 3)
	return cases
}

func TestVfC18PushChild(t *testing.T) {
	cs := os.Getenv("VF_C18_PUSH_CASE")
	if cs == "" {
		t.Skip("not a child")
	}
	var c vfC18PushCase
	if err := json.Unmarshal([]byte(cs), &c); err != nil {
		t.Fatal(err)
	}
	var mu sync.Mutex
	vfC18RunPush(c, func(v vfC18PushVec) {
		b, _ := json.Marshal(v)
		mu.Lock()
		fmt.Printf("VFVEC %s\n", b)
		mu.Unlock()
	})
	fmt.Println("VFCHILD done")
}

func TestVfC18Push(t *testing.T) {
	out, done := vfC18Open(t, "VF_C18_PUSH")
	defer done()
	cases := vfC18PushCases()
	work := make(chan vfC18PushCase)
	var wg sync.WaitGroup
	var mu sync.Mutex
	crashes, nvec := 0, 0
	for i := 0; i < 6; i++ {
		wg.Add(1)
		go func() {
			defer wg.Done()
			for c := range work {
				b, _ := json.Marshal(c)
				cmd := exec.Command(os.Args[0], "-test.run", "^TestVfC18PushChild$", "-test.timeout", "90s")
				cmd.Env = append(os.Environ(), "VF_C18_PUSH_CASE="+string(b))
				o, _ := cmd.CombinedOutput()
				finished := bytes.Contains(o, []byte("VFCHILD done"))
				detail := ""
				for _, ln := range strings.Split(string(o), "\n") {
					if strings.HasPrefix(ln, "VFVEC ") {
						var m map[string]interface{}
						if json.Unmarshal([]byte(strings.TrimPrefix(ln, "VFVEC ")), &m) == nil {
							m["proto"] = c.Proto
							out.Emit(m)
							mu.Lock()
							nvec++
							mu.Unlock()
						}
					}
					if strings.HasPrefix(ln, "panic:") || strings.HasPrefix(ln, "fatal error:") {
						detail += strings.TrimSpace(ln) + " "
					}
					if detail != "" && strings.Contains(ln, "/repo/") && !strings.Contains(detail, "/repo/") {
						detail += strings.TrimSpace(ln)
					}
				}
				if !finished {
					mu.Lock()
					crashes++
					mu.Unlock()
					outcome := "crash"
					if strings.Contains(string(o), "test timed out") {
						outcome = "hang"
					}
					out.Emit(map[string]interface{}{"k": "resp", "negotiated": c.Negotiated, "stage": "scenario", "kind": c.Mode, "flag": c.Mode != "none",
						"body": []int{}, "outcome": outcome, "detail": detail, "proto": c.Proto})
				}
			}
		}()
	}
	for _, c := range cases {
		work <- c
	}
	close(work)
	wg.Wait()
	fmt.Printf("VFSUMMARY {\"scenarios\":%d,\"vectors\":%d,\"crashes\":%d}\n", len(cases), nvec, crashes)
}
