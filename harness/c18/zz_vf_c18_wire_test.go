package gocql

// C18, wire part (package gocql):
//  TestVfC18Frames : every request kind built by the real framer with and without a compressor
//                    ("frame" vectors: flags, body on the wire, logical body)
//  TestVfC18Conns  : real sessions against the scripted node for every SUPPORTED set x configured
//                    compressor; every byte the driver wrote is split into frames ("wire" vectors)
//  TestVfC18Resp   : flagged / corrupt response frames sent by the scripted node; each scenario in a
//                    child process ("resp" vectors: value | error | crash | hang)
// Judged by spec/Trace_Compress.tla.

import (
	"bufio"
	"bytes"
	"encoding/binary"
	"encoding/json"
	"errors"
	"fmt"
	"os"
	"os/exec"
	"sort"
	"strconv"
	"strings"
	"sync"
	"sync/atomic"
	"testing"
	"time"
)

// ---------------------------------------------------------------- stand-in compressors

// vfC18LitLz4 is named "lz4" (the real LZ4Compressor lives in another module that this package
// cannot import): Cassandra's length prefix + an LZ4 block assembled here - literals only, or, when
// the data ends in a long periodic stretch (repeated rows), literals + ONE overlapping match +
// 12 final literals.  What it emits is re-read by the TLA+ reference decoder (strict reading).
type vfC18LitLz4 struct{}

func (vfC18LitLz4) Name() string { return "lz4" }

func vfC18LzLen(out []byte, r int) []byte {
	for r >= 255 {
		out = append(out, 255)
		r -= 255
	}
	return append(out, byte(r))
}

func vfC18LzSeq(out, lits []byte, off, mlen int) []byte {
	tok := byte(0)
	if len(lits) >= 15 {
		tok = 0xF0
	} else {
		tok = byte(len(lits) << 4)
	}
	m := mlen - 4
	if mlen > 0 {
		if m >= 15 {
			tok |= 0x0F
		} else {
			tok |= byte(m)
		}
	}
	out = append(out, tok)
	if len(lits) >= 15 {
		out = vfC18LzLen(out, len(lits)-15)
	}
	out = append(out, lits...)
	if mlen > 0 {
		out = append(out, byte(off), byte(off>>8))
		if m >= 15 {
			out = vfC18LzLen(out, m-15)
		}
	}
	return out
}

func (vfC18LitLz4) Encode(data []byte) ([]byte, error) {
	out := make([]byte, 4, len(data)+16)
	binary.BigEndian.PutUint32(out, uint32(len(data)))
	n := len(data)
	// longest stretch data[i:e) with data[j] == data[j-p], e <= n-12, over small periods
	bestI, bestE, bestP := 0, 0, 0
	if n >= 64 {
		for p := 1; p <= 64; p++ {
			i := -1
			for j := p; j <= n-12; j++ {
				if j < n-12 && data[j] == data[j-p] {
					if i < 0 {
						i = j
					}
					continue
				}
				if i >= 0 && j-i > bestE-bestI {
					bestI, bestE, bestP = i, j, p
				}
				i = -1
			}
		}
	}
	if bestE-bestI >= 32 {
		out = vfC18LzSeq(out, data[:bestI], bestP, bestE-bestI)
		return vfC18LzSeq(out, data[bestE:], 0, 0), nil
	}
	return vfC18LzSeq(out, data, 0, 0), nil
}

func (vfC18LitLz4) Decode(data []byte) ([]byte, error) {
	bad := errors.New("vf: malformed lz4 body")
	if len(data) < 5 {
		return nil, bad
	}
	n := int(binary.BigEndian.Uint32(data))
	src := data[4:]
	out := make([]byte, 0, n)
	p := 0
	readLen := func(l int) (int, bool) {
		if l != 15 {
			return l, true
		}
		for {
			if p >= len(src) {
				return 0, false
			}
			b := int(src[p])
			p++
			l += b
			if b != 255 {
				return l, true
			}
		}
	}
	for p < len(src) {
		tok := src[p]
		p++
		ll, ok := readLen(int(tok >> 4))
		if !ok || p+ll > len(src) {
			return nil, bad
		}
		out = append(out, src[p:p+ll]...)
		p += ll
		if p == len(src) {
			break
		}
		if p+2 > len(src) {
			return nil, bad
		}
		off := int(src[p]) | int(src[p+1])<<8
		p += 2
		ml, ok := readLen(int(tok & 15))
		if !ok || off == 0 || off > len(out) {
			return nil, bad
		}
		for k := 0; k < ml+4; k++ {
			out = append(out, out[len(out)-off])
		}
	}
	if len(out) != n {
		return nil, bad
	}
	return out, nil
}

// vfC18Xor stands for a third-party compressor: marker byte, then every byte xor 0x5a.
type vfC18Xor struct{}

func (vfC18Xor) Name() string { return "vfxor" }
func (vfC18Xor) Encode(data []byte) ([]byte, error) {
	out := make([]byte, 1, len(data)+1)
	out[0] = 197
	for _, b := range data {
		out = append(out, b^0x5a)
	}
	return out, nil
}
func (vfC18Xor) Decode(data []byte) ([]byte, error) {
	if len(data) == 0 || data[0] != 197 {
		return nil, errors.New("vf: not a vfxor body")
	}
	out := make([]byte, 0, len(data)-1)
	for _, b := range data[1:] {
		out = append(out, b^0x5a)
	}
	return out, nil
}

func vfC18Compressor(name string) Compressor {
	switch name {
	case "snappy":
		return SnappyCompressor{}
	case "lz4":
		return vfC18LitLz4{}
	case "vfxor":
		return vfC18Xor{}
	}
	return nil
}

type vfC18Out struct {
	mu sync.Mutex
	w  *bufio.Writer
	id int
}

func (o *vfC18Out) Emit(m map[string]interface{}) {
	o.mu.Lock()
	defer o.mu.Unlock()
	m["id"] = o.id
	o.id++
	if _, ok := m["panic"]; !ok {
		m["panic"] = ""
	}
	b, err := json.Marshal(m)
	if err != nil {
		panic(err)
	}
	o.w.Write(b)
	o.w.WriteByte('\n')
}

func vfC18Open(t *testing.T, env string) (*vfC18Out, func()) {
	p := os.Getenv(env)
	if p == "" {
		t.Skip(env + " not set")
	}
	f, err := os.Create(p)
	if err != nil {
		t.Fatal(err)
	}
	o := &vfC18Out{w: bufio.NewWriterSize(f, 1<<20)}
	return o, func() { o.w.Flush(); f.Close() }
}

// vfC18CanonStringMap re-encodes a [string map] body with sorted keys (Go map iteration order is
// random, the order of a STARTUP body means nothing); ok = the body is a complete plain string map.
func vfC18CanonStringMap(body []byte) (canon []byte, ok bool) {
	r := &vfR{b: body}
	m := r.StringMap()
	if r.err != nil || len(r.b) != 0 {
		return body, false
	}
	keys := make([]string, 0, len(m))
	for k := range m {
		keys = append(keys, k)
	}
	sort.Strings(keys)
	w := &vfW{}
	w.Short(len(keys))
	for _, k := range keys {
		w.String(k).String(m[k])
	}
	return w.b, true
}

// ---------------------------------------------------------------- A: framer level

func vfC18Requests(proto int) (names []string, reqs []frameBuilder) {
	add := func(n string, r frameBuilder) {
		names = append(names, n)
		reqs = append(reqs, r)
	}
	big := strings.Repeat("SELECT a, b, c FROM ks.tbl WHERE k = ? AND c > ? ALLOW FILTERING; ", 40)
	vals := []queryValues{{value: []byte{0, 0, 0, 7}}, {value: bytes.Repeat([]byte("xy"), 300)}, {value: nil}, {value: []byte{}}}
	add("options", &writeOptionsFrame{})
	add("startup", &writeStartupFrame{opts: map[string]string{"CQL_VERSION": "3.0.0"}})
	add("startup+compression", &writeStartupFrame{opts: map[string]string{"CQL_VERSION": "3.0.0", "COMPRESSION": "snappy"}})
	add("register", &writeRegisterFrame{events: []string{"TOPOLOGY_CHANGE", "STATUS_CHANGE", "SCHEMA_CHANGE"}})
	add("auth_response", &writeAuthResponseFrame{data: []byte("\x00user\x00password")})
	add("auth_response-empty", &writeAuthResponseFrame{data: []byte{}})
	add("query-small", &writeQueryFrame{statement: "SELECT now() FROM system.local", params: queryParams{consistency: One}})
	add("query-big", &writeQueryFrame{statement: big, params: queryParams{consistency: Quorum, values: vals, pageSize: 5000,
		pagingState: bytes.Repeat([]byte{0xab}, 40)}})
	add("prepare", &writePrepareFrame{statement: big})
	add("execute", &writeExecuteFrame{preparedID: bytes.Repeat([]byte{0x11}, 16), params: queryParams{consistency: LocalQuorum, values: vals, skipMeta: true}})
	add("execute-novalues", &writeExecuteFrame{preparedID: []byte{1}, params: queryParams{consistency: One}})
	add("batch", &writeBatchFrame{typ: LoggedBatch, consistency: Quorum, statements: []batchStatment{
		{statement: "INSERT INTO ks.tbl (k) VALUES (1)"},
		{preparedID: bytes.Repeat([]byte{0x22}, 16), values: vals[:2]},
		{statement: big, values: vals[:1]}}})
	add("batch-empty", &writeBatchFrame{typ: UnloggedBatch, consistency: One})
	if proto >= 4 {
		pl := map[string][]byte{"k": bytes.Repeat([]byte("payload"), 30)}
		add("query-payload", &writeQueryFrame{statement: "SELECT 1", params: queryParams{consistency: One}, customPayload: pl})
		add("prepare-payload", &writePrepareFrame{statement: "SELECT 1", customPayload: pl})
	}
	return
}

func TestVfC18Frames(t *testing.T) {
	out, done := vfC18Open(t, "VF_C18_FRAMES")
	defer done()
	n := 0
	for _, proto := range []int{2, 3, 4} {
		for _, alg := range []string{"", "snappy", "lz4", "vfxor"} {
			for _, tracing := range []bool{false, true} {
				names, _ := vfC18Requests(proto)
				for i, name := range names {
					build := func(c Compressor) (f *vfFrame, pan string) {
						defer func() {
							if r := recover(); r != nil {
								pan = fmt.Sprint(r)
							}
						}()
						_, reqs := vfC18Requests(proto)
						fr := newFramer(c, byte(proto))
						if tracing {
							fr.trace()
						}
						if err := reqs[i].buildFrame(fr, 5+i); err != nil {
							return nil, "buildFrame: " + err.Error()
						}
						var buf bytes.Buffer
						if err := fr.writeTo(&buf); err != nil {
							return nil, "writeTo: " + err.Error()
						}
						frames, rest, err := vfSplitFrames(buf.Bytes())
						if err != nil || len(rest) != 0 || len(frames) != 1 {
							return nil, fmt.Sprintf("not exactly one well-formed frame (length field?): %d frames, %d bytes left, %v", len(frames), len(rest), err)
						}
						return frames[0], ""
					}
					plain, p0 := build(nil)
					if p0 != "" {
						t.Fatalf("cannot build %s without compressor: %s", name, p0)
					}
					wire, p1 := build(vfC18Compressor(alg))
					if plain.Op == vfOpStartup {
						plain.Body, _ = vfC18CanonStringMap(plain.Body)
						if wire != nil {
							wire.Body, _ = vfC18CanonStringMap(wire.Body)
						}
					}
					m := map[string]interface{}{"k": "frame", "alg": alg, "proto": proto, "name": name, "tracing": tracing,
						"op": int(plain.Op), "flags": 0, "wire": []int{}, "logical": vfC18Ints(plain.Body), "panic": p1}
					if wire != nil {
						m["flags"] = int(wire.Flags)
						m["wire"] = vfC18Ints(wire.Body)
						if wire.Op != plain.Op || wire.Stream != plain.Stream || wire.Version != plain.Version {
							m["panic"] = "header differs from the uncompressed build beyond flags/length"
						}
					}
					out.Emit(m)
					n++
				}
			}
		}
	}
	fmt.Printf("VFSUMMARY {\"frames\":%d}\n", n)
}

// ---------------------------------------------------------------- B: connection level

type vfC18ConnCase struct {
	Configured string
	Advertised []string
	AdvKey     bool // SUPPORTED has a COMPRESSION key at all
	Proto      int
	// Auth: "" = the node answers READY to STARTUP; "pw" = AUTHENTICATE, client PasswordAuthenticator;
	// "chain" = AUTHENTICATE, client with a multi-round authenticator; Rounds = AUTH_CHALLENGE frames the
	// node sends before AUTH_SUCCESS (0 for "pw": a challenge to PasswordAuthenticator is property C05's crash)
	Auth   string
	Rounds int
}

const vfC18AuthClass = "org.apache.cassandra.auth.PasswordAuthenticator"

// vfC18Chain answers AUTHENTICATE like PasswordAuthenticator and every AUTH_CHALLENGE with a token
// that depends on the round, so that each AUTH_RESPONSE of the handshake has a body of its own.
type vfC18Chain struct {
	inner PasswordAuthenticator
	round int
}

func (a vfC18Chain) Challenge(req []byte) ([]byte, Authenticator, error) {
	if a.round == 0 {
		resp, _, err := a.inner.Challenge(req)
		if err != nil {
			return nil, nil, err
		}
		return resp, vfC18Chain{inner: a.inner, round: 1}, nil
	}
	return bytes.Repeat([]byte(fmt.Sprintf("round-%d-answer;", a.round)), 4+a.round), vfC18Chain{inner: a.inner, round: a.round + 1}, nil
}
func (a vfC18Chain) Success(data []byte) error { return nil }

// vfC18RunSession creates a full session (control connection + one pool connection) and sends one
// request of every kind; returns, per driver connection, the frames it wrote.
func vfC18RunSession(c vfC18ConnCase) (conns [][]*vfFrame, errText string) {
	cl := &vfCluster{Partitioner: "org.apache.cassandra.dht.Murmur3Partitioner", Version: "3.11.4"}
	cl.Set([]vfHostDesc{vfDesc(1)})
	n := vfNewNode(cl, vfDesc(1))
	n.Supported = map[string][]string{"CQL_VERSION": {"3.4.5"}}
	if c.AdvKey {
		n.Supported["COMPRESSION"] = append([]string{}, c.Advertised...)
	}
	n.Decompress = func(name string, body []byte) ([]byte, error) {
		cp := vfC18Compressor(name)
		if cp == nil {
			return nil, errors.New("vf: no compressor negotiated")
		}
		return cp.Decode(body)
	}
	if c.Auth != "" {
		var amu sync.Mutex
		sent := map[int]int{} // challenges sent per node connection
		n.Handler = func(nc *vfNodeConn, f *vfFrame, q *vfRequest) bool {
			switch f.Op {
			case vfOpStartup:
				nc.Compression = q.Startup["COMPRESSION"]
				nc.Reply(f, vfOpAuthenticate, (&vfW{}).String(vfC18AuthClass).b)
				return true
			case vfOpAuthResponse:
				amu.Lock()
				k := sent[nc.ID]
				sent[nc.ID]++
				amu.Unlock()
				if k < c.Rounds {
					nc.Reply(f, vfOpAuthChallenge, (&vfW{}).Bytes([]byte(fmt.Sprintf("challenge-%d", k))).b)
				} else {
					nc.Reply(f, vfOpAuthSuccess, (&vfW{}).Bytes(nil).b)
				}
				return true
			}
			return false
		}
	}
	d := vfNewDialer(n)
	cfg := vfClusterConfig(d, c.Proto, n.Desc.Addr)
	cfg.DefaultTimestamp = false // bodies must not depend on the clock: they are paired with a compression-off run
	cfg.Timeout = 5 * time.Second
	cfg.ConnectTimeout = 10 * time.Second
	cfg.Compressor = vfC18Compressor(c.Configured)
	pa := PasswordAuthenticator{Username: "cassandra-user", Password: strings.Repeat("s3cr3t-", 6)}
	switch c.Auth {
	case "pw":
		cfg.Authenticator = pa
	case "chain":
		cfg.Authenticator = vfC18Chain{inner: pa}
	}
	cfg.ReconnectionPolicy = &ConstantReconnectionPolicy{MaxRetries: 1, Interval: time.Millisecond}
	s, err := NewSession(*cfg)
	if err != nil {
		errText = "NewSession: " + err.Error()
	} else {
		big := strings.Repeat("INSERT INTO ks.tbl (k, v) VALUES (1, 'aaaaaaaaaaaaaaaaaaaaaaaaaaaaaaaaaaaaaaaa'); ", 30)
		note := func(what string, err error) {
			if err != nil && errText == "" {
				errText = what + ": " + err.Error()
			}
		}
		note("query", s.Query("INSERT INTO ks.tbl (k) VALUES (1)").Exec())
		if c.Auth == "" { // the authentication rows are about the handshake: one request after it is enough
			note("bigquery", s.Query(big).Exec())
			note("bound", s.Query("INSERT INTO ks.tbl (k, v) VALUES (?, ?)", 7, 8).Exec())
			b := s.NewBatch(LoggedBatch)
			b.Query("INSERT INTO ks.tbl (k) VALUES (2)")
			b.Query("INSERT INTO ks.tbl (k) VALUES (?)", 3)
			note("batch", s.ExecuteBatch(b))
		}
		if ok, _ := vfWithin(5*time.Second, s.Close); !ok {
			note("close", errors.New("hung"))
		}
	}
	n.CloseAll()
	d.mu.Lock()
	dcs := append([]*vfMemConn(nil), d.DriverConns[n.Addr.IP.String()]...)
	d.mu.Unlock()
	for _, dc := range dcs {
		frames, rest, err := vfSplitFrames(dc.Written())
		if err != nil || len(rest) != 0 {
			errText += fmt.Sprintf(" | unsplittable driver output (%d bytes left, %v)", len(rest), err)
		}
		conns = append(conns, frames)
	}
	return
}

func TestVfC18Conns(t *testing.T) {
	out, done := vfC18Open(t, "VF_C18_WIRE")
	defer done()
	names := []string{"snappy", "lz4", "vfxor"}
	var advs [][]string
	for m := 0; m < 8; m++ {
		a := []string{}
		for i, nm := range names {
			if m&(1<<uint(i)) != 0 {
				a = append(a, nm)
			}
		}
		advs = append(advs, a)
	}
	nsess, nframes, nopaired := 0, 0, 0
	problems := []string{}
	type authVar struct {
		auth   string
		rounds int
	}
	auths := []authVar{{"", 0}, {"pw", 0}, {"chain", 0}, {"chain", 1}, {"chain", 2}}
	nauthresp := 0
	for _, proto := range []int{3, 4} {
		for _, av := range auths {
			for ai := 0; ai <= len(advs); ai++ {
				cc := vfC18ConnCase{Proto: proto, AdvKey: ai < len(advs), Advertised: []string{}, Auth: av.auth, Rounds: av.rounds}
				if ai < len(advs) {
					cc.Advertised = advs[ai]
				}
				base, berr := vfC18RunSession(cc) // compression off: the logical bodies
				nsess++
				if berr != "" {
					problems = append(problems, fmt.Sprintf("baseline %+v: %s", cc, berr))
				}
				for _, conf := range []string{"", "snappy", "lz4", "vfxor"} {
					cc.Configured = conf
					conns, cerr := base, berr
					if conf != "" {
						conns, cerr = vfC18RunSession(cc)
						nsess++
					}
					if cerr != "" {
						problems = append(problems, fmt.Sprintf("%+v: %s", cc, cerr))
					}
					for ci, frames := range conns {
						startup, after := "", false
						paired := ci < len(base) && len(base[ci]) == len(frames)
						if paired {
							for fi := range frames {
								if frames[fi].Op != base[ci][fi].Op {
									paired = false
								}
							}
						}
						for fi, f := range frames {
							if f.Op == vfOpStartup {
								q := vfParseRequest(f)
								startup = q.Startup["COMPRESSION"]
							}
							m := map[string]interface{}{"k": "wire", "configured": conf, "advertised": cc.Advertised, "advkey": cc.AdvKey,
								"proto": proto, "conn": ci, "idx": fi, "startup": startup, "after": after, "op": int(f.Op), "flags": int(f.Flags),
								"wire": vfC18Ints(f.Body), "haslog": paired && f.Op != vfOpStartup, "logical": []int{}, "plainok": true}
							if f.Op == vfOpStartup {
								_, ok := vfC18CanonStringMap(f.Body)
								m["plainok"] = ok
							} else if f.Op == vfOpOptions {
								m["plainok"] = len(f.Body) == 0
							}
							if paired && f.Op != vfOpStartup {
								m["logical"] = vfC18Ints(base[ci][fi].Body)
							} else {
								nopaired++
							}
							m["auth"] = av.auth
							m["rounds"] = av.rounds
							if f.Op == vfOpAuthResponse {
								nauthresp++
							}
							out.Emit(m)
							nframes++
							if f.Op == vfOpStartup {
								after = true
							}
						}
					}
				}
			}
		}
	}
	pj, _ := json.Marshal(problems)
	fmt.Printf("VFSUMMARY {\"sessions\":%d,\"frames\":%d,\"auth_responses\":%d,\"unpaired\":%d,\"problems\":%s}\n", nsess, nframes, nauthresp, nopaired, pj)
}

// ---------------------------------------------------------------- C: responses

type vfC18RespCase struct {
	ID         int    `json:"id"`
	Negotiated string `json:"negotiated"` // "" or "snappy"
	Stage      string `json:"stage"`      // supported | ready | result | prepared | event
	Flag       bool   `json:"flag"`
	Body       []int  `json:"body"`  // the body put on the wire for that response
	Plain      []int  `json:"plain"` // what it stands for (informational)
	Kind       string `json:"kind"`
}

// snappy, literals only (assembled here, independent of the library; TLC's decoder re-reads it)
func vfC18SnappyLiteral(b []byte) []byte {
	out := []byte{}
	n := len(b)
	for n >= 0x80 {
		out = append(out, byte(n)|0x80)
		n >>= 7
	}
	out = append(out, byte(n))
	for len(b) > 0 {
		k := len(b)
		if k > 60 {
			k = 60
		}
		out = append(out, byte((k-1)<<2))
		out = append(out, b[:k]...)
		b = b[k:]
	}
	return out
}

func vfC18ForgedRows() []byte {
	return vfRowsBody(4, "ks", "tbl", []vfCol{{"v", vfTVarchar}}, [][][]byte{{vfCellText("forged!!!")}}, nil, false)
}

func vfC18RespCases() []vfC18RespCase {
	var cases []vfC18RespCase
	rows := vfRowsBody(4, "ks", "tbl", []vfCol{{"v", vfTVarchar}}, [][][]byte{{vfCellText("forty-two")}}, nil, false)
	plainOf := map[string][]byte{
		"supported": vfSupportedBody(map[string][]string{"CQL_VERSION": {"3.4.5"}, "COMPRESSION": {"snappy"}}, []string{"CQL_VERSION", "COMPRESSION"}),
		"ready":     {},
		"result":    rows,
		"prepared":  vfPreparedBody(4, []byte("id-1"), "ks", "tbl", 1, []vfCol{{"v", vfTVarchar}}),
		"event":     vfStatusEventBody("UP", []byte{10, 0, 0, 9}, 9042),
	}
	for _, neg := range []string{"", "snappy"} {
		for _, stage := range []string{"supported", "ready", "result", "prepared", "event"} {
			plain := plainOf[stage]
			good := vfC18SnappyLiteral(plain)
			add := func(kind string, flag bool, body []byte) {
				cases = append(cases, vfC18RespCase{ID: len(cases), Negotiated: neg, Stage: stage, Flag: flag,
					Body: vfC18Ints(body), Plain: vfC18Ints(plain), Kind: kind})
			}
			add("plain-unflagged", false, plain)
			add("compressed", true, good)
			if len(good) > 1 {
				add("truncated", true, good[:len(good)-1])
			}
			add("plain-but-flagged", true, plain)
			add("garbage", true, []byte{0xff, 0xff, 0xff, 0xff, 0xff, 0x07, 0x00})
			add("empty-flagged", true, []byte{})
			lenp1 := append([]byte(nil), good...)
			lenp1[0]++
			add("length-plus-one", true, lenp1)
			if stage == "result" {
				// a body that is itself a well-formed RESULT frame addressed to ANOTHER request in flight on the same
				// connection: a reader that leaves the body of a refused frame on the socket hands it to that request.
				// (The node rewrites the stream id of the forged frame to the second request's at run time; the
				// recorded body shows stream 1.)
				add("forged-frames", true, vfEncodeFrame(4, 0, 1, vfOpResult, vfC18ForgedRows()))
			}
		}
	}
	return cases
}

// vfC18RunResp executes one scenario in THIS process and returns the outcome.
func vfC18RunResp(c vfC18RespCase) string {
	cl := &vfCluster{Partitioner: "org.apache.cassandra.dht.Murmur3Partitioner", Version: "3.11.4"}
	cl.Set([]vfHostDesc{vfDesc(1)})
	n := vfNewNode(cl, vfDesc(1))
	n.Supported = map[string][]string{"CQL_VERSION": {"3.4.5"}, "COMPRESSION": {"snappy"}}
	n.Decompress = func(name string, body []byte) ([]byte, error) { return SnappyCompressor{}.Decode(body) }
	body := make([]byte, len(c.Body))
	for i, x := range c.Body {
		body[i] = byte(x)
	}
	flags := byte(0)
	if c.Flag {
		flags = 1
	}
	var fired sync.Once
	var armed, warming int32
	var held *vfFrame // touched only on the connection's reader goroutine
	followRows := vfRowsBody(4, "ks", "tbl", []vfCol{{"v", vfTVarchar}}, [][][]byte{{vfCellText("follow-up")}}, nil, false)
	eventSent := make(chan struct{})
	n.Handler = func(nc *vfNodeConn, f *vfFrame, q *vfRequest) bool {
		switch {
		case c.Stage == "supported" && f.Op == vfOpOptions:
			nc.ReplyFlags(f, flags, vfOpSupported, body)
			return true
		case c.Stage == "ready" && f.Op == vfOpStartup:
			nc.Compression = q.Startup["COMPRESSION"]
			nc.ReplyFlags(f, flags, vfOpReady, body)
			return true
		case c.Stage == "result" && (f.Op == vfOpExecute || f.Op == vfOpQuery && strings.Contains(q.Stmt, "ks.tbl")):
			if atomic.LoadInt32(&warming) == 1 { // statement cache warm-up of the two-requests-in-flight scenario
				nc.Reply(f, vfOpResult, followRows)
				return true
			}
			k := atomic.AddInt32(&armed, 1)
			switch {
			case c.Kind == "forged-frames" && k == 1:
				held = f // answered when the second request is in flight
			case c.Kind == "forged-frames" && k == 2:
				// the flagged answer to the FIRST request carries, as its body, a frame addressed to the second one
				nc.ReplyFlags(held, flags, vfOpResult, vfEncodeFrame(f.Version, 0, f.Stream, vfOpResult, vfC18ForgedRows()))
				nc.Reply(f, vfOpResult, followRows)
			case k == 1:
				nc.ReplyFlags(f, flags, vfOpResult, body)
			default: // the FOLLOWING request on the same connection: a plain answer
				nc.Reply(f, vfOpResult, followRows)
			}
			return true
		case c.Stage == "prepared" && f.Op == vfOpPrepare:
			if atomic.AddInt32(&armed, 1) == 1 {
				nc.ReplyFlags(f, flags, vfOpResult, body)
				return true
			}
			return false
		case c.Stage == "prepared" && f.Op == vfOpExecute:
			nc.Reply(f, vfOpResult, followRows)
			return true
		case c.Stage == "event" && f.Op == vfOpRegister:
			nc.Registered = q.Register
			nc.Reply(f, vfOpReady, nil)
			fired.Do(func() {
				go func() {
					time.Sleep(50 * time.Millisecond)
					nc.Send(vfEncodeFrame(f.Version, flags, -1, vfOpEvent, body))
					close(eventSent)
				}()
			})
			return true
		}
		return false
	}
	d := vfNewDialer(n)
	var s *Session
	var err error
	withControl := c.Stage == "event"
	mod := func(cfg *ClusterConfig) {
		cfg.ReconnectionPolicy = &ConstantReconnectionPolicy{MaxRetries: 1, Interval: time.Millisecond}
		cfg.Timeout = 3 * time.Second // a swallowed answer shows as a timeout; keep it well above scheduling noise
		if c.Negotiated == "snappy" {
			cfg.Compressor = SnappyCompressor{}
		}
	}
	// the FOLLOWING request, same statement (already prepared where the first one got that far), same connection:
	// its plain answer must arrive intact whatever happened to the flagged frame before it
	follow := func() {
		stmt, args := "SELECT v FROM ks.tbl", []interface{}{}
		if c.Stage == "prepared" {
			stmt, args = "SELECT v FROM ks.tbl WHERE k = ?", []interface{}{1}
		}
		var v string
		res := make(chan string, 1)
		go func() {
			if qerr := s.Query(stmt, args...).Scan(&v); qerr != nil {
				fmt.Printf("VFCHILD followdetail=%v\n", qerr)
				res <- "error"
			} else if v != "follow-up" {
				fmt.Printf("VFCHILD followdetail=got %q\n", v)
				res <- "wrong-value"
			} else {
				res <- "value"
			}
		}()
		select {
		case r := <-res:
			fmt.Printf("VFCHILD follow=%s\n", r)
		case <-time.After(8 * time.Second):
			fmt.Printf("VFCHILD follow=hang\n")
		}
		d.mu.Lock()
		nd := len(d.DriverConns[n.Addr.IP.String()])
		d.mu.Unlock()
		fmt.Printf("VFCHILD followconns=%d\n", nd)
	}
	done := make(chan string, 1)
	finished := make(chan struct{})
	go func() {
		defer close(finished)
		if withControl {
			cfg := vfClusterConfig(d, 4, n.Desc.Addr)
			mod(cfg)
			s, err = NewSession(*cfg)
		} else {
			s, d, err = vfSingleNodeSession(n, 4, mod)
		}
		if err != nil {
			fmt.Printf("VFCHILD detail=%v\n", err)
			done <- "error"
			return
		}
		defer s.Close()
		switch c.Stage {
		case "result":
			var v string
			if c.Kind == "forged-frames" {
				// two requests in flight: warm the statement cache, then the second request starts while the
				// first is unanswered
				atomic.StoreInt32(&warming, 1)
				s.Query("SELECT v FROM ks.tbl").Exec()
				atomic.StoreInt32(&warming, 0)
				fdone := make(chan struct{})
				go func() {
					defer close(fdone)
					time.Sleep(100 * time.Millisecond)
					follow()
				}()
				defer func() { <-fdone }()
			}
			if qerr := s.Query("SELECT v FROM ks.tbl").Scan(&v); qerr != nil {
				fmt.Printf("VFCHILD detail=%v\n", qerr)
				done <- "error"
			} else if v != "forty-two" {
				done <- "wrong-value:" + v
			} else {
				done <- "value"
			}
			if c.Kind != "forged-frames" {
				follow()
			}
		case "prepared":
			if qerr := s.Query("SELECT v FROM ks.tbl WHERE k = ?", 1).Exec(); qerr != nil {
				fmt.Printf("VFCHILD detail=%v\n", qerr)
				done <- "error"
			} else {
				done <- "value"
			}
			follow()
		case "event":
			select {
			case <-eventSent:
			case <-time.After(3 * time.Second):
				done <- "hang"
				return
			}
			// the control connection either survives the frame (value) or is torn down (error)
			time.Sleep(150 * time.Millisecond)
			d.mu.Lock()
			first := d.DriverConns[n.Addr.IP.String()][0]
			d.mu.Unlock()
			if first.IsClosed() {
				done <- "error"
			} else {
				done <- "value"
			}
		default:
			done <- "value"
		}
	}()
	select {
	case r := <-done:
		select { // let the following request finish (it prints its own outcome)
		case <-finished:
		case <-time.After(12 * time.Second):
		}
		return r
	case <-time.After(15 * time.Second):
		return "hang"
	}
}

func TestVfC18RespChild(t *testing.T) {
	cs := os.Getenv("VF_C18_CHILD_CASE")
	if cs == "" {
		t.Skip("not a child")
	}
	var c vfC18RespCase
	if err := json.Unmarshal([]byte(cs), &c); err != nil {
		t.Fatal(err)
	}
	fmt.Printf("VFCHILD outcome=%s\n", vfC18RunResp(c))
}

func TestVfC18Resp(t *testing.T) {
	out, done := vfC18Open(t, "VF_C18_RESP")
	defer done()
	cases := vfC18RespCases()
	var wg sync.WaitGroup
	work := make(chan vfC18RespCase)
	crashes := 0
	var mu sync.Mutex
	for i := 0; i < 6; i++ {
		wg.Add(1)
		go func() {
			defer wg.Done()
			for c := range work {
				b, _ := json.Marshal(c)
				cmd := exec.Command(os.Args[0], "-test.run", "^TestVfC18RespChild$", "-test.timeout", "60s")
				cmd.Env = append(os.Environ(), "VF_C18_CHILD_CASE="+string(b))
				o, _ := cmd.CombinedOutput()
				outcome, detail := "crash", ""
				fo, fd := "", ""
				for _, ln := range strings.Split(string(o), "\n") {
					if strings.HasPrefix(ln, "VFCHILD follow=") {
						fo = strings.TrimPrefix(ln, "VFCHILD follow=")
					}
					if strings.HasPrefix(ln, "VFCHILD followdetail=") {
						fd += strings.TrimPrefix(ln, "VFCHILD followdetail=") + " "
					}
					if strings.HasPrefix(ln, "VFCHILD followconns=") {
						fd += "connections dialled: " + strings.TrimPrefix(ln, "VFCHILD followconns=")
					}
					if strings.HasPrefix(ln, "VFCHILD outcome=") {
						outcome = strings.TrimPrefix(ln, "VFCHILD outcome=")
					}
					if strings.HasPrefix(ln, "VFCHILD detail=") {
						detail += strings.TrimPrefix(ln, "VFCHILD detail=") + " "
					}
					if strings.HasPrefix(ln, "panic:") || strings.HasPrefix(ln, "fatal error:") {
						detail += strings.TrimSpace(ln) + " "
					}
					if detail != "" && strings.Contains(ln, "/repo/") && !strings.Contains(detail, "/repo/") {
						detail += strings.TrimSpace(ln)
					}
				}
				if outcome == "crash" {
					mu.Lock()
					crashes++
					mu.Unlock()
					if detail == "" {
						tail := o
						if len(tail) > 300 {
							tail = tail[len(tail)-300:]
						}
						detail = strconv.Quote(string(tail))
					}
				}
				out.Emit(map[string]interface{}{"k": "resp", "negotiated": c.Negotiated, "stage": c.Stage, "kind": c.Kind, "flag": c.Flag,
					"body": c.Body, "outcome": outcome, "detail": detail})
				if fo != "" {
					out.Emit(map[string]interface{}{"k": "follow", "negotiated": c.Negotiated, "stage": c.Stage, "kind": c.Kind, "flag": c.Flag,
						"body": c.Body, "first": outcome, "outcome": fo, "detail": fd})
				}
			}
		}()
	}
	for _, c := range cases {
		work <- c
	}
	close(work)
	wg.Wait()
	fmt.Printf("VFSUMMARY {\"scenarios\":%d,\"crashes\":%d}\n", len(cases), crashes)
}

// ---------------------------------------------------------------- D: one session, two nodes that negotiate differently
//
// "Only used as negotiated" is a statement about each connection: node 1 advertises the configured algorithm and
// compresses every RESULT it sends on connections that asked for it (literal-only encoders of this harness, TLC's
// reference decoder re-reads every body), node 2 advertises another algorithm or none. Every answer node 1 compressed
// is a vector of kind "resp" (stage mixed-session): a good compressed frame on a connection that negotiated the
// algorithm must be delivered.
func TestVfC18Mixed(t *testing.T) {
	out, done := vfC18Open(t, "VF_C18_MIXED")
	defer done()
	nsess, nvec, skipped := 0, 0, 0
	none, byTwo := 0, 0
	problems := []string{}
	for _, proto := range []int{3, 4} {
		for _, conf := range []string{"snappy", "lz4"} {
			other := map[string]string{"snappy": "lz4", "lz4": "snappy"}[conf]
			for _, adv2 := range [][]string{{}, {other}, nil} {
				nsess++
				type sent struct {
					node int
					name string
					body []byte
				}
				var mu sync.Mutex
				var log []sent
				cl := &vfCluster{Partitioner: "org.apache.cassandra.dht.Murmur3Partitioner", Version: "3.11.4"}
				cl.Set([]vfHostDesc{vfDesc(1), vfDesc(2)})
				mk := func(i int, adv []string) *vfNode {
					n := vfNewNode(cl, vfDesc(i))
					n.Supported = map[string][]string{"CQL_VERSION": {"3.4.5"}}
					if adv != nil {
						n.Supported["COMPRESSION"] = append([]string{}, adv...)
					}
					n.Decompress = func(name string, body []byte) ([]byte, error) {
						cp := vfC18Compressor(name)
						if cp == nil {
							return nil, errors.New("vf: no compressor negotiated")
						}
						return cp.Decode(body)
					}
					n.Compress = func(nc *vfNodeConn, op byte, body []byte) ([]byte, bool) {
						if op != vfOpResult || nc.Compression == "" {
							return nil, false
						}
						var cb []byte
						switch nc.Compression {
						case "snappy":
							cb = vfC18SnappyLiteral(body)
						case "lz4":
							cb, _ = vfC18LitLz4{}.Encode(body)
						default:
							return nil, false
						}
						mu.Lock()
						log = append(log, sent{i, nc.Compression, append([]byte(nil), cb...)})
						mu.Unlock()
						return cb, true
					}
					return n
				}
				n1, n2 := mk(1, []string{conf}), mk(2, adv2)
				var started2 int32
				n2.Handler = func(nc *vfNodeConn, f *vfFrame, q *vfRequest) bool {
					if f.Op == vfOpStartup {
						atomic.StoreInt32(&started2, 1)
					}
					return false
				}
				d := vfNewDialer(n1, n2)
				cfg := vfClusterConfig(d, proto, n1.Desc.Addr)
				cfg.DefaultTimestamp = false
				cfg.Timeout = 5 * time.Second
				cfg.ConnectTimeout = 10 * time.Second
				cfg.Compressor = vfC18Compressor(conf)
				cfg.ReconnectionPolicy = &ConstantReconnectionPolicy{MaxRetries: 1, Interval: time.Millisecond}
				s, err := NewSession(*cfg)
				if err != nil {
					problems = append(problems, fmt.Sprintf("mixed %s/%v proto %d: NewSession: %v", conf, adv2, proto, err))
					n1.CloseAll()
					n2.CloseAll()
					continue
				}
				// the pool of node 2 fills in the background: wait until it has completed a handshake
				for i := 0; i < 2000 && atomic.LoadInt32(&started2) == 0; i++ {
					time.Sleep(time.Millisecond)
				}
				time.Sleep(5 * time.Millisecond) // (scheduling only: which node answers is recorded, not assumed)
				for q := 0; q < 12; q++ {
					mu.Lock()
					before := len(log)
					mu.Unlock()
					err := s.Query(fmt.Sprintf("INSERT INTO ks.tbl (k) VALUES (%d)", q/4)).Exec()
					mu.Lock()
					news := append([]sent(nil), log[before:]...)
					mu.Unlock()
					// (a DML statement is prepared first: PREPARED and the RESULT of EXECUTE, both compressed by node 1)
					fromOne := len(news) > 0
					for _, x := range news {
						if x.node != 1 {
							fromOne = false
						}
					}
					if len(news) == 0 {
						none++
					} else if !fromOne {
						byTwo++
					}
					if !fromOne {
						skipped++ // answered by node 2 / uncompressed: not a vector
						continue
					}
					outcome, detail := "value", ""
					if err != nil {
						outcome, detail = "error", err.Error()
						if strings.Contains(detail, "timeout") || strings.Contains(detail, "no connections") || strings.Contains(detail, "no hosts") {
							problems = append(problems, "mixed: "+detail)
							continue
						}
						news = news[len(news)-1:] // the query ended with the answer it could not take
					}
					for _, x := range news {
						out.Emit(map[string]interface{}{"k": "resp", "negotiated": x.name, "stage": "mixed-session", "flag": true,
							"kind": fmt.Sprintf("good-second-node-advertises-%v", adv2), "body": vfC18Ints(x.body), "outcome": outcome, "detail": detail})
						nvec++
					}
				}
				vfWithin(5*time.Second, s.Close)
				n1.CloseAll()
				n2.CloseAll()
			}
		}
	}
	pj, _ := json.Marshal(problems)
	fmt.Printf("VFSUMMARY {\"sessions\":%d,\"vectors\":%d,\"skipped\":%d,\"uncompressed\":%d,\"by_node2\":%d,\"problems\":%s}\n", nsess, nvec, skipped, none, byTwo, pj)
}
