package gocql

// C18, request side, dense body sizes: QUERY / EXECUTE / BATCH frames carrying ONE random
// (incompressible) blob value of n bytes, for a dense range of n, built by the real framer with a
// compressor and without ("frame" vectors: flags, body on the wire, logical body).  Incompressible
// bodies make the compressed form LONGER than the plain one, and the sizes walk the plain frame
// through every fill level of the framer's append-grown buffer.  Judged by spec/Trace_Compress.tla
// (the body on the wire, decoded by the reference decoder, is the logical body).

import (
	"bytes"
	"fmt"
	"math/rand"
	"os"
	"sort"
	"strconv"
	"testing"
)

func vfC18BlobSizes(seed int, thorough bool) []int {
	set := map[int]bool{}
	if thorough {
		for n := 0; n <= 6000; n++ {
			set[n] = true
		}
	} else {
		for n := 0; n <= 1300; n++ { // every fill level of the first buffer growth steps
			set[n] = true
		}
		for p := 2048; p <= 8192; p *= 2 { // around powers of two (append growth steps), both sides
			for d := -140; d <= 20; d++ {
				set[p+d] = true
			}
		}
		rnd := rand.New(rand.NewSource(int64(seed)*31 + 4))
		for n := 1300 + rnd.Intn(23); n <= 6000; n += 23 { // a seed-rotated comb over the rest
			set[n] = true
		}
	}
	var l []int
	for n := range set {
		if n >= 0 {
			l = append(l, n)
		}
	}
	sort.Ints(l)
	return l
}

func TestVfC18Blobs(t *testing.T) {
	out, done := vfC18Open(t, "VF_C18_BLOBS")
	defer done()
	seed, _ := strconv.Atoi(os.Getenv("VF_SEED"))
	thorough := os.Getenv("VF_TIER") == "thorough"
	rnd := rand.New(rand.NewSource(int64(seed)*104729 + 18))
	nvec := 0
	for _, n := range vfC18BlobSizes(seed, thorough) {
		blob := make([]byte, n)
		rnd.Read(blob)
		proto := 4
		if n%7 == 3 {
			proto = 3
		}
		kind := []string{"query", "execute", "batch"}[n%3]
		mk := func() frameBuilder {
			vals := []queryValues{{value: blob}}
			switch kind {
			case "query":
				return &writeQueryFrame{statement: "INSERT INTO ks.t (b) VALUES (?)", params: queryParams{consistency: Quorum, values: vals}}
			case "execute":
				return &writeExecuteFrame{preparedID: bytes.Repeat([]byte{0x5a}, 16), params: queryParams{consistency: One, values: vals}}
			}
			return &writeBatchFrame{typ: UnloggedBatch, consistency: One, statements: []batchStatment{
				{preparedID: bytes.Repeat([]byte{0x6b}, 16), values: vals}}}
		}
		build := func(c Compressor) (f *vfFrame, pan string) {
			defer func() {
				if r := recover(); r != nil {
					pan = fmt.Sprint(r)
				}
			}()
			fr := newFramer(c, byte(proto))
			if err := mk().buildFrame(fr, 9); err != nil {
				return nil, "buildFrame: " + err.Error()
			}
			var buf bytes.Buffer
			if err := fr.writeTo(&buf); err != nil {
				return nil, "writeTo: " + err.Error()
			}
			frames, rest, err := vfSplitFrames(buf.Bytes())
			if err != nil || len(rest) != 0 || len(frames) != 1 {
				return nil, fmt.Sprintf("not exactly one well-formed frame: %d frames, %d bytes left, %v", len(frames), len(rest), err)
			}
			return frames[0], ""
		}
		plain, p0 := build(nil)
		if p0 != "" {
			t.Fatalf("cannot build %s/%d without compressor: %s", kind, n, p0)
		}
		algs := []string{"snappy", "lz4"}
		if n%16 == 0 {
			algs = append(algs, "vfxor")
		}
		for _, alg := range algs {
			wire, p1 := build(vfC18Compressor(alg))
			m := map[string]interface{}{"k": "frame", "alg": alg, "proto": proto, "name": fmt.Sprintf("%s-blob%d", kind, n), "tracing": false,
				"blob": n, "op": int(plain.Op), "flags": 0, "wire": []int{}, "logical": vfC18Ints(plain.Body), "panic": p1}
			if wire != nil {
				m["flags"] = int(wire.Flags)
				m["wire"] = vfC18Ints(wire.Body)
			}
			out.Emit(m)
			nvec++
		}
	}
	fmt.Printf("VFSUMMARY {\"blob_frames\":%d}\n", nvec)
}
