package gocql

// C17: load-robust wall-clock verdicts.  Every verdict of the form "X did not happen" is taken the same
// way: poll for the good condition and leave at once when it holds (so good runs cost nothing); declare the
// violation only after a generous deadline AND an event-based argument that nothing can still be in flight
// (lifecycle-event counter unchanged, nothing busy, the goroutine in question blocked in the very same frame)
// over several samples spanning more than two seconds after the deadline; if things keep moving up to the
// hard cap the outcome is "unsure" and the check ends INCONCLUSIVE, never with a violation.

import (
	"regexp"
	"strings"
	"sync"
	"sync/atomic"
	"time"
)

type vfC17Outcome int

const (
	vfC17Good   vfC17Outcome = iota // the good condition was observed
	vfC17Bad                        // deadline passed, nothing in flight, still not good: a verdict
	vfC17Unsure                     // still moving at the hard cap: no verdict
)

func (o vfC17Outcome) String() string { return [...]string{"good", "bad", "unsure"}[o] }

func vfC17DeadlineD() time.Duration {
	return time.Duration(vfEnvInt("VF_C17_DEADLINE_MS", 30000)) * time.Millisecond
}
func vfC17HardCapD() time.Duration { return 2*vfC17DeadlineD() + 10*time.Second }

const (
	vfC17QuietSamples = 5
	vfC17SampleGap    = 600 * time.Millisecond
	vfC17QuietTicks   = 1000 // canary ticks a quiet window must span as well (about 1 s on an idle machine)
)

// A canary goroutine that does nothing but sleep 1 ms and count: on an overloaded machine it advances as slowly as
// every other goroutine, so "the canary advanced by N" is a load-normalised measure of how much chance the driver's
// goroutines had to run.  Quiet windows must span a minimum of wall-clock time AND of canary ticks.
var (
	vfC17Ticks      int64
	vfC17CanaryOnce sync.Once
)

func vfC17TickCount() int64 {
	vfC17CanaryOnce.Do(func() {
		go func() {
			for {
				time.Sleep(time.Millisecond)
				atomic.AddInt64(&vfC17Ticks, 1)
			}
		}()
	})
	return atomic.LoadInt64(&vfC17Ticks)
}

// vfC17Settle: good() is polled with early exit.  act() counts lifecycle events, busy() says whether something
// is known to be in flight (a dial, a fill).  Both may be nil.
func vfC17Settle(good func() bool, act func() int64, busy func() bool) vfC17Outcome {
	start := time.Now()
	deadline := start.Add(vfC17DeadlineD())
	for i := 0; ; i++ {
		if good() {
			return vfC17Good
		}
		if time.Now().After(deadline) {
			break
		}
		switch {
		case i < 200:
			time.Sleep(100 * time.Microsecond)
		case i < 2000:
			time.Sleep(time.Millisecond)
		default:
			time.Sleep(10 * time.Millisecond)
		}
	}
	hard := start.Add(vfC17HardCapD())
	for time.Now().Before(hard) {
		quiet := true
		var a0 int64
		if act != nil {
			a0 = act()
		}
		t0 := vfC17TickCount()
		for k := 0; k < vfC17QuietSamples || vfC17TickCount()-t0 < vfC17QuietTicks; k++ {
			if good() {
				return vfC17Good
			}
			if (busy != nil && busy()) || (act != nil && act() != a0) {
				quiet = false
				break
			}
			if !time.Now().Before(hard) {
				quiet = false
				break
			}
			time.Sleep(vfC17SampleGap)
		}
		if good() {
			return vfC17Good
		}
		if quiet && (busy == nil || !busy()) && (act == nil || act() == a0) {
			return vfC17Bad
		}
	}
	return vfC17Unsure
}

var vfC17MinutesRe = regexp.MustCompile(`, \d+ minutes`)

// vfC17GoroutineBlocked extracts the state of a goroutine block ("chan send", "select", ...) and tells
// whether it is a blocked state.
func vfC17GoroutineBlocked(g string) bool {
	i := strings.Index(g, "[")
	j := strings.Index(g, "]")
	if i < 0 || j < i {
		return false
	}
	st := g[i+1 : j]
	for _, b := range []string{"chan send", "chan receive", "select", "semacquire", "sync.Mutex.Lock", "sync.RWMutex", "sync.Cond.Wait", "sync.WaitGroup.Wait", "IO wait", "sleep"} {
		if strings.HasPrefix(st, b) {
			return true
		}
	}
	return false
}

// vfC17Hung waits for done (early exit).  After the deadline the call counts as hung only when the goroutine
// selected by find (its block in a goroutine dump, "" if absent) sits blocked in the very same frames in every
// one of several samples spanning more than two seconds (and act(), if given, does not move).
func vfC17Hung(done <-chan struct{}, find func(dump string) string, act func() int64) (vfC17Outcome, string) {
	select {
	case <-done:
		return vfC17Good, ""
	case <-time.After(vfC17DeadlineD()):
	}
	hard := time.Now().Add(vfC17HardCapD() - vfC17DeadlineD())
	last := ""
	for time.Now().Before(hard) {
		stable := true
		first := ""
		var a0 int64
		if act != nil {
			a0 = act()
		}
		t0 := vfC17TickCount()
		for k := 0; k < vfC17QuietSamples || vfC17TickCount()-t0 < vfC17QuietTicks; k++ {
			if !time.Now().Before(hard) {
				stable = false
				break
			}
			select {
			case <-done:
				return vfC17Good, ""
			default:
			}
			dump := vfGoroutineDump()
			last = dump
			g := vfC17MinutesRe.ReplaceAllString(find(dump), "")
			if g == "" || !vfC17GoroutineBlocked(g) || (k > 0 && g != first) || (act != nil && act() != a0) {
				stable = false
				break
			}
			first = g
			select {
			case <-done:
				return vfC17Good, ""
			case <-time.After(vfC17SampleGap):
			}
		}
		if stable {
			return vfC17Bad, last
		}
		time.Sleep(vfC17SampleGap)
	}
	select {
	case <-done:
		return vfC17Good, ""
	default:
	}
	return vfC17Unsure, last
}

// vfC17FindGoroutine returns a finder for the first goroutine block that contains every marker.
func vfC17FindGoroutine(markers ...string) func(string) string {
	return func(dump string) string {
		for _, g := range strings.Split(dump, "\n\n") {
			ok := true
			for _, m := range markers {
				if !strings.Contains(g, m) {
					ok = false
					break
				}
			}
			if ok {
				return g
			}
		}
		return ""
	}
}

// vfC17HungFn runs fn on a goroutine of its own and judges it with vfC17Hung; the goroutine looked at is the one
// alt selects (e.g. the goroutine inside Session.Close) or, failing that, the spawned goroutine itself.
func vfC17HungFn(fn func(), alt func(string) string) (vfC17Outcome, string) {
	gidc := make(chan string, 1)
	done := make(chan struct{})
	go func() {
		gidc <- vfC17CurGoroutineID()
		defer close(done)
		fn()
	}()
	pre := "goroutine " + <-gidc + " ["
	find := func(dump string) string {
		if alt != nil {
			if g := alt(dump); g != "" {
				return g
			}
		}
		for _, g := range strings.Split(dump, "\n\n") {
			if strings.HasPrefix(g, pre) {
				return g
			}
		}
		return ""
	}
	return vfC17Hung(done, find, nil)
}

// vfC17Go runs fn on its own goroutine and returns a channel closed when it returned.
func vfC17Go(fn func()) <-chan struct{} {
	done := make(chan struct{})
	go func() { defer close(done); fn() }()
	return done
}
