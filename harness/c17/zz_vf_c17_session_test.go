package gocql

// C17, part 3: real Sessions over the scripted cluster.
//  - TestVfC17Sessions: seeded random runs (NumConns 1..3, queries from several goroutines,
//    connections killed from the node side, node down/up, host removal through a ring refresh,
//    Close at a seeded point: single, twice, concurrently, with queries / a refresh in flight).
//    Every p_* pool event, every dial and every connection close is logged; after Close returned:
//    query result, connections still open after a bounded wait, leaked goroutines.  The log is
//    validated by TLC (spec/Trace_PoolMon.tla).
//  - TestVfC17Scenarios: the named interleavings (deterministic, forced through gates).

import (
	"context"
	"errors"
	"fmt"
	"math/rand"
	"net"
	"os"
	"runtime"
	"sort"
	"strings"
	"sync"
	"sync/atomic"
	"testing"
	"time"
)

type vfC17DialRec struct {
	id   int
	mem  *vfMemConn
	nc   *vfNodeConn
	node string
}

type vfC17Run struct {
	id       int
	numConns int
	tr       *vfTracer
	cl       *vfCluster
	nodes    []*vfNode
	base     *vfDialer
	sess     *Session

	mu       sync.Mutex
	dials    []*vfC17DialRec
	filter   func(h *HostInfo)      // optional hook called from the HostFilter
	reject   func(h *HostInfo) bool // optional: the HostFilter rejects the host when this returns true
	onDial   func(ip string)        // optional hook called by the dialer before it connects (may park)
	csc      *vfScope
	closeErr int32    // != 0: every socket's Close() reports an error
	act      int64    // lifecycle events: successful dials, connection closes, pool adds / removals / closes
	inDial   int32    // DialHost calls in flight
	pools    sync.Map // *hostConnPool -> true: every pool of the session whose hooks fired
}

// poolsOf returns the host pools of this run's session seen so far (through their hooks) for one address.
func (r *vfC17Run) poolsOf(ip string) []*hostConnPool {
	var out []*hostConnPool
	r.pools.Range(func(k, _ interface{}) bool {
		p := k.(*hostConnPool)
		if p.host.ConnectAddress().String() == ip {
			out = append(out, p)
		}
		return true
	})
	return out
}

func (r *vfC17Run) actN() int64 { return atomic.LoadInt64(&r.act) }
func (r *vfC17Run) busy() bool  { return atomic.LoadInt32(&r.inDial) > 0 }

type vfC17RunDialer struct{ run *vfC17Run }

func (d *vfC17RunDialer) DialHost(ctx context.Context, host *HostInfo) (*DialedHost, error) {
	r := d.run
	atomic.AddInt32(&r.inDial, 1)
	defer atomic.AddInt32(&r.inDial, -1)
	ip := host.ConnectAddress().String()
	n := r.base.Node(ip)
	if n == nil {
		return nil, &net.OpError{Op: "dial", Net: "tcp", Err: fmt.Errorf("vf: no route to %s", ip)}
	}
	if err := ctx.Err(); err != nil {
		return nil, err
	}
	r.mu.Lock()
	hook := r.onDial
	r.mu.Unlock()
	if hook != nil {
		hook(ip)
	}
	c, nc, err := n.Dial()
	if err != nil {
		return nil, err
	}
	r.mu.Lock()
	id := len(r.dials) + 1
	r.dials = append(r.dials, &vfC17DialRec{id: id, mem: c, nc: nc, node: ip})
	r.mu.Unlock()
	prev := c.onClose
	c.onClose = func() {
		if prev != nil {
			prev()
		}
		atomic.AddInt64(&r.act, 1)
		r.tr.Emit("h_conn_closed", "obj", 0, "a", id)
	}
	atomic.AddInt64(&r.act, 1)
	r.tr.Emit("h_dial_ok", "obj", 0, "a", id)
	return &DialedHost{Conn: &vfC17Conn{vfMemConn: c, failClose: &r.closeErr}}, nil
}

func (r *vfC17Run) openConns() []int {
	r.mu.Lock()
	defer r.mu.Unlock()
	out := []int{}
	for _, d := range r.dials {
		if !d.mem.IsClosed() {
			out = append(out, d.id)
		}
	}
	return out
}

// openPerHost counts the open driver-side connections per node address, the control connection excluded.
func (r *vfC17Run) openPerHost() map[string]int {
	var ctl *vfMemConn
	if r.sess != nil && r.sess.control != nil {
		if ch := r.sess.control.getConn(); ch != nil && ch.conn != nil {
			ctl = vfC17MemOf(ch.conn.conn)
		}
	}
	r.mu.Lock()
	defer r.mu.Unlock()
	out := map[string]int{}
	for _, d := range r.dials {
		if !d.mem.IsClosed() && d.mem != ctl {
			out[d.node]++
		}
	}
	return out
}

func (r *vfC17Run) liveNodeConns() []*vfC17DialRec {
	r.mu.Lock()
	defer r.mu.Unlock()
	var out []*vfC17DialRec
	for _, d := range r.dials {
		if !d.mem.IsClosed() {
			out = append(out, d)
		}
	}
	return out
}

// the hooks of pools that belong to a run's session (found through the session's dialer)
var vfC17RouterOnce sync.Once

func vfC17InstallRouter() {
	vfC17RouterOnce.Do(func() {
		sc := vfNewScope()
		sc.OnEvent = func(point string, obj interface{}, s string, a int, err error) {
			p, ok := obj.(*hostConnPool)
			if !ok || p.session == nil {
				return
			}
			d, ok := p.session.cfg.HostDialer.(*vfC17RunDialer)
			if !ok {
				return
			}
			if point == "p_close" && p.session.ctx.Err() != nil && !p.session.Closed() {
				d.run.tr.Emit("h_ctx_cancelled_before_pool_close", "obj", d.run.tr.ObjID(p), "a", 0, "size", p.size)
			}
			d.run.pools.Store(p, true)
			switch point {
			case "p_connect_add", "p_connect_late", "p_handle_error", "p_close":
				atomic.AddInt64(&d.run.act, 1) // (fills that fail against a down node are not progress)
			}
			d.run.tr.Emit(point, "obj", d.run.tr.ObjID(p), "a", a, "size", p.size)
		}
		vfDefault.Store(sc)
	})
}

// the connection hooks of a run's session go to a scope of its own, dropped after the run (the
// default scope would otherwise collect the connection events of every session of the process)
func (r *vfC17Run) bindConnScope() {
	r.csc = vfNewScope()
	r.csc.BindSession(r.sess)
}

func (r *vfC17Run) dropConnScope() {
	if r.csc == nil {
		return
	}
	vfSessScope.Delete(r.sess)
	vfScopes.Range(func(k, v interface{}) bool {
		if v == interface{}(r.csc) {
			vfScopes.Delete(k)
		}
		return true
	})
}

// vfC17NewRun sets up a scripted cluster and a real Session over it.  Set-up is retried: on a heavily loaded
// machine a handshake or the initial system.local query can exceed even generous timeouts, and a set-up that
// fails says nothing about the property.
func vfC17NewRun(id, nNodes, numConns int, mod func(*ClusterConfig)) (r *vfC17Run, err error) {
	for attempt := 0; attempt < 4; attempt++ {
		if r, err = vfC17NewRunOnce(id, nNodes, numConns, mod); err == nil {
			return r, nil
		}
		time.Sleep(time.Duration(100*(attempt+1)) * time.Millisecond)
	}
	return r, err
}

func vfC17NewRunOnce(id, nNodes, numConns int, mod func(*ClusterConfig)) (*vfC17Run, error) {
	vfC17InstallRouter()
	r := &vfC17Run{id: id, numConns: numConns, tr: vfNewTracer()}
	r.cl = &vfCluster{Partitioner: "org.apache.cassandra.dht.Murmur3Partitioner", Version: "3.11.4"}
	var descs []vfHostDesc
	for i := 1; i <= nNodes; i++ {
		d := vfDesc(i)
		descs = append(descs, d)
		r.nodes = append(r.nodes, vfNewNode(r.cl, d))
	}
	r.cl.Set(descs)
	r.base = vfNewDialer(r.nodes...)
	cfg := vfClusterConfig(r.base, 4, "10.0.0.1")
	cfg.HostDialer = &vfC17RunDialer{run: r}
	cfg.NumConns = numConns
	// generous: no scenario relies on a driver timeout firing (nodes answer or hang up at once, refused dials fail
	// at once); short ones only make set-up fail under load
	cfg.Timeout = 5 * time.Second
	cfg.ConnectTimeout = 5 * time.Second
	cfg.ReconnectInterval = 60 * time.Millisecond
	cfg.ReconnectionPolicy = &ConstantReconnectionPolicy{MaxRetries: 1, Interval: time.Millisecond}
	cfg.HostFilter = HostFilterFunc(func(h *HostInfo) bool {
		r.mu.Lock()
		f := r.filter
		rej := r.reject
		r.mu.Unlock()
		if f != nil {
			f(h)
		}
		if rej != nil && rej(h) {
			return false
		}
		return true
	})
	if mod != nil {
		mod(cfg)
	}
	s, err := NewSession(*cfg)
	if err != nil {
		return r, err
	}
	r.sess = s
	r.bindConnScope()
	return r, nil
}

const vfC17CloseWatchdog = 3 * time.Second // bounded waits that are not verdicts (verdicts: zz_vf_c17_wait_test.go)

// vfC17DriverGoroutines returns the goroutines the driver started and still owns: the goroutine's
// entry function is in package gocql (not a vf* / TestVf* function) and so is its creator.
// (Frames of the harness may be on top: a driver goroutine blocked in a read sits in vfMemConn.Read.)
func vfC17DriverGoroutines() []string {
	dump := vfGoroutineDump()
	var out []string
	for _, g := range strings.Split(dump, "\n\n") {
		if e := vfC17EntryFunc(g); e != "" {
			out = append(out, g)
		}
	}
	return out
}

// vfC17OnFlusher reports whether the calling goroutine is a refreshDebouncer's flusher (the ring refresh).
func vfC17OnFlusher() bool {
	buf := make([]byte, 16384)
	n := runtime.Stack(buf, false)
	return strings.Contains(string(buf[:n]), "refreshDebouncer).flusher")
}

func vfC17CurGoroutineID() string {
	buf := make([]byte, 64)
	n := runtime.Stack(buf, false)
	return vfC17GoroutineID(string(buf[:n]))
}

func vfC17GoroutineID(g string) string {
	g = strings.TrimPrefix(g, "goroutine ")
	if i := strings.Index(g, " "); i > 0 {
		return g[:i]
	}
	return g
}

func vfC17IsHarnessFunc(f string) bool {
	return strings.Contains(f, "gocql.vf") || strings.Contains(f, "gocql.(*vf") || strings.Contains(f, "gocql.TestVf") ||
		strings.Contains(f, "gocql.Vf")
}

// vfC17EntryFunc returns the short name of the goroutine's entry function when the goroutine is
// driver-owned, "" otherwise.
func vfC17EntryFunc(g string) string {
	lines := strings.Split(g, "\n")
	entry, creator := "", ""
	for _, line := range lines {
		if strings.HasPrefix(line, "created by ") {
			creator = strings.TrimPrefix(line, "created by ")
			if i := strings.Index(creator, " in goroutine"); i > 0 {
				creator = creator[:i]
			}
			continue
		}
		if line == "" || line[0] == '\t' || strings.HasPrefix(line, "goroutine ") {
			continue
		}
		entry = line
	}
	if i := strings.LastIndex(entry, "("); i > 0 {
		entry = entry[:i]
	}
	const pkg = "github.com/gocql/gocql."
	if !strings.HasPrefix(entry, pkg) || vfC17IsHarnessFunc(entry) {
		return ""
	}
	if creator == "" || !strings.HasPrefix(creator, pkg) || vfC17IsHarnessFunc(creator) {
		return ""
	}
	f := strings.TrimPrefix(entry, pkg)
	return strings.NewReplacer("(*", "", ")", "").Replace(f)
}

func vfC17TopFunc(g string) string { return vfC17EntryFunc(g) }

func vfC17QueryClass(err error) string {
	switch {
	case err == nil:
		return "ok"
	case errors.Is(err, ErrSessionClosed):
		return "session-closed"
	default:
		return "other"
	}
}

type vfC17SessResult struct {
	recs        []vfC17Rec
	hang        bool
	hangSig     string
	dump        string
	plan        string
	leakDump    string
	rescued     bool
	unsure      string // a wall-clock observation that could not be settled: the run gives no verdict
	leak        string
	stuck       string
	perHostOver string
}

func (r *vfC17Run) records(sched int, end vfC17Rec) []vfC17Rec {
	recs := []vfC17Rec{{Sched: sched, Ev: "init", Size: r.numConns, Conns: []int{}, Open: []int{}, Dead: []int{}}}
	for _, e := range r.tr.Events() {
		a, _ := e["a"].(int)
		obj, _ := e["obj"].(int)
		size, ok := e["size"].(int)
		if !ok {
			size = r.numConns
		}
		recs = append(recs, vfC17Rec{Sched: sched, Ev: e["ev"].(string), Obj: obj, A: a, Size: size, Conns: []int{}, Open: []int{}, Dead: []int{}})
	}
	recs = append(recs, end)
	for i := range recs {
		recs[i].K = i
		recs[i].Sched = sched
	}
	return recs
}

// vfC17HangSig classifies a hanging Session.Close of session s from a goroutine dump: where the
// goroutine running s.Close is blocked and, for the refresh debouncer, what its flusher is doing
// (the debouncer is identified by the receiver pointer printed in the frames).
func vfC17HangSig(dump string, s *Session) string {
	gs := strings.Split(dump, "\n\n")
	self := fmt.Sprintf("gocql.(*Session).Close(%p", s)
	for _, g := range gs {
		if !strings.Contains(g, self) {
			continue
		}
		switch {
		case strings.Contains(g, "refreshDebouncer).stop("):
			ptr := ""
			if i := strings.Index(g, "refreshDebouncer).stop("); i >= 0 {
				rest := g[i+len("refreshDebouncer).stop("):]
				if j := strings.IndexAny(rest, ",)"); j > 0 {
					ptr = rest[:j]
				}
			}
			for _, f := range gs {
				if strings.Contains(f, "refreshDebouncer).flusher("+ptr) {
					if strings.Contains(f, "gocql.(*Session).refreshRing") {
						return "refresh-flusher-waits-for-itself"
					}
					return "refresh-debouncer-stop-flusher-busy"
				}
			}
			return "refresh-debouncer-stop" // the flusher is gone
		case strings.Contains(g, "eventDebouncer).stop"):
			return "event-debouncer-stop"
		case strings.Contains(g, "controlConn).close"):
			return "control-conn-close"
		case strings.Contains(g, "hostConnPool).HandleError") && strings.Contains(g, "hostConnPool).Close"):
			return "pool-close-reenters-HandleError"
		case strings.Contains(g, "policyConnPool).Close"):
			// waiting for a host pool's lock: who sits on it?
			for _, f := range gs {
				if strings.Contains(f, "hostConnPool).HandleError") && strings.Contains(f, "hostConnPool).connect") {
					return "pool-close-blocked-by-connect-late-arrival-reentering-HandleError"
				}
				if strings.Contains(f, "hostConnPool).HandleError") && strings.Contains(f, "hostConnPool).Close") {
					return "pool-close-blocked-by-Close-reentering-HandleError"
				}
			}
			return "pool-close"
		}
		return "other"
	}
	return "no-close-goroutine"
}

// closeAndObserve runs fn (the Close calls) under the watchdog and then makes the observations the
// property speaks about.
func (r *vfC17Run) closeAndObserve(sched int, plan string, closers func()) vfC17SessResult {
	res := vfC17SessResult{plan: plan}
	r.tr.Emit("h_close_start", "obj", 0, "a", 0)
	evs := r.tr.Events()
	closeStart := evs[len(evs)-1]["seq"].(int64)
	// Close returns: early exit; a hang is declared only after the deadline with the goroutine that runs
	// Session.Close blocked in the very same frames over several samples (vfC17Hung)
	oc, dump := vfC17Hung(vfC17Go(closers), vfC17FindGoroutine(fmt.Sprintf("gocql.(*Session).Close(%p", r.sess)), nil)
	end := vfC17Rec{Sched: sched, Ev: "s_end", Size: r.numConns, Conns: []int{}, Open: []int{}, Dead: []int{}, Q: "none"}
	if oc == vfC17Unsure {
		res.unsure = "Session.Close had not returned at the hard cap but was not provably stuck"
		end.Q = "unsure"
		res.recs = r.records(sched, end)
		return res
	}
	if oc == vfC17Bad {
		res.hang, res.dump = true, dump
		res.hangSig = vfC17HangSig(dump, r.sess)
		end.Q = "hang"
		res.recs = r.records(sched, end)
		if res.hangSig == "refresh-debouncer-stop" || res.hangSig == "refresh-flusher-waits-for-itself" {
			// the verdict is recorded; take the quit hand-shake the flusher no longer takes, so that the
			// stuck Close ends and the goroutine check of the batch stays meaningful
			for i := 0; i < 200 && !r.sess.Closed(); i++ {
				select {
				case <-r.sess.ringRefresher.quit:
				case <-time.After(10 * time.Millisecond):
				}
			}
			res.rescued = r.sess.Closed()
		}
		return res
	}
	// a new query must fail at once with the session-closed error
	var qerr error
	qo, _ := vfC17Hung(vfC17Go(func() { qerr = r.sess.Query("SELECT x FROM t").Exec() }),
		vfC17FindGoroutine("gocql.(*Query).Exec", "closeAndObserve"), nil)
	switch qo {
	case vfC17Good:
		end.Q = vfC17QueryClass(qerr)
	case vfC17Bad:
		end.Q = "query-hang"
	default:
		res.unsure = "a query after Close had not returned at the hard cap"
		end.Q = "unsure"
	}
	// every dialed connection is closed: early exit; a leak is declared only after the deadline with no
	// dial in flight and no connection opened / closed / added / removed any more
	if vfC17Settle(func() bool { return len(r.openConns()) == 0 }, r.actN, r.busy) == vfC17Unsure {
		res.unsure = "connections were still being opened / closed at the hard cap after Close"
		end.Q = "unsure"
	}
	end.Open = r.openConns()
	if len(end.Open) > 0 {
		// which mechanism left them open (selects the key of the finding, not the verdict)
		res.leak = "unclassified"
		r.sess.pool.mu.RLock()
		var left []*hostConnPool
		for _, p := range r.sess.pool.hostConnPools {
			left = append(left, p)
		}
		r.sess.pool.mu.RUnlock()
		if len(left) > 0 {
			// pools still registered: were they all created after Close had started?
			late := true
			first := map[int]int64{}
			for _, e := range r.tr.Events() {
				obj, _ := e["obj"].(int)
				if _, ok := first[obj]; !ok && obj != 0 {
					first[obj] = e["seq"].(int64)
				}
			}
			for _, p := range left {
				if sq, ok := first[r.tr.ObjID(p)]; !ok || sq <= closeStart {
					late = false
				}
			}
			if late {
				res.leak = "pool-added-during-close"
			} else {
				res.leak = "pool-not-closed"
			}
		} else if r.sess.control != nil {
			if ch := r.sess.control.getConn(); ch != nil && ch.conn != nil {
				if mc := vfC17MemOf(ch.conn.conn); mc != nil && !mc.IsClosed() {
					res.leak = "control-conn-installed-after-close"
				}
			}
		}
	}
	if res.leak == "unclassified" {
		// a connection in the hands of a goroutine that waits for a pool lock held for good
		if sig := vfC17LockSig(vfGoroutineDump(), nil); sig != "unknown" {
			res.leak = "pool-lock-deadlock:" + sig
		}
	}
	res.recs = r.records(sched, end)
	return res
}

func (r *vfC17Run) queryBurst(rng *rand.Rand, wg *sync.WaitGroup, n int, stop *int32) {
	for g := 0; g < 3; g++ {
		wg.Add(1)
		go func(g int) {
			defer wg.Done()
			for i := 0; i < n; i++ {
				if atomic.LoadInt32(stop) != 0 {
					return
				}
				ctx, cancel := context.WithTimeout(context.Background(), 500*time.Millisecond)
				r.sess.Query("INSERT INTO t (a) VALUES (?)", i).WithContext(ctx).Exec()
				cancel()
			}
		}(g)
	}
}

// one seeded random run
func vfC17RandomRun(seed int64, sched int) (res vfC17SessResult, err error) {
	gid := vfC17CurGoroutineID()
	rng := rand.New(rand.NewSource(seed))
	nNodes := 2 + rng.Intn(2)
	numConns := 1 + rng.Intn(3)
	r, err := vfC17NewRun(sched, nNodes, numConns, nil)
	if err != nil {
		return res, fmt.Errorf("NewSession: %v", err)
	}
	s := r.sess
	var plan []string
	if rng.Intn(2) == 0 {
		// every socket of this run reports an error from Close() (closing re-enters the error handlers)
		atomic.StoreInt32(&r.closeErr, 1)
		plan = append(plan, "sockets-fail-close")
	}
	var wg sync.WaitGroup
	var stop int32
	nops := 4 + rng.Intn(8)
	removed := map[int]bool{}
	for i := 0; i < nops; i++ {
		switch op := rng.Intn(7); op {
		case 0, 1:
			plan = append(plan, "queries")
			r.queryBurst(rng, &wg, 3+rng.Intn(5), &stop)
		case 2:
			live := r.liveNodeConns()
			if len(live) > 0 {
				d := live[rng.Intn(len(live))]
				plan = append(plan, fmt.Sprintf("kill%d", d.id))
				r.tr.Emit("h_kill", "obj", 0, "a", d.id)
				d.nc.Close()
			}
		case 3:
			k := 1 + rng.Intn(nNodes-1) // never the contact point
			n := r.nodes[k]
			n.mu.Lock()
			down := n.Down
			n.Down = !down
			n.mu.Unlock()
			if !down {
				plan = append(plan, fmt.Sprintf("down%d", k+1))
				n.CloseAll()
			} else {
				plan = append(plan, fmt.Sprintf("up%d", k+1))
			}
		case 4:
			// host removal / re-addition through a ring refresh
			k := 1 + rng.Intn(nNodes-1)
			removed[k] = !removed[k]
			var descs []vfHostDesc
			for j := 0; j < nNodes; j++ {
				if !removed[j] {
					descs = append(descs, vfDesc(j+1))
				}
			}
			r.cl.Set(descs)
			plan = append(plan, fmt.Sprintf("ring%v", len(descs)))
			wg.Add(1)
			go func() { defer wg.Done(); s.refreshRing() }()
		case 5:
			plan = append(plan, "sleep")
			time.Sleep(time.Duration(5+rng.Intn(70)) * time.Millisecond)
		case 6:
			plan = append(plan, "pick")
			for _, h := range s.ring.allHosts() {
				if p, ok := s.pool.getPool(h); ok {
					p.Pick()
				}
			}
		}
		if rng.Intn(3) == 0 {
			time.Sleep(time.Duration(rng.Intn(20)) * time.Millisecond)
		}
	}
	mode := rng.Intn(6)
	var closers func()
	switch mode {
	case 0:
		plan = append(plan, "close")
		vfWithin(vfC17CloseWatchdog, wg.Wait) // callers that never return are reported after Close
		// quiescence: the dialer must not see more than NumConns open pool connections to any host (two
		// pools for one host, a fill that over-counts, ... all end up here); transient excess is given 1.5 s
		over := ""
		if vfC17Settle(func() bool {
			over = ""
			for ip, n := range r.openPerHost() {
				if n > numConns {
					over = fmt.Sprintf("%s:%d", ip, n)
				}
			}
			return over == ""
		}, r.actN, r.busy) == vfC17Bad {
			res.perHostOver = over
		}
		closers = s.Close
	case 1:
		plan = append(plan, "close-twice")
		vfWithin(vfC17CloseWatchdog, wg.Wait)
		closers = func() { s.Close(); s.Close() }
	case 2:
		plan = append(plan, "close-concurrent")
		closers = func() {
			var cw sync.WaitGroup
			for i := 0; i < 3; i++ {
				cw.Add(1)
				go func() { defer cw.Done(); s.Close() }()
			}
			cw.Wait() // the working Close is one of the three
		}
	case 3:
		plan = append(plan, "close-with-queries")
		r.queryBurst(rng, &wg, 20, &stop)
		time.Sleep(time.Duration(rng.Intn(5)) * time.Millisecond)
		closers = s.Close
	case 5:
		// Close while a refresh is in progress (parked between GetHosts and the host loop) and further
		// refreshes are requested - by the harness and, when the control connection is lost at that
		// moment, by controlConn.reconnect on a driver goroutine
		plan = append(plan, "close-with-refresh-in-progress-and-pending")
		parked := make(chan struct{})
		release := make(chan struct{})
		var once sync.Once
		r.mu.Lock()
		r.filter = func(h *HostInfo) {
			if !vfC17OnFlusher() {
				return
			}
			fire := false
			once.Do(func() { fire = true })
			if fire {
				close(parked)
				<-release
			}
		}
		r.mu.Unlock()
		wg.Add(1)
		go func() { defer wg.Done(); s.refreshRing() }()
		select {
		case <-parked:
		case <-time.After(time.Second):
		}
		if rng.Intn(2) == 0 {
			if ch := s.control.getConn(); ch != nil && ch.conn != nil {
				for _, d := range r.liveNodeConns() {
					if d.mem == vfC17MemOf(ch.conn.conn) {
						plan = append(plan, "kill-control")
						d.nc.Close()
					}
				}
			}
		}
		for i := 0; i < 1+rng.Intn(2); i++ {
			wg.Add(1)
			go func() { defer wg.Done(); s.refreshRing() }()
		}
		time.Sleep(time.Duration(rng.Intn(8000)) * time.Microsecond)
		relDelay := time.Duration(rng.Intn(6000)) * time.Microsecond
		closers = func() {
			go func() { time.Sleep(relDelay); close(release) }()
			s.Close()
		}
	default:
		plan = append(plan, "close-with-refresh")
		wg.Add(1)
		go func() { defer wg.Done(); s.refreshRing() }()
		if rng.Intn(2) == 0 {
			time.Sleep(time.Duration(rng.Intn(3000)) * time.Microsecond)
		}
		closers = s.Close
	}
	pho := res.perHostOver
	res = r.closeAndObserve(sched, strings.Join(plan, ","), closers)
	res.perHostOver = pho
	if res.unsure != "" {
		atomic.StoreInt32(&stop, 1)
		r.dropConnScope()
		return res, nil
	}
	if pho != "" {
		// recorded for TLC as an event of the run: a = open connections, size = NumConns
		var n int
		fmt.Sscanf(pho[strings.LastIndex(pho, ":")+1:], "%d", &n)
		end := res.recs[len(res.recs)-1]
		res.recs = append(res.recs[:len(res.recs)-1], vfC17Rec{Sched: sched, K: len(res.recs) - 1, Ev: "h_host_conns", A: n, Size: numConns,
			Conns: []int{}, Open: []int{}, Dead: []int{}, Q: pho}, end)
		res.recs[len(res.recs)-1].K = len(res.recs) - 1
	}
	atomic.StoreInt32(&stop, 1)
	defer r.dropConnScope()
	if !res.hang {
		// in-flight callers return (bounded): queries fail, the refresh is answered or refused
		me0 := " in goroutine " + gid + "\n"
		wo, dump := vfC17Hung(vfC17Go(wg.Wait), func(d string) string {
			// a caller this run started that sits in driver code
			for _, g := range strings.Split(d, "\n\n") {
				if strings.Contains(g+"\n", me0) && strings.Contains(g, "github.com/gocql/gocql.(*") && !strings.Contains(g, "WaitGroup).Wait") {
					return g
				}
			}
			return ""
		}, r.actN)
		if wo == vfC17Unsure {
			res.unsure = "callers in flight during Close had not returned at the hard cap but were not provably stuck"
		}
		if wo == vfC17Bad {
			res.leakDump = dump
			// which calls of this run never returned: the first driver frame of the goroutines this
			// run's goroutine started
			me := " in goroutine " + gid + "\n"
			funcs := map[string]bool{}
			for _, g := range strings.Split(dump, "\n\n") {
				if !strings.Contains(g+"\n", me) {
					continue
				}
				for _, line := range strings.Split(g, "\n") {
					if strings.HasPrefix(line, "github.com/gocql/gocql.") && !vfC17IsHarnessFunc(line) {
						f := strings.TrimPrefix(line, "github.com/gocql/gocql.")
						if i := strings.LastIndex(f, "("); i > 0 {
							f = f[:i]
						}
						funcs[strings.NewReplacer("(*", "", ")", "").Replace(f)] = true
						break
					}
				}
			}
			var fl []string
			for f := range funcs {
				fl = append(fl, f)
			}
			sort.Strings(fl)
			res.stuck = strings.Join(fl, ",")
			last := &res.recs[len(res.recs)-1]
			if last.Q == "session-closed" {
				last.Q = "caller-stuck"
			}
		}
	}
	return res, nil
}

// TestVfC17Sessions writes VF_TRACES (NDJSON of vfC17Rec) and VF_TRACES.info (per run plan / dumps).
func TestVfC17Sessions(t *testing.T) {
	outPath := os.Getenv("VF_TRACES")
	if outPath == "" {
		t.Skip("VF_TRACES not set")
	}
	out, err := vfCreateNDJSON(outPath)
	if err != nil {
		t.Fatal(err)
	}
	defer out.Close()
	info, err := vfCreateNDJSON(outPath + ".info")
	if err != nil {
		t.Fatal(err)
	}
	defer info.Close()
	nRuns := vfEnvInt("VF_NRUNS", 24)
	batch := vfEnvInt("VF_BATCH", 8)
	seed := vfSeed()
	sched := 0
	errs := 0
	excluded := map[string]bool{}
	for b := 0; b*batch < nRuns; b++ {
		var wg sync.WaitGroup
		var mu sync.Mutex
		hung, anyHang := false, false
		batchUnsure := ""
		for i := 0; i < batch && b*batch+i < nRuns; i++ {
			sched++
			wg.Add(1)
			go func(sched int) {
				defer wg.Done()
				res, err := vfC17RandomRun(seed*100003+int64(sched), sched)
				mu.Lock()
				defer mu.Unlock()
				if err != nil {
					errs++
					info.Write(map[string]interface{}{"sched": sched, "error": err.Error()})
					return
				}
				for _, r := range res.recs {
					out.Write(r)
				}
				if res.hang || res.leak != "" {
					anyHang = true // what a hanging Close or a leaked connection leaves behind is its consequence
				}
				if res.hang && !res.rescued {
					hung = true
				}
				info.Write(map[string]interface{}{"sched": sched, "plan": res.plan, "hang": res.hang, "sig": res.hangSig,
					"dump": res.dump, "callers": res.leakDump, "leak": res.leak, "stuck": res.stuck, "per_host_over": res.perHostOver, "unsure": res.unsure})
			}(sched)
		}
		wg.Wait()
		// goroutine leak check for the batch: every session of the batch has been closed.  A batch with a
		// hanging Close is not judged (the hang is the verdict); what it left behind is excluded later.
		var gs []string
		live := func() []string {
			var out []string
			for _, g := range vfC17DriverGoroutines() {
				if !excluded[vfC17GoroutineID(g)] {
					out = append(out, g)
				}
			}
			return out
		}
		if anyHang {
			time.Sleep(100 * time.Millisecond)
			for _, g := range vfC17DriverGoroutines() {
				excluded[vfC17GoroutineID(g)] = true
			}
		} else {
			// early exit when none is left; a leak is declared only when the very same goroutines are still there
			// over several samples after the deadline
			idsum := func() int64 {
				var h int64
				for _, g := range live() {
					for _, c := range vfC17GoroutineID(g) {
						h = h*131 + int64(c)
					}
					h = h*7 + 1
				}
				return h
			}
			if vfC17Settle(func() bool { gs = live(); return len(gs) == 0 }, idsum, nil) == vfC17Unsure {
				batchUnsure = "driver goroutines were still coming and going at the hard cap after the batch was closed"
				gs = nil
			}
		}
		if batchUnsure != "" {
			info.Write(map[string]interface{}{"sched": 100000 + b, "unsure": batchUnsure})
		}
		funcs := map[string]bool{}
		for _, g := range gs {
			funcs[vfC17TopFunc(g)] = true
			excluded[vfC17GoroutineID(g)] = true // reported once, not again with every later batch
		}
		lockSig := ""
		if len(gs) > 0 {
			// goroutines that can never end because a pool method waits for the lock it holds
			if sig := vfC17LockSig(strings.Join(gs, "\n\n"), nil); sig != "unknown" {
				lockSig = "pool-lock-deadlock:" + sig
			}
		}
		var fl []string
		for f := range funcs {
			fl = append(fl, f)
		}
		sort.Strings(fl)
		brec := vfC17Rec{Sched: 100000 + b, Ev: "b_end", Conns: []int{}, Open: []int{}, Dead: []int{}, Gor: len(gs), Q: strings.Join(fl, ",")}
		if lockSig != "" {
			brec.Q = lockSig
		}
		out.Write(vfC17Rec{Sched: 100000 + b, Ev: "init", Conns: []int{}, Open: []int{}, Dead: []int{}})
		out.Write(brec)
		if len(gs) > 0 {
			info.Write(map[string]interface{}{"sched": 100000 + b, "leaked": gs})
		}
		if hung {
			break // stuck goroutines would be counted as leaks of every later batch
		}
	}
	fmt.Printf("VFSUMMARY {\"Runs\":%d,\"Errors\":%d}\n", sched, errs)
}

// ---------------------------------------------------------------- named scenarios

type vfC17ScenResult struct {
	Name   string  `json:"name"`
	Viol   string  `json:"viol"` // "" or the violation key
	What   string  `json:"what"`
	Obs    string  `json:"obs"`
	Detail string  `json:"detail"`
	Err    string  `json:"err"`    // harness problem: the scenario could not be set up
	Unsure string  `json:"unsure"` // a wall-clock observation could not be settled: no verdict from this scenario
	Secs   float64 `json:"secs"`
}

// within runs fn; false = it did not return: provably stuck (a verdict) or - res.Unsure set - not settled.
func (res *vfC17ScenResult) within(fn func(), alt func(string) string) (bool, string) {
	o, dump := vfC17HungFn(fn, alt)
	if o == vfC17Unsure {
		res.Unsure = "a call had not returned at the hard cap but was not provably stuck"
	}
	return o == vfC17Good, dump
}

func (res *vfC17ScenResult) waitCh(done <-chan struct{}, find func(string) string) (bool, string) {
	o, dump := vfC17Hung(done, find, nil)
	if o == vfC17Unsure {
		res.Unsure = "a call had not returned at the hard cap but was not provably stuck"
	}
	return o == vfC17Good, dump
}

// settle polls good (early exit); false = still not good after the deadline with nothing in flight (a
// verdict) or - res.Unsure set - things were still moving at the hard cap.
func (res *vfC17ScenResult) settle(good func() bool, act func() int64, busy func() bool) bool {
	o := vfC17Settle(good, act, busy)
	if o == vfC17Unsure {
		res.Unsure = "the observed state was still changing at the hard cap"
	}
	return o == vfC17Good
}

func vfC17CloseFinder(s *Session) func(string) string {
	return vfC17FindGoroutine(fmt.Sprintf("gocql.(*Session).Close(%p", s))
}

// Session.Close racing a ring refresh: the flusher is woken by refreshNow (as controlConn.reconnect
// does through Session.refreshRing), stop() marks the debouncer stopped, the flusher sees it and
// returns, stop() blocks on the quit send.  This is TLC's deadlock counterexample at Session level.
func vfC17ScenCloseAfterRefresh() vfC17ScenResult {
	res := vfC17ScenResult{Name: "close-racing-refresh"}
	r, err := vfC17NewRun(1, 2, 1, nil)
	if err != nil {
		res.Err = err.Error()
		return res
	}
	s := r.sess
	sc := vfNewScope()
	woke := make(chan struct{})
	release := make(chan struct{})
	marked := make(chan struct{})
	var once, once2 sync.Once
	sc.OnEvent = func(point string, obj interface{}, _ string, a int, err error) {
		switch point {
		case "d_flusher_woke":
			fire := false
			once.Do(func() { fire = true })
			if fire {
				close(woke)
				<-release
			}
		case "d_stop_marked":
			once2.Do(func() { close(marked) })
		}
	}
	sc.Bind(s.ringRefresher)
	defer sc.Unbind(s.ringRefresher)
	go s.refreshRing()
	select {
	case <-woke:
	case <-time.After(vfC17DeadlineD()):
		res.Err = "the flusher did not wake"
		close(release)
		s.Close()
		return res
	}
	closed := make(chan struct{})
	go func() { s.Close(); close(closed) }()
	select {
	case <-marked:
	case <-time.After(vfC17DeadlineD()):
		res.Err = "Close did not reach refreshDebouncer.stop"
		close(release)
		return res
	}
	close(release)
	if okcl, hdump := res.waitCh(closed, vfC17CloseFinder(s)); okcl {
		_ = hdump
		res.Obs = "Close returned"
	} else {
		dump := hdump
		res.Viol = "session-close-hang:" + vfC17HangSig(dump, s)
		res.What = "Session.Close did not return within the watchdog when a ring refresh was requested just before " +
			"(the flusher woke for the refresh, saw `stopped` and returned; stop() blocks on the quit send)"
		res.Obs = "Close hung"
		for _, g := range strings.Split(dump, "\n\n") {
			if strings.Contains(g, "gocql.(*Session).Close") {
				res.Detail = g
			}
		}
	}
	return res
}

// A refresh that discovers a host while Close is running: the pool is created after
// policyConnPool.Close and nobody closes it.
func vfC17ScenLatePool() vfC17ScenResult {
	res := vfC17ScenResult{Name: "host-added-during-close"}
	r, err := vfC17NewRun(1, 2, 2, nil)
	if err != nil {
		res.Err = err.Error()
		return res
	}
	s := r.sess
	// a third node appears in the cluster
	n3 := vfNewNode(r.cl, vfDesc(3))
	r.base.AddNode(n3)
	r.cl.Set([]vfHostDesc{vfDesc(1), vfDesc(2), vfDesc(3)})
	parked := make(chan struct{})
	release := make(chan struct{})
	var once sync.Once
	r.mu.Lock()
	r.filter = func(h *HostInfo) {
		if h.ConnectAddress().String() == "10.0.0.3" {
			fire := false
			once.Do(func() { fire = true })
			if fire {
				close(parked)
				<-release
			}
		}
	}
	r.mu.Unlock()
	go s.refreshRing()
	select {
	case <-parked:
	case <-time.After(vfC17DeadlineD()):
		res.Err = "the refresh did not reach the new host"
		close(release)
		s.Close()
		return res
	}
	closed := make(chan struct{})
	go func() { s.Close(); close(closed) }()
	// Close closes the pools, the control connection and the event debouncers, then waits for the
	// refresh debouncer (its flusher is inside the refresh)
	if !vfC17Poll(vfC17DeadlineD(), func() bool {
		s.pool.mu.RLock()
		n := len(s.pool.hostConnPools)
		s.pool.mu.RUnlock()
		return n == 0
	}) {
		res.Err = "Close did not close the pools while the refresh was parked"
		close(release)
		return res
	}
	close(release)
	if okcl, hdump := res.waitCh(closed, vfC17CloseFinder(s)); okcl {
		_ = hdump
	} else {
		res.Viol = "session-close-hang:" + vfC17HangSig(hdump, s)
		res.What = "Session.Close did not return while a refresh was adding a host"
		return res
	}
	res.settle(func() bool { return len(r.openConns()) == 0 }, r.actN, r.busy)
	open := r.openConns()
	res.Obs = fmt.Sprintf("open connections after Close returned: %v (dialed %d)", open, len(r.dials))
	if len(open) > 0 {
		res.Viol = "conn-leak-after-close:pool-added-during-close"
		res.What = fmt.Sprintf("%d connection(s) to a host discovered by a ring refresh during Session.Close stayed open after Close "+
			"returned: policyConnPool.addHost created the pool after policyConnPool.Close", len(open))
		var gs []string
		vfC17Poll(500*time.Millisecond, func() bool { gs = vfC17DriverGoroutines(); return len(gs) == 0 })
		fl := []string{}
		for _, g := range gs {
			fl = append(fl, vfC17TopFunc(g))
		}
		res.Detail = "goroutines left: " + strings.Join(fl, ",")
		// clean up what the driver left behind
		r.mu.Lock()
		for _, d := range r.dials {
			d.mem.Close()
		}
		r.mu.Unlock()
	}
	return res
}

// controlConn.close() before the heartBeat goroutine has executed its first statement (the
// goroutine is started by connect() with `go c.heartBeat()`; nothing orders it before a Close).
func vfC17ScenHeartbeatAfterClose() vfC17ScenResult {
	res := vfC17ScenResult{Name: "heartbeat-started-after-close"}
	r, err := vfC17NewRun(1, 1, 1, nil)
	if err != nil {
		res.Err = err.Error()
		return res
	}
	s := r.sess
	ok, _ := res.within(s.Close, vfC17CloseFinder(s))
	if !ok {
		res.Err = "Close hung"
		return res
	}
	vfC17Poll(300*time.Millisecond, func() bool { return len(vfC17DriverGoroutines()) == 0 }) // (information only)
	before := len(vfC17DriverGoroutines())
	cc := createControlConn(s) // as Session.init does
	cc.close()                 // Session.Close -> controlConn.close(), state is still "starting"
	done := make(chan struct{})
	go func() { cc.heartBeat(); close(done) }() // the goroutine connect() started finally runs
	if okhb, _ := res.waitCh(done, vfC17FindGoroutine("controlConn).heartBeat(", "vfC17ScenHeartbeatAfterClose")); okhb {
		res.Obs = "heartBeat returned"
	} else {
		res.Obs = fmt.Sprintf("heartBeat still running long after close (driver goroutines before: %d)", before)
		res.Viol = "goroutine-leak-after-close:controlConn.heartBeat-started-after-close"
		res.What = "a control-connection heartBeat goroutine that is scheduled after controlConn.close() starts (state was still " +
			"`starting`, so close did not signal it) and never stops; it keeps probing and trying to reconnect"
	}
	return res
}

// eventDebouncer.stop() twice: not idempotent (send on a closed channel panics); Session.Close
// guards it with isClosing.  Observation only.
func vfC17ScenEventStopTwice() vfC17ScenResult {
	res := vfC17ScenResult{Name: "event-debouncer-stop-twice"}
	e := newEventDebouncer("vf", func([]frame) {}, vfQuietLogger{})
	e.stop()
	out := make(chan string, 1)
	go func() {
		defer func() {
			if p := recover(); p != nil {
				out <- fmt.Sprintf("second stop panicked: %v", p)
			}
		}()
		e.stop()
		out <- "second stop returned"
	}()
	select {
	case res.Obs = <-out:
	case <-time.After(time.Second):
		res.Obs = "second stop blocked"
	}
	// at Session level the guard makes the second Close a no-op
	r, err := vfC17NewRun(2, 1, 1, nil)
	if err != nil {
		res.Err = err.Error()
		return res
	}
	ok, _ := res.within(func() { r.sess.Close(); r.sess.Close() }, vfC17CloseFinder(r.sess))
	if !ok {
		res.Viol = "session-close-hang:second-close"
		res.What = "a second Session.Close did not return"
	} else {
		res.Obs += "; Session.Close twice returned"
	}
	return res
}

// refreshNow() after stop(): nobody answers the listener.  Observation (the callers are the
// harness' goroutines here); at Session level only a leaked heartbeat could call it.
func vfC17ScenRefreshAfterStop() vfC17ScenResult {
	res := vfC17ScenResult{Name: "refresh-now-after-stop"}
	d := newRefreshDebouncer(time.Hour, func() error { return nil })
	ok, _ := res.within(d.stop, nil)
	if !ok {
		res.Err = "plain stop() hung"
		return res
	}
	ch := d.refreshNow()
	select {
	case _, open := <-ch:
		res.Obs = fmt.Sprintf("listener resolved (value delivered: %v)", open)
	case <-time.After(time.Second):
		res.Obs = "listener never resolved"
	}
	return res
}

// The control connection fails while the ring-refresh flusher itself is using it: exec() calls
// closeWithError on the flusher's goroutine, controlConn.HandleError runs reconnect() inline, and
// reconnect() calls Session.refreshRing(), i.e. asks the flusher - itself - for a refresh and waits.
func vfC17ScenFlusherSelfWait() vfC17ScenResult {
	res := vfC17ScenResult{Name: "control-conn-fails-during-refresh"}
	r, err := vfC17NewRun(1, 2, 1, nil)
	if err != nil {
		res.Err = err.Error()
		return res
	}
	s := r.sess
	ch := s.control.getConn()
	mc := vfC17MemOf(ch.conn.conn)
	if mc == nil {
		res.Err = "control connection is not an in-memory connection"
		return res
	}
	// the next write on the control connection fails (as a reset / write timeout would)
	mc.SetFault(&vfWriteFault{FailAtByte: int64(len(mc.Written())), StallAtByte: -1})
	answered := make(chan struct{})
	go func() { s.refreshRing(); close(answered) }()
	select {
	case <-answered:
		res.Obs = "refreshRing returned"
	case <-time.After(vfC17CloseWatchdog):
		res.Obs = "refreshRing had not returned after 3 s"
	}
	mc.SetFault(nil)
	okc, dump := res.within(s.Close, vfC17CloseFinder(s))
	if !okc {
		sig := vfC17HangSig(dump, s)
		res.Viol = "session-close-hang:" + sig
		res.What = "Session.Close did not return after the control connection failed under the ring refresh: the refresh " +
			"debouncer's flusher runs controlConn.reconnect inline (Conn.exec -> closeWithError -> controlConn.HandleError) and " +
			"reconnect waits in Session.refreshRing for the flusher, i.e. for itself; stop() then blocks on the quit send"
		res.Obs += "; Close hung"
		for _, g := range strings.Split(dump, "\n\n") {
			if strings.Contains(g, "refreshDebouncer).flusher") {
				res.Detail = g
			}
		}
	} else {
		res.Obs += "; Close returned"
	}
	return res
}

// Close while the ring refresher is busy with a refresh and further refreshes have been requested:
// one by the harness through Session.refreshRing(), one by controlConn.reconnect (started by
// controlConn.HandleError when the control connection is lost during the refresh).  stop() must wake
// every listener (the refresh result or a closed channel): both callers return, no driver goroutine
// stays parked in refreshRing, Close returns.
func vfC17ScenCloseBusyRefresherPending() vfC17ScenResult {
	res := vfC17ScenResult{Name: "close-while-refresh-busy-and-pending"}
	r, err := vfC17NewRun(1, 2, 1, nil)
	if err != nil {
		res.Err = err.Error()
		return res
	}
	s := r.sess
	sc := vfNewScope()
	var nNow int32
	marked := make(chan struct{})
	var onceMarked sync.Once
	sc.OnEvent = func(point string, obj interface{}, _ string, a int, err error) {
		switch point {
		case "d_refresh_now":
			atomic.AddInt32(&nNow, 1)
		case "d_stop_marked":
			onceMarked.Do(func() { close(marked) })
		}
	}
	sc.Bind(s.ringRefresher)
	defer sc.Unbind(s.ringRefresher)
	parked := make(chan struct{})
	release := make(chan struct{})
	var once sync.Once
	r.mu.Lock()
	r.filter = func(h *HostInfo) {
		if !vfC17OnFlusher() {
			return // the filter is also consulted by handleNodeConnected, setupConn, ...
		}
		fire := false
		once.Do(func() { fire = true })
		if fire {
			close(parked)
			<-release
		}
	}
	r.mu.Unlock()
	var callers sync.WaitGroup
	callers.Add(1)
	go func() { defer callers.Done(); s.refreshRing() }() // served by the refresh that is about to park
	select {
	case <-parked:
	case <-time.After(vfC17DeadlineD()):
		res.Err = "the refresh did not reach the host loop"
		close(release)
		s.Close()
		return res
	}
	baseline := map[string]bool{}
	for _, g := range vfC17DriverGoroutines() {
		baseline[vfC17GoroutineID(g)] = true
	}
	// the control connection is lost now: HandleError -> reconnect -> new connection -> refreshRing()
	ch := s.control.getConn()
	killed := false
	for _, d := range r.liveNodeConns() {
		if ch != nil && ch.conn != nil && d.mem == vfC17MemOf(ch.conn.conn) {
			d.nc.Close()
			killed = true
		}
	}
	if !killed {
		res.Err = "control connection not found among the dialed connections"
		close(release)
		s.Close()
		return res
	}
	callers.Add(1)
	go func() { defer callers.Done(); s.refreshRing() }() // pending: the refresher is busy
	if !vfC17Poll(vfC17DeadlineD(), func() bool { return atomic.LoadInt32(&nNow) >= 3 }) {
		res.Err = fmt.Sprintf("reconnect did not ask for a refresh (refreshNow calls: %d)", atomic.LoadInt32(&nNow))
		close(release)
		s.Close()
		return res
	}
	closed := make(chan struct{})
	go func() { s.Close(); close(closed) }()
	select {
	case <-marked:
	case <-time.After(vfC17DeadlineD()):
		res.Err = "Close did not reach refreshDebouncer.stop"
		close(release)
		return res
	}
	close(release)
	if okcl, hdump := res.waitCh(closed, vfC17CloseFinder(s)); okcl {
		_ = hdump
	} else {
		res.Viol = "session-close-hang:" + vfC17HangSig(hdump, s)
		res.What = "Session.Close did not return while the ring refresher was busy and further refreshes were pending"
		return res
	}
	okc, _ := res.within(callers.Wait, vfC17FindGoroutine("gocql.(*Session).refreshRing", "vfC17ScenCloseBusyRefresherPending"))
	var gs []string
	mine := func() []string {
		// driver goroutines parked in refreshRing that were not there before this scenario lost its
		// control connection (the receiver pointer printed in a frame is not reliable enough to tell
		// the sessions of parallel scenarios apart)
		var out []string
		for _, g := range vfC17DriverGoroutines() {
			if strings.Contains(g, "gocql.(*Session).refreshRing") && !baseline[vfC17GoroutineID(g)] {
				out = append(out, g)
			}
		}
		return out
	}
	res.settle(func() bool { gs = mine(); return len(gs) == 0 }, func() int64 {
		var h int64
		for _, g := range mine() {
			for _, c := range vfC17GoroutineID(g) {
				h = h*131 + int64(c)
			}
			h = h*7 + 1
		}
		return h
	}, nil)
	res.Obs = fmt.Sprintf("Close returned; refreshRing callers returned: %v; driver goroutines parked in refreshRing: %d", okc, len(gs))
	switch {
	case len(gs) > 0:
		fl := map[string]bool{}
		for _, g := range gs {
			fl[vfC17EntryFunc(g)] = true
		}
		var names []string
		for f := range fl {
			names = append(names, f)
		}
		sort.Strings(names)
		res.Viol = "goroutine-leak-after-close:" + strings.Join(names, ",") + "-parked-in-refreshRing"
		res.What = "after Session.Close returned a driver goroutine (" + strings.Join(names, ",") + ") is still parked in " +
			"Session.refreshRing(): its refreshNow request was pending when stop() arrived and its listener was never resolved"
		res.Detail = gs[0]
	case !okc:
		res.Viol = "refresh-listener-unanswered:session-refreshRing-caller"
		res.What = "a Session.refreshRing() call that was pending when Session.Close stopped the refresher never returned"
	}
	return res
}

// controlConn.reconnect racing Session.Close: reconnect passes its `closing` check, then Close runs
// controlConn.close() (which closes the connection it knows) and waits for the busy ring refresher;
// reconnect finishes dialling and installs a new control connection nobody closes any more.
func vfC17ScenReconnectRacingClose() vfC17ScenResult {
	res := vfC17ScenResult{Name: "reconnect-racing-close"}
	r, err := vfC17NewRun(1, 2, 1, nil)
	if err != nil {
		res.Err = err.Error()
		return res
	}
	s := r.sess
	sc := vfNewScope()
	marked := make(chan struct{})
	var onceMarked sync.Once
	sc.OnEvent = func(point string, obj interface{}, _ string, a int, err error) {
		if point == "d_stop_marked" {
			onceMarked.Do(func() { close(marked) })
		}
	}
	sc.Bind(s.ringRefresher)
	defer sc.Unbind(s.ringRefresher)
	// keep the refresher busy so that Close waits in refreshDebouncer.stop (before it cancels the context)
	parked := make(chan struct{})
	release := make(chan struct{})
	var once sync.Once
	dialParked := make(chan struct{})
	dialRelease := make(chan struct{})
	var onceDial sync.Once
	var armed int32
	r.mu.Lock()
	r.filter = func(h *HostInfo) {
		if !vfC17OnFlusher() {
			return
		}
		fire := false
		once.Do(func() { fire = true })
		if fire {
			close(parked)
			<-release
		}
	}
	r.onDial = func(ip string) {
		if atomic.LoadInt32(&armed) == 0 {
			return
		}
		buf := make([]byte, 16384)
		if !strings.Contains(string(buf[:runtime.Stack(buf, false)]), "controlConn).reconnect") {
			return
		}
		fire := false
		onceDial.Do(func() { fire = true })
		if fire {
			close(dialParked)
			<-dialRelease
		}
	}
	r.mu.Unlock()
	cleanup := func() {
		select {
		case <-release:
		default:
			close(release)
		}
		select {
		case <-dialRelease:
		default:
			close(dialRelease)
		}
	}
	go s.refreshRing()
	select {
	case <-parked:
	case <-time.After(vfC17DeadlineD()):
		res.Err = "the refresh did not reach the host loop"
		cleanup()
		s.Close()
		return res
	}
	atomic.StoreInt32(&armed, 1)
	ch := s.control.getConn()
	killed := false
	for _, d := range r.liveNodeConns() {
		if ch != nil && ch.conn != nil && d.mem == vfC17MemOf(ch.conn.conn) {
			d.nc.Close()
			killed = true
		}
	}
	if !killed {
		res.Err = "control connection not found among the dialed connections"
		cleanup()
		s.Close()
		return res
	}
	select {
	case <-dialParked: // reconnect has passed its closing check and is dialling
	case <-time.After(vfC17DeadlineD()):
		res.Err = "reconnect did not start dialling"
		cleanup()
		s.Close()
		return res
	}
	closed := make(chan struct{})
	go func() { s.Close(); close(closed) }()
	select {
	case <-marked: // pools, control connection and event debouncers are closed; Close waits for the refresher
	case <-time.After(vfC17DeadlineD()):
		res.Err = "Close did not reach refreshDebouncer.stop"
		cleanup()
		return res
	}
	before := len(r.dials)
	close(dialRelease)
	// the new control connection is set up (or refused); then the refresh may finish
	vfC17Poll(vfC17DeadlineD(), func() bool {
		ch := s.control.getConn()
		r.mu.Lock()
		n := len(r.dials)
		r.mu.Unlock()
		return n > before && ch != nil && ch.conn != nil && atomic.LoadInt32(&s.control.reconnecting) == 0
	})
	close(release)
	if okcl, hdump := res.waitCh(closed, vfC17CloseFinder(s)); okcl {
		_ = hdump
	} else {
		res.Viol = "session-close-hang:" + vfC17HangSig(hdump, s)
		res.What = "Session.Close did not return while a control-connection reconnect was in progress"
		return res
	}
	res.settle(func() bool { return len(r.openConns()) == 0 }, r.actN, r.busy)
	open := r.openConns()
	res.Obs = fmt.Sprintf("open connections after Close returned: %v (dialed %d)", open, len(r.dials))
	if len(open) > 0 {
		res.Viol = "conn-leak-after-close:control-conn-installed-after-close"
		res.What = "a control connection installed by controlConn.reconnect after controlConn.close() stayed open after Session.Close " +
			"returned (reconnect had passed its `closing` check before Close; its Conn.serve goroutine stays as well)"
		r.mu.Lock()
		for _, d := range r.dials {
			d.mem.Close()
		}
		r.mu.Unlock()
	}
	return res
}

// Sockets whose Close() reports an error: Conn.Close hands the error to the connection's error handler,
// so closing a pooled connection re-enters hostConnPool.HandleError.  A host is removed (its pool is
// closed by policyConnPool.removeHost), Pick/Size of that pool must still return, then Session.Close.
func vfC17ScenFailingSocketClose() vfC17ScenResult {
	res := vfC17ScenResult{Name: "sockets-fail-close"}
	r, err := vfC17NewRun(1, 2, 2, nil)
	if err != nil {
		res.Err = err.Error()
		return res
	}
	atomic.StoreInt32(&r.closeErr, 1)
	s := r.sess
	var h2 *HostInfo
	for _, h := range s.ring.allHosts() {
		if h.ConnectAddress().String() == "10.0.0.2" {
			h2 = h
		}
	}
	var p2 *hostConnPool
	if h2 != nil {
		vfC17Poll(vfC17DeadlineD(), func() bool { p, ok := s.pool.getPool(h2); p2 = p; return ok && p.Size() == 2 })
	}
	if p2 == nil {
		res.Err = "no pool for the second host"
		s.Close()
		return res
	}
	// host 2 leaves the ring: refresh -> removeHost -> go pool.Close()
	r.cl.Set([]vfHostDesc{vfDesc(1)})
	okr, _ := res.within(func() { s.refreshRing() }, nil)
	if !okr {
		res.Err = "refreshRing did not return"
		return res
	}
	okp, dump := res.within(func() {
		vfC17Poll(vfC17DeadlineD(), func() bool { p2.mu.RLock(); c := p2.closed; p2.mu.RUnlock(); return c })
		p2.Size()
		p2.Pick()
	}, nil)
	if !okp {
		res.Viol = "pool-lock-deadlock:" + vfC17LockSig(dump, p2)
		res.What = "after a host was removed, Size/Pick of its pool never returned: a pool method waits for pool.mu while holding it " +
			"(closing a connection whose socket Close() reports an error re-enters hostConnPool.HandleError)"
		res.Obs = "Size/Pick of the removed host's pool blocked"
		return res
	}
	okc, dump2 := res.within(s.Close, vfC17CloseFinder(s))
	if !okc {
		res.Viol = "session-close-hang:" + vfC17HangSig(dump2, s)
		res.What = "Session.Close did not return with sockets whose Close() reports an error"
		res.Obs = "Close hung"
		return res
	}
	res.settle(func() bool { return len(r.openConns()) == 0 }, r.actN, r.busy)
	open := r.openConns()
	res.Obs = fmt.Sprintf("host pool closed, Size/Pick returned, Close returned; open connections: %v (dialed %d)", open, len(r.dials))
	if len(open) > 0 {
		res.Viol = "conn-leak-after-close:sockets-fail-close"
		res.What = "connections stayed open after Session.Close when the sockets' Close() reports an error"
	}
	return res
}

// A control-connection reconnect whose setupConn fails after a successful dial + STARTUP, at each of its
// steps: system.local answered with an error / with no row, REGISTER refused, the host rejected by the
// HostFilter.  Every connection such an attempt opened must be closed again; judged at the dialer after the
// attempts and after Close.
func vfC17ScenReconnectSetupFails(step string) func() vfC17ScenResult {
	return func() vfC17ScenResult {
		res := vfC17ScenResult{Name: "reconnect-setup-fails-" + step}
		r, err := vfC17NewRun(1, 2, 1, nil)
		if err != nil {
			res.Err = err.Error()
			return res
		}
		s := r.sess
		var armed int32
		for _, n := range r.nodes {
			n.Handler = func(nc *vfNodeConn, f *vfFrame, q *vfRequest) bool {
				if atomic.LoadInt32(&armed) == 0 {
					return false
				}
				switch {
				case step == "local-error" && f.Op == vfOpQuery && strings.Contains(strings.ToLower(q.Stmt), "system.local"):
					nc.Reply(f, vfOpError, vfErrorBody(0x0000, "vf: node is starting", nil))
					return true
				case step == "local-norows" && f.Op == vfOpQuery && strings.Contains(strings.ToLower(q.Stmt), "system.local"):
					nc.Reply(f, vfOpResult, vfRowsBody(f.Version, "system", "local", vfLocalCols, nil, nil, false))
					return true
				case step == "register-error" && f.Op == vfOpRegister:
					nc.Reply(f, vfOpError, vfErrorBody(0x000A, "vf: register refused", nil))
					return true
				}
				return false
			}
		}
		if step == "filtered" {
			r.mu.Lock()
			r.reject = func(h *HostInfo) bool {
				if atomic.LoadInt32(&armed) == 0 {
					return false
				}
				buf := make([]byte, 16384)
				return strings.Contains(string(buf[:runtime.Stack(buf, false)]), "controlConn).setupConn")
			}
			r.mu.Unlock()
		}
		// pools are full, nothing else dials
		vfC17Poll(vfC17DeadlineD(), func() bool { return s.pool.Size() == 2 })
		ch := s.control.getConn()
		var ctl *vfC17DialRec
		for _, d := range r.liveNodeConns() {
			if ch != nil && ch.conn != nil && d.mem == vfC17MemOf(ch.conn.conn) {
				ctl = d
			}
		}
		if ctl == nil {
			res.Err = "control connection not found"
			s.Close()
			return res
		}
		r.mu.Lock()
		before := len(r.dials)
		r.mu.Unlock()
		atomic.StoreInt32(&armed, 1)
		ctl.nc.Close() // the control connection is lost: HandleError -> reconnect -> one attempt per host
		ndials := func() int { r.mu.Lock(); defer r.mu.Unlock(); return len(r.dials) }
		if !vfC17Poll(vfC17DeadlineD(), func() bool {
			return ndials() >= before+2 && atomic.LoadInt32(&s.control.reconnecting) == 0
		}) {
			res.Err = fmt.Sprintf("the reconnect did not try both hosts (dials %d -> %d)", before, ndials())
			atomic.StoreInt32(&armed, 0)
			s.Close()
			return res
		}
		// the connections of the attempts that are over (the heartbeat will start further attempts every second: those
		// are not waited for): every one of them must be closed
		r.mu.Lock()
		over := append([]*vfC17DialRec(nil), r.dials[before:]...)
		r.mu.Unlock()
		leaked := func() []int {
			var out []int
			for _, d := range over {
				if !d.mem.IsClosed() {
					out = append(out, d.id)
				}
			}
			return out
		}
		var after []int
		res.settle(func() bool { after = leaked(); return len(after) == 0 },
			func() int64 { return int64(len(over) - len(leaked())) }, nil)
		natt := ndials() - before
		okc, dump := res.within(s.Close, vfC17CloseFinder(s))
		if !okc {
			res.Viol = "session-close-hang:" + vfC17HangSig(dump, s)
			res.What = "Session.Close did not return after failed control-connection reconnects"
			return res
		}
		res.settle(func() bool { return len(r.openConns()) == 0 }, r.actN, r.busy)
		open := r.openConns()
		res.Obs = fmt.Sprintf("%d reconnect attempts; connections of failed attempts still open: %v; open after Close: %v", natt, after, open)
		if len(after) > 0 || len(open) > 0 {
			res.Viol = "conn-leak:control-reconnect-setup-failed"
			res.What = fmt.Sprintf("a control-connection reconnect attempt whose setupConn failed (%s) after a successful dial and STARTUP left its "+
				"connection open (%d open after the attempts, %d after Session.Close): nobody owns it any more", step, len(after), len(open))
			r.mu.Lock()
			for _, d := range r.dials {
				d.mem.Close()
			}
			r.mu.Unlock()
		}
		return res
	}
}

// A pool of size 1, 2, 3 loses a connection (the only one for size 1): it is back at its size within a
// bounded time, the dialer never sees more than the size, and a second loss is repaired as well.
func vfC17ScenPoolRefilled(size int) func() vfC17ScenResult {
	return func() vfC17ScenResult {
		res := vfC17ScenResult{Name: fmt.Sprintf("pool-refilled-size-%d", size)}
		r, err := vfC17NewRun(1, 2, size, nil)
		if err != nil {
			res.Err = err.Error()
			return res
		}
		s := r.sess
		full := func() bool {
			m := r.openPerHost()
			return m["10.0.0.1"] == size && m["10.0.0.2"] == size
		}
		if !vfC17Poll(vfC17DeadlineD(), full) {
			res.Err = fmt.Sprintf("pools did not fill initially: %v", r.openPerHost())
			s.Close()
			return res
		}
		for round := 1; round <= 2; round++ {
			ch := s.control.getConn()
			var victim *vfC17DialRec
			for _, d := range r.liveNodeConns() {
				if d.node == "10.0.0.2" && (ch == nil || ch.conn == nil || d.mem != vfC17MemOf(ch.conn.conn)) {
					victim = d
				}
			}
			if victim == nil {
				res.Err = "no pool connection to the second host"
				s.Close()
				return res
			}
			victim.nc.Close()
			// queries keep arriving (Pick triggers a fill when the pool is short)
			filling := func() bool {
				if r.busy() {
					return true
				}
				for _, h := range s.ring.allHosts() {
					if p, okp := s.pool.getPool(h); okp {
						p.mu.RLock()
						f := p.filling
						p.mu.RUnlock()
						if f {
							return true
						}
					}
				}
				return false
			}
			// early exit as soon as the dialer sees NumConns again; "not refilled" only after the deadline with no
			// dial and no fill in progress and nothing opened / closed any more although Pick kept asking
			ok := res.settle(func() bool {
				for _, h := range s.ring.allHosts() {
					if p, okp := s.pool.getPool(h); okp {
						p.Pick()
					}
				}
				return full()
			}, r.actN, filling)
			if !ok {
				res.Viol = "pool-not-refilled"
				res.What = fmt.Sprintf("a pool of size %d that lost a connection (loss %d) was not back at its size (no dial, no fill in progress any more) although queries kept "+
					"arriving: open connections per host %v", size, round, r.openPerHost())
				res.Obs = fmt.Sprintf("after loss %d: %v", round, r.openPerHost())
				s.Close()
				return res
			}
		}
		over := false
		for _, n := range r.openPerHost() {
			if n > size {
				over = true
			}
		}
		res.Obs = fmt.Sprintf("refilled twice; open per host %v", r.openPerHost())
		okc, dump := res.within(s.Close, vfC17CloseFinder(s))
		if !okc {
			res.Viol = "session-close-hang:" + vfC17HangSig(dump, s)
			res.What = "Session.Close did not return"
			return res
		}
		if over {
			res.Viol = "host-conns-exceed-numconns"
			res.What = "more open connections to a host than NumConns"
		}
		return res
	}
}

// A pool that is left below its size by something HandleError's own fill() cannot repair - a connection lost while a
// fill of the same pool is in progress (that fill() returns at the `filling` check), or a refill whose connect fails -
// is brought back to its size by the queries that keep arriving (Pick on a pool below its size asks for a fill).
func vfC17ScenPoolReplenished(kind string, size int) func() vfC17ScenResult {
	return func() vfC17ScenResult {
		res := vfC17ScenResult{Name: fmt.Sprintf("pool-replenished-%s-size-%d", kind, size)}
		var mod func(*ClusterConfig)
		if kind == "too-many-timeouts" {
			mod = func(c *ClusterConfig) { c.Timeout = 250 * time.Millisecond }
		}
		r, err := vfC17NewRun(1, 2, size, mod)
		if err != nil {
			res.Err = err.Error()
			return res
		}
		s := r.sess
		const ip2 = "10.0.0.2"
		full := func() bool {
			m := r.openPerHost()
			return m["10.0.0.1"] == size && m[ip2] == size
		}
		if !vfC17Poll(vfC17DeadlineD(), full) {
			res.Err = fmt.Sprintf("pools did not fill initially: %v", r.openPerHost())
			s.Close()
			return res
		}
		victim := func() *vfC17DialRec {
			ch := s.control.getConn()
			for _, d := range r.liveNodeConns() {
				if d.node == ip2 && (ch == nil || ch.conn == nil || d.mem != vfC17MemOf(ch.conn.conn)) {
					return d
				}
			}
			return nil
		}
		// the initial fills are over (a connection lost while one is still in progress is the other scenario)
		idle := func() bool {
			if r.busy() {
				return false
			}
			for _, p := range append(r.poolsOf(ip2), r.poolsOf("10.0.0.1")...) {
				p.mu.RLock()
				f := p.filling
				p.mu.RUnlock()
				if f {
					return false
				}
			}
			return true
		}
		if !vfC17Poll(vfC17DeadlineD(), idle) {
			res.Err = "the initial fills did not end"
			s.Close()
			return res
		}
		v1 := victim()
		if v1 == nil {
			res.Err = "no pool connection to the second host"
			s.Close()
			return res
		}
		switch kind {
		case "refill-fails":
			// the node refuses the refill's connect, then comes back
			n2 := r.nodes[1]
			n2.mu.Lock()
			n2.Down = true
			n2.mu.Unlock()
			before := r.actN()
			v1.nc.Close()
			// the refill has failed when the pool of the host is no longer filling and the loss has been processed
			if !vfC17Poll(vfC17DeadlineD(), func() bool {
				if r.actN() == before || r.busy() {
					return false
				}
				for _, p := range r.poolsOf(ip2) {
					p.mu.RLock()
					f, n := p.filling, len(p.conns)
					p.mu.RUnlock()
					if f || n != size-1 {
						return false
					}
				}
				return true
			}) {
				res.Err = fmt.Sprintf("the refill against the refusing node did not end: %v", r.openPerHost())
				s.Close()
				return res
			}
			n2.mu.Lock()
			n2.Down = false
			n2.mu.Unlock()
		case "too-many-timeouts":
			// the driver itself gives the connection up: more than TimeoutLimit of its requests timed out (the node stops
			// answering OPTIONS on that one connection). TimeoutLimit is a package variable: this kind runs in a test
			// process of its own (TestVfC17ScenariosIsolated).
			var dc *Conn
			for _, p := range r.poolsOf(ip2) {
				p.mu.RLock()
				for _, c := range p.conns {
					if vfC17MemOf(c.conn) == v1.mem {
						dc = c
					}
				}
				p.mu.RUnlock()
			}
			if dc == nil {
				res.Err = "the driver's end of the victim connection was not found in the pool"
				s.Close()
				return res
			}
			n2 := r.nodes[1]
			n2.mu.Lock()
			n2.Handler = func(nc *vfNodeConn, f *vfFrame, q *vfRequest) bool { return nc == v1.nc && f.Op == vfOpOptions }
			n2.mu.Unlock()
			atomic.StoreInt64(&TimeoutLimit, 1)
			for i := 0; i < 2; i++ {
				if _, xerr := dc.exec(context.Background(), &writeOptionsFrame{}, nil); xerr == nil {
					res.Err = "a request the node does not answer returned without error"
				}
			}
			atomic.StoreInt64(&TimeoutLimit, 0)
			if res.Err != "" || !vfC17Poll(vfC17DeadlineD(), dc.Closed) {
				if res.Err == "" {
					res.Err = "the connection was not closed after TimeoutLimit was exceeded"
				}
				s.Close()
				return res
			}
		case "loss-during-fill":
			// the refill's connect is parked in the dialer; a second connection is lost meanwhile
			parked := make(chan struct{})
			release := make(chan struct{})
			var once sync.Once
			r.mu.Lock()
			r.onDial = func(ip string) {
				if ip != ip2 {
					return
				}
				fire := false
				once.Do(func() { fire = true })
				if fire {
					close(parked)
					<-release
				}
			}
			r.mu.Unlock()
			v1.nc.Close()
			select {
			case <-parked:
			case <-time.After(vfC17DeadlineD()):
				res.Err = "the refill did not reach the dialer"
				close(release)
				s.Close()
				return res
			}
			v2 := victim()
			if v2 == nil {
				res.Err = "no second pool connection to lose"
				close(release)
				s.Close()
				return res
			}
			mark := r.actN()
			v2.nc.Close()
			// HandleError has removed it (its own fill() found the pool filling)
			vfC17Poll(vfC17DeadlineD(), func() bool {
				if r.actN() == mark {
					return false
				}
				for _, p := range r.poolsOf(ip2) {
					p.mu.RLock()
					n := len(p.conns)
					p.mu.RUnlock()
					if n != size-2 {
						return false
					}
				}
				return true
			})
			close(release)
		}
		filling := func() bool {
			if r.busy() {
				return true
			}
			for _, h := range s.ring.allHosts() {
				if p, okp := s.pool.getPool(h); okp {
					p.mu.RLock()
					f := p.filling
					p.mu.RUnlock()
					if f {
						return true
					}
				}
			}
			return false
		}
		// queries keep arriving
		ok := res.settle(func() bool {
			for _, h := range s.ring.allHosts() {
				if p, okp := s.pool.getPool(h); okp {
					p.Pick()
				}
			}
			return full()
		}, r.actN, filling)
		res.Obs = fmt.Sprintf("open per host after queries kept arriving: %v", r.openPerHost())
		if !ok && res.Unsure == "" {
			res.Viol = "pool-not-replenished"
			res.What = fmt.Sprintf("a pool of size %d left short by %s stayed short although queries kept arriving (no dial, no fill in progress "+
				"any more): %v", size, kind, r.openPerHost())
		}
		if okc, dump := res.within(s.Close, vfC17CloseFinder(s)); !okc && res.Viol == "" {
			res.Viol = "session-close-hang:" + vfC17HangSig(dump, s)
			res.What = "Session.Close did not return"
		}
		return res
	}
}

// TestVfC17ScenariosIsolated: scenarios that change package-level settings of the driver, one after the other, in a
// process of their own.
func TestVfC17ScenariosIsolated(t *testing.T) {
	outPath := os.Getenv("VF_TRACES")
	if outPath == "" {
		t.Skip("VF_TRACES not set")
	}
	out, err := vfCreateNDJSON(outPath)
	if err != nil {
		t.Fatal(err)
	}
	defer out.Close()
	for _, f := range []func() vfC17ScenResult{vfC17ScenPoolReplenished("too-many-timeouts", 1), vfC17ScenPoolReplenished("too-many-timeouts", 2)} {
		var res vfC17ScenResult
		for attempt := 0; attempt < 3; attempt++ {
			t0 := time.Now()
			res = f()
			res.Secs = time.Since(t0).Seconds()
			if res.Unsure != "" {
				res.Viol, res.What = "", ""
				if res.Err == "" {
					res.Err = "unsettled: " + res.Unsure
				}
			}
			if res.Err == "" || res.Viol != "" {
				break
			}
		}
		out.Write(res)
	}
	fmt.Printf("VFSUMMARY {}\n")
}

func TestVfC17Scenarios(t *testing.T) {
	outPath := os.Getenv("VF_TRACES")
	if outPath == "" {
		t.Skip("VF_TRACES not set")
	}
	out, err := vfCreateNDJSON(outPath)
	if err != nil {
		t.Fatal(err)
	}
	defer out.Close()
	fs := []func() vfC17ScenResult{vfC17ScenHeartbeatAfterClose, vfC17ScenEventStopTwice, vfC17ScenRefreshAfterStop,
		vfC17ScenLatePool, vfC17ScenFlusherSelfWait, vfC17ScenCloseAfterRefresh, vfC17ScenCloseBusyRefresherPending, vfC17ScenReconnectRacingClose, vfC17ScenFailingSocketClose,
		vfC17ScenReconnectSetupFails("local-error"), vfC17ScenReconnectSetupFails("local-norows"),
		vfC17ScenReconnectSetupFails("register-error"), vfC17ScenReconnectSetupFails("filtered"),
		vfC17ScenPoolRefilled(1), vfC17ScenPoolRefilled(2), vfC17ScenPoolRefilled(3),
		vfC17ScenEvStopVsFlush, vfC17ScenCloseVsEventFlush, vfC17ScenCloseDuringSlowHandler,
		vfC17ScenPoolReplenished("refill-fails", 2), vfC17ScenPoolReplenished("refill-fails", 3),
		vfC17ScenPoolReplenished("loss-during-fill", 3),
		vfC17ScenCloseDuringControlHeartbeat("options-in-flight"), vfC17ScenCloseDuringControlHeartbeat("reconnect-setup-pending")}
	results := make([]vfC17ScenResult, len(fs))
	var wg sync.WaitGroup
	for i, f := range fs {
		wg.Add(1)
		go func(i int, f func() vfC17ScenResult) {
			defer wg.Done()
			// a scenario that could not be set up or settled is repeated on a fresh cluster before it counts as
			// "no verdict"
			for attempt := 0; attempt < 3; attempt++ {
				t0 := time.Now()
				res := f()
				res.Secs = time.Since(t0).Seconds()
				if res.Unsure != "" {
					res.Viol, res.What = "", ""
					if res.Err == "" {
						res.Err = "unsettled: " + res.Unsure
					}
				}
				results[i] = res
				if res.Err == "" || res.Viol != "" {
					return
				}
			}
		}(i, f)
	}
	wg.Wait()
	for _, r := range results {
		if r.Unsure != "" {
			// no verdict from an observation that could not be settled
			r.Viol, r.What = "", ""
			if r.Err == "" {
				r.Err = "unsettled: " + r.Unsure
			}
		}
		out.Write(r)
	}
	fmt.Printf("VFSUMMARY {}\n")
}
