package gocql

// C17: a net.Conn whose Close() closes the connection but reports an error, as a TLS connection
// does when its close_notify alert can no longer be written.  Conn.closeWithError(nil) hands such an
// error to the connection's error handler (the pool's HandleError, the control connection's
// HandleError), i.e. closing a connection re-enters its owner.

import (
	"errors"
	"net"
	"sync/atomic"
)

var vfC17ErrSockClose = errors.New("vf: close_notify could not be written")

type vfC17Conn struct {
	*vfMemConn
	failClose *int32 // != 0: Close reports an error (after closing)
}

func (c *vfC17Conn) Close() error {
	c.vfMemConn.Close()
	if c.failClose != nil && atomic.LoadInt32(c.failClose) != 0 {
		return vfC17ErrSockClose
	}
	return nil
}

// vfC17MemOf returns the in-memory connection behind whatever the dialer handed to the driver.
func vfC17MemOf(c net.Conn) *vfMemConn {
	switch v := c.(type) {
	case *vfMemConn:
		return v
	case *vfC17Conn:
		return v.vfMemConn
	}
	return nil
}

var _ net.Conn = (*vfC17Conn)(nil)
