package gocql

// C17, part 4: the map of host pools (policyConnPool) under concurrent triggers for one host.
// PolicyPool.tla states what must hold; here bursts of addHost / removeHost calls released together hit a
// real policyConnPool for a host that has no pool yet, and the dialer's view is recorded: open
// connections to the host at quiescence (at most NumConns), and after removeHost (none - a pool that was
// overwritten in the map would keep its connections).  TLC evaluates the records (Trace_PoolMon.tla).

import (
	"fmt"
	"math/rand"
	"net"
	"os"
	"sync"
	"sync/atomic"
	"testing"
	"time"
)

func TestVfC17PolicyPool(t *testing.T) {
	outPath := os.Getenv("VF_TRACES")
	if outPath == "" {
		t.Skip("VF_TRACES not set")
	}
	out, err := vfCreateNDJSON(outPath)
	if err != nil {
		t.Fatal(err)
	}
	defer out.Close()
	trials := vfEnvInt("VF_TRIALS", 150)
	rng := rand.New(rand.NewSource(vfSeed()*7919 + 17))
	errs := 0
	done := 0
	bad := 0 // bursts that ended with a wall-clock verdict: a few suffice (each costs the generous deadline)
	for numConns := 1; numConns <= 3; numConns++ {
		r, err := vfC17NewRun(numConns, 1, numConns, func(cfg *ClusterConfig) { cfg.ReconnectInterval = 0 })
		if err != nil {
			t.Fatalf("session: %v", err)
		}
		s := r.sess
		for tr := 0; tr < trials/3 && bad < 3; tr++ {
			k := (numConns-1)*10000 + tr
			ip := fmt.Sprintf("10.%d.%d.%d", 20+numConns, tr/200, 10+tr%200)
			desc := vfHostDesc{ID: fmt.Sprintf("00000000-0000-0000-0002-%012d", k), Addr: ip, DC: "dc1", Rack: "r1", Tokens: []string{"5"}}
			node := vfNewNode(r.cl, desc)
			r.base.AddNode(node)
			host := &HostInfo{connectAddress: net.ParseIP(ip), port: 9042, hostId: desc.ID, dataCenter: "dc1", rack: "r1",
				version: cassVersion{3, 11, 4}, state: NodeUp}
			nAdd := 2 + rng.Intn(5)
			nRem := 0
			if rng.Intn(4) == 0 {
				nRem = 1 + rng.Intn(2)
			}
			var goFlag int32
			var ready, fin sync.WaitGroup
			for i := 0; i < nAdd+nRem; i++ {
				ready.Add(1)
				fin.Add(1)
				go func(i int) {
					defer fin.Done()
					ready.Done()
					for atomic.LoadInt32(&goFlag) == 0 {
					}
					if i < nAdd {
						s.pool.addHost(host)
					} else {
						s.pool.removeHost(host.HostID())
					}
				}(i)
			}
			ready.Wait()
			time.Sleep(200 * time.Microsecond)
			atomic.StoreInt32(&goFlag, 1)
			if o, _ := vfC17HungFn(fin.Wait, nil); o != vfC17Good {
				errs++
				continue
			}
			count := func() int { return r.openPerHost()[ip] }
			// complete: no dial in flight and no pool of this host still filling (addHost returns with the fill's
			// background round running), read twice with no lifecycle event in between
			complete := func() bool {
				a0 := r.actN()
				if r.busy() {
					return false
				}
				for _, p := range r.poolsOf(ip) {
					p.mu.RLock()
					f := p.filling
					p.mu.RUnlock()
					if f {
						return false
					}
				}
				time.Sleep(2 * time.Millisecond)
				return !r.busy() && r.actN() == a0
			}
			// good: everything has completed and the dialer sees at most NumConns connections, all of them owned by
			// the pool in the map.  A pool just removed is closed asynchronously: anything else is declared only
			// after the deadline with nothing in flight any more (vfC17Settle); otherwise the burst gives no verdict.
			last, inMap := 0, false
			o := vfC17Settle(func() bool {
				if !complete() {
					return false
				}
				last = count()
				_, inMap = s.pool.getPool(host)
				return last <= numConns && (inMap || last == 0) && complete()
			}, r.actN, r.busy)
			if o == vfC17Unsure {
				errs++
				continue
			}
			if o == vfC17Bad {
				bad++
				last = count()
				_, inMap = s.pool.getPool(host)
			}
			q := "pool-in-map"
			if !inMap {
				q = "no-pool-in-map"
			}
			sched := 200000 + k
			out.Write(vfC17Rec{Sched: sched, K: 0, Ev: "init", Size: numConns, Conns: []int{}, Open: []int{}, Dead: []int{}})
			out.Write(vfC17Rec{Sched: sched, K: 1, Ev: "h_host_conns", A: last, Size: numConns, Conns: []int{}, Open: []int{}, Dead: []int{}, Q: q,
				Gor: nAdd*10 + nRem})
			// the host goes away: nothing may stay open
			s.pool.removeHost(host.HostID())
			if o == vfC17Good {
				// nothing stays open: early exit; otherwise only after the deadline with nothing in flight
				switch vfC17Settle(func() bool { return count() == 0 }, r.actN, r.busy) {
				case vfC17Unsure:
					errs++
					continue
				case vfC17Bad:
					bad++
				}
			}
			out.Write(vfC17Rec{Sched: sched, K: 2, Ev: "h_host_closed", A: count(), Size: numConns, Conns: []int{}, Open: []int{}, Dead: []int{}})
			done++
			// whatever was left behind would distort nothing else: close it
			r.mu.Lock()
			for _, d := range r.dials {
				if d.node == ip {
					d.mem.Close()
				}
			}
			r.mu.Unlock()
		}
		vfC17HungFn(s.Close, nil)
		r.dropConnScope()
	}
	fmt.Printf("VFSUMMARY {\"Trials\":%d,\"Errors\":%d}\n", done, errs)
}
