package gocql

// C17, part 4: the map of host pools (policyConnPool) under concurrent triggers for one host.
// PolicyPool.tla states what must hold; here bursts of addHost / removeHost calls released together hit a
// real policyConnPool for a host that has no pool yet, and the dialer's view is recorded: open
// connections to the host at quiescence (at most NumConns), and after removeHost (none - a pool that was
// overwritten in the map would keep its connections).  TLC evaluates the records (Trace_PoolMon.tla).

import (
	"fmt"
	"math/rand"
	"net"
	"os"
	"sync"
	"sync/atomic"
	"testing"
	"time"
)

func TestVfC17PolicyPool(t *testing.T) {
	outPath := os.Getenv("VF_TRACES")
	if outPath == "" {
		t.Skip("VF_TRACES not set")
	}
	out, err := vfCreateNDJSON(outPath)
	if err != nil {
		t.Fatal(err)
	}
	defer out.Close()
	trials := vfEnvInt("VF_TRIALS", 150)
	rng := rand.New(rand.NewSource(vfSeed()*7919 + 17))
	errs := 0
	done := 0
	for numConns := 1; numConns <= 3; numConns++ {
		r, err := vfC17NewRun(numConns, 1, numConns, func(cfg *ClusterConfig) { cfg.ReconnectInterval = 0 })
		if err != nil {
			t.Fatalf("session: %v", err)
		}
		s := r.sess
		for tr := 0; tr < trials/3; tr++ {
			k := (numConns-1)*10000 + tr
			ip := fmt.Sprintf("10.%d.%d.%d", 20+numConns, tr/200, 10+tr%200)
			desc := vfHostDesc{ID: fmt.Sprintf("00000000-0000-0000-0002-%012d", k), Addr: ip, DC: "dc1", Rack: "r1", Tokens: []string{"5"}}
			node := vfNewNode(r.cl, desc)
			r.base.AddNode(node)
			host := &HostInfo{connectAddress: net.ParseIP(ip), port: 9042, hostId: desc.ID, dataCenter: "dc1", rack: "r1",
				version: cassVersion{3, 11, 4}, state: NodeUp}
			nAdd := 2 + rng.Intn(5)
			nRem := 0
			if rng.Intn(4) == 0 {
				nRem = 1 + rng.Intn(2)
			}
			var goFlag int32
			var ready, fin sync.WaitGroup
			for i := 0; i < nAdd+nRem; i++ {
				ready.Add(1)
				fin.Add(1)
				go func(i int) {
					defer fin.Done()
					ready.Done()
					for atomic.LoadInt32(&goFlag) == 0 {
					}
					if i < nAdd {
						s.pool.addHost(host)
					} else {
						s.pool.removeHost(host.HostID())
					}
				}(i)
			}
			ready.Wait()
			time.Sleep(200 * time.Microsecond)
			atomic.StoreInt32(&goFlag, 1)
			okf, _ := vfWithin(5*time.Second, fin.Wait)
			if !okf {
				errs++
				continue
			}
			count := func() int { return r.openPerHost()[ip] }
			// quiescence: the count has not changed for 80 ms (bounded)
			last, since := -1, time.Now()
			vfC17Poll(3*time.Second, func() bool {
				c := count()
				if c != last {
					last, since = c, time.Now()
				}
				return time.Since(since) > 80*time.Millisecond
			})
			_, inMap := s.pool.getPool(host)
			q := "pool-in-map"
			if !inMap {
				q = "no-pool-in-map"
			}
			sched := 200000 + k
			out.Write(vfC17Rec{Sched: sched, K: 0, Ev: "init", Size: numConns, Conns: []int{}, Open: []int{}, Dead: []int{}})
			out.Write(vfC17Rec{Sched: sched, K: 1, Ev: "h_host_conns", A: last, Size: numConns, Conns: []int{}, Open: []int{}, Dead: []int{}, Q: q,
				Gor: nAdd*10 + nRem})
			// the host goes away: nothing may stay open
			s.pool.removeHost(host.HostID())
			vfC17Poll(2*time.Second, func() bool { return count() == 0 })
			out.Write(vfC17Rec{Sched: sched, K: 2, Ev: "h_host_closed", A: count(), Size: numConns, Conns: []int{}, Open: []int{}, Dead: []int{}})
			done++
			// whatever was left behind would distort nothing else: close it
			r.mu.Lock()
			for _, d := range r.dials {
				if d.node == ip {
					d.mem.Close()
				}
			}
			r.mu.Unlock()
		}
		vfWithin(vfC17CloseWatchdog, s.Close)
		r.dropConnScope()
	}
	fmt.Printf("VFSUMMARY {\"Trials\":%d,\"Errors\":%d}\n", done, errs)
}
