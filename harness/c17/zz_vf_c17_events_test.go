package gocql

// C17, part 5: the event debouncers (events.go) against Session.Close.
//
//  - The schedule TLC derives from Lifecycle.tla with Defect_EvStopUnderLock (EvEager sub-graph: a debounce() holds
//    e.mu, stop() queues for it, the flush timer fires, the flusher queues behind, debounce unlocks) is replayed on a
//    real eventDebouncer and on the node-event debouncer of a real Session.  debounce() is held inside its critical
//    section through the debouncer's own logger (a full buffer is reported under e.mu); the timer is fired through the
//    debouncer's timer field.  stop() / Session.Close must return.
//  - Close while an event handler is still running (schema change -> awaitSchemaAgreement on a cluster that never
//    agrees): Close must not wait for the handler.

import (
	"encoding/json"
	"fmt"
	"net"
	"os"
	"strings"
	"sync"
	"sync/atomic"
	"time"
)

// vfC17BlockLogger parks a "buffer full" report while armed (the report is made inside debounce's critical section).
type vfC17BlockLogger struct {
	armed   int32
	parked  chan struct{}
	release chan struct{}
	once    sync.Once
}

func vfC17NewBlockLogger() *vfC17BlockLogger {
	return &vfC17BlockLogger{parked: make(chan struct{}), release: make(chan struct{})}
}

func (l *vfC17BlockLogger) Print(v ...interface{})   {}
func (l *vfC17BlockLogger) Println(v ...interface{}) {}
func (l *vfC17BlockLogger) Printf(format string, v ...interface{}) {
	if atomic.LoadInt32(&l.armed) == 0 || !strings.Contains(format, "buffer full") {
		return
	}
	fire := false
	l.once.Do(func() { fire = true })
	if fire {
		close(l.parked)
		<-l.release
	}
}

func (l *vfC17BlockLogger) unlock() {
	select {
	case <-l.release:
	default:
		close(l.release)
	}
}

// the schedule: commands derived by checks/c17.py from TLC's counterexample (VF_EV_SCHEDULE), or the canonical order
func vfC17EvSchedule() []string {
	if p := os.Getenv("VF_EV_SCHEDULE"); p != "" {
		if b, err := os.ReadFile(p); err == nil {
			var cmds []string
			if json.Unmarshal(b, &cmds) == nil && len(cmds) > 0 {
				return cmds
			}
		}
	}
	return []string{"deb_lock", "close_start", "stop_queued", "timer_fire", "flusher_queued", "deb_unlock"}
}

// the goroutine that runs a bare e.stop() for the replay (not the Session.Close of the session-level twin)
func vfC17BareStopFinder(dump string) string {
	for _, g := range strings.Split(dump, "\n\n") {
		if strings.Contains(g, "eventDebouncer).stop") && strings.Contains(g, "vfC17EvReplay") && !strings.Contains(g, "Session).Close") {
			return g
		}
	}
	return ""
}

func vfC17EvFrame() frame {
	return &statusChangeEventFrame{change: "UP", host: net.ParseIP("10.9.9.9"), port: 9042}
}

// vfC17EvReplay drives one eventDebouncer through the schedule; stopFn is e.stop or the Session.Close that calls it.
// It returns when the schedule is through; the caller judges `done`.
func vfC17EvReplay(e *eventDebouncer, lg *vfC17BlockLogger, stopFn func(), stopMarker string, cmds []string) (done <-chan struct{}, err string) {
	var stopDone chan struct{}
	inStop := func() bool { // the goroutine has reached eventDebouncer.stop (or is through with it)
		if stopDone != nil {
			select {
			case <-stopDone:
				return true
			default:
			}
		}
		if stopMarker == "" {
			return vfC17BareStopFinder(vfGoroutineDump()) != ""
		}
		return vfC17FindGoroutine(stopMarker, "eventDebouncer).stop")(vfGoroutineDump()) != ""
	}
	for _, c := range cmds {
		switch c {
		case "deb_lock":
			// fill the buffer (the timer is re-armed by every debounce: keep it from firing on its own), then one more
			// debounce reports "buffer full" to the logger inside the critical section and stays there
			for i := 0; i < eventBufferSize; i++ {
				e.debounce(vfC17EvFrame())
			}
			atomic.StoreInt32(&lg.armed, 1)
			go e.debounce(vfC17EvFrame())
			select {
			case <-lg.parked:
			case <-time.After(vfC17DeadlineD()):
				return nil, "debounce did not reach the logger"
			}
			e.timer.Reset(time.Hour) // time does not pass until the schedule says so
		case "close_start":
			if stopDone == nil {
				stopDone = make(chan struct{})
				go func() { defer close(stopDone); stopFn() }()
			}
		case "stop_queued":
			if stopDone == nil {
				stopDone = make(chan struct{})
				go func() { defer close(stopDone); stopFn() }()
			}
			if !vfC17Poll(vfC17DeadlineD(), inStop) {
				return stopDone, "stop() was not reached"
			}
			time.Sleep(2 * time.Millisecond) // from the first frame of stop() to its first blocking call
		case "timer_fire":
			e.timer.Reset(time.Nanosecond)
		case "flusher_queued":
			// the flusher has left its select by the timer case and waits for e.mu (or has already gone: stop() done)
			vfC17Poll(5*time.Second, func() bool {
				d := vfGoroutineDump()
				g := vfC17FindGoroutine("eventDebouncer).flusher", "Mutex).Lock")(d)
				return g != "" || (stopDone != nil && func() bool {
					select {
					case <-stopDone:
						return true
					default:
						return false
					}
				}())
			})
		case "deb_unlock":
			lg.unlock()
		}
	}
	lg.unlock()
	if stopDone == nil {
		stopDone = make(chan struct{})
		go func() { defer close(stopDone); stopFn() }()
	}
	return stopDone, ""
}

// eventDebouncer level
func vfC17ScenEvStopVsFlush() vfC17ScenResult {
	res := vfC17ScenResult{Name: "event-debouncer-stop-vs-flush"}
	lg := vfC17NewBlockLogger()
	e := newEventDebouncer("vf", func([]frame) {}, lg)
	done, err := vfC17EvReplay(e, lg, e.stop, "", vfC17EvSchedule())
	if err != "" {
		lg.unlock()
		res.Err = err
		return res
	}
	if ok, dump := res.waitCh(done, vfC17BareStopFinder); ok {
		res.Obs = "stop() returned"
	} else {
		res.Obs = "stop() did not return"
		res.Viol = "event-debouncer-stop-hang"
		res.What = "eventDebouncer.stop() did not return under the schedule TLC derives from Lifecycle.tla (a debounce() holds e.mu, stop() and " +
			"then the flusher - woken by the flush timer - queue for it): the flusher waits for e.mu and never takes the quit hand-off"
		res.Detail = vfC17BareStopFinder(dump)
	}
	return res
}

// Session level: the same schedule on the node-event debouncer of a real Session, Close instead of stop()
func vfC17ScenCloseVsEventFlush() vfC17ScenResult {
	res := vfC17ScenResult{Name: "close-vs-event-flush"}
	lg := vfC17NewBlockLogger()
	r, err := vfC17NewRun(1, 2, 1, func(cfg *ClusterConfig) { cfg.Logger = lg })
	if err != nil {
		res.Err = err.Error()
		return res
	}
	s := r.sess
	done, e2 := vfC17EvReplay(s.nodeEvents, lg, s.Close, fmt.Sprintf("gocql.(*Session).Close(%p", s), vfC17EvSchedule())
	if e2 != "" {
		lg.unlock()
		res.Err = e2
		return res
	}
	if ok, dump := res.waitCh(done, vfC17CloseFinder(s)); ok {
		res.Obs = "Close returned"
		res.settle(func() bool { return len(r.openConns()) == 0 }, r.actN, r.busy)
		if open := r.openConns(); len(open) > 0 && res.Unsure == "" {
			res.Viol = "conn-leak-after-close:close-vs-event-flush"
			res.What = "connections stayed open after Session.Close racing an event flush"
		}
	} else {
		res.Obs = "Close hung"
		res.Viol = "session-close-hang:" + vfC17HangSig(dump, s)
		res.What = "Session.Close did not return when the node-event flush timer fired while Close was stopping the event debouncer " +
			"(schedule derived by TLC from Lifecycle.tla)"
		res.Detail = vfC17CloseFinder(s)(dump)
	}
	return res
}

// Close while an event handler is still running: a SCHEMA_CHANGE event for a keyspace is flushed to
// handleSchemaEvent -> handleKeyspaceChange -> awaitSchemaAgreement, which polls the scripted cluster for agreement it
// never reports (up to MaxWaitSchemaAgreement, two minutes here).  Close must not wait for the handler.
func vfC17ScenCloseDuringSlowHandler() vfC17ScenResult {
	res := vfC17ScenResult{Name: "close-during-slow-event-handler"}
	r, err := vfC17NewRun(1, 2, 1, func(cfg *ClusterConfig) { cfg.MaxWaitSchemaAgreement = 2 * time.Minute })
	if err != nil {
		res.Err = err.Error()
		return res
	}
	s := r.sess
	sc := vfNewScope()
	var nDeb, nFlush int32
	sc.OnEvent = func(point string, obj interface{}, _ string, a int, err error) {
		switch point {
		case "e_debounce":
			atomic.AddInt32(&nDeb, 1)
		case "e_flush":
			if a > 0 {
				atomic.AddInt32(&nFlush, 1)
			}
		}
	}
	sc.Bind(s.schemaEvents)
	defer sc.Unbind(s.schemaEvents)
	// the handler's polling shows up at the control node as system.peers queries after the flush
	var peersAfterFlush int32
	for _, n := range r.nodes {
		n.OnFrame = func(nc *vfNodeConn, f *vfFrame, q *vfRequest) {
			if f.Op == vfOpQuery && atomic.LoadInt32(&nFlush) > 0 && strings.Contains(strings.ToLower(q.Stmt), "system.peers") {
				atomic.AddInt32(&peersAfterFlush, 1)
			}
		}
	}
	// the control node announces a keyspace change
	ch := s.control.getConn()
	var ctl *vfC17DialRec
	for _, d := range r.liveNodeConns() {
		if ch != nil && ch.conn != nil && d.mem == vfC17MemOf(ch.conn.conn) {
			ctl = d
		}
	}
	if ctl == nil {
		res.Err = "control connection not found"
		s.Close()
		return res
	}
	ctl.nc.Event((&vfW{}).String("SCHEMA_CHANGE").String("UPDATED").String("KEYSPACE").String("vfks").b)
	if !vfC17Poll(vfC17DeadlineD(), func() bool { return atomic.LoadInt32(&nDeb) > 0 }) {
		res.Err = "the schema event was not debounced"
		s.Close()
		return res
	}
	s.schemaEvents.timer.Reset(time.Nanosecond) // the debounce interval has passed
	if !vfC17Poll(vfC17DeadlineD(), func() bool { return atomic.LoadInt32(&peersAfterFlush) > 0 }) {
		res.Err = "the schema-change handler did not start polling for schema agreement"
		s.Close()
		return res
	}
	if ok, dump := res.within(s.Close, vfC17CloseFinder(s)); ok {
		res.Obs = "Close returned while the handler was polling for schema agreement"
	} else {
		res.Obs = "Close hung"
		res.Viol = "session-close-hang:" + vfC17HangSig(dump, s) + "-during-event-handler"
		res.What = "Session.Close did not return while an event handler (schema change -> awaitSchemaAgreement on a cluster that does not " +
			"agree) was still running: Close waits for event delivery"
		res.Detail = vfC17CloseFinder(s)(dump)
	}
	return res
}

// Session.Close while the control connection's heartbeat goroutine is not parked in its select:
//
//	options-in-flight        its OPTIONS probe has been sent, the node withholds the answer;
//	reconnect-setup-pending  the probe was answered with an error (no connection loss), reconnect() has dialled a new
//	                         control connection and setupConn's system.local answer is withheld.
//
// The node answers once Close has reached controlConn.close().  Close must return (the heartbeat goroutine and Close
// must not wait for each other), nothing stays open, and the heartbeat goroutine exits.
func vfC17ScenCloseDuringControlHeartbeat(kind string) func() vfC17ScenResult {
	return func() vfC17ScenResult {
		res := vfC17ScenResult{Name: "close-during-control-heartbeat-" + kind}
		gid := vfC17CurGoroutineID()
		r, err := vfC17NewRun(1, 2, 1, nil)
		if err != nil {
			res.Err = err.Error()
			return res
		}
		s := r.sess
		type held struct {
			nc *vfNodeConn
			f  *vfFrame
			q  *vfRequest
		}
		var mu sync.Mutex
		var holds []held
		var armed, nProbe int32 = 1, 0
		release := func() {
			atomic.StoreInt32(&armed, 0)
			mu.Lock()
			hs := holds
			holds = nil
			mu.Unlock()
			for _, h := range hs {
				h.nc.Node.defaultHandle(h.nc, h.f, h.q)
			}
		}
		for _, n := range r.nodes {
			n.Handler = func(nc *vfNodeConn, f *vfFrame, q *vfRequest) bool {
				if atomic.LoadInt32(&armed) == 0 {
					return false
				}
				registered := len(nc.Registered) > 0
				switch {
				case f.Op == vfOpOptions && registered:
					// a probe on the control connection (the connection-level heartbeat uses the same frame)
					if kind == "options-in-flight" {
						mu.Lock()
						holds = append(holds, held{nc, f, q})
						mu.Unlock()
						atomic.AddInt32(&nProbe, 1)
						return true
					}
					atomic.AddInt32(&nProbe, 1)
					nc.Reply(f, vfOpError, vfErrorBody(0x1001, "vf: overloaded", nil))
					return true
				case kind == "reconnect-setup-pending" && !registered && f.Op == vfOpQuery && atomic.LoadInt32(&nProbe) > 0 &&
					strings.Contains(strings.ToLower(q.Stmt), "system.local"):
					mu.Lock()
					holds = append(holds, held{nc, f, q})
					mu.Unlock()
					return true
				}
				return false
			}
		}
		defer release()
		nHeld := func() int { mu.Lock(); defer mu.Unlock(); return len(holds) }
		// the heartbeat's first probe comes one second after the control connection was set up
		if !vfC17Poll(vfC17DeadlineD(), func() bool { return nHeld() > 0 }) {
			res.Err = "the control heartbeat did not get into the withheld round trip"
			release()
			s.Close()
			return res
		}
		done := vfC17Go(s.Close)
		// Close has reached controlConn.close(): the state is `closing` (or Close is through already)
		vfC17Poll(vfC17DeadlineD(), func() bool {
			select {
			case <-done:
				return true
			default:
			}
			return atomic.LoadInt32(&s.control.state) == controlConnClosing
		})
		time.Sleep(2 * time.Millisecond)
		release()
		if ok, dump := res.waitCh(done, vfC17CloseFinder(s)); !ok {
			res.Obs = "Close hung"
			res.Viol = "session-close-hang:" + vfC17HangSig(dump, s) + "-during-heartbeat-" + kind
			res.What = "Session.Close did not return when it was called while the control connection's heartbeat goroutine was busy (" + kind +
				"): Close waits for the heartbeat goroutine, the heartbeat goroutine waits for something Close holds"
			res.Detail = vfC17CloseFinder(s)(dump) + "\n\n" + vfC17FindGoroutine("controlConn).heartBeat")(dump)
			return res
		}
		res.settle(func() bool { return len(r.openConns()) == 0 }, r.actN, r.busy)
		open := r.openConns()
		// the heartbeat goroutine of this session (and anything else the driver started since) is gone
		mine := func() []string {
			var out []string
			for _, g := range vfC17DriverGoroutines() {
				// this session's heartbeat goroutine was started by NewSession on this scenario's own goroutine (the receiver
				// pointer printed in a frame is not reliable enough to tell sessions apart)
				if vfC17EntryFunc(g) == "controlConn.heartBeat" && strings.Contains(g+"\n", " in goroutine "+gid+"\n") {
					out = append(out, g)
				}
			}
			return out
		}
		var gs []string
		res.settle(func() bool { gs = mine(); return len(gs) == 0 }, func() int64 {
			var h int64
			for _, g := range mine() {
				for _, c := range vfC17GoroutineID(g) {
					h = h*131 + int64(c)
				}
			}
			return h
		}, nil)
		res.Obs = fmt.Sprintf("Close returned; open connections %v; heartbeat goroutines of the session left: %d", open, len(gs))
		switch {
		case res.Unsure != "":
		case len(gs) > 0:
			res.Viol = "goroutine-leak-after-close:controlConn.heartBeat-busy-at-close"
			res.What = "the control connection's heartbeat goroutine was still running long after Session.Close returned: Close arrived while it " +
				"was busy (" + kind + ") and its stop signal was lost"
			res.Detail = gs[0]
		case len(open) > 0:
			res.Viol = "conn-leak-after-close:close-during-control-heartbeat"
			res.What = "connections stayed open after Session.Close called during a control heartbeat round trip"
		}
		return res
	}
}
