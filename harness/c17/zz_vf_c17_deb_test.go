package gocql

// C17, part 2: behaviours of Lifecycle.tla (the deadlock counterexample TLC finds with
// Defect_StopHandshake = TRUE, and simulation walks of the repaired protocol) replayed on a real
// refreshDebouncer.  The flusher parks at d_flusher_woke (between its select and the lock),
// stop() parks at d_stop_send (between the critical section and the quit hand-shake), the refresh
// function parks in the harness.  After the walk everything is released and every stop() that was
// called - or one final stop() - must return within the watchdog.

import (
	"bufio"
	"encoding/json"
	"fmt"
	"os"
	"sort"
	"strings"
	"sync"
	"sync/atomic"
	"testing"
	"time"
)

type vfC17DebStep struct {
	Cmd string `json:"cmd"`
	Who string `json:"who"`
}

type vfC17DebSchedule struct {
	N      int            `json:"n"`
	Origin string         `json:"origin"`
	Steps  []vfC17DebStep `json:"steps"`
}

type vfC17DebRig struct {
	d  *refreshDebouncer
	sc *vfScope

	mu        sync.Mutex
	free      bool
	flWoke    chan struct{}            // non-nil: the flusher is parked after its select
	stopSend  map[string]chan struct{} // stoppers parked before the quit hand-shake
	pendK     string
	fnParked  chan struct{} // non-nil: refreshFn is parked
	exited    bool
	refreshes int
	stopRet   map[string]bool
	stopCall  []string
	req       map[string]string
	reqWhen   map[string]string // before-stop | after-stop: when refreshNow was called
}

func (r *vfC17DebRig) onEvent(point string, obj interface{}, s string, a int, err error) {
	switch point {
	case "d_flusher_exit":
		r.mu.Lock()
		r.exited = true
		r.mu.Unlock()
	case "d_flusher_woke":
		r.mu.Lock()
		if r.free {
			r.mu.Unlock()
			return
		}
		ch := make(chan struct{})
		r.flWoke = ch
		r.mu.Unlock()
		<-ch
	case "d_stop_send":
		r.mu.Lock()
		if r.free {
			r.mu.Unlock()
			return
		}
		ch := make(chan struct{})
		k := r.pendK
		r.pendK = ""
		r.stopSend[k] = ch
		r.mu.Unlock()
		<-ch
	}
}

func (r *vfC17DebRig) refreshFn() error {
	r.mu.Lock()
	r.refreshes++
	if r.free {
		r.mu.Unlock()
		return nil
	}
	ch := make(chan struct{})
	r.fnParked = ch
	r.mu.Unlock()
	<-ch
	return nil
}

func vfC17Poll(d time.Duration, cond func() bool) bool {
	deadline := time.Now().Add(d)
	for i := 0; ; i++ {
		if cond() {
			return true
		}
		if time.Now().After(deadline) {
			return false
		}
		if i < 100 {
			time.Sleep(20 * time.Microsecond)
		} else {
			time.Sleep(300 * time.Microsecond)
		}
	}
}

func (r *vfC17DebRig) locked(f func() bool) func() bool {
	return func() bool {
		r.mu.Lock()
		defer r.mu.Unlock()
		return f()
	}
}

func (r *vfC17DebRig) exec(st vfC17DebStep, wait time.Duration) error {
	switch st.Cmd {
	case "refresh_now":
		called := make(chan struct{})
		go func() {
			r.mu.Lock()
			if len(r.stopCall) > 0 {
				r.reqWhen[st.Who] = "after-stop"
			} else {
				r.reqWhen[st.Who] = "before-stop"
			}
			r.mu.Unlock()
			ch := r.d.refreshNow()
			r.mu.Lock()
			r.req[st.Who] = "waiting"
			r.mu.Unlock()
			close(called)
			_, ok := <-ch
			r.mu.Lock()
			if ok {
				r.req[st.Who] = "answered"
			} else {
				r.req[st.Who] = "closed"
			}
			r.mu.Unlock()
		}()
		select {
		case <-called:
		case <-time.After(wait):
			return fmt.Errorf("refreshNow did not return")
		}
	case "debounce":
		r.d.debounce()
	case "timer_fire":
		r.d.mu.Lock()
		r.d.timer.Reset(time.Nanosecond)
		r.d.mu.Unlock()
	case "flusher_wake":
		if !vfC17Poll(wait, r.locked(func() bool { return r.flWoke != nil })) {
			return fmt.Errorf("the flusher did not wake")
		}
	case "flusher_lock":
		r.mu.Lock()
		ch := r.flWoke
		r.flWoke = nil
		r.mu.Unlock()
		if ch == nil {
			return fmt.Errorf("the flusher is not parked after its select")
		}
		close(ch)
		if !vfC17Poll(wait, r.locked(func() bool { return r.exited || r.fnParked != nil })) {
			return fmt.Errorf("the flusher neither exited nor refreshed")
		}
	case "refresh_done":
		r.mu.Lock()
		ch := r.fnParked
		r.fnParked = nil
		r.mu.Unlock()
		if ch == nil {
			return fmt.Errorf("no refresh in progress")
		}
		close(ch)
	case "stop_mark":
		r.mu.Lock()
		r.pendK = st.Who
		r.stopCall = append(r.stopCall, st.Who)
		r.mu.Unlock()
		go func() {
			r.d.stop()
			r.mu.Lock()
			r.stopRet[st.Who] = true
			r.mu.Unlock()
		}()
		if !vfC17Poll(wait, r.locked(func() bool { return r.stopSend[st.Who] != nil || r.stopRet[st.Who] })) {
			return fmt.Errorf("stop() neither returned nor reached the hand-shake")
		}
	case "stop_send":
		r.mu.Lock()
		ch := r.stopSend[st.Who]
		delete(r.stopSend, st.Who)
		r.mu.Unlock()
		if ch != nil {
			close(ch)
		}
	default:
		return fmt.Errorf("unknown command %q", st.Cmd)
	}
	return nil
}

type vfC17DebResult struct {
	N         int               `json:"n"`
	Origin    string            `json:"origin"`
	Followed  int               `json:"followed"` // steps executed
	Steps     int               `json:"steps"`
	Stuck     string            `json:"stuck"` // why the walk could not be followed further ("" = complete)
	Hang      bool              `json:"hang"`
	Sig       string            `json:"sig"`
	Exited    bool              `json:"exited"`
	Refreshes int               `json:"refreshes"`
	Req       map[string]string `json:"req"`
	Stops     []string          `json:"stops"`
	Dump      string            `json:"dump"`
	// listeners never resolved although every stop() returned
	Unanswered      []string `json:"unanswered"`
	UnansweredClass string   `json:"unanswered_class"`
	Unsure          string   `json:"unsure"`
	Skipped         bool     `json:"skipped"`
}

func vfC17RunDebSchedule(sch *vfC17DebSchedule, watchdog time.Duration) vfC17DebResult {
	r := &vfC17DebRig{stopSend: map[string]chan struct{}{}, stopRet: map[string]bool{}, req: map[string]string{}, reqWhen: map[string]string{}}
	r.sc = vfNewScope()
	r.sc.OnEvent = r.onEvent
	r.d = vfC17NewDebouncer(r)
	res := vfC17DebResult{N: sch.N, Origin: sch.Origin, Steps: len(sch.Steps), Req: map[string]string{}, Stops: []string{}, Unanswered: []string{}}
	for _, st := range sch.Steps {
		if e := r.exec(st, 5*time.Second); e != nil {
			res.Stuck = fmt.Sprintf("%s %s: %v", st.Cmd, st.Who, e)
			break
		}
		res.Followed++
	}
	// let everything run
	r.mu.Lock()
	r.free = true
	if r.flWoke != nil {
		close(r.flWoke)
		r.flWoke = nil
	}
	if r.fnParked != nil {
		close(r.fnParked)
		r.fnParked = nil
	}
	for k, ch := range r.stopSend {
		close(ch)
		delete(r.stopSend, k)
	}
	ncalls := len(r.stopCall)
	r.mu.Unlock()
	if ncalls == 0 {
		r.mu.Lock()
		r.stopCall = append(r.stopCall, "final")
		r.mu.Unlock()
		go func() {
			r.d.stop()
			r.mu.Lock()
			r.stopRet["final"] = true
			r.mu.Unlock()
		}()
	}
	// every stop() returns: early exit; a hang is declared only after the deadline with no hook of this
	// debouncer firing any more (the flusher and the stoppers are parked for good)
	_ = watchdog
	evCount := func() int64 { return int64(len(r.sc.tr.Events())) }
	so := vfC17Settle(r.locked(func() bool {
		for _, k := range r.stopCall {
			if !r.stopRet[k] {
				return false
			}
		}
		return true
	}), evCount, nil)
	ok := so == vfC17Good
	if so == vfC17Unsure {
		res.Unsure = "stop() had not returned at the hard cap while the debouncer's hooks were still firing"
	}
	// every listener is watched: once every stop() has returned the flusher is gone, so each request -
	// made before, during (refreshFn running) or after stop - must have been answered or refused
	// (closed channel) within the watchdog
	listeners := true
	if ok {
		lo := vfC17Settle(r.locked(func() bool {
			for _, v := range r.req {
				if v == "waiting" {
					return false
				}
			}
			return true
		}), evCount, nil)
		listeners = lo != vfC17Bad
		if lo == vfC17Unsure {
			res.Unsure = "listeners were unresolved at the hard cap while the debouncer's hooks were still firing"
		}
	}
	r.mu.Lock()
	res.Hang = so == vfC17Bad
	if res.Hang || !listeners {
		atomic.AddInt32(&vfC17WallVerdicts, 1)
	}
	if !listeners {
		cls := map[string]bool{}
		for k, v := range r.req {
			if v == "waiting" {
				res.Unanswered = append(res.Unanswered, k)
				cls[r.reqWhen[k]] = true
			}
		}
		sort.Strings(res.Unanswered)
		switch {
		case cls["before-stop"] && cls["after-stop"]:
			res.UnansweredClass = "before-and-after-stop"
		case cls["after-stop"]:
			res.UnansweredClass = "requested-after-stop"
		default:
			res.UnansweredClass = "pending-at-stop"
		}
	}
	res.Exited = r.exited
	res.Refreshes = r.refreshes
	for k, v := range r.req {
		res.Req[k] = v
	}
	res.Stops = append(res.Stops, r.stopCall...)
	r.mu.Unlock()
	if res.Hang {
		dump := vfGoroutineDump()
		res.Sig = "other"
		for _, g := range strings.Split(dump, "\n\n") {
			if strings.Contains(g, "refreshDebouncer).stop") && strings.Contains(g, "chan send") {
				if res.Exited {
					res.Sig = "flusher-exited-before-quit"
				} else {
					res.Sig = "quit-send-blocked"
				}
				res.Dump = g
			}
		}
		if res.Dump == "" && len(dump) > 3000 {
			res.Dump = dump[:3000]
		}
	}
	r.sc.Unbind(r.d)
	return res
}

// vfC17NewDebouncer builds a refreshDebouncer like newRefreshDebouncer does, binding it to the
// rig's scope before its flusher goroutine starts.
func vfC17NewDebouncer(r *vfC17DebRig) *refreshDebouncer {
	// newRefreshDebouncer starts the flusher itself; the flusher's first hook is only reached after
	// a wake-up, which the harness causes later, so binding right after construction is early enough.
	d := newRefreshDebouncer(time.Hour, r.refreshFn)
	r.sc.Bind(d)
	return d
}

// TestVfC17Debouncer: VF_SCHEDULES (NDJSON of vfC17DebSchedule) -> VF_TRACES (NDJSON of results).
func TestVfC17Debouncer(t *testing.T) {
	in := os.Getenv("VF_SCHEDULES")
	if in == "" {
		t.Skip("VF_SCHEDULES not set")
	}
	f, err := os.Open(in)
	if err != nil {
		t.Fatal(err)
	}
	defer f.Close()
	var scheds []*vfC17DebSchedule
	rd := bufio.NewReaderSize(f, 1<<20)
	for {
		line, err := rd.ReadBytes('\n')
		if len(line) > 1 {
			sch := &vfC17DebSchedule{}
			if e := json.Unmarshal(line, sch); e != nil {
				t.Fatalf("bad schedule: %v", e)
			}
			scheds = append(scheds, sch)
		}
		if err != nil {
			break
		}
	}
	out, err := vfCreateNDJSON(os.Getenv("VF_TRACES"))
	if err != nil {
		t.Fatal(err)
	}
	defer out.Close()
	watchdog := time.Duration(vfEnvInt("VF_WATCHDOG_MS", 1500)) * time.Millisecond
	par := vfEnvInt("VF_PAR", 8)
	sem := make(chan struct{}, par)
	var wg sync.WaitGroup
	var mu sync.Mutex
	n, hangs := 0, 0
	for _, sch := range scheds {
		wg.Add(1)
		sem <- struct{}{}
		go func(sch *vfC17DebSchedule) {
			defer wg.Done()
			defer func() { <-sem }()
			var res vfC17DebResult
			if atomic.LoadInt32(&vfC17WallVerdicts) >= 6 && sch.Origin == "sim" {
				// the verdict stands (each further one costs the generous deadline): skip the remaining random walks
				res = vfC17DebResult{N: sch.N, Origin: sch.Origin, Steps: len(sch.Steps), Req: map[string]string{}, Stops: []string{},
					Unanswered: []string{}, Skipped: true}
			} else {
				res = vfC17RunDebSchedule(sch, watchdog)
			}
			mu.Lock()
			out.Write(res)
			n++
			if res.Hang {
				hangs++
			}
			mu.Unlock()
		}(sch)
	}
	wg.Wait()
	fmt.Printf("VFSUMMARY {\"Schedules\":%d,\"Hangs\":%d}\n", n, hangs)
}
