package gocql

// C17, part 1: graph walk / schedule replay of Pool.tla on a real hostConnPool.
//
// A schedule is a path of the eager state graph of spec/Pool.tla (every step is an action a
// gate can hold back, followed by the steps nothing can hold back).  The rig forces the real
// goroutines through it: fill() callers park at p_fill_gate, connect() callers park inside the
// dialer (the rig decides ok / fail) and at p_connect_gate.  After each step the projection of
// the real pool (conns, filling, closed, the dialer's open connections, who is parked where)
// is compared with the model state.  Whatever happened, the events of the run and a snapshot at
// quiescence are written out; the property invariants are evaluated on them by TLC
// (spec/Trace_PoolMon.tla).

import (
	"bufio"
	"context"
	"encoding/json"
	"fmt"
	"net"
	"os"
	"sort"
	"strings"
	"sync"
	"sync/atomic"
	"testing"
	"time"
)

type vfC17Proj struct {
	Conns     []int    `json:"conns"`
	Filling   bool     `json:"filling"`
	Closed    bool     `json:"closed"`
	Open      []int    `json:"open"`
	Gate      []string `json:"gate"`      // fillers parked at p_fill_gate
	NDial     int      `json:"ndial"`     // connect() calls waiting for the dialer
	Connected []int    `json:"connected"` // connect() calls parked at p_connect_gate
}

func (p vfC17Proj) String() string {
	b, _ := json.Marshal(p)
	return string(b)
}

type vfC17Step struct {
	Cmd string    `json:"cmd"` // fill | recheck | dial_ok | dial_fail | add | kill | close
	F   string    `json:"f"`
	C   int       `json:"c"`
	H   string    `json:"h"` // kill: the spawned filler the model activates ("" if none)
	Exp vfC17Proj `json:"exp"`
}

type vfC17Schedule struct {
	N     int         `json:"n"`
	Size  int         `json:"size"`
	Steps []vfC17Step `json:"steps"`
}

type vfC17Waiter struct {
	kind string // fill | dial | conn
	name string
	id   int
	rel  chan int
}

type vfC17RConn struct {
	mem *vfMemConn
	nc  *vfNodeConn
}

type vfC17Rig struct {
	n    int
	size int
	sess *Session
	pool *hostConnPool
	node *vfNode
	sc   *vfScope
	ip   string

	mu         sync.Mutex
	free       bool
	waiters    []*vfC17Waiter
	pendName   string
	pendConn   int
	conns      map[int]*vfC17RConn
	hsConns    []*vfMemConn
	hsFail     map[int]bool
	dead       map[int]bool
	killedPre  map[int]bool             // killed while not (yet) in the pool
	fillRet    map[string]chan struct{} // trigger -> closed when its fill() call has returned
	nextFree   int
	failMode   int
	closeErr   int32 // != 0: the sockets' Close() reports an error
	lockDead   int32 // != 0: pool.mu could not be taken for a long time (somebody deadlocked holding it)
	lockSig    string
	lockUnsure int32 // != 0: pool.mu could not be taken up to the hard cap, but nobody is provably stuck on it
	closing    int32 // pool.Close calls in flight
	fillStuck  int32 // != 0: pool.filling stayed true with no fill in progress
	inDial     int32
	lastEv     int64 // unix nano of the last hook / dial activity
	lastTick   int64 // canary ticks at that moment (load-normalised idle time)
	calls      sync.WaitGroup
}

// ---------------------------------------------------------------- dialer

type vfC17Dialer struct {
	base *vfDialer
	rigs sync.Map // ip -> *vfC17Rig
}

func (d *vfC17Dialer) DialHost(ctx context.Context, host *HostInfo) (*DialedHost, error) {
	ip := host.ConnectAddress().String()
	if v, ok := d.rigs.Load(ip); ok {
		return v.(*vfC17Rig).dial(ctx)
	}
	return d.base.DialHost(ctx, host)
}

func (r *vfC17Rig) touch() {
	atomic.StoreInt64(&r.lastEv, time.Now().UnixNano())
	atomic.StoreInt64(&r.lastTick, vfC17TickCount())
}

func (r *vfC17Rig) dial(ctx context.Context) (*DialedHost, error) {
	atomic.AddInt32(&r.inDial, 1)
	defer atomic.AddInt32(&r.inDial, -1)
	r.touch()
	res, id := 1, 0
	r.mu.Lock()
	if r.free {
		r.nextFree++
		id = 100 + r.nextFree
		r.mu.Unlock()
	} else {
		w := &vfC17Waiter{kind: "dial", rel: make(chan int, 1)}
		r.waiters = append(r.waiters, w)
		r.mu.Unlock()
		res = <-w.rel
		id = w.id
		if id == 0 {
			r.mu.Lock()
			r.nextFree++
			id = 100 + r.nextFree
			r.mu.Unlock()
		}
	}
	r.touch()
	if res == 0 {
		r.sc.tr.Emit("h_dial_fail", "obj", 0, "a", id)
		return nil, &net.OpError{Op: "dial", Net: "tcp", Addr: r.node.Addr, Err: fmt.Errorf("vf: connection refused")}
	}
	c, nc, err := r.node.Dial()
	if err != nil {
		return nil, err
	}
	prev := c.onClose
	if res == 2 {
		// the node hangs up during the handshake: the driver must close its end
		r.mu.Lock()
		r.hsFail[nc.ID] = true
		r.hsConns = append(r.hsConns, c)
		r.mu.Unlock()
		r.sc.tr.Emit("h_dial_fail", "obj", 0, "a", id)
		return &DialedHost{Conn: &vfC17Conn{vfMemConn: c, failClose: &r.closeErr}}, nil
	}
	c.onClose = func() {
		if prev != nil {
			prev()
		}
		r.touch()
		r.sc.tr.Emit("h_conn_closed", "obj", 0, "a", id)
	}
	r.mu.Lock()
	r.conns[id] = &vfC17RConn{mem: c, nc: nc}
	r.mu.Unlock()
	r.sc.tr.Emit("h_dial_ok", "obj", 0, "a", id)
	return &DialedHost{Conn: &vfC17Conn{vfMemConn: c, failClose: &r.closeErr}}, nil
}

// onEvent receives the pool hooks of this rig's pool; the two points outside the lock park.
func (r *vfC17Rig) onEvent(point string, obj interface{}, s string, a int, err error) {
	r.touch()
	if point != "p_fill_gate" && point != "p_connect_gate" {
		return
	}
	r.mu.Lock()
	if r.free {
		r.mu.Unlock()
		return
	}
	w := &vfC17Waiter{rel: make(chan int, 1)}
	if point == "p_fill_gate" {
		w.kind, w.name = "fill", r.pendName
		if w.name == "" {
			w.name = "?"
		}
		r.pendName = ""
	} else {
		w.kind, w.id = "conn", r.pendConn
		r.pendConn = 0
		if w.id == 0 {
			w.id = 999
		}
	}
	r.waiters = append(r.waiters, w)
	r.mu.Unlock()
	<-w.rel
	r.touch()
}

func (r *vfC17Rig) take(kind string, match func(*vfC17Waiter) bool) *vfC17Waiter {
	r.mu.Lock()
	defer r.mu.Unlock()
	for i, w := range r.waiters {
		if w.kind == kind && match(w) {
			r.waiters = append(r.waiters[:i], r.waiters[i+1:]...)
			return w
		}
	}
	return nil
}

func (r *vfC17Rig) idOfConn(c *Conn) int {
	for id, rc := range r.conns {
		if rc.mem == vfC17MemOf(c.conn) {
			return id
		}
	}
	return 998
}

// rlock takes pool.mu for reading; it gives up after 1.5 s (no critical section of the pool lasts that
// long: somebody sits on the lock for good) and records who.
func (r *vfC17Rig) rlock() bool {
	if atomic.LoadInt32(&r.lockDead) != 0 {
		return false
	}
	if atomic.LoadInt32(&r.lockUnsure) != 0 {
		return false
	}
	// early exit as soon as the lock is free; "held for good" only after the deadline AND with the goroutine
	// that sits in HandleError -> Lock below a pool method blocked in the very same frames over several samples
	start := time.Now()
	for i := 0; ; i++ {
		if r.pool.mu.TryRLock() {
			return true
		}
		if time.Since(start) > vfC17DeadlineD() {
			break
		}
		if i < 1000 {
			time.Sleep(200 * time.Microsecond)
		} else {
			time.Sleep(5 * time.Millisecond)
		}
	}
	hard := start.Add(vfC17HardCapD())
	for time.Now().Before(hard) {
		stable, first, sig := true, "", "unknown"
		for k := 0; k < vfC17QuietSamples; k++ {
			if r.pool.mu.TryRLock() {
				return true
			}
			dump := vfGoroutineDump()
			sig = vfC17LockSig(dump, r.pool)
			g := vfC17MinutesRe.ReplaceAllString(vfC17LockHolder(dump), "")
			if sig == "unknown" || g == "" || (k > 0 && g != first) {
				stable = false
				break
			}
			first = g
			time.Sleep(vfC17SampleGap)
		}
		if stable {
			if atomic.CompareAndSwapInt32(&r.lockDead, 0, 1) {
				r.lockSig = sig
				atomic.AddInt32(&vfC17WallVerdicts, 1)
			}
			return false
		}
		time.Sleep(vfC17SampleGap)
	}
	if r.pool.mu.TryRLock() {
		return true
	}
	atomic.StoreInt32(&r.lockUnsure, 1) // no verdict: the run ends inconclusive
	return false
}

// wall-clock verdicts taken by this test process; after a few of them the remaining schedules are skipped (each
// costs the generous deadline and the verdict stands already)
var vfC17WallVerdicts int32

// vfC17LockSig names the goroutine that waits for pool.mu while it already holds it: a pool method that
// re-enters HandleError through Conn.Close.
func vfC17LockSig(dump string, pool *hostConnPool) string {
	sig, _ := vfC17LockSigHolder(dump)
	return sig
}

func vfC17LockHolder(dump string) string {
	_, g := vfC17LockSigHolder(dump)
	return g
}

func vfC17LockSigHolder(dump string) (string, string) {
	for _, g := range strings.Split(dump, "\n\n") {
		// frames only: a fill() goroutine started by HandleError names it in its "created by" line
		if i := strings.Index(g, "\ncreated by "); i >= 0 {
			g = g[:i]
		}
		if !strings.Contains(g, "hostConnPool).HandleError(") || !strings.Contains(g, "Mutex).Lock") {
			continue
		}
		// the holder closed a connection from inside a pool method; a failed dial that closes its
		// connection (Session.dialWithoutObserver) is only a victim waiting for the lock
		switch {
		case strings.Contains(g, "hostConnPool).Close("):
			return "Close-reenters-HandleError", g
		case strings.Contains(g, "hostConnPool).connect(") && !strings.Contains(g, "dialWithoutObserver"):
			return "connect-late-arrival-reenters-HandleError", g
		}
	}
	return "unknown", ""
}

func (r *vfC17Rig) proj() vfC17Proj {
	p := vfC17Proj{Conns: []int{}, Open: []int{}, Gate: []string{}, Connected: []int{}}
	if !r.rlock() {
		return p
	}
	p.Filling, p.Closed = r.pool.filling, r.pool.closed
	pc := append([]*Conn(nil), r.pool.conns...)
	r.pool.mu.RUnlock()
	r.mu.Lock()
	for _, c := range pc {
		p.Conns = append(p.Conns, r.idOfConn(c))
	}
	for id, rc := range r.conns {
		if !rc.mem.IsClosed() {
			p.Open = append(p.Open, id)
		}
	}
	for _, w := range r.waiters {
		switch w.kind {
		case "fill":
			p.Gate = append(p.Gate, w.name)
		case "dial":
			p.NDial++
		case "conn":
			p.Connected = append(p.Connected, w.id)
		}
	}
	r.mu.Unlock()
	sort.Ints(p.Conns)
	sort.Ints(p.Open)
	sort.Ints(p.Connected)
	sort.Strings(p.Gate)
	return p
}

func (r *vfC17Rig) await(exp vfC17Proj, d time.Duration) (vfC17Proj, bool) {
	want := exp.String()
	deadline := time.Now().Add(d)
	var got vfC17Proj
	for i := 0; ; i++ {
		got = r.proj()
		if got.String() == want {
			return got, true
		}
		if time.Now().After(deadline) {
			return got, false
		}
		// nothing has moved for much longer than any pause the pool makes (fillingStopped sleeps
		// at most 131 ms) and nobody is inside the dialer: the real pool has settled elsewhere
		// (a fill that is still to end - the model says filling = FALSE, the pool still says TRUE - is
		// waited for up to the deadline: fillingStopped sleeps before it takes the lock)
		if i > 50 && !(got.Filling && !exp.Filling) && atomic.LoadInt32(&r.inDial) == r.parkedDials() &&
			time.Since(time.Unix(0, atomic.LoadInt64(&r.lastEv))) > 2500*time.Millisecond &&
			vfC17TickCount()-atomic.LoadInt64(&r.lastTick) > 2*vfC17QuietTicks {
			return got, false
		}
		if i < 50 {
			time.Sleep(50 * time.Microsecond)
		} else {
			time.Sleep(500 * time.Microsecond)
		}
	}
}

func (r *vfC17Rig) parkedDials() int32 {
	r.mu.Lock()
	defer r.mu.Unlock()
	var n int32
	for _, w := range r.waiters {
		if w.kind == "dial" {
			n++
		}
	}
	return n
}

func (r *vfC17Rig) exec(st vfC17Step) error {
	r.touch()
	switch st.Cmd {
	case "fill":
		done := make(chan struct{})
		r.mu.Lock()
		r.pendName = st.F
		r.fillRet[st.F] = done
		r.mu.Unlock()
		r.calls.Add(1)
		go func() { defer r.calls.Done(); defer close(done); r.pool.fill() }()
	case "recheck":
		w := r.take("fill", func(w *vfC17Waiter) bool { return w.name == st.F })
		if w == nil {
			return fmt.Errorf("no filler %s parked at p_fill_gate", st.F)
		}
		w.rel <- 1
	case "dial_ok", "dial_fail":
		w := r.take("dial", func(w *vfC17Waiter) bool { return true })
		if w == nil {
			return fmt.Errorf("no connect() call waiting in the dialer for conn %d", st.C)
		}
		w.id = st.C
		if st.Cmd == "dial_ok" {
			r.mu.Lock()
			r.pendConn = st.C
			r.mu.Unlock()
			w.rel <- 1
		} else if r.failMode == 1 {
			w.rel <- 2
		} else {
			w.rel <- 0
		}
	case "add":
		w := r.take("conn", func(w *vfC17Waiter) bool { return w.id == st.C })
		if w == nil {
			return fmt.Errorf("conn %d is not parked at p_connect_gate", st.C)
		}
		w.rel <- 1
	case "kill":
		inPool := false
		for _, id := range r.proj().Conns {
			if id == st.C {
				inPool = true
			}
		}
		r.mu.Lock()
		rc := r.conns[st.C]
		r.dead[st.C] = true
		r.killedPre[st.C] = !inPool
		r.pendName = st.H
		r.mu.Unlock()
		if rc == nil {
			return fmt.Errorf("conn %d was never dialed", st.C)
		}
		r.sc.tr.Emit("h_kill", "obj", 0, "a", st.C)
		rc.nc.Close()
	case "close":
		r.calls.Add(1)
		atomic.AddInt32(&r.closing, 1)
		go func() { defer r.calls.Done(); defer atomic.AddInt32(&r.closing, -1); r.pool.Close() }()
	default:
		return fmt.Errorf("unknown command %q", st.Cmd)
	}
	return nil
}

// runFree lets everything that is parked (and whatever arrives later) continue, and waits for
// quiescence: no fill in progress, nobody in the dialer, no hook activity for a while.
func (r *vfC17Rig) runFree(quiet time.Duration, max time.Duration) bool {
	r.mu.Lock()
	r.free = true
	ws := r.waiters
	r.waiters = nil
	r.mu.Unlock()
	for _, w := range ws {
		w.rel <- 1
	}
	if atomic.LoadInt32(&r.fillStuck) != 0 {
		return false
	}
	start := time.Now()
	deadline := start.Add(vfC17HardCapD())
	_ = max
	for {
		if !r.rlock() {
			return false
		}
		filling := r.pool.filling
		r.pool.mu.RUnlock()
		idle := time.Since(time.Unix(0, atomic.LoadInt64(&r.lastEv)))
		if !filling && atomic.LoadInt32(&r.inDial) == 0 && idle > quiet {
			return true
		}
		// after the generous deadline: nobody dials and no hook of this pool has fired for 3 s (fillingStopped sleeps
		// at most 131 ms), yet the pool still says "filling": the flag will never be reset
		if filling && atomic.LoadInt32(&r.inDial) == 0 && time.Since(start) > vfC17DeadlineD()+3*time.Second && idle > 3*time.Second {
			atomic.StoreInt32(&r.fillStuck, 1)
			atomic.AddInt32(&vfC17WallVerdicts, 1)
			return false
		}
		if time.Now().After(deadline) {
			return false
		}
		time.Sleep(2 * time.Millisecond)
	}
}

type vfC17Rec struct {
	Sched  int    `json:"sched"`
	K      int    `json:"k"`
	Ev     string `json:"ev"`
	Obj    int    `json:"obj"`
	A      int    `json:"a"`
	Size   int    `json:"size"`
	Closed bool   `json:"closed"`
	Conns  []int  `json:"conns"`
	Open   []int  `json:"open"`
	Dead   []int  `json:"dead"`
	Gor    int    `json:"gor"`
	Q      string `json:"q"`
}

// stableProj reads the projection until two consecutive reads agree with no hook / dial activity in between, no
// fill, no dial and no Close in progress: the invariants are judged on a consistent instant only.
func (r *vfC17Rig) stableProj() vfC17Proj {
	deadline := time.Now().Add(vfC17DeadlineD())
	for {
		e0 := atomic.LoadInt64(&r.lastEv)
		a := r.proj()
		time.Sleep(3 * time.Millisecond)
		b := r.proj()
		if a.String() == b.String() && atomic.LoadInt64(&r.lastEv) == e0 && !b.Filling &&
			atomic.LoadInt32(&r.inDial) == 0 && atomic.LoadInt32(&r.closing) == 0 {
			return b
		}
		if atomic.LoadInt32(&r.lockDead) != 0 || atomic.LoadInt32(&r.lockUnsure) != 0 || atomic.LoadInt32(&r.fillStuck) != 0 {
			return b
		}
		if time.Now().After(deadline) {
			atomic.StoreInt32(&r.lockUnsure, 1) // never consistent: no verdict from this schedule
			return b
		}
	}
}

func (r *vfC17Rig) snapshot(ev string, settle bool) vfC17Rec {
	if settle {
		// a killed connection's error callback runs on the connection's own goroutine: "a dead connection stayed
		// in the pool" is declared only after the deadline with no hook / dial activity of this pool any more
		o := vfC17Settle(func() bool {
			p := r.proj()
			r.mu.Lock()
			defer r.mu.Unlock()
			for _, id := range p.Conns {
				if r.dead[id] {
					return false
				}
			}
			return true
		}, func() int64 { return atomic.LoadInt64(&r.lastEv) }, func() bool { return atomic.LoadInt32(&r.inDial) > 0 })
		if o == vfC17Unsure {
			atomic.StoreInt32(&r.lockUnsure, 1)
		}
	}
	p := r.stableProj()
	rec := vfC17Rec{Sched: r.n, Ev: ev, Size: r.size, Closed: p.Closed, Conns: p.Conns, Open: p.Open, Dead: []int{}}
	r.mu.Lock()
	for id := range r.dead {
		rec.Dead = append(rec.Dead, id)
	}
	for _, id := range p.Conns {
		if r.dead[id] {
			if r.killedPre[id] && rec.Q != "killed-in-pool" {
				rec.Q = "killed-before-add"
			} else {
				rec.Q = "killed-in-pool"
			}
		}
	}
	for i, c := range r.hsConns {
		if !c.IsClosed() {
			rec.Open = append(rec.Open, 200+i)
		}
	}
	r.mu.Unlock()
	sort.Ints(rec.Dead)
	return rec
}

var vfC17HostSeq int32

func vfC17NewRig(sess *Session, d *vfC17Dialer, cl *vfCluster, n, size int) *vfC17Rig {
	k := int(atomic.AddInt32(&vfC17HostSeq, 1))
	ip := fmt.Sprintf("10.%d.%d.%d", 1+k/60000, (k/250)%240, 1+k%250)
	desc := vfHostDesc{ID: fmt.Sprintf("00000000-0000-0000-0001-%012d", k), Addr: ip, DC: "dc1", Rack: "r1", Tokens: []string{"1"}}
	r := &vfC17Rig{n: n, size: size, sess: sess, ip: ip, conns: map[int]*vfC17RConn{}, hsFail: map[int]bool{}, dead: map[int]bool{}, killedPre: map[int]bool{}, fillRet: map[string]chan struct{}{}}
	r.node = vfNewNode(cl, desc)
	r.node.Handler = func(nc *vfNodeConn, f *vfFrame, q *vfRequest) bool {
		if f.Op == vfOpStartup {
			r.mu.Lock()
			hs := r.hsFail[nc.ID]
			r.mu.Unlock()
			if hs {
				nc.Close()
				return true
			}
		}
		return false
	}
	host := &HostInfo{connectAddress: net.ParseIP(ip), port: 9042, hostId: desc.ID, dataCenter: "dc1", rack: "r1",
		version: cassVersion{3, 11, 4}, state: NodeUp}
	r.pool = newHostConnPool(sess, host, 9042, size, "")
	r.sc = vfNewScope()
	r.sc.OnEvent = r.onEvent
	r.sc.Bind(r.pool)
	d.rigs.Store(ip, r)
	r.touch()
	return r
}

func (r *vfC17Rig) release(d *vfC17Dialer) {
	d.rigs.Delete(r.ip)
	r.sc.Unbind(r.pool)
}

// vfC17RunSchedule replays one schedule; returns the divergence ("" if the code followed the model).
func vfC17RunSchedule(sess *Session, d *vfC17Dialer, cl *vfCluster, sch *vfC17Schedule, failMode int) (recs []vfC17Rec, divergence string, herr error) {
	r := vfC17NewRig(sess, d, cl, sch.N, sch.Size)
	r.failMode = failMode
	if (sch.N/2)%2 == 1 {
		r.closeErr = 1 // every socket of this schedule reports an error from Close()
	}
	defer r.release(d)
	for k, st := range sch.Steps {
		if e := r.exec(st); e != nil {
			divergence = fmt.Sprintf("step %d (%s %s%d): %v; real %s", k+1, st.Cmd, st.F, st.C, e, r.proj())
			break
		}
		got, ok := r.await(st.Exp, vfC17DeadlineD())
		if !ok {
			divergence = fmt.Sprintf("step %d (%s %s%d): real %s, model %s", k+1, st.Cmd, st.F, st.C, got, st.Exp)
			break
		}
		if st.Cmd == "fill" {
			// a trigger the model sends away at the first check leaves no trace in the projection: its fill() call must
			// have returned before the next step is taken (a goroutine scheduled late would look at a later state)
			parked := false
			for _, g := range st.Exp.Gate {
				if g == st.F {
					parked = true
				}
			}
			r.mu.Lock()
			ch := r.fillRet[st.F]
			r.mu.Unlock()
			if !parked && ch != nil {
				select {
				case <-ch:
				case <-time.After(vfC17DeadlineD()):
					divergence = fmt.Sprintf("step %d (fill %s): fill() did not return; real %s, model %s", k+1, st.F, r.proj(), st.Exp)
				}
				if divergence != "" {
					break
				}
			}
		}
		if st.Cmd == "kill" && st.H != "" {
			// the fill() HandleError spawned: when the model sends it away at its first check it leaves no trace in the
			// projection, yet its goroutine may not have run at all so far (it would then look at a later state).  Wait
			// until no such goroutine of this pool is left in the goroutine dump.
			parked := false
			for _, g := range st.Exp.Gate {
				if g == st.H {
					parked = true
				}
			}
			if !parked {
				vfC17Poll(vfC17DeadlineD(), func() bool {
					for _, g := range strings.Split(vfGoroutineDump(), "\n\n") {
						// a fill() started by HandleError that is still before / inside its first check (not parked by a rig,
						// not connecting, not in fillingStopped)
						if strings.Contains(g, "created by github.com/gocql/gocql.(*hostConnPool).HandleError") &&
							strings.Contains(g, "hostConnPool).fill") && !strings.Contains(g, "vfC17Rig)") &&
							!strings.Contains(g, "hostConnPool).connect") && !strings.Contains(g, "fillingStopped") {
							return false
						}
					}
					return true
				})
			}
		}
		if st.Cmd == "dial_fail" && st.Exp.Filling && (st.Exp.NDial > 0 || len(st.Exp.Connected) > 0) {
			// a connect() of the round failed while siblings are still in flight: connectMany is a join, the pool must
			// go on saying "filling" (longer than fillingStopped's back-off of at most 131 ms) until they have landed
			time.Sleep(250 * time.Millisecond)
			if got = r.proj(); got.String() != st.Exp.String() {
				divergence = fmt.Sprintf("step %d (%s %d, 250 ms later): real %s, model %s", k+1, st.Cmd, st.C, got, st.Exp)
				break
			}
		}
	}
	quiet := 40 * time.Millisecond
	var stuck *vfC17Rec
	if !r.runFree(quiet, 10*time.Second) && atomic.LoadInt32(&r.lockDead) == 0 {
		if atomic.LoadInt32(&r.fillStuck) != 0 {
			p := r.proj()
			stuck = &vfC17Rec{Sched: sch.N, Ev: "h_fill_stuck", Size: sch.Size, Closed: p.Closed, Conns: p.Conns, Open: p.Open, Dead: []int{}}
		} else {
			herr = fmt.Errorf("schedule %d did not become quiescent: %s", sch.N, r.proj())
		}
	}
	// queries keep arriving: every Pick() on a pool below its size asks for a fill.  However the schedule went (a
	// connection lost while a fill was in progress, a fill that only partly succeeded), an open pool must be back at
	// its size (dials succeed from now on).  Early exit; "not refilled" only after the deadline with no fill, no dial
	// and no hook activity any more (vfC17Settle) - decided by TLC on the record.
	var repl *vfC17Rec
	if atomic.LoadInt32(&r.lockDead) == 0 && atomic.LoadInt32(&r.fillStuck) == 0 && atomic.LoadInt32(&r.lockUnsure) == 0 {
		lastPick := time.Time{}
		var p vfC17Proj
		o := vfC17Settle(func() bool {
			p = r.proj()
			if p.Closed {
				return true
			}
			live := 0
			r.mu.Lock()
			for _, id := range p.Conns {
				if !r.dead[id] {
					live++
				}
			}
			r.mu.Unlock()
			if live == r.size && !p.Filling {
				return true
			}
			if time.Since(lastPick) > 2*time.Millisecond {
				lastPick = time.Now()
				r.pool.Pick()
			}
			return false
		}, func() int64 { return atomic.LoadInt64(&r.lastEv) }, func() bool {
			return atomic.LoadInt32(&r.inDial) > 0 || r.proj().Filling
		})
		switch o {
		case vfC17Unsure:
			atomic.StoreInt32(&r.lockUnsure, 1)
		case vfC17Bad:
			atomic.AddInt32(&vfC17WallVerdicts, 1)
			repl = &vfC17Rec{Sched: sch.N, Ev: "h_replenish", A: len(p.Conns), Size: sch.Size, Closed: p.Closed, Conns: p.Conns, Open: p.Open, Dead: []int{}}
		default:
			repl = &vfC17Rec{Sched: sch.N, Ev: "h_replenish", A: sch.Size, Size: sch.Size, Closed: p.Closed, Conns: p.Conns, Open: p.Open, Dead: []int{}}
			if p.Closed {
				repl.A = 0
			}
		}
		r.runFree(quiet, 10*time.Second)
	}
	var end, fin vfC17Rec
	if atomic.LoadInt32(&r.lockDead) == 0 {
		end = r.snapshot("h_end", true)
		atomic.AddInt32(&r.closing, 1)
		oc, _ := vfC17HungFn(r.pool.Close, nil)
		atomic.AddInt32(&r.closing, -1)
		if oc != vfC17Good {
			if r.rlock() { // classifies the hang when it is a lock held for good
				r.pool.mu.RUnlock()
			}
			if atomic.LoadInt32(&r.lockDead) == 0 {
				herr = fmt.Errorf("schedule %d: pool.Close did not return (%s)", sch.N, oc)
			}
		}
	}
	if atomic.LoadInt32(&r.lockDead) == 0 {
		r.runFree(quiet, 10*time.Second)
		if atomic.LoadInt32(&r.fillStuck) == 0 {
			oc, _ := vfC17HungFn(r.calls.Wait, nil)
			if oc != vfC17Good && herr == nil && atomic.LoadInt32(&r.lockDead) == 0 {
				herr = fmt.Errorf("schedule %d: fill()/Close() callers did not return (%s)", sch.N, oc)
			}
		}
	}
	if atomic.LoadInt32(&r.lockDead) == 0 {
		fin = r.snapshot("h_final", false)
	}
	if atomic.LoadInt32(&r.lockDead) != 0 {
		// a pool method deadlocked on pool.mu: Close / Pick / Size of this pool never return again
		herr = nil
		dead := vfC17Rec{Sched: sch.N, Ev: "h_lock_dead", Size: sch.Size, Conns: []int{}, Open: []int{}, Dead: []int{}, Q: r.lockSig}
		end, fin = dead, dead
		fin.Ev = "h_skip"
	}
	if atomic.LoadInt32(&r.lockUnsure) != 0 && herr == nil && atomic.LoadInt32(&r.lockDead) == 0 {
		herr = fmt.Errorf("schedule %d: an observation could not be settled before the hard cap (no verdict)", sch.N)
	}
	recs = append(recs, vfC17Rec{Sched: sch.N, Ev: "init", Size: sch.Size, Conns: []int{}, Open: []int{}, Dead: []int{}})
	for _, e := range r.sc.tr.Events() {
		a, _ := e["a"].(int)
		recs = append(recs, vfC17Rec{Sched: sch.N, Ev: e["ev"].(string), Obj: 1, A: a, Size: sch.Size, Conns: []int{}, Open: []int{}, Dead: []int{}})
	}
	if stuck != nil {
		recs = append(recs, *stuck)
	}
	if repl != nil {
		recs = append(recs, *repl)
	}
	if divergence != "" {
		recs = append(recs, vfC17Rec{Sched: sch.N, Ev: "h_diverged", Size: sch.Size, Conns: []int{}, Open: []int{}, Dead: []int{}, Q: divergence})
	}
	recs = append(recs, end, fin)
	for i := range recs {
		recs[i].K = i
		if recs[i].Obj == 0 {
			recs[i].Obj = 1
		}
	}
	return recs, divergence, herr
}

func vfC17PoolSession(t testing.TB) (*Session, *vfC17Dialer, *vfCluster) {
	cl := &vfCluster{Partitioner: "org.apache.cassandra.dht.Murmur3Partitioner", Version: "3.11.4"}
	cl.Set([]vfHostDesc{vfDesc(1)})
	n1 := vfNewNode(cl, vfDesc(1))
	base := vfNewDialer(n1)
	d := &vfC17Dialer{base: base}
	cfg := vfClusterConfig(base, 4, "10.0.0.1")
	cfg.HostDialer = d
	cfg.disableControlConn = true
	cfg.DisableInitialHostLookup = true
	cfg.ReconnectionPolicy = &ConstantReconnectionPolicy{MaxRetries: 1, Interval: time.Millisecond}
	cfg.Timeout = 5 * time.Second // generous: nothing in the replay relies on a driver timeout
	cfg.ConnectTimeout = 5 * time.Second
	var s *Session
	var err error
	for attempt := 0; attempt < 4; attempt++ { // set-up is retried: it says nothing about the property
		if s, err = NewSession(*cfg); err == nil {
			break
		}
		time.Sleep(time.Duration(100*(attempt+1)) * time.Millisecond)
	}
	if err != nil {
		t.Fatalf("session: %v", err)
	}
	return s, d, cl
}

// TestVfC17PoolReplay: VF_SCHEDULES (NDJSON of vfC17Schedule) -> VF_TRACES (NDJSON of vfC17Rec).
func TestVfC17PoolReplay(t *testing.T) {
	in := os.Getenv("VF_SCHEDULES")
	if in == "" {
		t.Skip("VF_SCHEDULES not set")
	}
	f, err := os.Open(in)
	if err != nil {
		t.Fatal(err)
	}
	defer f.Close()
	var scheds []*vfC17Schedule
	rd := bufio.NewReaderSize(f, 1<<20)
	for {
		line, err := rd.ReadBytes('\n')
		if len(line) > 1 {
			sch := &vfC17Schedule{}
			if e := json.Unmarshal(line, sch); e != nil {
				t.Fatalf("bad schedule: %v", e)
			}
			scheds = append(scheds, sch)
		}
		if err != nil {
			break
		}
	}
	sess, d, cl := vfC17PoolSession(t)
	defer sess.Close()
	out, err := vfCreateNDJSON(os.Getenv("VF_TRACES"))
	if err != nil {
		t.Fatal(err)
	}
	defer out.Close()
	type summary struct {
		Schedules, Steps, Diverged, Errors, Skipped int
		FirstDivergence, FirstError                 string
		DivergedScheds                              []int
	}
	sum := summary{DivergedScheds: []int{}}
	var mu sync.Mutex
	par := vfEnvInt("VF_PAR", 8)
	sem := make(chan struct{}, par)
	var wg sync.WaitGroup
	for _, sch := range scheds {
		wg.Add(1)
		sem <- struct{}{}
		go func(sch *vfC17Schedule) {
			defer wg.Done()
			defer func() { <-sem }()
			if atomic.LoadInt32(&vfC17WallVerdicts) >= 4 {
				mu.Lock()
				sum.Skipped++
				mu.Unlock()
				return
			}
			recs, div, herr := vfC17RunSchedule(sess, d, cl, sch, sch.N%2)
			mu.Lock()
			defer mu.Unlock()
			for _, r := range recs {
				out.Write(r)
			}
			sum.Schedules++
			sum.Steps += len(sch.Steps)
			if div != "" {
				sum.Diverged++
				sum.DivergedScheds = append(sum.DivergedScheds, sch.N)
				if sum.FirstDivergence == "" {
					sum.FirstDivergence = fmt.Sprintf("schedule %d: %s", sch.N, div)
				}
			}
			if herr != nil {
				sum.Errors++
				if sum.FirstError == "" {
					sum.FirstError = herr.Error()
				}
			}
		}(sch)
	}
	wg.Wait()
	sort.Ints(sum.DivergedScheds)
	if len(sum.DivergedScheds) > 40 {
		sum.DivergedScheds = sum.DivergedScheds[:40]
	}
	b, _ := json.Marshal(sum)
	fmt.Printf("VFSUMMARY %s\n", b)
}
