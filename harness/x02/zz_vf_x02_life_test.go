package gocql

// Verification harness for X02, part 2 (life of Query / Batch values).  Glue only: executes call sequences
// (TLC's edge paths and -simulate walks of QueryLife.tla, or seeded random ones) on real *Query / *Batch values of
// two sessions (profiles P1 = gocql's defaults, P2 = everything different) over a scripted node, and records per
// execution what the node received, what observers and tracers were told and what the getters show.

import (
	"context"
	"encoding/json"
	"fmt"
	"math/rand"
	"os"
	"strings"
	"sync"
	"sync/atomic"
	"testing"
	"time"
)

type vfX02LCall struct {
	Op string `json:"op"`
	H  string `json:"h"`
	A  string `json:"a"`
}

type vfX02Wire struct {
	Op      string   `json:"op"`
	Stmt    string   `json:"stmt"`
	Vals    []int    `json:"vals"`
	Cons    int      `json:"cons"`
	Skip    bool     `json:"skip"`
	Psize   int      `json:"psize"`
	Pstate  int      `json:"pstate"`
	Serial  int      `json:"serial"`
	Ts      string   `json:"ts"`
	Tracing bool     `json:"tracing"`
	Payload bool     `json:"payload"`
	Btype   int      `json:"btype"`
	N       int      `json:"n"`
	Kinds   []string `json:"kinds"`
	Counts  []int    `json:"counts"`
}

type vfX02ObsCall struct {
	Who   string   `json:"who"`
	Stmts []string `json:"stmts"`
	Vals  [][]int  `json:"vals"`
	Rows  int      `json:"rows"`
	Err   string   `json:"err"`
	Att   int      `json:"att"`
	Host  bool     `json:"host"`
	abs   int
}

type vfX02LRes struct {
	Ret    string         `json:"ret"`
	Reqs   []vfX02Wire    `json:"reqs"`
	Calls  []vfX02ObsCall `json:"calls"`
	First  int            `json:"first"`
	Tracer string         `json:"tracer"`
	Traced int            `json:"traced"`
	Att    int            `json:"att"`
	Lat    bool           `json:"lat"`
}

type vfX02QView struct {
	Live bool   `json:"live"`
	Stmt string `json:"stmt"`
	Vals []int  `json:"vals"`
	Cons int    `json:"cons"`
	Idem bool   `json:"idem"`
	Ctx  string `json:"ctx"`
	Att  int    `json:"att"`
	Rkey bool   `json:"rkey"`
}

type vfX02BView struct {
	Live bool `json:"live"`
	Size int  `json:"size"`
	Cons int  `json:"cons"`
	Att  int  `json:"att"`
}

type vfX02LProj struct {
	Q vfX02QView `json:"q"`
	C vfX02QView `json:"c"`
	B vfX02BView `json:"b"`
}

type vfX02LPath struct {
	ID    int          `json:"id"`
	Prof  string       `json:"prof"`
	Calls []vfX02LCall `json:"calls"`
}

func vfX02NoLRes() vfX02LRes {
	return vfX02LRes{Ret: "-", Reqs: []vfX02Wire{}, Calls: []vfX02ObsCall{}, First: -1, Tracer: "none", Lat: true}
}

const vfX02Delay = 250 * time.Microsecond // the node holds every answer back at least this long

// ---------------------------------------------------------------- observers, tracers, retry policy, contexts

type vfX02Collector struct {
	mu     sync.Mutex
	reqs   []vfX02Wire
	calls  []vfX02ObsCall
	traces map[string]int // tracer -> calls with the trace id of a QUERY / EXECUTE / BATCH response
	env    string
	nreq   int
	asked  int
	addr   string
}

type vfX02Observer struct {
	who string
	w   *vfX02LWorker
}

func vfX02Ints(vs []interface{}) []int {
	out := make([]int, 0, len(vs))
	for _, v := range vs {
		if n, ok := v.(int); ok {
			out = append(out, n)
		} else {
			out = append(out, -998)
		}
	}
	return out
}

func vfX02StmtID(text string) string {
	i := strings.Index(text, "/*L:")
	if i < 0 {
		return "?"
	}
	j := strings.Index(text[i:], "*/")
	if j < 0 {
		return "?"
	}
	return text[i+4 : i+j]
}

func (o *vfX02Observer) ObserveQuery(ctx context.Context, q ObservedQuery) {
	c := o.w.col()
	if c == nil {
		return
	}
	oc := vfX02ObsCall{Who: o.who, Stmts: []string{vfX02StmtID(q.Statement)}, Vals: [][]int{vfX02Ints(q.Values)}, Rows: q.Rows,
		Err: vfX02ErrClass(q.Err), abs: q.Attempt, Host: q.Host != nil && q.Host.ConnectAddress().String() == c.addr}
	if q.End.Sub(q.Start) < vfX02Delay {
		oc.Err += "+too-short"
	}
	// "The metrics per this host" (one host): after this attempt the count is its index + 1
	if q.Metrics == nil || q.Metrics.Attempts != q.Attempt+1 {
		oc.Err += "+host-metrics"
	}
	c.mu.Lock()
	c.calls = append(c.calls, oc)
	c.mu.Unlock()
}

func (o *vfX02Observer) ObserveBatch(ctx context.Context, b ObservedBatch) {
	c := o.w.col()
	if c == nil {
		return
	}
	oc := vfX02ObsCall{Who: o.who, Stmts: []string{}, Vals: [][]int{}, Err: vfX02ErrClass(b.Err), abs: b.Attempt,
		Host: b.Host != nil && b.Host.ConnectAddress().String() == c.addr}
	if b.End.Sub(b.Start) < vfX02Delay {
		oc.Err += "+too-short"
	}
	if b.Metrics == nil || b.Metrics.Attempts != b.Attempt+1 {
		oc.Err += "+host-metrics"
	}
	if len(b.Statements) <= 8 {
		for i, s := range b.Statements {
			id := vfX02StmtID(s)
			oc.Stmts = append(oc.Stmts, id)
			if id == "b" { // values of a binding callback: not decided, reported as empty
				oc.Vals = append(oc.Vals, []int{})
			} else {
				oc.Vals = append(oc.Vals, vfX02Ints(b.Values[i]))
			}
		}
	}
	c.mu.Lock()
	c.calls = append(c.calls, oc)
	c.mu.Unlock()
}

type vfX02Tracer struct {
	who string
	w   *vfX02LWorker
}

func (t *vfX02Tracer) Trace(id []byte) {
	c := t.w.col()
	if c == nil || len(id) != 16 || id[0] != 0xE1 {
		return
	}
	c.mu.Lock()
	c.traces[t.who]++
	c.mu.Unlock()
}

// vfX02Retry: attempt again on the same host while Attempts() <= 1.  Runaway guard: asked more than 8 times during one
// execution it says no (the execution then shows more requests than any specification allows, instead of hanging).
type vfX02Retry struct{ w *vfX02LWorker }

func (p vfX02Retry) Attempt(q RetryableQuery) bool {
	if c := p.w.col(); c != nil {
		c.mu.Lock()
		c.asked++
		n := c.asked
		c.mu.Unlock()
		if n > 8 {
			return false
		}
	}
	return q.Attempts() <= 1
}
func (vfX02Retry) GetRetryType(error) RetryType { return Retry }

type vfX02CtxKey struct{}

func vfX02CtxKind(ctx context.Context) string {
	if k, ok := ctx.Value(vfX02CtxKey{}).(string); ok {
		return k
	}
	return "bg"
}

// ---------------------------------------------------------------- node

type vfX02LWorker struct {
	id      int
	sess    map[string]*Session
	nodes   map[string]*vfNode
	cur     atomic.Value // *vfX02Collector
	obsS    *vfX02Observer
	obsQ    *vfX02Observer
	trS     *vfX02Tracer
	trQ     *vfX02Tracer
	live    context.Context
	dead    context.Context
	reused  int64
	news    int64
	pending sync.WaitGroup
	// Query objects this worker has released (kept referenced, so an address is never a different object)
	released map[*Query]bool
}

func (w *vfX02LWorker) col() *vfX02Collector {
	c, _ := w.cur.Load().(*vfX02Collector)
	return c
}

// vfX02ParseWire decodes a v4 QUERY / EXECUTE / BATCH request completely (protocol spec sections 4.1.4, 4.1.6, 4.1.7).
func vfX02ParseWire(f *vfFrame) (wr vfX02Wire, ok bool) {
	wr = vfX02Wire{Vals: []int{}, Ts: "off", Btype: -1, Kinds: []string{}, Counts: []int{}}
	r := &vfR{b: f.Body}
	wr.Tracing = f.Flags&0x02 != 0
	if f.Flags&0x04 != 0 {
		n := r.Short()
		good := n == 1
		for i := 0; i < n && r.err == nil; i++ {
			k := r.String()
			v, _ := r.Bytes()
			if k != "k" || string(v) != "v" {
				good = false
			}
		}
		wr.Payload = good
		if !good {
			wr.Stmt = "bad-payload"
		}
	}
	val := func(p []byte, kind int) int {
		if kind != 0 || len(p) != 4 {
			return -997
		}
		return int(int32(uint32(p[0])<<24 | uint32(p[1])<<16 | uint32(p[2])<<8 | uint32(p[3])))
	}
	tail := func(flags int) {
		if flags&0x10 != 0 {
			wr.Serial = r.Short()
		}
		if flags&0x20 != 0 {
			ts := r.Long()
			wr.Ts = "now"
			if ts == 12345 {
				wr.Ts = "val"
			} else if ts < 1500000000000000 { // not a plausible "now" in microseconds
				wr.Ts = fmt.Sprintf("odd:%d", ts)
			}
		}
	}
	switch f.Op {
	case vfOpQuery, vfOpExecute:
		if f.Op == vfOpQuery {
			wr.Op = "QUERY"
			wr.Stmt = vfX02StmtID(r.LongString())
		} else {
			wr.Op = "EXECUTE"
			wr.Stmt = vfX02StmtID(string(r.ShortBytes()))
		}
		wr.Cons = r.Short()
		flags := int(r.Byte())
		if flags&0x01 != 0 {
			n := r.Short()
			for i := 0; i < n && r.err == nil; i++ {
				if flags&0x40 != 0 {
					r.String()
				}
				p, k := r.Bytes()
				wr.Vals = append(wr.Vals, val(p, k))
			}
		}
		wr.Skip = flags&0x02 != 0
		if flags&0x04 != 0 {
			wr.Psize = int(r.Int())
		}
		if flags&0x08 != 0 {
			p, _ := r.Bytes()
			wr.Pstate = -1
			if string(p) == "s1" {
				wr.Pstate = 1
			}
		}
		tail(flags)
	case vfOpBatch:
		wr.Op = "BATCH"
		wr.Btype = int(r.Byte())
		wr.N = r.Short()
		for i := 0; i < wr.N && r.err == nil; i++ {
			kind := r.Byte()
			k := "s"
			if kind == 0 {
				r.LongString()
			} else {
				k = "p"
				r.ShortBytes()
			}
			nv := r.Short()
			for j := 0; j < nv && r.err == nil; j++ {
				r.Bytes()
			}
			if wr.N <= 8 {
				wr.Kinds = append(wr.Kinds, k)
				wr.Counts = append(wr.Counts, nv)
			}
		}
		wr.Cons = r.Short()
		tail(int(r.Byte()))
	default:
		return wr, false
	}
	if r.err != nil || len(r.b) != 0 {
		wr.Op += "+malformed"
	}
	return wr, true
}

func (w *vfX02LWorker) handle(nc *vfNodeConn, f *vfFrame, q *vfRequest) bool {
	switch f.Op {
	case vfOpPrepare:
		if !strings.Contains(q.Stmt, "/*L:") {
			return false
		}
		flags, body := byte(0), vfPreparedBody(f.Version, []byte("id:"+q.Stmt), "ks", "x02", strings.Count(q.Stmt, "?"), []vfCol{{"v", vfTInt}})
		if f.Flags&0x02 != 0 {
			flags, body = 0x02, append(append([]byte{0xB1}, make([]byte, 15)...), body...)
		}
		nc.ReplyFlags(f, flags, vfOpResult, body)
		return true
	case vfOpQuery, vfOpExecute, vfOpBatch:
		text := q.Stmt
		if f.Op == vfOpExecute {
			text = string(q.PreparedID)
		}
		if f.Op != vfOpBatch && !strings.Contains(text, "/*L:") {
			return false
		}
		c := w.col()
		if c == nil {
			nc.Reply(f, vfOpError, vfErrorBody(0x0000, "vf-stale: no execution is running", nil))
			return true
		}
		wr, _ := vfX02ParseWire(f)
		c.mu.Lock()
		c.nreq++
		k := c.nreq
		c.reqs = append(c.reqs, wr)
		env := c.env
		c.mu.Unlock()
		fail := env == "err" || (env == "err1" && k == 1)
		var op byte = vfOpResult
		var body []byte
		switch {
		case fail:
			op, body = vfOpError, vfErrorBody(0x2200, fmt.Sprintf("%s life fail %d.", vfX02Marker, k), nil)
		case f.Op == vfOpBatch:
			body = vfVoidBody()
		default:
			body = vfRowsBody(f.Version, "ks", "x02", []vfCol{{"v", vfTInt}}, [][][]byte{{vfCellInt(1)}}, nil, q.QFlags&0x02 != 0)
		}
		flags := byte(0)
		if f.Flags&0x02 != 0 {
			flags, body = 0x02, append(append([]byte{0xE1}, make([]byte, 15)...), body...)
		}
		w.pending.Add(1)
		go func() {
			defer w.pending.Done()
			time.Sleep(vfX02Delay)
			nc.ReplyFlags(f, flags, op, body)
		}()
		return true
	}
	return false
}

func vfX02NewLWorker(id int) (*vfX02LWorker, error) {
	w := &vfX02LWorker{id: id, sess: map[string]*Session{}, nodes: map[string]*vfNode{}}
	w.obsS, w.obsQ = &vfX02Observer{"S", w}, &vfX02Observer{"Q", w}
	w.trS, w.trQ = &vfX02Tracer{"S", w}, &vfX02Tracer{"Q", w}
	w.live = context.WithValue(context.Background(), vfX02CtxKey{}, "live")
	dead, cancel := context.WithCancel(context.WithValue(context.Background(), vfX02CtxKey{}, "dead"))
	cancel()
	w.dead = dead
	for _, prof := range []string{"P1", "P2"} {
		cl := &vfCluster{Partitioner: "org.apache.cassandra.dht.Murmur3Partitioner", Version: "3.11.4"}
		d := vfDesc(1)
		cl.Set([]vfHostDesc{d})
		n := vfNewNode(cl, d)
		n.Handler = w.handle
		p := prof
		s, _, err := vfSingleNodeSession(n, 4, func(cfg *ClusterConfig) {
			cfg.Timeout = 30 * time.Second
			def := NewCluster()
			if p == "P1" { // what gocql.NewCluster gives
				cfg.Consistency, cfg.PageSize, cfg.SerialConsistency = def.Consistency, def.PageSize, def.SerialConsistency
				cfg.DefaultTimestamp, cfg.DefaultIdempotence, cfg.RetryPolicy = def.DefaultTimestamp, def.DefaultIdempotence, def.RetryPolicy
				cfg.DisableSkipMetadata = def.DisableSkipMetadata
			} else {
				cfg.Consistency, cfg.PageSize, cfg.SerialConsistency = One, 7, Serial
				cfg.DefaultTimestamp, cfg.DefaultIdempotence, cfg.RetryPolicy = false, true, vfX02Retry{w}
				cfg.DisableSkipMetadata = true
				cfg.QueryObserver, cfg.BatchObserver = w.obsS, w.obsS
			}
		})
		if err != nil {
			return nil, err
		}
		if p == "P2" {
			s.SetTrace(w.trS)
		}
		w.sess[p] = s
		w.nodes[p] = n
	}
	return w, nil
}

func (w *vfX02LWorker) close() {
	w.pending.Wait()
	for _, s := range w.sess {
		s.Close()
	}
}

// ---------------------------------------------------------------- executing one sequence

var vfX02LStmts = map[string]string{
	"q0": "/*L:q0*/ LIST x02",
	"p0": "SELECT v FROM x02 /*L:p0*/",
	"p2": "SELECT v FROM x02 WHERE a = ? AND b = ? /*L:p2*/",
	"b2": "SELECT v FROM x02 WHERE a = ? AND c = ? /*L:b2*/",
	"s":  "INSERT INTO x02 (a, b) VALUES (0, 0) /*L:s*/",
	"p":  "INSERT INTO x02 (a, b) VALUES (?, ?) /*L:p*/",
	"b":  "INSERT INTO x02 (a, c) VALUES (?, ?) /*L:b*/",
}

type vfX02LExec struct {
	w        *vfX02LWorker
	prof     string
	s        *Session
	q, c     *Query
	b        *Batch
	released map[*Query]bool
}

func (x *vfX02LExec) h(name string) *Query {
	if name == "q" {
		return x.q
	}
	return x.c
}

func (x *vfX02LExec) setH(name string, q *Query) {
	if name == "q" {
		x.q = q
	} else {
		x.c = q
	}
}

func (x *vfX02LExec) collect(env string, run func() error, attempts func() int, latency func() int64) vfX02LRes {
	res := vfX02NoLRes()
	col := &vfX02Collector{traces: map[string]int{}, env: env, addr: x.w.nodes[x.prof].Desc.Addr}
	x.w.cur.Store(col)
	err := run()
	x.w.pending.Wait()
	x.w.cur.Store((*vfX02Collector)(nil))
	col.mu.Lock()
	defer col.mu.Unlock()
	res.Ret = vfX02ErrClass(err)
	res.Reqs = append(res.Reqs, col.reqs...)
	for i, c := range col.calls {
		c.Att = c.abs - col.calls[0].abs
		if i == 0 {
			res.First = c.abs
		}
		res.Calls = append(res.Calls, c)
	}
	for who, n := range col.traces {
		if n > 0 {
			if res.Tracer != "none" {
				res.Tracer = "both"
			} else {
				res.Tracer = who
			}
			res.Traced += n
		}
	}
	res.Att = attempts()
	res.Lat = res.Att == 0 || latency() >= int64(vfX02Delay)
	return res
}

func (x *vfX02LExec) do(c vfX02LCall) (res vfX02LRes, note string) {
	res = vfX02NoLRes()
	defer func() {
		if r := recover(); r != nil {
			res = vfX02NoLRes()
			res.Ret = "panic"
			note = fmt.Sprint(r)
		}
	}()
	w := x.w
	switch c.Op {
	case "New":
		stmt := vfX02LStmts[c.A]
		var q *Query
		if c.A == "p2" {
			q = x.s.Query(stmt, 1, 2)
		} else if c.A == "b2" {
			q = x.s.Bind(stmt, func(*QueryInfo) ([]interface{}, error) { return []interface{}{5, 6}, nil })
		} else {
			q = x.s.Query(stmt)
		}
		atomic.AddInt64(&w.news, 1)
		if x.released[q] {
			atomic.AddInt64(&w.reused, 1)
			delete(x.released, q)
		}
		x.q, x.c = q, nil
	case "Set":
		q := x.h(c.H)
		switch c.A {
		case "cons":
			if c.H == "q" {
				q.Consistency(LocalOne)
			} else {
				q.SetConsistency(LocalOne)
			}
		case "psize":
			q.PageSize(3)
		case "serial":
			q.SerialConsistency(LocalSerial)
		case "tsoff":
			q.DefaultTimestamp(false)
		case "tson":
			q.DefaultTimestamp(true)
		case "tsval":
			q.WithTimestamp(12345)
		case "idemT":
			q.Idempotent(true)
		case "idemF":
			q.Idempotent(false)
		case "pstate":
			q.PageState([]byte("s1"))
		case "payload":
			q.CustomPayload(map[string][]byte{"k": []byte("v")})
		case "trace":
			q.Trace(w.trQ)
		case "noskip":
			q.NoSkipMetadata()
		case "rkey":
			q.RoutingKey([]byte("rk"))
		case "obs":
			q.Observer(w.obsQ)
		case "rt":
			q.RetryPolicy(vfX02Retry{w})
		case "bind":
			q.Bind(7, 8)
		default:
			res.Ret = "unknown-call"
		}
	case "WithCtx":
		ctx := w.live
		if c.A == "dead" {
			ctx = w.dead
		}
		x.c = x.q.WithContext(ctx)
	case "Exec":
		q := x.h(c.H)
		res = x.collect(c.A, func() error {
			if c.H == "q" {
				return q.Exec()
			}
			return q.Iter().Close()
		}, q.Attempts, q.Latency)
	case "Release":
		q := x.h(c.H)
		q.Release()
		x.released[q] = true
		x.setH(c.H, nil)
	case "NewBatch":
		switch c.A {
		case "logged":
			x.b = x.s.NewBatch(LoggedBatch)
		case "unlogged":
			x.b = x.s.NewBatch(UnloggedBatch)
		case "counter":
			x.b = x.s.NewBatch(CounterBatch)
		default:
			x.b = NewBatch(LoggedBatch) // deprecated constructor "without defaults from the cluster"
		}
	case "BAdd":
		switch c.A {
		case "s":
			x.b.Query(vfX02LStmts["s"])
		case "p":
			x.b.Query(vfX02LStmts["p"], 1, 2)
		default:
			x.b.Bind(vfX02LStmts["b"], func(*QueryInfo) ([]interface{}, error) { return []interface{}{5, 6}, nil })
		}
	case "Fill":
		n := BatchSizeMaximum
		if c.A == "over" {
			n++
		}
		for x.b.Size() < n {
			x.b.Query(vfX02LStmts["s"])
		}
	case "BSet":
		switch c.A {
		case "cons":
			x.b.SetConsistency(LocalOne)
		case "serial":
			x.b.SerialConsistency(LocalSerial)
		case "tsoff":
			x.b.DefaultTimestamp(false)
		case "tson":
			x.b.DefaultTimestamp(true)
		case "tsval":
			x.b.WithTimestamp(12345)
		case "payload":
			x.b.CustomPayload = map[string][]byte{"k": []byte("v")}
		case "trace":
			x.b.Trace(w.trQ)
		case "obs":
			x.b.Observer(w.obsQ)
		case "ctxdead":
			x.b = x.b.WithContext(w.dead)
		case "idem":
			for i := range x.b.Entries {
				x.b.Entries[i].Idempotent = true
			}
		default:
			res.Ret = "unknown-call"
		}
	case "ExecB":
		b := x.b
		res = x.collect(c.A, func() error { return x.s.ExecuteBatch(b) }, b.Attempts, b.Latency)
	default:
		res.Ret = "unknown-call"
	}
	return res, note
}

func (x *vfX02LExec) qview(q *Query) vfX02QView {
	v := vfX02QView{Vals: []int{}, Ctx: "bg"}
	if q == nil {
		return v
	}
	v.Live = true
	v.Stmt = vfX02StmtID(q.Statement())
	v.Vals = vfX02Ints(q.Values())
	v.Cons = int(q.GetConsistency())
	v.Idem = q.IsIdempotent()
	v.Ctx = vfX02CtxKind(q.Context())
	v.Att = q.Attempts()
	if len(q.routingKey) > 0 { // a key that was set explicitly must also be what GetRoutingKey answers
		k, err := q.GetRoutingKey()
		v.Rkey = err == nil && string(k) == "rk"
	}
	return v
}

func (x *vfX02LExec) proj() (p vfX02LProj) {
	defer func() {
		if r := recover(); r != nil {
			p = vfX02LProj{Q: vfX02QView{Vals: []int{}, Stmt: "panic: " + fmt.Sprint(r)}, C: vfX02QView{Vals: []int{}}}
		}
	}()
	p.Q, p.C = x.qview(x.q), x.qview(x.c)
	if x.b != nil {
		p.B = vfX02BView{Live: true, Size: x.b.Size(), Cons: int(x.b.GetConsistency()), Att: x.b.Attempts()}
	}
	return p
}

func (w *vfX02LWorker) runPath(p *vfX02LPath) []map[string]interface{} {
	if w.released == nil {
		w.released = map[*Query]bool{}
	}
	x := &vfX02LExec{w: w, prof: p.Prof, s: w.sess[p.Prof], released: w.released}
	recs := []map[string]interface{}{{"ev": "begin", "id": p.ID, "prof": p.Prof}}
	for i, c := range p.Calls {
		res, note := x.do(c)
		recs = append(recs, map[string]interface{}{"ev": "call", "id": p.ID, "n": i + 1, "call": c, "res": res, "proj": x.proj(), "note": note})
		if res.Ret == "panic" || res.Ret == "unknown-call" {
			break
		}
	}
	// leave nothing live behind: objects still held go back to the pool (exercises it for the next sequence)
	if x.q != nil {
		x.q.Release()
		x.released[x.q] = true
	}
	return recs
}

func vfX02RunLPaths(t *testing.T, paths []*vfX02LPath, outName string) {
	par := vfEnvInt("VF_X02_PAR", 4)
	out, err := vfCreateNDJSON(vfOutPath(outName))
	if err != nil {
		t.Fatal(err)
	}
	defer out.Close()
	var wg sync.WaitGroup
	var next int64 = -1
	var calls, panics, execs, reused, news int64
	var omu sync.Mutex
	errs := make(chan error, par)
	for wi := 0; wi < par; wi++ {
		wg.Add(1)
		go func(wi int) {
			defer wg.Done()
			w, err := vfX02NewLWorker(wi)
			if err != nil {
				errs <- err
				return
			}
			defer w.close()
			for {
				i := int(atomic.AddInt64(&next, 1))
				if i >= len(paths) {
					break
				}
				var recs []map[string]interface{}
				ok, dump := vfWithin(300*time.Second, func() { recs = w.runPath(paths[i]) })
				if !ok {
					errs <- fmt.Errorf("sequence %d did not finish within 300s:\n%s", paths[i].ID, dump)
					return
				}
				omu.Lock()
				for _, r := range recs {
					out.Write(r)
					if r["ev"] == "call" {
						calls++
						res := r["res"].(vfX02LRes)
						if res.Ret == "panic" {
							panics++
						}
						if res.Ret != "-" {
							execs++
						}
					}
				}
				omu.Unlock()
			}
			atomic.AddInt64(&reused, atomic.LoadInt64(&w.reused))
			atomic.AddInt64(&news, atomic.LoadInt64(&w.news))
		}(wi)
	}
	wg.Wait()
	select {
	case err := <-errs:
		t.Fatalf("X02 harness: %v", err)
	default:
	}
	sum, _ := json.Marshal(map[string]interface{}{"sequences": len(paths), "calls": calls, "panics": panics, "executions": execs,
		"session_query_calls": news, "pooled_objects_reused": reused})
	fmt.Printf("VFSUMMARY %s\n", sum)
}

func TestVfX02LifeReplay(t *testing.T) {
	f, err := os.Open(os.Getenv("VF_X02_PATHS"))
	if err != nil {
		t.Fatal(err)
	}
	defer f.Close()
	dec := json.NewDecoder(f)
	var paths []*vfX02LPath
	for dec.More() {
		p := &vfX02LPath{}
		if err := dec.Decode(p); err != nil {
			t.Fatal(err)
		}
		paths = append(paths, p)
	}
	vfX02RunLPaths(t, paths, "x02_life_replay.ndjson")
}

// TestVfX02LifeRandom: seeded random sequences; the generator only keeps handles apart (live / not live), whether a
// call is decided is TLC's business.
func TestVfX02LifeRandom(t *testing.T) {
	n := vfEnvInt("VF_X02_RANDOM", 300)
	rng := rand.New(rand.NewSource(vfSeed()*104729 + 5))
	setters := []string{"cons", "psize", "serial", "tsoff", "tson", "tsval", "idemT", "idemF", "pstate", "payload", "trace", "noskip", "rkey", "obs", "rt", "bind"}
	bsetters := []string{"cons", "serial", "tsoff", "tson", "tsval", "payload", "trace", "obs", "ctxdead", "idem", "idem"}
	stmts := []string{"q0", "p0", "p2", "p2", "b2"}
	envs := []string{"ok", "ok", "ok", "ok", "ok", "ok", "err", "err1"}
	paths := make([]*vfX02LPath, 0, n)
	for i := 0; i < n; i++ {
		p := &vfX02LPath{ID: 2000000 + i, Prof: []string{"P1", "P2"}[rng.Intn(2)]}
		q, c, b, lives, filled, entries := false, false, false, 0, false, 0
		cUsed := false
		for k, steps := 0, 6+rng.Intn(24); k < steps; k++ {
			var cl vfX02LCall
			r := rng.Intn(100)
			switch {
			case !q && !c && lives < 6 && r < 60:
				cl = vfX02LCall{"New", "q", stmts[rng.Intn(len(stmts))]}
				q, lives, cUsed = true, lives+1, false
			case !b && r < 75 && rng.Intn(3) == 0:
				cl = vfX02LCall{"NewBatch", "b", []string{"logged", "unlogged", "counter", "raw"}[rng.Intn(4)]}
				b = true
			case b && r >= 75:
				switch rr := rng.Intn(10); {
				case rr < 3 && !filled && entries < 2:
					cl = vfX02LCall{"BAdd", "b", []string{"s", "p", "b"}[rng.Intn(3)]}
					entries++
				case rr < 4 && !filled && rng.Intn(6) == 0:
					cl = vfX02LCall{"Fill", "b", []string{"max", "over"}[rng.Intn(2)]}
					filled = true
				case rr < 7:
					cl = vfX02LCall{"BSet", "b", bsetters[rng.Intn(len(bsetters))]}
				default:
					cl = vfX02LCall{"ExecB", "b", []string{"ok", "ok", "err"}[rng.Intn(3)]}
				}
			case q || c:
				h := "q"
				if c && (!q || rng.Intn(2) == 0) {
					h = "c"
				}
				switch rr := rng.Intn(20); {
				case rr < 9:
					cl = vfX02LCall{"Set", h, setters[rng.Intn(len(setters))]}
				case rr < 11 && q && !cUsed:
					cl = vfX02LCall{"WithCtx", "q", []string{"live", "live", "dead"}[rng.Intn(3)]}
					c, cUsed = true, true
				case rr < 17:
					cl = vfX02LCall{"Exec", h, envs[rng.Intn(len(envs))]}
				default:
					cl = vfX02LCall{"Release", h, "-"}
					if h == "q" {
						q = false
					} else {
						c = false
					}
				}
			default:
				continue
			}
			if cl.Op == "" {
				continue
			}
			p.Calls = append(p.Calls, cl)
		}
		paths = append(paths, p)
	}
	vfX02RunLPaths(t, paths, "x02_life_random.ndjson")
}
