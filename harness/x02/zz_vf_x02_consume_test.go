package gocql

// Verification harness for X02, part 1 (result consumption).  Overlaid into package gocql by
// /verif/checks/x02.py.  Glue only: it executes call sequences (paths TLC generated from the state graph of
// Consume.tla, or seeded random ones) on a real *Query / *Batch / *Iter / Scanner over a scripted node and
// writes what every call returned and what the getters showed afterwards.  Expected values never appear
// here: they come out of TLC (edge dump) and the recorded sequences are judged by Trace_Consume.tla.

import (
	"context"
	"encoding/json"
	"errors"
	"fmt"
	"math/rand"
	"os"
	"sort"
	"strconv"
	"strings"
	"sync"
	"sync/atomic"
	"testing"
	"time"
)

type vfX02Scn struct {
	Via     string `json:"via"`
	Shape   string `json:"shape"`
	Pages   []int  `json:"pages"`
	Fail    int    `json:"fail"`
	Applied bool   `json:"applied"`
}

type vfX02Call struct {
	Op string `json:"op"`
	V  string `json:"v"`
}

type vfX02Ret struct {
	B    string   `json:"b"`
	Err  string   `json:"err"`
	Ap   string   `json:"ap"`
	Keys []string `json:"keys"`
	Vals []int    `json:"vals"`
	Rows [][]int  `json:"rows"`
}

type vfX02Proj struct {
	Spec   bool     `json:"spec"`
	Nrows  int      `json:"nrows"`
	Cols   []string `json:"cols"`
	Pstate int      `json:"pstate"`
	Wsp    bool     `json:"wsp"`
	Warn   int      `json:"warn"`
	Pay    int      `json:"pay"`
	Host   bool     `json:"host"`
}

type vfX02Path struct {
	ID    int         `json:"id"`
	Scn   vfX02Scn    `json:"scn"`
	Calls []vfX02Call `json:"calls"`
	Kind  string      `json:"kind"` // query: statement sent as QUERY | prepared: PREPARE + EXECUTE
	Skip  int         `json:"skip"` // 1: session with skip-metadata enabled
}

func vfX02NoRet() vfX02Ret {
	return vfX02Ret{B: "-", Err: "none", Ap: "-", Keys: []string{}, Vals: []int{}, Rows: [][]int{}}
}

const vfX02Marker = "vf-x02"

// vfX02ErrClass maps an error value to the classes the specification distinguishes: the documented sentinels,
// the node's own error (recognised through the exported RequestError interface), anything else.
func vfX02ErrClass(err error) string {
	if err == nil {
		return "none"
	}
	if err == ErrNotFound {
		return "notfound"
	}
	if err == ErrTooManyStmts {
		return "toomany"
	}
	if errors.Is(err, context.Canceled) {
		return "canceled"
	}
	// what only the environment can cause (a stalled machine, a lost connection of the in-memory node): never evidence
	if err == ErrTimeoutNoResponse || err == ErrConnectionClosed || err == ErrNoConnections || err == ErrNoStreams ||
		errors.Is(err, context.DeadlineExceeded) {
		return "env-" + err.Error()
	}
	var re RequestError
	if errors.As(err, &re) && strings.Contains(re.Message(), vfX02Marker) {
		return "server"
	}
	return "error"
}

func vfX02Cols(s *vfX02Scn) []string {
	switch s.Shape {
	case "rows":
		return []string{"a", "b"}
	case "cas":
		if s.Applied {
			return []string{"[applied]"}
		}
		return []string{"[applied]", "a", "b"}
	}
	return []string{}
}

func vfX02ColType(name string) int {
	switch name {
	case "[applied]":
		return vfTBoolean
	case "a":
		return vfTInt
	}
	return vfTVarchar
}

func vfX02VfCols(names []string) []vfCol {
	cs := make([]vfCol, 0, len(names))
	for _, n := range names {
		cs = append(cs, vfCol{n, vfX02ColType(n)})
	}
	return cs
}

// the node's cell for column name of row i of page p
func vfX02Cell(name string, p, i int, applied bool) []byte {
	switch name {
	case "[applied]":
		if applied {
			return []byte{1}
		}
		return []byte{0}
	case "a":
		return vfCellInt(int32(10*p + i))
	}
	return vfCellText("v" + strconv.Itoa(100+10*p+i))
}

// ---------------------------------------------------------------- destinations (what the caller passes)

type vfX02Unfit struct{ X chan int }

func vfX02NewDest(name string) interface{} {
	switch name {
	case "[applied]":
		return new(bool)
	case "a":
		x := -1
		return &x
	}
	s := "v-1"
	return &s
}

// vfX02Dests builds the destinations for the given columns with variant v.
func vfX02Dests(cols []string, v string) []interface{} {
	d := make([]interface{}, 0, len(cols)+1)
	for _, c := range cols {
		d = append(d, vfX02NewDest(c))
	}
	switch v {
	case "nil1":
		if len(d) > 0 {
			d[0] = nil
		}
	case "few":
		if len(d) > 0 {
			d = d[:len(d)-1]
		}
	case "many":
		d = append(d, new(int))
	case "bad":
		if len(d) > 0 {
			d[len(d)-1] = &vfX02Unfit{}
		}
	}
	return d
}

func vfX02Val(x interface{}) int {
	switch v := x.(type) {
	case nil:
		return -1
	case *bool:
		if *v {
			return 1
		}
		return 0
	case bool:
		if v {
			return 1
		}
		return 0
	case *int:
		return *v
	case int:
		return v
	case *string:
		return vfX02Val(*v)
	case string:
		if strings.HasPrefix(v, "v") {
			if n, err := strconv.Atoi(v[1:]); err == nil {
				return n
			}
		}
		return -999
	}
	return -998
}

func vfX02DestVals(d []interface{}) []int {
	out := make([]int, 0, len(d))
	for _, x := range d {
		out = append(out, vfX02Val(x))
	}
	return out
}

// vfX02MapView lists the keys of m (result columns first, in column order; then anything else, sorted) and
// their values.
func vfX02MapView(m map[string]interface{}, order []string) ([]string, []int) {
	keys, vals := []string{}, []int{}
	seen := map[string]bool{}
	for _, k := range order {
		if x, ok := m[k]; ok {
			keys = append(keys, k)
			vals = append(vals, vfX02Val(x))
			seen[k] = true
		}
	}
	rest := []string{}
	for k := range m {
		if !seen[k] {
			rest = append(rest, k)
		}
	}
	sort.Strings(rest)
	for _, k := range rest {
		keys = append(keys, k)
		vals = append(vals, vfX02Val(m[k]))
	}
	return keys, vals
}

// ---------------------------------------------------------------- scripted node

type vfX02Worker struct {
	id    int
	sess  [2]*Session
	nodes [2]*vfNode
	cur   atomic.Value // *vfX02Scn
	reqs  int64
}

func vfX02Tag(s *vfX02Scn) string { return fmt.Sprintf("/*x02:%s:%v*/", s.Shape, s.Applied) }

func vfX02TagOf(text string) (shape string, applied bool, ok bool) {
	i := strings.Index(text, "/*x02:")
	if i < 0 {
		return "", false, false
	}
	j := strings.Index(text[i:], "*/")
	if j < 0 {
		return "", false, false
	}
	parts := strings.Split(text[i+6:i+j], ":")
	if len(parts) != 2 {
		return "", false, false
	}
	return parts[0], parts[1] == "true", true
}

// vfX02Meta prefixes a v4 response body with one warning and a one-entry custom payload labelled k.
func vfX02Meta(k int, body []byte) (byte, []byte) {
	w := &vfW{}
	w.StringList([]string{"w" + strconv.Itoa(k)})
	w.Short(1).String("pg").Bytes([]byte(strconv.Itoa(k)))
	w.Raw(body)
	return 0x08 | 0x04, w.b
}

func (w *vfX02Worker) handle(nc *vfNodeConn, f *vfFrame, q *vfRequest) bool {
	switch f.Op {
	case vfOpPrepare:
		shape, applied, ok := vfX02TagOf(q.Stmt)
		if !ok {
			return false
		}
		var cols []vfCol
		if shape == "rows" { // a conditional statement has no result metadata until it ran
			cols = vfX02VfCols(vfX02Cols(&vfX02Scn{Shape: shape, Applied: applied}))
		}
		nc.Reply(f, vfOpResult, vfPreparedBody(f.Version, []byte("id:"+q.Stmt), "ks", "x02", 0, cols))
		return true
	case vfOpQuery, vfOpExecute, vfOpBatch:
		text := q.Stmt
		if f.Op == vfOpExecute {
			text = string(q.PreparedID)
		}
		if f.Op == vfOpBatch {
			text = strings.Join(q.BatchStmts, ";")
		}
		if _, _, ok := vfX02TagOf(text); !ok {
			return false
		}
		s, _ := w.cur.Load().(*vfX02Scn)
		if s == nil {
			nc.Reply(f, vfOpError, vfErrorBody(0x0000, "vf-stale: no sequence is running", nil))
			return true
		}
		atomic.AddInt64(&w.reqs, 1)
		page := 1
		if len(q.PageState) > 0 {
			k, err := strconv.Atoi(strings.TrimPrefix(string(q.PageState), "p"))
			if err != nil || k < 1 {
				nc.Reply(f, vfOpError, vfErrorBody(0x2200, "vf-badstate", nil))
				return true
			}
			page = k + 1
		}
		if page > len(s.Pages) {
			nc.Reply(f, vfOpError, vfErrorBody(0x2200, "vf-badstate: beyond the last page", nil))
			return true
		}
		if page == s.Fail {
			nc.Reply(f, vfOpError, vfErrorBody(0x2200, fmt.Sprintf("%s fail page=%d.", vfX02Marker, page), nil))
			return true
		}
		if s.Shape == "void" {
			fl, body := vfX02Meta(page, vfVoidBody())
			nc.ReplyFlags(f, fl, vfOpResult, body)
			return true
		}
		names := vfX02Cols(s)
		cells := make([][][]byte, 0, s.Pages[page-1])
		for i := 1; i <= s.Pages[page-1]; i++ {
			row := make([][]byte, 0, len(names))
			for _, n := range names {
				row = append(row, vfX02Cell(n, page, i, s.Applied))
			}
			cells = append(cells, row)
		}
		var ps []byte
		if page < len(s.Pages) {
			ps = []byte("p" + strconv.Itoa(page))
		}
		noMeta := f.Op != vfOpBatch && q.QFlags&0x02 != 0
		fl, body := vfX02Meta(page, vfRowsBody(f.Version, "ks", "x02", vfX02VfCols(names), cells, ps, noMeta))
		nc.ReplyFlags(f, fl, vfOpResult, body)
		return true
	}
	return false
}

func vfX02NewWorker(id int) (*vfX02Worker, error) {
	w := &vfX02Worker{id: id}
	for skip := 0; skip < 2; skip++ {
		cl := &vfCluster{Partitioner: "org.apache.cassandra.dht.Murmur3Partitioner", Version: "3.11.4"}
		d := vfDesc(1)
		cl.Set([]vfHostDesc{d})
		n := vfNewNode(cl, d)
		n.Handler = w.handle
		disable := skip == 0
		s, _, err := vfSingleNodeSession(n, 4, func(cfg *ClusterConfig) {
			cfg.DisableSkipMetadata = disable
			cfg.Timeout = 30 * time.Second // far above anything the scripted node does
		})
		if err != nil {
			return nil, err
		}
		w.sess[skip] = s
		w.nodes[skip] = n
	}
	return w, nil
}

func (w *vfX02Worker) close() {
	for _, s := range w.sess {
		if s != nil {
			s.Close()
		}
	}
}

// ---------------------------------------------------------------- executing one sequence

type vfX02Exec struct {
	w    *vfX02Worker
	p    *vfX02Path
	s    *Session
	q    *Query
	b    *Batch
	it   *Iter
	sc   Scanner
	mode string
}

func (x *vfX02Exec) stmt() string {
	tag := vfX02Tag(&x.p.Scn)
	if x.p.Scn.Shape == "cas" {
		if x.p.Kind == "query" {
			return tag + " UPDATE x02 SET b = 'x' WHERE a = 1 IF b = 'y'"
		}
		return "UPDATE x02 SET b = 'x' WHERE a = 1 IF b = 'y' " + tag
	}
	if x.p.Kind == "query" {
		return tag + " SELECT a, b FROM x02"
	}
	return "SELECT a, b FROM x02 " + tag
}

func (x *vfX02Exec) begin() {
	x.s = x.w.sess[x.p.Skip&1]
	scn := x.p.Scn
	x.w.cur.Store(&scn)
	x.mode = "fresh"
	if scn.Via == "batch" {
		x.b = x.s.NewBatch(LoggedBatch)
		x.b.Query(x.stmt())
		x.b.Query(x.stmt())
	} else {
		x.q = x.s.Query(x.stmt()).Prefetch(0).PageSize(10)
		if scn.Shape == "cas" && len(x.p.Calls) > 0 && (x.p.Calls[0].Op == "Iter" || x.p.Calls[0].Op == "Exec") {
			// a conditional statement consumed through the general API: the documented way (NoSkipMetadata:
			// "when using CAS operations which do not end in Cas", CASSANDRA-11099) - the CAS helpers do it themselves
			x.q.NoSkipMetadata()
		}
	}
}

func (x *vfX02Exec) end() {
	if x.q != nil && x.p.ID%2 == 1 {
		x.q.Release()
	}
	x.w.cur.Store((*vfX02Scn)(nil))
}

// casDests: the destinations a caller of the CAS helpers passes: one per column of the table row (a, b).
var vfX02RowCols = []string{"a", "b"}

func (x *vfX02Exec) do(c vfX02Call) (ret vfX02Ret, note string) {
	ret = vfX02NoRet()
	defer func() {
		if r := recover(); r != nil {
			ret = vfX02NoRet()
			ret.Err = "panic"
			note = fmt.Sprint(r)
		}
	}()
	scn := &x.p.Scn
	cols := vfX02Cols(scn)
	bstr := func(b bool) string {
		if b {
			return "t"
		}
		return "f"
	}
	switch c.Op {
	case "Iter":
		x.it = x.q.Iter()
		x.mode = "iter"
	case "Exec":
		ret.Err = vfX02ErrClass(x.q.Exec())
		x.mode = "end"
	case "QScan":
		d := vfX02Dests(vfX02RowCols, c.V)
		err := x.q.Scan(d...)
		ret.Err = vfX02ErrClass(err)
		if err == nil {
			ret.Vals = vfX02DestVals(d)
		}
		x.mode = "end"
	case "QMapScan":
		m := map[string]interface{}{}
		if c.V == "bad" {
			m["b"] = &vfX02Unfit{}
		}
		err := x.q.MapScan(m)
		ret.Err = vfX02ErrClass(err)
		if err == nil {
			ret.Keys, ret.Vals = vfX02MapView(m, cols)
		}
		x.mode = "end"
	case "ScanCAS":
		d := vfX02Dests(vfX02RowCols, c.V)
		applied, err := x.q.ScanCAS(d...)
		ret.Ap, ret.Err = bstr(applied), vfX02ErrClass(err)
		if err == nil && !applied {
			ret.Vals = vfX02DestVals(d)
		}
		x.mode = "end"
	case "MapScanCAS":
		m := map[string]interface{}{}
		if c.V == "bad" {
			m["b"] = &vfX02Unfit{}
		}
		applied, err := x.q.MapScanCAS(m)
		ret.Ap, ret.Err = bstr(applied), vfX02ErrClass(err)
		if err == nil {
			ret.Keys, ret.Vals = vfX02MapView(m, cols)
		}
		x.mode = "end"
	case "ExecBatch":
		ret.Err = vfX02ErrClass(x.s.ExecuteBatch(x.b))
		x.mode = "end"
	case "ExecBatchCAS":
		d := vfX02Dests(vfX02RowCols, c.V)
		applied, it, err := x.s.ExecuteBatchCAS(x.b, d...)
		ret.Ap, ret.Err = bstr(applied), vfX02ErrClass(err)
		if err == nil && !applied {
			ret.Vals = vfX02DestVals(d)
		}
		x.it = it
		x.mode = "end"
		if err == nil {
			x.mode = "iter"
		}
	case "MapExecBatchCAS":
		m := map[string]interface{}{}
		if c.V == "bad" {
			m["b"] = &vfX02Unfit{}
		}
		applied, it, err := x.s.MapExecuteBatchCAS(x.b, m)
		ret.Ap, ret.Err = bstr(applied), vfX02ErrClass(err)
		if err == nil {
			ret.Keys, ret.Vals = vfX02MapView(m, cols)
		}
		x.it = it
		x.mode = "end"
		if err == nil {
			x.mode = "iter"
		}
	case "Scan":
		d := vfX02Dests(cols, c.V)
		ok := x.it.Scan(d...)
		ret.B = bstr(ok)
		if ok {
			ret.Vals = vfX02DestVals(d)
		}
	case "MapScan":
		m := map[string]interface{}{}
		if c.V == "bad" && len(cols) > 0 {
			m[cols[len(cols)-1]] = &vfX02Unfit{}
		}
		ok := x.it.MapScan(m)
		ret.B = bstr(ok)
		if ok {
			ret.Keys, ret.Vals = vfX02MapView(m, cols)
		}
	case "SliceMap":
		ms, err := x.it.SliceMap()
		ret.Err = vfX02ErrClass(err)
		if err == nil {
			for i, m := range ms {
				k, v := vfX02MapView(m, cols)
				if i == 0 {
					ret.Keys = k
				}
				ret.Rows = append(ret.Rows, v)
			}
		}
	case "RowData":
		rd, err := x.it.RowData()
		ret.Err = vfX02ErrClass(err)
		if err == nil {
			ret.Keys = append([]string{}, rd.Columns...)
		}
	case "Close":
		ret.Err = vfX02ErrClass(x.it.Close())
	case "Scanner":
		x.sc = x.it.Scanner()
		x.mode = "scanner"
	case "Next":
		ret.B = bstr(x.sc.Next())
	case "SScan":
		d := vfX02Dests(cols, c.V)
		err := x.sc.Scan(d...)
		ret.Err = vfX02ErrClass(err)
		if err == nil {
			ret.Vals = vfX02DestVals(d)
		}
	case "Err":
		ret.Err = vfX02ErrClass(x.sc.Err())
		x.mode = "end"
	default:
		ret.Err = "unknown-call"
	}
	return ret, note
}

// proj reads the getters of the iterator (only while the caller may still use it: not after Scanner()).
func (x *vfX02Exec) proj() (p vfX02Proj) {
	p = vfX02Proj{Spec: true, Cols: []string{}}
	defer func() {
		if r := recover(); r != nil {
			p = vfX02Proj{Spec: true, Cols: []string{"panic: " + fmt.Sprint(r)}, Nrows: -1}
		}
	}()
	if x.mode != "iter" || x.it == nil {
		return p
	}
	it := x.it
	p.Nrows = it.NumRows()
	for _, c := range it.Columns() {
		p.Cols = append(p.Cols, c.Name)
	}
	if ps := it.PageState(); len(ps) > 0 {
		k, err := strconv.Atoi(strings.TrimPrefix(string(ps), "p"))
		if err != nil {
			k = -1
		}
		p.Pstate = k
	}
	p.Wsp = it.WillSwitchPage()
	if ws := it.Warnings(); len(ws) == 1 {
		if k, err := strconv.Atoi(strings.TrimPrefix(ws[0], "w")); err == nil {
			p.Warn = k
		} else {
			p.Warn = -1
		}
	} else if len(ws) > 1 {
		p.Warn = -len(ws)
	}
	if cp := it.GetCustomPayload(); len(cp) > 0 {
		if k, err := strconv.Atoi(string(cp["pg"])); err == nil && len(cp) == 1 {
			p.Pay = k
		} else {
			p.Pay = -1
		}
	}
	if h := it.Host(); h != nil && h.ConnectAddress().String() == x.w.nodes[x.p.Skip&1].Desc.Addr {
		p.Host = true
	}
	return p
}

func (w *vfX02Worker) runPath(p *vfX02Path) []map[string]interface{} {
	x := &vfX02Exec{w: w, p: p}
	recs := []map[string]interface{}{{"ev": "begin", "id": p.ID, "scn": p.Scn, "kind": p.Kind, "skip": p.Skip}}
	x.begin()
	for i, c := range p.Calls {
		if x.mode == "end" { // nothing may be called any more (one-shot done, error without iterator, Scanner.Err)
			break
		}
		ret, note := x.do(c)
		recs = append(recs, map[string]interface{}{"ev": "call", "id": p.ID, "n": i + 1, "call": c, "ret": ret,
			"proj": x.proj(), "note": note})
		if ret.Err == "panic" || ret.Err == "unknown-call" {
			break
		}
	}
	x.end()
	return recs
}

func vfX02RunPaths(t *testing.T, paths []*vfX02Path, outName string) {
	par := vfEnvInt("VF_X02_PAR", 4)
	out, err := vfCreateNDJSON(vfOutPath(outName))
	if err != nil {
		t.Fatal(err)
	}
	defer out.Close()
	var wg sync.WaitGroup
	var next int64 = -1
	var calls, panics, reqs int64
	var omu sync.Mutex
	errs := make(chan error, par)
	for wi := 0; wi < par; wi++ {
		wg.Add(1)
		go func(wi int) {
			defer wg.Done()
			w, err := vfX02NewWorker(wi)
			if err != nil {
				errs <- err
				return
			}
			defer w.close()
			for {
				i := int(atomic.AddInt64(&next, 1))
				if i >= len(paths) {
					break
				}
				var recs []map[string]interface{}
				ok, dump := vfWithin(300*time.Second, func() { recs = w.runPath(paths[i]) })
				if !ok {
					errs <- fmt.Errorf("sequence %d did not finish within 300s:\n%s", paths[i].ID, dump)
					return
				}
				omu.Lock()
				for _, r := range recs {
					out.Write(r)
					if r["ev"] == "call" {
						calls++
						if r["ret"].(vfX02Ret).Err == "panic" {
							panics++
						}
					}
				}
				omu.Unlock()
			}
			atomic.AddInt64(&reqs, atomic.LoadInt64(&w.reqs))
		}(wi)
	}
	wg.Wait()
	select {
	case err := <-errs:
		t.Fatalf("X02 harness: %v", err)
	default:
	}
	sum, _ := json.Marshal(map[string]interface{}{"sequences": len(paths), "calls": calls, "panics": panics, "requests": reqs})
	fmt.Printf("VFSUMMARY %s\n", sum)
}

// TestVfX02ConsumeReplay executes the paths of VF_X02_PATHS (NDJSON, generated from TLC's edge dump).
func TestVfX02ConsumeReplay(t *testing.T) {
	f, err := os.Open(os.Getenv("VF_X02_PATHS"))
	if err != nil {
		t.Fatal(err)
	}
	defer f.Close()
	dec := json.NewDecoder(f)
	var paths []*vfX02Path
	for dec.More() {
		p := &vfX02Path{}
		if err := dec.Decode(p); err != nil {
			t.Fatal(err)
		}
		paths = append(paths, p)
	}
	vfX02RunPaths(t, paths, "x02_consume_replay.ndjson")
}

// vfX02Gen: where the generator of random sequences believes the iterator stands (aims its choices, decides nothing).
type vfX02Gen struct {
	s         *vfX02Scn
	page, pos int
	err, end  bool
	staged    bool
}

func (g *vfX02Gen) open() {
	if g.s.Fail == 1 {
		g.err = true
		return
	}
	g.page = 1
}
func (g *vfX02Gen) done() bool      { return g.err || g.end || g.page == 0 }
func (g *vfX02Gen) rowInPage() bool { return !g.done() && g.pos < g.s.Pages[g.page-1] }
func (g *vfX02Gen) step() bool {
	for !g.done() {
		if g.pos < g.s.Pages[g.page-1] {
			g.pos++
			return true
		}
		if g.page >= len(g.s.Pages) {
			g.end = true
		} else if g.s.Fail == g.page+1 {
			g.err = true
		} else {
			g.page, g.pos = g.page+1, 0
		}
	}
	return false
}
func (g *vfX02Gen) after(v string) {
	if g.step() && (v == "few" || v == "many" || v == "bad") {
		g.err = true
	}
}

// TestVfX02ConsumeRandom: seeded random call sequences (scenarios may be larger than the model-checked bounds).
func TestVfX02ConsumeRandom(t *testing.T) {
	n := vfEnvInt("VF_X02_RANDOM", 300)
	rng := rand.New(rand.NewSource(vfSeed()*7919 + 17))
	paths := make([]*vfX02Path, 0, n)
	vs := []string{"ok", "ok", "ok", "ok", "nil1", "few", "many", "bad"}
	for i := 0; i < n; i++ {
		p := &vfX02Path{ID: 1000000 + i, Kind: []string{"query", "prepared"}[rng.Intn(2)], Skip: rng.Intn(2)}
		s := vfX02Scn{Via: "query", Shape: "rows", Pages: []int{}}
		switch r := rng.Intn(10); {
		case r < 6:
			np := 1 + rng.Intn(3)
			for k := 0; k < np; k++ {
				s.Pages = append(s.Pages, rng.Intn(4))
			}
			if rng.Intn(4) == 0 {
				s.Fail = 1 + rng.Intn(np)
			}
		case r < 7:
			s.Shape, s.Pages, s.Fail = "void", []int{0}, rng.Intn(4)/3
		case r < 8:
			s.Shape, s.Pages, s.Fail, s.Applied = "cas", []int{1}, rng.Intn(4)/3, rng.Intn(2) == 0
		case r < 9:
			s.Via, s.Shape, s.Pages, s.Fail = "batch", "void", []int{0}, rng.Intn(4)/3
		default:
			s.Via, s.Shape, s.Fail, s.Applied = "batch", "cas", rng.Intn(4)/3, rng.Intn(2) == 0
			s.Pages = []int{1}
			if !s.Applied {
				s.Pages = []int{1 + rng.Intn(3)}
			}
		}
		p.Scn = s
		// The generator follows the position of the iterator only to aim its choices (wrong destinations are
		// mostly tried where a row is in the current page: elsewhere the documentation does not decide them);
		// whether a call is decided and what it must return is TLC's business.
		g := &vfX02Gen{s: &s}
		wrongOK := s.Fail != 1 && s.Pages[0] > 0
		pickV := func(ok bool) string {
			if ok || rng.Intn(12) == 0 {
				return vs[rng.Intn(len(vs))]
			}
			return []string{"ok", "ok", "ok", "nil1"}[rng.Intn(4)]
		}
		pickM := func(ok bool) string {
			if (ok || rng.Intn(12) == 0) && rng.Intn(3) == 0 {
				return "bad"
			}
			return "ok"
		}
		var first []vfX02Call
		switch {
		case s.Via == "batch" && s.Shape == "void":
			first = []vfX02Call{{"ExecBatch", "-"}}
		case s.Via == "batch":
			first = []vfX02Call{{"ExecBatch", "-"}, {"ExecBatchCAS", "ok"}, {"ExecBatchCAS", "ok"}, {"ExecBatchCAS", "nil1"},
				{"MapExecBatchCAS", "ok"}, {"MapExecBatchCAS", pickM(!s.Applied && s.Fail == 0)}}
		case s.Shape == "cas":
			first = []vfX02Call{{"Exec", "-"}, {"Iter", "-"}, {"ScanCAS", "ok"}, {"ScanCAS", pickV(!s.Applied)}, {"MapScanCAS", "ok"},
				{"MapScanCAS", pickM(!s.Applied && s.Fail == 0)}}
		default:
			first = []vfX02Call{{"Iter", "-"}, {"Iter", "-"}, {"Iter", "-"}, {"Iter", "-"}, {"Exec", "-"}, {"QScan", pickV(wrongOK)},
				{"QMapScan", pickM(wrongOK)}}
		}
		c := first[rng.Intn(len(first))]
		p.Calls = append(p.Calls, c)
		mode := "end"
		if c.Op == "Iter" {
			mode = "iter"
			g.open()
		} else if c.Op == "ExecBatchCAS" || c.Op == "MapExecBatchCAS" {
			mode = "iter"
			g.open()
			g.step()
		}
		closed := false
		for k, steps := 0, 2+rng.Intn(12); k < steps && mode != "end"; k++ {
			var c vfX02Call
			if mode == "iter" {
				switch r := rng.Intn(20); {
				case closed:
					c = vfX02Call{"Close", "-"}
				case r < 9:
					c = vfX02Call{"Scan", pickV(g.rowInPage())}
					g.after(c.V)
				case r < 12:
					c = vfX02Call{"MapScan", pickM(g.rowInPage())}
					g.after(c.V)
				case r < 13:
					c = vfX02Call{"SliceMap", "-"}
					for !g.done() {
						g.step()
					}
				case r < 15:
					c = vfX02Call{"RowData", "-"}
				case r < 17:
					c = vfX02Call{"Close", "-"}
					closed = true
					if steps > k+2 {
						steps = k + 2 // one more Close, then the sequence ends
					}
				default:
					c = vfX02Call{"Scanner", "-"}
					mode = "scanner"
				}
			} else {
				switch r := rng.Intn(20); {
				case r < 9:
					c = vfX02Call{"Next", "-"}
					g.staged = g.step()
				case r < 18:
					c = vfX02Call{"SScan", pickV(g.staged)}
					if !g.staged && rng.Intn(6) != 0 {
						c.V = "ok"
					}
					g.staged = false
				default:
					c = vfX02Call{"Err", "-"}
					mode = "end"
				}
			}
			p.Calls = append(p.Calls, c)
		}
		paths = append(paths, p)
	}
	vfX02RunPaths(t, paths, "x02_consume_random.ndjson")
}
