package gocql

// Verification harness for property C14 (prepared statements), part 1: the environment.
// A real Session over the scripted in-memory cluster; the nodes keep a table of prepared
// statements that can be made to FORGET; every PREPARE / EXECUTE / BATCH frame the nodes see,
// every operation on the session's prepared-statement cache (hooks under the cache mutex plus
// the LRU's OnEvicted callback) and every call / return of an executor is recorded with one
// global sequence counter. Nothing here decides the property: the recorded trace is evaluated
// by TLC against spec/Trace_Prepare.tla.

import (
	"bytes"
	"context"
	"errors"
	"fmt"
	"io"
	"net"
	"math/rand"
	"runtime"
	"strconv"
	"strings"
	"sync"
	"sync/atomic"
	"time"
)

// ---------------------------------------------------------------- statements, keys, ids

type vfC14Stmt struct {
	Name  string
	Text  string
	Arity int // bind markers
	NCols int // result columns
}

var vfC14Stmts = []vfC14Stmt{
	{"A", "SELECT v FROM vfa WHERE k = ?", 1, 1},
	{"B", "SELECT v, w FROM vfb WHERE k = ? AND c = ?", 2, 2},
	{"C", "SELECT v, w, x FROM vfc WHERE k = ?", 1, 3},
	// A family of DISTINCT statements whose texts nearly collide: to the server (and to the property) each is a
	// statement of its own; any normalisation of the text in the cache key (white space, case, trailing
	// characters, quoting, comments) makes two of them share an entry.
	{"D1", "SELECT v FROM vfa WHERE k = ? AND t = 'x y'", 1, 1},
	{"D2", "SELECT v FROM vfa WHERE k = ? AND t = 'x  y'", 1, 1},  // white space run inside a literal
	{"D3", "SELECT v FROM vfa WHERE k = ? AND t = 'x\ty'", 1, 1},  // tab inside a literal
	{"E1", "select v from vfa where k = ?", 1, 1},                 // case
	{"F1", "SELECT v FROM vfa WHERE k = ?;", 1, 1},                // trailing semicolon
	{"F2", "SELECT v FROM vfa WHERE k = ? ", 1, 1},                // trailing space
	{"F3", "SELECT  v FROM vfa WHERE k = ?", 1, 1},                // white space run between tokens
	{"G1", "SELECT v FROM \"vfa\" WHERE k = ?", 1, 1},             // quoted identifier
	{"G2", "SELECT v FROM \"Vfa\" WHERE k = ?", 1, 1},             // quoted identifier, other case
	{"G3", "SELECT v FROM \"vf a\" WHERE k = ?", 1, 1},            // white space inside a quoted identifier
	{"G4", "SELECT v FROM \"vf  a\" WHERE k = ?", 1, 1},
	{"H1", "SELECT v FROM vfa WHERE k = ? /* one */", 1, 1},       // comments
	{"H2", "SELECT v FROM vfa WHERE k = ? /* two */", 1, 1},
}

// vfC14Family are the names of the near-colliding statements (with A, which they resemble).
var vfC14Family = []string{"A", "D1", "D2", "D3", "E1", "F1", "F2", "F3", "G1", "G2", "G3", "G4", "H1", "H2"}

// Statements for the burst driver, "Z<n>": fresh in the sense that every scenario has its own session and
// uses each at most in one round.
const vfC14NFresh = 64

func init() {
	for n := 0; n < vfC14NFresh; n++ {
		vfC14Stmts = append(vfC14Stmts, vfC14Stmt{fmt.Sprintf("Z%d", n), fmt.Sprintf("SELECT v FROM vfz%d WHERE k = ?", n), 1, 1})
	}
}

func vfC14FreshStmt(n int) *vfC14Stmt { return vfC14StmtByName(fmt.Sprintf("Z%d", n%vfC14NFresh)) }

func vfC14StmtByName(n string) *vfC14Stmt {
	for i := range vfC14Stmts {
		if vfC14Stmts[i].Name == n {
			return &vfC14Stmts[i]
		}
	}
	return nil
}

// vfC14StmtByText: the text must match EXACTLY (every byte).
func vfC14StmtByText(t string) *vfC14Stmt {
	for i := range vfC14Stmts {
		if vfC14Stmts[i].Text == t {
			return &vfC14Stmts[i]
		}
	}
	return nil
}

// vfC14Key is the triple the property speaks about: host, keyspace, statement.
type vfC14Key struct{ H, K, S string }

func (k vfC14Key) arr() []string { return []string{k.H, k.K, k.S} }

var vfC14NoKey = vfC14Key{"-", "-", "-"}

// vfC14ID is what a node encodes into a prepared id: the key, the generation (incremented when a
// forgotten statement is prepared again) and a serial number of the PREPARE answer (0 when the node
// re-issues one id per generation).
type vfC14ID struct {
	Key  vfC14Key
	G, N int
}

func (id vfC14ID) bytes() []byte {
	return []byte(fmt.Sprintf("vf|%s|%s|%s|%d|%d", id.Key.H, id.Key.K, id.Key.S, id.G, id.N))
}

func (id vfC14ID) json() map[string]interface{} {
	return map[string]interface{}{"k": id.Key.arr(), "g": id.G, "n": id.N}
}

var vfC14NoID = vfC14ID{Key: vfC14NoKey}

func vfC14ParseID(b []byte) (vfC14ID, bool) {
	p := strings.Split(string(b), "|")
	if len(p) != 6 || p[0] != "vf" {
		return vfC14NoID, false
	}
	g, e1 := strconv.Atoi(p[4])
	n, e2 := strconv.Atoi(p[5])
	if e1 != nil || e2 != nil {
		return vfC14NoID, false
	}
	return vfC14ID{Key: vfC14Key{p[1], p[2], p[3]}, G: g, N: n}, true
}

// ---------------------------------------------------------------- goroutine identity

// vfC14Goid returns the id of the calling goroutine and of the goroutine that created it (0 if
// unknown). Cache operations carry no request identity; the goroutine does: an executor runs its
// lookups on its own goroutine, the winner's PREPARE runs on a goroutine it created.
var vfC14Parents sync.Map // goid -> parent goid

func vfC14Goid() (id, parent int64) {
	var small [64]byte
	n := runtime.Stack(small[:], false)
	id = vfC14ParseGoid(small[:n])
	if v, ok := vfC14Parents.Load(id); ok {
		return id, v.(int64)
	}
	buf := make([]byte, 32<<10)
	n = runtime.Stack(buf, false)
	s := buf[:n]
	if i := bytes.LastIndex(s, []byte("created by ")); i >= 0 {
		rest := s[i:]
		if j := bytes.Index(rest, []byte(" in goroutine ")); j >= 0 {
			rest = rest[j+len(" in goroutine "):]
			k := 0
			for k < len(rest) && rest[k] >= '0' && rest[k] <= '9' {
				k++
			}
			parent, _ = strconv.ParseInt(string(rest[:k]), 10, 64)
		}
	}
	vfC14Parents.Store(id, parent)
	return id, parent
}

func vfC14ParseGoid(b []byte) int64 {
	const p = "goroutine "
	if !bytes.HasPrefix(b, []byte(p)) {
		return 0
	}
	b = b[len(p):]
	k := 0
	for k < len(b) && b[k] >= '0' && b[k] <= '9' {
		k++
	}
	v, _ := strconv.ParseInt(string(b[:k]), 10, 64)
	return v
}

// ---------------------------------------------------------------- environment

type vfC14NodeEnt struct {
	known bool
	gen   int
	cnt   int
}

// vfC14Held is a request a node has received and not yet answered.
type vfC14Held struct {
	nc      *vfNodeConn
	f       *vfFrame
	q       *vfRequest
	kind    string // prepare | execute | batch
	host    string
	key     vfC14Key // prepare
	e       int      // execute / batch: token
	ids     []vfC14ID
	idsOK   bool
	wire    int
	replied bool
}

type vfC14Env struct {
	sc    *vfScope
	tr    *vfTracer
	cl    *vfCluster
	nodes []*vfNode
	d     *vfDialer
	sess  *Session
	hosts []string           // "h1", "h2"
	hidOf map[string]string  // host uuid -> "h1"
	conns map[[2]string]*Conn // (h, ks) -> connection, for pinned executors
	max   int
	uniq  bool

	mu  sync.Mutex // node tables, script, held requests, replay bookkeeping
	tab map[vfC14Key]*vfC14NodeEnt
	rng *rand.Rand
	// free-running script
	hold      bool // replay mode: nodes answer only on command
	pFail     float64
	pForget   float64
	maxForget int
	forgets   int
	maxDelay  time.Duration
	sameIP    bool
	lean      bool   // burst driver: only what PreparedOnce needs is logged (misses, removals, PREPAREs at the node)
	lostMode  string // how a PREPARE is made to fail apart from an ERROR answer: "" | garbage | silent | kill
	kills     int
	ncon      int
	timeout   time.Duration
	execSeen  map[int]int // EXECUTE/BATCH frames per executor (livelock guard)
	// replay bookkeeping
	flights  []*vfC14Flight
	sendMap  map[[2]int]int // (wire, stream) -> flight index (1-based)
	heldExec map[int]*vfC14Held
	execGate map[int]*vfGate
	results  map[int]string
	cancels  map[int]context.CancelFunc
	looks    map[int]int // cache lookups per executor
	removes  int         // remove(key) calls of failed flights

	gmu    sync.Mutex
	execOf map[int64]int

	// written under the cache mutex only
	lastPoint string
	lastKey   string
}

type vfC14Flight struct {
	by   int
	req  int // request id of the PREPARE call (internal requests have negative ids)
	held *vfC14Held
	gate *vfGate
	done bool // gate released (result may be published)
}

func (env *vfC14Env) register(gid int64, e int) {
	env.gmu.Lock()
	env.execOf[gid] = e
	env.gmu.Unlock()
}

func (env *vfC14Env) execOfG(gid int64) int {
	if gid == 0 {
		return 0
	}
	env.gmu.Lock()
	defer env.gmu.Unlock()
	return env.execOf[gid]
}

func (env *vfC14Env) wireOfConn(c *Conn) int {
	if mc, ok := c.conn.(*vfMemConn); ok {
		return env.tr.ObjID(mc.out)
	}
	return 0
}

// parseKey splits the cache's key string into the triple. The code concatenates host id (a
// 36-character UUID string), keyspace and statement.
func (env *vfC14Env) parseKey(s string) (vfC14Key, bool) {
	// host id and keyspace may come in any order and with separators; what remains must be EXACTLY the text of
	// one statement (white space, case, trailing characters included)
	var h, ks string
	for hid, hn := range env.hidOf {
		if i := strings.Index(s, hid); i >= 0 {
			if h != "" {
				return vfC14NoKey, false
			}
			h = hn
			s = s[:i] + "\x00" + s[i+len(hid):]
		}
	}
	if h == "" {
		return vfC14NoKey, false
	}
	const seps = "\x00|:,"
	s = strings.TrimLeft(s, seps)
	for _, k := range []string{"ks1", "ks2"} {
		if strings.HasPrefix(s, k) {
			ks, s = k, s[len(k):]
			break
		}
	}
	if ks == "" {
		return vfC14NoKey, false
	}
	s = strings.Trim(s, seps)
	if st := vfC14StmtByText(s); st != nil {
		return vfC14Key{h, ks, st.Name}, true
	}
	return vfC14NoKey, false
}

// vfC14Opt: further options of an environment.
type vfC14Opt struct {
	// SameIP: every host of the session is reached at ONE IP address and differs only in the port (what an
	// AddressTranslator to a proxy / port forward / several nodes on one machine gives): hosts are then told apart
	// by host id only.
	SameIP bool
}

// vfC14NewEnv sets the environment up, retrying (a loaded machine may be too slow for the pools once).
func vfC14NewEnv(H, C, max int, uniq bool, seed int64, hold bool, timeout time.Duration, opt ...vfC14Opt) (env *vfC14Env, err error) {
	var o vfC14Opt
	if len(opt) > 0 {
		o = opt[0]
	}
	for try := 0; try < 3; try++ {
		if env, err = vfC14NewEnv1(H, C, max, uniq, seed, hold, timeout, o); err == nil {
			return env, nil
		}
	}
	return nil, err
}

// vfC14Dialer dials scripted nodes by connect address AND port.
type vfC14Dialer struct{ nodes map[string]*vfNode }

func (d *vfC14Dialer) DialHost(ctx context.Context, host *HostInfo) (*DialedHost, error) {
	n := d.nodes[fmt.Sprintf("%s:%d", host.ConnectAddress(), host.Port())]
	if n == nil {
		return nil, &net.OpError{Op: "dial", Net: "tcp", Err: fmt.Errorf("vf: no route to %s:%d", host.ConnectAddress(), host.Port())}
	}
	c, _, err := n.Dial()
	if err != nil {
		return nil, err
	}
	return &DialedHost{Conn: c}, nil
}

// vfC14Policy is a round-robin HostSelectionPolicy that tells hosts apart by host id (the stock policies treat
// hosts with one connect address as one host).
type vfC14Policy struct {
	mu    sync.Mutex
	hosts []*HostInfo
	pos   uint32
}

func (p *vfC14Policy) AddHost(host *HostInfo) {
	p.mu.Lock()
	defer p.mu.Unlock()
	for i, h := range p.hosts {
		if h.HostID() == host.HostID() {
			p.hosts[i] = host
			return
		}
	}
	p.hosts = append(p.hosts, host)
}

func (p *vfC14Policy) RemoveHost(host *HostInfo) {
	p.mu.Lock()
	defer p.mu.Unlock()
	for i, h := range p.hosts {
		if h.HostID() == host.HostID() {
			p.hosts = append(append([]*HostInfo(nil), p.hosts[:i]...), p.hosts[i+1:]...)
			return
		}
	}
}
func (p *vfC14Policy) HostUp(host *HostInfo)               { p.AddHost(host) }
func (p *vfC14Policy) HostDown(host *HostInfo)             { p.RemoveHost(host) }
func (p *vfC14Policy) SetPartitioner(string)               {}
func (p *vfC14Policy) KeyspaceChanged(KeyspaceUpdateEvent) {}
func (p *vfC14Policy) Init(*Session)                       {}
func (p *vfC14Policy) IsLocal(*HostInfo) bool              { return true }
func (p *vfC14Policy) Pick(ExecutableQuery) NextHost {
	p.mu.Lock()
	hosts := append([]*HostInfo(nil), p.hosts...)
	p.mu.Unlock()
	start := int(atomic.AddUint32(&p.pos, 1))
	i := 0
	return func() SelectedHost {
		if i >= len(hosts) {
			return nil
		}
		h := hosts[(start+i)%len(hosts)]
		i++
		return (*selectedHost)(h)
	}
}

func vfC14NewEnv1(H, C, max int, uniq bool, seed int64, hold bool, timeout time.Duration, o vfC14Opt) (*vfC14Env, error) {
	env := &vfC14Env{max: max, uniq: uniq, hold: hold, tab: map[vfC14Key]*vfC14NodeEnt{}, rng: rand.New(rand.NewSource(seed)),
		hidOf: map[string]string{}, conns: map[[2]string]*Conn{}, execOf: map[int64]int{}, execSeen: map[int]int{},
		sendMap: map[[2]int]int{}, heldExec: map[int]*vfC14Held{}, execGate: map[int]*vfGate{}, results: map[int]string{},
		cancels: map[int]context.CancelFunc{}, looks: map[int]int{}}
	env.sc = vfNewScope()
	env.tr = env.sc.tr
	env.cl = &vfCluster{Partitioner: "org.apache.cassandra.dht.Murmur3Partitioner", Version: "3.11.4"}
	var descs []vfHostDesc
	for i := 1; i <= H; i++ {
		descs = append(descs, vfDesc(i))
	}
	env.cl.Set(descs)
	for i := 1; i <= H; i++ {
		n := vfNewNode(env.cl, vfDesc(i))
		h := fmt.Sprintf("h%d", i)
		n.Handler = env.handler(h)
		env.nodes = append(env.nodes, n)
		env.hosts = append(env.hosts, h)
		env.hidOf[vfDesc(i).ID] = h
	}
	env.d = vfNewDialer(env.nodes...)
	cfg := vfClusterConfig(env.d, 4, "10.0.0.1")
	cfg.NumConns = C
	cfg.Keyspace = "ks1"
	cfg.MaxPreparedStmts = max
	cfg.DisableSkipMetadata = false
	if timeout <= 0 {
		timeout = 60 * time.Second
	}
	env.timeout = timeout
	env.ncon = C
	cfg.Timeout = timeout
	cfg.RetryPolicy = &SimpleRetryPolicy{NumRetries: 0}
	if o.SameIP {
		// node i (10.0.0.i:9042 as its peers report it) is reached at 10.0.0.1:(9041+i)
		d := &vfC14Dialer{nodes: map[string]*vfNode{}}
		for i, n := range env.nodes {
			d.nodes[fmt.Sprintf("10.0.0.1:%d", 9042+i)] = n
		}
		cfg.HostDialer = d
		cfg.AddressTranslator = AddressTranslatorFunc(func(addr net.IP, port int) (net.IP, int) {
			if v4 := addr.To4(); v4 != nil && v4[0] == 10 && v4[1] == 0 && v4[2] == 0 && int(v4[3]) >= 1 && int(v4[3]) <= len(env.nodes) {
				return net.IPv4(10, 0, 0, 1), 9042 + int(v4[3]) - 1
			}
			return addr, port
		})
		cfg.PoolConfig.HostSelectionPolicy = &vfC14Policy{}
	}
	env.sameIP = o.SameIP
	s, err := NewSession(*cfg)
	if err != nil {
		return nil, err
	}
	env.sess = s
	// wait for the pools, then give the second connection of every host another keyspace
	deadline := time.Now().Add(10 * time.Second)
	for {
		ready := 0
		for _, h := range s.ring.allHosts() {
			if p, ok := s.pool.getPool(h); ok {
				p.mu.RLock()
				if len(p.conns) == C {
					ready++
				}
				p.mu.RUnlock()
			}
		}
		if ready == H {
			break
		}
		if time.Now().After(deadline) {
			s.Close()
			return nil, fmt.Errorf("vfC14: pools not filled (%d of %d hosts)", ready, H)
		}
		time.Sleep(time.Millisecond)
	}
	for _, h := range s.ring.allHosts() {
		hn := env.hidOf[h.HostID()]
		if hn == "" {
			s.Close()
			return nil, fmt.Errorf("vfC14: unknown host id %q", h.HostID())
		}
		p, _ := s.pool.getPool(h)
		p.mu.RLock()
		cs := append([]*Conn(nil), p.conns...)
		p.mu.RUnlock()
		for j, c := range cs {
			ks := "ks1"
			if j == 1 {
				ks = "ks2"
				if err := c.UseKeyspace(ks); err != nil {
					s.Close()
					return nil, err
				}
			}
			env.conns[[2]string{hn, ks}] = c
		}
	}
	env.sc.OnEvent = env.onEvent
	env.sc.OnConn = env.onConn
	s.stmtsLRU.mu.Lock()
	s.stmtsLRU.lru.OnEvicted = env.onEvicted
	s.stmtsLRU.mu.Unlock()
	env.sc.BindSession(s)
	env.sc.Bind(s.stmtsLRU)
	return env, nil
}

func (env *vfC14Env) close() (ok bool) {
	env.sc.gates.ReleaseAll()
	ok, _ = vfWithin(20*time.Second, env.sess.Close)
	env.sc.Unbind(env.sess.stmtsLRU)
	vfSessScope.Delete(env.sess)
	for _, c := range env.conns {
		env.sc.Unbind(c)
	}
	return ok
}

func (env *vfC14Env) cacheLen() int {
	p := env.sess.stmtsLRU
	p.mu.Lock()
	defer p.mu.Unlock()
	return p.lru.Len()
}

// ---------------------------------------------------------------- hooks

func (env *vfC14Env) onEvent(point string, obj interface{}, s string, a int, err error) {
	if env.sess == nil || obj != interface{}(env.sess.stmtsLRU) {
		return
	}
	if env.lean {
		key, kok := env.parseKey(s)
		switch point {
		case "lru_miss":
			env.tr.Emit("c_miss", "by", 0, "key", key.arr(), "kok", kok, "len", a)
		case "lru_remove":
			env.tr.Emit("c_remove", "by", 0, "key", key.arr(), "kok", kok, "len", a)
		case "lru_evict":
			env.tr.Emit("c_evict", "by", 0, "key", key.arr(), "kok", kok, "len", a)
		case "lru_hit":
		default:
			return
		}
		env.lastPoint, env.lastKey = point, s
		return
	}
	gid, par := vfC14Goid()
	own, pe := env.execOfG(gid), env.execOfG(par)
	key, kok := env.parseKey(s)
	switch point {
	case "lru_hit":
		env.tr.Emit("c_hit", "by", own, "key", key.arr(), "kok", kok, "len", a)
		env.mu.Lock()
		env.looks[own]++
		env.mu.Unlock()
	case "lru_miss":
		env.tr.Emit("c_miss", "by", own, "key", key.arr(), "kok", kok, "len", a)
		env.mu.Lock()
		env.looks[own]++
		env.flights = append(env.flights, &vfC14Flight{by: own})
		env.mu.Unlock()
	case "lru_remove":
		by := pe
		if own != 0 {
			by = own
		}
		env.tr.Emit("c_remove", "by", by, "key", key.arr(), "kok", kok, "len", a)
		env.mu.Lock()
		env.removes++
		env.mu.Unlock()
	case "lru_evict":
		env.tr.Emit("c_evict", "by", own, "key", key.arr(), "kok", kok, "len", a)
	default:
		return
	}
	env.lastPoint, env.lastKey = point, s
}

// onEvicted is the LRU's own callback: it runs inside the cache's critical sections whenever an
// entry leaves the cache, whatever the reason.
func (env *vfC14Env) onEvicted(k string, value interface{}) {
	key, kok := env.parseKey(k)
	st, id := "inflight", vfC14NoID
	if ifp, ok := value.(*inflightPrepare); ok {
		select {
		case <-ifp.done:
			if ifp.err != nil || ifp.preparedStatment == nil {
				st = "failed"
			} else {
				st = "ok"
				id, _ = vfC14ParseID(ifp.preparedStatment.id)
			}
		default:
		}
	} else {
		st = "other"
	}
	env.tr.Emit("c_gone", "key", key.arr(), "kok", kok, "cause", env.lastPoint, "same", env.lastKey == k, "st", st, "id", id.json())
}

func (env *vfC14Env) onConn(point string, c *Conn, call *callReq, a, b int, err error) {
	if env.lean || point != "x_addcall" || a != 0 || call == nil {
		return
	}
	gid, par := vfC14Goid()
	own, pe := env.execOfG(gid), env.execOfG(par)
	if own == 0 && pe == 0 {
		return
	}
	wire := env.wireOfConn(c)
	env.tr.Emit("x_send", "own", own, "par", pe, "wire", wire, "stream", call.streamID)
	if pe != 0 && own == 0 {
		env.mu.Lock()
		for i := len(env.flights) - 1; i >= 0; i-- {
			if env.flights[i].by == pe {
				env.sendMap[[2]int{wire, call.streamID}] = i + 1
				env.flights[i].req = env.sc.ReqOf(call)
				break
			}
		}
		env.mu.Unlock()
	}
}

// ---------------------------------------------------------------- the nodes

// vfC14PayloadTok reads the executor token from the request's custom payload ("vf-e"), 0 if there is none. Every
// EXECUTE / BATCH carries it, so a frame can be attributed to its executor even when it carries no bound value.
func vfC14PayloadTok(f *vfFrame) int {
	if f.Flags&0x04 == 0 || f.Version < 4 {
		return 0
	}
	r := &vfR{b: f.Body}
	n := r.Short()
	for i := 0; i < n && r.err == nil; i++ {
		k := r.String()
		v, _ := r.Bytes()
		if k == "vf-e" {
			e, _ := strconv.Atoi(string(v))
			return e
		}
	}
	return 0
}

func (env *vfC14Env) handler(host string) func(nc *vfNodeConn, f *vfFrame, q *vfRequest) bool {
	return func(nc *vfNodeConn, f *vfFrame, q *vfRequest) bool {
		wire := env.tr.ObjID(nc.Conn.in)
		switch f.Op {
		case vfOpPrepare:
			st := vfC14StmtByText(q.Stmt)
			if st == nil {
				return false
			}
			h := &vfC14Held{nc: nc, f: f, q: q, kind: "prepare", host: host, key: vfC14Key{host, nc.Keyspace, st.Name}, wire: wire}
			env.tr.Emit("n_prepare", "key", h.key.arr(), "wire", wire, "stream", f.Stream)
			env.mu.Lock()
			if env.hold {
				if fi := env.sendMap[[2]int{wire, f.Stream}]; fi > 0 {
					env.flights[fi-1].held = h
				}
				env.mu.Unlock()
				return true
			}
			mode := "ok"
			if env.rng.Float64() < env.pFail {
				mode = "error"
				if env.lostMode != "" && env.rng.Intn(5) < 3 && (env.lostMode != "kill" || env.kills < 2) {
					mode = env.lostMode
				}
			}
			var d time.Duration
			if env.maxDelay > 0 {
				d = time.Duration(env.rng.Int63n(int64(env.maxDelay)))
			}
			env.mu.Unlock()
			if d == 0 {
				env.replyPrepare(h, mode)
			} else {
				time.AfterFunc(d, func() { env.replyPrepare(h, mode) })
			}
			return true
		case vfOpExecute, vfOpBatch:
			h := &vfC14Held{nc: nc, f: f, q: q, kind: "execute", host: host, wire: wire, idsOK: true, e: vfC14PayloadTok(f)}
			var nvals []int
			if f.Op == vfOpExecute {
				id, ok := vfC14ParseID(q.PreparedID)
				h.ids, h.idsOK = []vfC14ID{id}, ok
				nvals = []int{len(q.Values)}
				if h.e == 0 && len(q.Values) > 0 && len(q.Values[0]) == 4 {
					h.e = int(int32(uint32(q.Values[0][0])<<24 | uint32(q.Values[0][1])<<16 | uint32(q.Values[0][2])<<8 | uint32(q.Values[0][3])))
				}
			} else {
				h.kind = "batch"
				for i, bid := range q.BatchIDs {
					if bid == nil {
						var e int
						if _, err := fmt.Sscanf(q.BatchStmts[i], "INSERT INTO vftok (e) VALUES (%d)", &e); err == nil && h.e == 0 {
							h.e = e
						}
						continue
					}
					id, ok := vfC14ParseID(bid)
					h.ids = append(h.ids, id)
					h.idsOK = h.idsOK && ok
					nvals = append(nvals, q.BatchValueCounts[i])
				}
			}
			ids := make([]interface{}, 0, len(h.ids))
			for _, id := range h.ids {
				ids = append(ids, id.json())
			}
			if nvals == nil {
				nvals = []int{}
			}
			env.tr.Emit("n_execute", "e", h.e, "kind", h.kind, "at", []string{host, nc.Keyspace}, "ids", ids, "idsok", h.idsOK,
				"nvals", nvals, "wire", wire, "stream", f.Stream)
			env.mu.Lock()
			env.execSeen[h.e]++
			if env.hold {
				env.heldExec[h.e] = h
				env.mu.Unlock()
				return true
			}
			if env.execSeen[h.e] > 12 {
				// the driver keeps re-sending the same request: end it with a server error
				env.tr.Emit("n_exec_reply", "e", h.e, "kind", "error", "id", vfC14NoID.json())
				env.mu.Unlock()
				nc.Reply(f, vfOpError, vfErrorBody(0x0000, "vf-livelock-guard", nil))
				return true
			}
			if len(h.ids) > 0 && h.idsOK && env.forgets < env.maxForget && env.rng.Float64() < env.pForget {
				k := h.ids[env.rng.Intn(len(h.ids))].Key
				if ent := env.tab[k]; ent != nil && ent.known {
					env.forgetLocked(k)
				}
			}
			env.mu.Unlock()
			env.replyExecute(h)
			return true
		}
		return false
	}
}

func (env *vfC14Env) forgetLocked(k vfC14Key) {
	if ent := env.tab[k]; ent != nil && ent.known {
		ent.known = false
		env.forgets++
		env.tr.Emit("n_forget", "key", k.arr())
	}
}

func (env *vfC14Env) forget(k vfC14Key) {
	env.mu.Lock()
	env.forgetLocked(k)
	env.mu.Unlock()
}

// replyPrepare answers a PREPARE: the table update, the log line and the enqueueing of the
// answer happen in one critical section of the environment (intent is logged before the write).
//
// mode: "ok"; "error" = answered with an ERROR frame; "garbage" = answered with a RESULT/Prepared frame whose
// body ends inside the id (the driver cannot parse it); "silent" = never answered (the driver's timeout ends
// the request); "kill" = the node closes the connection while the PREPARE is outstanding.
func (env *vfC14Env) replyPrepare(h *vfC14Held, mode string) {
	env.mu.Lock()
	defer env.mu.Unlock()
	if h.replied {
		return
	}
	h.replied = true
	switch mode {
	case "error":
		env.tr.Emit("n_prep_reply", "wire", h.wire, "stream", h.f.Stream, "ok", false, "how", "error", "id", vfC14NoID.json())
		h.nc.Reply(h.f, vfOpError, vfErrorBody(0x0000, "vf-prepare-fail", nil))
		return
	case "garbage":
		env.tr.Emit("n_prep_reply", "wire", h.wire, "stream", h.f.Stream, "ok", false, "how", "garbage", "id", vfC14NoID.json())
		h.nc.Reply(h.f, vfOpResult, (&vfW{}).Int(4).Short(50).Raw([]byte("vf")).b)
		return
	case "silent":
		env.tr.Emit("n_prep_lost", "wire", h.wire, "stream", h.f.Stream, "how", "silent")
		return
	case "kill":
		env.kills++
		env.tr.Emit("n_prep_lost", "wire", h.wire, "stream", h.f.Stream, "how", "kill")
		h.nc.Close()
		return
	}
	ent := env.tab[h.key]
	if ent == nil {
		ent = &vfC14NodeEnt{}
		env.tab[h.key] = ent
	}
	if !ent.known {
		ent.known = true
		ent.gen++
	}
	ent.cnt++
	id := vfC14ID{Key: h.key, G: ent.gen}
	if env.uniq {
		id.N = ent.cnt
	}
	st := vfC14StmtByName(h.key.S)
	cols := []vfCol{{"r|" + string(id.bytes()), vfTInt}}
	for i := 1; i < st.NCols; i++ {
		cols = append(cols, vfCol{fmt.Sprintf("x%d", i), vfTInt})
	}
	if !env.lean {
		env.tr.Emit("n_prep_reply", "wire", h.wire, "stream", h.f.Stream, "ok", true, "how", "ok", "id", id.json())
	}
	h.nc.Reply(h.f, vfOpResult, vfPreparedBody(h.f.Version, id.bytes(), h.key.K, "t", st.Arity, cols))
}

func (env *vfC14Env) validLocked(host, ks string, id vfC14ID) bool {
	if id.Key.H != host || id.Key.K != ks {
		return false
	}
	ent := env.tab[id.Key]
	return ent != nil && ent.known && ent.gen == id.G
}

// replyExecute answers EXECUTE / BATCH: rows (void for a batch) when the node knows every id,
// UNPREPARED(first unknown id) otherwise.
func (env *vfC14Env) replyExecute(h *vfC14Held) (kind string) {
	env.mu.Lock()
	defer env.mu.Unlock()
	if h.replied {
		return ""
	}
	h.replied = true
	bad := -1
	for i, id := range h.ids {
		if !h.idsOK || !env.validLocked(h.host, h.nc.Keyspace, id) {
			bad = i
			break
		}
	}
	if bad >= 0 {
		raw := h.q.PreparedID
		if h.kind == "batch" {
			k := 0
			for _, bid := range h.q.BatchIDs {
				if bid == nil {
					continue
				}
				if k == bad {
					raw = bid
				}
				k++
			}
		}
		env.tr.Emit("n_exec_reply", "e", h.e, "kind", "unprepared", "id", h.ids[bad].json())
		h.nc.Reply(h.f, vfOpError, vfUnpreparedBody(raw))
		return "unprepared"
	}
	env.tr.Emit("n_exec_reply", "e", h.e, "kind", "rows", "id", vfC14NoID.json())
	if h.kind == "batch" || len(h.ids) == 0 {
		h.nc.Reply(h.f, vfOpResult, vfVoidBody())
		return "rows"
	}
	id := h.ids[0]
	st := vfC14StmtByName(id.Key.S)
	cols := []vfCol{{"r|" + string(id.bytes()), vfTInt}}
	row := [][]byte{vfCellInt(int32(h.e))}
	for i := 1; i < st.NCols; i++ {
		cols = append(cols, vfCol{fmt.Sprintf("x%d", i), vfTInt})
		row = append(row, vfCellInt(int32(i)))
	}
	skip := h.q.QFlags&0x02 != 0
	h.nc.Reply(h.f, vfOpResult, vfRowsBody(h.f.Version, id.Key.K, "t", cols, [][][]byte{row}, nil, skip))
	return "rows"
}

// ---------------------------------------------------------------- executors

type vfC14Item struct {
	S string `json:"s"`
	N int    `json:"n"`
	// Via: how the statement enters the query / batch. "" or "args": Session.Query(stmt, args...) /
	// Batch.Query(stmt, args...); "bind": a binding callback (Session.Bind / Batch.Bind), which receives the
	// prepared metadata; "qbind" (queries only): Session.Query(stmt).Bind(args...).
	Via string `json:"via"`
}

type vfC14ExecSpec struct {
	E      int         `json:"e"`
	Kind   string      `json:"kind"` // query | batch
	Items  []vfC14Item `json:"items"`
	Conn   []string    `json:"conn"` // pinned (host, keyspace), or empty
	TokLast bool       `json:"toklast"` // batches: the unprepared token entry comes last instead of first
	Cancel time.Duration `json:"-"`  // > 0: cancel the context after this delay
	// burst driver: the executor announces itself (ready++) and spins until *spin != 0, so that several start together
	spin  *int32
	ready *int32
	// reuse: the executor does not build a Query of its own - it binds and executes again the Query value kept here
	// (and leaves the one it executed there): one long-lived Query, used by one executor after the other
	reuse **Query
}

func vfC14Classify(err error) string {
	if err == nil {
		return "ok"
	}
	msg := err.Error()
	var unp *RequestErrUnprepared
	switch {
	case errors.Is(err, context.Canceled), errors.Is(err, context.DeadlineExceeded):
		return "ctx"
	case strings.Contains(msg, "vf-prepare-fail"):
		return "prepare"
	case strings.Contains(msg, "values send got"):
		return "arity"
	case errors.As(err, &unp), strings.Contains(strings.ToLower(msg), "unprepared"):
		return "unprepared"
	case errors.Is(err, ErrTimeoutNoResponse):
		return "timeout"
	case errors.Is(err, ErrConnectionClosed), errors.Is(err, ErrNoConnections), errors.Is(err, ErrSessionClosed),
		errors.Is(err, io.EOF), strings.Contains(msg, "closed"), strings.Contains(msg, "no hosts available"):
		return "closed"
	case strings.Contains(msg, "not enough bytes"):
		return "garbled"
	}
	var ne net.Error
	if errors.As(err, &ne) {
		return "closed"
	}
	return "other"
}

// runExec executes one query / batch on the calling goroutine and logs start and end.
func (env *vfC14Env) runExec(sp vfC14ExecSpec) {
	if env.lean {
		ctx, cancel := context.WithCancel(context.Background())
		defer cancel()
		// everything that takes a lock or time is done before the start signal, so that the goroutines of a
		// round reach the cache within nanoseconds of each other
		var pin *Conn
		var text string
		if sp.Kind == "prepare" && len(sp.Conn) == 2 {
			pin = env.pinned(sp.Conn[0], sp.Conn[1])
			text = vfC14StmtByName(sp.Items[0].S).Text
		}
		if sp.spin != nil {
			atomic.AddInt32(sp.ready, 1)
			for i := 0; atomic.LoadInt32(sp.spin) == 0; i++ {
				if i&0xfff == 0xfff {
					runtime.Gosched()
				}
			}
		}
		var cls string
		if pin != nil {
			_, err := pin.prepareStatement(ctx, text, nil)
			cls = vfC14Classify(err)
			if err == nil {
				cls = "prepared"
			}
		} else {
			cls, _, _ = env.execute(ctx, sp)
		}
		env.mu.Lock()
		env.results[sp.E] = cls
		env.mu.Unlock()
		return
	}
	gid, _ := vfC14Goid()
	env.register(gid, sp.E)
	ctx, cancel := context.WithCancel(vfWithReq(context.Background(), sp.E))
	defer cancel()
	env.mu.Lock()
	env.cancels[sp.E] = cancel
	env.mu.Unlock()
	items := make([]interface{}, 0, len(sp.Items))
	for _, it := range sp.Items {
		items = append(items, map[string]interface{}{"s": it.S, "n": it.N})
	}
	vias := make([]string, 0, len(sp.Items))
	for _, it := range sp.Items {
		v := it.Via
		if v == "" {
			v = "args"
		}
		vias = append(vias, v)
	}
	env.tr.Emit("start", "e", sp.E, "kind", sp.Kind, "items", items, "vias", vias, "toklast", sp.TokLast)
	if sp.Cancel > 0 {
		t := time.AfterFunc(sp.Cancel, func() {
			env.tr.Emit("e_cancel", "e", sp.E)
			cancel()
		})
		defer t.Stop()
	}
	if sp.spin != nil {
		atomic.AddInt32(sp.ready, 1)
		for i := 0; atomic.LoadInt32(sp.spin) == 0; i++ {
			if i&0xfff == 0xfff {
				runtime.Gosched()
			}
		}
	}
	cls, meta, detail := env.execute(ctx, sp)
	if cls == "ctx" && ctx.Err() == nil {
		// not the caller's context: the PREPARE runs on the connection's context, which ends when the connection dies
		cls = "closed"
	}
	env.tr.Emit("e_end", "e", sp.E, "cls", cls, "meta", meta.json(), "detail", detail)
	env.mu.Lock()
	env.results[sp.E] = cls
	env.mu.Unlock()
}

func (env *vfC14Env) cancelExec(e int) {
	env.mu.Lock()
	c := env.cancels[e]
	env.mu.Unlock()
	env.tr.Emit("e_cancel", "e", e)
	if c != nil {
		c()
	}
}

func vfC14Args(e int, n int) []interface{} {
	args := make([]interface{}, n)
	for i := range args {
		args[i] = int32(7)
	}
	if n > 0 {
		args[0] = int32(e)
	}
	return args
}

func (env *vfC14Env) execute(ctx context.Context, sp vfC14ExecSpec) (cls string, meta vfC14ID, detail string) {
	meta = vfC14NoID
	defer func() {
		if r := recover(); r != nil {
			cls, detail = "panic", fmt.Sprint(r)
		}
	}()
	var pin *Conn
	if len(sp.Conn) == 2 {
		pin = env.pinned(sp.Conn[0], sp.Conn[1])
		if pin == nil {
			return "closed", meta, "no such pinned connection"
		}
	}
	// binder returns a binding callback that hands over the values and logs the metadata it was given
	binder := func(it vfC14Item) func(q *QueryInfo) ([]interface{}, error) {
		args := vfC14Args(sp.E, it.N)
		if it.N == 0 && sp.E%2 == 1 {
			args = nil // no values at all: an empty slice for even executors, nil for odd ones
		}
		return func(qi *QueryInfo) ([]interface{}, error) {
			id, ok := vfC14ParseID(qi.Id)
			env.tr.Emit("e_bound", "e", sp.E, "s", it.S, "id", id.json(), "idok", ok, "nargs", len(qi.Args))
			return args, nil
		}
	}
	if sp.Kind == "prepare" {
		// straight into the single-flight PREPARE (what executeQuery / executeBatch call first)
		if pin == nil {
			return "closed", meta, "prepare needs a pinned connection"
		}
		info, err := pin.prepareStatement(ctx, vfC14StmtByName(sp.Items[0].S).Text, nil)
		if err != nil {
			return vfC14Classify(err), meta, err.Error()
		}
		meta, _ = vfC14ParseID(info.id)
		return "prepared", meta, ""
	}
	if sp.Kind == "batch" {
		b := env.sess.NewBatch(LoggedBatch).WithContext(ctx)
		b.CustomPayload = map[string][]byte{"vf-e": []byte(strconv.Itoa(sp.E))}
		tok := fmt.Sprintf("INSERT INTO vftok (e) VALUES (%d)", sp.E) // no values: goes out unprepared
		if !sp.TokLast {
			b.Query(tok)
		}
		for _, it := range sp.Items {
			if it.Via == "bind" {
				b.Bind(vfC14StmtByName(it.S).Text, binder(it))
			} else {
				b.Query(vfC14StmtByName(it.S).Text, vfC14Args(sp.E, it.N)...)
			}
		}
		if sp.TokLast {
			b.Query(tok)
		}
		var err error
		if pin != nil {
			err = pin.executeBatch(ctx, b).Close()
		} else {
			err = env.sess.ExecuteBatch(b)
		}
		cls = vfC14Classify(err)
		if err != nil {
			detail = err.Error()
		}
		return cls, meta, detail
	}
	it := sp.Items[0]
	var q *Query
	switch it.Via {
	case "bind":
		q = env.sess.Bind(vfC14StmtByName(it.S).Text, binder(it)).WithContext(ctx)
	case "qbind":
		if sp.reuse != nil && *sp.reuse != nil {
			q = (*sp.reuse).Bind(vfC14Args(sp.E, it.N)...).WithContext(ctx)
		} else {
			q = env.sess.Query(vfC14StmtByName(it.S).Text).Bind(vfC14Args(sp.E, it.N)...).WithContext(ctx)
		}
		if sp.reuse != nil {
			*sp.reuse = q
		}
	default:
		q = env.sess.Query(vfC14StmtByName(it.S).Text, vfC14Args(sp.E, it.N)...).WithContext(ctx)
	}
	q.CustomPayload(map[string][]byte{"vf-e": []byte(strconv.Itoa(sp.E))})
	if pin != nil {
		q.conn = pin
	}
	iter := q.Iter()
	cols := iter.Columns()
	if len(cols) > 0 && strings.HasPrefix(cols[0].Name, "r|") {
		meta, _ = vfC14ParseID([]byte(cols[0].Name[2:]))
	}
	ncols := len(cols)
	err := iter.Close()
	cls = vfC14Classify(err)
	if err != nil {
		detail = err.Error()
	} else {
		detail = fmt.Sprintf("cols=%d", ncols)
	}
	return cls, meta, detail
}

// pinned returns the live connection for (host, keyspace); after the node killed one, the pool's replacement
// takes over (and is switched to the second keyspace if that is the one that was lost).
func (env *vfC14Env) pinned(h, ks string) *Conn {
	deadline := time.Now().Add(10 * time.Second)
	for {
		env.mu.Lock()
		c := env.conns[[2]string{h, ks}]
		other := env.conns[[2]string{h, map[string]string{"ks1": "ks2", "ks2": "ks1"}[ks]}]
		env.mu.Unlock()
		if c != nil && !c.Closed() {
			return c
		}
		var host *HostInfo
		for _, hi := range env.sess.ring.allHosts() {
			if env.hidOf[hi.HostID()] == h {
				host = hi
			}
		}
		if host != nil {
			if p, ok := env.sess.pool.getPool(host); ok {
				p.mu.RLock()
				cs := append([]*Conn(nil), p.conns...)
				p.mu.RUnlock()
				if len(cs) < env.ncon {
					go p.fill()
				}
				for _, cand := range cs {
					if cand == other || cand.Closed() {
						continue
					}
					if cand.currentKeyspace != ks {
						if err := cand.UseKeyspace(ks); err != nil {
							continue
						}
					}
					env.mu.Lock()
					env.conns[[2]string{h, ks}] = cand
					env.mu.Unlock()
					return cand
				}
			}
		}
		if time.Now().After(deadline) {
			return nil
		}
		time.Sleep(time.Millisecond)
	}
}

// vfC14Mine reports whether a tracer event belongs to the C14 vocabulary.
func vfC14Mine(ev string) bool {
	switch ev {
	case "start", "e_end", "e_cancel", "e_hang", "e_bound", "x_send", "end":
		return true
	}
	return strings.HasPrefix(ev, "c_") && (ev == "c_hit" || ev == "c_miss" || ev == "c_remove" || ev == "c_evict" || ev == "c_gone") ||
		strings.HasPrefix(ev, "n_") && (ev == "n_prepare" || ev == "n_prep_reply" || ev == "n_prep_lost" || ev == "n_execute" || ev == "n_exec_reply" || ev == "n_forget")
}

// tabKeys: the node-side entries (host, keyspace, statement) of statement name s
func (env *vfC14Env) tabKeys(s string) map[vfC14Key]bool {
	env.mu.Lock()
	defer env.mu.Unlock()
	out := map[vfC14Key]bool{}
	for k := range env.tab {
		if k.S == s {
			out[k] = true
		}
	}
	return out
}
