package gocql

// C20, authentication part: replays every behaviour of the authentication machine
// (spec/MC_HandshakeAuth.tla) against a real Session talking to the scripted node and records
// what the node saw (every frame, AUTH_RESPONSE tokens) and what NewSession returned.  The
// recorded events are judged by TLC (spec/Trace_Auth.tla), not here.

import (
	"bufio"
	"bytes"
	"encoding/json"
	"fmt"
	"os"
	"os/exec"
	"strconv"
	"strings"
	"sync"
	"testing"
	"time"
)

type vfC20AuthCase struct {
	ID      int      `json:"id"`
	Kind    string   `json:"kind"` // none | pw | chain
	Allowed []string `json:"allowed"`
	Class   string   `json:"class"`
	Script  []string `json:"script"`
	User    []int    `json:"user"`
	Pass    []int    `json:"pass"`
	Child   bool     `json:"child"` // run in a child process (the driver may take the process down)
	// Inter: another connection's handshake - a PasswordAuthenticator with OTHER credentials (User2/Pass2) - answers
	// its AUTHENTICATE between this connection's Challenge and the moment its AUTH_RESPONSE is built
	Inter bool  `json:"inter"`
	User2 []int `json:"user2"`
	Pass2 []int `json:"pass2"`
}

// vfC20Interleave forces the schedule "connection B's Challenge runs after connection A's Challenge returned and
// before A's AUTH_RESPONSE frame is built": A's token is obtained from the driver's PasswordAuthenticator, then
// B's PasswordAuthenticator (different credentials) answers the same class, then A's token is handed to the
// handshake.  What the node receives must still be A's token.
type vfC20Interleave struct{ own, other PasswordAuthenticator }

func (a vfC20Interleave) Challenge(req []byte) ([]byte, Authenticator, error) {
	tok, next, err := a.own.Challenge(req)
	if err != nil {
		return tok, next, err
	}
	a.other.Challenge(req)
	return tok, next, nil
}
func (a vfC20Interleave) Success(data []byte) error { return a.own.Success(data) }

func vfC20Bytes(l []int) []byte {
	b := make([]byte, len(l))
	for i, x := range l {
		b[i] = byte(x)
	}
	return b
}

func vfC20Ints(b []byte) []int {
	l := make([]int, len(b))
	for i, x := range b {
		l[i] = int(x)
	}
	return l
}

// vfC20EventLog appends one JSON line per event, unbuffered (a crash must not lose lines).
type vfC20EventLog struct {
	mu sync.Mutex
	f  *os.File
}

func (e *vfC20EventLog) Emit(m map[string]interface{}) {
	b, err := json.Marshal(m)
	if err != nil {
		panic(err)
	}
	e.mu.Lock()
	e.f.Write(append(b, '\n'))
	e.mu.Unlock()
}

// vfC20Chain is a caller-supplied multi-step authenticator: the first answer comes from the
// driver's PasswordAuthenticator (approval of the class and the PLAIN token are the driver's),
// challenges are answered with a fixed token.
type vfC20Chain struct{ inner PasswordAuthenticator }

func (a vfC20Chain) Challenge(req []byte) ([]byte, Authenticator, error) {
	resp, _, err := a.inner.Challenge(req)
	if err != nil {
		return nil, nil, err
	}
	return resp, vfC20ChainStep{}, nil
}
func (a vfC20Chain) Success(data []byte) error { return nil }

type vfC20ChainStep struct{}

func (vfC20ChainStep) Challenge(req []byte) ([]byte, Authenticator, error) {
	return []byte("vf-step"), vfC20ChainStep{}, nil
}
func (vfC20ChainStep) Success(data []byte) error { return nil }

func vfC20RunAuthCase(c vfC20AuthCase, seed int, log *vfC20EventLog) {
	user, pass := vfC20Bytes(c.User), vfC20Bytes(c.Pass)
	via := "authenticator"
	if c.Kind == "pw" && (c.ID+seed)%2 == 1 {
		via = "provider"
	}
	if c.Kind == "pw" && c.Inter {
		via = "interleaved"
	}
	proto := 4
	if (c.ID+seed)%5 == 0 {
		proto = 3
	}
	allowed := c.Allowed
	if allowed == nil {
		allowed = []string{}
	}
	log.Emit(map[string]interface{}{"ev": "case", "id": c.ID, "kind": c.Kind, "allowed": allowed, "user": c.User, "pass": c.Pass,
		"via": via, "proto": proto})

	cl := &vfCluster{Partitioner: "org.apache.cassandra.dht.Murmur3Partitioner", Version: "3.11.4"}
	cl.Set([]vfHostDesc{vfDesc(1)})
	n := vfNewNode(cl, vfDesc(1))
	var mu sync.Mutex
	pos := map[int]int{}
	seen := map[int]bool{}
	n.OnFrame = func(nc *vfNodeConn, f *vfFrame, q *vfRequest) {
		mu.Lock()
		if !seen[nc.ID] {
			seen[nc.ID] = true
			log.Emit(map[string]interface{}{"ev": "conn", "id": c.ID, "c": nc.ID})
		}
		mu.Unlock()
		tok := []int{}
		if f.Op == vfOpAuthResponse {
			tok = vfC20Ints(q.AuthToken)
		}
		leak := len(pass) >= 4 && bytes.Contains(f.Body, pass)
		log.Emit(map[string]interface{}{"ev": "cli", "id": c.ID, "c": nc.ID, "op": int(f.Op), "token": tok, "leak": leak})
	}
	answer := func(nc *vfNodeConn, f *vfFrame, what string) {
		log.Emit(map[string]interface{}{"ev": "srv", "id": c.ID, "c": nc.ID, "what": what, "class": c.Class})
		switch what {
		case "ready":
			nc.Reply(f, vfOpReady, nil)
		case "authenticate":
			nc.Reply(f, vfOpAuthenticate, (&vfW{}).String(c.Class).b)
		case "success":
			nc.Reply(f, vfOpAuthSuccess, (&vfW{}).Bytes(nil).b)
		case "challenge":
			nc.Reply(f, vfOpAuthChallenge, (&vfW{}).Bytes([]byte("vf-challenge")).b)
		default:
			nc.Reply(f, vfOpError, vfErrorBody(0x0100, "vf: bad credentials", nil))
		}
	}
	n.Handler = func(nc *vfNodeConn, f *vfFrame, q *vfRequest) bool {
		switch f.Op {
		case vfOpStartup:
			mu.Lock()
			pos[nc.ID] = 0
			mu.Unlock()
			answer(nc, f, c.Script[0])
			return true
		case vfOpAuthResponse:
			mu.Lock()
			pos[nc.ID]++
			k := pos[nc.ID]
			mu.Unlock()
			if k < len(c.Script) {
				answer(nc, f, c.Script[k])
			} else {
				answer(nc, f, "error")
			}
			return true
		}
		return false
	}
	s, _, err := vfSingleNodeSession(n, proto, func(cfg *ClusterConfig) {
		cfg.ConnectTimeout = 3 * time.Second
		// two attempts per pool fill, no 1 s pause between them (the default policy sleeps 3 x 1 s)
		cfg.ReconnectionPolicy = &ConstantReconnectionPolicy{MaxRetries: 2, Interval: time.Millisecond}
		pa := PasswordAuthenticator{Username: string(user), Password: string(pass), AllowedAuthenticators: c.Allowed}
		switch {
		case c.Kind == "pw" && via == "interleaved":
			cfg.Authenticator = vfC20Interleave{own: pa, other: PasswordAuthenticator{Username: string(vfC20Bytes(c.User2)),
				Password: string(vfC20Bytes(c.Pass2)), AllowedAuthenticators: c.Allowed}}
		case c.Kind == "pw" && via == "provider":
			cfg.AuthProvider = func(h *HostInfo) (Authenticator, error) { return pa, nil }
		case c.Kind == "pw":
			cfg.Authenticator = pa
		case c.Kind == "chain":
			cfg.Authenticator = vfC20Chain{inner: pa}
		}
	})
	res := map[string]interface{}{"ev": "result", "id": c.ID, "session": err == nil, "err": "", "crash": false, "query": ""}
	if err != nil {
		res["err"] = err.Error()
	} else {
		if qerr := s.Query("INSERT INTO t (a) VALUES (1)").Exec(); qerr != nil {
			res["query"] = qerr.Error()
		}
		if ok, _ := vfWithin(5*time.Second, s.Close); !ok {
			res["query"] = fmt.Sprint(res["query"], " close-hung")
		}
	}
	n.CloseAll()
	log.Emit(res)
}

func vfC20ReadCases(t *testing.T, path string) []vfC20AuthCase {
	in, err := os.Open(path)
	if err != nil {
		t.Fatal(err)
	}
	defer in.Close()
	var cases []vfC20AuthCase
	sc := bufio.NewScanner(in)
	sc.Buffer(make([]byte, 1<<20), 1<<20)
	for sc.Scan() {
		line := strings.TrimSpace(sc.Text())
		if line == "" {
			continue
		}
		var c vfC20AuthCase
		if err := json.Unmarshal([]byte(line), &c); err != nil {
			t.Fatalf("bad case %q: %v", line, err)
		}
		cases = append(cases, c)
	}
	return cases
}

// TestVfC20Auth runs the cases of VF_C20_CASES; cases marked child run in a re-executed copy
// of this test binary so that a crash of the driver ends the child only.
func TestVfC20Auth(t *testing.T) {
	casesPath, outPath := os.Getenv("VF_C20_CASES"), os.Getenv("VF_C20_TRACE")
	if casesPath == "" || outPath == "" {
		t.Skip("VF_C20_CASES / VF_C20_TRACE not set")
	}
	seed, _ := strconv.Atoi(os.Getenv("VF_SEED"))
	f, err := os.OpenFile(outPath, os.O_CREATE|os.O_WRONLY|os.O_APPEND, 0o644)
	if err != nil {
		t.Fatal(err)
	}
	defer f.Close()
	log := &vfC20EventLog{f: f}
	var cmu sync.Mutex
	ran, crashed := 0, 0
	runOne := func(c vfC20AuthCase) {
		if !c.Child {
			vfC20RunAuthCase(c, seed, log)
			cmu.Lock()
			ran++
			cmu.Unlock()
			return
		}
		b, _ := json.Marshal(c)
		cmd := exec.Command(os.Args[0], "-test.run", "^TestVfC20AuthChild$", "-test.timeout", "60s")
		cmd.Env = append(os.Environ(), "VF_C20_CHILD_CASE="+string(b), "VF_C20_TRACE="+outPath)
		out, cerr := cmd.CombinedOutput()
		cmu.Lock()
		ran++
		cmu.Unlock()
		if cerr != nil && !bytes.Contains(out, []byte("VFCHILD done")) {
			cmu.Lock()
			crashed++
			cmu.Unlock()
			msg := "exit: " + cerr.Error()
			for _, ln := range strings.Split(string(out), "\n") {
				if strings.HasPrefix(ln, "panic:") || strings.HasPrefix(ln, "fatal error:") || strings.Contains(ln, "[signal ") {
					msg += " | " + strings.TrimSpace(ln)
				}
			}
			site := ""
			for _, ln := range strings.Split(string(out), "\n") {
				if strings.Contains(ln, "/conn.go:") && site == "" {
					site = strings.TrimSpace(ln)
				}
			}
			log.Emit(map[string]interface{}{"ev": "result", "id": c.ID, "session": false, "err": msg, "crash": true, "query": site})
		}
	}
	// sessions are independent of each other: a few run side by side
	work := make(chan vfC20AuthCase)
	var wg sync.WaitGroup
	for i := 0; i < 6; i++ {
		wg.Add(1)
		go func() {
			defer wg.Done()
			for c := range work {
				runOne(c)
			}
		}()
	}
	for _, c := range vfC20ReadCases(t, casesPath) {
		work <- c
	}
	close(work)
	wg.Wait()
	fmt.Printf("VFSUMMARY {\"cases\":%d,\"crashed\":%d}\n", ran, crashed)
}

func TestVfC20AuthChild(t *testing.T) {
	cs := os.Getenv("VF_C20_CHILD_CASE")
	if cs == "" {
		t.Skip("not a child")
	}
	var c vfC20AuthCase
	if err := json.Unmarshal([]byte(cs), &c); err != nil {
		t.Fatal(err)
	}
	seed, _ := strconv.Atoi(os.Getenv("VF_SEED"))
	f, err := os.OpenFile(os.Getenv("VF_C20_TRACE"), os.O_CREATE|os.O_WRONLY|os.O_APPEND, 0o644)
	if err != nil {
		t.Fatal(err)
	}
	defer f.Close()
	vfC20RunAuthCase(c, seed, &vfC20EventLog{f: f})
	fmt.Println("VFCHILD done")
}

// TestVfC20Held: unit level, held-and-re-read.  For every ordered pair of different credential sets (A, B):
// A's token is obtained, B's Challenge runs, then A's token is re-read (what a connection does when it builds its
// AUTH_RESPONSE after other connections authenticated).  Recorded as connection traces in the vocabulary of
// spec/Trace_Auth.tla, so the same monitor judges them.
func TestVfC20Held(t *testing.T) {
	credsPath, outPath := os.Getenv("VF_C20_CREDS"), os.Getenv("VF_C20_HELD")
	if credsPath == "" || outPath == "" {
		t.Skip("VF_C20_CREDS / VF_C20_HELD not set")
	}
	type cred struct {
		User []int `json:"user"`
		Pass []int `json:"pass"`
	}
	var creds []cred
	in, err := os.Open(credsPath)
	if err != nil {
		t.Fatal(err)
	}
	sc := bufio.NewScanner(in)
	sc.Buffer(make([]byte, 1<<20), 1<<20)
	for sc.Scan() {
		var c cred
		if strings.TrimSpace(sc.Text()) == "" {
			continue
		}
		if err := json.Unmarshal([]byte(sc.Text()), &c); err != nil {
			t.Fatal(err)
		}
		creds = append(creds, c)
	}
	in.Close()
	f, err := os.Create(outPath)
	if err != nil {
		t.Fatal(err)
	}
	defer f.Close()
	log := &vfC20EventLog{f: f}
	const class = "org.apache.cassandra.auth.PasswordAuthenticator"
	id := 0
	emitConn := func(c cred, tok []byte, how string) {
		log.Emit(map[string]interface{}{"ev": "case", "id": id, "kind": "pw", "allowed": []string{}, "user": c.User, "pass": c.Pass,
			"via": how, "proto": 4})
		log.Emit(map[string]interface{}{"ev": "conn", "id": id, "c": 1})
		log.Emit(map[string]interface{}{"ev": "srv", "id": id, "c": 1, "what": "authenticate", "class": class})
		log.Emit(map[string]interface{}{"ev": "cli", "id": id, "c": 1, "op": 15, "token": vfC20Ints(tok), "leak": false})
		log.Emit(map[string]interface{}{"ev": "srv", "id": id, "c": 1, "what": "success", "class": class})
		log.Emit(map[string]interface{}{"ev": "result", "id": id, "session": true, "err": "", "crash": false, "query": ""})
		id++
	}
	for i, a := range creds {
		for j, b := range creds {
			if i == j {
				continue
			}
			pa := PasswordAuthenticator{Username: string(vfC20Bytes(a.User)), Password: string(vfC20Bytes(a.Pass))}
			pb := PasswordAuthenticator{Username: string(vfC20Bytes(b.User)), Password: string(vfC20Bytes(b.Pass))}
			tokA, _, errA := pa.Challenge([]byte(class))
			tokB, _, errB := pb.Challenge([]byte(class))
			if errA != nil || errB != nil {
				t.Fatalf("Challenge refused the default class: %v %v", errA, errB)
			}
			// both tokens are looked at AFTER both authenticators ran
			emitConn(a, tokA, "held-first")
			emitConn(b, tokB, "held-second")
		}
	}
	fmt.Printf("VFSUMMARY {\"held_tokens\":%d}\n", id)
}

// TestVfC20PerHost: an AuthProvider that hands out a DIFFERENT PasswordAuthenticator per host (own credentials, own
// approved class). Two contact points; each node demands the class that only the OTHER host's authenticator
// approves. "Credentials are sent only to a class on the approved list" is a statement about each connection's
// authenticator: the dialogue of each node is written as a case of its own (the configuration of THAT host), grouped
// per connection as Trace_Auth.tla reads them.
func TestVfC20PerHost(t *testing.T) {
	outPath := os.Getenv("VF_C20_PERHOST")
	if outPath == "" {
		t.Skip("VF_C20_PERHOST not set")
	}
	f, err := os.Create(outPath)
	if err != nil {
		t.Fatal(err)
	}
	defer f.Close()
	log := &vfC20EventLog{f: f}
	type hostCfg struct {
		user, pass, allowed, demands string
	}
	nsess, nresp := 0, 0
	id := 0
	for rep := 0; rep < 8; rep++ {
		proto := 3 + rep%2
		ka, kb := fmt.Sprintf("com.example.vf.AuthA%d", rep), fmt.Sprintf("com.example.vf.AuthB%d", rep)
		hc := map[int]hostCfg{
			1: {"alice", fmt.Sprintf("secret-of-A-%d", rep), ka, kb},
			2: {"bob", fmt.Sprintf("secret-of-B-%d", rep), kb, ka},
		}
		if rep >= 6 {
			// control: every node demands the class its own host's authenticator approves - credentials do flow
			hc[1] = hostCfg{"alice", hc[1].pass, ka, ka}
			hc[2] = hostCfg{"bob", hc[2].pass, kb, kb}
		}
		cl := &vfCluster{Partitioner: "org.apache.cassandra.dht.Murmur3Partitioner", Version: "3.11.4"}
		cl.Set([]vfHostDesc{vfDesc(1), vfDesc(2)})
		var mu sync.Mutex
		events := map[int]map[int][]map[string]interface{}{1: {}, 2: {}} // node -> connection -> events
		order := map[int][]int{}
		put := func(node, c int, m map[string]interface{}) {
			mu.Lock()
			if _, ok := events[node][c]; !ok {
				order[node] = append(order[node], c)
			}
			events[node][c] = append(events[node][c], m)
			mu.Unlock()
		}
		nodes := map[int]*vfNode{}
		for i := 1; i <= 2; i++ {
			i := i
			n := vfNewNode(cl, vfDesc(i))
			pass := []byte(hc[1].pass)
			pass2 := []byte(hc[2].pass)
			n.OnFrame = func(nc *vfNodeConn, f *vfFrame, q *vfRequest) {
				tok := []int{}
				if f.Op == vfOpAuthResponse {
					tok = vfC20Ints(q.AuthToken)
				}
				leak := bytes.Contains(f.Body, pass) || bytes.Contains(f.Body, pass2)
				put(i, nc.ID, map[string]interface{}{"ev": "cli", "c": nc.ID, "op": int(f.Op), "token": tok, "leak": leak})
			}
			n.Handler = func(nc *vfNodeConn, f *vfFrame, q *vfRequest) bool {
				switch f.Op {
				case vfOpStartup:
					put(i, nc.ID, map[string]interface{}{"ev": "srv", "c": nc.ID, "what": "authenticate", "class": hc[i].demands})
					nc.Reply(f, vfOpAuthenticate, (&vfW{}).String(hc[i].demands).b)
					return true
				case vfOpAuthResponse:
					put(i, nc.ID, map[string]interface{}{"ev": "srv", "c": nc.ID, "what": "success", "class": hc[i].demands})
					nc.Reply(f, vfOpAuthSuccess, (&vfW{}).Bytes(nil).b)
					return true
				}
				return false
			}
			nodes[i] = n
		}
		d := vfNewDialer(nodes[1], nodes[2])
		cfg := vfClusterConfig(d, proto, nodes[1].Desc.Addr, nodes[2].Desc.Addr)
		cfg.ConnectTimeout = 3 * time.Second
		cfg.Timeout = 3 * time.Second
		cfg.ReconnectionPolicy = &ConstantReconnectionPolicy{MaxRetries: 2, Interval: time.Millisecond}
		cfg.AuthProvider = func(h *HostInfo) (Authenticator, error) {
			k := 1
			if h.ConnectAddress().String() == nodes[2].Desc.Addr {
				k = 2
			}
			return PasswordAuthenticator{Username: hc[k].user, Password: hc[k].pass, AllowedAuthenticators: []string{hc[k].allowed}}, nil
		}
		s, serr := NewSession(*cfg)
		nsess++
		if serr == nil {
			s.Query("INSERT INTO t (a) VALUES (1)").Exec()
			vfWithin(5*time.Second, s.Close)
		}
		nodes[1].CloseAll()
		nodes[2].CloseAll()
		time.Sleep(5 * time.Millisecond)
		mu.Lock()
		for i := 1; i <= 2; i++ {
			log.Emit(map[string]interface{}{"ev": "case", "id": id, "kind": "pw", "allowed": []string{hc[i].allowed}, "user": vfC20Ints([]byte(hc[i].user)),
				"pass": vfC20Ints([]byte(hc[i].pass)), "via": "provider-per-host", "proto": proto})
			for _, c := range order[i] {
				log.Emit(map[string]interface{}{"ev": "conn", "id": id, "c": c})
				for _, m := range events[i][c] {
					m["id"] = id
					if m["ev"] == "cli" && m["op"] == int(vfOpAuthResponse) {
						nresp++
					}
					log.Emit(m)
				}
			}
			errText := ""
			if serr != nil {
				errText = serr.Error()
			}
			log.Emit(map[string]interface{}{"ev": "result", "id": id, "session": serr == nil, "err": errText, "crash": false, "query": ""})
			id++
		}
		mu.Unlock()
	}
	fmt.Printf("VFSUMMARY {\"sessions\":%d,\"auth_responses\":%d}\n", nsess, nresp)
}
