----------------------------- MODULE Gen_Cluster -----------------------------
(* History generator for the replay against the real Session (C16).  A step of *)
(* a history is one driver-visible action of Cluster.tla, possibly together    *)
(* with a change of what the cluster reports; the history records, per step,   *)
(* the action, the peer rows reported from then on, and the driver state the   *)
(* model expects at quiescence.  BFS prints every history of length GenDepth   *)
(* (each prefix is checked on the way); -simulate prints random ones.          *)
EXTENDS Cluster, Json

CONSTANTS MaxLen, WithBad, WithDup, GenDepth, Sim, Mixed

VARIABLE hist
gvars == <<truth, g, d, nref, hist>>

RowSet == [id : Ids, addr : Addrs, inv : IF WithBad THEN {"ok", "bad"} ELSE {"ok"}]
\* system.peers is keyed by the peer address: rows have distinct addresses
GoodList(s) ==
  /\ \A j, k \in 1 .. Len(s) : j < k => s[j].addr # s[k].addr
  /\ WithDup \/ \A j, k \in 1 .. Len(s) : j < k => s[j].id # s[k].id
  /\ Cardinality({k \in 1 .. Len(s) : s[k].inv # "ok"}) <= 1
Lists == {s \in UNION {[1 .. n -> RowSet] : n \in 0 .. MaxLen} : GoodList(s)}

CanonIds == <<"i1", "i2", "i3", "i4">>
CanonAddrs == <<"a1", "a2", "a3", "a4">>

Ev(k, a) == [kind |-> k, addr |-> a]
StatusBatches ==
  {<<Ev(k, a)>> : k \in {"UP", "DOWN"}, a \in AllAddrs}
  \cup {<<Ev("UP", a), Ev("DOWN", a)>> : a \in AllAddrs} \cup {<<Ev("DOWN", a), Ev("UP", a)>> : a \in AllAddrs}
TopoBatches ==
  {<<Ev(k, a)>> : k \in {"NEW_NODE", "REMOVED_NODE"}, a \in AllAddrs}
  \cup {<<Ev("NEW_NODE", a), Ev(k, a)>> : k \in {"UP", "DOWN"}, a \in AllAddrs}
  \cup {<<Ev("DOWN", a), Ev("REMOVED_NODE", a)>> : a \in AllAddrs}

\* concrete kinds of invalid rows, rotated with the position in the history
BadKinds == <<"notokens", "norack", "nodc", "norpc", "nohostid">>
Concrete(rows, n) ==
  [k \in 1 .. Len(rows) |-> [id |-> rows[k].id, addr |-> rows[k].addr,
                              inv |-> IF rows[k].inv = "ok" THEN "ok" ELSE BadKinds[((n + k) % 5) + 1]]]

Pairs(f) == {[id |-> i, addr |-> f[i]] : i \in DOMAIN f}
RevPairs(f) == {[id |-> f[a], addr |-> a] : a \in DOMAIN f}
Exp(dd, n) == [hosts |-> Pairs(dd.hosts), byaddr |-> RevPairs(dd.byAddr), pool |-> dd.pool, pol |-> dd.pol,
               down |-> dd.down, refreshes |-> n]

Rec(op, rows, fail, evs, a) ==
  hist' = Append(hist, [op |-> op, rows |-> Concrete(rows, Len(hist)), fail |-> fail, evs |-> evs, addr |-> a,
                        exp |-> Exp(d', nref')])

Init == InitWith(<<>>) /\ hist = <<>>

\* In simulation every kind of step gets the same weight (one random instance per kind).
\* (the index set mentions the state so that TLC does not cache the choice as a constant)
RECURSIVE SeqOf(_)
SeqOf(S) == IF S = {} THEN <<>> ELSE LET x == CHOOSE y \in S : TRUE IN <<x>> \o SeqOf(S \ {x})
Pick(S) == IF Sim THEN {RandomElement({x \in S : Len(hist) >= 0})} ELSE S
ListSeq == SeqOf(Lists)
PickList == IF Sim THEN {ListSeq[RandomElement(1 .. (Len(ListSeq) + 0 * Len(hist)))]} ELSE Lists

\* ids and addresses are interchangeable: the first step of an enumerated history uses
\* canonical lists (i1 at a1, i2 at a2, ...) and the first peer address only
CanonLists == {[k \in 1 .. n |-> [id |-> CanonIds[k], addr |-> CanonAddrs[k], inv |-> "ok"]] : n \in 0 .. MaxLen}
L0 == IF Len(hist) = 0 /\ ~Sim THEN CanonLists ELSE Lists
A0 == IF Len(hist) = 0 /\ ~Sim THEN {C0addr, CanonAddrs[1]} ELSE AllAddrs
\* a list that differs from the current truth (for refreshes that fail: nothing of it may be applied)
Other == IF truth = <<>> THEN <<[id |-> CanonIds[1], addr |-> CanonAddrs[1], inv |-> "ok"]>> ELSE <<>>

RefreshSteps == \E l \in (IF Sim THEN PickList ELSE L0) : Refresh(l, "none") /\ Rec("refresh", l, "none", <<>>, "")

MixedSteps ==
  \/ \E f \in Pick({"local", "peers"}) : Refresh(Other, f) /\ Rec("refresh", Other, f, <<>>, "")
  \/ \E b \in Pick({x \in StatusBatches : x[1].addr \in A0}) : Events(truth, b) /\ Rec("events", truth, "none", b, "")
  \/ \E b \in Pick({<<Ev("NEW_NODE", CanonAddrs[1])>>}) : \E l \in (IF Sim THEN PickList ELSE L0) : Events(l, b) /\ Rec("events", l, "none", b, "")
  \/ \E b \in Pick({x \in TopoBatches : x[1].addr \in A0 /\ (Sim \/ x # <<Ev("NEW_NODE", CanonAddrs[1])>>)}) :
        \E l \in (IF Sim THEN PickList ELSE {truth}) : Events(l, b) /\ Rec("events", l, "none", b, "")
  \/ Sim /\ \E b \in Pick({<<Ev("UP", a)>> : a \in Addrs}) : \E l \in PickList : Events(l, b) /\ Rec("events", l, "none", b, "")
  \/ \E a \in Pick(A0) : NodeFail(truth, a) /\ Rec("nodefail", truth, "none", <<>>, a)
  \/ \E a \in Pick(Addrs) : NodeRecover(truth, a) /\ Rec("noderecover", truth, "none", <<>>, a)
  \/ \E l \in (IF Sim THEN PickList ELSE {truth, Other}) : NodeRecover(l, C0addr) /\ Rec("noderecover", l, "none", <<>>, C0addr)
  \/ \E l \in (IF Sim THEN PickList ELSE {truth, Other}) : ControlLost(l) /\ Rec("ctllost", l, "none", <<>>, "")

Next ==
  /\ Len(hist) < GenDepth
  /\ \/ RefreshSteps
     \/ Mixed /\ MixedSteps

Spec == Init /\ [][Next]_gvars

Emit == Len(hist) = GenDepth => PrintT(<<"HIST", ToJson([exp0 |-> Exp(FreshSession(<<>>, Filt, AllAddrs), 0), steps |-> hist])>>)
=============================================================================
